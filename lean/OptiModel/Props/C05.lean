import OptiModel.Model.Merid
import OptiModel.Model.Parax
import OptiModel.Proofs.NumReal
import Mathlib.Tactic.FieldSimp
import Mathlib.Tactic.Ring
import Mathlib.Tactic.LinearCombination
import Mathlib.Tactic.Positivity
import Mathlib.Tactic.Linarith
/-!
# C05  Real rays converge to the paraxial prediction as aperture and field vanish

The real-ray step is evaluated over first-order jets `a + bε` (`Dual`): seeding the axial
ray with `y = 0 + ε y₁`, `M = 0 + ε m₁` and reading the ε-coefficients gives the derivative
of the real trace with respect to the scale factor at 0, i.e. `lim real(ε)/ε`.  The theorems
say that this derivative is the paraxial transfer + refraction.
-/
namespace C05
open Model

/-- first-order jets a + bε over ℝ -/
structure Dual where
  v : ℝ
  d : ℝ

open Classical in
noncomputable instance : Num Dual where
  add a b := ⟨a.v + b.v, a.d + b.d⟩
  sub a b := ⟨a.v - b.v, a.d - b.d⟩
  mul a b := ⟨a.v * b.v, a.v * b.d + a.d * b.v⟩
  div a b := ⟨a.v / b.v, (a.d * b.v - a.v * b.d) / (b.v * b.v)⟩
  neg a := ⟨-a.v, -a.d⟩
  zero := ⟨0, 0⟩
  one := ⟨1, 0⟩
  two := ⟨2, 0⟩
  ofRat p q := ⟨(p:ℝ)/(q:ℝ), 0⟩
  inf := ⟨0, 0⟩
  sqrt a := ⟨Real.sqrt a.v, a.d / (2 * Real.sqrt a.v)⟩
  abs a := ⟨|a.v|, if 0 ≤ a.v then a.d else -a.d⟩
  lt a b := decide (a.v < b.v)
  le a b := decide (a.v ≤ b.v)
  sin a := ⟨Real.sin a.v, Real.cos a.v * a.d⟩
  cos a := ⟨Real.cos a.v, -(Real.sin a.v) * a.d⟩
  tan a := ⟨Real.tan a.v, a.d / (Real.cos a.v * Real.cos a.v)⟩
  asin a := ⟨Real.arcsin a.v, a.d / Real.sqrt (1 - a.v * a.v)⟩
  acos a := ⟨Real.arccos a.v, -a.d / Real.sqrt (1 - a.v * a.v)⟩
  exp a := ⟨Real.exp a.v, Real.exp a.v * a.d⟩
  atan2 y x := ⟨Real.arctan (y.v / x.v), (x.v * y.d - y.v * x.d) / (x.v * x.v + y.v * y.v)⟩
  pi := ⟨Real.pi, 0⟩

namespace NumDual
theorem add_eq (a b : Dual) : @HAdd.hAdd Dual Dual Dual (@instHAdd Dual Num.instAdd) a b = ⟨a.v + b.v, a.d + b.d⟩ := rfl
theorem sub_eq (a b : Dual) : @HSub.hSub Dual Dual Dual (@instHSub Dual Num.instSub) a b = ⟨a.v - b.v, a.d - b.d⟩ := rfl
theorem mul_eq (a b : Dual) : @HMul.hMul Dual Dual Dual (@instHMul Dual Num.instMul) a b = ⟨a.v * b.v, a.v * b.d + a.d * b.v⟩ := rfl
theorem div_eq (a b : Dual) : @HDiv.hDiv Dual Dual Dual (@instHDiv Dual Num.instDiv) a b = ⟨a.v / b.v, (a.d * b.v - a.v * b.d) / (b.v * b.v)⟩ := rfl
theorem neg_eq (a : Dual) : @Neg.neg Dual Num.instNeg a = ⟨-a.v, -a.d⟩ := rfl
theorem zero_eq : @OfNat.ofNat Dual 0 Num.inst0 = ⟨0,0⟩ := rfl
theorem one_eq : @OfNat.ofNat Dual 1 Num.inst1 = ⟨1,0⟩ := rfl
theorem two_eq : @OfNat.ofNat Dual 2 Num.inst2 = ⟨2,0⟩ := rfl
theorem fzero_eq : (Num.zero : Dual) = ⟨0,0⟩ := rfl
theorem fone_eq : (Num.one : Dual) = ⟨1,0⟩ := rfl
theorem fneg_eq (a : Dual) : Num.neg a = ⟨-a.v, -a.d⟩ := rfl
theorem inf_eq : (Num.inf : Dual) = ⟨0,0⟩ := rfl
theorem ofRat_eq (p q : ℕ) : (Num.ofRat p q : Dual) = ⟨(p:ℝ)/(q:ℝ), 0⟩ := rfl
theorem sqrt_eq (a : Dual) : Num.sqrt a = ⟨Real.sqrt a.v, a.d / (2 * Real.sqrt a.v)⟩ := rfl
theorem abs_eq (a : Dual) : Num.abs a = ⟨|a.v|, if 0 ≤ a.v then a.d else -a.d⟩ := rfl
theorem lt_eq (a b : Dual) : (Num.lt a b = true) = (a.v < b.v) := by
  show (decide (a.v < b.v) = true) = (a.v < b.v); simp
theorem le_eq (a b : Dual) : (Num.le a b = true) = (a.v ≤ b.v) := by
  show (decide (a.v ≤ b.v) = true) = (a.v ≤ b.v); simp
theorem isZero_eq (a : Dual) : (Num.isZero a = true) = (a.v = 0) := by
  unfold Num.isZero
  rw [Bool.and_eq_true, le_eq, le_eq, fzero_eq]
  exact propext ⟨fun h => le_antisymm h.1 h.2, fun h => ⟨h.le, h.ge⟩⟩
end NumDual

theorem Dual.ext' {a b : Dual} (h1 : a.v = b.v) (h2 : a.d = b.d) : a = b := by
  cases a; cases b; simp_all

/-- the distance from the axial seed ray to a conic with R > 0, 1 + k > 0: value `-z₀`, no
first-order change (the vertex is reached whatever the small height and slope) -/
theorem mdist_seed (k R z0 y1 m1 : ℝ) (hR : 0 < R) (hk : 0 < 1 + k) (hz : z0 ≤ 0) :
    mdist (α := Dual) ⟨k,0⟩ ⟨R,0⟩ ⟨⟨0,y1⟩, ⟨z0,0⟩, ⟨0,m1⟩, ⟨1,0⟩⟩ = ⟨-z0, 0⟩ := by
  have hk' : (k + 1) ≠ 0 := by linarith
  have hrad : (2 * k * z0 - 2 * R + 2 * z0) * (2 * k * z0 - 2 * R + 2 * z0) -
      4 / 1 * (k + 1) * (k * (z0 * z0) - 2 * R * z0 + z0 * z0) = (2*R)^2 := by ring
  simp only [mdist, selectRoot, maskNeg, NumDual.add_eq, NumDual.sub_eq, NumDual.mul_eq, NumDual.div_eq,
    NumDual.neg_eq, NumDual.two_eq, NumDual.zero_eq, NumDual.sqrt_eq, NumDual.abs_eq, NumDual.lt_eq,
    NumDual.le_eq, NumDual.isZero_eq, NumDual.ofRat_eq, NumDual.inf_eq,
    mul_zero, zero_mul, add_zero, zero_add, mul_one, one_mul, sub_zero, neg_zero, zero_div, zero_sub,
    Nat.cast_ofNat, Nat.cast_one]
  rw [hrad, Real.sqrt_sq (by positivity)]
  have h2 : (-(2 * k * z0 - 2 * R + 2 * z0) - 2 * R) / (2 * (k + 1)) = -z0 := by
    field_simp; ring
  have h1 : (-(2 * k * z0 - 2 * R + 2 * z0) + 2 * R) / (2 * (k + 1)) = 2*R/(k+1) - z0 := by
    field_simp; ring
  rw [h1, h2]
  have hk1 : 0 < k + 1 := by linarith
  have hpos : 0 < 2*R/(k+1) := div_pos (by positivity) hk1
  have p1 : ¬ (2*R/(k+1) - z0 < 0) := by linarith
  have p2 : ¬ (-z0 < 0) := by linarith
  have pk : ¬ (k + 1 = 0) := hk'
  simp only [p1, p2, if_false, pk]
  have hz1 : z0 + (2*R/(k+1) - z0) = 2*R/(k+1) := by ring
  have hz2 : z0 + -z0 = 0 := by ring
  rw [hz1, hz2, abs_zero]
  have : ¬ (|2*R/(k+1)| ≤ 0) := by
    rw [abs_of_pos hpos]; linarith
  simp only [this, if_false]

/-- **real_jet_eq_paraxial** (one refracting conic surface): the first-order jet of the real
refraction, seeded on the axis, is the paraxial transfer and refraction:
`y' = y₁ − z₀ m₁`, `M' = (n₁/n₂) m₁ − (1 − n₁/n₂) y'/R`, `N' = 1 + 0·ε`. -/
theorem mstep_jet (k R n1 n2 z0 y1 m1 : ℝ) (hR : 0 < R) (hk : 0 < 1 + k)
    (hn1 : 0 < n1) (hn2 : 0 < n2) (hz : z0 ≤ 0) :
    let out := (mstep (α := Dual) ⟨k,0⟩ ⟨R,0⟩ ⟨n1,0⟩ ⟨n2,0⟩ ⟨⟨0,y1⟩, ⟨z0,0⟩, ⟨0,m1⟩, ⟨1,0⟩⟩).1
    out.y = ⟨0, y1 - z0*m1⟩ ∧ out.z = ⟨0, 0⟩ ∧
      out.M = ⟨0, (n1/n2)*m1 - (1 - n1/n2) * (y1 - z0*m1) / R⟩ ∧ out.N = ⟨1, 0⟩ := by
  have hR' : R ≠ 0 := ne_of_gt hR
  have hn2' : n2 ≠ 0 := ne_of_gt hn2
  simp only [mstep, mdist_seed k R z0 y1 m1 hR hk hz]
  simp only [mnormal, mrefract, malign, Num.sign, NumDual.add_eq, NumDual.sub_eq, NumDual.mul_eq,
    NumDual.div_eq, NumDual.neg_eq, NumDual.zero_eq, NumDual.one_eq, NumDual.two_eq, NumDual.sqrt_eq,
    NumDual.abs_eq, NumDual.lt_eq, NumDual.fzero_eq, NumDual.fone_eq, NumDual.fneg_eq,
    mul_zero, zero_mul, add_zero, zero_add, mul_one, one_mul, sub_zero, neg_zero, zero_div,
    zero_sub, Real.sqrt_one, neg_neg, sub_self, add_neg_cancel, neg_add_cancel]
  have e1 : ¬ ((0:ℝ) < -1) := by norm_num
  have e2 : ((-1:ℝ) < 0) := by norm_num
  have e3 : ¬ ((0:ℝ) ≤ -1) := by norm_num
  simp only [div_one, e1, e2, e3, if_true, if_false, abs_neg, abs_one, mul_one, sub_self, mul_zero,
    sub_zero, Real.sqrt_one, zero_mul, add_zero, neg_zero, zero_div, mul_neg, neg_neg, neg_mul]
  refine ⟨?_, ?_, ?_, ?_⟩
  · apply Dual.ext' <;> simp <;> ring1
  · trivial
  · apply Dual.ext'
    · simp
    · simp only []; field_simp; ring1
  · apply Dual.ext' <;> simp

/-- the paraxial step of the same surface (vertex at z = 0 in its own frame), for comparison:
`Surface._trace_paraxial` gives exactly the jet's ε-coefficients -/
theorem jet_is_pstep (R n1 n2 z0 y1 m1 : ℝ) (hn2 : n2 ≠ 0) :
    let p := pstepStd ⟨y1, m1, z0⟩ ⟨.standard, 0, 0, R, n1, n2, false, false⟩
    p.y = y1 - z0*m1 ∧ p.u = (n1/n2)*m1 - (1 - n1/n2) * (y1 - z0*m1) / R := by
  intro p
  simp only [p, pstepStd]
  num_real
  simp only [Bool.false_eq_true, if_false]
  constructor
  · ring
  · by_cases hR : R = 0
    · simp [hR]; field_simp
    · field_simp; ring

/-! ### the meridional real step is odd: no even orders in the scale factor -/

/-- reflecting the ray in the axis (y, M) ↦ (−y, −M) -/
def flip (r : MRay ℝ) : MRay ℝ := ⟨-r.y, r.z, -r.M, r.N⟩

/-- **real_trace_odd** (intersection): the distance to a conic is even in (y, M) -/
theorem mdist_even (k R : ℝ) (r : MRay ℝ) : mdist k R (flip r) = mdist k R r := by
  unfold mdist flip
  num_real
  have ea : k * (r.N * r.N) + -r.M * -r.M + r.N * r.N = k * (r.N * r.N) + r.M * r.M + r.N * r.N := by ring
  have eb : 2 * k * r.N * r.z + 2 * -r.M * -r.y - 2 * r.N * R + 2 * r.N * r.z =
      2 * k * r.N * r.z + 2 * r.M * r.y - 2 * r.N * R + 2 * r.N * r.z := by ring
  have ec : k * (r.z * r.z) - 2 * R * r.z + -r.y * -r.y + r.z * r.z =
      k * (r.z * r.z) - 2 * R * r.z + r.y * r.y + r.z * r.z := by ring
  rw [ea, eb, ec]

/-- the conic normal is odd in y (its z-component even) -/
theorem mnormal_odd (k R y : ℝ) : mnormal k R (-y) = (-(mnormal k R y).1, (mnormal k R y).2) := by
  unfold mnormal
  num_real
  have e : -y * -y = y * y := by ring
  rw [e]
  set den := R * Real.sqrt (1 - (1 + k) * (y * y) / (R * R))
  have e2 : -y / den * (-y / den) = y / den * (y / den) := by ring
  rw [e2]
  simp only [Prod.mk.injEq, and_true]
  rw [neg_div, neg_div]

/-- refraction is odd: flipping (M, ny) flips M' and keeps N' -/
theorem mrefract_odd (n1 n2 M N ny nz : ℝ) :
    mrefract n1 n2 (-M) N (-ny) nz = (-(mrefract n1 n2 M N ny nz).1, (mrefract n1 n2 M N ny nz).2) := by
  unfold mrefract malign
  num_real
  have e : -M * -ny + N * nz = M * ny + N * nz := by ring
  simp only [e, Prod.mk.injEq, and_true]
  ring

/-! ### non-vacuity -/
example : (0:ℝ) < 50 ∧ (0:ℝ) < 1 + (-0.5) ∧ (0:ℝ) < 1 ∧ (0:ℝ) < 1.5 ∧ (-10:ℝ) ≤ 0 := by norm_num

end C05

/-! ## Extension: every conic / plane / mirror surface, both directions of travel, whole lens

Everything below is about the axial seed ray `y = 0 + ε y₁`, `z = z₀`, `M = 0 + ε m₁`,
`N = s` with `s = ±1` the direction of travel (`s = -1` after an odd number of mirrors). -/
namespace C05
open Model
set_option linter.unusedSimpArgs false
set_option linter.unnecessarySeqFocus false

/- the model's scoped `Num` notation, on `Dual` only (opening the scope would also capture the
literals and `/` of ℝ in the statements) -/
local infixl:65 " +ᵈ " => @HAdd.hAdd Dual Dual Dual (@instHAdd Dual Num.instAdd)
local infixl:65 " -ᵈ " => @HSub.hSub Dual Dual Dual (@instHSub Dual Num.instSub)
local infixl:70 " *ᵈ " => @HMul.hMul Dual Dual Dual (@instHMul Dual Num.instMul)
local infixl:70 " /ᵈ " => @HDiv.hDiv Dual Dual Dual (@instHDiv Dual Num.instDiv)
local prefix:75 "-ᵈ " => @Neg.neg Dual Num.instNeg
local notation "twoᵈ" => @OfNat.ofNat Dual 2 Num.inst2

/-! ### the root selection of `selectRoot` over jets -/

theorem selectRoot_linear (a b c z N : Dual) (ha : a.v = 0) : selectRoot a b c z N = -ᵈ c /ᵈ b := by
  unfold selectRoot
  simp only []
  rw [if_pos]
  rw [NumDual.isZero_eq]; exact ha
theorem maskNeg_keep (t w : Dual) (h : ¬ t.v < 0) : maskNeg t w = t := by
  unfold maskNeg
  rw [if_neg]
  rw [NumDual.lt_eq]; exact h
theorem selectRoot_first (a b c z N : Dual) (ha : a.v ≠ 0)
    (h1 : ¬ ((-ᵈ b +ᵈ Num.sqrt (b *ᵈ b -ᵈ Num.ofRat 4 1 *ᵈ a *ᵈ c)) /ᵈ (twoᵈ *ᵈ a)).v < 0)
    (hz : (z +ᵈ ((-ᵈ b +ᵈ Num.sqrt (b *ᵈ b -ᵈ Num.ofRat 4 1 *ᵈ a *ᵈ c)) /ᵈ (twoᵈ *ᵈ a)) *ᵈ N).v = 0) :
    selectRoot a b c z N = (-ᵈ b +ᵈ Num.sqrt (b *ᵈ b -ᵈ Num.ofRat 4 1 *ᵈ a *ᵈ c)) /ᵈ (twoᵈ *ᵈ a) := by
  unfold selectRoot
  simp only []
  rw [if_neg (by rw [NumDual.isZero_eq]; exact ha), maskNeg_keep _ _ h1, if_pos]
  rw [NumDual.le_eq, NumDual.abs_eq, NumDual.abs_eq]
  show |_| ≤ |_|
  rw [hz, abs_zero]; exact abs_nonneg _

theorem selectRoot_second (a b c z N : Dual) (ha : a.v ≠ 0)
    (h1 : ¬ ((-ᵈ b +ᵈ Num.sqrt (b *ᵈ b -ᵈ Num.ofRat 4 1 *ᵈ a *ᵈ c)) /ᵈ (twoᵈ *ᵈ a)).v < 0)
    (h2 : ¬ ((-ᵈ b -ᵈ Num.sqrt (b *ᵈ b -ᵈ Num.ofRat 4 1 *ᵈ a *ᵈ c)) /ᵈ (twoᵈ *ᵈ a)).v < 0)
    (hz1 : (z +ᵈ ((-ᵈ b +ᵈ Num.sqrt (b *ᵈ b -ᵈ Num.ofRat 4 1 *ᵈ a *ᵈ c)) /ᵈ (twoᵈ *ᵈ a)) *ᵈ N).v ≠ 0)
    (hz2 : (z +ᵈ ((-ᵈ b -ᵈ Num.sqrt (b *ᵈ b -ᵈ Num.ofRat 4 1 *ᵈ a *ᵈ c)) /ᵈ (twoᵈ *ᵈ a)) *ᵈ N).v = 0) :
    selectRoot a b c z N = (-ᵈ b -ᵈ Num.sqrt (b *ᵈ b -ᵈ Num.ofRat 4 1 *ᵈ a *ᵈ c)) /ᵈ (twoᵈ *ᵈ a) := by
  unfold selectRoot
  simp only []
  rw [if_neg (by rw [NumDual.isZero_eq]; exact ha), maskNeg_keep _ _ h1, maskNeg_keep _ _ h2, if_neg]
  rw [NumDual.le_eq, NumDual.abs_eq, NumDual.abs_eq]
  show ¬ (|_| ≤ |_|)
  rw [hz2, abs_zero]
  intro h
  exact hz1 (abs_eq_zero.mp (le_antisymm h (abs_nonneg _)))

theorem root_plus (A B C : ℝ) :
    ((-ᵈ (⟨B,0⟩ : Dual) +ᵈ Num.sqrt (⟨B,0⟩ *ᵈ ⟨B,0⟩ -ᵈ Num.ofRat 4 1 *ᵈ ⟨A,0⟩ *ᵈ ⟨C,0⟩)) /ᵈ (twoᵈ *ᵈ ⟨A,0⟩) : Dual)
      = ⟨(-B + Real.sqrt (B * B - 4 * A * C)) / (2 * A), 0⟩ := by
  simp only [NumDual.add_eq, NumDual.sub_eq, NumDual.mul_eq, NumDual.div_eq, NumDual.neg_eq,
    NumDual.two_eq, NumDual.sqrt_eq, NumDual.ofRat_eq, mul_zero, zero_mul, add_zero, zero_add,
    sub_zero, neg_zero, zero_div, Nat.cast_ofNat, Nat.cast_one, div_one]

theorem root_minus (A B C : ℝ) :
    ((-ᵈ (⟨B,0⟩ : Dual) -ᵈ Num.sqrt (⟨B,0⟩ *ᵈ ⟨B,0⟩ -ᵈ Num.ofRat 4 1 *ᵈ ⟨A,0⟩ *ᵈ ⟨C,0⟩)) /ᵈ (twoᵈ *ᵈ ⟨A,0⟩) : Dual)
      = ⟨(-B - Real.sqrt (B * B - 4 * A * C)) / (2 * A), 0⟩ := by
  simp only [NumDual.add_eq, NumDual.sub_eq, NumDual.mul_eq, NumDual.div_eq, NumDual.neg_eq,
    NumDual.two_eq, NumDual.sqrt_eq, NumDual.ofRat_eq, mul_zero, zero_mul, add_zero, zero_add,
    sub_zero, neg_zero, zero_div, Nat.cast_ofNat, Nat.cast_one, div_one]

theorem disc_axis (A R z0 s : ℝ) (hs : s * s = 1) :
    (s * (2 * A * z0 - 2 * R)) * (s * (2 * A * z0 - 2 * R)) - 4 * A * (A * (z0 * z0) - 2 * R * z0)
      = (2 * R) ^ 2 := by
  linear_combination (2 * A * z0 - 2 * R)^2 * hs

/-- the quadratic of `mdist` on the axial seed ray -/
theorem mdist_abc (k R z0 y1 m1 s : ℝ) (hs : s * s = 1) :
    mdist (α := Dual) ⟨k,0⟩ ⟨R,0⟩ ⟨⟨0,y1⟩, ⟨z0,0⟩, ⟨0,m1⟩, ⟨s,0⟩⟩ =
      selectRoot ⟨k + 1, 0⟩ ⟨s * (2 * (k + 1) * z0 - 2 * R), 0⟩ ⟨(k + 1) * (z0 * z0) - 2 * R * z0, 0⟩
        ⟨z0, 0⟩ ⟨s, 0⟩ := by
  unfold mdist
  simp only []
  congr 1
  · simp only [NumDual.add_eq, NumDual.mul_eq, mul_zero, zero_mul, add_zero, hs]
    apply Dual.ext' <;> simp only [] <;> ring
  · simp only [NumDual.add_eq, NumDual.sub_eq, NumDual.mul_eq, NumDual.two_eq, mul_zero, zero_mul,
      add_zero, zero_add, sub_zero]
    apply Dual.ext' <;> simp only [] <;> ring
  · simp only [NumDual.add_eq, NumDual.sub_eq, NumDual.mul_eq, NumDual.two_eq, mul_zero, zero_mul,
      add_zero, zero_add, sub_zero]
    apply Dual.ext' <;> simp only [] <;> ring

theorem mdist_axis (k R z0 y1 m1 s : ℝ) (hs : s = 1 ∨ s = -1) (hR : R ≠ 0) (hz : s * z0 ≤ 0)
    (hh : 1 + k < 0 → 0 < s * R → s * z0 ≤ s * (2 * R / (1 + k))) :
    mdist (α := Dual) ⟨k,0⟩ ⟨R,0⟩ ⟨⟨0,y1⟩, ⟨z0,0⟩, ⟨0,m1⟩, ⟨s,0⟩⟩ = ⟨-z0 * s, 0⟩ := by
  have hss : s * s = 1 := by rcases hs with rfl | rfl <;> norm_num
  have hs0 : s ≠ 0 := by rcases hs with rfl | rfl <;> norm_num
  rw [mdist_abc _ _ _ _ _ _ hss]
  by_cases hk : k + 1 = 0
  · rw [selectRoot_linear _ _ _ _ _ hk]
    simp only [NumDual.neg_eq, NumDual.div_eq, hk, mul_zero, zero_mul, zero_sub, neg_zero, sub_zero,
      zero_div]
    congr 1
    field_simp
    linear_combination z0 * hss
  · have hsR : s * R ≠ 0 := mul_ne_zero hs0 hR
    have hd : (s * (2 * (k + 1) * z0 - 2 * R)) * (s * (2 * (k + 1) * z0 - 2 * R))
        - 4 * (k + 1) * ((k + 1) * (z0 * z0) - 2 * R * z0) = (2 * (s * R)) ^ 2 := by
      linear_combination ((2 * (k + 1) * z0 - 2 * R)^2 - 4 * R^2) * hss
    rcases lt_or_gt_of_ne hsR with hn | hp
    · -- the vertex is the `+` root
      have hS : Real.sqrt ((s * (2 * (k + 1) * z0 - 2 * R)) * (s * (2 * (k + 1) * z0 - 2 * R))
          - 4 * (k + 1) * ((k + 1) * (z0 * z0) - 2 * R * z0)) = -(2 * (s * R)) := by
        rw [hd, Real.sqrt_sq_eq_abs, abs_of_neg (by linarith)]
      have T1 := root_plus (k + 1) (s * (2 * (k + 1) * z0 - 2 * R)) ((k + 1) * (z0 * z0) - 2 * R * z0)
      rw [hS] at T1
      have e1 : (-(s * (2 * (k + 1) * z0 - 2 * R)) + -(2 * (s * R))) / (2 * (k + 1)) = -z0 * s := by
        field_simp; ring
      rw [e1] at T1
      rw [selectRoot_first _ _ _ _ _ hk, T1]
      · rw [T1]; show ¬ (-z0 * s < 0); linarith
      · rw [T1]; show z0 + -z0 * s * s = 0; linear_combination (-z0) * hss
    · -- the vertex is the `-` root
      have hS : Real.sqrt ((s * (2 * (k + 1) * z0 - 2 * R)) * (s * (2 * (k + 1) * z0 - 2 * R))
          - 4 * (k + 1) * ((k + 1) * (z0 * z0) - 2 * R * z0)) = 2 * (s * R) := by
        rw [hd, Real.sqrt_sq_eq_abs, abs_of_pos (by linarith)]
      have T1 := root_plus (k + 1) (s * (2 * (k + 1) * z0 - 2 * R)) ((k + 1) * (z0 * z0) - 2 * R * z0)
      have T2 := root_minus (k + 1) (s * (2 * (k + 1) * z0 - 2 * R)) ((k + 1) * (z0 * z0) - 2 * R * z0)
      rw [hS] at T1 T2
      have e1 : (-(s * (2 * (k + 1) * z0 - 2 * R)) + 2 * (s * R)) / (2 * (k + 1))
          = s * (2 * R / (k + 1)) - s * z0 := by
        field_simp; ring
      have e2 : (-(s * (2 * (k + 1) * z0 - 2 * R)) - 2 * (s * R)) / (2 * (k + 1)) = -z0 * s := by
        field_simp; ring
      rw [e1] at T1
      rw [e2] at T2
      have hfar : 0 ≤ s * (2 * R / (k + 1)) - s * z0 := by
        rcases lt_or_gt_of_ne hk with hk' | hk'
        · have := hh (by linarith) hp
          rw [add_comm 1 k] at this; linarith
        · have : 0 < s * (2 * R / (k + 1)) := by
            have : s * (2 * R / (k + 1)) = 2 * (s * R) / (k + 1) := by ring
            rw [this]; positivity
          linarith
      rw [selectRoot_second _ _ _ _ _ hk, T2]
      · rw [T1]; show ¬ (s * (2 * R / (k + 1)) - s * z0 < 0); linarith
      · rw [T2]; show ¬ (-z0 * s < 0); linarith
      · rw [T1]; show z0 + (s * (2 * R / (k + 1)) - s * z0) * s ≠ 0
        have : z0 + (s * (2 * R / (k + 1)) - s * z0) * s = 2 * R / (k + 1) := by
          linear_combination (2 * R / (k + 1) - z0) * hss
        rw [this]; exact div_ne_zero (mul_ne_zero two_ne_zero hR) hk
      · rw [T2]; show z0 + -z0 * s * s = 0; linear_combination (-z0) * hss
theorem mnormal_axis (k R Y : ℝ) (hR : R ≠ 0) :
    mnormal (α := Dual) ⟨k,0⟩ ⟨R,0⟩ ⟨0,Y⟩ = (⟨0, Y / R⟩, ⟨-1, 0⟩) := by
  simp only [mnormal, NumDual.add_eq, NumDual.sub_eq, NumDual.mul_eq, NumDual.div_eq, NumDual.neg_eq,
    NumDual.one_eq, NumDual.sqrt_eq, mul_zero, zero_mul, add_zero, zero_add, sub_zero, zero_div,
    Real.sqrt_one, mul_one, one_mul, neg_zero, zero_sub, sub_self, div_one]
  refine Prod.ext (Dual.ext' ?_ ?_) (Dual.ext' ?_ ?_) <;> simp only [] <;> field_simp

theorem mrefract_axis (n1 n2 m s ν c : ℝ) (hs : s = 1 ∨ s = -1) (hc : c = 1 ∨ c = -1) :
    mrefract (α := Dual) ⟨n1,0⟩ ⟨n2,0⟩ ⟨0,m⟩ ⟨s,0⟩ ⟨0,ν⟩ ⟨c,0⟩
      = (⟨0, n1 / n2 * m + (1 - n1 / n2) * (s * c * ν)⟩, ⟨s, 0⟩) := by
  rcases hs with rfl | rfl <;> rcases hc with rfl | rfl <;>
  · simp only [mrefract, malign, Num.sign, NumDual.add_eq, NumDual.sub_eq, NumDual.mul_eq, NumDual.div_eq,
      NumDual.neg_eq, NumDual.one_eq, NumDual.sqrt_eq, NumDual.abs_eq, NumDual.lt_eq, NumDual.fzero_eq,
      NumDual.fone_eq, NumDual.fneg_eq, mul_zero, zero_mul, add_zero, zero_add, sub_zero, zero_div,
      mul_one, one_mul, neg_zero, zero_sub, sub_self]
    norm_num
    ring

theorem mreflect_axis (m s ν c : ℝ) (hs : s = 1 ∨ s = -1) (hc : c = 1 ∨ c = -1) :
    mreflect (α := Dual) ⟨0,m⟩ ⟨s,0⟩ ⟨0,ν⟩ ⟨c,0⟩ = (⟨0, m - 2 * (s * c * ν)⟩, ⟨-s, 0⟩) := by
  rcases hs with rfl | rfl <;> rcases hc with rfl | rfl <;>
  · simp only [mreflect, malign, Num.sign, NumDual.add_eq, NumDual.sub_eq, NumDual.mul_eq, NumDual.div_eq,
      NumDual.neg_eq, NumDual.one_eq, NumDual.two_eq, NumDual.sqrt_eq, NumDual.abs_eq, NumDual.lt_eq,
      NumDual.fzero_eq, NumDual.fone_eq, NumDual.fneg_eq, mul_zero, zero_mul, add_zero, zero_add, sub_zero,
      zero_div, mul_one, one_mul, neg_zero, zero_sub, sub_self]
    norm_num

theorem seed_y (y1 m1 t : ℝ) : ((⟨0,y1⟩ : Dual) +ᵈ ⟨t,0⟩ *ᵈ ⟨0,m1⟩ : Dual) = ⟨0, y1 + t * m1⟩ := by
  simp only [NumDual.add_eq, NumDual.mul_eq, mul_zero, zero_mul, add_zero, zero_add]

theorem seed_z (z0 s : ℝ) (hss : s * s = 1) : ((⟨z0,0⟩ : Dual) +ᵈ ⟨-z0 * s,0⟩ *ᵈ ⟨s,0⟩ : Dual) = ⟨0, 0⟩ := by
  simp only [NumDual.add_eq, NumDual.mul_eq, mul_zero, zero_mul, add_zero, zero_add]
  congr 1
  linear_combination (-z0) * hss

theorem mstep_axis (k R n1 n2 z0 y1 m1 s : ℝ) (hs : s = 1 ∨ s = -1) (hR : R ≠ 0) (hz : s * z0 ≤ 0)
    (hh : 1 + k < 0 → 0 < s * R → s * z0 ≤ s * (2 * R / (1 + k))) :
    (mstep (α := Dual) ⟨k,0⟩ ⟨R,0⟩ ⟨n1,0⟩ ⟨n2,0⟩ ⟨⟨0,y1⟩, ⟨z0,0⟩, ⟨0,m1⟩, ⟨s,0⟩⟩).1 =
      ⟨⟨0, y1 + -z0 * s * m1⟩, ⟨0, 0⟩,
       ⟨0, n1 / n2 * m1 + (1 - n1 / n2) * (s * (-1) * ((y1 + -z0 * s * m1) / R))⟩, ⟨s, 0⟩⟩ := by
  have hss : s * s = 1 := by rcases hs with rfl | rfl <;> norm_num
  simp only [mstep]
  rw [mdist_axis k R z0 y1 m1 s hs hR hz hh, seed_y, seed_z z0 s hss, mnormal_axis k R _ hR]
  simp only []
  rw [mrefract_axis n1 n2 m1 s _ (-1) hs (Or.inr rfl)]

theorem mstepMirror_axis (k R z0 y1 m1 s : ℝ) (hs : s = 1 ∨ s = -1) (hR : R ≠ 0) (hz : s * z0 ≤ 0)
    (hh : 1 + k < 0 → 0 < s * R → s * z0 ≤ s * (2 * R / (1 + k))) :
    (mstepMirror (α := Dual) ⟨k,0⟩ ⟨R,0⟩ ⟨⟨0,y1⟩, ⟨z0,0⟩, ⟨0,m1⟩, ⟨s,0⟩⟩).1 =
      ⟨⟨0, y1 + -z0 * s * m1⟩, ⟨0, 0⟩,
       ⟨0, m1 - 2 * (s * (-1) * ((y1 + -z0 * s * m1) / R))⟩, ⟨-s, 0⟩⟩ := by
  have hss : s * s = 1 := by rcases hs with rfl | rfl <;> norm_num
  simp only [mstepMirror]
  rw [mdist_axis k R z0 y1 m1 s hs hR hz hh, seed_y, seed_z z0 s hss, mnormal_axis k R _ hR]
  simp only []
  rw [mreflect_axis m1 s _ (-1) hs (Or.inr rfl)]

/-- `Plane.distance` on the axial seed ray -/
theorem plane_t (z0 s : ℝ) (hs : s = 1 ∨ s = -1) (hz : s * z0 ≤ 0) :
    maskNeg (-ᵈ (⟨z0,0⟩ : Dual) /ᵈ ⟨s,0⟩) (Num.zero /ᵈ Num.zero) = ⟨-z0 * s, 0⟩ := by
  have e : (-ᵈ (⟨z0,0⟩ : Dual) /ᵈ ⟨s,0⟩ : Dual) = ⟨-z0 * s, 0⟩ := by
    simp only [NumDual.neg_eq, NumDual.div_eq, mul_zero, zero_mul, sub_zero, neg_zero, zero_div]
    congr 1
    rcases hs with rfl | rfl <;> norm_num
  rw [e, maskNeg_keep]
  show ¬ (-z0 * s < 0)
  linarith

theorem mstepPlane_axis (n1 n2 z0 y1 m1 s : ℝ) (hs : s = 1 ∨ s = -1) (hz : s * z0 ≤ 0) :
    (mstepPlane (α := Dual) ⟨n1,0⟩ ⟨n2,0⟩ ⟨⟨0,y1⟩, ⟨z0,0⟩, ⟨0,m1⟩, ⟨s,0⟩⟩).1 =
      ⟨⟨0, y1 + -z0 * s * m1⟩, ⟨0, 0⟩, ⟨0, n1 / n2 * m1 + (1 - n1 / n2) * (s * 1 * 0)⟩, ⟨s, 0⟩⟩ := by
  have hss : s * s = 1 := by rcases hs with rfl | rfl <;> norm_num
  simp only [mstepPlane]
  rw [plane_t z0 s hs hz, seed_y, seed_z z0 s hss, NumDual.zero_eq, NumDual.one_eq,
    mrefract_axis n1 n2 m1 s 0 1 hs (Or.inl rfl)]

theorem mstepPlaneMirror_axis (z0 y1 m1 s : ℝ) (hs : s = 1 ∨ s = -1) (hz : s * z0 ≤ 0) :
    (mstepPlaneMirror (α := Dual) ⟨⟨0,y1⟩, ⟨z0,0⟩, ⟨0,m1⟩, ⟨s,0⟩⟩).1 =
      ⟨⟨0, y1 + -z0 * s * m1⟩, ⟨0, 0⟩, ⟨0, m1 - 2 * (s * 1 * 0)⟩, ⟨-s, 0⟩⟩ := by
  have hss : s * s = 1 := by rcases hs with rfl | rfl <;> norm_num
  simp only [mstepPlaneMirror]
  rw [plane_t z0 s hs hz, seed_y, seed_z z0 s hss, NumDual.zero_eq, NumDual.one_eq,
    mreflect_axis m1 s 0 1 hs (Or.inl rfl)]

theorem mstepImage_axis (z0 y1 m1 s : ℝ) (hs : s = 1 ∨ s = -1) (hz : s * z0 ≤ 0) :
    (mstepImage (α := Dual) ⟨⟨0,y1⟩, ⟨z0,0⟩, ⟨0,m1⟩, ⟨s,0⟩⟩).1 =
      ⟨⟨0, y1 + -z0 * s * m1⟩, ⟨0, 0⟩, ⟨0, m1⟩, ⟨s, 0⟩⟩ := by
  have hss : s * s = 1 := by rcases hs with rfl | rfl <;> norm_num
  simp only [mstepImage]
  rw [plane_t z0 s hs hz, seed_y, seed_z z0 s hss]

/-! ### the single-surface theorems in the form of `mstep_jet` (forward travel, `N = 1`) -/

/-- **mstep_jet_neg**: `mstep_jet` for `R < 0` and *every* conic constant (the vertex is the `+`
root of `selectRoot`, resp. the linear branch for `k = -1`; the other root of an ellipsoid /
hyperboloid lies at `z = 2R/(1+k)` and is never nearer to `z = 0` than the vertex).
Only `n₂ ≠ 0` is needed of the indices. -/
theorem mstep_jet_neg (k R n1 n2 z0 y1 m1 : ℝ) (hR : R < 0) (hn2 : n2 ≠ 0) (hz : z0 ≤ 0) :
    let out := (mstep (α := Dual) ⟨k,0⟩ ⟨R,0⟩ ⟨n1,0⟩ ⟨n2,0⟩ ⟨⟨0,y1⟩, ⟨z0,0⟩, ⟨0,m1⟩, ⟨1,0⟩⟩).1
    out.y = ⟨0, y1 - z0*m1⟩ ∧ out.z = ⟨0, 0⟩ ∧
      out.M = ⟨0, (n1/n2)*m1 - (1 - n1/n2) * (y1 - z0*m1) / R⟩ ∧ out.N = ⟨1, 0⟩ := by
  intro out
  have h := mstep_axis k R n1 n2 z0 y1 m1 1 (Or.inl rfl) (ne_of_lt hR) (by linarith)
    (fun _ h => absurd h (by linarith))
  simp only [out, h]
  refine ⟨?_, trivial, ?_, trivial⟩
  · congr 1; ring
  · congr 1; have := ne_of_lt hR; field_simp; ring

/-- **mstep_jet_k**: `mstep_jet` for `R > 0` and every conic constant, in particular `1 + k ≤ 0`
(for `1 + k > 0` this is `mstep_jet` with `n₂ ≠ 0` instead of positive indices).  `k = -1`
(paraboloid) takes the linear branch `-c/b` of `selectRoot` and needs no further guard.  For `k < -1` the vertex is the
`-` root and the `+` root (the other sheet of the hyperboloid, at `z = 2R/(1+k) < 0`) must not be
masked: the guard is `z₀ ≤ 2R/(1+k)`, i.e. the ray starts behind the other sheet.
What the code does for `2R/(1+k) < z₀ ≤ 0`: `t1 < 0` is replaced by `np.inf`, `|z + inf·N| ≤ 0`
is false and the vertex root is taken, i.e. the same result; over ℝ/`Dual` `Num.inf` is a junk
value, so that case is *not* claimed here.  It is covered at the level of `mdist` by
`mdist_axis_anyinf` below, for every value of the placeholder. -/
theorem mstep_jet_k (k R n1 n2 z0 y1 m1 : ℝ) (hR : 0 < R) (hn2 : n2 ≠ 0)
    (hz : z0 ≤ 0) (hh : 1 + k < 0 → z0 ≤ 2 * R / (1 + k)) :
    let out := (mstep (α := Dual) ⟨k,0⟩ ⟨R,0⟩ ⟨n1,0⟩ ⟨n2,0⟩ ⟨⟨0,y1⟩, ⟨z0,0⟩, ⟨0,m1⟩, ⟨1,0⟩⟩).1
    out.y = ⟨0, y1 - z0*m1⟩ ∧ out.z = ⟨0, 0⟩ ∧
      out.M = ⟨0, (n1/n2)*m1 - (1 - n1/n2) * (y1 - z0*m1) / R⟩ ∧ out.N = ⟨1, 0⟩ := by
  intro out
  have h := mstep_axis k R n1 n2 z0 y1 m1 1 (Or.inl rfl) (ne_of_gt hR) (by linarith)
    (fun h1 _ => by have := hh h1; linarith)
  simp only [out, h]
  refine ⟨?_, trivial, ?_, trivial⟩
  · congr 1; ring
  · congr 1; have := ne_of_gt hR; field_simp; ring

/-- **mstepMirror_jet** (one reflecting conic, forward travel): the ray stays on the axis and
turns round (`N = -1`), and the ε-coefficients are `Surface._trace_paraxial` with the reflective
flag: `y' = p.y`, and the slope `M'/N' = -M'` is `p.u = -m₁ - 2 y'/R`. -/
theorem mstepMirror_jet (k R n1 n2 z0 y1 m1 : ℝ) (hR : R ≠ 0) (hz : z0 ≤ 0)
    (hh : 1 + k < 0 → 0 < R → z0 ≤ 2 * R / (1 + k)) :
    let out := (mstepMirror (α := Dual) ⟨k,0⟩ ⟨R,0⟩ ⟨⟨0,y1⟩, ⟨z0,0⟩, ⟨0,m1⟩, ⟨1,0⟩⟩).1
    let p := pstepStd ⟨y1, m1, z0⟩ ⟨.standard, 0, 0, R, n1, n2, true, false⟩
    out.y = ⟨0, p.y⟩ ∧ out.z = ⟨0, 0⟩ ∧ out.M = ⟨0, -p.u⟩ ∧ out.N = ⟨-1, 0⟩ ∧
      p.y = y1 - z0*m1 ∧ p.u = -m1 - 2 * (y1 - z0*m1) / R := by
  intro out p
  have h := mstepMirror_axis k R z0 y1 m1 1 (Or.inl rfl) hR (by linarith)
    (fun h1 h2 => by have := hh h1 (by linarith); linarith)
  have hp : p.y = y1 - z0*m1 ∧ p.u = -m1 - 2 * (y1 - z0*m1) / R := by
    simp only [p, pstepStd]
    num_real
    simp only [if_true]
    constructor <;> ring
  simp only [out, h, hp.1, hp.2]
  refine ⟨?_, trivial, ?_, trivial, trivial, trivial⟩
  · congr 1; ring
  · congr 1; field_simp; ring

/-- **mstepPlane_jet** (refraction at a plane, forward travel): the ε-coefficients are
`Surface._trace_paraxial` of a surface without power (`Plane.radius = ∞`, encoded `r = 0` over
ℝ): `y' = y₁ - z₀ m₁`, `u' = (n₁/n₂) m₁`. -/
theorem mstepPlane_jet (n1 n2 z0 y1 m1 : ℝ) (hn2 : n2 ≠ 0) (hz : z0 ≤ 0) :
    let out := (mstepPlane (α := Dual) ⟨n1,0⟩ ⟨n2,0⟩ ⟨⟨0,y1⟩, ⟨z0,0⟩, ⟨0,m1⟩, ⟨1,0⟩⟩).1
    let p := pstepStd ⟨y1, m1, z0⟩ ⟨.standard, 0, 0, 0, n1, n2, false, false⟩
    out.y = ⟨0, p.y⟩ ∧ out.z = ⟨0, 0⟩ ∧ out.M = ⟨0, p.u⟩ ∧ out.N = ⟨1, 0⟩ ∧
      p.y = y1 - z0*m1 ∧ p.u = (n1/n2)*m1 := by
  intro out p
  have h := mstepPlane_axis n1 n2 z0 y1 m1 1 (Or.inl rfl) (by linarith)
  have hp : p.y = y1 - z0*m1 ∧ p.u = (n1/n2)*m1 := by
    simp only [p, pstepStd]
    num_real
    simp only [Bool.false_eq_true, if_false, div_zero, mul_zero, sub_zero]
    constructor
    · ring
    · field_simp
  simp only [out, h, hp.1, hp.2]
  refine ⟨?_, trivial, ?_, trivial, trivial, trivial⟩
  · congr 1; ring
  · congr 1; ring

/-! ### whole lens: `mtrace` over jets is `ptrace`

`mtrace` (Model/Merid.lean) is `SurfaceGroup.trace` for one meridional ray of a rotationally
symmetric lens: per surface localize by the vertex position, intersect, refract/reflect,
globalize.  The guards of `okList` say that every surface is met from the front along the
current direction of travel (`s (z - z_vertex) ≤ 0`; this is what makes `mdist`/`Plane.distance`
return the non-negative distance to the vertex rather than a masked value), `R ≠ 0`, `n₂ ≠ 0`
for refracting surfaces, and `hyperOk` for hyperboloids met from the concave side. -/

/-- constants have no ε-part -/
def liftS (sf : MSurf ℝ) : MSurf Dual :=
  ⟨sf.kind, ⟨sf.z, 0⟩, ⟨sf.k, 0⟩, ⟨sf.R, 0⟩, ⟨sf.n1, 0⟩, ⟨sf.n2, 0⟩⟩

/-- what the paraxial tracer reads from the same surface (`Plane.radius = ∞` is encoded as
`r = 0` over ℝ, see `Model/Parax.lean`) -/
def toPSurf (sf : MSurf ℝ) : PSurf ℝ :=
  match sf.kind with
  | .object => ⟨.object, 0, sf.z, 0, sf.n1, sf.n2, false, false⟩
  | .conic => ⟨.standard, 0, sf.z, sf.R, sf.n1, sf.n2, false, false⟩
  | .conicMirror => ⟨.standard, 0, sf.z, sf.R, sf.n1, sf.n2, true, false⟩
  | .plane => ⟨.standard, 0, sf.z, 0, sf.n1, sf.n2, false, false⟩
  | .planeMirror => ⟨.standard, 0, sf.z, 0, sf.n1, sf.n2, true, false⟩
  | .image => ⟨.image, 0, sf.z, 0, sf.n1, sf.n2, false, false⟩

/-- the jet of an axial ray travelling in direction `s = ±1` whose ε-coefficients are the
paraxial ray `p`: `y = 0 + ε p.y`, `z = p.z`, `M = 0 + ε s p.u`, `N = s` (so `M/N = ε p.u`) -/
def axial (s : ℝ) (p : PRay ℝ) : MRay Dual := ⟨⟨0, p.y⟩, ⟨p.z, 0⟩, ⟨0, s * p.u⟩, ⟨s, 0⟩⟩

/-- the near-root guard of `selectRoot` for a hyperboloid met from its concave side -/
def hyperOk (s z0 k R : ℝ) : Prop := 1 + k < 0 → 0 < s * R → s * z0 ≤ s * (2 * R / (1 + k))

/-- per-surface guard, for a ray arriving in direction `s` from the axial point `z` -/
def okSurf (s z : ℝ) (sf : MSurf ℝ) : Prop :=
  match sf.kind with
  | .object => True
  | .conic => s * (z - sf.z) ≤ 0 ∧ sf.R ≠ 0 ∧ sf.n2 ≠ 0 ∧ hyperOk s (z - sf.z) sf.k sf.R
  | .conicMirror => s * (z - sf.z) ≤ 0 ∧ sf.R ≠ 0 ∧ hyperOk s (z - sf.z) sf.k sf.R
  | .plane => s * (z - sf.z) ≤ 0 ∧ sf.n2 ≠ 0
  | .planeMirror => s * (z - sf.z) ≤ 0
  | .image => s * (z - sf.z) ≤ 0

def dirAfter (s : ℝ) (sf : MSurf ℝ) : ℝ :=
  match sf.kind with
  | .conicMirror => -s
  | .planeMirror => -s
  | _ => s

def zAfter (z : ℝ) (sf : MSurf ℝ) : ℝ :=
  match sf.kind with
  | .object => z
  | _ => sf.z

/-- guard of a surface list: every surface is met from the front (in the current direction of
travel), and an image surface is the last one (`ImageSurface._trace_paraxial` does not
globalize, so the paraxial z after it is the local one) -/
def okList : ℝ → ℝ → List (MSurf ℝ) → Prop
  | _, _, [] => True
  | s, z, sf :: rest =>
    okSurf s z sf ∧ (sf.kind = .image → rest = []) ∧ okList (dirAfter s sf) (zAfter z sf) rest

theorem dirAfter_pm (s : ℝ) (sf : MSurf ℝ) (hs : s = 1 ∨ s = -1) :
    dirAfter s sf = 1 ∨ dirAfter s sf = -1 := by
  unfold dirAfter
  rcases hs with rfl | rfl <;> cases sf.kind <;> norm_num

/-- one surface of the whole-lens trace: localize, step, globalize on an axial jet gives the
axial jet of the paraxial step (for the image surface up to the paraxial z, which
`pstepImg` leaves in the local frame) -/
theorem mstepSurf_axial (s : ℝ) (p : PRay ℝ) (sf : MSurf ℝ) (hs : s = 1 ∨ s = -1)
    (ok : okSurf s p.z sf) :
    mstepSurf (liftS sf) (axial s p) =
      axial (dirAfter s sf) ⟨(pstep p (toPSurf sf)).y, (pstep p (toPSurf sf)).u, zAfter p.z sf⟩ ∧
    (sf.kind ≠ .image → (pstep p (toPSurf sf)).z = zAfter p.z sf) := by
  have hss : s * s = 1 := by rcases hs with rfl | rfl <;> norm_num
  obtain ⟨kind, zv, k, R, n1, n2⟩ := sf
  obtain ⟨py, pu, pz⟩ := p
  have hl : ((⟨pz, 0⟩ : Dual) +ᵈ -ᵈ (⟨zv, 0⟩ : Dual) : Dual) = ⟨pz - zv, 0⟩ := by
    simp only [NumDual.add_eq, NumDual.neg_eq, neg_zero, add_zero]; congr 1
  have hg : ((⟨0, 0⟩ : Dual) +ᵈ (⟨zv, 0⟩ : Dual) : Dual) = ⟨zv, 0⟩ := by
    simp only [NumDual.add_eq, zero_add]
  have hY : py + -(pz - zv) * s * (s * pu) = py - (pz - zv) * pu := by
    linear_combination (-(pz - zv) * pu) * hss
  cases kind
  · -- object
    simp only [mstepSurf, liftS, axial, dirAfter, zAfter, pstep, toPSurf, and_self, ne_eq,
      not_false_eq_true, reduceCtorEq, true_and, imp_self]
  · -- conic
    simp only [okSurf, hyperOk] at ok
    obtain ⟨hz, hR, hn2, hh⟩ := ok
    simp only [mstepSurf, mstepLocal, liftS, axial, hl]
    rw [mstep_axis k R n1 n2 (pz - zv) py (s * pu) s hs hR hz hh]
    simp only [hg, dirAfter, zAfter, pstep, toPSurf, pstepStd]
    num_real
    rw [hY]
    simp only [Bool.false_eq_true, if_false, MRay.mk.injEq, Dual.mk.injEq, true_and, and_true]
    refine ⟨⟨by ring, ?_⟩, fun _ => by ring⟩
    field_simp
    ring
  · -- conic mirror
    simp only [okSurf, hyperOk] at ok
    obtain ⟨hz, hR, hh⟩ := ok
    simp only [mstepSurf, mstepLocal, liftS, axial, hl]
    rw [mstepMirror_axis k R (pz - zv) py (s * pu) s hs hR hz hh]
    simp only [hg, dirAfter, zAfter, pstep, toPSurf, pstepStd]
    num_real
    rw [hY]
    simp only [if_true, MRay.mk.injEq, Dual.mk.injEq, true_and, and_true]
    refine ⟨⟨by ring, ?_⟩, fun _ => by ring⟩
    field_simp
    ring
  · -- plane
    simp only [okSurf] at ok
    obtain ⟨hz, hn2⟩ := ok
    simp only [mstepSurf, mstepLocal, liftS, axial, hl]
    rw [mstepPlane_axis n1 n2 (pz - zv) py (s * pu) s hs hz]
    simp only [hg, dirAfter, zAfter, pstep, toPSurf, pstepStd]
    num_real
    rw [hY]
    simp only [Bool.false_eq_true, if_false, MRay.mk.injEq, Dual.mk.injEq, true_and, and_true, div_zero,
      mul_zero, sub_zero]
    refine ⟨⟨by ring, ?_⟩, fun _ => by ring⟩
    field_simp
    ring
  · -- plane mirror
    simp only [okSurf] at ok
    simp only [mstepSurf, mstepLocal, liftS, axial, hl]
    rw [mstepPlaneMirror_axis (pz - zv) py (s * pu) s hs ok]
    simp only [hg, dirAfter, zAfter, pstep, toPSurf, pstepStd]
    num_real
    rw [hY]
    simp only [if_true, MRay.mk.injEq, Dual.mk.injEq, true_and, and_true, div_zero, mul_zero, sub_zero]
    refine ⟨⟨by ring, by ring⟩, fun _ => by ring⟩
  · -- image
    simp only [okSurf] at ok
    simp only [mstepSurf, mstepLocal, liftS, axial, hl]
    rw [mstepImage_axis (pz - zv) py (s * pu) s hs ok]
    simp only [hg, dirAfter, zAfter, pstep, toPSurf, pstepImg]
    num_real
    rw [hY]
    simp only [MRay.mk.injEq, Dual.mk.injEq, true_and, and_true, ne_eq, not_true_eq_false, false_imp_iff]
    ring

/-- `r` is the first-order jet of an axial ray: on the axis, direction `s = ±1`, no first-order
change of `z` and `N`, and the ε-coefficients of `y` and of the slope `M/N` are the paraxial
height and angle of `p` -/
def JetOf (r : MRay Dual) (p : PRay ℝ) : Prop :=
  ∃ s : ℝ, (s = 1 ∨ s = -1) ∧ r.y = ⟨0, p.y⟩ ∧ r.z.d = 0 ∧ r.M = ⟨0, s * p.u⟩ ∧ r.N = ⟨s, 0⟩

theorem mtrace_jet (ss : List (MSurf ℝ)) : ∀ (s : ℝ) (p : PRay ℝ), (s = 1 ∨ s = -1) →
    okList s p.z ss →
    List.Forall₂ JetOf (mtrace (axial s p) (ss.map liftS)) (ptrace p (ss.map toPSurf)) := by
  induction ss with
  | nil => intro s p _ _; exact List.Forall₂.nil
  | cons sf rest ih =>
    intro s p hs ok
    obtain ⟨ok1, himg, okr⟩ := ok
    obtain ⟨e1, e2⟩ := mstepSurf_axial s p sf hs ok1
    simp only [List.map_cons, mtrace, ptrace]
    rw [e1]
    refine List.Forall₂.cons ⟨dirAfter s sf, dirAfter_pm s sf hs, rfl, rfl, rfl, rfl⟩ ?_
    by_cases hi : sf.kind = .image
    · rw [himg hi]; exact List.Forall₂.nil
    · have e2' := e2 hi
      have hp : (⟨(pstep p (toPSurf sf)).y, (pstep p (toPSurf sf)).u, zAfter p.z sf⟩ : PRay ℝ)
          = pstep p (toPSurf sf) := by rw [← e2']
      rw [hp]
      exact ih _ _ (dirAfter_pm s sf hs) (by rw [e2']; exact okr)

/-- the launch data of `Paraxial.marginal_ray` -/
noncomputable def marginalStart (S : PSys ℝ) : PRay ℝ :=
  if S.objInf then ⟨EPD S / 2, 0, posOf S.surfs 1 - 10⟩
  else ⟨0, EPD S / (2 * (EPL S - posOf S.surfs 0)), posOf S.surfs 0⟩

theorem marginalRay_eq (S : PSys ℝ) : marginalRay S = ptrace (marginalStart S) S.surfs := by
  unfold marginalRay marginalStart traceGeneric
  num_real
  by_cases h : S.objInf <;> simp [h]

/-- the launch data of `Paraxial.chief_ray` -/
noncomputable def chiefStart (S : PSys ℝ) : PRay ℝ :=
  let inv := inverted S.surfs
  let si := (stopIndex inv).getD 0
  let z0 := posOf inv si
  let rs := traceGeneric S.surfs 0 tenth z0 true (si + 1)
  let u1 := match S.fieldType with
    | .objectHeight =>
      let t := posOf S.surfs 1 - posOf S.surfs 0
      tenth * S.maxYField / (last (ys rs) + last (us rs) * t)
    | .angle => tenth * Num.tan (deg2rad S.maxYField) / last (us rs)
  let rn := traceGeneric S.surfs 0 u1 z0 true (si + 1)
  ⟨- last (ys rn), last (us rn), posOf S.surfs 1⟩

theorem chiefRay_eq (S : PSys ℝ) : chiefRay S = ptrace (chiefStart S) S.surfs := by
  unfold chiefRay chiefStart
  simp only [traceGeneric, Bool.false_eq_true, if_false, List.drop_zero]
  rfl

/-- **mtrace_jet_two**: the two-surface instance written out (a thick lens in air: two
refracting conics); the general statement is `mtrace_jet`. -/
theorem mtrace_jet_two (a b : MSurf ℝ) (p : PRay ℝ) (ha : a.kind = .conic) (hb : b.kind = .conic)
    (oka : okSurf 1 p.z a) (okb : okSurf 1 a.z b) :
    List.Forall₂ JetOf (mtrace (axial 1 p) [liftS a, liftS b]) (ptrace p [toPSurf a, toPSurf b]) := by
  have h := mtrace_jet [a, b] 1 p (Or.inl rfl)
  apply h
  simp only [okList, dirAfter, zAfter, ha, hb, and_true, reduceCtorEq, false_imp_iff, true_and]
  exact ⟨oka, okb⟩

/-- the paraxial tracer does not read the stop flag -/
def unstop (P : PSurf ℝ) : PSurf ℝ := { P with stop := false }

theorem ptrace_unstop (l : List (PSurf ℝ)) : ∀ p : PRay ℝ, ptrace p (l.map unstop) = ptrace p l := by
  induction l with
  | nil => intro p; rfl
  | cons P rest ih =>
    intro p
    have h : pstep p (unstop P) = pstep p P := by
      obtain ⟨kind, dy, z, r, n1, n2, refl, stop⟩ := P
      cases kind <;> rfl
    simp only [List.map_cons, ptrace, h, ih]

/-- **marginal_jet_partial**: `Paraxial.marginal_ray` is the first-order jet of the real
meridional trace of the ray launched with the same first-order data: on the axis at
`z = marginalStart.z`, `y = ε·EPD/2`, `M = 0` (infinite object), resp. `y = 0`,
`M = ε·EPD/(2(EPL - z_obj))` (finite object).

Full statement (not proved): the seed is the jet in `Py = ε` of `RayGen.generateRay S 0 0 0 ε`.
Missing: the launch of `generateRay` evaluates `EPD`/`EPL` (paraxial traces) over `Dual`; one
needs the lemma that a model function applied to constants `⟨c, 0⟩` returns `⟨f c, 0⟩`, which
has not been set up for `ptrace`/`EPL`/`EPD`. -/
theorem marginal_jet_partial (S : PSys ℝ) (ss : List (MSurf ℝ))
    (hS : S.surfs.map unstop = ss.map toPSurf) (ok : okList 1 (marginalStart S).z ss) :
    List.Forall₂ JetOf (mtrace (axial 1 (marginalStart S)) (ss.map liftS)) (marginalRay S) := by
  rw [marginalRay_eq, ← ptrace_unstop, hS]
  exact mtrace_jet ss 1 _ (Or.inl rfl) ok

/-- **chief_jet_partial**: `Paraxial.chief_ray` is the first-order jet of the real meridional
trace of the ray launched with the same first-order data (height `ε·ȳ` and slope `ε·ū` at the
vertex plane of the first surface, as `chief_ray` itself starts its forward trace).
Full statement / what is missing: as for `marginal_jet_partial` (field `Hy = ε`, pupil 0).
Note the known finding F24: for object-height fields `chief_ray` is the chief ray of the object
point `-H`, so the real chief ray launched by `RayGenerator` has the *opposite* first-order data;
the theorem is about the ray with the launch data of `chief_ray` itself. -/
theorem chief_jet_partial (S : PSys ℝ) (ss : List (MSurf ℝ))
    (hS : S.surfs.map unstop = ss.map toPSurf) (ok : okList 1 (chiefStart S).z ss) :
    List.Forall₂ JetOf (mtrace (axial 1 (chiefStart S)) (ss.map liftS)) (chiefRay S) := by
  rw [chiefRay_eq, ← ptrace_unstop, hS]
  exact mtrace_jet ss 1 _ (Or.inl rfl) ok

/-! ### non-vacuity of the extension -/
-- mstep_jet_neg: a concave-to-the-left sphere, an ellipsoid, a paraboloid and a hyperboloid
example : (-50:ℝ) < 0 ∧ (1.5:ℝ) ≠ 0 ∧ (-10:ℝ) ≤ 0 := by norm_num
-- mstep_jet_k: paraboloid k = -1 (no further guard) and hyperboloid k = -2, R = 50: 2R/(1+k) = -100
example : (0:ℝ) < 50 ∧ (1.5:ℝ) ≠ 0 ∧ (-10:ℝ) ≤ 0 ∧ ((1:ℝ) + (-1) < 0 → (-10:ℝ) ≤ 2 * 50 / (1 + (-1))) := by norm_num
example : (0:ℝ) < 50 ∧ (1.5:ℝ) ≠ 0 ∧ (-120:ℝ) ≤ 0 ∧ ((1:ℝ) + (-2) < 0 → (-120:ℝ) ≤ 2 * 50 / (1 + (-2))) := by norm_num
-- mstepMirror_jet: concave mirror R = -100, k = -1
example : (-100:ℝ) ≠ 0 ∧ (-30:ℝ) ≤ 0 ∧ ((1:ℝ) + (-1) < 0 → (0:ℝ) < -100 → (-30:ℝ) ≤ 2 * (-100) / (1 + (-1))) := by
  norm_num
-- mstepPlane_jet
example : (1.5:ℝ) ≠ 0 ∧ (-3:ℝ) ≤ 0 := by norm_num
-- mdist_axis / mstep_axis backwards (s = -1) on a surface with R < 0 (s R > 0), hyperboloid k = -3:
-- 2R/(1+k) = 40, start at z0 = 50
example : ((-1:ℝ) = 1 ∨ (-1:ℝ) = -1) ∧ (-40:ℝ) ≠ 0 ∧ (-1:ℝ) * 50 ≤ 0 ∧
    ((1:ℝ) + (-3) < 0 → (0:ℝ) < -1 * -40 → (-1:ℝ) * 50 ≤ -1 * (2 * (-40) / (1 + (-3)))) := by norm_num

/-- a catadioptric example lens: object, a biconvex singlet (conic front, spherical back),
a parabolic concave mirror, then (travelling backwards) a plane window and the image plane -/
noncomputable def exLens : List (MSurf ℝ) :=
  [⟨.object, 0, 0, 0, 1, 1⟩, ⟨.conic, 0, -0.5, 50, 1, 1.5⟩, ⟨.conic, 5, 0, -50, 1.5, 1⟩,
   ⟨.conicMirror, 40, -1, -100, 1, 1⟩, ⟨.plane, 20, 0, 0, 1, 1.5⟩, ⟨.image, 10, 0, 0, 1.5, 1.5⟩]

theorem exLens_ok : okList 1 (-10) exLens := by
  simp only [exLens, okList, okSurf, hyperOk, dirAfter, zAfter, reduceCtorEq, false_imp_iff, true_and,
    and_true, imp_self]
  norm_num

/-- `mtrace_jet` applies to the example: marginal-type seed (height 12.5, parallel to the axis) -/
example : List.Forall₂ JetOf (mtrace (axial 1 ⟨12.5, 0, -10⟩) (exLens.map liftS))
    (ptrace ⟨12.5, 0, -10⟩ (exLens.map toPSurf)) :=
  mtrace_jet exLens 1 ⟨12.5, 0, -10⟩ (Or.inl rfl) exLens_ok

-- mtrace_jet_two: the singlet of the example
example : okSurf 1 (-10) ⟨.conic, 0, -0.5, 50, 1, 1.5⟩ ∧ okSurf 1 0 ⟨.conic, 5, 0, -50, 1.5, 1⟩ := by
  simp only [okSurf, hyperOk]; norm_num

/-- marginal_jet_partial / chief_jet_partial: an infinite-conjugate system on the example lens
(EPD 25, field 5°, stop on the first lens surface) -/
noncomputable def exSys : PSys ℝ :=
  ⟨[⟨.object, 0, 0, 0, 1, 1, false, false⟩, ⟨.standard, 0, 0, 50, 1, 1.5, false, true⟩,
    ⟨.standard, 0, 5, -50, 1.5, 1, false, false⟩, ⟨.standard, 0, 40, -100, 1, 1, true, false⟩,
    ⟨.standard, 0, 20, 0, 1, 1.5, false, false⟩, ⟨.image, 0, 10, 0, 1.5, 1.5, false, false⟩],
   .EPD, 25, .angle, 5, true⟩

theorem exSys_surfs : exSys.surfs.map unstop = exLens.map toPSurf := by
  simp [exSys, exLens, unstop, toPSurf]

theorem exSys_marginal_z : (marginalStart exSys).z = -10 := by
  simp [marginalStart, exSys, posOf]

theorem exSys_chief_z : (chiefStart exSys).z = 0 := by
  simp [chiefStart, exSys, posOf]

example : List.Forall₂ JetOf (mtrace (axial 1 (marginalStart exSys)) (exLens.map liftS))
    (marginalRay exSys) :=
  marginal_jet_partial exSys exLens exSys_surfs (by rw [exSys_marginal_z]; exact exLens_ok)

example : List.Forall₂ JetOf (mtrace (axial 1 (chiefStart exSys)) (exLens.map liftS))
    (chiefRay exSys) :=
  chief_jet_partial exSys exLens exSys_surfs (by
    rw [exSys_chief_z]
    simp only [exLens, okList, okSurf, hyperOk, dirAfter, zAfter, reduceCtorEq, false_imp_iff, true_and,
      and_true, imp_self]
    norm_num)
/-! ### `mtrace` is the 3-D model `traceLens` restricted to a meridional ray

Over `Dual` the x- and L-components of a meridional ray stay exactly `0 + 0ε`, and the y, z, M, N
components of `Surface._trace_real` are `mstepSurf`.  Absorption, aperture and coating only act
on the intensity, the optical path is carried along. -/

/-- a meridional ray as a ray of the 3-D model -/
def ray3 (r : MRay Dual) (i opd : Dual) : Ray Dual := ⟨⟨0,0⟩, r.y, r.z, ⟨0,0⟩, r.M, r.N, i, opd⟩

theorem d_zero_div (a : Dual) : (⟨0,0⟩ : Dual) /ᵈ a = ⟨0,0⟩ := by
  simp only [NumDual.div_eq, zero_div, zero_mul, mul_zero, sub_zero]
theorem d_zero_mul (a : Dual) : (⟨0,0⟩ : Dual) *ᵈ a = ⟨0,0⟩ := by
  simp only [NumDual.mul_eq, zero_mul, mul_zero, add_zero]
theorem d_mul_zero (a : Dual) : a *ᵈ (⟨0,0⟩ : Dual) = ⟨0,0⟩ := by
  simp only [NumDual.mul_eq, zero_mul, mul_zero, add_zero]
theorem d_zero_add (a : Dual) : (⟨0,0⟩ : Dual) +ᵈ a = a := by
  simp only [NumDual.add_eq, zero_add]
theorem d_add_zero (a : Dual) : a +ᵈ (⟨0,0⟩ : Dual) = a := by
  simp only [NumDual.add_eq, add_zero]
theorem d_sub_zero (a : Dual) : a -ᵈ (⟨0,0⟩ : Dual) = a := by
  simp only [NumDual.sub_eq, sub_zero]
theorem d_neg_zero : -ᵈ (⟨0,0⟩ : Dual) = ⟨0,0⟩ := by
  simp only [NumDual.neg_eq, neg_zero]
theorem d_neg_one_sq : (-ᵈ (@OfNat.ofNat Dual 1 Num.inst1)) *ᵈ (-ᵈ (@OfNat.ofNat Dual 1 Num.inst1))
    = (@OfNat.ofNat Dual 1 Num.inst1) := by
  simp only [NumDual.neg_eq, NumDual.one_eq, NumDual.mul_eq, neg_zero, mul_zero, zero_mul, add_zero,
    mul_neg, mul_one, neg_neg]

theorem stdDistance_merid (R k y z M N i o : Dual) :
    stdDistance R k (⟨⟨0,0⟩, y, z, ⟨0,0⟩, M, N, i, o⟩ : Ray Dual) = mdist k R ⟨y, z, M, N⟩ := by
  simp only [stdDistance, conicABC, mdist]
  congr 1
  · apply Dual.ext' <;>
      simp only [NumDual.add_eq, NumDual.sub_eq, NumDual.mul_eq, NumDual.two_eq, mul_zero, zero_mul,
        add_zero, zero_add]
  · apply Dual.ext' <;>
      simp only [NumDual.add_eq, NumDual.sub_eq, NumDual.mul_eq, NumDual.two_eq, mul_zero, zero_mul,
        add_zero, zero_add]
  · apply Dual.ext' <;>
      simp only [NumDual.add_eq, NumDual.sub_eq, NumDual.mul_eq, NumDual.two_eq, mul_zero, zero_mul,
        add_zero, zero_add]

theorem stdNormal_merid (R k y : Dual) :
    stdNormal R k ⟨0,0⟩ y = (⟨0,0⟩, (mnormal k R y).1, (mnormal k R y).2) := by
  simp only [stdNormal, conicSlope, mnormal, d_zero_div, d_zero_mul, d_zero_add, d_neg_one_sq]

theorem alignNormal_merid (M N ny nz : Dual) :
    alignNormal ⟨0,0⟩ M N ⟨0,0⟩ ny nz =
      (⟨0,0⟩, (malign M N ny nz).1, (malign M N ny nz).2.1, (malign M N ny nz).2.2) := by
  simp only [alignNormal, malign, d_zero_mul, d_zero_add]

theorem refract_merid (y z M N i o ny nz n1 n2 : Dual) :
    (⟨⟨0,0⟩, y, z, ⟨0,0⟩, M, N, i, o⟩ : Ray Dual).refract ⟨0,0⟩ ny nz n1 n2 =
      (⟨⟨0,0⟩, y, z, ⟨0,0⟩, (mrefract n1 n2 M N ny nz).1, (mrefract n1 n2 M N ny nz).2, i, o⟩ : Ray Dual) := by
  simp only [Ray.refract, alignNormal_merid, mrefract, d_zero_mul, d_mul_zero, d_zero_add,
    d_sub_zero, d_add_zero]

theorem reflect_merid (y z M N i o ny nz : Dual) :
    (⟨⟨0,0⟩, y, z, ⟨0,0⟩, M, N, i, o⟩ : Ray Dual).reflect ⟨0,0⟩ ny nz =
      (⟨⟨0,0⟩, y, z, ⟨0,0⟩, (mreflect M N ny nz).1, (mreflect M N ny nz).2, i, o⟩ : Ray Dual) := by
  simp only [Ray.reflect, alignNormal_merid, mreflect, d_zero_mul, d_mul_zero, d_zero_add,
    d_sub_zero, d_add_zero]

/-- the intensity after `propagate` (irrelevant for the geometry) -/
noncomputable def propI (i t k1 w : Dual) : Dual := ((⟨⟨0,0⟩, i, i, ⟨0,0⟩, i, i, i, i⟩ : Ray Dual).propagate t k1 w).i

theorem propagate_merid (y z M N i o t k1 w : Dual) :
    (⟨⟨0,0⟩, y, z, ⟨0,0⟩, M, N, i, o⟩ : Ray Dual).propagate t k1 w = (⟨⟨0,0⟩, y +ᵈ t *ᵈ M, z +ᵈ t *ᵈ N, ⟨0,0⟩, M, N, propI i t k1 w, o⟩ : Ray Dual) := by
  simp only [Ray.propagate, propI, d_mul_zero, d_add_zero]

/-- the intensity after the aperture clip -/
noncomputable def clipI (ap : Option (Dual × Dual)) (y i : Dual) : Dual :=
  (clip ap (⟨⟨0,0⟩, y, y, ⟨0,0⟩, y, y, i, i⟩ : Ray Dual)).i

theorem clip_merid (ap : Option (Dual × Dual)) (y z M N i o : Dual) :
    clip ap (⟨⟨0,0⟩, y, z, ⟨0,0⟩, M, N, i, o⟩ : Ray Dual) = (⟨⟨0,0⟩, y, z, ⟨0,0⟩, M, N, clipI ap y i, o⟩ : Ray Dual) := by
  cases ap with
  | none => rfl
  | some p =>
    obtain ⟨a, b⟩ := p
    simp only [clip, clipI]
    split_ifs <;> rfl

theorem truthy_zero : truthy (⟨0,0⟩ : Dual) = false := by
  simp only [truthy, Bool.not_eq_false']
  rw [NumDual.isZero_eq]

theorem localize_merid (zv y z M N i o : Dual) :
    Cs.localize ⟨⟨0,0⟩, ⟨0,0⟩, zv, ⟨0,0⟩, ⟨0,0⟩, ⟨0,0⟩⟩ (⟨⟨0,0⟩, y, z, ⟨0,0⟩, M, N, i, o⟩ : Ray Dual) = (⟨⟨0,0⟩, y, z +ᵈ -ᵈ zv, ⟨0,0⟩, M, N, i, o⟩ : Ray Dual) := by
  simp only [Cs.localize, truthy_zero, Bool.false_eq_true, if_false, Ray.translate, d_neg_zero,
    d_add_zero]

theorem globalize_merid (zv y z M N i o : Dual) :
    Cs.globalize ⟨⟨0,0⟩, ⟨0,0⟩, zv, ⟨0,0⟩, ⟨0,0⟩, ⟨0,0⟩⟩ (⟨⟨0,0⟩, y, z, ⟨0,0⟩, M, N, i, o⟩ : Ray Dual) = (⟨⟨0,0⟩, y, z +ᵈ zv, ⟨0,0⟩, M, N, i, o⟩ : Ray Dual) := by
  simp only [Cs.globalize, truthy_zero, Bool.false_eq_true, if_false, Ray.translate, d_add_zero]

/-- the surface of the 3-D model that `mstepSurf` restricts: vertex on the axis, no tilt, conic or
plane geometry; absorption `k1`, aperture and coating are arbitrary (they act on the intensity) -/
def toRSurf (sf : MSurf Dual) (k1 : Dual) (ap coat : Option (Dual × Dual)) : RSurf Dual :=
  { kind := match sf.kind with | .object => .object | .image => .image | _ => .standard,
    cs := ⟨⟨0,0⟩, ⟨0,0⟩, sf.z, ⟨0,0⟩, ⟨0,0⟩, ⟨0,0⟩⟩,
    geom := match sf.kind with
      | .conic => .standard sf.R sf.k | .conicMirror => .standard sf.R sf.k | _ => .plane,
    n1 := sf.n1, n2 := sf.n2, k1 := k1,
    refl := match sf.kind with | .conicMirror => true | .planeMirror => true | _ => false,
    aperture := ap, coating := coat }

theorem traceSurf_merid (sf : MSurf Dual) (k1 w : Dual) (ap coat : Option (Dual × Dual))
    (r : MRay Dual) (i opd : Dual) :
    ∃ i' opd', traceSurf (toRSurf sf k1 ap coat) w [ray3 r i opd] = [ray3 (mstepSurf sf r) i' opd'] := by
  obtain ⟨kind, zv, k, R, n1, n2⟩ := sf
  obtain ⟨y, z, M, N⟩ := r
  cases kind
  · exact ⟨i, opd, rfl⟩
  all_goals
    cases coat <;>
    · simp only [ray3, traceSurf, toRSurf, List.map_cons, List.map_nil, localize_merid, Geom.distance,
        stdDistance_merid, planeDistance, NumDual.zero_eq, List.zip_cons_cons, List.zip_nil_right, propagate_merid,
        clip_merid, interact, Geom.normal, stdNormal_merid, refract_merid, reflect_merid,
        Bool.false_eq_true, if_false, if_true, globalize_merid, NumDual.zero_eq,
        mstepSurf, mstepLocal, mstep, mstepMirror, mstepPlane, mstepPlaneMirror, mstepImage]
      exact ⟨_, _, rfl⟩

/-- the records of `traceLens` on one meridional ray are the records of `mtrace` -/
theorem traceLens_merid (w : Dual) (ss : List (MSurf Dual)) (rs : List (RSurf Dual))
    (h : List.Forall₂ (fun S sf => ∃ k1 ap coat, S = toRSurf sf k1 ap coat) rs ss) :
    ∀ (r : MRay Dual) (i opd : Dual),
    List.Forall₂ (fun rec r' => ∃ i' opd', rec = [ray3 r' i' opd'])
      (traceLens w rs [ray3 r i opd]) (mtrace r ss) := by
  induction h with
  | nil => intro r i opd; exact List.Forall₂.nil
  | cons hS _ ih =>
    intro r i opd
    obtain ⟨k1, ap, coat, rfl⟩ := hS
    obtain ⟨i', opd', e⟩ := traceSurf_merid _ k1 w ap coat r i opd
    simp only [traceLens, mtrace]
    rw [e]
    exact List.Forall₂.cons ⟨i', opd', rfl⟩ (ih _ _ _)

theorem forall2_comp {α β γ : Type} {R : α → β → Prop} {Q : β → γ → Prop} {P : α → γ → Prop}
    (hP : ∀ a b c, R a b → Q b c → P a c) :
    ∀ {l1 : List α} {l2 : List β} {l3 : List γ}, List.Forall₂ R l1 l2 → List.Forall₂ Q l2 l3 →
      List.Forall₂ P l1 l3 := by
  intro l1 l2 l3 h1
  induction h1 generalizing l3 with
  | nil => intro h2; cases h2; exact List.Forall₂.nil
  | cons hab _ ih =>
    intro h2
    cases h2 with
    | cons hbc hrest => exact List.Forall₂.cons (hP _ _ _ hab hbc) (ih hrest)

/-- what the driver command `jet` reports of a jet: the ε-coefficient of the slope `M/N` -/
theorem JetOf.slope {r : MRay Dual} {p : PRay ℝ} (h : JetOf r p) : r.M /ᵈ r.N = ⟨0, p.u⟩ := by
  obtain ⟨s, hs, _, _, hM, hN⟩ := h
  rw [hM, hN]
  rcases hs with rfl | rfl <;>
    simp only [NumDual.div_eq, zero_div, mul_zero, sub_zero, mul_one, one_mul, div_one, neg_mul,
      mul_neg, neg_neg]

/-- **traceLens_jet**: the whole-lens theorem for the 3-D model itself.  For a rotationally
symmetric lens of conic / plane refracting and reflecting surfaces (any absorption, apertures and
coatings) the real tracer `traceLens`, evaluated over jets on the axial seed ray, records at
every surface a ray that is still meridional and on the axis, and whose ε-coefficients of `y`
and `M/N` are the paraxial trace `ptrace` — this is what the driver command `jet` computes over
`DualF` and what the harness compares with finite differences of the Python tracer. -/
theorem traceLens_jet (w : Dual) (ss : List (MSurf ℝ)) (rs : List (RSurf Dual))
    (h : List.Forall₂ (fun S sf => ∃ k1 ap coat, S = toRSurf (liftS sf) k1 ap coat) rs ss)
    (s : ℝ) (p : PRay ℝ) (hs : s = 1 ∨ s = -1) (ok : okList s p.z ss) (i opd : Dual) :
    List.Forall₂ (fun rec q => ∃ r' i' opd', rec = [ray3 r' i' opd'] ∧ JetOf r' q ∧
        r'.y = ⟨0, q.y⟩ ∧ r'.M /ᵈ r'.N = ⟨0, q.u⟩)
      (traceLens w rs [ray3 (axial s p) i opd]) (ptrace p (ss.map toPSurf)) := by
  have h' : List.Forall₂ (fun S sf => ∃ k1 ap coat, S = toRSurf sf k1 ap coat) rs (ss.map liftS) := by
    rw [List.forall₂_map_right_iff]; exact h
  refine forall2_comp (fun rec r' q hr hj => ?_)
    (traceLens_merid w _ rs h' (axial s p) i opd) (mtrace_jet ss s p hs ok)
  obtain ⟨i', opd', e⟩ := hr
  have hy : r'.y = ⟨0, q.y⟩ := by obtain ⟨_, _, hy, _⟩ := hj; exact hy
  exact ⟨r', i', opd', e, hj, hy, hj.slope⟩

-- traceLens_jet: the example lens as 3-D surfaces with apertures and coatings
example (w : Dual) :
    List.Forall₂ (fun rec q => ∃ r' i' opd', rec = [ray3 r' i' opd'] ∧ JetOf r' q ∧
        r'.y = ⟨0, q.y⟩ ∧ r'.M /ᵈ r'.N = ⟨0, q.u⟩)
      (traceLens w (exLens.map fun sf => toRSurf (liftS sf) ⟨0,0⟩ (some (⟨30,0⟩, ⟨0,0⟩))
          (some (⟨0.99,0⟩, ⟨0.01,0⟩))) [ray3 (axial 1 ⟨12.5, 0, -10⟩) ⟨1,0⟩ ⟨0,0⟩])
      (ptrace ⟨12.5, 0, -10⟩ (exLens.map toPSurf)) :=
  traceLens_jet w exLens _
    (by rw [List.forall₂_map_left_iff]; exact List.forall₂_same.2 (fun sf _ => ⟨_, _, _, rfl⟩))
    1 _ (Or.inl rfl) exLens_ok _ _

/-! ### the masked root: hyperboloids met from the concave side, for an arbitrary `Num.inf` -/

/-- `Dual` with an arbitrary value `I` in place of the placeholder `Num.inf` -/
@[reducible] noncomputable def dualInf (I : Dual) : Num Dual :=
  { (inferInstance : Num Dual) with inf := I }

theorem selectRoot_dualInf (I a b c z N : Dual) :
    @selectRoot Dual (dualInf I) a b c z N =
      (if Num.isZero a then -ᵈ c /ᵈ b else
        if Num.le (Num.abs (z +ᵈ maskNeg ((-ᵈ b +ᵈ Num.sqrt (b *ᵈ b -ᵈ Num.ofRat 4 1 *ᵈ a *ᵈ c)) /ᵈ (twoᵈ *ᵈ a)) I *ᵈ N))
            (Num.abs (z +ᵈ maskNeg ((-ᵈ b -ᵈ Num.sqrt (b *ᵈ b -ᵈ Num.ofRat 4 1 *ᵈ a *ᵈ c)) /ᵈ (twoᵈ *ᵈ a)) I *ᵈ N))
        then maskNeg ((-ᵈ b +ᵈ Num.sqrt (b *ᵈ b -ᵈ Num.ofRat 4 1 *ᵈ a *ᵈ c)) /ᵈ (twoᵈ *ᵈ a)) I
        else maskNeg ((-ᵈ b -ᵈ Num.sqrt (b *ᵈ b -ᵈ Num.ofRat 4 1 *ᵈ a *ᵈ c)) /ᵈ (twoᵈ *ᵈ a)) I) := rfl

theorem mdist_dualInf (I k R : Dual) (r : MRay Dual) :
    @mdist Dual (dualInf I) k R r =
      @selectRoot Dual (dualInf I)
        (k *ᵈ (r.N *ᵈ r.N) +ᵈ r.M *ᵈ r.M +ᵈ r.N *ᵈ r.N)
        (twoᵈ *ᵈ k *ᵈ r.N *ᵈ r.z +ᵈ twoᵈ *ᵈ r.M *ᵈ r.y -ᵈ twoᵈ *ᵈ r.N *ᵈ R +ᵈ twoᵈ *ᵈ r.N *ᵈ r.z)
        (k *ᵈ (r.z *ᵈ r.z) -ᵈ twoᵈ *ᵈ R *ᵈ r.z +ᵈ r.y *ᵈ r.y +ᵈ r.z *ᵈ r.z) r.z r.N := rfl

theorem seed_abc (k R z0 y1 m1 s : ℝ) (hss : s * s = 1) :
    ((⟨k,0⟩ : Dual) *ᵈ (⟨s,0⟩ *ᵈ ⟨s,0⟩) +ᵈ ⟨0,m1⟩ *ᵈ ⟨0,m1⟩ +ᵈ ⟨s,0⟩ *ᵈ ⟨s,0⟩ = ⟨k + 1, 0⟩) ∧
    (twoᵈ *ᵈ ⟨k,0⟩ *ᵈ ⟨s,0⟩ *ᵈ ⟨z0,0⟩ +ᵈ twoᵈ *ᵈ ⟨0,m1⟩ *ᵈ ⟨0,y1⟩ -ᵈ twoᵈ *ᵈ ⟨s,0⟩ *ᵈ ⟨R,0⟩
        +ᵈ twoᵈ *ᵈ ⟨s,0⟩ *ᵈ ⟨z0,0⟩ = (⟨s * (2 * (k + 1) * z0 - 2 * R), 0⟩ : Dual)) ∧
    ((⟨k,0⟩ : Dual) *ᵈ (⟨z0,0⟩ *ᵈ ⟨z0,0⟩) -ᵈ twoᵈ *ᵈ ⟨R,0⟩ *ᵈ ⟨z0,0⟩ +ᵈ ⟨0,y1⟩ *ᵈ ⟨0,y1⟩ +ᵈ ⟨z0,0⟩ *ᵈ ⟨z0,0⟩
        = ⟨(k + 1) * (z0 * z0) - 2 * R * z0, 0⟩) := by
  refine ⟨?_, ?_, ?_⟩
  · simp only [NumDual.add_eq, NumDual.mul_eq, mul_zero, zero_mul, add_zero, hss]
    apply Dual.ext' <;> simp only [] <;> ring
  · simp only [NumDual.add_eq, NumDual.sub_eq, NumDual.mul_eq, NumDual.two_eq, mul_zero, zero_mul,
      add_zero, zero_add, sub_zero]
    apply Dual.ext' <;> simp only [] <;> ring
  · simp only [NumDual.add_eq, NumDual.sub_eq, NumDual.mul_eq, NumDual.two_eq, mul_zero, zero_mul,
      add_zero, zero_add, sub_zero]
    apply Dual.ext' <;> simp only [] <;> ring

/-- **mdist_axis_anyinf**: the case that `mdist_axis` excludes — a hyperboloid (`1 + k < 0`) met
from its concave side (`s R > 0`) by a ray starting between the two sheets
(`s·2R/(1+k) < s z₀ ≤ 0`).  The far root is negative and is replaced by `np.inf`; the theorem is
stated for the carrier `dualInf I`, i.e. for *every* value `I` of that placeholder except the
coincidence `z₀ + I s = 0` (which would put the masked root on the vertex plane): the vertex root
is selected.  For the IEEE carrier `I = +∞`; for the standard instance of this file `I = 0 + 0ε`
and the condition reads `z₀ ≠ 0`.  No other function of the meridional step reads `Num.inf`. -/
theorem mdist_axis_anyinf (I : Dual) (k R z0 y1 m1 s : ℝ) (hs : s = 1 ∨ s = -1)
    (hk : 1 + k < 0) (hsR : 0 < s * R) (hz : s * z0 ≤ 0) (hin : s * (2 * R / (1 + k)) < s * z0)
    (hI : z0 + I.v * s ≠ 0) :
    @mdist Dual (dualInf I) ⟨k,0⟩ ⟨R,0⟩ ⟨⟨0,y1⟩, ⟨z0,0⟩, ⟨0,m1⟩, ⟨s,0⟩⟩ = ⟨-z0 * s, 0⟩ := by
  have hss : s * s = 1 := by rcases hs with rfl | rfl <;> norm_num
  have hk' : k + 1 ≠ 0 := by linarith
  obtain ⟨ea, eb, ec⟩ := seed_abc k R z0 y1 m1 s hss
  rw [mdist_dualInf]
  simp only []
  rw [ea, eb, ec, selectRoot_dualInf]
  have hd : (s * (2 * (k + 1) * z0 - 2 * R)) * (s * (2 * (k + 1) * z0 - 2 * R))
      - 4 * (k + 1) * ((k + 1) * (z0 * z0) - 2 * R * z0) = (2 * (s * R)) ^ 2 := by
    linear_combination ((2 * (k + 1) * z0 - 2 * R)^2 - 4 * R^2) * hss
  have hS : Real.sqrt ((s * (2 * (k + 1) * z0 - 2 * R)) * (s * (2 * (k + 1) * z0 - 2 * R))
      - 4 * (k + 1) * ((k + 1) * (z0 * z0) - 2 * R * z0)) = 2 * (s * R) := by
    rw [hd, Real.sqrt_sq_eq_abs, abs_of_pos (by linarith)]
  have T1 := root_plus (k + 1) (s * (2 * (k + 1) * z0 - 2 * R)) ((k + 1) * (z0 * z0) - 2 * R * z0)
  have T2 := root_minus (k + 1) (s * (2 * (k + 1) * z0 - 2 * R)) ((k + 1) * (z0 * z0) - 2 * R * z0)
  rw [hS] at T1 T2
  have e1 : (-(s * (2 * (k + 1) * z0 - 2 * R)) + 2 * (s * R)) / (2 * (k + 1))
      = s * (2 * R / (k + 1)) - s * z0 := by
    field_simp; ring
  have e2 : (-(s * (2 * (k + 1) * z0 - 2 * R)) - 2 * (s * R)) / (2 * (k + 1)) = -z0 * s := by
    field_simp; ring
  rw [e1] at T1
  rw [e2] at T2
  rw [T1, T2]
  have m1' : maskNeg (⟨s * (2 * R / (k + 1)) - s * z0, 0⟩ : Dual) I = I := by
    unfold maskNeg
    rw [if_pos]
    rw [NumDual.lt_eq]
    show s * (2 * R / (k + 1)) - s * z0 < 0
    rw [add_comm 1 k] at hin; linarith
  have m2' : maskNeg (⟨-z0 * s, 0⟩ : Dual) I = ⟨-z0 * s, 0⟩ := by
    apply maskNeg_keep
    show ¬ (-z0 * s < 0)
    linarith
  rw [m1', m2', if_neg (by rw [NumDual.isZero_eq]; exact hk'), if_neg]
  rw [NumDual.le_eq, NumDual.abs_eq, NumDual.abs_eq]
  show ¬ (|z0 + I.v * s| ≤ |z0 + -z0 * s * s|)
  have : z0 + -z0 * s * s = 0 := by linear_combination (-z0) * hss
  rw [this, abs_zero]
  intro h
  exact hI (abs_eq_zero.mp (le_antisymm h (abs_nonneg _)))

example : ((1:ℝ) = 1 ∨ (1:ℝ) = -1) ∧ (1:ℝ) + (-2) < 0 ∧ (0:ℝ) < 1 * 50 ∧ (1:ℝ) * (-10) ≤ 0 ∧
    (1:ℝ) * (2 * 50 / (1 + (-2))) < 1 * (-10) ∧ (-10:ℝ) + (0:ℝ) * 1 ≠ 0 := by norm_num
end C05
