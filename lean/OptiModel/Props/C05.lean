import OptiModel.Model.Merid
import OptiModel.Model.Parax
import OptiModel.Proofs.NumReal
import Mathlib.Tactic.FieldSimp
import Mathlib.Tactic.Ring
import Mathlib.Tactic.LinearCombination
import Mathlib.Tactic.Positivity
import Mathlib.Tactic.Linarith
/-!
# C05  Real rays converge to the paraxial prediction as aperture and field vanish

The real-ray step is evaluated over first-order jets `a + bε` (`Dual`): seeding the axial
ray with `y = 0 + ε y₁`, `M = 0 + ε m₁` and reading the ε-coefficients gives the derivative
of the real trace with respect to the scale factor at 0, i.e. `lim real(ε)/ε`.  The theorems
say that this derivative is the paraxial transfer + refraction.
-/
namespace C05
open Model

/-- first-order jets a + bε over ℝ -/
structure Dual where
  v : ℝ
  d : ℝ

open Classical in
noncomputable instance : Num Dual where
  add a b := ⟨a.v + b.v, a.d + b.d⟩
  sub a b := ⟨a.v - b.v, a.d - b.d⟩
  mul a b := ⟨a.v * b.v, a.v * b.d + a.d * b.v⟩
  div a b := ⟨a.v / b.v, (a.d * b.v - a.v * b.d) / (b.v * b.v)⟩
  neg a := ⟨-a.v, -a.d⟩
  zero := ⟨0, 0⟩
  one := ⟨1, 0⟩
  two := ⟨2, 0⟩
  ofRat p q := ⟨(p:ℝ)/(q:ℝ), 0⟩
  inf := ⟨0, 0⟩
  sqrt a := ⟨Real.sqrt a.v, a.d / (2 * Real.sqrt a.v)⟩
  abs a := ⟨|a.v|, if 0 ≤ a.v then a.d else -a.d⟩
  lt a b := decide (a.v < b.v)
  le a b := decide (a.v ≤ b.v)
  sin a := ⟨Real.sin a.v, Real.cos a.v * a.d⟩
  cos a := ⟨Real.cos a.v, -(Real.sin a.v) * a.d⟩
  tan a := ⟨Real.tan a.v, a.d / (Real.cos a.v * Real.cos a.v)⟩
  asin a := ⟨Real.arcsin a.v, a.d / Real.sqrt (1 - a.v * a.v)⟩
  acos a := ⟨Real.arccos a.v, -a.d / Real.sqrt (1 - a.v * a.v)⟩
  exp a := ⟨Real.exp a.v, Real.exp a.v * a.d⟩
  atan2 y x := ⟨Real.arctan (y.v / x.v), (x.v * y.d - y.v * x.d) / (x.v * x.v + y.v * y.v)⟩
  pi := ⟨Real.pi, 0⟩

namespace NumDual
theorem add_eq (a b : Dual) : @HAdd.hAdd Dual Dual Dual (@instHAdd Dual Num.instAdd) a b = ⟨a.v + b.v, a.d + b.d⟩ := rfl
theorem sub_eq (a b : Dual) : @HSub.hSub Dual Dual Dual (@instHSub Dual Num.instSub) a b = ⟨a.v - b.v, a.d - b.d⟩ := rfl
theorem mul_eq (a b : Dual) : @HMul.hMul Dual Dual Dual (@instHMul Dual Num.instMul) a b = ⟨a.v * b.v, a.v * b.d + a.d * b.v⟩ := rfl
theorem div_eq (a b : Dual) : @HDiv.hDiv Dual Dual Dual (@instHDiv Dual Num.instDiv) a b = ⟨a.v / b.v, (a.d * b.v - a.v * b.d) / (b.v * b.v)⟩ := rfl
theorem neg_eq (a : Dual) : @Neg.neg Dual Num.instNeg a = ⟨-a.v, -a.d⟩ := rfl
theorem zero_eq : @OfNat.ofNat Dual 0 Num.inst0 = ⟨0,0⟩ := rfl
theorem one_eq : @OfNat.ofNat Dual 1 Num.inst1 = ⟨1,0⟩ := rfl
theorem two_eq : @OfNat.ofNat Dual 2 Num.inst2 = ⟨2,0⟩ := rfl
theorem fzero_eq : (Num.zero : Dual) = ⟨0,0⟩ := rfl
theorem fone_eq : (Num.one : Dual) = ⟨1,0⟩ := rfl
theorem fneg_eq (a : Dual) : Num.neg a = ⟨-a.v, -a.d⟩ := rfl
theorem inf_eq : (Num.inf : Dual) = ⟨0,0⟩ := rfl
theorem ofRat_eq (p q : ℕ) : (Num.ofRat p q : Dual) = ⟨(p:ℝ)/(q:ℝ), 0⟩ := rfl
theorem sqrt_eq (a : Dual) : Num.sqrt a = ⟨Real.sqrt a.v, a.d / (2 * Real.sqrt a.v)⟩ := rfl
theorem abs_eq (a : Dual) : Num.abs a = ⟨|a.v|, if 0 ≤ a.v then a.d else -a.d⟩ := rfl
theorem lt_eq (a b : Dual) : (Num.lt a b = true) = (a.v < b.v) := by
  show (decide (a.v < b.v) = true) = (a.v < b.v); simp
theorem le_eq (a b : Dual) : (Num.le a b = true) = (a.v ≤ b.v) := by
  show (decide (a.v ≤ b.v) = true) = (a.v ≤ b.v); simp
theorem isZero_eq (a : Dual) : (Num.isZero a = true) = (a.v = 0) := by
  unfold Num.isZero
  rw [Bool.and_eq_true, le_eq, le_eq, fzero_eq]
  exact propext ⟨fun h => le_antisymm h.1 h.2, fun h => ⟨h.le, h.ge⟩⟩
end NumDual

theorem Dual.ext' {a b : Dual} (h1 : a.v = b.v) (h2 : a.d = b.d) : a = b := by
  cases a; cases b; simp_all

/-- the distance from the axial seed ray to a conic with R > 0, 1 + k > 0: value `-z₀`, no
first-order change (the vertex is reached whatever the small height and slope) -/
theorem mdist_seed (k R z0 y1 m1 : ℝ) (hR : 0 < R) (hk : 0 < 1 + k) (hz : z0 ≤ 0) :
    mdist (α := Dual) ⟨k,0⟩ ⟨R,0⟩ ⟨⟨0,y1⟩, ⟨z0,0⟩, ⟨0,m1⟩, ⟨1,0⟩⟩ = ⟨-z0, 0⟩ := by
  have hk' : (k + 1) ≠ 0 := by linarith
  have hrad : (2 * k * z0 - 2 * R + 2 * z0) * (2 * k * z0 - 2 * R + 2 * z0) -
      4 / 1 * (k + 1) * (k * (z0 * z0) - 2 * R * z0 + z0 * z0) = (2*R)^2 := by ring
  simp only [mdist, selectRoot, maskNeg, NumDual.add_eq, NumDual.sub_eq, NumDual.mul_eq, NumDual.div_eq,
    NumDual.neg_eq, NumDual.two_eq, NumDual.zero_eq, NumDual.sqrt_eq, NumDual.abs_eq, NumDual.lt_eq,
    NumDual.le_eq, NumDual.isZero_eq, NumDual.ofRat_eq, NumDual.inf_eq,
    mul_zero, zero_mul, add_zero, zero_add, mul_one, one_mul, sub_zero, neg_zero, zero_div, zero_sub,
    Nat.cast_ofNat, Nat.cast_one]
  rw [hrad, Real.sqrt_sq (by positivity)]
  have h2 : (-(2 * k * z0 - 2 * R + 2 * z0) - 2 * R) / (2 * (k + 1)) = -z0 := by
    field_simp; ring
  have h1 : (-(2 * k * z0 - 2 * R + 2 * z0) + 2 * R) / (2 * (k + 1)) = 2*R/(k+1) - z0 := by
    field_simp; ring
  rw [h1, h2]
  have hk1 : 0 < k + 1 := by linarith
  have hpos : 0 < 2*R/(k+1) := div_pos (by positivity) hk1
  have p1 : ¬ (2*R/(k+1) - z0 < 0) := by linarith
  have p2 : ¬ (-z0 < 0) := by linarith
  have pk : ¬ (k + 1 = 0) := hk'
  simp only [p1, p2, if_false, pk]
  have hz1 : z0 + (2*R/(k+1) - z0) = 2*R/(k+1) := by ring
  have hz2 : z0 + -z0 = 0 := by ring
  rw [hz1, hz2, abs_zero]
  have : ¬ (|2*R/(k+1)| ≤ 0) := by
    rw [abs_of_pos hpos]; linarith
  simp only [this, if_false]

/-- **real_jet_eq_paraxial** (one refracting conic surface): the first-order jet of the real
refraction, seeded on the axis, is the paraxial transfer and refraction:
`y' = y₁ − z₀ m₁`, `M' = (n₁/n₂) m₁ − (1 − n₁/n₂) y'/R`, `N' = 1 + 0·ε`. -/
theorem mstep_jet (k R n1 n2 z0 y1 m1 : ℝ) (hR : 0 < R) (hk : 0 < 1 + k)
    (hn1 : 0 < n1) (hn2 : 0 < n2) (hz : z0 ≤ 0) :
    let out := (mstep (α := Dual) ⟨k,0⟩ ⟨R,0⟩ ⟨n1,0⟩ ⟨n2,0⟩ ⟨⟨0,y1⟩, ⟨z0,0⟩, ⟨0,m1⟩, ⟨1,0⟩⟩).1
    out.y = ⟨0, y1 - z0*m1⟩ ∧ out.z = ⟨0, 0⟩ ∧
      out.M = ⟨0, (n1/n2)*m1 - (1 - n1/n2) * (y1 - z0*m1) / R⟩ ∧ out.N = ⟨1, 0⟩ := by
  have hR' : R ≠ 0 := ne_of_gt hR
  have hn2' : n2 ≠ 0 := ne_of_gt hn2
  simp only [mstep, mdist_seed k R z0 y1 m1 hR hk hz]
  simp only [mnormal, mrefract, malign, Num.sign, NumDual.add_eq, NumDual.sub_eq, NumDual.mul_eq,
    NumDual.div_eq, NumDual.neg_eq, NumDual.zero_eq, NumDual.one_eq, NumDual.two_eq, NumDual.sqrt_eq,
    NumDual.abs_eq, NumDual.lt_eq, NumDual.fzero_eq, NumDual.fone_eq, NumDual.fneg_eq,
    mul_zero, zero_mul, add_zero, zero_add, mul_one, one_mul, sub_zero, neg_zero, zero_div,
    zero_sub, Real.sqrt_one, neg_neg, sub_self, add_neg_cancel, neg_add_cancel]
  have e1 : ¬ ((0:ℝ) < -1) := by norm_num
  have e2 : ((-1:ℝ) < 0) := by norm_num
  have e3 : ¬ ((0:ℝ) ≤ -1) := by norm_num
  simp only [div_one, e1, e2, e3, if_true, if_false, abs_neg, abs_one, mul_one, sub_self, mul_zero,
    sub_zero, Real.sqrt_one, zero_mul, add_zero, neg_zero, zero_div, mul_neg, neg_neg, neg_mul]
  refine ⟨?_, ?_, ?_, ?_⟩
  · apply Dual.ext' <;> simp <;> ring1
  · trivial
  · apply Dual.ext'
    · simp
    · simp only []; field_simp; ring1
  · apply Dual.ext' <;> simp

/-- the paraxial step of the same surface (vertex at z = 0 in its own frame), for comparison:
`Surface._trace_paraxial` gives exactly the jet's ε-coefficients -/
theorem jet_is_pstep (R n1 n2 z0 y1 m1 : ℝ) (hn2 : n2 ≠ 0) :
    let p := pstepStd ⟨y1, m1, z0⟩ ⟨.standard, 0, 0, R, n1, n2, false, false⟩
    p.y = y1 - z0*m1 ∧ p.u = (n1/n2)*m1 - (1 - n1/n2) * (y1 - z0*m1) / R := by
  intro p
  simp only [p, pstepStd]
  num_real
  simp only [Bool.false_eq_true, if_false]
  constructor
  · ring
  · by_cases hR : R = 0
    · simp [hR]; field_simp
    · field_simp; ring

/-! ### the meridional real step is odd: no even orders in the scale factor -/

/-- reflecting the ray in the axis (y, M) ↦ (−y, −M) -/
def flip (r : MRay ℝ) : MRay ℝ := ⟨-r.y, r.z, -r.M, r.N⟩

/-- **real_trace_odd** (intersection): the distance to a conic is even in (y, M) -/
theorem mdist_even (k R : ℝ) (r : MRay ℝ) : mdist k R (flip r) = mdist k R r := by
  unfold mdist flip
  num_real
  have ea : k * (r.N * r.N) + -r.M * -r.M + r.N * r.N = k * (r.N * r.N) + r.M * r.M + r.N * r.N := by ring
  have eb : 2 * k * r.N * r.z + 2 * -r.M * -r.y - 2 * r.N * R + 2 * r.N * r.z =
      2 * k * r.N * r.z + 2 * r.M * r.y - 2 * r.N * R + 2 * r.N * r.z := by ring
  have ec : k * (r.z * r.z) - 2 * R * r.z + -r.y * -r.y + r.z * r.z =
      k * (r.z * r.z) - 2 * R * r.z + r.y * r.y + r.z * r.z := by ring
  rw [ea, eb, ec]

/-- the conic normal is odd in y (its z-component even) -/
theorem mnormal_odd (k R y : ℝ) : mnormal k R (-y) = (-(mnormal k R y).1, (mnormal k R y).2) := by
  unfold mnormal
  num_real
  have e : -y * -y = y * y := by ring
  rw [e]
  set den := R * Real.sqrt (1 - (1 + k) * (y * y) / (R * R))
  have e2 : -y / den * (-y / den) = y / den * (y / den) := by ring
  rw [e2]
  simp only [Prod.mk.injEq, and_true]
  rw [neg_div, neg_div]

/-- refraction is odd: flipping (M, ny) flips M' and keeps N' -/
theorem mrefract_odd (n1 n2 M N ny nz : ℝ) :
    mrefract n1 n2 (-M) N (-ny) nz = (-(mrefract n1 n2 M N ny nz).1, (mrefract n1 n2 M N ny nz).2) := by
  unfold mrefract malign
  num_real
  have e : -M * -ny + N * nz = M * ny + N * nz := by ring
  simp only [e, Prod.mk.injEq, and_true]
  ring

/-! ### non-vacuity -/
example : (0:ℝ) < 50 ∧ (0:ℝ) < 1 + (-0.5) ∧ (0:ℝ) < 1 ∧ (0:ℝ) < 1.5 ∧ (-10:ℝ) ≤ 0 := by norm_num

end C05
