import OptiModel.Model.Merid
import OptiModel.Proofs.NumReal
import Mathlib.Tactic.FieldSimp
import Mathlib.Tactic.Ring
import Mathlib.Tactic.LinearCombination
import Mathlib.Tactic.Positivity
import Mathlib.Tactic.Linarith
/-!
# C06  Analytically stigmatic systems are imaged perfectly
Closed-form theorems about the model's *own* `distance`, `surface_normal`, alignment and
`reflect`/`refract` (meridional restriction `Model/Merid.lean`, same expressions and branch
order as `Model/Real.lean`), over ℝ, for all parameter values in the stated ranges.
-/
namespace C06
open Model

/-- **paraboloid_mirror** (k = −1, object at infinity): for every height `h` and every radius
`R ≠ 0` the reflected ray passes through the focus `(0, R/2)`, at signed parameter
`s = −(h² + R²)/(2R)` along the reflected direction; the reflected direction is a unit vector; and
`t + s` (the path from the start plane `z = z₀` to the focus, counted along the ray) does not depend
on `h`. -/
theorem mdist_parabola (R h z0 : ℝ) :
    mdist (-1:ℝ) R ⟨h, z0, 0, 1⟩ = (h*h - 2*R*z0) / (2*R) := by
  simp only [mdist, selectRoot]
  num_real
  have hz : (-1 * (1 * 1) + 0 * 0 + 1 * 1 : ℝ) = 0 := by norm_num
  rw [if_pos hz]
  have hb : (2 * -1 * 1 * z0 + 2 * 0 * h - 2 * 1 * R + 2 * 1 * z0) = -(2*R) := by ring
  have hcc : (-1 * (z0 * z0) - 2 * R * z0 + h * h + z0 * z0) = h*h - 2*R*z0 := by ring
  rw [hb, hcc, neg_div_neg_eq]

theorem paraboloid_stigmatic (R h z0 : ℝ) (hR : R ≠ 0) :
    let out := mstepMirror (α := ℝ) (-1) R ⟨h, z0, 0, 1⟩
    let s := -(h^2 + R^2) / (2*R)
    out.1.y + s * out.1.M = 0 ∧ out.1.z + s * out.1.N = R/2 ∧
    out.1.M^2 + out.1.N^2 = 1 ∧ out.2 + s = -z0 - R/2 := by
  have hq : 0 < h / R * (h / R) + 1 := by nlinarith [mul_self_nonneg (h / R)]
  set S := Real.sqrt (h / R * (h / R) + 1) with hSdef
  have hS : 0 < S := Real.sqrt_pos.mpr hq
  have hs : S ^ 2 = h / R * (h / R) + 1 := Real.sq_sqrt hq.le
  have c2 : -1 / S < 0 := by apply div_neg_of_neg_of_pos <;> [norm_num; exact hS]
  have c1 : ¬ (0 < -1 / S) := by linarith
  have c3 : |-1 / S| = 1 / S := by rw [abs_of_neg c2]; ring
  simp only [mstepMirror, mdist_parabola]
  simp only [mnormal, mreflect, malign, Num.sign]
  num_real
  have e0 : h + (h * h - 2 * R * z0) / (2 * R) * 0 = h := by ring
  have e1 : (1:ℝ) - (1 + -1) * (h * h) / (R * R) = 1 := by ring
  simp only [e0, e1, Real.sqrt_one, mul_one, ← hSdef]
  have ed : (0:ℝ) * (h / R / S) + 1 * (-1 / S) = -1 / S := by ring
  simp only [ed, c1, c2, c3, if_true, if_false]
  have hS' : S ≠ 0 := ne_of_gt hS
  have hs' : S ^ 2 * R ^ 2 = h ^ 2 + R ^ 2 := by
    rw [hs]; field_simp
  refine ⟨?_, ?_, ?_, ?_⟩
  · field_simp
    linear_combination (2*h) * hs'
  · field_simp
    linear_combination (-2) * hs'
  · field_simp
    linear_combination (-4) * hs'
  · field_simp
    ring

/-- **sphere_centre_of_curvature**: a ray leaving the centre of curvature `(0, R)` of a sphere
(`R > 0`, heading towards the vertex side, `N < 0`, unit direction) meets the sphere at distance `R`,
at normal incidence: refraction leaves the direction unchanged, reflection reverses it — for every
direction and both index values. -/
theorem sphere_centre (R M N n1 n2 : ℝ) (hR : 0 < R) (hN : N < 0) (hu : M^2 + N^2 = 1) (hn2 : n2 ≠ 0) :
    let r : MRay ℝ := ⟨0, R, M, N⟩
    mdist 0 R r = R ∧
    mnormal 0 R (0 + R * M) = (M, N) ∧
    mrefract n1 n2 M N M N = (M, N) ∧ mreflect M N M N = (-M, -N) := by
  intro r
  have hNN : N^2 = 1 - M^2 := by linarith
  have habs : |N| = -N := abs_of_neg hN
  refine ⟨?_, ?_, ?_, ?_⟩
  · simp only [r, mdist, selectRoot, maskNeg]
    num_real
    have e4 : ((4:ℕ):ℝ)/((1:ℕ):ℝ) = 4 := by norm_num
    have ea : 0 * (N * N) + M * M + N * N = (1:ℝ) := by nlinarith
    have eb : 2 * 0 * N * R + 2 * M * 0 - 2 * N * R + 2 * N * R = (0:ℝ) := by ring
    have ec : 0 * (R * R) - 2 * R * R + 0 * 0 + R * R = -(R*R) := by ring
    simp only [e4, ea, eb, ec]
    have ed : (0:ℝ) * 0 - 4 * 1 * -(R * R) = (2*R)^2 := by ring
    rw [ed, Real.sqrt_sq (by positivity)]
    have t1 : (-0 + 2 * R) / (2 * 1) = R := by ring
    have t2 : (-0 - 2 * R) / (2 * 1) = -R := by ring
    rw [t1, t2]
    have p1 : ¬ (R < 0) := not_lt.mpr hR.le
    have p2 : -R < 0 := by linarith
    have p3 : ¬ ((1:ℝ) = 0) := one_ne_zero
    have inf0 : (Num.inf : ℝ) = 0 := rfl
    simp only [p1, p2, if_true, if_false, p3, inf0, zero_mul, add_zero]
    have : |R + R * N| ≤ |R| := by
      rw [abs_of_pos hR]
      have h1 : -1 ≤ N := by nlinarith
      rw [abs_le]; constructor <;> nlinarith
    simp only [this, if_true]
  · simp only [mnormal]
    num_real
    have e0 : (0:ℝ) + R * M = R * M := by ring
    rw [e0]
    have e1 : (1:ℝ) - (1 + 0) * (R * M * (R * M)) / (R * R) = N^2 := by
      have : R ≠ 0 := ne_of_gt hR
      field_simp
      nlinarith
    rw [e1, Real.sqrt_sq_eq_abs, habs]
    have hNn : N ≠ 0 := ne_of_lt hN
    have hRn : R ≠ 0 := ne_of_gt hR
    have e2 : R * M / (R * -N) = -(M / N) := by field_simp
    rw [e2]
    have e3 : -(M / N) * -(M / N) + 1 = (1 / N)^2 := by
      field_simp
      nlinarith
    rw [e3, Real.sqrt_sq_eq_abs, abs_div, abs_one, habs]
    simp only [Prod.mk.injEq]
    constructor <;> field_simp
  · simp only [mrefract, malign, Num.sign]
    num_real
    have ed : M * M + N * N = (1:ℝ) := by nlinarith
    have p1 : (0:ℝ) < 1 := one_pos
    simp only [ed, p1, if_true, abs_one, mul_one, sub_self, mul_zero, sub_zero, Real.sqrt_one, Prod.mk.injEq]
    constructor <;> ring
  · simp only [mreflect, malign, Num.sign]
    num_real
    have ed : M * M + N * N = (1:ℝ) := by nlinarith
    have p1 : (0:ℝ) < 1 := one_pos
    simp only [ed, p1, if_true, abs_one, mul_one, Prod.mk.injEq]
    constructor <;> ring

/-! ### non-vacuity -/
example : (0:ℝ) < 50 ∧ (-(4:ℝ)/5) < 0 ∧ ((3:ℝ)/5)^2 + (-(4:ℝ)/5)^2 = 1 := by norm_num

end C06
