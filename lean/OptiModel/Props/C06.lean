import OptiModel.Model.Merid
import OptiModel.Proofs.NumReal
import OptiModel.Proofs.ConicRefract
import Mathlib.Tactic.FieldSimp
import Mathlib.Tactic.Ring
import Mathlib.Tactic.LinearCombination
import Mathlib.Tactic.Positivity
import Mathlib.Tactic.Linarith
import OptiModel.Proofs.ConicMirrors
/-!
# C06  Analytically stigmatic systems are imaged perfectly
Closed-form theorems about the model's *own* `distance`, `surface_normal`, alignment and
`reflect`/`refract` (meridional restriction `Model/Merid.lean`, same expressions and branch
order as `Model/Real.lean`), over ℝ, for all parameter values in the stated ranges.
-/
namespace C06
open Model

/-- **paraboloid_mirror** (k = −1, object at infinity): for every height `h` and every radius
`R ≠ 0` the reflected ray passes through the focus `(0, R/2)`, at signed parameter
`s = −(h² + R²)/(2R)` along the reflected direction; the reflected direction is a unit vector; and
`t + s` (the path from the start plane `z = z₀` to the focus, counted along the ray) does not depend
on `h`. -/
theorem mdist_parabola (R h z0 : ℝ) :
    mdist (-1:ℝ) R ⟨h, z0, 0, 1⟩ = (h*h - 2*R*z0) / (2*R) := by
  simp only [mdist, selectRoot]
  num_real
  have hz : (-1 * (1 * 1) + 0 * 0 + 1 * 1 : ℝ) = 0 := by norm_num
  rw [if_pos hz]
  have hb : (2 * -1 * 1 * z0 + 2 * 0 * h - 2 * 1 * R + 2 * 1 * z0) = -(2*R) := by ring
  have hcc : (-1 * (z0 * z0) - 2 * R * z0 + h * h + z0 * z0) = h*h - 2*R*z0 := by ring
  rw [hb, hcc, neg_div_neg_eq]

theorem paraboloid_stigmatic (R h z0 : ℝ) (hR : R ≠ 0) :
    let out := mstepMirror (α := ℝ) (-1) R ⟨h, z0, 0, 1⟩
    let s := -(h^2 + R^2) / (2*R)
    out.1.y + s * out.1.M = 0 ∧ out.1.z + s * out.1.N = R/2 ∧
    out.1.M^2 + out.1.N^2 = 1 ∧ out.2 + s = -z0 - R/2 := by
  have hq : 0 < h / R * (h / R) + 1 := by nlinarith [mul_self_nonneg (h / R)]
  set S := Real.sqrt (h / R * (h / R) + 1) with hSdef
  have hS : 0 < S := Real.sqrt_pos.mpr hq
  have hs : S ^ 2 = h / R * (h / R) + 1 := Real.sq_sqrt hq.le
  have c2 : -1 / S < 0 := by apply div_neg_of_neg_of_pos <;> [norm_num; exact hS]
  have c1 : ¬ (0 < -1 / S) := by linarith
  have c3 : |-1 / S| = 1 / S := by rw [abs_of_neg c2]; ring
  simp only [mstepMirror, mdist_parabola]
  simp only [mnormal, mreflect, malign, Num.sign]
  num_real
  have e0 : h + (h * h - 2 * R * z0) / (2 * R) * 0 = h := by ring
  have e1 : (1:ℝ) - (1 + -1) * (h * h) / (R * R) = 1 := by ring
  simp only [e0, e1, Real.sqrt_one, mul_one, ← hSdef]
  have ed : (0:ℝ) * (h / R / S) + 1 * (-1 / S) = -1 / S := by ring
  simp only [ed, c1, c2, c3, if_true, if_false]
  have hS' : S ≠ 0 := ne_of_gt hS
  have hs' : S ^ 2 * R ^ 2 = h ^ 2 + R ^ 2 := by
    rw [hs]; field_simp
  refine ⟨?_, ?_, ?_, ?_⟩
  · field_simp
    linear_combination (2*h) * hs'
  · field_simp
    linear_combination (-2) * hs'
  · field_simp
    linear_combination (-4) * hs'
  · field_simp
    ring

/-- **sphere_centre_of_curvature**: a ray leaving the centre of curvature `(0, R)` of a sphere
(`R > 0`, heading towards the vertex side, `N < 0`, unit direction) meets the sphere at distance `R`,
at normal incidence: refraction leaves the direction unchanged, reflection reverses it — for every
direction and both index values. -/
theorem sphere_centre (R M N n1 n2 : ℝ) (hR : 0 < R) (hN : N < 0) (hu : M^2 + N^2 = 1) (hn2 : n2 ≠ 0) :
    let r : MRay ℝ := ⟨0, R, M, N⟩
    mdist 0 R r = R ∧
    mnormal 0 R (0 + R * M) = (M, N) ∧
    mrefract n1 n2 M N M N = (M, N) ∧ mreflect M N M N = (-M, -N) := by
  intro r
  have hNN : N^2 = 1 - M^2 := by linarith
  have habs : |N| = -N := abs_of_neg hN
  refine ⟨?_, ?_, ?_, ?_⟩
  · simp only [r, mdist, selectRoot, maskNeg]
    num_real
    have e4 : ((4:ℕ):ℝ)/((1:ℕ):ℝ) = 4 := by norm_num
    have ea : 0 * (N * N) + M * M + N * N = (1:ℝ) := by nlinarith
    have eb : 2 * 0 * N * R + 2 * M * 0 - 2 * N * R + 2 * N * R = (0:ℝ) := by ring
    have ec : 0 * (R * R) - 2 * R * R + 0 * 0 + R * R = -(R*R) := by ring
    simp only [e4, ea, eb, ec]
    have ed : (0:ℝ) * 0 - 4 * 1 * -(R * R) = (2*R)^2 := by ring
    rw [ed, Real.sqrt_sq (by positivity)]
    have t1 : (-0 + 2 * R) / (2 * 1) = R := by ring
    have t2 : (-0 - 2 * R) / (2 * 1) = -R := by ring
    rw [t1, t2]
    have p1 : ¬ (R < 0) := not_lt.mpr hR.le
    have p2 : -R < 0 := by linarith
    have p3 : ¬ ((1:ℝ) = 0) := one_ne_zero
    have inf0 : (Num.inf : ℝ) = 0 := rfl
    simp only [p1, p2, if_true, if_false, p3, inf0, zero_mul, add_zero]
    have : |R + R * N| ≤ |R| := by
      rw [abs_of_pos hR]
      have h1 : -1 ≤ N := by nlinarith
      rw [abs_le]; constructor <;> nlinarith
    simp only [this, if_true]
  · simp only [mnormal]
    num_real
    have e0 : (0:ℝ) + R * M = R * M := by ring
    rw [e0]
    have e1 : (1:ℝ) - (1 + 0) * (R * M * (R * M)) / (R * R) = N^2 := by
      have : R ≠ 0 := ne_of_gt hR
      field_simp
      nlinarith
    rw [e1, Real.sqrt_sq_eq_abs, habs]
    have hNn : N ≠ 0 := ne_of_lt hN
    have hRn : R ≠ 0 := ne_of_gt hR
    have e2 : R * M / (R * -N) = -(M / N) := by field_simp
    rw [e2]
    have e3 : -(M / N) * -(M / N) + 1 = (1 / N)^2 := by
      field_simp
      nlinarith
    rw [e3, Real.sqrt_sq_eq_abs, abs_div, abs_one, habs]
    simp only [Prod.mk.injEq]
    constructor <;> field_simp
  · simp only [mrefract, malign, Num.sign]
    num_real
    have ed : M * M + N * N = (1:ℝ) := by nlinarith
    have p1 : (0:ℝ) < 1 := one_pos
    simp only [ed, p1, if_true, abs_one, mul_one, sub_self, mul_zero, sub_zero, Real.sqrt_one, Prod.mk.injEq]
    constructor <;> ring
  · simp only [mreflect, malign, Num.sign]
    num_real
    have ed : M * M + N * N = (1:ℝ) := by nlinarith
    have p1 : (0:ℝ) < 1 := one_pos
    simp only [ed, p1, if_true, abs_one, mul_one, Prod.mk.injEq]
    constructor <;> ring

/-! ### non-vacuity -/
example : (0:ℝ) < 50 ∧ (-(4:ℝ)/5) < 0 ∧ ((3:ℝ)/5)^2 + (-(4:ℝ)/5)^2 = 1 := by norm_num


/-! ## Conic mirrors between their geometric foci

Surface frame: vertex at the origin, conic `(1+k) z² − 2 R z + y² = 0` (the sag sheet is the part with
`R − (1+k) z` of the sign of `R`).  With `e = √(−k)` the foci are `F₁ = (0, R/(1+e))` (next to the vertex)
and `F₂ = (0, R/(1−e))`.  The helper file `Proofs/ConicMirrors.lean` works with a signed eccentricity `ε`
(`ε² = −k`), which covers both foci at once.
-/

open ConicMirrors in
/-- **which root `StandardGeometry.distance` picks for a ray leaving a focus** (`R > 0`, `ε² = −k`,
`ε > −1`: both foci of an ellipsoid, the focus `R/(1+e)` of a hyperboloid; ray heading for the vertex
side, `N < 0`): always the root `t₁ = (−b+√d)/(2a) = R/(1−εN)`; the other root `−R/(1+εN)` is negative
(masked) when `|εN| < 1`, `a = 0` and the linear branch gives the same value when `εN = −1`, and for
`εN < −1` (hyperboloid, near-axial rays) both roots are positive and the `|z|` comparison keeps `t₁`.
At `N ≥ 0` the real code masks/compares with `inf`, which ℝ cannot express (junk value 0); excluded. -/
theorem focus_ray_distance (k R ε M N : ℝ) (hR : 0 < R) (hk : k = -ε^2) (hε : -1 < ε) (hN : N < 0)
    (hu : M^2 + N^2 = 1) :
    mdist k R ⟨0, R / (1 + ε), M, N⟩ = R / (1 - ε * N) :=
  mdist_focus k R ε M N hR hk hε hN hu

open ConicMirrors in
/-- **the normal of `StandardGeometry.surface_normal` at a point of the sag sheet is the normalised
gradient** of the implicit equation `(1+k) z² − 2 R z + y² = 0`, i.e. of `(y, −(R − (1+k) z))`. -/
theorem sag_sheet_normal_is_gradient (k R y z : ℝ) (hR : 0 < R) (hc : (1 + k) * z^2 - 2 * R * z + y^2 = 0)
    (hD : 0 < R - (1 + k) * z) :
    mnormal k R y = (y / Real.sqrt (y^2 + (R - (1 + k) * z)^2),
                     -(R - (1 + k) * z) / Real.sqrt (y^2 + (R - (1 + k) * z)^2)) :=
  mnormal_on_conic k R y z hR hc hD

/-- `mreflect` does not depend on the orientation of the normal it is given (the alignment by
`np.sign` and the `|k·n|` cancel): it is the plain mirror formula. -/
theorem reflect_is_mirror_formula (M N ny nz : ℝ) :
    mreflect M N ny nz = (M - 2 * (M*ny + N*nz) * ny, N - 2 * (M*ny + N*nz) * nz) :=
  ConicMirrors.mreflect_eq M N ny nz

theorem sqrt_ecc (k : ℝ) (hk0 : k < 0) :
    0 < Real.sqrt (-k) ∧ Real.sqrt (-k) ^ 2 = -k ∧ k = -(Real.sqrt (-k))^2 := by
  have h0 : 0 < -k := by linarith
  have h2 : Real.sqrt (-k) ^ 2 = -k := Real.sq_sqrt h0.le
  exact ⟨Real.sqrt_pos.mpr h0, h2, by linarith⟩

open ConicMirrors in
/-- **ellipsoid_mirror** (`−1 < k < 0`, `R > 0`), object at the focus next to the vertex `F₁ = R/(1+e)`,
every unit direction heading for the vertex side (`N < 0`): the model's `mstepMirror` (root selection of
`distance`, `surface_normal`, alignment, `reflect`) hits the conic at distance `t = R/(1−eN)`, the
reflected ray passes through the other focus `F₂ = R/(1−e)` at the positive parameter `s`, the reflected
direction is a unit vector, and the path `t + s = 2R/(1+k) = 2a` does not depend on the direction. -/
theorem ellipsoid_mirror_stigmatic (k R M N : ℝ) (hk1 : -1 < k) (hk0 : k < 0) (hR : 0 < R) (hN : N < 0)
    (hu : M^2 + N^2 = 1) :
    let e := Real.sqrt (-k)
    let out := mstepMirror k R ⟨0, R / (1 + e), M, N⟩
    let s := R * (1 - 2 * e * N + e^2) / ((1 - e * N) * (1 - e^2))
    out.2 = R / (1 - e * N) ∧ 0 < out.2 ∧
    (1 + k) * out.1.z^2 - 2 * R * out.1.z + out.1.y^2 = 0 ∧
    out.1.y + s * out.1.M = 0 ∧ out.1.z + s * out.1.N = R / (1 - e) ∧ 0 < s ∧
    out.1.M^2 + out.1.N^2 = 1 ∧ out.2 + s = 2 * R / (1 + k) := by
  intro e out s
  obtain ⟨he0, he2, hke⟩ := sqrt_ecc k hk0
  have he1 : e < 1 := by
    by_contra h
    have : 1 ≤ e := not_lt.mp h
    nlinarith
  have hp : 0 < 1 - e * N := by nlinarith
  have ht := mdist_focus k R e M N hR hke (by linarith) hN hu
  obtain ⟨h1, h2, h3, h4, h5, h6⟩ :=
    focus_mirror_facts k R e M N hR hke (by linarith) (by linarith) hp (by linarith) hu ht
  have hs : 0 < s := by
    have : 0 < 1 - 2 * e * N + e^2 := by nlinarith
    have : 0 < 1 - e^2 := by nlinarith
    positivity
  refine ⟨h1, ?_, h2, h3, h4, hs, h5, h6⟩
  rw [h1]; positivity

open ConicMirrors in
/-- **ellipsoid_mirror, reversed** (`−1 < k < 0`, `R > 0`), object at the far focus `F₂ = R/(1−e)`, unit
directions with `N < −e`: exactly the rays that meet the sag sheet `z < R/(1+k)` (strictly before the
equator; at `N = −e` the ray meets the equator, where `surface_normal` divides by zero, and for
`−e < N < 0` the hit point lies on the far half of the ellipsoid, whose normal the sag formula does not
give).  The reflected ray passes through `F₁ = R/(1+e)`, same constant path `2R/(1+k)`. -/
theorem ellipsoid_mirror_stigmatic_rev (k R M N : ℝ) (hk1 : -1 < k) (hk0 : k < 0) (hR : 0 < R)
    (hN : N < -Real.sqrt (-k)) (hu : M^2 + N^2 = 1) :
    let e := Real.sqrt (-k)
    let out := mstepMirror k R ⟨0, R / (1 - e), M, N⟩
    let s := R * (1 + 2 * e * N + e^2) / ((1 + e * N) * (1 - e^2))
    out.2 = R / (1 + e * N) ∧ 0 < out.2 ∧
    (1 + k) * out.1.z^2 - 2 * R * out.1.z + out.1.y^2 = 0 ∧
    out.1.y + s * out.1.M = 0 ∧ out.1.z + s * out.1.N = R / (1 + e) ∧ 0 < s ∧
    out.1.M^2 + out.1.N^2 = 1 ∧ out.2 + s = 2 * R / (1 + k) := by
  intro e out s
  obtain ⟨he0, he2, hke⟩ := sqrt_ecc k hk0
  have he1 : e < 1 := by
    by_contra h
    have : 1 ≤ e := not_lt.mp h
    nlinarith
  have hN0 : N < 0 := by linarith
  have hN1 : -1 ≤ N := by nlinarith [sq_nonneg M]
  have hp : 0 < 1 + e * N := by nlinarith
  have hke' : k = -(-e)^2 := by rw [neg_sq]; exact hke
  have e1 : 1 + -e = 1 - e := by ring
  have e2 : 1 - -e * N = 1 + e * N := by ring
  have e3 : 1 - 2 * -e * N + e^2 = 1 + 2 * e * N + e^2 := by ring
  have e4 : 1 - -e = 1 + e := by ring
  have ht := mdist_focus k R (-e) M N hR hke' (by linarith) hN0 hu
  have hf := focus_mirror_facts k R (-e) M N hR hke' (by rw [e1]; linarith) (by rw [e4]; linarith)
    (by rw [e2]; exact hp) hN hu ht
  simp only [e1, e2, e4, neg_sq] at hf
  simp only [e3] at hf
  obtain ⟨h1, h2, h3, h4, h5, h6⟩ := hf
  have hs : 0 < s := by
    have : 0 < 1 + 2 * e * N + e^2 := by nlinarith [sq_nonneg (e + N), sq_nonneg M]
    have : 0 < 1 - e^2 := by nlinarith
    positivity
  refine ⟨h1, ?_, h2, h3, h4, hs, h5, h6⟩
  rw [h1]; positivity

open ConicMirrors in
/-- **hyperboloid_mirror** (`k < −1`, `R > 0`), object at the real focus `F₁ = R/(1+e)` inside the sheet,
every unit direction with `N < 0`: `mstepMirror` hits the conic at `t = R/(1−eN)` (root selection:
see `focus_ray_distance`, three branches), and the *line* of the reflected ray passes through the
other (virtual) focus `F₂ = R/(1−e) < 0` at the negative parameter `s`; the reflected direction is a
unit vector and the path difference `t + s = t − |s| = 2R/(1+k)` does not depend on the direction. -/
theorem hyperboloid_mirror_stigmatic (k R M N : ℝ) (hk1 : k < -1) (hR : 0 < R) (hN : N < 0)
    (hu : M^2 + N^2 = 1) :
    let e := Real.sqrt (-k)
    let out := mstepMirror k R ⟨0, R / (1 + e), M, N⟩
    let s := R * (1 - 2 * e * N + e^2) / ((1 - e * N) * (1 - e^2))
    out.2 = R / (1 - e * N) ∧ 0 < out.2 ∧
    (1 + k) * out.1.z^2 - 2 * R * out.1.z + out.1.y^2 = 0 ∧
    out.1.y + s * out.1.M = 0 ∧ out.1.z + s * out.1.N = R / (1 - e) ∧ s < 0 ∧
    out.1.M^2 + out.1.N^2 = 1 ∧ out.2 + s = 2 * R / (1 + k) := by
  intro e out s
  obtain ⟨he0, he2, hke⟩ := sqrt_ecc k (by linarith)
  have he1 : 1 < e := by
    by_contra h
    have : e ≤ 1 := not_lt.mp h
    nlinarith
  have hp : 0 < 1 - e * N := by nlinarith
  have ht := mdist_focus k R e M N hR hke (by linarith) hN hu
  obtain ⟨h1, h2, h3, h4, h5, h6⟩ :=
    focus_mirror_facts k R e M N hR hke (by linarith) (by linarith) hp (by linarith) hu ht
  have hs : s < 0 := by
    have hq : 0 < 1 - 2 * e * N + e^2 := by nlinarith
    have hw : 0 < e^2 - 1 := by nlinarith
    have : s = -(R * (1 - 2 * e * N + e^2) / ((1 - e * N) * (e^2 - 1))) := by
      simp only [s]
      rw [← neg_div_neg_eq, neg_div]; congr 2; ring
    rw [this]
    have : 0 < R * (1 - 2 * e * N + e^2) / ((1 - e * N) * (e^2 - 1)) := by positivity
    linarith
  refine ⟨h1, ?_, h2, h3, h4, hs, h5, h6⟩
  rw [h1]; positivity

/-! ### the same for `R < 0`: the layout of the test lenses (`harness/c06.py`: object in front of the
mirror, rays travelling in +z, vertex at the origin, foci at negative z) -/

open ConicMirrors in
/-- **ellipsoid_mirror, `R < 0`**, object at `F₁ = R/(1+e)`, every unit direction with `N > 0`. -/
theorem ellipsoid_mirror_stigmatic_neg (k R M N : ℝ) (hk1 : -1 < k) (hk0 : k < 0) (hR : R < 0) (hN : 0 < N)
    (hu : M^2 + N^2 = 1) :
    let e := Real.sqrt (-k)
    let out := mstepMirror k R ⟨0, R / (1 + e), M, N⟩
    let s := -R * (1 + 2 * e * N + e^2) / ((1 + e * N) * (1 - e^2))
    out.2 = -R / (1 + e * N) ∧ 0 < out.2 ∧
    (1 + k) * out.1.z^2 - 2 * R * out.1.z + out.1.y^2 = 0 ∧
    out.1.y + s * out.1.M = 0 ∧ out.1.z + s * out.1.N = R / (1 - e) ∧ 0 < s ∧
    out.1.M^2 + out.1.N^2 = 1 ∧ out.2 + s = -(2 * R) / (1 + k) := by
  intro e out s
  obtain ⟨he0, he2, hke⟩ := sqrt_ecc k hk0
  have he1 : e < 1 := by
    by_contra h
    have : 1 ≤ e := not_lt.mp h
    nlinarith
  have hp : 0 < 1 + e * N := by nlinarith
  have hR' : 0 < -R := by linarith
  have ht := mdist_focus_neg k R e M N hR hke (by linarith) hN hu
  obtain ⟨h1, h2, h3, h4, h5, h6⟩ :=
    focus_mirror_facts_neg k R e M N hR hke (by linarith) (by linarith) hp (by linarith) hu ht
  have hs : 0 < s := by
    have : 0 < 1 + 2 * e * N + e^2 := by nlinarith
    have : 0 < 1 - e^2 := by nlinarith
    positivity
  refine ⟨h1, ?_, h2, h3, h4, hs, h5, h6⟩
  rw [h1]; positivity

open ConicMirrors in
/-- **ellipsoid_mirror, `R < 0`, reversed**: object at the far focus `F₂ = R/(1−e)`, unit directions
with `N > e` (the rays that meet the sag sheet before the equator; the harness keeps the footprint
below `0.7 b`). -/
theorem ellipsoid_mirror_stigmatic_rev_neg (k R M N : ℝ) (hk1 : -1 < k) (hk0 : k < 0) (hR : R < 0)
    (hN : Real.sqrt (-k) < N) (hu : M^2 + N^2 = 1) :
    let e := Real.sqrt (-k)
    let out := mstepMirror k R ⟨0, R / (1 - e), M, N⟩
    let s := -R * (1 - 2 * e * N + e^2) / ((1 - e * N) * (1 - e^2))
    out.2 = -R / (1 - e * N) ∧ 0 < out.2 ∧
    (1 + k) * out.1.z^2 - 2 * R * out.1.z + out.1.y^2 = 0 ∧
    out.1.y + s * out.1.M = 0 ∧ out.1.z + s * out.1.N = R / (1 + e) ∧ 0 < s ∧
    out.1.M^2 + out.1.N^2 = 1 ∧ out.2 + s = -(2 * R) / (1 + k) := by
  intro e out s
  obtain ⟨he0, he2, hke⟩ := sqrt_ecc k hk0
  have he1 : e < 1 := by
    by_contra h
    have : 1 ≤ e := not_lt.mp h
    nlinarith
  have hN0 : 0 < N := by linarith
  have hN1 : N ≤ 1 := by nlinarith [sq_nonneg M]
  have hp : 0 < 1 - e * N := by nlinarith
  have hR' : 0 < -R := by linarith
  have hke' : k = -(-e)^2 := by rw [neg_sq]; exact hke
  have e1 : 1 + -e = 1 - e := by ring
  have e2 : 1 + -e * N = 1 - e * N := by ring
  have e3 : 1 + 2 * -e * N + e^2 = 1 - 2 * e * N + e^2 := by ring
  have e4 : 1 - -e = 1 + e := by ring
  have ht := mdist_focus_neg k R (-e) M N hR hke' (by linarith) hN0 hu
  have hf := focus_mirror_facts_neg k R (-e) M N hR hke' (by rw [e1]; linarith) (by rw [e4]; linarith)
    (by rw [e2]; exact hp) (by rw [neg_neg]; exact hN) hu ht
  simp only [e1, e2, e4, neg_sq] at hf
  simp only [e3] at hf
  obtain ⟨h1, h2, h3, h4, h5, h6⟩ := hf
  have hs : 0 < s := by
    have : 0 < 1 - 2 * e * N + e^2 := by nlinarith [sq_nonneg (e - N), sq_nonneg M]
    have : 0 < 1 - e^2 := by nlinarith
    positivity
  refine ⟨h1, ?_, h2, h3, h4, hs, h5, h6⟩
  rw [h1]; positivity

open ConicMirrors in
/-- **hyperboloid_mirror, `R < 0`**: object at the real focus `F₁ = R/(1+e)`, `N > 0`; the reflected line
passes through the virtual focus `F₂ = R/(1−e) > 0` at a negative parameter. -/
theorem hyperboloid_mirror_stigmatic_neg (k R M N : ℝ) (hk1 : k < -1) (hR : R < 0) (hN : 0 < N)
    (hu : M^2 + N^2 = 1) :
    let e := Real.sqrt (-k)
    let out := mstepMirror k R ⟨0, R / (1 + e), M, N⟩
    let s := -R * (1 + 2 * e * N + e^2) / ((1 + e * N) * (1 - e^2))
    out.2 = -R / (1 + e * N) ∧ 0 < out.2 ∧
    (1 + k) * out.1.z^2 - 2 * R * out.1.z + out.1.y^2 = 0 ∧
    out.1.y + s * out.1.M = 0 ∧ out.1.z + s * out.1.N = R / (1 - e) ∧ s < 0 ∧
    out.1.M^2 + out.1.N^2 = 1 ∧ out.2 + s = -(2 * R) / (1 + k) := by
  intro e out s
  obtain ⟨he0, he2, hke⟩ := sqrt_ecc k (by linarith)
  have he1 : 1 < e := by
    by_contra h
    have : e ≤ 1 := not_lt.mp h
    nlinarith
  have hp : 0 < 1 + e * N := by nlinarith
  have hR' : 0 < -R := by linarith
  have ht := mdist_focus_neg k R e M N hR hke (by linarith) hN hu
  obtain ⟨h1, h2, h3, h4, h5, h6⟩ :=
    focus_mirror_facts_neg k R e M N hR hke (by linarith) (by linarith) hp (by linarith) hu ht
  have hs : s < 0 := by
    have hq : 0 < 1 + 2 * e * N + e^2 := by nlinarith
    have hw : 0 < e^2 - 1 := by nlinarith
    have : s = -(-R * (1 + 2 * e * N + e^2) / ((1 + e * N) * (e^2 - 1))) := by
      simp only [s]
      rw [← neg_div_neg_eq, neg_div]; congr 2; ring
    rw [this]
    have : 0 < -R * (1 + 2 * e * N + e^2) / ((1 + e * N) * (e^2 - 1)) := by positivity
    linarith
  refine ⟨h1, ?_, h2, h3, h4, hs, h5, h6⟩
  rw [h1]; positivity

/-! ### the hyperboloid as a Cassegrain secondary: rays *aimed at* the real focus from the convex side -/

open ConicMirrors in
/-- **hyperboloid_secondary** (`k < −1`, `R > 0`): a ray started at `F₁ − u (M,N)` (`F₁ = R/(1+e)`, i.e.
converging on the focus inside the sheet, `N > 0`, `u` = distance from the start point to `F₁`) hits the
convex side at `t = u − R/(1+eN)` — the *second* root of `distance`; which branch of the root selection
decides depends on `eN ⋚ 1`, see `ConicMirrors.mdist_aimed` —, and the reflected ray passes through the
other focus `F₂ = R/(1−e)` at the positive parameter `s` (a real image); `t + s = u − 2R/(1+k)`: for rays
started on a wavefront converging on `F₁` (same `u`) the path to `F₂` does not depend on the direction.
Guard `hfar`: the start point is further from the vertex plane than the hit point, `z₀ < −z_hit` (over ℝ the
masked root `inf` is the junk value 0, so the `|z|` comparison is against `|z₀|`; the real code needs only
`t ≥ 0`). -/
theorem hyperboloid_secondary_stigmatic (k R M N u : ℝ) (hk1 : k < -1) (hR : 0 < R) (hN : 0 < N)
    (hu : M^2 + N^2 = 1)
    (hfar : R / (1 + Real.sqrt (-k)) - u * N
        < -(R * (1 - N) / ((1 + Real.sqrt (-k)) * (1 + Real.sqrt (-k) * N)))) :
    let e := Real.sqrt (-k)
    let out := mstepMirror k R ⟨-(u * M), R / (1 + e) - u * N, M, N⟩
    let s := R * (1 + 2 * e * N + e^2) / ((1 + e * N) * (e^2 - 1))
    out.2 = u - R / (1 + e * N) ∧
    (1 + k) * out.1.z^2 - 2 * R * out.1.z + out.1.y^2 = 0 ∧
    out.1.y + s * out.1.M = 0 ∧ out.1.z + s * out.1.N = R / (1 - e) ∧ 0 < s ∧
    out.1.M^2 + out.1.N^2 = 1 ∧ out.2 + s = u - 2 * R / (1 + k) := by
  intro e out s
  obtain ⟨he0, he2, hke⟩ := sqrt_ecc k (by linarith)
  have he1 : 1 < e := by
    by_contra h
    have : e ≤ 1 := not_lt.mp h
    nlinarith
  obtain ⟨h1, h2, h3, h4, h5, h6⟩ := aimed_mirror_facts k R e M N u hR hke he1 hN hu hfar
  have hs : 0 < s := by
    have : 0 < 1 + 2 * e * N + e^2 := by nlinarith
    have : 0 < e^2 - 1 := by nlinarith
    have : 0 < 1 + e * N := by nlinarith
    positivity
  exact ⟨h1, h2, h3, h4, hs, h5, h6⟩

open ConicMirrors in
/-- **hyperboloid_secondary, `R < 0`, `N < 0`**: the layout of the Cassegrain test lens (rays return from
the primary in the −z direction towards the prime focus `R/(1+e)` behind the secondary, the image is at
`R/(1−e) > 0`). -/
theorem hyperboloid_secondary_stigmatic_neg (k R M N u : ℝ) (hk1 : k < -1) (hR : R < 0) (hN : N < 0)
    (hu : M^2 + N^2 = 1)
    (hfar : -(R * (1 + N) / ((1 + Real.sqrt (-k)) * (1 - Real.sqrt (-k) * N)))
        < R / (1 + Real.sqrt (-k)) - u * N) :
    let e := Real.sqrt (-k)
    let out := mstepMirror k R ⟨-(u * M), R / (1 + e) - u * N, M, N⟩
    let s := -R * (1 - 2 * e * N + e^2) / ((1 - e * N) * (e^2 - 1))
    out.2 = u + R / (1 - e * N) ∧
    (1 + k) * out.1.z^2 - 2 * R * out.1.z + out.1.y^2 = 0 ∧
    out.1.y + s * out.1.M = 0 ∧ out.1.z + s * out.1.N = R / (1 - e) ∧ 0 < s ∧
    out.1.M^2 + out.1.N^2 = 1 ∧ out.2 + s = u + 2 * R / (1 + k) := by
  intro e out s
  obtain ⟨he0, he2, hke⟩ := sqrt_ecc k (by linarith)
  have he1 : 1 < e := by
    by_contra h
    have : e ≤ 1 := not_lt.mp h
    nlinarith
  obtain ⟨h1, h2, h3, h4, h5, h6⟩ := aimed_mirror_facts_neg k R e M N u hR hke he1 hN hu hfar
  have hs : 0 < s := by
    have : 0 < 1 - 2 * e * N + e^2 := by nlinarith
    have : 0 < e^2 - 1 := by nlinarith
    have : 0 < 1 - e * N := by nlinarith
    have : 0 < -R := by linarith
    positivity
  exact ⟨h1, h2, h3, h4, hs, h5, h6⟩

/-! ### focal property of the conic -/

/-- focus–directrix form: for every point of the conic `(1+k) z² − 2 R z + y² = 0`, `k = −ε²`, the
squared distance to the focus `(0, R/(1+ε))` is `(R/(1+ε) + ε z)²`, i.e. `ε ×` the distance to the
directrix `z = −R/(ε(1+ε))`. -/
theorem conic_focus_directrix (k R ε y z : ℝ) (hk : k = -ε^2) (hε : 1 + ε ≠ 0)
    (hc : (1 + k) * z^2 - 2 * R * z + y^2 = 0) :
    y^2 + (z - R / (1 + ε))^2 = (R / (1 + ε) + ε * z)^2 := by
  subst hk
  have hε'' : ε + 1 ≠ 0 := by rw [add_comm]; exact hε
  have key : y^2 + (z - R / (1 + ε))^2 - (R / (1 + ε) + ε * z)^2 = (1 + -ε^2) * z^2 - 2 * R * z + y^2 := by
    field_simp; ring
  linarith

open ConicMirrors in
/-- the distance returned by `mdist` for the ray leaving the focus is that focal distance:
`t = R/(1+ε) + ε z_hit` (linear in the sag of the hit point). -/
theorem focus_ray_distance_linear (k R ε M N : ℝ) (hR : 0 < R) (hk : k = -ε^2) (hε : -1 < ε) (hN : N < 0)
    (hu : M^2 + N^2 = 1) :
    let t := mdist k R ⟨0, R / (1 + ε), M, N⟩
    t = R / (1 + ε) + ε * (R / (1 + ε) + t * N) := by
  intro t
  have ht : t = R / (1 - ε * N) := mdist_focus k R ε M N hR hk hε hN hu
  have hN1 : -1 ≤ N := by nlinarith [sq_nonneg M]
  have hp : 0 < 1 - ε * N := by nlinarith
  obtain ⟨p, hpd⟩ : ∃ p, p = 1 - ε * N := ⟨_, rfl⟩
  have hp' : p ≠ 0 := by rw [hpd]; exact ne_of_gt hp
  have hε' : ε + 1 ≠ 0 := by linarith
  have hε'' : 1 + ε ≠ 0 := by linarith
  rw [ht, ← hpd]
  field_simp
  subst hpd
  ring

/-! ### non-vacuity (conic mirrors): k = −1/4 (e = 1/2), k = −4 (e = 2), R = ±10, direction (3/5, ∓4/5) -/
example : (-1:ℝ) < -1/4 ∧ (-1/4:ℝ) < 0 ∧ (0:ℝ) < 10 ∧ (-(4:ℝ)/5) < 0 ∧ ((3:ℝ)/5)^2 + (-(4:ℝ)/5)^2 = 1 := by
  norm_num
example : (-(4:ℝ)/5) < -Real.sqrt (-(-1/4)) := by
  have : Real.sqrt (-(-1/4 : ℝ)) = 1/2 := by
    rw [show (-(-1/4) : ℝ) = (1/2)^2 by norm_num, Real.sqrt_sq (by norm_num)]
  rw [this]; norm_num
example : (-4:ℝ) < -1 ∧ (0:ℝ) < 10 ∧ (-(4:ℝ)/5) < 0 ∧ ((3:ℝ)/5)^2 + (-(4:ℝ)/5)^2 = 1 := by norm_num
example : (-1:ℝ) < -1/4 ∧ (-1/4:ℝ) < 0 ∧ (-10:ℝ) < 0 ∧ (0:ℝ) < 4/5 ∧ ((3:ℝ)/5)^2 + ((4:ℝ)/5)^2 = 1 := by
  norm_num
example : Real.sqrt (-(-1/4)) < (4:ℝ)/5 := by
  have : Real.sqrt (-(-1/4 : ℝ)) = 1/2 := by
    rw [show (-(-1/4) : ℝ) = (1/2)^2 by norm_num, Real.sqrt_sq (by norm_num)]
  rw [this]; norm_num
example : (-4:ℝ) < -1 ∧ (-10:ℝ) < 0 ∧ (0:ℝ) < 4/5 ∧ ((3:ℝ)/5)^2 + ((4:ℝ)/5)^2 = 1 := by norm_num
/-- secondary: k = −4 (e = 2), R = 10, direction (3/5, 4/5), started u = 10 before the focus -/
example : (10:ℝ) / (1 + Real.sqrt (-(-4))) - 10 * (4/5)
    < -(10 * (1 - 4/5) / ((1 + Real.sqrt (-(-4))) * (1 + Real.sqrt (-(-4)) * (4/5)))) := by
  have : Real.sqrt (-(-4 : ℝ)) = 2 := by
    rw [show (-(-4) : ℝ) = 2^2 by norm_num, Real.sqrt_sq (by norm_num)]
  rw [this]; norm_num
example : -((-10:ℝ) * (1 + -(4/5)) / ((1 + Real.sqrt (-(-4))) * (1 - Real.sqrt (-(-4)) * -(4/5))))
    < (-10:ℝ) / (1 + Real.sqrt (-(-4))) - 10 * -(4/5) := by
  have : Real.sqrt (-(-4 : ℝ)) = 2 := by
    rw [show (-(-4) : ℝ) = 2^2 by norm_num, Real.sqrt_sq (by norm_num)]
  rw [this]; norm_num
/-- a point of the sag sheet of the conic k = −1/4 (ε = 1/2), R = 10: (y, z) = (4√7, 8), R − (1+k) z = 4
(hypotheses of `sag_sheet_normal_is_gradient`, `conic_focus_directrix`) -/
example : (0:ℝ) < 10 ∧ (1 + (-1/4 : ℝ)) * 8^2 - 2 * 10 * 8 + (4 * Real.sqrt 7)^2 = 0 ∧
    (0:ℝ) < 10 - (1 + (-1/4)) * 8 ∧ (-1/4 : ℝ) = -(1/2)^2 ∧ (1:ℝ) + 1/2 ≠ 0 := by
  have : Real.sqrt 7 ^ 2 = 7 := Real.sq_sqrt (by norm_num)
  refine ⟨by norm_num, by nlinarith, by norm_num, by norm_num, by norm_num⟩
/-- `focus_ray_distance` with the signed eccentricity: ε = ±1/2 (k = −1/4), ε = 2 (k = −4) -/
example : (-1/4 : ℝ) = -(-(1/2))^2 ∧ (-1 : ℝ) < -(1/2) ∧ (-4 : ℝ) = -(2)^2 ∧ (-1 : ℝ) < 2 := by norm_num

/-! ## refracting configurations
Helper lemmas: `Proofs/ConicRefract.lean` (namespace `ConicRefract`). -/

/-- **plano-hyperbolic singlet, back surface** (`k = −n²`, `R < 0`, glass of index `n > 1` → air, the
lay-out of `cfg_plano_hyperbolic` in `harness/c06.py`): collimated light `⟨h, z₀, 0, 1⟩` inside the glass.
`a = (1+k)N² + M² = 1 − n² ≠ 0`, so `selectRoot` is in its quadratic branch; the discriminant is
`4(R² + (n²−1)h²) > 0` for **every** height `h` (the hyperboloid has no aperture limit), both roots are
non-negative under the guard and the root with the smaller `|z|` is `t₁ = (−b+√d)/(2a)`, the sag sheet.
The refracted ray passes through the far focus of the hyperbola `(0, f)`, `f = −R/(n−1) = |R|/(n−1)`, at
the (positive) distance `s = (n√(R²+(n²−1)h²) − R)/(n²−1)` along the unit refracted direction, and the
optical path `n·t + 1·s = f − n z₀` does not depend on `h`.

Guard `hg` (with `z₀ ≤ 0`): the start plane is not beyond the hit point, `z₀ ≤ sag(h)` written without a
square root (`c ≤ 0` for the quadratic coefficient `c`).  For a lens this is "edge thickness ≥ 0".  When it
is violated the implementation masks the negative root `t₁` to `inf` and returns `t₂`, the intersection
with the *other* sheet of the hyperboloid (`z > 0`), where `surface_normal` evaluates the normal of the sag
sheet at the same height: the ray is still refracted, to a wrong direction, without any NaN. -/
theorem hyperbolic_surface_stigmatic (n R h z0 : ℝ) (hn : 1 < n) (hR : R < 0) (hz0 : z0 ≤ 0)
    (hg : h^2 ≤ (n^2 - 1) * z0^2 + 2 * R * z0) :
    let out := mstep (α := ℝ) (-n^2) R n 1 ⟨h, z0, 0, 1⟩
    let f := -R / (n - 1)
    let s := (n * Real.sqrt (R^2 + (n^2 - 1) * h^2) - R) / (n^2 - 1)
    out.1.y + s * out.1.M = 0 ∧ out.1.z + s * out.1.N = f ∧
    out.1.M^2 + out.1.N^2 = 1 ∧ n * out.2 + 1 * s = f - n * z0 ∧ 0 < s ∧ 0 ≤ out.2 := by
  simp only [mstep]
  rw [ConicRefract.mdist_hyperbola n R h z0 hn hR hz0 hg]
  simp only [mul_zero, add_zero]
  rw [ConicRefract.mnormal_hyperbola n R h hn hR]
  simp only []
  rw [ConicRefract.mrefract_hyperbola n R h hn hR]
  simp only []
  have hn2 : 0 < n^2 - 1 := by nlinarith
  have hq : 0 < R^2 + (n^2 - 1) * h^2 := by
    have := mul_nonneg hn2.le (sq_nonneg h)
    nlinarith [sq_pos_of_neg hR]
  have hnn := ConicRefract.hyperbola_dist_nonneg n R h z0 hn hR hz0 hg
  obtain ⟨a1, a2, a3, a4, a5⟩ := ConicRefract.hyperbola_algebra n R h z0 (Real.sqrt (R^2 + (n^2 - 1) * h^2)) hn hR
    (Real.sqrt_pos.mpr hq) (Real.sq_sqrt hq.le)
  exact ⟨a1, a2, a3, a4, a5, hnn⟩

/-- **plano-hyperbolic singlet, whole lens**: plane front surface (air → glass, `mstepPlane`), thickness
`T`, hyperbolic back surface `k = −n²`, `R < 0` (glass → air).  Collimated light starting at `z = zs ≤ 0` in
front of the plane surface: every ray meets the axis at distance `f = −R/(n−1)` behind the back vertex and
the optical path `1·t₀ + n·t₁ + 1·s = −zs + nT + f` is the same for all heights `h` with non-negative edge
thickness (`hg`: `T ≥ |sag(h)|`, square-root free). -/
theorem plano_hyperbolic_singlet (n R h zs T : ℝ) (hn : 1 < n) (hR : R < 0) (hzs : zs ≤ 0) (hT : 0 ≤ T)
    (hg : h^2 ≤ (n^2 - 1) * T^2 - 2 * R * T) :
    let p := mstepPlane (α := ℝ) 1 n ⟨h, zs, 0, 1⟩
    let out := mstep (α := ℝ) (-n^2) R n 1 ⟨p.1.y, p.1.z - T, p.1.M, p.1.N⟩
    let f := -R / (n - 1)
    let s := (n * Real.sqrt (R^2 + (n^2 - 1) * h^2) - R) / (n^2 - 1)
    out.1.y + s * out.1.M = 0 ∧ out.1.z + s * out.1.N = f ∧ out.1.M^2 + out.1.N^2 = 1 ∧
    1 * p.2 + n * out.2 + 1 * s = -zs + n * T + f := by
  intro p out f s
  have hp : p = (⟨h, 0, 0, 1⟩, -zs) := ConicRefract.mstepPlane_collimated 1 n h zs hzs
  have hout : out = mstep (α := ℝ) (-n^2) R n 1 ⟨h, 0 - T, 0, 1⟩ := by simp only [out, hp]
  obtain ⟨k1, k2, k3, k4, _, _⟩ :=
    hyperbolic_surface_stigmatic n R h (0 - T) hn hR (by linarith) (by nlinarith)
  rw [hout, hp]
  refine ⟨k1, k2, k3, ?_⟩
  simp only [f, s] at k4 ⊢
  linarith

/-- **hyperbolic surface, mirrored use** (`k = −n²`, `R > 0`, air → glass of index `n > 1`): a point source
in air at the far focus `(0, −f)`, `f = R/(n−1)`, in front of the convex hyperboloid.  Every ray `(M, N)`
with `n N² > 1` is refracted to the axial direction `(0, 1)` (collimated inside the glass), it meets the
surface at `t = R/(nN − 1)`, and `1·t + n·(z_ref − z_hit) = f + n z_ref` for every reference plane: the
optical path to any plane wavefront is the same for all rays.

Here `a = (1+k)N² + M² = 1 − n²N² < 0`, discriminant `4R²`, both roots positive:
`t₁ = R/(1+nN)` is the intersection with the *other* sheet of the hyperboloid (`z₁ < 0`),
`t₂ = R/(nN−1)` with the sag sheet (`z₂ ≥ 0`); `|z₂| < |z₁| ⇔ n N² > 1`.
Guard `hap : 1 < n N²`: rays with `1/n < N ≤ 1/√n` do meet the sag sheet (the asymptote is at `N = 1/n`),
but `selectRoot` then returns the phantom intersection with the other sheet (smaller `|z|`) and the ray is
refracted there with the normal of the sag sheet — no NaN, wrong ray. -/
theorem hyperbolic_surface_collimating (n R M N : ℝ) (hn : 1 < n) (hR : 0 < R) (hN : 0 < N)
    (hu : M^2 + N^2 = 1) (hap : 1 < n * N^2) :
    let f := R / (n - 1)
    let out := mstep (α := ℝ) (-n^2) R 1 n ⟨0, -f, M, N⟩
    out.1.M = 0 ∧ out.1.N = 1 ∧ out.2 = R / (n * N - 1) ∧ 0 < out.2 ∧ 0 ≤ out.1.z ∧
    ∀ zr : ℝ, 1 * out.2 + n * (zr - out.1.z) = f + n * zr := by
  have hN1 : N ≤ 1 := by nlinarith [sq_nonneg M, sq_nonneg (N - 1)]
  have hnN : 1 < n * N := by
    nlinarith [mul_nonneg (mul_nonneg (by linarith : (0:ℝ) ≤ n) hN.le) (by linarith : 0 ≤ 1 - N)]
  have hn1 : n - 1 ≠ 0 := by intro h0; linarith
  have hnN1 : n * N - 1 ≠ 0 := by intro h0; linarith
  simp only [mstep]
  rw [ConicRefract.mdist_hyperbola_focus n R M N hn hR hN hu hap,
    ConicRefract.mnormal_hyperbola_focus n R M N hn hR hN hu hap]
  simp only []
  rw [ConicRefract.mrefract_hyperbola_focus n M N hn hN hu hap]
  simp only []
  have ez : -(R / (n - 1)) + R / (n * N - 1) * N = R * (1 - N) / ((n - 1) * (n * N - 1)) := by
    field_simp; ring
  refine ⟨trivial, trivial, trivial, div_pos hR (by linarith), ?_, ?_⟩
  · rw [ez]
    exact div_nonneg (mul_nonneg hR.le (by linarith)) (mul_nonneg (by linarith) (by linarith))
  · intro zr
    rw [ez]
    field_simp
    ring

/-- **aplanatic points of a refracting sphere** (`k = 0`, any `R ≠ 0`, indices `n1 → n2`): object point on
the axis at `z_o = R + R·n2/n1` (distance `R n2/n1` from the centre of curvature), image point at
`z_i = R + R·n1/n2`.  The ray travels in `+z` (`N > 0`), is aimed at the object point (it is there at the
parameter `s`; `s = 0`: it starts there) and starts before both intersections with the sphere (`hs1`, `hs2`,
square-root free: `s − N q ≥ 0` and the start point is outside the sphere; otherwise the implementation
masks a negative root).  For `R > 0` this is a *virtual* object (rays converging towards a point behind the
surface, `s > 0`); for `R < 0` and `n2 ≥ n1` it is the real object of `cfg_aplanatic` in `harness/c06.py`
(`s = 0`).  `mdist` selects the intersection on the vertex side for both signs of `R`.

Aperture guard `hap : M² n2² < N² n1²` i.e. `|tan U| < n1/n2`: the hit point lies on the vertex-side
hemisphere `(R − z)/R > 0` (the sag sheet).  Between this bound and the grazing ray (`|sin U| < n1/n2`) the
ray still meets the sphere, beyond its equator, where `surface_normal` returns the normal of the mirror
point of the sag sheet: the implementation then refracts with a wrong normal (no NaN).

Conclusions: with `σ = −(n1/n2)(t − s)` (`t − s` = signed path object → surface) the refracted line passes
through the image point at the signed parameter `σ`; the refracted direction is a unit vector with
`sin U' = (n2/n1) sin U` for **every** ray (sine condition: constant ratio); `N' > 0`; and
`n1 (t − s) + n2 σ = 0`: the optical path object → image is the same (zero) for all rays. -/
theorem sphere_aplanatic (R n1 n2 M N s : ℝ) (hR : R ≠ 0) (h1 : 0 < n1) (h2 : 0 < n2) (hN : 0 < N)
    (hu : M^2 + N^2 = 1) (hap : M^2 * n2^2 < N^2 * n1^2)
    (hs1 : 0 ≤ s - N * (R * n2 / n1))
    (hs2 : R^2 - M^2 * (R * n2 / n1)^2 ≤ (s - N * (R * n2 / n1))^2) :
    let zo := R + R * n2 / n1
    let zi := R + R * n1 / n2
    let out := mstep (α := ℝ) 0 R n1 n2 ⟨-s * M, zo - s * N, M, N⟩
    let σ := -(n1 / n2) * (out.2 - s)
    out.1.y + σ * out.1.M = 0 ∧ out.1.z + σ * out.1.N = zi ∧ out.1.M^2 + out.1.N^2 = 1 ∧
    out.1.M = n2 / n1 * M ∧ 0 < out.1.N ∧ n1 * (out.2 - s) + n2 * σ = 0 ∧ 0 ≤ out.2 := by
  have hn1 : n1 ≠ 0 := ne_of_gt h1
  have hn2 : n2 ≠ 0 := ne_of_gt h2
  have hpos : 0 < R^2 - M^2 * (R * n2 / n1)^2 := by
    have e : R^2 - M^2 * (R * n2 / n1)^2 = (R / n1)^2 * (n1^2 - M^2 * n2^2) := by field_simp
    have e1 : n1^2 = M^2 * n1^2 + N^2 * n1^2 := by linear_combination (-(n1^2)) * hu
    have h3 : 0 < n1^2 - M^2 * n2^2 := by nlinarith [mul_nonneg (sq_nonneg M) (sq_nonneg n1)]
    rw [e]; exact mul_pos (by positivity) h3
  obtain ⟨w, hw2, hwR⟩ : ∃ w : ℝ, w^2 = R^2 - M^2 * (R * n2 / n1)^2 ∧ 0 < w * R := by
    rcases lt_or_gt_of_ne hR with h | h
    · refine ⟨-Real.sqrt (R^2 - M^2 * (R * n2 / n1)^2), by rw [neg_sq, Real.sq_sqrt hpos.le], ?_⟩
      nlinarith [Real.sqrt_pos.mpr hpos]
    · exact ⟨Real.sqrt (R^2 - M^2 * (R * n2 / n1)^2), Real.sq_sqrt hpos.le,
        mul_pos (Real.sqrt_pos.mpr hpos) h⟩
  have hd := ConicRefract.mdist_sphere_aimed R (R * n2 / n1) M N s w hN hu hw2 hwR hs1 hs2
  obtain ⟨hsph, hhem⟩ := ConicRefract.aplanatic_geometry R n1 n2 M N w
    (-s * M + (s - N * (R * n2 / n1) - w) * M)
    (R + R * n2 / n1 - s * N + (s - N * (R * n2 / n1) - w) * N) h1 h2 hN hu hw2 hwR hap (by ring) (by ring)
  have hrf := ConicRefract.aplanatic_refract R n1 n2 M N w
    (-s * M + (s - N * (R * n2 / n1) - w) * M)
    (R + R * n2 / n1 - s * N + (s - N * (R * n2 / n1) - w) * N) h1 h2 hN hu hw2 hwR (by ring) (by ring)
  simp only [mstep]
  rw [hd, ConicRefract.mnormal_sphere R _ _ hsph hhem]
  simp only []
  rw [hrf]
  simp only []
  have hw2' : w^2 * n1^2 = R^2 * n1^2 - M^2 * R^2 * n2^2 := by rw [hw2]; field_simp
  have ha0 : 0 < w / R := by
    have : w / R = w * R / R^2 := by field_simp
    rw [this]; exact div_pos hwR (by positivity)
  refine ⟨?_, ?_, ?_, trivial, ha0, ?_, ?_⟩
  · field_simp; ring
  · field_simp
    linear_combination hw2' - (R^2 * n2^2) * hu
  · field_simp
    linear_combination hw2'
  · field_simp; ring
  · have hwB : |w| ≤ s - N * (R * n2 / n1) := abs_le_of_sq_le_sq (by rw [hw2]; exact hs2) hs1
    have := le_abs_self w
    linarith

/-- **sphere at its centre of curvature, optical paths** (corollary of `sphere_centre`): for every direction
`(M, N)` from the centre the distance to the surface is `R`; the mirror returns the ray to the centre after
the same distance (`n1 t + n1 R = 2 n1 R`, the same for all rays); the refracting surface leaves the direction
unchanged, so the image is the centre itself at the signed parameter `−R` and `n1 t + n2 (−R) = (n1 − n2) R`
is the same for all rays. -/
theorem sphere_centre_opl (R M N n1 n2 : ℝ) (hR : 0 < R) (hN : N < 0) (hu : M^2 + N^2 = 1) (hn2 : n2 ≠ 0) :
    let r : MRay ℝ := ⟨0, R, M, N⟩
    let om := mstepMirror (α := ℝ) 0 R r
    let ot := mstep (α := ℝ) 0 R n1 n2 r
    (om.2 = R ∧ om.1.y + R * om.1.M = 0 ∧ om.1.z + R * om.1.N = R ∧ n1 * om.2 + n1 * R = 2 * n1 * R) ∧
    (ot.2 = R ∧ ot.1.M = M ∧ ot.1.N = N ∧ ot.1.y + (-R) * ot.1.M = 0 ∧ ot.1.z + (-R) * ot.1.N = R ∧
      n1 * ot.2 + n2 * (-R) = (n1 - n2) * R) := by
  have h := sphere_centre R M N n1 n2 hR hN hu hn2
  dsimp only at h
  obtain ⟨hd, hnrm, hrf, hrl⟩ := h
  simp only [mstepMirror, mstep]
  rw [hd, hnrm]
  simp only []
  rw [hrf, hrl]
  simp only []
  refine ⟨⟨trivial, ?_, ?_, ?_⟩, trivial, trivial, trivial, ?_, ?_, ?_⟩ <;> ring

/-! ### non-vacuity (refracting configurations) -/
/-- `hyperbolic_surface_stigmatic`: n = 3/2, R = −50, h = 10, z₀ = −10 -/
example : (1:ℝ) < 3/2 ∧ (-50:ℝ) < 0 ∧ (-10:ℝ) ≤ 0 ∧
    (10:ℝ)^2 ≤ ((3/2:ℝ)^2 - 1) * (-10)^2 + 2 * (-50) * (-10) := by norm_num
example := hyperbolic_surface_stigmatic (3/2) (-50) 10 (-10) (by norm_num) (by norm_num) (by norm_num)
  (by norm_num)
/-- `plano_hyperbolic_singlet`: n = 3/2, R = −50, h = 10, zs = −5, T = 10 -/
example : (1:ℝ) < 3/2 ∧ (-50:ℝ) < 0 ∧ (-5:ℝ) ≤ 0 ∧ (0:ℝ) ≤ 10 ∧
    (10:ℝ)^2 ≤ ((3/2:ℝ)^2 - 1) * 10^2 - 2 * (-50) * 10 := by norm_num
example := plano_hyperbolic_singlet (3/2) (-50) 10 (-5) 10 (by norm_num) (by norm_num) (by norm_num)
  (by norm_num) (by norm_num)
/-- `hyperbolic_surface_collimating`: n = 3/2, R = 50, (M, N) = (5/13, 12/13) -/
example : (1:ℝ) < 3/2 ∧ (0:ℝ) < 50 ∧ (0:ℝ) < 12/13 ∧ ((5:ℝ)/13)^2 + ((12:ℝ)/13)^2 = 1 ∧
    (1:ℝ) < 3/2 * (12/13)^2 := by norm_num
example := hyperbolic_surface_collimating (3/2) 50 (5/13) (12/13) (by norm_num) (by norm_num) (by norm_num)
  (by norm_num) (by norm_num)
/-- `sphere_aplanatic`, virtual object: R = 50, n1 = 1, n2 = 3/2, (M, N) = (5/13, 12/13), s = 200 -/
example : (50:ℝ) ≠ 0 ∧ (0:ℝ) < 1 ∧ (0:ℝ) < 3/2 ∧ (0:ℝ) < 12/13 ∧ ((5:ℝ)/13)^2 + ((12:ℝ)/13)^2 = 1 ∧
    ((5:ℝ)/13)^2 * (3/2)^2 < ((12:ℝ)/13)^2 * 1^2 ∧ (0:ℝ) ≤ 200 - 12/13 * (50 * (3/2) / 1) ∧
    (50:ℝ)^2 - (5/13)^2 * (50 * (3/2) / 1)^2 ≤ (200 - 12/13 * (50 * (3/2) / 1))^2 := by norm_num
example := sphere_aplanatic 50 1 (3/2) (5/13) (12/13) 200 (by norm_num) (by norm_num) (by norm_num)
  (by norm_num) (by norm_num) (by norm_num) (by norm_num) (by norm_num)
/-- `sphere_aplanatic`, the harness lay-out (real object): R = −50, n1 = 1, n2 = 3/2, s = 0 -/
example : (-50:ℝ) ≠ 0 ∧ ((5:ℝ)/13)^2 * (3/2)^2 < ((12:ℝ)/13)^2 * 1^2 ∧
    (0:ℝ) ≤ 0 - 12/13 * (-50 * (3/2) / 1) ∧
    (-50:ℝ)^2 - (5/13)^2 * (-50 * (3/2) / 1)^2 ≤ (0 - 12/13 * (-50 * (3/2) / 1))^2 := by norm_num
example := sphere_aplanatic (-50) 1 (3/2) (5/13) (12/13) 0 (by norm_num) (by norm_num) (by norm_num)
  (by norm_num) (by norm_num) (by norm_num) (by norm_num) (by norm_num)
/-- `sphere_centre_opl`: R = 50, (M, N) = (3/5, −4/5), n2 = 3/2 -/
example := sphere_centre_opl 50 (3/5) (-4/5) 1 (3/2) (by norm_num) (by norm_num) (by norm_num) (by norm_num)

end C06
