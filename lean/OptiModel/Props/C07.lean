import OptiModel.Model.Real
import OptiModel.Model.Parax
import OptiModel.Proofs.NumReal
import Mathlib.Tactic.FieldSimp
import Mathlib.Tactic.Ring
import Mathlib.Tactic.LinearCombination
import Mathlib.Tactic.Positivity
import Mathlib.Tactic.Linarith
/-!
# C07  Results transform correctly under symmetries and re-descriptions of the lens
Step-level theorems over ℝ about `Model/Real.lean` and `Model/Parax.lean`; the relations
for whole lenses follow surface by surface (and are checked on the implementation by
`harness/c07.py`).
-/
namespace C07
open Model

/-! ### dummy surface between equal media -/

/-- **dummy_surface** (direction): refraction between equal indices leaves a unit direction
unchanged, whatever the unit normal (not grazing). -/
theorem refract_same_index (r : Ray ℝ) (nx ny nz n : ℝ) (hn0 : n ≠ 0)
    (hn : nx^2 + ny^2 + nz^2 = 1) (hd : r.L*nx + r.M*ny + r.N*nz ≠ 0) :
    (r.refract nx ny nz n n).L = r.L ∧ (r.refract nx ny nz n n).M = r.M ∧
    (r.refract nx ny nz n n).N = r.N := by
  unfold Ray.refract alignNormal Num.sign
  num_real
  set d := r.L * nx + r.M * ny + r.N * nz with hdd
  have hu : n / n = 1 := div_self hn0
  rw [hu]
  have hroot : Real.sqrt (1 - 1 * 1 * (1 - |d| * |d|)) = |d| := by
    have : (1:ℝ) - 1 * 1 * (1 - |d| * |d|) = |d| * |d| := by ring
    rw [this, Real.sqrt_mul_self (abs_nonneg d)]
  rw [hroot]
  refine ⟨by ring, by ring, by ring⟩

/-- **dummy_surface** (path): splitting a segment at a dummy surface does not change the
accumulated optical path `Σ |t·n|` -/
theorem dummy_opd (t1 t2 n : ℝ) (h1 : 0 ≤ t1) (h2 : 0 ≤ t2) :
    |t1 * n| + |t2 * n| = |(t1 + t2) * n| := by
  rw [abs_mul, abs_mul, abs_mul, abs_of_nonneg h1, abs_of_nonneg h2, abs_of_nonneg (add_nonneg h1 h2)]
  ring

/-! ### mirror symmetry about the y–z plane (rotationally symmetric surfaces) -/

/-- mirror image of a ray in the plane x = 0 -/
def mirX (r : Ray ℝ) : Ray ℝ := { r with x := -r.x, L := -r.L }

theorem conicABC_mirX (R k : ℝ) (r : Ray ℝ) : conicABC R k (mirX r) = conicABC R k r := by
  unfold conicABC mirX
  num_real
  simp only [Prod.mk.injEq]
  refine ⟨by ring, by ring, by ring⟩

/-- the distance to a conic is the same for the mirrored ray -/
theorem stdDistance_mirX (R k : ℝ) (r : Ray ℝ) : stdDistance R k (mirX r) = stdDistance R k r := by
  unfold stdDistance
  rw [conicABC_mirX]
  rfl

theorem planeDistance_mirX (r : Ray ℝ) : planeDistance (mirX r) = planeDistance r := rfl

/-- propagation commutes with mirroring -/
theorem propagate_mirX (r : Ray ℝ) (t k w : ℝ) : (mirX r).propagate t k w = mirX (r.propagate t k w) := by
  unfold Ray.propagate mirX
  num_real
  simp only [Ray.mk.injEq, true_and, and_true]
  ring

/-- the conic normal at the mirrored point is the mirrored normal -/
theorem stdNormal_mirX (R k x y : ℝ) :
    stdNormal R k (-x) y = (-(stdNormal R k x y).1, (stdNormal R k x y).2.1, (stdNormal R k x y).2.2) := by
  unfold stdNormal conicSlope
  num_real
  have e : -x * -x + y * y = x * x + y * y := by ring
  simp only [e, Prod.mk.injEq]
  set den := R * Real.sqrt (1 - (1 + k) * (x * x + y * y) / (R * R))
  have e2 : -x / den * (-x / den) = x / den * (x / den) := by ring
  rw [e2]
  refine ⟨by ring, rfl, rfl⟩

/-- refraction commutes with mirroring (mirrored ray, mirrored normal) -/
theorem refract_mirX (r : Ray ℝ) (nx ny nz n1 n2 : ℝ) :
    (mirX r).refract (-nx) ny nz n1 n2 = mirX (r.refract nx ny nz n1 n2) := by
  unfold Ray.refract alignNormal mirX
  num_real
  have e : -r.L * -nx + r.M * ny + r.N * nz = r.L * nx + r.M * ny + r.N * nz := by ring
  simp only [e, Ray.mk.injEq, true_and, and_true]
  ring

/-- reflection commutes with mirroring -/
theorem reflect_mirX (r : Ray ℝ) (nx ny nz : ℝ) :
    (mirX r).reflect (-nx) ny nz = mirX (r.reflect nx ny nz) := by
  unfold Ray.reflect alignNormal mirX
  num_real
  have e : -r.L * -nx + r.M * ny + r.N * nz = r.L * nx + r.M * ny + r.N * nz := by ring
  simp only [e, Ray.mk.injEq, true_and, and_true]
  ring

/-! ### scaling all lengths by s > 0 -/

/-- the ray of the scaled system: positions and accumulated path × s, direction cosines unchanged -/
def scaleRay (s : ℝ) (r : Ray ℝ) : Ray ℝ :=
  { r with x := s * r.x, y := s * r.y, z := s * r.z, opd := s * r.opd }

theorem conicABC_eq (R k : ℝ) (r : Ray ℝ) : conicABC R k r =
    (k*(r.N*r.N) + r.L*r.L + r.M*r.M + r.N*r.N,
     2*k*r.N*r.z + 2*r.L*r.x + 2*r.M*r.y - 2*r.N*R + 2*r.N*r.z,
     k*(r.z*r.z) - 2*R*r.z + r.x*r.x + r.y*r.y + r.z*r.z) := by
  unfold conicABC
  num_real

theorem conicABC_scale (s R k : ℝ) (r : Ray ℝ) :
    conicABC (s * R) k (scaleRay s r) =
      ((conicABC R k r).1, s * (conicABC R k r).2.1, s^2 * (conicABC R k r).2.2) := by
  rw [conicABC_eq, conicABC_eq]
  simp only [scaleRay, Prod.mk.injEq]
  refine ⟨trivial, by ring, by ring⟩

/-- **scale_trace** (intersection): the distance to the scaled conic along the scaled ray is `s`
times the original distance — for every `s > 0`, every ray and every branch of the root selection -/
theorem selectRoot_scale (s a b c z N : ℝ) (hs : 0 < s) :
    selectRoot a (s * b) (s^2 * c) (s * z) N = s * selectRoot a b c z N := by
  unfold selectRoot maskNeg
  num_real
  have e4 : ((4:ℕ):ℝ)/((1:ℕ):ℝ) = 4 := by norm_num
  simp only [e4]
  have hd : s * b * (s * b) - 4 * a * (s ^ 2 * c) = s^2 * (b * b - 4 * a * c) := by ring
  rw [hd, Real.sqrt_mul (sq_nonneg s), Real.sqrt_sq hs.le]
  set q := Real.sqrt (b * b - 4 * a * c)
  have t1 : (-(s * b) + s * q) / (2 * a) = s * ((-b + q) / (2 * a)) := by ring
  have t2 : (-(s * b) - s * q) / (2 * a) = s * ((-b - q) / (2 * a)) := by ring
  rw [t1, t2]
  set T1 := (-b + q) / (2 * a)
  set T2 := (-b - q) / (2 * a)
  have neg1 : (s * T1 < 0) ↔ (T1 < 0) := by
    constructor
    · intro h; by_contra hc; have hc := not_lt.mp hc; nlinarith
    · intro h; nlinarith
  have neg2 : (s * T2 < 0) ↔ (T2 < 0) := by
    constructor
    · intro h; by_contra hc; have hc := not_lt.mp hc; nlinarith
    · intro h; nlinarith
  simp only [neg1, neg2]
  have inf0 : (Num.inf : ℝ) = 0 := rfl
  simp only [inf0]
  have m1 : (if T1 < 0 then (0:ℝ) else s * T1) = s * (if T1 < 0 then 0 else T1) := by split_ifs <;> ring
  have m2 : (if T2 < 0 then (0:ℝ) else s * T2) = s * (if T2 < 0 then 0 else T2) := by split_ifs <;> ring
  rw [m1, m2]
  set M1 := (if T1 < 0 then (0:ℝ) else T1)
  set M2 := (if T2 < 0 then (0:ℝ) else T2)
  have z1 : s * z + s * M1 * N = s * (z + M1 * N) := by ring
  have z2 : s * z + s * M2 * N = s * (z + M2 * N) := by ring
  rw [z1, z2, abs_mul, abs_mul, abs_of_pos hs]
  have cmp : (s * |z + M1 * N| ≤ s * |z + M2 * N|) ↔ (|z + M1 * N| ≤ |z + M2 * N|) :=
    mul_le_mul_iff_right₀ hs
  simp only [cmp]
  have lin : -(s ^ 2 * c) / (s * b) = s * (-c / b) := by
    by_cases hb : b = 0
    · simp [hb]
    · field_simp
  rw [lin]
  split_ifs <;> rfl

theorem stdDistance_scale (s R k : ℝ) (r : Ray ℝ) (hs : 0 < s) :
    stdDistance (s * R) k (scaleRay s r) = s * stdDistance R k r := by
  unfold stdDistance
  rw [conicABC_scale]
  simp only
  have : (scaleRay s r).z = s * r.z := rfl
  have hN : (scaleRay s r).N = r.N := rfl
  rw [this, hN]
  exact selectRoot_scale s _ _ _ _ _ hs

/-- the sag of the scaled conic at the scaled point is `s` times the sag -/
theorem conicSag_scale (s R k x y : ℝ) (hs : 0 < s) :
    conicSag (s * R) k (s * x) (s * y) = s * conicSag R k x y := by
  unfold conicSag
  num_real
  have hs' : s ≠ 0 := ne_of_gt hs
  have e : (1 + k) * (s * x * (s * x) + s * y * (s * y)) / (s * R * (s * R)) =
      (1 + k) * (x * x + y * y) / (R * R) := by
    by_cases hR : R = 0
    · simp [hR]
    · field_simp
  rw [e]
  set q := Real.sqrt (1 - (1 + k) * (x * x + y * y) / (R * R))
  by_cases hR : R = 0
  · simp [hR]
  by_cases hq : 1 + q = 0
  · simp [hq]
  · field_simp

/-- the normal of the scaled conic at the scaled point is the same unit vector -/
theorem stdNormal_scale (s R k x y : ℝ) (hs : 0 < s) :
    stdNormal (s * R) k (s * x) (s * y) = stdNormal R k x y := by
  unfold stdNormal conicSlope
  num_real
  have hs' : s ≠ 0 := ne_of_gt hs
  have e : (1 + k) * (s * x * (s * x) + s * y * (s * y)) / (s * R * (s * R)) =
      (1 + k) * (x * x + y * y) / (R * R) := by
    by_cases hR : R = 0
    · simp [hR]
    · field_simp
  rw [e]
  set q := Real.sqrt (1 - (1 + k) * (x * x + y * y) / (R * R))
  have ex : s * x / (s * R * q) = x / (R * q) := by
    by_cases h : R * q = 0
    · have : s * R * q = 0 := by rw [mul_assoc, h, mul_zero]
      rw [this, h]; simp
    · field_simp
  have ey : s * y / (s * R * q) = y / (R * q) := by
    by_cases h : R * q = 0
    · have : s * R * q = 0 := by rw [mul_assoc, h, mul_zero]
      rw [this, h]; simp
    · field_simp
  rw [ex, ey]

/-- **scale_paraxial**: in the scaled system the paraxial ray has `s` times the height and the
same slope at every surface -/
theorem pstepStd_scale (s : ℝ) (ray : PRay ℝ) (sf : PSurf ℝ) (hs : s ≠ 0) :
    pstepStd ⟨s * ray.y, ray.u, s * ray.z⟩ { sf with dy := s * sf.dy, z := s * sf.z, r := s * sf.r } =
      ⟨s * (pstepStd ray sf).y, (pstepStd ray sf).u, s * (pstepStd ray sf).z⟩ := by
  unfold pstepStd
  num_real
  simp only [PRay.mk.injEq]
  refine ⟨by ring, ?_, by ring⟩
  by_cases hr : sf.r = 0
  · simp [hr]
  · split_ifs
    · field_simp
    · field_simp

/-! ### non-vacuity -/
example : (0:ℝ) < 2.5 ∧ ((0:ℝ)^2 + 0^2 + (-1)^2 = 1) := by norm_num

end C07
