import OptiModel.Model.Real
import OptiModel.Model.Parax
import OptiModel.Proofs.NumReal
import OptiModel.Proofs.Covariance
import Mathlib.Tactic.FieldSimp
import Mathlib.Tactic.Ring
import Mathlib.Tactic.LinearCombination
import Mathlib.Tactic.Positivity
import Mathlib.Tactic.Linarith
/-!
# C07  Results transform correctly under symmetries and re-descriptions of the lens
Step-level theorems over ℝ about `Model/Real.lean` and `Model/Parax.lean`; the relations
for whole lenses follow surface by surface (and are checked on the implementation by
`harness/c07.py`).
-/
namespace C07
open Model

/-! ### dummy surface between equal media -/

/-- **dummy_surface** (direction): refraction between equal indices leaves a unit direction
unchanged, whatever the unit normal (not grazing). -/
theorem refract_same_index (r : Ray ℝ) (nx ny nz n : ℝ) (hn0 : n ≠ 0)
    (hn : nx^2 + ny^2 + nz^2 = 1) (hd : r.L*nx + r.M*ny + r.N*nz ≠ 0) :
    (r.refract nx ny nz n n).L = r.L ∧ (r.refract nx ny nz n n).M = r.M ∧
    (r.refract nx ny nz n n).N = r.N := by
  unfold Ray.refract alignNormal Num.sign
  num_real
  set d := r.L * nx + r.M * ny + r.N * nz with hdd
  have hu : n / n = 1 := div_self hn0
  rw [hu]
  have hroot : Real.sqrt (1 - 1 * 1 * (1 - |d| * |d|)) = |d| := by
    have : (1:ℝ) - 1 * 1 * (1 - |d| * |d|) = |d| * |d| := by ring
    rw [this, Real.sqrt_mul_self (abs_nonneg d)]
  rw [hroot]
  refine ⟨by ring, by ring, by ring⟩

/-- **dummy_surface** (path): splitting a segment at a dummy surface does not change the
accumulated optical path `Σ |t·n|` -/
theorem dummy_opd (t1 t2 n : ℝ) (h1 : 0 ≤ t1) (h2 : 0 ≤ t2) :
    |t1 * n| + |t2 * n| = |(t1 + t2) * n| := by
  rw [abs_mul, abs_mul, abs_mul, abs_of_nonneg h1, abs_of_nonneg h2, abs_of_nonneg (add_nonneg h1 h2)]
  ring

/-! ### mirror symmetry about the y–z plane (rotationally symmetric surfaces) -/

/-- mirror image of a ray in the plane x = 0 -/
def mirX (r : Ray ℝ) : Ray ℝ := { r with x := -r.x, L := -r.L }

theorem conicABC_mirX (R k : ℝ) (r : Ray ℝ) : conicABC R k (mirX r) = conicABC R k r := by
  unfold conicABC mirX
  num_real
  simp only [Prod.mk.injEq]
  refine ⟨by ring, by ring, by ring⟩

/-- the distance to a conic is the same for the mirrored ray -/
theorem stdDistance_mirX (R k : ℝ) (r : Ray ℝ) : stdDistance R k (mirX r) = stdDistance R k r := by
  unfold stdDistance
  rw [conicABC_mirX]
  rfl

theorem planeDistance_mirX (r : Ray ℝ) : planeDistance (mirX r) = planeDistance r := rfl

/-- propagation commutes with mirroring -/
theorem propagate_mirX (r : Ray ℝ) (t k w : ℝ) : (mirX r).propagate t k w = mirX (r.propagate t k w) := by
  unfold Ray.propagate mirX
  num_real
  simp only [Ray.mk.injEq, true_and, and_true]
  ring

/-- the conic normal at the mirrored point is the mirrored normal -/
theorem stdNormal_mirX (R k x y : ℝ) :
    stdNormal R k (-x) y = (-(stdNormal R k x y).1, (stdNormal R k x y).2.1, (stdNormal R k x y).2.2) := by
  unfold stdNormal conicSlope
  num_real
  have e : -x * -x + y * y = x * x + y * y := by ring
  simp only [e, Prod.mk.injEq]
  set den := R * Real.sqrt (1 - (1 + k) * (x * x + y * y) / (R * R))
  have e2 : -x / den * (-x / den) = x / den * (x / den) := by ring
  rw [e2]
  refine ⟨by ring, rfl, rfl⟩

/-- refraction commutes with mirroring (mirrored ray, mirrored normal) -/
theorem refract_mirX (r : Ray ℝ) (nx ny nz n1 n2 : ℝ) :
    (mirX r).refract (-nx) ny nz n1 n2 = mirX (r.refract nx ny nz n1 n2) := by
  unfold Ray.refract alignNormal mirX
  num_real
  have e : -r.L * -nx + r.M * ny + r.N * nz = r.L * nx + r.M * ny + r.N * nz := by ring
  simp only [e, Ray.mk.injEq, true_and, and_true]
  ring

/-- reflection commutes with mirroring -/
theorem reflect_mirX (r : Ray ℝ) (nx ny nz : ℝ) :
    (mirX r).reflect (-nx) ny nz = mirX (r.reflect nx ny nz) := by
  unfold Ray.reflect alignNormal mirX
  num_real
  have e : -r.L * -nx + r.M * ny + r.N * nz = r.L * nx + r.M * ny + r.N * nz := by ring
  simp only [e, Ray.mk.injEq, true_and, and_true]
  ring

/-! ### scaling all lengths by s > 0 -/

/-- the ray of the scaled system: positions and accumulated path × s, direction cosines unchanged -/
def scaleRay (s : ℝ) (r : Ray ℝ) : Ray ℝ :=
  { r with x := s * r.x, y := s * r.y, z := s * r.z, opd := s * r.opd }

theorem conicABC_eq (R k : ℝ) (r : Ray ℝ) : conicABC R k r =
    (k*(r.N*r.N) + r.L*r.L + r.M*r.M + r.N*r.N,
     2*k*r.N*r.z + 2*r.L*r.x + 2*r.M*r.y - 2*r.N*R + 2*r.N*r.z,
     k*(r.z*r.z) - 2*R*r.z + r.x*r.x + r.y*r.y + r.z*r.z) := by
  unfold conicABC
  num_real

theorem conicABC_scale (s R k : ℝ) (r : Ray ℝ) :
    conicABC (s * R) k (scaleRay s r) =
      ((conicABC R k r).1, s * (conicABC R k r).2.1, s^2 * (conicABC R k r).2.2) := by
  rw [conicABC_eq, conicABC_eq]
  simp only [scaleRay, Prod.mk.injEq]
  refine ⟨trivial, by ring, by ring⟩

/-- **scale_trace** (intersection): the distance to the scaled conic along the scaled ray is `s`
times the original distance — for every `s > 0`, every ray and every branch of the root selection -/
theorem selectRoot_scale (s a b c z N : ℝ) (hs : 0 < s) :
    selectRoot a (s * b) (s^2 * c) (s * z) N = s * selectRoot a b c z N := by
  unfold selectRoot maskNeg
  num_real
  have e4 : ((4:ℕ):ℝ)/((1:ℕ):ℝ) = 4 := by norm_num
  simp only [e4]
  have hd : s * b * (s * b) - 4 * a * (s ^ 2 * c) = s^2 * (b * b - 4 * a * c) := by ring
  rw [hd, Real.sqrt_mul (sq_nonneg s), Real.sqrt_sq hs.le]
  set q := Real.sqrt (b * b - 4 * a * c)
  have t1 : (-(s * b) + s * q) / (2 * a) = s * ((-b + q) / (2 * a)) := by ring
  have t2 : (-(s * b) - s * q) / (2 * a) = s * ((-b - q) / (2 * a)) := by ring
  rw [t1, t2]
  set T1 := (-b + q) / (2 * a)
  set T2 := (-b - q) / (2 * a)
  have neg1 : (s * T1 < 0) ↔ (T1 < 0) := by
    constructor
    · intro h; by_contra hc; have hc := not_lt.mp hc; nlinarith
    · intro h; nlinarith
  have neg2 : (s * T2 < 0) ↔ (T2 < 0) := by
    constructor
    · intro h; by_contra hc; have hc := not_lt.mp hc; nlinarith
    · intro h; nlinarith
  simp only [neg1, neg2]
  have inf0 : (Num.inf : ℝ) = 0 := rfl
  simp only [inf0]
  have m1 : (if T1 < 0 then (0:ℝ) else s * T1) = s * (if T1 < 0 then 0 else T1) := by split_ifs <;> ring
  have m2 : (if T2 < 0 then (0:ℝ) else s * T2) = s * (if T2 < 0 then 0 else T2) := by split_ifs <;> ring
  rw [m1, m2]
  set M1 := (if T1 < 0 then (0:ℝ) else T1)
  set M2 := (if T2 < 0 then (0:ℝ) else T2)
  have z1 : s * z + s * M1 * N = s * (z + M1 * N) := by ring
  have z2 : s * z + s * M2 * N = s * (z + M2 * N) := by ring
  rw [z1, z2, abs_mul, abs_mul, abs_of_pos hs]
  have cmp : (s * |z + M1 * N| ≤ s * |z + M2 * N|) ↔ (|z + M1 * N| ≤ |z + M2 * N|) :=
    mul_le_mul_iff_right₀ hs
  simp only [cmp]
  have lin : -(s ^ 2 * c) / (s * b) = s * (-c / b) := by
    by_cases hb : b = 0
    · simp [hb]
    · field_simp
  rw [lin]
  split_ifs <;> rfl

theorem stdDistance_scale (s R k : ℝ) (r : Ray ℝ) (hs : 0 < s) :
    stdDistance (s * R) k (scaleRay s r) = s * stdDistance R k r := by
  unfold stdDistance
  rw [conicABC_scale]
  simp only
  have : (scaleRay s r).z = s * r.z := rfl
  have hN : (scaleRay s r).N = r.N := rfl
  rw [this, hN]
  exact selectRoot_scale s _ _ _ _ _ hs

/-- the sag of the scaled conic at the scaled point is `s` times the sag -/
theorem conicSag_scale (s R k x y : ℝ) (hs : 0 < s) :
    conicSag (s * R) k (s * x) (s * y) = s * conicSag R k x y := by
  unfold conicSag
  num_real
  have hs' : s ≠ 0 := ne_of_gt hs
  have e : (1 + k) * (s * x * (s * x) + s * y * (s * y)) / (s * R * (s * R)) =
      (1 + k) * (x * x + y * y) / (R * R) := by
    by_cases hR : R = 0
    · simp [hR]
    · field_simp
  rw [e]
  set q := Real.sqrt (1 - (1 + k) * (x * x + y * y) / (R * R))
  by_cases hR : R = 0
  · simp [hR]
  by_cases hq : 1 + q = 0
  · simp [hq]
  · field_simp

/-- the normal of the scaled conic at the scaled point is the same unit vector -/
theorem stdNormal_scale (s R k x y : ℝ) (hs : 0 < s) :
    stdNormal (s * R) k (s * x) (s * y) = stdNormal R k x y := by
  unfold stdNormal conicSlope
  num_real
  have hs' : s ≠ 0 := ne_of_gt hs
  have e : (1 + k) * (s * x * (s * x) + s * y * (s * y)) / (s * R * (s * R)) =
      (1 + k) * (x * x + y * y) / (R * R) := by
    by_cases hR : R = 0
    · simp [hR]
    · field_simp
  rw [e]
  set q := Real.sqrt (1 - (1 + k) * (x * x + y * y) / (R * R))
  have ex : s * x / (s * R * q) = x / (R * q) := by
    by_cases h : R * q = 0
    · have : s * R * q = 0 := by rw [mul_assoc, h, mul_zero]
      rw [this, h]; simp
    · field_simp
  have ey : s * y / (s * R * q) = y / (R * q) := by
    by_cases h : R * q = 0
    · have : s * R * q = 0 := by rw [mul_assoc, h, mul_zero]
      rw [this, h]; simp
    · field_simp
  rw [ex, ey]

/-- **scale_paraxial**: in the scaled system the paraxial ray has `s` times the height and the
same slope at every surface -/
theorem pstepStd_scale (s : ℝ) (ray : PRay ℝ) (sf : PSurf ℝ) (hs : s ≠ 0) :
    pstepStd ⟨s * ray.y, ray.u, s * ray.z⟩ { sf with dy := s * sf.dy, z := s * sf.z, r := s * sf.r } =
      ⟨s * (pstepStd ray sf).y, (pstepStd ray sf).u, s * (pstepStd ray sf).z⟩ := by
  unfold pstepStd
  num_real
  simp only [PRay.mk.injEq]
  refine ⟨by ring, ?_, by ring⟩
  by_cases hr : sf.r = 0
  · simp [hr]
  · split_ifs
    · field_simp
    · field_simp

/-! ### non-vacuity -/
example : (0:ℝ) < 2.5 ∧ ((0:ℝ)^2 + 0^2 + (-1)^2 = 1) := by norm_num

end C07

/-! ## Lifts: a whole surface (`traceSurf`) and a whole lens (`traceLens`)

The step-level lemmas above are composed along the body of `traceSurf` and then lifted to the
record list of `traceLens` by induction over the surface list (`Cov.traceLens_equivariant`).
All statements are equalities of whole `Ray` records, i.e. of position, direction, intensity
and accumulated optical path at once. -/
namespace C07
open Model Cov

/-! ### mirror in x: one surface -/

theorem truthy_zero : truthy (0:ℝ) = false := by
  have h : Num.isZero (0:ℝ) = true := by rw [NumReal.isZero_eq]
  simp only [truthy, h, Bool.not_true]

/-- `localize` commutes with the x-mirror when the frame has no x-decentre and no tilt about y, z
(any tilt `rx` about the x-axis is allowed: it acts in the y–z plane only) -/
theorem localize_mirX (c : Cs ℝ) (hx : c.x = 0) (hry : c.ry = 0) (hrz : c.rz = 0) (r : Ray ℝ) :
    c.localize (mirX r) = mirX (c.localize r) := by
  unfold Cs.localize
  rw [hx, hry, hrz]
  simp only [truthy_zero, Bool.false_eq_true, if_false]
  cases truthy c.rx
  · simp only [Bool.false_eq_true, if_false]
    unfold Ray.translate mirX
    num_real
    simp only [Ray.mk.injEq, true_and, and_true]
    ring
  · simp only [if_true]
    unfold Ray.translate Ray.rotateX mirX
    num_real
    simp only [Ray.mk.injEq, true_and, and_true]
    ring

theorem globalize_mirX (c : Cs ℝ) (hx : c.x = 0) (hry : c.ry = 0) (hrz : c.rz = 0) (r : Ray ℝ) :
    c.globalize (mirX r) = mirX (c.globalize r) := by
  unfold Cs.globalize
  rw [hx, hry, hrz]
  simp only [truthy_zero, Bool.false_eq_true, if_false]
  cases truthy c.rx
  · simp only [Bool.false_eq_true, if_false]
    unfold Ray.translate mirX
    num_real
    simp only [Ray.mk.injEq, true_and, and_true]
    ring
  · simp only [if_true]
    unfold Ray.translate Ray.rotateX mirX
    num_real
    simp only [Ray.mk.injEq, true_and, and_true]
    ring

/-- a radial aperture does not see the sign of x -/
theorem clip_mirX (ap : Option (ℝ × ℝ)) (r : Ray ℝ) : clip ap (mirX r) = mirX (clip ap r) := by
  rcases ap with _ | ⟨rmax, rmin⟩
  · rfl
  · unfold clip
    have e : (mirX r).x * (mirX r).x + (mirX r).y * (mirX r).y = r.x * r.x + r.y * r.y := by
      unfold mirX; num_real; ring
    simp only [e]
    split_ifs <;> rfl

theorem dist1_mirX (g : Geom ℝ) (r : Ray ℝ) : dist1 g (mirX r) = dist1 g r := by
  cases g <;> simp only [dist1, planeDistance_mirX, stdDistance_mirX]

/-- `Surface._interact` commutes with the x-mirror on a plane and on a standard conic: the normal
at the mirrored point is the mirrored normal, refraction/reflection are equivariant, a
`SimpleCoating` multiplies the intensity by a constant -/
theorem interact_mirX (s : RSurf ℝ) (hg : Simple s.geom) (r : Ray ℝ) :
    interact s (mirX r) = mirX (interact s r) := by
  obtain ⟨kind, cs, geom, n1, n2, k1, refl, ap, coat⟩ := s
  simp only at hg
  have key : ∀ nx ny nz : ℝ, geom.normal r = (nx, ny, nz) → geom.normal (mirX r) = (-nx, ny, nz) := by
    intro nx ny nz h
    rcases hg with h0 | ⟨R, k, h0⟩ <;> subst h0
    · simp only [Geom.normal, Prod.mk.injEq] at h ⊢
      num_real
      obtain ⟨h1, h2, h3⟩ := h
      exact ⟨by rw [← h1, neg_zero], h2, h3⟩
    · simp only [Geom.normal] at h ⊢
      have : (mirX r).x = -r.x := rfl
      rw [this, show (mirX r).y = r.y from rfl, stdNormal_mirX, h]
  rcases hn : geom.normal r with ⟨nx, ny, nz⟩
  have hm := key nx ny nz hn
  cases kind <;> cases refl <;> rcases coat with _ | ⟨T, Rc⟩ <;>
    simp only [interact, hn, hm, refract_mirX, reflect_mirX, Bool.false_eq_true, if_false, if_true] <;> rfl

theorem surfStep_mirX (s : RSurf ℝ) (w : ℝ) (hx : s.cs.x = 0) (hry : s.cs.ry = 0) (hrz : s.cs.rz = 0)
    (hg : Simple s.geom) (r : Ray ℝ) (t : ℝ) :
    surfStep s w (mirX r) t = mirX (surfStep s w r t) := by
  unfold surfStep
  rw [propagate_mirX]
  have e : ∀ q : Ray ℝ, ({ (mirX q) with opd := (mirX q).opd + Num.abs (t * s.n1) } : Ray ℝ) =
      mirX { q with opd := q.opd + Num.abs (t * s.n1) } := fun _ => rfl
  rw [e, clip_mirX, interact_mirX s hg, globalize_mirX _ hx hry hrz]

theorem surfRay_mirX (s : RSurf ℝ) (w : ℝ) (hx : s.cs.x = 0) (hry : s.cs.ry = 0) (hrz : s.cs.rz = 0)
    (hg : Simple s.geom) (r : Ray ℝ) :
    surfRay s w (mirX r) = mirX (surfRay s w r) := by
  unfold surfRay
  rw [localize_mirX _ hx hry hrz, dist1_mirX, surfStep_mirX s w hx hry hrz hg]

/-- **mirror_trace, one surface.**  For a surface whose frame has no decentre in x and no tilt
about y and z (`rx` arbitrary) and whose geometry is a plane or a standard conic — any radial
aperture, any `SimpleCoating`, refracting or reflecting, any surface kind — tracing the
x-mirrored batch gives the x-mirrored records: position, direction, intensity and opd.
(The even asphere is symmetric too but goes through the batch-coupled Newton–Raphson loop;
polynomial / Chebyshev geometries are symmetric only if all odd x-powers vanish.  Both are left
out here.  With `cs.x ≠ 0`, `cs.ry ≠ 0` or `cs.rz ≠ 0` the statement is false.) -/
theorem traceSurf_mirX (s : RSurf ℝ) (w : ℝ) (hx : s.cs.x = 0) (hry : s.cs.ry = 0) (hrz : s.cs.rz = 0)
    (hg : s.geom = .plane ∨ ∃ R k, s.geom = .standard R k) (rays : List (Ray ℝ)) :
    traceSurf s w (rays.map mirX) = (traceSurf s w rays).map mirX := by
  by_cases hk : s.kind = .object
  · rw [traceSurf_object _ _ _ hk, traceSurf_object _ _ _ hk]
  · rw [traceSurf_eq_map _ _ _ hk hg, traceSurf_eq_map _ _ _ hk hg, List.map_map, List.map_map]
    apply List.map_congr_left
    intro r _
    exact surfRay_mirX s w hx hry hrz hg r

/-- **mirror_trace, whole lens.**  If every surface satisfies the guard of `traceSurf_mirX`, the
record list (one batch per surface) of the mirrored batch is the mirror image of the record list. -/
theorem traceLens_mirX (w : ℝ) (ss : List (RSurf ℝ))
    (h : ∀ s ∈ ss, s.cs.x = 0 ∧ s.cs.ry = 0 ∧ s.cs.rz = 0 ∧
      (s.geom = .plane ∨ ∃ R k, s.geom = .standard R k)) (rays : List (Ray ℝ)) :
    traceLens w ss (rays.map mirX) = (traceLens w ss rays).map (List.map mirX) := by
  apply traceLens_equivariant mirX w w ss ss
  rw [List.forall₂_same]
  intro s hs rays
  obtain ⟨hx, hry, hrz, hg⟩ := h s hs
  exact traceSurf_mirX s w hx hry hrz hg rays

/-! non-vacuity: a tilted (about x), y-decentred, coated, apertured conic satisfies the guard -/
noncomputable def exConic : RSurf ℝ :=
  { kind := .standard, cs := ⟨0, 0.3, 5, 0.1, 0, 0⟩, geom := .standard 50 (-0.5), n1 := 1, n2 := 1.5,
    k1 := 0, refl := false, aperture := some (10, 0), coating := some (0.98, 0.02) }
noncomputable def exPlaneMirror : RSurf ℝ :=
  { kind := .standard, cs := ⟨0, 0, 12, 0, 0, 0⟩, geom := .plane, n1 := 1.5, n2 := 1.5,
    k1 := 0, refl := true, aperture := none, coating := none }
noncomputable def exImage : RSurf ℝ :=
  { kind := .image, cs := ⟨0, 0, 2, 0, 0, 0⟩, geom := .plane, n1 := 1.5, n2 := 1.5,
    k1 := 0, refl := false, aperture := none, coating := none }

example (w : ℝ) (rays : List (Ray ℝ)) :
    traceSurf exConic w (rays.map mirX) = (traceSurf exConic w rays).map mirX :=
  traceSurf_mirX exConic w rfl rfl rfl (Or.inr ⟨_, _, rfl⟩) rays

example (w : ℝ) (rays : List (Ray ℝ)) :
    traceLens w [exConic, exPlaneMirror, exImage] (rays.map mirX) =
      (traceLens w [exConic, exPlaneMirror, exImage] rays).map (List.map mirX) := by
  apply traceLens_mirX
  intro s hs
  simp only [List.mem_cons, List.not_mem_nil, or_false] at hs
  rcases hs with h | h | h <;> subst h
  · exact ⟨rfl, rfl, rfl, Or.inr ⟨_, _, rfl⟩⟩
  · exact ⟨rfl, rfl, rfl, Or.inl rfl⟩
  · exact ⟨rfl, rfl, rfl, Or.inl rfl⟩

/-! ### scaling all lengths by c > 0: one surface, whole lens -/

/-- the geometry of the scaled lens: radius × c, conic constant unchanged -/
noncomputable def scaleGeom (c : ℝ) : Geom ℝ → Geom ℝ
  | .plane => .plane
  | .standard R k => .standard (c * R) k
  | g => g

/-- the surface of the scaled lens: vertex position, radius of curvature and aperture radii × c;
tilts, conic constant, indices, extinction coefficient, coating unchanged -/
noncomputable def scaleSurf (c : ℝ) (s : RSurf ℝ) : RSurf ℝ :=
  { s with cs := { s.cs with x := c * s.cs.x, y := c * s.cs.y, z := c * s.cs.z },
           geom := scaleGeom c s.geom,
           aperture := s.aperture.map (fun a => (c * a.1, c * a.2)) }

theorem translate_scale (c : ℝ) (r : Ray ℝ) (dx dy dz : ℝ) :
    (scaleRay c r).translate (c * dx) (c * dy) (c * dz) = scaleRay c (r.translate dx dy dz) := by
  unfold Ray.translate scaleRay
  num_real
  simp only [Ray.mk.injEq, true_and, and_true]
  refine ⟨by ring, by ring, by ring⟩

theorem rotateX_scale (c : ℝ) (r : Ray ℝ) (a : ℝ) :
    (scaleRay c r).rotateX a = scaleRay c (r.rotateX a) := by
  unfold Ray.rotateX scaleRay
  num_real
  simp only [Ray.mk.injEq, true_and, and_true]
  refine ⟨by ring, by ring⟩

theorem rotateY_scale (c : ℝ) (r : Ray ℝ) (a : ℝ) :
    (scaleRay c r).rotateY a = scaleRay c (r.rotateY a) := by
  unfold Ray.rotateY scaleRay
  num_real
  simp only [Ray.mk.injEq, true_and, and_true]
  refine ⟨by ring, by ring⟩

theorem rotateZ_scale (c : ℝ) (r : Ray ℝ) (a : ℝ) :
    (scaleRay c r).rotateZ a = scaleRay c (r.rotateZ a) := by
  unfold Ray.rotateZ scaleRay
  num_real
  simp only [Ray.mk.injEq, true_and, and_true]
  refine ⟨by ring, by ring⟩

/-- `localize` into the scaled frame of the scaled ray = scaled `localize` (any decentre, any tilt) -/
theorem localize_scale (c : ℝ) (cs : Cs ℝ) (r : Ray ℝ) :
    Cs.localize { cs with x := c * cs.x, y := c * cs.y, z := c * cs.z } (scaleRay c r) =
      scaleRay c (cs.localize r) := by
  unfold Cs.localize
  simp only
  have e' : ∀ v : ℝ, (-(c * v) : ℝ) = c * Num.neg v := by intro v; num_real; ring
  rw [show (-(c * cs.x) : ℝ) = c * Num.neg cs.x from e' _, show (-(c * cs.y) : ℝ) = c * Num.neg cs.y from e' _,
    show (-(c * cs.z) : ℝ) = c * Num.neg cs.z from e' _, translate_scale]
  cases truthy cs.rx <;> cases truthy cs.ry <;> cases truthy cs.rz <;>
    simp only [Bool.false_eq_true, if_false, if_true, rotateX_scale, rotateY_scale, rotateZ_scale] <;> rfl

theorem globalize_scale (c : ℝ) (cs : Cs ℝ) (r : Ray ℝ) :
    Cs.globalize { cs with x := c * cs.x, y := c * cs.y, z := c * cs.z } (scaleRay c r) =
      scaleRay c (cs.globalize r) := by
  unfold Cs.globalize
  simp only
  cases truthy cs.rx <;> cases truthy cs.ry <;> cases truthy cs.rz <;>
    simp only [Bool.false_eq_true, if_false, if_true, rotateX_scale, rotateY_scale, rotateZ_scale,
      translate_scale]

/-- the distance to the vertex plane scales (both branches of the `t < 0` mask; the masked value
`nan` is the junk value `0/0 = 0` over ℝ on both sides) -/
theorem planeDistance_scale (c : ℝ) (r : Ray ℝ) (hc : 0 < c) :
    planeDistance (scaleRay c r) = c * planeDistance r := by
  unfold planeDistance maskNeg scaleRay
  num_real
  have e : -(c * r.z) / r.N = c * (-r.z / r.N) := by ring
  rw [e]
  have neg : (c * (-r.z / r.N) < 0) ↔ (-r.z / r.N < 0) := by
    constructor
    · intro h; by_contra hc'; have hc' := not_lt.mp hc'; nlinarith
    · intro h; nlinarith
  simp only [neg]
  split_ifs
  · simp
  · rfl

theorem dist1_scale (c : ℝ) (g : Geom ℝ) (r : Ray ℝ) (hc : 0 < c) :
    dist1 (scaleGeom c g) (scaleRay c r) = c * dist1 g r := by
  cases g <;> simp only [dist1, scaleGeom, planeDistance_scale c r hc, stdDistance_scale c _ _ r hc, mul_zero]

/-- propagation by the scaled distance.  The Beer–Lambert factor `exp(-4πk/λ · t · 1000)` is
invariant only if the medium does not absorb (`k = 0`) or the wavelength is scaled as well. -/
theorem propagate_scale (c : ℝ) (r : Ray ℝ) (t k w w' : ℝ) (hc : 0 < c) (hI : k = 0 ∨ w' = c * w) :
    (scaleRay c r).propagate (c * t) k w' = scaleRay c (r.propagate t k w) := by
  unfold Ray.propagate scaleRay
  num_real
  have hx : -((4:ℕ) / (1:ℕ) * Real.pi * k / w') * (c * t) * ((1000:ℕ) / (1:ℕ)) =
      -((4:ℕ) / (1:ℕ) * Real.pi * k / w) * t * ((1000:ℕ) / (1:ℕ)) := by
    rcases hI with h | h
    · rw [h]; simp
    · rw [h]
      by_cases hw : w = 0
      · rw [hw]; simp
      · have hc' : c ≠ 0 := ne_of_gt hc
        field_simp
  simp only [hx, Ray.mk.injEq, true_and, and_true]
  refine ⟨by ring, by ring, by ring⟩

theorem opd_scale (c : ℝ) (q : Ray ℝ) (t n : ℝ) (hc : 0 < c) :
    ({ (scaleRay c q) with opd := (scaleRay c q).opd + Num.abs (c * t * n) } : Ray ℝ) =
      scaleRay c { q with opd := q.opd + Num.abs (t * n) } := by
  unfold scaleRay
  num_real
  simp only [Ray.mk.injEq, true_and, and_true]
  rw [mul_assoc, abs_mul, abs_of_pos hc]
  ring

theorem clip_scale (c : ℝ) (ap : Option (ℝ × ℝ)) (r : Ray ℝ) (hc : 0 < c) :
    clip (ap.map (fun a => (c * a.1, c * a.2))) (scaleRay c r) = scaleRay c (clip ap r) := by
  rcases ap with _ | ⟨rmax, rmin⟩
  · rfl
  · simp only [Option.map_some, clip]
    have hx : (scaleRay c r).x = c * r.x := rfl
    have hy : (scaleRay c r).y = c * r.y := rfl
    rw [hx, hy]
    have hc2 : 0 < c * c := mul_pos hc hc
    have e1 : Num.lt (c * rmax * (c * rmax)) (c * r.x * (c * r.x) + c * r.y * (c * r.y)) =
        Num.lt (rmax * rmax) (r.x * r.x + r.y * r.y) := by
      rw [NumReal.lt_decide, NumReal.lt_decide]
      apply decide_eq_decide.mpr
      have : c * r.x * (c * r.x) + c * r.y * (c * r.y) - c * rmax * (c * rmax) =
        (c * c) * (r.x * r.x + r.y * r.y - rmax * rmax) := by ring
      constructor
      · intro h; by_contra h'; have h' := not_lt.mp h'; nlinarith
      · intro h; nlinarith
    have e2 : Num.lt (c * r.x * (c * r.x) + c * r.y * (c * r.y)) (c * rmin * (c * rmin)) =
        Num.lt (r.x * r.x + r.y * r.y) (rmin * rmin) := by
      rw [NumReal.lt_decide, NumReal.lt_decide]
      apply decide_eq_decide.mpr
      have : c * rmin * (c * rmin) - (c * r.x * (c * r.x) + c * r.y * (c * r.y)) =
        (c * c) * (rmin * rmin - (r.x * r.x + r.y * r.y)) := by ring
      constructor
      · intro h; by_contra h'; have h' := not_lt.mp h'; nlinarith
      · intro h; nlinarith
    simp only [e1, e2]
    split_ifs <;> rfl

/-- `Surface._interact` on the scaled surface: same unit normal, same refraction/reflection,
same coating factor; positions and path are not touched -/
theorem interact_scale (c : ℝ) (s : RSurf ℝ) (hg : Simple s.geom) (hc : 0 < c) (r : Ray ℝ) :
    interact (scaleSurf c s) (scaleRay c r) = scaleRay c (interact s r) := by
  obtain ⟨kind, cs, geom, n1, n2, k1, refl, ap, coat⟩ := s
  simp only at hg
  have key : (scaleGeom c geom).normal (scaleRay c r) = geom.normal r := by
    rcases hg with h0 | ⟨R, k, h0⟩ <;> subst h0
    · rfl
    · simp only [Geom.normal, scaleGeom]
      rw [show (scaleRay c r).x = c * r.x from rfl, show (scaleRay c r).y = c * r.y from rfl,
        stdNormal_scale c R k r.x r.y hc]
  rcases hn : geom.normal r with ⟨nx, ny, nz⟩
  rw [hn] at key
  cases kind <;> cases refl <;> rcases coat with _ | ⟨T, Rc⟩ <;>
    simp only [interact, scaleSurf, hn, key, Bool.false_eq_true, if_false, if_true] <;> rfl

theorem surfStep_scale (c : ℝ) (s : RSurf ℝ) (w w' : ℝ) (hg : Simple s.geom) (hc : 0 < c)
    (hI : s.k1 = 0 ∨ w' = c * w) (r : Ray ℝ) (t : ℝ) :
    surfStep (scaleSurf c s) w' (scaleRay c r) (c * t) = scaleRay c (surfStep s w r t) := by
  unfold surfStep
  have h1 : (scaleSurf c s).k1 = s.k1 := rfl
  have h2 : (scaleSurf c s).n1 = s.n1 := rfl
  have h3 : (scaleSurf c s).aperture = s.aperture.map (fun a => (c * a.1, c * a.2)) := rfl
  have h4 : (scaleSurf c s).cs = { s.cs with x := c * s.cs.x, y := c * s.cs.y, z := c * s.cs.z } := rfl
  rw [h1, h2, h3, h4, propagate_scale c r t s.k1 w w' hc hI, opd_scale c _ t s.n1 hc, clip_scale c _ _ hc,
    interact_scale c s hg hc, globalize_scale]

theorem surfRay_scale (c : ℝ) (s : RSurf ℝ) (w w' : ℝ) (hg : Simple s.geom) (hc : 0 < c)
    (hI : s.k1 = 0 ∨ w' = c * w) (r : Ray ℝ) :
    surfRay (scaleSurf c s) w' (scaleRay c r) = scaleRay c (surfRay s w r) := by
  unfold surfRay
  have h4 : (scaleSurf c s).cs = { s.cs with x := c * s.cs.x, y := c * s.cs.y, z := c * s.cs.z } := rfl
  have h5 : (scaleSurf c s).geom = scaleGeom c s.geom := rfl
  rw [h4, h5, localize_scale, dist1_scale c _ _ hc]
  exact surfStep_scale c s w w' hg hc hI _ _

theorem simple_scaleGeom (c : ℝ) (g : Geom ℝ) (hg : Simple g) : Simple (scaleGeom c g) := by
  rcases hg with h | ⟨R, k, h⟩ <;> subst h
  · exact Or.inl rfl
  · exact Or.inr ⟨_, _, rfl⟩

/-- **scale_trace, one surface (general form).**  `w'` is the wavelength used for the scaled
system: either the medium in front of the surface does not absorb, or the wavelength is scaled
together with all other lengths. -/
theorem traceSurf_scale_gen (c : ℝ) (s : RSurf ℝ) (w w' : ℝ) (hc : 0 < c)
    (hg : s.geom = .plane ∨ ∃ R k, s.geom = .standard R k) (hI : s.k1 = 0 ∨ w' = c * w)
    (rays : List (Ray ℝ)) :
    traceSurf (scaleSurf c s) w' (rays.map (scaleRay c)) = (traceSurf s w rays).map (scaleRay c) := by
  by_cases hk : s.kind = .object
  · rw [traceSurf_object _ _ _ hk, traceSurf_object (scaleSurf c s) _ _ hk]
  · rw [traceSurf_eq_map s _ _ hk hg, traceSurf_eq_map (scaleSurf c s) _ _ hk (simple_scaleGeom c _ hg),
      List.map_map, List.map_map]
    apply List.map_congr_left
    intro r _
    exact surfRay_scale c s w w' hg hc hI r

/-- **scale_trace, one surface.**  Scale vertex position, radius of curvature and aperture radii
of a plane / standard-conic surface by `c > 0` (tilts, conic constant, indices, coating unchanged)
and the rays' positions and accumulated path by `c`: every record of `traceSurf` has position and
opd × c, direction and intensity unchanged — the intensity under the guard `k1 = 0`: with an
absorbing medium the Beer–Lambert factor `exp(-4πk·t/λ)` sees the longer path (use
`traceSurf_scale_gen` with `w' = c·w` for that case). -/
theorem traceSurf_scale (c : ℝ) (s : RSurf ℝ) (w : ℝ) (hc : 0 < c)
    (hg : s.geom = .plane ∨ ∃ R k, s.geom = .standard R k) (hk1 : s.k1 = 0) (rays : List (Ray ℝ)) :
    traceSurf (scaleSurf c s) w (rays.map (scaleRay c)) = (traceSurf s w rays).map (scaleRay c) :=
  traceSurf_scale_gen c s w w hc hg (Or.inl hk1) rays

/-- **scale_trace, whole lens.**  The record list of the scaled batch through the scaled lens is
the scaled record list — all media non-absorbing. -/
theorem traceLens_scale (c : ℝ) (w : ℝ) (hc : 0 < c) (ss : List (RSurf ℝ))
    (h : ∀ s ∈ ss, (s.geom = .plane ∨ ∃ R k, s.geom = .standard R k) ∧ s.k1 = 0)
    (rays : List (Ray ℝ)) :
    traceLens w (ss.map (scaleSurf c)) (rays.map (scaleRay c)) =
      (traceLens w ss rays).map (List.map (scaleRay c)) := by
  apply traceLens_equivariant (scaleRay c) w w ss (ss.map (scaleSurf c))
  rw [List.forall₂_map_right_iff, List.forall₂_same]
  intro s hs rays
  exact traceSurf_scale c s w hc (h s hs).1 (h s hs).2 rays

/-- **scale_trace, whole lens, absorbing media**: if the wavelength is scaled with the lens the
intensity is invariant too (the extinction coefficients `k1` being the same numbers). -/
theorem traceLens_scale_wavelength (c : ℝ) (w : ℝ) (hc : 0 < c) (ss : List (RSurf ℝ))
    (h : ∀ s ∈ ss, s.geom = .plane ∨ ∃ R k, s.geom = .standard R k) (rays : List (Ray ℝ)) :
    traceLens (c * w) (ss.map (scaleSurf c)) (rays.map (scaleRay c)) =
      (traceLens w ss rays).map (List.map (scaleRay c)) := by
  apply traceLens_equivariant (scaleRay c) w (c * w) ss (ss.map (scaleSurf c))
  rw [List.forall₂_map_right_iff, List.forall₂_same]
  intro s hs rays
  exact traceSurf_scale_gen c s w (c * w) hc (h s hs) (Or.inr rfl) rays

example (w : ℝ) (rays : List (Ray ℝ)) :
    traceLens w ([exConic, exPlaneMirror, exImage].map (scaleSurf 2.5)) (rays.map (scaleRay 2.5)) =
      (traceLens w [exConic, exPlaneMirror, exImage] rays).map (List.map (scaleRay 2.5)) := by
  apply traceLens_scale 2.5 w (by norm_num)
  intro s hs
  simp only [List.mem_cons, List.not_mem_nil, or_false] at hs
  rcases hs with h | h | h <;> subst h
  · exact ⟨Or.inr ⟨_, _, rfl⟩, rfl⟩
  · exact ⟨Or.inl rfl, rfl⟩
  · exact ⟨Or.inl rfl, rfl⟩

/-! ### a dummy surface between equal media is transparent -/

/-- refraction between equal indices returns the very same ray record -/
theorem refract_same_index_ray (r : Ray ℝ) (nx ny nz n : ℝ) (hn0 : n ≠ 0)
    (hn : nx^2 + ny^2 + nz^2 = 1) (hd : r.L*nx + r.M*ny + r.N*nz ≠ 0) :
    r.refract nx ny nz n n = r := by
  have h := refract_same_index r nx ny nz n hn0 hn hd
  have e : r.refract nx ny nz n n = ⟨r.x, r.y, r.z, (r.refract nx ny nz n n).L,
      (r.refract nx ny nz n n).M, (r.refract nx ny nz n n).N, r.i, r.opd⟩ := rfl
  rw [e, h.1, h.2.1, h.2.2]

/-- the dummy surface: an untilted plane with vertex anywhere, the same non-zero index on both sides,
refracting, no aperture, no coating (its `k1` is the extinction coefficient of that medium) -/
def IsDummy (d : RSurf ℝ) : Prop :=
  d.kind = .standard ∧ d.geom = .plane ∧ d.cs.rx = 0 ∧ d.cs.ry = 0 ∧ d.cs.rz = 0 ∧
    d.n1 = d.n2 ∧ d.n1 ≠ 0 ∧ d.refl = false ∧ d.aperture = none ∧ d.coating = none

/-- distance along the ray to the plane `z = d.cs.z` -/
noncomputable def dummyT (d : RSurf ℝ) (r : Ray ℝ) : ℝ := (d.cs.z - r.z) / r.N

/-- what the dummy surface does to one ray that reaches it going forward: it moves the ray onto
the plane — position, Beer–Lambert factor and `|t·n|` of that segment — and leaves the direction alone -/
theorem surfRay_dummy (d : RSurf ℝ) (w : ℝ) (hd : IsDummy d) (r : Ray ℝ) (hN : r.N ≠ 0)
    (ht : 0 ≤ dummyT d r) :
    surfRay d w r = advance r (dummyT d r) d.k1 w d.n1 := by
  obtain ⟨kind, ⟨x0, y0, z0, rx, ry, rz⟩, geom, n1, n2, k1, refl, ap, coat⟩ := d
  simp only [IsDummy] at hd
  obtain ⟨rfl, rfl, rfl, rfl, rfl, rfl, hn0, rfl, rfl, rfl⟩ := hd
  simp only [dummyT] at ht ⊢
  have hloc : Cs.localize (⟨x0, y0, z0, 0, 0, 0⟩ : Cs ℝ) r = r.translate (-x0) (-y0) (-z0) := by
    unfold Cs.localize
    simp only [truthy_zero, Bool.false_eq_true, if_false]
  have hglob : ∀ q : Ray ℝ, Cs.globalize (⟨x0, y0, z0, 0, 0, 0⟩ : Cs ℝ) q = q.translate x0 y0 z0 := by
    intro q
    unfold Cs.globalize
    simp only [truthy_zero, Bool.false_eq_true, if_false]
  have hdist : planeDistance (r.translate (-x0) (-y0) (-z0)) = (z0 - r.z) / r.N := by
    unfold planeDistance maskNeg Ray.translate
    num_real
    have e : -(r.z + -z0) / r.N = (z0 - r.z) / r.N := by ring
    rw [e, if_neg (not_lt.mpr ht)]
  have hint : ∀ q : Ray ℝ, q.N ≠ 0 → interact (⟨.standard, ⟨x0, y0, z0, 0, 0, 0⟩, .plane, n1, n1, k1, false, none, none⟩ : RSurf ℝ) q = q := by
    intro q hq
    have : interact (⟨.standard, ⟨x0, y0, z0, 0, 0, 0⟩, .plane, n1, n1, k1, false, none, none⟩ : RSurf ℝ) q =
        q.refract 0 0 1 n1 n1 := rfl
    rw [this]
    exact refract_same_index_ray q 0 0 1 n1 hn0 (by norm_num) (by simpa using hq)
  have hback : (r.translate (-x0) (-y0) (-z0)).translate x0 y0 z0 = r := by
    unfold Ray.translate
    num_real
    simp only [neg_add_cancel_right]
  unfold surfRay
  rw [surfStep_eq]
  simp only [dist1, clip]
  rw [hloc, hdist, hglob, hint, translate_advance, hback]
  rw [advance_eq]
  exact hN

/-- per-ray guard for the ray `r` that arrives at the dummy `d`, `S` being the surface after it:
the ray is not parallel to the dummy plane, reaches it going forward (`0 ≤ t`), and the dummy plane
lies before the intersection of the ray with `S` (`Cov.Ahead`, in the frame of `S`: for a plane
`t ≤ -z/N`; for a conic `Cov.RootsAhead`: `t ≤` the selected root of the quadratic, see there for
the case of a root behind the ray, whose masked value `inf` is a junk value over ℝ).
At the excluded points the code does something else: with `t < 0` (dummy plane behind the ray)
`Plane.distance` masks the distance to NaN and the ray is lost; with the dummy plane beyond `S` the
root towards `S` becomes negative and is masked to `inf`. -/
def DummyGuard (d S : RSurf ℝ) (r : Ray ℝ) : Prop :=
  r.N ≠ 0 ∧ 0 ≤ dummyT d r ∧ Ahead S.geom (S.cs.localize r) (dummyT d r)

theorem surfRay_after_dummy (d S : RSurf ℝ) (w : ℝ) (hd : IsDummy d) (hn : S.n1 = d.n1)
    (hk : S.k1 = d.k1) (r : Ray ℝ) (hg : DummyGuard d S r) :
    surfRay S w (surfRay d w r) = surfRay S w r := by
  obtain ⟨hN, ht, hA⟩ := hg
  rw [surfRay_dummy d w hd r hN ht, ← hn, ← hk]
  unfold surfRay
  rw [localize_advance]
  obtain ⟨h1, h2⟩ := dist1_advance S.geom (S.cs.localize r) (dummyT d r) S.k1 w S.n1 ht hA
  rw [h1, surfStep_eq, surfStep_eq, advance_add _ _ _ _ _ _ ht (sub_nonneg.mpr h2), add_sub_cancel]

/-- **dummy_surface, one step.**  (a) the record at the dummy is the incoming batch moved onto the
dummy plane (same directions; position, absorption and `|t·n|` of that first part of the gap);
(b) the surface after the dummy produces the same records — position, direction, intensity and
accumulated path — as without the dummy: the gap is split, `|t₁n| + |t₂n| = |(t₁+t₂)n|`,
`e^{-αt₁}e^{-αt₂} = e^{-α(t₁+t₂)}`. -/
theorem dummy_then_surface (d S : RSurf ℝ) (w : ℝ) (hd : IsDummy d) (hn : S.n1 = d.n1) (hk : S.k1 = d.k1)
    (hkind : S.kind ≠ .object) (rays : List (Ray ℝ)) (hg : ∀ r ∈ rays, DummyGuard d S r) :
    traceSurf d w rays = rays.map (fun r => advance r (dummyT d r) d.k1 w d.n1) ∧
      traceSurf S w (traceSurf d w rays) = traceSurf S w rays := by
  have hdk : d.kind ≠ .object := by rw [hd.1]; decide
  have hdg : Simple d.geom := Or.inl hd.2.1
  have e1 : traceSurf d w rays = rays.map (surfRay d w) := traceSurf_eq_map d w rays hdk hdg
  refine ⟨?_, ?_⟩
  · rw [e1]
    apply List.map_congr_left
    intro r hr
    exact surfRay_dummy d w hd r (hg r hr).1 (hg r hr).2.1
  · rcases rays with _ | ⟨r0, rs⟩
    · rw [e1]; rfl
    · have hS : Simple S.geom := simple_of_ahead _ _ _ (hg r0 (List.mem_cons_self)).2.2
      rw [e1, traceSurf_eq_map S w _ hkind hS, traceSurf_eq_map S w _ hkind hS, List.map_map]
      apply List.map_congr_left
      intro r hr
      exact surfRay_after_dummy d S w hd hn hk r (hg r hr)

/-- **dummy_surface_transparent.**  Insert a dummy plane `d` (same medium on both sides, no aperture,
no coating, refracting, untilted, vertex anywhere) in front of surface `S` of a lens
`pre ++ S :: post` (`S` a plane or a standard conic, possibly the image surface).  If every ray that
leaves `pre` reaches the dummy plane going forward and before it reaches `S`, then deleting the
dummy's own record from the record list of `pre ++ d :: S :: post` gives exactly the record list of
`pre ++ S :: post`: no downstream position, direction, intensity or opd changes. -/
theorem dummy_surface_transparent (w : ℝ) (pre post : List (RSurf ℝ)) (d S : RSurf ℝ)
    (hd : IsDummy d) (hn : S.n1 = d.n1) (hk : S.k1 = d.k1) (hkind : S.kind ≠ .object)
    (rays : List (Ray ℝ)) (hg : ∀ r ∈ (traceLens w pre rays).getLastD rays, DummyGuard d S r) :
    (traceLens w (pre ++ d :: S :: post) rays).eraseIdx pre.length =
      traceLens w (pre ++ S :: post) rays := by
  rw [← finalRays_eq_getLastD] at hg
  rw [traceLens_append, traceLens_append]
  simp only [traceLens]
  rw [(dummy_then_surface d S w hd hn hk hkind _ hg).2,
    List.eraseIdx_append_of_length_le (by rw [traceLens_length]), traceLens_length, Nat.sub_self,
    List.eraseIdx_cons_zero]

/-! non-vacuity of `dummy_surface_transparent`: object surface, dummy plane at z = 3 in air, a sphere
R = 50 at z = 5 (air → glass), image plane; the ray starts at height 1 parallel to the axis. -/
noncomputable def exObject : RSurf ℝ :=
  { kind := .object, cs := ⟨0, 0, 0, 0, 0, 0⟩, geom := .plane, n1 := 1, n2 := 1,
    k1 := 0, refl := false, aperture := none, coating := none }
noncomputable def exDummy : RSurf ℝ :=
  { kind := .standard, cs := ⟨0, 0, 3, 0, 0, 0⟩, geom := .plane, n1 := 1, n2 := 1,
    k1 := 0, refl := false, aperture := none, coating := none }
noncomputable def exSphere : RSurf ℝ :=
  { kind := .standard, cs := ⟨0, 0, 5, 0, 0, 0⟩, geom := .standard 50 0, n1 := 1, n2 := 1.5,
    k1 := 0, refl := false, aperture := some (10, 0), coating := none }
noncomputable def exRay : Ray ℝ := ⟨1, 0, 0, 0, 0, 1, 1, 0⟩

example : IsDummy exDummy := by
  refine ⟨rfl, rfl, rfl, rfl, rfl, rfl, ?_, rfl, rfl, rfl⟩
  show (1:ℝ) ≠ 0
  norm_num

theorem exGuard : DummyGuard exDummy exSphere exRay := by
  have hloc : exSphere.cs.localize exRay = ⟨1, 0, -5, 0, 0, 1, 1, 0⟩ := by
    unfold Cs.localize exSphere exRay
    simp only [truthy_zero, Bool.false_eq_true, if_false]
    unfold Ray.translate
    num_real
    norm_num
  have ht : dummyT exDummy exRay = 3 := by
    unfold dummyT exDummy exRay
    norm_num
  refine ⟨?_, ?_, ?_⟩
  · show (1:ℝ) ≠ 0
    norm_num
  · rw [ht]; norm_num
  · rw [ht, hloc]
    show RootsAhead _ _ _ _ _ 3
    rw [conicABC_eq]
    simp only
    norm_num
    unfold RootsAhead
    right; left
    have hs : Real.sqrt 9996 ≤ 104 := by
      rw [Real.sqrt_le_iff]; norm_num
    have hs0 : 0 ≤ Real.sqrt 9996 := Real.sqrt_nonneg _
    refine ⟨by norm_num, ?_, ?_⟩ <;> norm_num <;> linarith

example (w : ℝ) :
    (traceLens w ([exObject] ++ exDummy :: exSphere :: [exImage]) [exRay]).eraseIdx 1 =
      traceLens w ([exObject] ++ exSphere :: [exImage]) [exRay] := by
  apply dummy_surface_transparent w [exObject] [exImage] exDummy exSphere
  · refine ⟨rfl, rfl, rfl, rfl, rfl, rfl, ?_, rfl, rfl, rfl⟩
    show (1:ℝ) ≠ 0
    norm_num
  · rfl
  · rfl
  · show RKind.standard ≠ RKind.object
    decide
  · intro r hr
    have : (traceLens w [exObject] [exRay]).getLastD [exRay] = [exRay] := by
      simp only [traceLens, traceSurf_object exObject w [exRay] rfl, List.getLastD_cons, List.getLastD_nil]
    rw [this, List.mem_singleton] at hr
    rw [hr]
    exact exGuard

/-! ### mirror in x: the even asphere (batch-coupled Newton–Raphson intersection) -/

/-- mirror image of a point -/
def mirP (p : ℝ × ℝ × ℝ) : ℝ × ℝ × ℝ := (-p.1, p.2.1, p.2.2)

theorem sphereGuess_mirX (R : ℝ) (r : Ray ℝ) : sphereGuess R (mirX r) = mirP (sphereGuess R r) := by
  simp only [sphereGuess, mirX, mirP]
  num_real
  have e1 : -r.L * -r.L = r.L * r.L := by ring
  have e2 : 2 * -r.L * -r.x = 2 * r.L * r.x := by ring
  have e3 : -r.x * -r.x = r.x * r.x := by ring
  simp only [e1, e2, e3, Prod.mk.injEq, and_true]
  ring

/-- one Newton–Raphson step for one ray: new point and `|dz|` -/
noncomputable def nrStep (g : Geom ℝ) (p : ℝ × ℝ × ℝ) (r : Ray ℝ) : (ℝ × ℝ × ℝ) × ℝ :=
  ((p.1 - (p.2.2 - g.nrSag p.1 p.2.1) / r.N * r.L, p.2.1 - (p.2.2 - g.nrSag p.1 p.2.1) / r.N * r.M,
    p.2.2 - (p.2.2 - g.nrSag p.1 p.2.1) / r.N * r.N), |p.2.2 - g.nrSag p.1 p.2.1|)

theorem nrSweep_eq (g : Geom ℝ) (rays : List (Ray ℝ)) (pts : List (ℝ × ℝ × ℝ)) :
    nrSweep g rays pts = (((pts.zip rays).map (fun pr => nrStep g pr.1 pr.2)).map (·.1),
      npMax (((pts.zip rays).map (fun pr => nrStep g pr.1 pr.2)).map (·.2))) := rfl

theorem nrStep_mirX (g : Geom ℝ) (hsag : ∀ x y, g.nrSag (-x) y = g.nrSag x y) (p : ℝ × ℝ × ℝ) (r : Ray ℝ) :
    nrStep g (mirP p) (mirX r) = (mirP (nrStep g p r).1, (nrStep g p r).2) := by
  simp only [nrStep, mirP, mirX, hsag, Prod.mk.injEq, and_true, true_and]
  ring

theorem nrSweep_mirX (g : Geom ℝ) (hsag : ∀ x y, g.nrSag (-x) y = g.nrSag x y)
    (rays : List (Ray ℝ)) (pts : List (ℝ × ℝ × ℝ)) :
    nrSweep g (rays.map mirX) (pts.map mirP) =
      ((nrSweep g rays pts).1.map mirP, (nrSweep g rays pts).2) := by
  have hstep : (List.map (Prod.map mirP mirX) (pts.zip rays)).map (fun pr => nrStep g pr.1 pr.2) =
      ((pts.zip rays).map (fun pr => nrStep g pr.1 pr.2)).map (fun q => (mirP q.1, q.2)) := by
    rw [List.map_map, List.map_map]
    apply List.map_congr_left
    intro pr _
    exact nrStep_mirX g hsag pr.1 pr.2
  rw [nrSweep_eq, nrSweep_eq, List.zip_map, hstep]
  simp only [List.map_map, Function.comp_def]

theorem nrLoop_mirX (g : Geom ℝ) (hsag : ∀ x y, g.nrSag (-x) y = g.nrSag x y)
    (rays : List (Ray ℝ)) (tol : ℝ) (n : ℕ) (pts : List (ℝ × ℝ × ℝ)) :
    nrLoop g (rays.map mirX) tol n (pts.map mirP) = (nrLoop g rays tol n pts).map mirP := by
  induction n generalizing pts with
  | zero => rfl
  | succ n ih =>
    simp only [nrLoop, nrSweep_mirX g hsag]
    split_ifs
    · rfl
    · exact ih _

/-- the batch of Newton–Raphson distances is the same for the mirrored batch (same iteration count:
the stopping test `max |dz| < tol` sees the same numbers) -/
theorem nrDistance_mirX (g : Geom ℝ) (hsag : ∀ x y, g.nrSag (-x) y = g.nrSag x y)
    (R tol : ℝ) (mi : ℕ) (rays : List (Ray ℝ)) :
    nrDistance g R tol mi (rays.map mirX) = nrDistance g R tol mi rays := by
  simp only [nrDistance]
  have e : (rays.map mirX).map (sphereGuess R) = (rays.map (sphereGuess R)).map mirP := by
    rw [List.map_map, List.map_map]
    apply List.map_congr_left
    intro r _
    exact sphereGuess_mirX R r
  rw [e, nrLoop_mirX g hsag, List.zip_map, List.map_map]
  apply List.map_congr_left
  intro pr _
  simp only [Function.comp, Prod.map, mirP, mirX]
  num_real
  congr 1
  ring

theorem conicSag_mirX (R k x y : ℝ) : conicSag R k (-x) y = conicSag R k x y := by
  unfold conicSag
  num_real
  simp only [neg_mul_neg]

theorem asphSag_mirX (R k : ℝ) (c : List ℝ) (x y : ℝ) : asphSag R k c (-x) y = asphSag R k c x y := by
  unfold asphSag
  rw [conicSag_mirX]
  num_real
  simp only [neg_mul_neg]

theorem conicSlope_mirX (R k x y : ℝ) :
    conicSlope R k (-x) y = (-(conicSlope R k x y).1, (conicSlope R k x y).2) := by
  unfold conicSlope
  num_real
  simp only [neg_mul_neg, Prod.mk.injEq, and_true]
  ring

theorem nrNormalize_neg (a b : ℝ) :
    nrNormalize (-a) b = (-(nrNormalize a b).1, (nrNormalize a b).2.1, (nrNormalize a b).2.2) := by
  unfold nrNormalize
  num_real
  simp only [neg_mul_neg, Prod.mk.injEq, and_true]
  ring

/-- the polynomial part of the even-asphere slope: the x-component changes sign with x -/
theorem asphFold_mirX (x y r2 : ℝ) (l : List (ℝ × ℕ)) (a b : ℝ) :
    l.foldl (fun (d : ℝ × ℝ) (ci : ℝ × ℕ) =>
      (d.1 + 2 * (Num.ofNat (ci.2 + 1) : ℝ) * (-x) * ci.1 * ipow r2 ci.2,
       d.2 + 2 * (Num.ofNat (ci.2 + 1) : ℝ) * y * ci.1 * ipow r2 ci.2)) (-a, b) =
    (-(l.foldl (fun (d : ℝ × ℝ) (ci : ℝ × ℕ) =>
      (d.1 + 2 * (Num.ofNat (ci.2 + 1) : ℝ) * x * ci.1 * ipow r2 ci.2,
       d.2 + 2 * (Num.ofNat (ci.2 + 1) : ℝ) * y * ci.1 * ipow r2 ci.2)) (a, b)).1,
     (l.foldl (fun (d : ℝ × ℝ) (ci : ℝ × ℕ) =>
      (d.1 + 2 * (Num.ofNat (ci.2 + 1) : ℝ) * x * ci.1 * ipow r2 ci.2,
       d.2 + 2 * (Num.ofNat (ci.2 + 1) : ℝ) * y * ci.1 * ipow r2 ci.2)) (a, b)).2) := by
  induction l generalizing a b with
  | nil => rfl
  | cons ci l ih =>
    simp only [List.foldl_cons]
    have e : -a + 2 * (Num.ofNat (ci.2 + 1) : ℝ) * (-x) * ci.1 * ipow r2 ci.2 =
        -(a + 2 * (Num.ofNat (ci.2 + 1) : ℝ) * x * ci.1 * ipow r2 ci.2) := by ring
    rw [e, ih]

theorem asphNormal_mirX (R k : ℝ) (c : List ℝ) (x y : ℝ) :
    asphNormal R k c (-x) y =
      (-(asphNormal R k c x y).1, (asphNormal R k c x y).2.1, (asphNormal R k c x y).2.2) := by
  unfold asphNormal
  rw [conicSlope_mirX]
  have e' : (-x * -x : ℝ) = x * x := by ring
  num_real
  simp only [e']
  have h := asphFold_mirX x y (x * x + y * y) c.zipIdx (conicSlope R k x y).1 (conicSlope R k x y).2
  rw [h, nrNormalize_neg]

/-- what `traceSurf` needs from a geometry to be mirror symmetric in x: the batch of distances of the
mirrored batch is the same, and the normal at the mirrored point is the mirrored normal -/
def MirSymGeom (g : Geom ℝ) : Prop :=
  (∀ rays : List (Ray ℝ), g.distance (rays.map mirX) = g.distance rays) ∧
  (∀ (r : Ray ℝ) (nx ny nz : ℝ), g.normal r = (nx, ny, nz) → g.normal (mirX r) = (-nx, ny, nz))

theorem mirSym_plane : MirSymGeom (.plane : Geom ℝ) := by
  refine ⟨fun rays => ?_, fun r nx ny nz h => ?_⟩
  · simp only [Geom.distance, List.map_map]
    rfl
  · simp only [Geom.normal, Prod.mk.injEq] at h ⊢
    num_real
    obtain ⟨h1, h2, h3⟩ := h
    exact ⟨by rw [← h1, neg_zero], h2, h3⟩

theorem mirSym_standard (R k : ℝ) : MirSymGeom (.standard R k : Geom ℝ) := by
  refine ⟨fun rays => ?_, fun r nx ny nz h => ?_⟩
  · simp only [Geom.distance, List.map_map]
    apply List.map_congr_left
    intro r _
    exact stdDistance_mirX R k r
  · simp only [Geom.normal] at h ⊢
    rw [show (mirX r).x = -r.x from rfl, show (mirX r).y = r.y from rfl, stdNormal_mirX, h]

/-- the even asphere `z = conic(r²) + Σ cᵢ r^{2(i+1)}` is mirror symmetric, including its
Newton–Raphson intersection with the batch-wide stopping test -/
theorem mirSym_evenAsphere (R k tol : ℝ) (mi : ℕ) (c : List ℝ) :
    MirSymGeom (.evenAsphere R k tol mi c : Geom ℝ) := by
  refine ⟨fun rays => ?_, fun r nx ny nz h => ?_⟩
  · simp only [Geom.distance]
    exact nrDistance_mirX (.evenAsphere R k tol mi c) (fun x y => asphSag_mirX R k c x y) R tol mi rays
  · simp only [Geom.normal] at h ⊢
    rw [show (mirX r).x = -r.x from rfl, show (mirX r).y = r.y from rfl, asphNormal_mirX, h]

theorem interact_mirX_sym (s : RSurf ℝ) (hg : MirSymGeom s.geom) (r : Ray ℝ) :
    interact s (mirX r) = mirX (interact s r) := by
  obtain ⟨kind, cs, geom, n1, n2, k1, refl, ap, coat⟩ := s
  simp only at hg
  rcases hn : geom.normal r with ⟨nx, ny, nz⟩
  have hm := hg.2 r nx ny nz hn
  cases kind <;> cases refl <;> rcases coat with _ | ⟨T, Rc⟩ <;>
    simp only [interact, hn, hm, refract_mirX, reflect_mirX, Bool.false_eq_true, if_false, if_true] <;> rfl

theorem surfStep_mirX_sym (s : RSurf ℝ) (w : ℝ) (hx : s.cs.x = 0) (hry : s.cs.ry = 0) (hrz : s.cs.rz = 0)
    (hg : MirSymGeom s.geom) (r : Ray ℝ) (t : ℝ) :
    surfStep s w (mirX r) t = mirX (surfStep s w r t) := by
  unfold surfStep
  rw [propagate_mirX]
  have e : ∀ q : Ray ℝ, ({ (mirX q) with opd := (mirX q).opd + Num.abs (t * s.n1) } : Ray ℝ) =
      mirX { q with opd := q.opd + Num.abs (t * s.n1) } := fun _ => rfl
  rw [e, clip_mirX, interact_mirX_sym s hg, globalize_mirX _ hx hry hrz]

theorem traceSurf_mirX_sym (s : RSurf ℝ) (w : ℝ) (hx : s.cs.x = 0) (hry : s.cs.ry = 0) (hrz : s.cs.rz = 0)
    (hg : MirSymGeom s.geom) (rays : List (Ray ℝ)) :
    traceSurf s w (rays.map mirX) = (traceSurf s w rays).map mirX := by
  by_cases hk : s.kind = .object
  · rw [traceSurf_object _ _ _ hk, traceSurf_object _ _ _ hk]
  · rw [traceSurf_eq_zip _ _ _ hk, traceSurf_eq_zip _ _ _ hk]
    have e : (rays.map mirX).map s.cs.localize = (rays.map s.cs.localize).map mirX := by
      rw [List.map_map, List.map_map]
      apply List.map_congr_left
      intro r _
      exact localize_mirX _ hx hry hrz r
    rw [e, hg.1, List.zip_map_left, List.map_map, List.map_map]
    apply List.map_congr_left
    intro rt _
    exact surfStep_mirX_sym s w hx hry hrz hg rt.1 rt.2

/-- **mirror_trace, one surface, with the even asphere.**  Same statement as `traceSurf_mirX`, the
geometry may also be an `EvenAsphere` (any coefficients, tolerance, iteration limit): its
intersection is found by a Newton–Raphson loop whose stopping test looks at the whole batch — the
mirrored batch takes the same number of sweeps. -/
theorem traceSurf_mirX_asph (s : RSurf ℝ) (w : ℝ) (hx : s.cs.x = 0) (hry : s.cs.ry = 0) (hrz : s.cs.rz = 0)
    (hg : s.geom = .plane ∨ (∃ R k, s.geom = .standard R k) ∨
      ∃ R k tol mi c, s.geom = .evenAsphere R k tol mi c) (rays : List (Ray ℝ)) :
    traceSurf s w (rays.map mirX) = (traceSurf s w rays).map mirX := by
  apply traceSurf_mirX_sym s w hx hry hrz
  rcases hg with h | ⟨R, k, h⟩ | ⟨R, k, tol, mi, c, h⟩ <;> rw [h]
  · exact mirSym_plane
  · exact mirSym_standard R k
  · exact mirSym_evenAsphere R k tol mi c

/-- **mirror_trace, whole lens, with even aspheres** -/
theorem traceLens_mirX_asph (w : ℝ) (ss : List (RSurf ℝ))
    (h : ∀ s ∈ ss, s.cs.x = 0 ∧ s.cs.ry = 0 ∧ s.cs.rz = 0 ∧
      (s.geom = .plane ∨ (∃ R k, s.geom = .standard R k) ∨
        ∃ R k tol mi c, s.geom = .evenAsphere R k tol mi c)) (rays : List (Ray ℝ)) :
    traceLens w ss (rays.map mirX) = (traceLens w ss rays).map (List.map mirX) := by
  apply traceLens_equivariant mirX w w ss ss
  rw [List.forall₂_same]
  intro s hs rays
  obtain ⟨hx, hry, hrz, hg⟩ := h s hs
  exact traceSurf_mirX_asph s w hx hry hrz hg rays

noncomputable def exAsphere : RSurf ℝ :=
  { kind := .standard, cs := ⟨0, -0.2, 1, -0.05, 0, 0⟩, geom := .evenAsphere 30 (-1) 1e-10 100 [1e-4, -2e-7],
    n1 := 1, n2 := 1.5, k1 := 0, refl := false, aperture := some (8, 0), coating := none }

example (w : ℝ) (rays : List (Ray ℝ)) :
    traceLens w [exAsphere, exConic, exImage] (rays.map mirX) =
      (traceLens w [exAsphere, exConic, exImage] rays).map (List.map mirX) := by
  apply traceLens_mirX_asph
  intro s hs
  simp only [List.mem_cons, List.not_mem_nil, or_false] at hs
  rcases hs with h | h | h <;> subst h
  · exact ⟨rfl, rfl, rfl, Or.inr (Or.inr ⟨_, _, _, _, _, rfl⟩)⟩
  · exact ⟨rfl, rfl, rfl, Or.inr (Or.inl ⟨_, _, rfl⟩)⟩
  · exact ⟨rfl, rfl, rfl, Or.inl rfl⟩

/-- non-vacuity of the "one root behind the ray" case: a concave sphere R = -50 at z = 5 -/
noncomputable def exConcave : RSurf ℝ :=
  { kind := .standard, cs := ⟨0, 0, 5, 0, 0, 0⟩, geom := .standard (-50) 0, n1 := 1, n2 := 1.5,
    k1 := 0, refl := false, aperture := none, coating := none }

theorem exGuardConcave : DummyGuard exDummy exConcave exRay := by
  have hloc : exConcave.cs.localize exRay = ⟨1, 0, -5, 0, 0, 1, 1, 0⟩ := by
    unfold Cs.localize exConcave exRay
    simp only [truthy_zero, Bool.false_eq_true, if_false]
    unfold Ray.translate
    num_real
    norm_num
  have ht : dummyT exDummy exRay = 3 := by
    unfold dummyT exDummy exRay
    norm_num
  refine ⟨?_, ?_, ?_⟩
  · show (1:ℝ) ≠ 0
    norm_num
  · rw [ht]; norm_num
  · rw [ht, hloc]
    show RootsAhead _ _ _ _ _ 3
    rw [conicABC_eq]
    simp only
    norm_num
    unfold RootsAhead
    right; right; left
    have hs : Real.sqrt 9996 ≤ 100 := by
      rw [Real.sqrt_le_iff]; norm_num
    have hs1 : 96 ≤ Real.sqrt 9996 := by
      apply Real.le_sqrt_of_sq_le; norm_num
    refine ⟨by norm_num, ?_, ?_, ?_, ?_⟩
    · norm_num; linarith
    · norm_num; linarith
    · norm_num
      rw [abs_le]; constructor <;> linarith
    · norm_num
      rw [abs_le]; constructor <;> linarith

/-! ### mirror in y (about the x–z plane): the same chain with the roles of x and y exchanged -/

/-- mirror image of a ray in the plane y = 0 -/
def mirY (r : Ray ℝ) : Ray ℝ := { r with y := -r.y, M := -r.M }
/-- mirror image of a point in the plane y = 0 -/
def mirPY (p : ℝ × ℝ × ℝ) : ℝ × ℝ × ℝ := (p.1, -p.2.1, p.2.2)

theorem conicABC_mirY (R k : ℝ) (r : Ray ℝ) : conicABC R k (mirY r) = conicABC R k r := by
  unfold conicABC mirY
  num_real
  simp only [Prod.mk.injEq]
  refine ⟨by ring, by ring, by ring⟩

theorem stdDistance_mirY (R k : ℝ) (r : Ray ℝ) : stdDistance R k (mirY r) = stdDistance R k r := by
  unfold stdDistance
  rw [conicABC_mirY]
  rfl

theorem planeDistance_mirY (r : Ray ℝ) : planeDistance (mirY r) = planeDistance r := rfl

theorem propagate_mirY (r : Ray ℝ) (t k w : ℝ) : (mirY r).propagate t k w = mirY (r.propagate t k w) := by
  unfold Ray.propagate mirY
  num_real
  simp only [Ray.mk.injEq, true_and, and_true]
  ring

theorem stdNormal_mirY (R k x y : ℝ) :
    stdNormal R k x (-y) = ((stdNormal R k x y).1, -(stdNormal R k x y).2.1, (stdNormal R k x y).2.2) := by
  unfold stdNormal conicSlope
  num_real
  have e : x * x + -y * -y = x * x + y * y := by ring
  simp only [e, Prod.mk.injEq]
  set den := R * Real.sqrt (1 - (1 + k) * (x * x + y * y) / (R * R))
  have e2 : -y / den * (-y / den) = y / den * (y / den) := by ring
  rw [e2]
  refine ⟨rfl, by ring, rfl⟩

theorem refract_mirY (r : Ray ℝ) (nx ny nz n1 n2 : ℝ) :
    (mirY r).refract nx (-ny) nz n1 n2 = mirY (r.refract nx ny nz n1 n2) := by
  unfold Ray.refract alignNormal mirY
  num_real
  have e : r.L * nx + -r.M * -ny + r.N * nz = r.L * nx + r.M * ny + r.N * nz := by ring
  simp only [e, Ray.mk.injEq, true_and, and_true]
  ring

theorem reflect_mirY (r : Ray ℝ) (nx ny nz : ℝ) :
    (mirY r).reflect nx (-ny) nz = mirY (r.reflect nx ny nz) := by
  unfold Ray.reflect alignNormal mirY
  num_real
  have e : r.L * nx + -r.M * -ny + r.N * nz = r.L * nx + r.M * ny + r.N * nz := by ring
  simp only [e, Ray.mk.injEq, true_and, and_true]
  ring

/-- `localize` commutes with the y-mirror when the frame has no y-decentre and no tilt about x, z
(any tilt `ry` about the y-axis is allowed) -/
theorem localize_mirY (c : Cs ℝ) (hy : c.y = 0) (hrx : c.rx = 0) (hrz : c.rz = 0) (r : Ray ℝ) :
    c.localize (mirY r) = mirY (c.localize r) := by
  unfold Cs.localize
  rw [hy, hrx, hrz]
  simp only [truthy_zero, Bool.false_eq_true, if_false]
  cases truthy c.ry
  · simp only [Bool.false_eq_true, if_false]
    unfold Ray.translate mirY
    num_real
    simp only [Ray.mk.injEq, true_and, and_true]
    ring
  · simp only [if_true]
    unfold Ray.translate Ray.rotateY mirY
    num_real
    simp only [Ray.mk.injEq, true_and, and_true]
    ring

theorem globalize_mirY (c : Cs ℝ) (hy : c.y = 0) (hrx : c.rx = 0) (hrz : c.rz = 0) (r : Ray ℝ) :
    c.globalize (mirY r) = mirY (c.globalize r) := by
  unfold Cs.globalize
  rw [hy, hrx, hrz]
  simp only [truthy_zero, Bool.false_eq_true, if_false]
  cases truthy c.ry
  · simp only [Bool.false_eq_true, if_false]
    unfold Ray.translate mirY
    num_real
    simp only [Ray.mk.injEq, true_and, and_true]
    ring
  · simp only [if_true]
    unfold Ray.translate Ray.rotateY mirY
    num_real
    simp only [Ray.mk.injEq, true_and, and_true]
    ring

theorem clip_mirY (ap : Option (ℝ × ℝ)) (r : Ray ℝ) : clip ap (mirY r) = mirY (clip ap r) := by
  rcases ap with _ | ⟨rmax, rmin⟩
  · rfl
  · unfold clip
    have e : (mirY r).x * (mirY r).x + (mirY r).y * (mirY r).y = r.x * r.x + r.y * r.y := by
      unfold mirY; num_real; ring
    simp only [e]
    split_ifs <;> rfl

theorem sphereGuess_mirY (R : ℝ) (r : Ray ℝ) : sphereGuess R (mirY r) = mirPY (sphereGuess R r) := by
  simp only [sphereGuess, mirY, mirPY]
  num_real
  have e1 : -r.M * -r.M = r.M * r.M := by ring
  have e2 : 2 * -r.M * -r.y = 2 * r.M * r.y := by ring
  have e3 : -r.y * -r.y = r.y * r.y := by ring
  simp only [e1, e2, e3, Prod.mk.injEq, and_true, true_and]
  ring

theorem nrStep_mirY (g : Geom ℝ) (hsag : ∀ x y, g.nrSag x (-y) = g.nrSag x y) (p : ℝ × ℝ × ℝ) (r : Ray ℝ) :
    nrStep g (mirPY p) (mirY r) = (mirPY (nrStep g p r).1, (nrStep g p r).2) := by
  simp only [nrStep, mirPY, mirY, hsag, Prod.mk.injEq, and_true, true_and]
  ring

theorem nrSweep_mirY (g : Geom ℝ) (hsag : ∀ x y, g.nrSag x (-y) = g.nrSag x y)
    (rays : List (Ray ℝ)) (pts : List (ℝ × ℝ × ℝ)) :
    nrSweep g (rays.map mirY) (pts.map mirPY) =
      ((nrSweep g rays pts).1.map mirPY, (nrSweep g rays pts).2) := by
  have hstep : (List.map (Prod.map mirPY mirY) (pts.zip rays)).map (fun pr => nrStep g pr.1 pr.2) =
      ((pts.zip rays).map (fun pr => nrStep g pr.1 pr.2)).map (fun q => (mirPY q.1, q.2)) := by
    rw [List.map_map, List.map_map]
    apply List.map_congr_left
    intro pr _
    exact nrStep_mirY g hsag pr.1 pr.2
  rw [nrSweep_eq, nrSweep_eq, List.zip_map, hstep]
  simp only [List.map_map, Function.comp_def]

theorem nrLoop_mirY (g : Geom ℝ) (hsag : ∀ x y, g.nrSag x (-y) = g.nrSag x y)
    (rays : List (Ray ℝ)) (tol : ℝ) (n : ℕ) (pts : List (ℝ × ℝ × ℝ)) :
    nrLoop g (rays.map mirY) tol n (pts.map mirPY) = (nrLoop g rays tol n pts).map mirPY := by
  induction n generalizing pts with
  | zero => rfl
  | succ n ih =>
    simp only [nrLoop, nrSweep_mirY g hsag]
    split_ifs
    · rfl
    · exact ih _

theorem nrDistance_mirY (g : Geom ℝ) (hsag : ∀ x y, g.nrSag x (-y) = g.nrSag x y)
    (R tol : ℝ) (mi : ℕ) (rays : List (Ray ℝ)) :
    nrDistance g R tol mi (rays.map mirY) = nrDistance g R tol mi rays := by
  simp only [nrDistance]
  have e : (rays.map mirY).map (sphereGuess R) = (rays.map (sphereGuess R)).map mirPY := by
    rw [List.map_map, List.map_map]
    apply List.map_congr_left
    intro r _
    exact sphereGuess_mirY R r
  rw [e, nrLoop_mirY g hsag, List.zip_map, List.map_map]
  apply List.map_congr_left
  intro pr _
  simp only [Function.comp, Prod.map, mirPY, mirY]
  num_real
  congr 1
  ring

theorem conicSag_mirY (R k x y : ℝ) : conicSag R k x (-y) = conicSag R k x y := by
  unfold conicSag
  num_real
  simp only [neg_mul_neg]

theorem asphSag_mirY (R k : ℝ) (c : List ℝ) (x y : ℝ) : asphSag R k c x (-y) = asphSag R k c x y := by
  unfold asphSag
  rw [conicSag_mirY]
  num_real
  simp only [neg_mul_neg]

theorem conicSlope_mirY (R k x y : ℝ) :
    conicSlope R k x (-y) = ((conicSlope R k x y).1, -(conicSlope R k x y).2) := by
  unfold conicSlope
  num_real
  simp only [neg_mul_neg, Prod.mk.injEq, true_and]
  ring

theorem nrNormalize_neg2 (a b : ℝ) :
    nrNormalize a (-b) = ((nrNormalize a b).1, -(nrNormalize a b).2.1, (nrNormalize a b).2.2) := by
  unfold nrNormalize
  num_real
  simp only [neg_mul_neg, Prod.mk.injEq, and_true, true_and]
  ring

theorem asphFold_mirY (x y r2 : ℝ) (l : List (ℝ × ℕ)) (a b : ℝ) :
    l.foldl (fun (d : ℝ × ℝ) (ci : ℝ × ℕ) =>
      (d.1 + 2 * (Num.ofNat (ci.2 + 1) : ℝ) * x * ci.1 * ipow r2 ci.2,
       d.2 + 2 * (Num.ofNat (ci.2 + 1) : ℝ) * (-y) * ci.1 * ipow r2 ci.2)) (a, -b) =
    ((l.foldl (fun (d : ℝ × ℝ) (ci : ℝ × ℕ) =>
      (d.1 + 2 * (Num.ofNat (ci.2 + 1) : ℝ) * x * ci.1 * ipow r2 ci.2,
       d.2 + 2 * (Num.ofNat (ci.2 + 1) : ℝ) * y * ci.1 * ipow r2 ci.2)) (a, b)).1,
     -(l.foldl (fun (d : ℝ × ℝ) (ci : ℝ × ℕ) =>
      (d.1 + 2 * (Num.ofNat (ci.2 + 1) : ℝ) * x * ci.1 * ipow r2 ci.2,
       d.2 + 2 * (Num.ofNat (ci.2 + 1) : ℝ) * y * ci.1 * ipow r2 ci.2)) (a, b)).2) := by
  induction l generalizing a b with
  | nil => rfl
  | cons ci l ih =>
    simp only [List.foldl_cons]
    have e : -b + 2 * (Num.ofNat (ci.2 + 1) : ℝ) * (-y) * ci.1 * ipow r2 ci.2 =
        -(b + 2 * (Num.ofNat (ci.2 + 1) : ℝ) * y * ci.1 * ipow r2 ci.2) := by ring
    rw [e, ih]

theorem asphNormal_mirY (R k : ℝ) (c : List ℝ) (x y : ℝ) :
    asphNormal R k c x (-y) =
      ((asphNormal R k c x y).1, -(asphNormal R k c x y).2.1, (asphNormal R k c x y).2.2) := by
  unfold asphNormal
  rw [conicSlope_mirY]
  have e' : (-y * -y : ℝ) = y * y := by ring
  num_real
  simp only [e']
  have h := asphFold_mirY x y (x * x + y * y) c.zipIdx (conicSlope R k x y).1 (conicSlope R k x y).2
  rw [h, nrNormalize_neg2]

/-- what `traceSurf` needs from a geometry to be mirror symmetric in y -/
def MirSymGeomY (g : Geom ℝ) : Prop :=
  (∀ rays : List (Ray ℝ), g.distance (rays.map mirY) = g.distance rays) ∧
  (∀ (r : Ray ℝ) (nx ny nz : ℝ), g.normal r = (nx, ny, nz) → g.normal (mirY r) = (nx, -ny, nz))

theorem mirSymY_plane : MirSymGeomY (.plane : Geom ℝ) := by
  refine ⟨fun rays => ?_, fun r nx ny nz h => ?_⟩
  · simp only [Geom.distance, List.map_map]
    rfl
  · simp only [Geom.normal, Prod.mk.injEq] at h ⊢
    num_real
    obtain ⟨h1, h2, h3⟩ := h
    exact ⟨h1, by rw [← h2, neg_zero], h3⟩

theorem mirSymY_standard (R k : ℝ) : MirSymGeomY (.standard R k : Geom ℝ) := by
  refine ⟨fun rays => ?_, fun r nx ny nz h => ?_⟩
  · simp only [Geom.distance, List.map_map]
    apply List.map_congr_left
    intro r _
    exact stdDistance_mirY R k r
  · simp only [Geom.normal] at h ⊢
    rw [show (mirY r).x = r.x from rfl, show (mirY r).y = -r.y from rfl, stdNormal_mirY, h]

theorem mirSymY_evenAsphere (R k tol : ℝ) (mi : ℕ) (c : List ℝ) :
    MirSymGeomY (.evenAsphere R k tol mi c : Geom ℝ) := by
  refine ⟨fun rays => ?_, fun r nx ny nz h => ?_⟩
  · simp only [Geom.distance]
    exact nrDistance_mirY (.evenAsphere R k tol mi c) (fun x y => asphSag_mirY R k c x y) R tol mi rays
  · simp only [Geom.normal] at h ⊢
    rw [show (mirY r).x = r.x from rfl, show (mirY r).y = -r.y from rfl, asphNormal_mirY, h]

theorem interact_mirY_sym (s : RSurf ℝ) (hg : MirSymGeomY s.geom) (r : Ray ℝ) :
    interact s (mirY r) = mirY (interact s r) := by
  obtain ⟨kind, cs, geom, n1, n2, k1, refl, ap, coat⟩ := s
  simp only at hg
  rcases hn : geom.normal r with ⟨nx, ny, nz⟩
  have hm := hg.2 r nx ny nz hn
  cases kind <;> cases refl <;> rcases coat with _ | ⟨T, Rc⟩ <;>
    simp only [interact, hn, hm, refract_mirY, reflect_mirY, Bool.false_eq_true, if_false, if_true] <;> rfl

theorem surfStep_mirY_sym (s : RSurf ℝ) (w : ℝ) (hy : s.cs.y = 0) (hrx : s.cs.rx = 0) (hrz : s.cs.rz = 0)
    (hg : MirSymGeomY s.geom) (r : Ray ℝ) (t : ℝ) :
    surfStep s w (mirY r) t = mirY (surfStep s w r t) := by
  unfold surfStep
  rw [propagate_mirY]
  have e : ∀ q : Ray ℝ, ({ (mirY q) with opd := (mirY q).opd + Num.abs (t * s.n1) } : Ray ℝ) =
      mirY { q with opd := q.opd + Num.abs (t * s.n1) } := fun _ => rfl
  rw [e, clip_mirY, interact_mirY_sym s hg, globalize_mirY _ hy hrx hrz]

theorem traceSurf_mirY_sym (s : RSurf ℝ) (w : ℝ) (hy : s.cs.y = 0) (hrx : s.cs.rx = 0) (hrz : s.cs.rz = 0)
    (hg : MirSymGeomY s.geom) (rays : List (Ray ℝ)) :
    traceSurf s w (rays.map mirY) = (traceSurf s w rays).map mirY := by
  by_cases hk : s.kind = .object
  · rw [traceSurf_object _ _ _ hk, traceSurf_object _ _ _ hk]
  · rw [traceSurf_eq_zip _ _ _ hk, traceSurf_eq_zip _ _ _ hk]
    have e : (rays.map mirY).map s.cs.localize = (rays.map s.cs.localize).map mirY := by
      rw [List.map_map, List.map_map]
      apply List.map_congr_left
      intro r _
      exact localize_mirY _ hy hrx hrz r
    rw [e, hg.1, List.zip_map_left, List.map_map, List.map_map]
    apply List.map_congr_left
    intro rt _
    exact surfStep_mirY_sym s w hy hrx hrz hg rt.1 rt.2

/-- **mirror_trace in y, one surface**: no decentre in y, no tilt about x and z (`ry` arbitrary);
plane, standard conic or even asphere; any radial aperture, coating, kind. -/
theorem traceSurf_mirY (s : RSurf ℝ) (w : ℝ) (hy : s.cs.y = 0) (hrx : s.cs.rx = 0) (hrz : s.cs.rz = 0)
    (hg : s.geom = .plane ∨ (∃ R k, s.geom = .standard R k) ∨
      ∃ R k tol mi c, s.geom = .evenAsphere R k tol mi c) (rays : List (Ray ℝ)) :
    traceSurf s w (rays.map mirY) = (traceSurf s w rays).map mirY := by
  apply traceSurf_mirY_sym s w hy hrx hrz
  rcases hg with h | ⟨R, k, h⟩ | ⟨R, k, tol, mi, c, h⟩ <;> rw [h]
  · exact mirSymY_plane
  · exact mirSymY_standard R k
  · exact mirSymY_evenAsphere R k tol mi c

/-- **mirror_trace in y, whole lens** -/
theorem traceLens_mirY (w : ℝ) (ss : List (RSurf ℝ))
    (h : ∀ s ∈ ss, s.cs.y = 0 ∧ s.cs.rx = 0 ∧ s.cs.rz = 0 ∧
      (s.geom = .plane ∨ (∃ R k, s.geom = .standard R k) ∨
        ∃ R k tol mi c, s.geom = .evenAsphere R k tol mi c)) (rays : List (Ray ℝ)) :
    traceLens w ss (rays.map mirY) = (traceLens w ss rays).map (List.map mirY) := by
  apply traceLens_equivariant mirY w w ss ss
  rw [List.forall₂_same]
  intro s hs rays
  obtain ⟨hy, hrx, hrz, hg⟩ := h s hs
  exact traceSurf_mirY s w hy hrx hrz hg rays

noncomputable def exAsphereY : RSurf ℝ :=
  { kind := .standard, cs := ⟨0.4, 0, 1, 0, 0.07, 0⟩, geom := .evenAsphere 30 (-1) 1e-10 100 [1e-4, -2e-7],
    n1 := 1, n2 := 1.5, k1 := 0, refl := false, aperture := some (8, 0), coating := none }

example (w : ℝ) (rays : List (Ray ℝ)) :
    traceLens w [exAsphereY, exSphere, exImage] (rays.map mirY) =
      (traceLens w [exAsphereY, exSphere, exImage] rays).map (List.map mirY) := by
  apply traceLens_mirY
  intro s hs
  simp only [List.mem_cons, List.not_mem_nil, or_false] at hs
  rcases hs with h | h | h <;> subst h
  · exact ⟨rfl, rfl, rfl, Or.inr (Or.inr ⟨_, _, _, _, _, rfl⟩)⟩
  · exact ⟨rfl, rfl, rfl, Or.inr (Or.inl ⟨_, _, rfl⟩)⟩
  · exact ⟨rfl, rfl, rfl, Or.inl rfl⟩
