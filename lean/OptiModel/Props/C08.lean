import OptiModel.Model.Aberr
import OptiModel.Model.Presc
import OptiModel.Props.C04
import OptiModel.Proofs.Aberr
import OptiModel.Proofs.AberrExt
import OptiModel.Proofs.NumReal
import Mathlib.Tactic.FieldSimp
import Mathlib.Tactic.Ring
import Mathlib.Tactic.LinearCombination
import Mathlib.Tactic.Linarith
import Mathlib.Tactic.NormNum
/-!
# C08  Seidel and first-order chromatic terms equal the classical surface formulas

Theorems about `Model/Aberr.lean` over ℝ.  `P : Pre ℝ` is what `_precalculations` stores
(any index, curvature and ray arrays); surface numbers `k` run over `1 … N-2`.

Sign convention of the library: `S_j(lib) = -Σ_k S_j,k(Welford)`; per surface
`-2 n'u'·TSC_k = -S_I,k`, `… CC_k ↔ S_II`, `TAC_k ↔ S_III`, `TPC_k ↔ S_IV`, `DC_k ↔ S_V`, and
`n'u'·TAchC_k = C_I,k`, `n'u'·TchC_k = C_II,k` (`n'`, `u'`: image space).

Mirrors are index sign reversal: the hypotheses below are stated on the arrays `P.n`, so they
hold for a reflecting surface exactly when `P.n` carries the signed indices (`precalcSpec`);
with `optic.n()` as it is (`precalcCode`) the refraction invariant fails at a mirror — this is
finding F-C08-2.  The colour theorems are about `tachcTerm_spec/tchcTerm_spec`; the tree's
`…_code` variants read the marginal height of the previous surface (finding F-C08-1,
`colour_code_vs_spec`).
-/
namespace C08
open Model Model.Classical

/-! ### hypotheses -/

/-- system-level guards: Lagrange invariant, image-space index and final marginal slope non-zero -/
structure SysOK (P : Pre ℝ) : Prop where
  hH : P.inv ≠ 0
  hnL : P.nL ≠ 0
  huL : P.uL ≠ 0

/-- what the classical derivation uses at surface `k`: non-zero indices on both sides, the
refraction (or, with `n' = -n`, reflection) invariant `n'(u'+yc) = n(u+yc)` of the marginal and of
the chief ray, and the Lagrange invariant `H = n'(ȳu' − yū')` behind the surface -/
structure SurfOK (P : Pre ℝ) (k : ℕ) : Prop where
  hn : nth P.n (k - 1) ≠ 0
  hn' : nth P.n k ≠ 0
  refrM : nth P.n k * (nth P.ua k + nth P.ya k * nth P.C k)
            = nth P.n (k - 1) * (nth P.ua (k - 1) + nth P.ya k * nth P.C k)
  refrC : nth P.n k * (nth P.ub k + nth P.yb k * nth P.C k)
            = nth P.n (k - 1) * (nth P.ub (k - 1) + nth P.yb k * nth P.C k)
  lagr : P.inv = nth P.n k * (nth P.yb k * nth P.ua k - nth P.ya k * nth P.ub k)

/-- Welford's second form of the distortion contribution: pupil coma plus `H Δ(ū²)`;
unlike `SV = (Ā/A)(S_III + S_IV)` it needs no division by `A` -/
noncomputable def SVp (L : Loc ℝ) : ℝ :=
  -(A L * Ab L * L.yb * (L.ub' / L.n' - L.ub / L.n)) + L.H * (L.ub' * L.ub' - L.ub * L.ub)

/-- the two classical forms of the distortion contribution agree (specification-internal) -/
theorem sv_forms_agree (L : Loc ℝ) (hn : L.n ≠ 0) (hn' : L.n' ≠ 0) (hA : A L ≠ 0)
    (hR : L.n' * (L.u' + L.y * L.c) = L.n * (L.u + L.y * L.c))
    (hRc : L.n' * (L.ub' + L.yb * L.c) = L.n * (L.ub + L.yb * L.c))
    (hI : L.H = L.n' * (L.yb * L.u' - L.y * L.ub')) : SV L = SVp L := by
  obtain ⟨n, n', c, y, u, u', yb, ub, ub', dn, dn', H⟩ := L
  simp only [SV, SVp, SIII, SIV, A, Ab, dUN, dInvN] at *
  num_real
  have h1 := slope_after hn' hR
  have h2 := slope_after hn' hRc
  subst h1
  subst h2
  subst hI
  rw [div_mul_eq_mul_div, div_eq_iff hA]
  field_simp
  ring

/-! ### terms_eq_classical -/

section terms
variable (P : Pre ℝ) (k : ℕ)

theorem tsc_eq_classical (G : SysOK P) (h : SurfOK P k) :
    -2 * P.nL * P.uL * P.tscTerm k = - SI (P.loc k) := by
  obtain ⟨hH, hnL, huL⟩ := G
  obtain ⟨hn, hn', hR, -, -⟩ := h
  simp only [Pre.tscTerm, B_eq P k hn' hH, Pre.hp, Pre.i, Model.sq, SI, A, dUN, Pre.loc]
  num_real
  generalize nth P.n (k - 1) = n at *
  generalize nth P.n k = n' at *
  generalize nth P.ua (k - 1) = u at *
  generalize nth P.ua k = u' at *
  generalize nth P.ya k = y at *
  generalize nth P.C k = c at *
  generalize P.nL = nL at *
  generalize P.uL = uL at *
  generalize P.inv = H at *
  have := slope_after hn' hR
  subst this
  field_simp
  ring

theorem cc_eq_classical (G : SysOK P) (h : SurfOK P k) :
    -2 * P.nL * P.uL * P.ccTerm k = - SII (P.loc k) := by
  obtain ⟨hH, hnL, huL⟩ := G
  obtain ⟨hn, hn', hR, -, -⟩ := h
  simp only [Pre.ccTerm, B_eq P k hn' hH, Pre.hp, Pre.i, Pre.ip, SII, A, Ab, dUN, Pre.loc]
  num_real
  generalize nth P.n (k - 1) = n at *
  generalize nth P.n k = n' at *
  generalize nth P.ua (k - 1) = u at *
  generalize nth P.ua k = u' at *
  generalize nth P.ub (k - 1) = ub at *
  generalize nth P.ya k = y at *
  generalize nth P.yb k = yb at *
  generalize nth P.C k = c at *
  generalize P.nL = nL at *
  generalize P.uL = uL at *
  generalize P.inv = H at *
  have := slope_after hn' hR
  subst this
  field_simp
  ring

theorem tac_eq_classical (G : SysOK P) (h : SurfOK P k) :
    -2 * P.nL * P.uL * P.tacTerm k = - SIII (P.loc k) := by
  obtain ⟨hH, hnL, huL⟩ := G
  obtain ⟨hn, hn', hR, -, -⟩ := h
  simp only [Pre.tacTerm, B_eq P k hn' hH, Pre.hp, Pre.i, Pre.ip, Model.sq, SIII, Ab, dUN, Pre.loc]
  num_real
  generalize nth P.n (k - 1) = n at *
  generalize nth P.n k = n' at *
  generalize nth P.ua (k - 1) = u at *
  generalize nth P.ua k = u' at *
  generalize nth P.ub (k - 1) = ub at *
  generalize nth P.ya k = y at *
  generalize nth P.yb k = yb at *
  generalize nth P.C k = c at *
  generalize P.nL = nL at *
  generalize P.uL = uL at *
  generalize P.inv = H at *
  have := slope_after hn' hR
  subst this
  field_simp
  ring

/-- Petzval: needs neither the ray data nor `H ≠ 0` -/
theorem tpc_eq_classical (hnL : P.nL ≠ 0) (huL : P.uL ≠ 0) (hn : nth P.n (k - 1) ≠ 0)
    (hn' : nth P.n k ≠ 0) :
    -2 * P.nL * P.uL * P.tpcTerm k = - SIV (P.loc k) := by
  simp only [Pre.tpcTerm, Pre.hp, SIV, dInvN, Pre.loc]
  num_real
  field_simp
  ring

/-- distortion, division-free classical form -/
theorem dc_eq_classical_pupil (G : SysOK P) (h : SurfOK P k) :
    -2 * P.nL * P.uL * P.dcTerm k = - SVp (P.loc k) := by
  obtain ⟨hH, hnL, huL⟩ := G
  obtain ⟨hn, hn', -, hRc, -⟩ := h
  simp only [Pre.dcTerm, Bp_eq P k hn' hH, Pre.hp, Pre.i, Pre.ip, Model.sq, half_eq, SVp, A, Ab, Pre.loc]
  num_real
  generalize nth P.n (k - 1) = n at *
  generalize nth P.n k = n' at *
  generalize nth P.ua (k - 1) = u at *
  generalize nth P.ub (k - 1) = ub at *
  generalize nth P.ub k = ub' at *
  generalize nth P.ya k = y at *
  generalize nth P.yb k = yb at *
  generalize nth P.C k = c at *
  generalize P.nL = nL at *
  generalize P.uL = uL at *
  generalize P.inv = H at *
  have h2 := slope_after hn' hRc
  subst h2
  field_simp
  ring

/-- distortion, `S_V = (Ā/A)(S_III + S_IV)` (needs `A ≠ 0`) -/
theorem dc_eq_classical (G : SysOK P) (h : SurfOK P k) (hA : A (P.loc k) ≠ 0) :
    -2 * P.nL * P.uL * P.dcTerm k = - SV (P.loc k) := by
  rw [dc_eq_classical_pupil P k G h, sv_forms_agree (P.loc k) h.hn h.hn' hA h.refrM h.refrC h.lagr]

/-- axial colour with the marginal height *at* the surface (what the property requires) -/
theorem tachc_eq_classical (hnL : P.nL ≠ 0) (huL : P.uL ≠ 0) (hn : nth P.n (k - 1) ≠ 0)
    (hn' : nth P.n k ≠ 0) :
    P.nL * P.uL * P.tachcTerm_spec k = CI (P.loc k) := by
  simp only [Pre.tachcTerm_spec, Pre.dnFac, Pre.i, CI, A, dDisp, Pre.loc]
  num_real
  field_simp
  ring

theorem tchc_eq_classical (hnL : P.nL ≠ 0) (huL : P.uL ≠ 0) (hn : nth P.n (k - 1) ≠ 0)
    (hn' : nth P.n k ≠ 0) :
    P.nL * P.uL * P.tchcTerm_spec k = CII (P.loc k) := by
  simp only [Pre.tchcTerm_spec, Pre.dnFac, Pre.ip, CII, Ab, dDisp, Pre.loc]
  num_real
  field_simp
  ring

/-- **terms_eq_classical**: every per-surface transverse term, times the library's normalisation
`-2 n'u'` (colour: `n'u'`), is the classical surface contribution in the library's sign
convention (`-S_j` of Welford; `+C_I`, `+C_II`). -/
theorem terms_eq_classical (G : SysOK P) (h : SurfOK P k) :
    -2 * P.nL * P.uL * P.tscTerm k = - SI (P.loc k) ∧
    -2 * P.nL * P.uL * P.ccTerm k = - SII (P.loc k) ∧
    -2 * P.nL * P.uL * P.tacTerm k = - SIII (P.loc k) ∧
    -2 * P.nL * P.uL * P.tpcTerm k = - SIV (P.loc k) ∧
    -2 * P.nL * P.uL * P.dcTerm k = - SVp (P.loc k) ∧
    (A (P.loc k) ≠ 0 → -2 * P.nL * P.uL * P.dcTerm k = - SV (P.loc k)) ∧
    P.nL * P.uL * P.tachcTerm_spec k = CI (P.loc k) ∧
    P.nL * P.uL * P.tchcTerm_spec k = CII (P.loc k) :=
  ⟨tsc_eq_classical P k G h, cc_eq_classical P k G h, tac_eq_classical P k G h,
   tpc_eq_classical P k G.hnL G.huL h.hn h.hn', dc_eq_classical_pupil P k G h,
   dc_eq_classical P k G h, tachc_eq_classical P k G.hnL G.huL h.hn h.hn',
   tchc_eq_classical P k G.hnL G.huL h.hn h.hn'⟩

/-- F-C08-1 made precise: the tree's colour terms are the classical ones with the marginal
height of the previous surface; they agree with the specification exactly when
`(y_{k-1} − y_k)·i_k·(dispersion factor) = 0` (resp. `ī_k`). -/
theorem colour_code_vs_spec (hnL : P.nL ≠ 0) (huL : P.uL ≠ 0) :
    (P.tachcTerm_code k = P.tachcTerm_spec k ↔
      (nth P.ya (k - 1) - nth P.ya k) * P.i k * P.dnFac k = 0) ∧
    (P.tchcTerm_code k = P.tchcTerm_spec k ↔
      (nth P.ya (k - 1) - nth P.ya k) * P.ip k * P.dnFac k = 0) := by
  simp only [Pre.tachcTerm_code, Pre.tachcTerm_spec, Pre.tchcTerm_code, Pre.tchcTerm_spec]
  num_real
  have hd : P.nL * P.uL ≠ 0 := mul_ne_zero hnL huL
  constructor
  · rw [div_mul_eq_mul_div, div_mul_eq_mul_div, div_left_inj' hd]
    constructor <;> intro h <;> linarith
  · rw [div_mul_eq_mul_div, div_mul_eq_mul_div, div_left_inj' hd]
    constructor <;> intro h <;> linarith

end terms

/-! ### sums_are_sums -/

/-- **sums_are_sums**: each Seidel coefficient is `-2 n'u'` times the sum of its surface terms;
the operand `…_sum` wrappers are the plain sums. -/
theorem sums_are_sums (P : Pre ℝ) :
    P.seidels = [-2 * P.nL * P.uL * P.TSC.sum, -2 * P.nL * P.uL * P.CC.sum, -2 * P.nL * P.uL * P.TAC.sum,
                 -2 * P.nL * P.uL * P.TPC.sum, -2 * P.nL * P.uL * P.DC.sum] ∧
    ∀ l : List ℝ, opSum l = l.sum := by
  constructor
  · simp only [Pre.seidels, Pre.sumSeidels, seidelOf_eq]
  · intro l; exact pysum_eq l

/-- the Seidel coefficients are minus the sums of the classical (Welford) contributions, when
the classical hypotheses hold at every surface `1 … N-2` -/
theorem seidels_eq_classical_sums (P : Pre ℝ) (G : SysOK P)
    (h : ∀ k, 1 ≤ k → k ≤ P.N - 2 → SurfOK P k) :
    P.seidels = [(P.arr fun k => - SI (P.loc k)).sum, (P.arr fun k => - SII (P.loc k)).sum,
                 (P.arr fun k => - SIII (P.loc k)).sum, (P.arr fun k => - SIV (P.loc k)).sum,
                 (P.arr fun k => - SVp (P.loc k)).sum] := by
  rw [(sums_are_sums P).1]
  simp only [Pre.TSC, Pre.CC, Pre.TAC, Pre.TPC, Pre.DC]
  rw [sum_arr P _ _ _ fun k h1 h2 => tsc_eq_classical P k G (h k h1 h2),
      sum_arr P _ _ _ fun k h1 h2 => cc_eq_classical P k G (h k h1 h2),
      sum_arr P _ _ _ fun k h1 h2 => tac_eq_classical P k G (h k h1 h2),
      sum_arr P _ _ _ fun k h1 h2 => tpc_eq_classical P k G.hnL G.huL (h k h1 h2).hn (h k h1 h2).hn',
      sum_arr P _ _ _ fun k h1 h2 => dc_eq_classical_pupil P k G (h k h1 h2)]

/-! ### accessors_agree, tcc_eq_3cc, longitudinal_eq -/

/-- **accessors_agree**: every accessor returns the matching component of `third_order()` and
`seidels()` returns its `S` -/
theorem accessors_agree (P : Pre ℝ) (spec : Bool) :
    let t := P.thirdOrder spec
    t.TSC = P.TSC ∧ t.SC = P.SC ∧ t.CC = P.CC ∧ t.TCC = P.TCC ∧ t.TAC = P.TAC ∧ t.AC = P.AC ∧
    t.TPC = P.TPC ∧ t.PC = P.PC ∧ t.DC = P.DC ∧ t.TAchC = P.TAchC spec ∧ t.LchC = P.LchC spec ∧
    t.TchC = P.TchC spec ∧ t.S = P.seidels := by
  simp only [Pre.thirdOrder, Pre.TSC, Pre.SC, Pre.CC, Pre.TCC, Pre.TAC, Pre.AC, Pre.TPC, Pre.PC, Pre.DC,
    Pre.TAchC, Pre.LchC, Pre.TchC, Pre.seidels, Pre.arr, List.map_map, Function.comp_def, and_self]

/-- the operand wrappers return entry `k` of the accessor array, i.e. (library convention) the
term of surface `k+1`; `seidels(optic, j)` returns `S[j-1]` -/
theorem operand_index (P : Pre ℝ) (f : ℕ → ℝ) (k j : ℕ) (hk : k < P.N - 2) :
    opAt (P.arr f) k = f (k + 1) ∧ opSeidel P j = nth P.seidels (j - 1) := by
  refine ⟨?_, rfl⟩
  simp [opAt, nth, Pre.arr, List.getD_eq_getElem?_getD, hk]

/-- **tcc_eq_3cc** -/
theorem tcc_eq_3cc (P : Pre ℝ) : P.TCC = P.CC.map fun x => 3 * x := by
  unfold Pre.TCC
  apply List.map_congr_left
  intro x _
  rw [three_eq]
  num_real
  ring

/-- **longitudinal_eq**: `SC = -TSC/u'`, `AC = -TAC/u'`, `PC = -TPC/u'`, `LchC = -TAchC/u'`
element-wise (`u'` the final marginal slope) -/
theorem longitudinal_eq (P : Pre ℝ) (spec : Bool) :
    P.SC = P.TSC.map (fun t => -t / P.uL) ∧ P.AC = P.TAC.map (fun t => -t / P.uL) ∧
    P.PC = P.TPC.map (fun t => -t / P.uL) ∧ P.LchC spec = (P.TAchC spec).map (fun t => -t / P.uL) := by
  simp only [Pre.SC, Pre.TSC, Pre.AC, Pre.TAC, Pre.PC, Pre.TPC, Pre.LchC, Pre.TAchC, Pre.arr, List.map_map,
    Function.comp_def, Pre.longi]
  num_real
  simp only [and_self]

/-! ### stop_shift_invariance -/

/-- the spherical term does not see the chief ray at all: `inv` cancels between `B` and `hp` -/
theorem tsc_indep (P : Pre ℝ) (k : ℕ) (hn' : nth P.n k ≠ 0) (hH : P.inv ≠ 0) :
    P.tscTerm k = nth P.n (k - 1) * (nth P.n k - nth P.n (k - 1)) * nth P.ya k * (nth P.ua k + P.i k)
                    * (P.i k * P.i k) / (2 * nth P.n k * (P.nL * P.uL)) := by
  simp only [Pre.tscTerm, B_eq P k hn' hH, Pre.hp, Model.sq]
  num_real
  field_simp

/-- the Petzval term sees the chief ray only through `inv²` -/
theorem tpc_indep (P : Pre ℝ) (k : ℕ) :
    P.tpcTerm k = (nth P.n k - nth P.n (k - 1)) * nth P.C k * (P.inv * P.inv)
                    / (P.nL * P.uL) / (2 * nth P.n k * nth P.n (k - 1)) := by
  simp only [Pre.tpcTerm, Pre.hp]
  num_real
  ring

/-- **stop_shift_invariance**: two precalculations over the same surfaces (indices, curvatures)
and the same marginal ray, with *any* two chief rays: the spherical terms coincide as soon as both
Lagrange invariants are non-zero, the Petzval terms coincide when the invariants are equal (or
opposite); hence `S_I` and `S_IV` coincide.  Moving the stop changes only the chief ray. -/
theorem stop_shift_invariance (P Q : Pre ℝ) (hn : P.n = Q.n) (hN : P.N = Q.N) (hC : P.C = Q.C)
    (hya : P.ya = Q.ya) (hua : P.ua = Q.ua) (hP : P.inv ≠ 0) (hQ : Q.inv ≠ 0)
    (hk : ∀ k, 1 ≤ k → k ≤ P.N - 2 → nth P.n k ≠ 0) :
    P.TSC = Q.TSC ∧ nth P.seidels 0 = nth Q.seidels 0 ∧
    (P.inv * P.inv = Q.inv * Q.inv → P.TPC = Q.TPC ∧ nth P.seidels 3 = nth Q.seidels 3) := by
  have hnL : P.nL = Q.nL := by unfold Pre.nL; rw [hn]
  have huL : P.uL = Q.uL := by unfold Pre.uL; rw [hua]
  have hi : ∀ k, P.i k = Q.i k := by intro k; unfold Pre.i; rw [hC, hya, hua]
  have h1 : P.TSC = Q.TSC := by
    unfold Pre.TSC Pre.arr
    rw [← hN]
    apply List.map_congr_left
    intro j hj
    have hj' : j < P.N - 2 := List.mem_range.1 hj
    have hk' := hk (j + 1) (by omega) (by omega)
    rw [tsc_indep P (j + 1) hk' hP, tsc_indep Q (j + 1) (hn ▸ hk') hQ, hi, hn, hya, hua, hnL, huL]
  refine ⟨h1, ?_, ?_⟩
  · simp only [Pre.seidels, Pre.sumSeidels, nth, List.getD_cons_zero, seidelOf_eq]
    rw [h1, hnL, huL]
  · intro hI
    have h3 : P.TPC = Q.TPC := by
      unfold Pre.TPC Pre.arr
      rw [← hN]
      apply List.map_congr_left
      intro j _
      rw [tpc_indep P (j + 1), tpc_indep Q (j + 1), hI, hn, hC, hnL, huL]
    refine ⟨h3, ?_⟩
    simp only [Pre.seidels, Pre.sumSeidels, nth, List.getD_cons_succ, List.getD_cons_zero, seidelOf_eq]
    rw [h3, hnL, huL]

/-- the same statement for the tree's `_precalculations` of two systems (e.g. the same lens with
the stop on another surface): same index and curvature arrays, same marginal ray, same
Lagrange invariant ⇒ same `S_I` and `S_IV`.
Conditional: that moving the stop leaves the marginal ray (`hm`) and the Lagrange invariant (`hI`) unchanged
is *assumed* here, not derived from "same lens, other stop surface" (it holds for an infinite object with an
EPD aperture and an angular field; for a finite object the model's marginal ray is launched towards the
entrance pupil and does change with the stop).  The harness checks `hI` numerically before it compares. -/
theorem stop_shift_invariance_sys (S S' : PSys ℝ) (nF nC nF' nC' : List ℝ)
    (hn : nList S = nList S') (hlen : S.surfs.length = S'.surfs.length)
    (hC : curvatures S.surfs = curvatures S'.surfs) (hm : marginalRay S = marginalRay S')
    (hI : invariant S = invariant S') (hH : invariant S ≠ 0)
    (hk : ∀ k, 1 ≤ k → k ≤ S.surfs.length - 2 → nth (nList S) k ≠ 0) :
    nth (precalcCode S nF nC).seidels 0 = nth (precalcCode S' nF' nC').seidels 0 ∧
    nth (precalcCode S nF nC).seidels 3 = nth (precalcCode S' nF' nC').seidels 3 := by
  have h := stop_shift_invariance (precalcCode S nF nC) (precalcCode S' nF' nC') hn hlen hC
    (by simp only [precalcCode, hm]) (by simp only [precalcCode, hm]) hH
    (by rw [← hI]; exact hH : invariant S' ≠ 0) hk
  exact ⟨h.2.1, (h.2.2 (by simp only [precalcCode, hI])).2⟩

/-! ### the model's rays satisfy the classical hypotheses (index bookkeeping over the trace) -/

/-- well-formed sequential system: object surface first, ordinary surfaces `1 … N-2`, no
decentres, non-zero indices, media chained (a mirror keeps its index) -/
structure WFsys (ss : List (PSurf ℝ)) (n0 : ℝ) : Prop where
  wf : ∀ s ∈ ss, s.dy = 0 ∧ s.n2 ≠ 0
  chained : C04.Chained n0 ss
  std : ∀ k, 1 ≤ k → k ≤ ss.length - 2 → (ss.getD k dS).kind = .standard

/-- `_precalculations` with signed indices for two arbitrary traced rays -/
noncomputable def preOf (ss : List (PSurf ℝ)) (ra rb : PRay ℝ) (dn : List ℝ) : Pre ℝ :=
  let a := ptrace ra ss
  let b := ptrace rb ss
  let n := mulLists (sigmas 1 ss) (ss.map (·.n2))
  { inv := nth (ys b) 1 * nth n 1 * nth (us a) 1 - nth (ys a) 1 * nth n 1 * nth (us b) 1,
    n := n, N := ss.length, C := curvatures ss,
    ya := ys a, ua := us a, yb := ys b, ub := us b, dn := dn }

theorem lagrange_at (ss : List (PSurf ℝ)) (n0 : ℝ) (ra rb : PRay ℝ) (W : WFsys ss n0) :
    ∀ k, 1 ≤ k → k ≤ ss.length - 2 →
      C04.lag (nth (sigmas 1 ss) k) (ss.getD k dS).n2 ((ptrace ra ss).getD k dR) ((ptrace rb ss).getD k dR)
        = C04.lag (nth (sigmas 1 ss) 1) (ss.getD 1 dS).n2 ((ptrace ra ss).getD 1 dR) ((ptrace rb ss).getD 1 dR)
      ∧ ((ptrace ra ss).getD k dR).z = ((ptrace rb ss).getD k dR).z := by
  intro k hk1
  induction k, hk1 using Nat.le_induction with
  | base =>
    intro h
    refine ⟨rfl, ?_⟩
    have h1 : 0 + 1 < ss.length := by omega
    have hs := W.wf _ (getD_mem ss 1 h1)
    have hstd := W.std 1 (le_refl 1) h
    have hc := chained_getD ss n0 0 W.chained h1
    rw [ptrace_getD_succ ss ra 0 h1, ptrace_getD_succ ss rb 0 h1]
    rw [(refr_step _ _ 1 hs.1 hstd hs.2 (fun hr => hc.2 (Or.inr hr))).1,
        (refr_step _ _ 1 hs.1 hstd hs.2 (fun hr => hc.2 (Or.inr hr))).1]
  | succ k hk ih =>
    intro h
    have ihk := ih (by omega)
    have h1 : k + 1 < ss.length := by omega
    have hs := W.wf _ (getD_mem ss (k + 1) h1)
    have hc := chained_getD ss n0 k W.chained h1
    have hl := C04.pstep_lagrange ((ptrace ra ss).getD k dR) ((ptrace rb ss).getD k dR) (ss.getD (k + 1) dS)
      (nth (sigmas 1 ss) k) ihk.2 hs.1 hs.2 hc.2
    rw [ptrace_getD_succ ss ra k h1, ptrace_getD_succ ss rb k h1, sigmas_getD_succ ss 1 k h1,
      flipS_eq_sgnIdx]
    refine ⟨?_, hl.2⟩
    rw [hl.1, hc.1]
    exact ihk.1

/-- **model_satisfies_classical_hypotheses**: for every well-formed system and any two traced
paraxial rays, the arrays of `_precalculations` with signed indices satisfy the refraction
invariants and the Lagrange invariant at every surface `1 … N-2` -/
theorem surfOK_of_trace (ss : List (PSurf ℝ)) (n0 : ℝ) (ra rb : PRay ℝ) (dn : List ℝ) (W : WFsys ss n0)
    (k : ℕ) (hk1 : 1 ≤ k) (hk2 : k ≤ ss.length - 2) : SurfOK (preOf ss ra rb dn) k := by
  obtain ⟨j, rfl⟩ : ∃ j, k = j + 1 := ⟨k - 1, by omega⟩
  have h1 : j + 1 < ss.length := by omega
  have hs := W.wf _ (getD_mem ss (j + 1) h1)
  have hstd := W.std (j + 1) hk1 hk2
  have hc := chained_getD ss n0 j W.chained h1
  have hmir : (ss.getD (j + 1) dS).refl = true → (ss.getD (j + 1) dS).n2 = (ss.getD (j + 1) dS).n1 :=
    fun hr => hc.2 (Or.inr hr)
  have hn' : nth (mulLists (sigmas 1 ss) (ss.map (·.n2))) (j + 1)
      = flipS (nth (sigmas 1 ss) j) (ss.getD (j + 1) dS) * (ss.getD (j + 1) dS).n2 := by
    rw [signedN_getD ss 1 (j + 1) h1, sigmas_getD_succ ss 1 j h1]
  have hn : nth (mulLists (sigmas 1 ss) (ss.map (·.n2))) j
      = nth (sigmas 1 ss) j * (ss.getD (j + 1) dS).n1 := by
    rw [signedN_getD ss 1 j (by omega), hc.1]
  have hσ := sigmas_ne_zero ss 1 j one_ne_zero (by omega)
  have hsj := W.wf _ (getD_mem ss j (by omega))
  have hRa := (refr_step ((ptrace ra ss).getD j dR) _ (nth (sigmas 1 ss) j) hs.1 hstd hs.2 hmir).2
  have hRb := (refr_step ((ptrace rb ss).getD j dR) _ (nth (sigmas 1 ss) j) hs.1 hstd hs.2 hmir).2
  have hL := (lagrange_at ss n0 ra rb W (j + 1) hk1 hk2).1
  have h11 : 1 < ss.length := by omega
  refine ⟨?_, ?_, ?_, ?_, ?_⟩
  · show nth (mulLists (sigmas 1 ss) (ss.map (·.n2))) (j + 1 - 1) ≠ 0
    rw [Nat.add_sub_cancel, hn, hc.1]
    exact mul_ne_zero hσ hsj.2
  · show nth (mulLists (sigmas 1 ss) (ss.map (·.n2))) (j + 1) ≠ 0
    rw [hn']
    exact mul_ne_zero (flipS_ne_zero _ hσ) hs.2
  · show nth (mulLists (sigmas 1 ss) (ss.map (·.n2))) (j + 1) *
        (nth (us (ptrace ra ss)) (j + 1) + nth (ys (ptrace ra ss)) (j + 1) * nth (curvatures ss) (j + 1))
      = nth (mulLists (sigmas 1 ss) (ss.map (·.n2))) (j + 1 - 1) *
        (nth (us (ptrace ra ss)) (j + 1 - 1) + nth (ys (ptrace ra ss)) (j + 1) * nth (curvatures ss) (j + 1))
    rw [Nat.add_sub_cancel, hn, hn', nth_us, nth_us, nth_ys, nth_curv, ptrace_getD_succ ss ra j h1]
    exact hRa
  · show nth (mulLists (sigmas 1 ss) (ss.map (·.n2))) (j + 1) *
        (nth (us (ptrace rb ss)) (j + 1) + nth (ys (ptrace rb ss)) (j + 1) * nth (curvatures ss) (j + 1))
      = nth (mulLists (sigmas 1 ss) (ss.map (·.n2))) (j + 1 - 1) *
        (nth (us (ptrace rb ss)) (j + 1 - 1) + nth (ys (ptrace rb ss)) (j + 1) * nth (curvatures ss) (j + 1))
    rw [Nat.add_sub_cancel, hn, hn', nth_us, nth_us, nth_ys, nth_curv, ptrace_getD_succ ss rb j h1]
    exact hRb
  · show nth (ys (ptrace rb ss)) 1 * nth (mulLists (sigmas 1 ss) (ss.map (·.n2))) 1 * nth (us (ptrace ra ss)) 1
        - nth (ys (ptrace ra ss)) 1 * nth (mulLists (sigmas 1 ss) (ss.map (·.n2))) 1 * nth (us (ptrace rb ss)) 1
      = nth (mulLists (sigmas 1 ss) (ss.map (·.n2))) (j + 1) *
        (nth (ys (ptrace rb ss)) (j + 1) * nth (us (ptrace ra ss)) (j + 1)
          - nth (ys (ptrace ra ss)) (j + 1) * nth (us (ptrace rb ss)) (j + 1))
    rw [signedN_getD ss 1 1 h11, signedN_getD ss 1 (j + 1) h1]
    simp only [nth_us, nth_ys]
    unfold C04.lag at hL
    linarith [hL]

/-- `precalcSpec` is `preOf` for the model's marginal and chief rays -/
theorem precalcSpec_is_preOf (S : PSys ℝ) (nF nC : List ℝ) :
    ∃ ra rb, precalcSpec S nF nC = preOf S.surfs ra rb (mulLists (sigmas 1 S.surfs) (subLists nF nC)) := by
  obtain ⟨ra, ha⟩ := marginal_is_trace S
  obtain ⟨rb, hb⟩ := chief_is_trace S
  refine ⟨ra, rb, ?_⟩
  unfold precalcSpec preOf
  simp only [ha, hb, nList]

/-- **terms_eq_classical for the model**: for every well-formed system (any mirrors, any stop,
finite or infinite object, any aperture/field specification), with the indices signed at mirrors,
every per-surface term is the classical contribution and the five sums are the classical sums. -/
theorem model_terms_eq_classical (S : PSys ℝ) (nF nC : List ℝ) (n0 : ℝ) (W : WFsys S.surfs n0)
    (G : SysOK (precalcSpec S nF nC)) :
    let P := precalcSpec S nF nC
    (∀ k, 1 ≤ k → k ≤ S.surfs.length - 2 →
      -2 * P.nL * P.uL * P.tscTerm k = - SI (P.loc k) ∧
      -2 * P.nL * P.uL * P.ccTerm k = - SII (P.loc k) ∧
      -2 * P.nL * P.uL * P.tacTerm k = - SIII (P.loc k) ∧
      -2 * P.nL * P.uL * P.tpcTerm k = - SIV (P.loc k) ∧
      -2 * P.nL * P.uL * P.dcTerm k = - SVp (P.loc k) ∧
      (A (P.loc k) ≠ 0 → -2 * P.nL * P.uL * P.dcTerm k = - SV (P.loc k)) ∧
      P.nL * P.uL * P.tachcTerm_spec k = CI (P.loc k) ∧
      P.nL * P.uL * P.tchcTerm_spec k = CII (P.loc k)) ∧
    P.seidels = [(P.arr fun k => - SI (P.loc k)).sum, (P.arr fun k => - SII (P.loc k)).sum,
                 (P.arr fun k => - SIII (P.loc k)).sum, (P.arr fun k => - SIV (P.loc k)).sum,
                 (P.arr fun k => - SVp (P.loc k)).sum] := by
  intro P
  obtain ⟨ra, rb, hP⟩ := precalcSpec_is_preOf S nF nC
  have hN : P.N = S.surfs.length := rfl
  have hall : ∀ k, 1 ≤ k → k ≤ P.N - 2 → SurfOK P k := by
    intro k h1 h2
    show SurfOK (precalcSpec S nF nC) k
    rw [hP]
    exact surfOK_of_trace S.surfs n0 ra rb _ W k h1 (hN ▸ h2)
  exact ⟨fun k h1 h2 => terms_eq_classical P k G (hall k h1 (hN ▸ h2)), seidels_eq_classical_sums P G hall⟩

/-! the tree's own precalculation coincides with the signed one when no surface reflects -/

/-- without mirrors `_precalculations` as coded *is* the signed precalculation -/
theorem precalcCode_eq_spec (S : PSys ℝ) (nF nC : List ℝ) (hm : ∀ s ∈ S.surfs, s.refl = false)
    (hF : nF.length ≤ S.surfs.length) : precalcCode S nF nC = precalcSpec S nF nC := by
  unfold precalcCode precalcSpec
  have h1 : mulLists (sigmas 1 S.surfs) (nList S) = nList S :=
    mulLists_sigmas_one S.surfs (nList S) hm (by simp [nList])
  have h2 : mulLists (sigmas 1 S.surfs) (subLists nF nC) = subLists nF nC :=
    mulLists_sigmas_one S.surfs _ hm (by
      unfold subLists; rw [List.length_zipWith]; exact le_trans (Nat.min_le_left _ _) hF)
  simp only [h1, h2, invariant]

/-- **the tree's Seidel terms are the classical ones for every refracting (mirror-free)
well-formed system** — stated on `precalcCode`, i.e. on what the tree computes. -/
theorem code_terms_eq_classical (S : PSys ℝ) (nF nC : List ℝ) (n0 : ℝ) (W : WFsys S.surfs n0)
    (hm : ∀ s ∈ S.surfs, s.refl = false) (hF : nF.length ≤ S.surfs.length)
    (G : SysOK (precalcCode S nF nC)) :
    let P := precalcCode S nF nC
    (∀ k, 1 ≤ k → k ≤ S.surfs.length - 2 →
      -2 * P.nL * P.uL * P.tscTerm k = - SI (P.loc k) ∧
      -2 * P.nL * P.uL * P.ccTerm k = - SII (P.loc k) ∧
      -2 * P.nL * P.uL * P.tacTerm k = - SIII (P.loc k) ∧
      -2 * P.nL * P.uL * P.tpcTerm k = - SIV (P.loc k) ∧
      -2 * P.nL * P.uL * P.dcTerm k = - SVp (P.loc k)) ∧
    P.seidels = [(P.arr fun k => - SI (P.loc k)).sum, (P.arr fun k => - SII (P.loc k)).sum,
                 (P.arr fun k => - SIII (P.loc k)).sum, (P.arr fun k => - SIV (P.loc k)).sum,
                 (P.arr fun k => - SVp (P.loc k)).sum] := by
  intro P
  have hP : P = precalcSpec S nF nC := precalcCode_eq_spec S nF nC hm hF
  have h := model_terms_eq_classical S nF nC n0 W (hP ▸ G)
  rw [← hP] at h
  exact ⟨fun k h1 h2 => let t := h.1 k h1 h2; ⟨t.1, t.2.1, t.2.2.1, t.2.2.2.1, t.2.2.2.2.1⟩, h.2⟩

/-! ### tsc_predicts_real_partial and non-vacuity -/
open Filter Topology

/-- one spherical surface (radius `r`, indices `n → n'`, stop on it), object at infinity, entrance
pupil diameter `2h`, image plane at distance `t` -/
noncomputable def single (n n' r h t fld : ℝ) : PSys ℝ :=
  { surfs := [⟨.object, 0, 0, 0, n, n, false, false⟩, ⟨.standard, 0, 0, r, n, n', false, true⟩,
              ⟨.standard, 0, t, 0, n', n', false, false⟩],
    apType := .EPD, apValue := 2 * h, fieldType := .angle, maxYField := fld, objInf := true }

theorem marginal_single (n n' r h t fld : ℝ) :
    marginalRay (single n n' r h t fld) =
      [⟨h, 0, -10⟩, ⟨h, 1 / n' * (n * 0 - h * ((n' - n) / r)), 0⟩,
       ⟨h + t * (1 / n' * (n * 0 - h * ((n' - n) / r))), 1 / n' * (n' * (1 / n' * (n * 0 - h * ((n' - n) / r))) - (h + t * (1 / n' * (n * 0 - h * ((n' - n) / r)))) * ((n' - n') / 0)), t⟩] := by
  simp only [marginalRay, single, EPD, traceGeneric, posOf, if_true, Bool.false_eq_true, if_false, List.drop_zero,
    ptrace, pstep, pstepStd, List.map, List.getD_cons_succ, List.getD_cons_zero]
  num_real
  norm_num


theorem tsc_single (n n' r h t fld : ℝ) (nF nC : List ℝ) (hn' : n' ≠ 0) (hnn : n' - n ≠ 0) (hr : r ≠ 0)
    (hh : h ≠ 0) (hH : invariant (single n n' r h t fld) ≠ 0) :
    (precalcCode (single n n' r h t fld) nF nC).tscTerm 1 = -(n / n') ^ 2 * (1 / r) ^ 2 * h ^ 3 / 2 := by
  have hP : (precalcCode (single n n' r h t fld) nF nC).inv ≠ 0 := hH
  rw [tsc_indep _ 1 (by simp [precalcCode, nList, single, nth]; exact hn') hP]
  simp only [Pre.i, Pre.nL, Pre.uL, precalcCode, marginal_single]
  simp only [nList, curvatures, ys, us, nth, last, single,
    List.map, List.getD_cons_succ, List.getD_cons_zero, List.getLastD_cons, List.getLastD_nil]
  norm_num
  field_simp
  ring


/-- exact meridional trace of a ray parallel to the axis at height `h` through one spherical
surface of curvature `c` between indices `n → n'`: `sin I = c h`, Snell `n sin I = n' sin I'`,
ray slope behind the surface `tan (I' − I)`, sag `(1 − cos I)/c`; the value is the ray height in
the paraxial focal plane `z = n'/((n'−n)c)`, i.e. the real transverse spherical aberration. -/
noncomputable def realErr (n n' c h : ℝ) : ℝ :=
  let s := c * h
  let s' := n / n' * s
  let C := Real.sqrt (1 - s ^ 2)
  let C' := Real.sqrt (1 - s' ^ 2)
  h + (n' / ((n' - n) * c) - (1 - C) / c) * ((s' * C - C' * s) / (C' * C + s' * s))

/-- the two denominators of the closed form -/
noncomputable def D1 (μ a : ℝ) : ℝ :=
  (1 + Real.sqrt (1 - a ^ 2)) * (1 + Real.sqrt (1 - (μ * a) ^ 2)) - μ * a ^ 2
noncomputable def D2 (μ a : ℝ) : ℝ :=
  Real.sqrt (1 - a ^ 2) * Real.sqrt (1 - (μ * a) ^ 2) + μ * a ^ 2

/-- closed form of the real transverse error: third-order term times `4/(D1·D2)` -/
theorem realErr_closed (n n' c h : ℝ) (hn' : n' ≠ 0) (hnn : n' - n ≠ 0) (hc : c ≠ 0)
    (ha : (c * h) ^ 2 ≤ 1) (ha' : (n / n' * (c * h)) ^ 2 ≤ 1)
    (hD1 : D1 (n / n') (c * h) ≠ 0) (hD2 : D2 (n / n') (c * h) ≠ 0) :
    realErr n n' c h = (-(n / n') ^ 2 * c ^ 2 * h ^ 3 / 2) * (4 / (D1 (n / n') (c * h) * D2 (n / n') (c * h))) := by
  have hC : Real.sqrt (1 - (c * h) ^ 2) ^ 2 = 1 - (c * h) ^ 2 := Real.sq_sqrt (by linarith)
  have hC' : Real.sqrt (1 - (n / n' * (c * h)) ^ 2) ^ 2 = 1 - (n / n' * (c * h)) ^ 2 := Real.sq_sqrt (by linarith)
  have hμ : 1 - n / n' ≠ 0 := by
    intro h0; apply hnn; field_simp at h0; linarith
  have hz : n' / ((n' - n) * c) = 1 / ((1 - n / n') * c) := by
    field_simp
  have hh : h = c * h / c := by field_simp
  unfold D1 D2 at *
  have core := real_core (n / n') (c * h) c _ _ hC hC' hc hμ hD1 hD2
  unfold realErr
  simp only []
  rw [hz]
  conv_lhs => lhs; rw [hh]
  rw [core]
  generalize (1 + Real.sqrt (1 - (c * h) ^ 2)) * (1 + Real.sqrt (1 - (n / n' * (c * h)) ^ 2)) - n / n' * (c * h) ^ 2 = d1 at *
  generalize Real.sqrt (1 - (c * h) ^ 2) * Real.sqrt (1 - (n / n' * (c * h)) ^ 2) + n / n' * (c * h) ^ 2 = d2 at *
  field_simp
  ring

/-- the correction factor tends to 1 as the aperture vanishes -/
theorem ratio_tendsto_one (μ c : ℝ) :
    Tendsto (fun h : ℝ => 4 / (D1 μ (c * h) * D2 μ (c * h))) (𝓝 0) (𝓝 1) := by
  have hcont : Continuous fun h : ℝ => D1 μ (c * h) * D2 μ (c * h) := by
    unfold D1 D2; fun_prop
  have h0 : D1 μ (c * 0) * D2 μ (c * 0) = 4 := by
    unfold D1 D2; norm_num
  have ht := hcont.tendsto 0
  rw [h0] at ht
  have := Tendsto.div (tendsto_const_nhds (x := (4:ℝ))) ht (by norm_num)
  rw [show (4:ℝ) / 4 = 1 by norm_num] at this
  exact this


/-- for a small aperture both denominators are positive -/
theorem D_pos (μ a : ℝ) (hμ : 0 ≤ μ) (ha : a ^ 2 < 1) (hμa : μ * a ^ 2 < 1) :
    0 < D1 μ a ∧ 0 < D2 μ a := by
  have h1 : 0 < Real.sqrt (1 - a ^ 2) := Real.sqrt_pos.2 (by linarith)
  have h2 : 0 ≤ Real.sqrt (1 - (μ * a) ^ 2) := Real.sqrt_nonneg _
  have h3 : 0 ≤ μ * a ^ 2 := mul_nonneg hμ (sq_nonneg a)
  unfold D1 D2
  constructor
  · nlinarith [mul_nonneg h1.le h2]
  · by_cases h0 : μ * a ^ 2 = 0
    · rcases mul_eq_zero.1 h0 with hm | hm
      · subst hm; simp; exact (sq_lt_one_iff_abs_lt_one a).1 ha
      · have : a = 0 := by simpa using hm
        subst this; simp
    · have : 0 < μ * a ^ 2 := lt_of_le_of_ne h3 (Ne.symm h0)
      nlinarith [mul_nonneg h1.le h2]

/-- **tsc_predicts_real_partial**: one spherical refracting surface, object at infinity.  The
real marginal ray (exact Snell trace, `realErr`) lands in the paraxial image plane at the
third-order prediction `TSC` of the model times `4/(D1·D2)`, and that factor tends to 1 as the
aperture `h → 0`: `TSC` *is* the small-aperture limit of the real transverse error.
Partial: general lenses (several surfaces, finite objects, mirrors) are checked numerically by
the harness against the implementation's real ray tracer. -/
theorem tsc_predicts_real_partial (n n' r t fld : ℝ) (nF nC : List ℝ) (hn' : n' ≠ 0) (hnn : n' - n ≠ 0)
    (hr : r ≠ 0) :
    (∀ h : ℝ, h ≠ 0 → invariant (single n n' r h t fld) ≠ 0 → (1 / r * h) ^ 2 ≤ 1 →
        (n / n' * (1 / r * h)) ^ 2 ≤ 1 → D1 (n / n') (1 / r * h) ≠ 0 → D2 (n / n') (1 / r * h) ≠ 0 →
      realErr n n' (1 / r) h = (precalcCode (single n n' r h t fld) nF nC).tscTerm 1 *
        (4 / (D1 (n / n') (1 / r * h) * D2 (n / n') (1 / r * h)))) ∧
    Tendsto (fun h : ℝ => 4 / (D1 (n / n') (1 / r * h) * D2 (n / n') (1 / r * h))) (𝓝 0) (𝓝 1) := by
  refine ⟨?_, ratio_tendsto_one _ _⟩
  intro h hh hH ha ha' hD1 hD2
  rw [tsc_single n n' r h t fld nF nC hn' hnn hr hh hH,
    realErr_closed n n' (1 / r) h hn' hnn (one_div_ne_zero hr) ha ha' hD1 hD2]

/-- non-vacuity of the side conditions: BK7-like surface `R = 50` at height 5 -/
example : (1 / (50:ℝ) * 5) ^ 2 ≤ 1 ∧ ((1:ℝ) / (3/2) * (1 / 50 * 5)) ^ 2 ≤ 1 ∧
    D1 ((1:ℝ) / (3/2)) (1 / 50 * 5) ≠ 0 ∧ D2 ((1:ℝ) / (3/2)) (1 / 50 * 5) ≠ 0 := by
  have h := D_pos ((1:ℝ) / (3/2)) (1 / 50 * 5) (by norm_num) (by norm_num) (by norm_num)
  exact ⟨by norm_num, by norm_num, h.1.ne', h.2.ne'⟩


/-! ### review additions: joint non-vacuity of the system-level hypotheses; what the guard `H ≠ 0` excludes -/

theorem inverted_single (n n' r h t fld : ℝ) :
    inverted (single n n' r h t fld).surfs =
      [⟨.standard, 0, t - t, 0 * (-1), n', n', false, false⟩, ⟨.standard, 0, t - 0, r * (-1), n', n, false, true⟩,
       ⟨.object, 0, t - 0, 0 * (-1), n, n, false, false⟩] := by
  simp [inverted, single]

theorem stop_inverted_single (n n' r h t fld : ℝ) :
    stopIndex (inverted (single n n' r h t fld).surfs) = some 1 := by
  rw [inverted_single]; simp [stopIndex, List.findIdx?_cons]

theorem chief_single (n n' r h t fld : ℝ) :
    chiefRay (single n n' r h t fld) =
      [⟨0, Real.tan (fld * (Real.pi / 180)), 0⟩, ⟨0, n'⁻¹ * (n * Real.tan (fld * (Real.pi / 180))), 0⟩,
       ⟨t * (n'⁻¹ * (n * Real.tan (fld * (Real.pi / 180)))),
        n'⁻¹ * (n' * (n'⁻¹ * (n * Real.tan (fld * (Real.pi / 180))))), t⟩] := by
  simp only [chiefRay, stop_inverted_single, Option.getD_some, traceGeneric, if_true]
  rw [inverted_single]
  simp only [single, posOf, Bool.false_eq_true, if_false,
    ptrace, pstep, pstepStd, List.map, List.getD_cons_succ, List.getD_cons_zero, 
    List.drop, ys, us, last, tenth, deg2rad,
    List.getLastD_cons, List.getLastD_nil]
  num_real
  norm_num
/-- the Lagrange invariant of the one-surface system: `−h·n·tan θ` -/
theorem invariant_single (n n' r h t fld : ℝ) (hn' : n' ≠ 0) :
    invariant (single n n' r h t fld) = -(h * n * Real.tan (fld * (Real.pi / 180))) := by
  unfold invariant
  rw [chief_single, marginal_single]
  simp only [nList, single, ys, us, nth, List.map, List.getD_cons_succ, List.getD_cons_zero]
  num_real
  field_simp
  ring

theorem tan_deg_pos : 0 < Real.tan ((1 : ℝ) * (Real.pi / 180)) := by
  apply Real.tan_pos_of_pos_of_lt_pi_div_two <;> nlinarith [Real.pi_pos]

/-- **non-vacuity of `code_terms_eq_classical` / `model_terms_eq_classical` / `tsc_predicts_real_partial`**:
the one-surface lens `R = 50`, air → `n = 3/2`, semi-aperture 5, field 1°, image plane at 150 is a
well-formed system, has no mirror, and meets the system guards `H ≠ 0`, `n' ≠ 0`, `u' ≠ 0`. -/
example : WFsys (single 1 (3/2) 50 5 150 1).surfs 1 ∧ (∀ s ∈ (single 1 (3/2) 50 5 150 1).surfs, s.refl = false) ∧
    SysOK (precalcCode (single 1 (3/2) 50 5 150 1) [] []) ∧ invariant (single 1 (3/2) 50 5 150 1) ≠ 0 := by
  have hI : invariant (single 1 (3/2) 50 5 150 1) ≠ 0 := by
    rw [invariant_single _ _ _ _ _ _ (by norm_num)]
    have := tan_deg_pos
    intro h0; nlinarith
  refine ⟨⟨?_, ?_, ?_⟩, ?_, ⟨hI, ?_, ?_⟩, hI⟩
  · intro s hs; simp [single] at hs; rcases hs with rfl | rfl | rfl <;> norm_num
  · simp [C04.Chained, single]
  · intro k h1 h2
    have : k = 1 := by simp [single] at h2; omega
    subst this; simp [single]
  · intro s hs; simp [single] at hs; rcases hs with rfl | rfl | rfl <;> rfl
  · simp [Pre.nL, precalcCode, nList, single, last]
  · simp only [Pre.uL, precalcCode, marginal_single]
    simp [us, last]
    norm_num

/-- **what the guard `P.inv ≠ 0` excludes.**  When the Lagrange invariant is 0 (a lens analysed with the
on-axis field only: the chief ray is identically zero) the tree's `_hp` is 0, so *every* third-order term
and every Seidel sum it returns is 0 — although the classical spherical contribution
`S_I = −A² y Δ(u/n)` does not involve the chief ray at all and is not 0.  `terms_eq_classical` therefore says
nothing about such a call, and the implementation's answer there is not the classical one (observed on the
real code: singlet R = ±50, N-BK7, EPD 10, single field 0°: `TSC() = [0, 0]`, `seidels() = 0`; with a second
field of 5° `TSC() = [-0.0055, -0.0742]`). -/
theorem terms_vanish_when_invariant_zero (P : Pre ℝ) (k : ℕ) (h : P.inv = 0) :
    P.tscTerm k = 0 ∧ P.ccTerm k = 0 ∧ P.tacTerm k = 0 ∧ P.tpcTerm k = 0 ∧ P.dcTerm k = 0 ∧
    P.seidels = [0, 0, 0, 0, 0] := by
  have hp : P.hp = 0 := by unfold Pre.hp; rw [h]; num_real; simp
  have t1 : ∀ k, P.tscTerm k = 0 := fun k => by unfold Pre.tscTerm; rw [hp]; num_real; ring
  have t2 : ∀ k, P.ccTerm k = 0 := fun k => by unfold Pre.ccTerm; rw [hp]; num_real; ring
  have t3 : ∀ k, P.tacTerm k = 0 := fun k => by unfold Pre.tacTerm; rw [hp]; num_real; ring
  have t4 : ∀ k, P.tpcTerm k = 0 := fun k => by unfold Pre.tpcTerm; rw [hp, h]; num_real; simp
  have t5 : ∀ k, P.dcTerm k = 0 := fun k => by unfold Pre.dcTerm; rw [hp]; num_real; ring
  have hz : ∀ f : ℕ → ℝ, (∀ k, f k = 0) → (P.arr f).sum = 0 := by
    intro f hf
    apply List.sum_eq_zero
    intro x hx
    simp only [Pre.arr, List.mem_map] at hx
    obtain ⟨j, -, rfl⟩ := hx
    exact hf _
  refine ⟨t1 k, t2 k, t3 k, t4 k, t5 k, ?_⟩
  rw [(sums_are_sums P).1]
  simp only [Pre.TSC, Pre.CC, Pre.TAC, Pre.TPC, Pre.DC, hz _ t1, hz _ t2, hz _ t3, hz _ t4, hz _ t5, mul_zero]


/-! ## round-7 additions: index-matched surfaces, mirrors (F-C08-2), zero invariant (F-C08-3), image space,
aperture/field scaling, orientation behind mirrors, edit-then-re-evaluate -/


/-! ### index-matched (cemented) surfaces and mirrors as coded -/

/-- **index_matched_contributes_zero**: a surface between two media of the same index at the
primary wavelength (`_n[k] = _n[k-1]`: a cemented index-matched interface, or — with `optic.n()`
as the tree reads it — a mirror) has spherical, coma, astigmatism and Petzval terms exactly 0, for
every curvature, every ray and every value of the Lagrange invariant (also 0); the distortion term
keeps only `h'·½Δ(ū²)` and the colour terms only see the dispersion step `δn_{k-1} − δn_k`. -/
theorem index_matched_contributes_zero (P : Pre ℝ) (k : ℕ) (hm : nth P.n k = nth P.n (k - 1)) :
    P.tscTerm k = 0 ∧ P.ccTerm k = 0 ∧ P.tacTerm k = 0 ∧ P.tpcTerm k = 0 ∧
    P.dcTerm k = P.hp * (1 / 2 * (nth P.ub k * nth P.ub k - nth P.ub (k - 1) * nth P.ub (k - 1))) ∧
    (nth P.n k ≠ 0 →
      P.tachcTerm_spec k = -(nth P.ya k) * P.i k / (P.nL * P.uL) * (nth P.dn (k - 1) - nth P.dn k) ∧
      P.tchcTerm_spec k = -(nth P.ya k) * P.ip k / (P.nL * P.uL) * (nth P.dn (k - 1) - nth P.dn k)) := by
  obtain ⟨hB, hBp⟩ := B_matched P k hm
  refine ⟨?_, ?_, ?_, ?_, ?_, ?_⟩
  · unfold Pre.tscTerm; rw [hB]; num_real; ring
  · unfold Pre.ccTerm; rw [hB]; num_real; ring
  · unfold Pre.tacTerm; rw [hB]; num_real; ring
  · unfold Pre.tpcTerm; rw [hm]; num_real; simp
  · unfold Pre.dcTerm; rw [hBp, half_eq]; simp only [Model.sq]; num_real; ring
  · intro hn
    simp only [Pre.tachcTerm_spec, Pre.tchcTerm_spec, Pre.dnFac]
    rw [← hm]
    num_real
    rw [div_self hn, one_mul]
    exact ⟨rfl, rfl⟩

example : ∃ P : Pre ℝ, nth P.n 1 = nth P.n (1 - 1) ∧ nth P.n 1 ≠ 0 ∧ nth P.C 1 ≠ 0 :=
  ⟨⟨1, [3/2, 3/2, 1], 3, [0, 1/50, 0], [5, 5, 4], [0, 0, -1/10], [0, 0, 1], [1/10, 1/10, 1/10], [1/100, 1/50, 0]⟩,
    by simp [nth], by simp [nth], by simp [nth]⟩

/-- with the chief-ray refraction invariant an index-matched surface does not bend the chief ray,
so its distortion term is 0 as well -/
theorem index_matched_distortion_zero (P : Pre ℝ) (k : ℕ) (hm : nth P.n k = nth P.n (k - 1))
    (hn : nth P.n k ≠ 0)
    (refrC : nth P.n k * (nth P.ub k + nth P.yb k * nth P.C k)
            = nth P.n (k - 1) * (nth P.ub (k - 1) + nth P.yb k * nth P.C k)) :
    P.dcTerm k = 0 := by
  rw [(index_matched_contributes_zero P k hm).2.2.2.2.1]
  rw [← hm] at refrC
  have h : nth P.ub k = nth P.ub (k - 1) := by
    have := mul_left_cancel₀ hn refrC
    linarith
  rw [h]; ring

/-! ### F-C08-2: the tree's mirror terms against the classical ones -/

/-- **code_mirror_terms_vanish** (F-C08-2, the code side): in the tree's `_precalculations`
(`optic.n()` unsigned) a reflecting surface of a chained system has `_n[k] = _n[k-1]`, hence its
spherical, coma, astigmatism and Petzval terms are identically 0 -/
theorem code_mirror_terms_vanish (S : PSys ℝ) (nF nC : List ℝ) (n0 : ℝ) (hc : C04.Chained n0 S.surfs)
    (j : ℕ) (hj : j + 1 < S.surfs.length) (hr : (S.surfs.getD (j + 1) dS).refl = true) :
    let P := precalcCode S nF nC
    P.tscTerm (j + 1) = 0 ∧ P.ccTerm (j + 1) = 0 ∧ P.tacTerm (j + 1) = 0 ∧ P.tpcTerm (j + 1) = 0 := by
  intro P
  have hch := chained_getD S.surfs n0 j hc hj
  have hm : nth P.n (j + 1) = nth P.n (j + 1 - 1) := by
    show nth (nList S) (j + 1) = nth (nList S) (j + 1 - 1)
    rw [Nat.add_sub_cancel, nth_nList S _ hj, nth_nList S j (by omega), hch.2 (Or.inr hr), hch.1]
  have h := index_matched_contributes_zero P (j + 1) hm
  exact ⟨h.1, h.2.1, h.2.2.1, h.2.2.2.1⟩

/-- the classical contributions of a mirror (`n' = −n`, reflection `u' = −u − 2yc`) in closed form:
`S_I = −2 n i² y² c`, `S_IV = 2 H² c / n` -/
theorem mirror_classical (P : Pre ℝ) (k : ℕ) (h : SurfOK P k) (hm : nth P.n k = -nth P.n (k - 1)) :
    SI (P.loc k) = -2 * nth P.n (k - 1) * (P.i k * P.i k) * (nth P.ya k * nth P.ya k) * nth P.C k ∧
    SIV (P.loc k) = 2 * (P.inv * P.inv) * nth P.C k / nth P.n (k - 1) := by
  obtain ⟨hn, hn', hR, -, -⟩ := h
  simp only [SI, SIV, A, dUN, dInvN, Pre.loc, Pre.i]
  num_real
  rw [hm] at hR hn' ⊢
  generalize nth P.n (k - 1) = n at *
  generalize nth P.ua (k - 1) = u at *
  generalize nth P.ua k = u' at *
  generalize nth P.ya k = y at *
  generalize nth P.C k = c at *
  have hu : u' = -u - 2 * y * c := by
    have : -(u' + y * c) = u + y * c := by
      apply mul_left_cancel₀ hn; linarith
    linarith
  subst hu
  constructor
  · field_simp; ring
  · field_simp; ring

/-- **mirror_code_vs_spec** (F-C08-2 as an iff): `P` is what the tree stores at a mirror
(`_n[k] = _n[k-1]`), `Q` the same surface with index sign reversal (`n' = −n`) satisfying the classical
hypotheses.  The tree's spherical term agrees with the classical one exactly when the mirror is
flat, or the marginal ray meets it on the axis, or at normal incidence; the Petzval term exactly
when the mirror is flat. -/
theorem mirror_code_vs_spec (P Q : Pre ℝ) (k : ℕ) (hP : nth P.n k = nth P.n (k - 1))
    (G : SysOK Q) (h : SurfOK Q k) (hm : nth Q.n k = -nth Q.n (k - 1)) :
    (P.tscTerm k = Q.tscTerm k ↔ Q.i k = 0 ∨ nth Q.ya k = 0 ∨ nth Q.C k = 0) ∧
    (P.tpcTerm k = Q.tpcTerm k ↔ nth Q.C k = 0) := by
  have hz := index_matched_contributes_zero P k hP
  have h1 := tsc_eq_classical Q k G h
  have h4 := tpc_eq_classical Q k G.hnL G.huL h.hn h.hn'
  obtain ⟨m1, m4⟩ := mirror_classical Q k h hm
  have hd : -2 * Q.nL * Q.uL ≠ 0 := mul_ne_zero (mul_ne_zero (by norm_num) G.hnL) G.huL
  have hn := h.hn
  have hH := G.hH
  rw [hz.1, hz.2.2.2.1]
  constructor
  · constructor
    · intro e
      rw [← e, mul_zero, m1] at h1
      have : nth Q.n (k - 1) * (Q.i k * Q.i k) * (nth Q.ya k * nth Q.ya k) * nth Q.C k = 0 := by linarith
      simp only [mul_eq_zero, or_self] at this
      tauto
    · intro e
      have : SI (Q.loc k) = 0 := by
        rw [m1]; rcases e with e | e | e <;> rw [e] <;> ring
      rw [this, neg_zero] at h1
      exact ((mul_eq_zero.1 h1).resolve_left hd).symm
  · constructor
    · intro e
      rw [← e, mul_zero, m4] at h4
      have h5 : 2 * (Q.inv * Q.inv) * nth Q.C k / nth Q.n (k - 1) = 0 := by linarith
      rw [div_eq_zero_iff] at h5
      rcases h5 with h5 | h5
      · simp only [mul_eq_zero, or_self] at h5
        rcases h5 with (h5 | h5) | h5
        · norm_num at h5
        · exact absurd h5 hH
        · exact h5
      · exact absurd h5 hn
    · intro e
      have : SIV (Q.loc k) = 0 := by rw [m4, e]; ring
      rw [this, neg_zero] at h4
      exact ((mul_eq_zero.1 h4).resolve_left hd).symm


/-! ### F-C08-3: exactly when the division by the Lagrange invariant loses the spherical term -/

/-- the spherical term with the invariant cancelled by hand (`B i² h'` without forming `B` and `h'`):
the repair that was tried for F-C08-3 -/
noncomputable def tscFree (P : Pre ℝ) (k : ℕ) : ℝ :=
  nth P.n (k - 1) * (nth P.n k - nth P.n (k - 1)) * nth P.ya k * (nth P.ua k + P.i k)
    * (P.i k * P.i k) / (2 * nth P.n k * (P.nL * P.uL))

/-- the invariant-free term is the classical `S_I` contribution whatever the Lagrange invariant is
(no hypothesis on `P.inv`, no chief-ray data) -/
theorem tscFree_eq_classical (P : Pre ℝ) (k : ℕ) (hnL : P.nL ≠ 0) (huL : P.uL ≠ 0)
    (hn : nth P.n (k - 1) ≠ 0) (hn' : nth P.n k ≠ 0)
    (hR : nth P.n k * (nth P.ua k + nth P.ya k * nth P.C k)
            = nth P.n (k - 1) * (nth P.ua (k - 1) + nth P.ya k * nth P.C k)) :
    -2 * P.nL * P.uL * tscFree P k = - SI (P.loc k) := by
  simp only [tscFree, Pre.i, SI, A, dUN, Pre.loc]
  num_real
  generalize nth P.n (k - 1) = n at *
  generalize nth P.n k = n' at *
  generalize nth P.ua (k - 1) = u at *
  generalize nth P.ua k = u' at *
  generalize nth P.ya k = y at *
  generalize nth P.C k = c at *
  generalize P.nL = nL at *
  generalize P.uL = uL at *
  have := slope_after hn' hR
  subst this
  field_simp
  ring

/-- **tsc_code_vs_spec_iff** (F-C08-3 as an iff): the tree's spherical term equals the
invariant-free (classical) one exactly when the Lagrange invariant is non-zero or the classical
term itself vanishes, and the latter happens exactly when `n = 0`, the surface is index-matched,
the marginal ray meets the surface on the axis, `u' + i = 0`, or the incidence is normal.  So for
an axial-only field list (`H = 0`) every surface that classically contributes is reported as 0. -/
theorem tsc_code_vs_spec_iff (P : Pre ℝ) (k : ℕ) (hnL : P.nL ≠ 0) (huL : P.uL ≠ 0) (hn' : nth P.n k ≠ 0) :
    (P.tscTerm k = tscFree P k ↔ P.inv ≠ 0 ∨ tscFree P k = 0) ∧
    (tscFree P k = 0 ↔ nth P.n (k - 1) = 0 ∨ nth P.n k = nth P.n (k - 1) ∨ nth P.ya k = 0 ∨
      nth P.ua k + P.i k = 0 ∨ P.i k = 0) := by
  constructor
  · by_cases hH : P.inv = 0
    · rw [(terms_vanish_when_invariant_zero P k hH).1]
      constructor
      · intro e; exact Or.inr e.symm
      · rintro (e | e)
        · exact absurd hH e
        · exact e.symm
    · constructor
      · intro _; exact Or.inl hH
      · intro _; exact tsc_indep P k hn' hH
  · have hd : 2 * nth P.n k * (P.nL * P.uL) ≠ 0 :=
      mul_ne_zero (mul_ne_zero two_ne_zero hn') (mul_ne_zero hnL huL)
    unfold tscFree
    rw [div_eq_zero_iff]
    simp only [hd, or_false, mul_eq_zero, or_self, sub_eq_zero, or_assoc]

example : ∃ P : Pre ℝ, P.inv = 0 ∧ P.nL ≠ 0 ∧ P.uL ≠ 0 ∧ nth P.n 1 ≠ 0 ∧ tscFree P 1 ≠ 0 ∧ P.tscTerm 1 = 0 := by
  refine ⟨⟨0, [1, 2, 2], 3, [0, 1, 0], [1, 1, 1], [0, -1/2, -1/2], [0, 0, 0], [0, 0, 0], []⟩, rfl, ?_, ?_, ?_, ?_, ?_⟩
  · simp [Pre.nL, last]
  · simp [Pre.uL, last]
  · simp [nth]
  · simp [tscFree, Pre.i, Pre.nL, Pre.uL, last, nth]; norm_num
  · exact (terms_vanish_when_invariant_zero _ 1 rfl).1

/-! ### immersed image space: the Seidel contributions do not see `n'_last u'_last` -/

/-- **seidel_contrib_free_of_image_space**: `h' = H/(n'u')` is the only place where the image-space
index and the final marginal slope enter a Seidel term, and the factor `−2 n'u'` of `_sum_seidels`
removes it: each surface's contribution to `S_I … S_V` is a function of the Lagrange invariant and
the local data alone (an immersed image space changes the transverse terms by `1/n'`, not the sums). -/
theorem seidel_contrib_free_of_image_space (P : Pre ℝ) (k : ℕ) (hnL : P.nL ≠ 0) (huL : P.uL ≠ 0) :
    -2 * P.nL * P.uL * P.tscTerm k = -2 * P.inv * (P.B k * (P.i k * P.i k)) ∧
    -2 * P.nL * P.uL * P.ccTerm k = -2 * P.inv * (P.B k * P.i k * P.ip k) ∧
    -2 * P.nL * P.uL * P.tacTerm k = -2 * P.inv * (P.B k * (P.ip k * P.ip k)) ∧
    -2 * P.nL * P.uL * P.tpcTerm k
      = -(P.inv * P.inv) * nth P.C k * (nth P.n k - nth P.n (k - 1)) / (nth P.n k * nth P.n (k - 1)) ∧
    -2 * P.nL * P.uL * P.dcTerm k
      = -2 * P.inv * (P.Bp k * P.i k * P.ip k
          + 1 / 2 * (nth P.ub k * nth P.ub k - nth P.ub (k - 1) * nth P.ub (k - 1))) := by
  simp only [Pre.tscTerm, Pre.ccTerm, Pre.tacTerm, Pre.tpcTerm, Pre.dcTerm, Pre.hp, Model.sq, half_eq]
  num_real
  generalize P.B k = B
  generalize P.Bp k = Bp
  refine ⟨?_, ?_, ?_, ?_, ?_⟩ <;> field_simp

/-- consequence for the sums: two precalculations that differ only in the image-space
normalisation (`n'_last`, `u'_last` — e.g. the same lens with another image-space medium behind
the last surface `N-2`… as long as the per-surface data agree) have the same `S_I`. -/
theorem seidel_SI_free_of_image_space (P : Pre ℝ) (hnL : P.nL ≠ 0) (huL : P.uL ≠ 0) :
    nth P.seidels 0 = (P.arr fun k => -2 * P.inv * (P.B k * (P.i k * P.i k))).sum := by
  simp only [Pre.seidels, Pre.sumSeidels, nth, List.getD_cons_zero, seidelOf_eq, Pre.TSC]
  exact sum_arr P _ _ _ fun k _ _ => (seidel_contrib_free_of_image_space P k hnL huL).1

example : ∃ P : Pre ℝ, P.nL ≠ 0 ∧ P.uL ≠ 0 :=
  ⟨⟨1, [1, 2, 2], 3, [0, 1, 0], [1, 1, 1], [0, -1/2, -1/2], [0, 0, 0], [0, 0, 0], []⟩,
    by simp [Pre.nL, last], by simp [Pre.uL, last]⟩


/-! ### dependence on aperture and field (Lagrange invariant) -/

/-- the stored arrays after scaling the marginal ray by `a` (aperture) and the chief ray by `f`
(field); the Lagrange invariant, bilinear in the two rays, scales by `a f` -/
noncomputable def scaled (P : Pre ℝ) (a f : ℝ) : Pre ℝ :=
  { P with inv := a * f * P.inv, ya := P.ya.map fun x => a * x, ua := P.ua.map fun x => a * x,
           yb := P.yb.map fun x => f * x, ub := P.ub.map fun x => f * x }

/-- **aperture_field_scaling**: the third-order terms of the model have the classical aperture
and field dependence: spherical ∝ a³, coma ∝ a²f, astigmatism and Petzval ∝ a f², distortion ∝ f³
(`a`: scale of the marginal ray, `f`: scale of the chief ray, hence `H ∝ a f`); the colour terms
are first order: axial ∝ a, lateral ∝ f. -/
theorem aperture_field_scaling (P : Pre ℝ) (a f : ℝ) (k : ℕ) (ha : a ≠ 0) (hf : f ≠ 0)
    (hH : P.inv ≠ 0) (hnL : P.nL ≠ 0) (huL : P.uL ≠ 0) (hn' : nth P.n k ≠ 0) :
    (scaled P a f).tscTerm k = a ^ 3 * P.tscTerm k ∧
    (scaled P a f).ccTerm k = a ^ 2 * f * P.ccTerm k ∧
    (scaled P a f).tacTerm k = a * f ^ 2 * P.tacTerm k ∧
    (scaled P a f).tpcTerm k = a * f ^ 2 * P.tpcTerm k ∧
    (scaled P a f).dcTerm k = f ^ 3 * P.dcTerm k ∧
    (scaled P a f).tachcTerm_spec k = a * P.tachcTerm_spec k ∧
    (scaled P a f).tchcTerm_spec k = f * P.tchcTerm_spec k := by
  have hH' : (scaled P a f).inv ≠ 0 := mul_ne_zero (mul_ne_zero ha hf) hH
  have hnk : nth (scaled P a f).n k ≠ 0 := hn'
  have e1 : (scaled P a f).uL = a * P.uL := last_map_mul a P.ua
  have e2 : (scaled P a f).nL = P.nL := rfl
  have ei : (scaled P a f).i k = a * P.i k := by
    simp only [Pre.i, scaled, nth_map_mul]; num_real; ring
  have eip : (scaled P a f).ip k = f * P.ip k := by
    simp only [Pre.ip, scaled, nth_map_mul]; num_real; ring
  simp only [Pre.tscTerm, Pre.ccTerm, Pre.tacTerm, Pre.tpcTerm, Pre.dcTerm, Pre.tachcTerm_spec,
    Pre.tchcTerm_spec, Pre.dnFac, B_eq _ k hnk hH', Bp_eq _ k hnk hH', B_eq P k hn' hH, Bp_eq P k hn' hH,
    Pre.hp, Model.sq, half_eq, e1, e2, ei, eip]
  simp only [scaled, nth_map_mul]
  num_real
  generalize nth P.n (k - 1) = n at *
  generalize nth P.n k = n' at *
  generalize nth P.ua k = u' at *
  generalize nth P.ub (k - 1) = ub at *
  generalize nth P.ub k = ub' at *
  generalize nth P.ya k = y at *
  generalize nth P.yb k = yb at *
  generalize nth P.C k = c at *
  generalize P.i k = i at *
  generalize P.ip k = ib at *
  generalize P.nL = nL at *
  generalize P.uL = uL at *
  generalize P.inv = H at *
  refine ⟨?_, ?_, ?_, ?_, ?_, ?_, ?_⟩ <;> field_simp

example : ∃ (P : Pre ℝ) (a f : ℝ), a ≠ 0 ∧ f ≠ 0 ∧ P.inv ≠ 0 ∧ P.nL ≠ 0 ∧ P.uL ≠ 0 ∧ nth P.n 1 ≠ 0 :=
  ⟨⟨1, [1, 2, 2], 3, [0, 1, 0], [1, 1, 1], [0, -1/2, -1/2], [0, 0, 0], [0, 0, 0], []⟩, 2, 3,
    by norm_num, by norm_num, by norm_num, by simp [Pre.nL, last], by simp [Pre.uL, last], by simp [nth]⟩

/-! ### sign conventions behind a mirror -/

/-- **refracting_surface_behind_mirror**: a refracting surface `k` in the space behind an odd number
of mirrors.  `Q` carries the signed indices (`n, n', n'_last` and the dispersions reversed), `P` is
what the tree stores (unsigned); rays, curvatures and the Lagrange invariant are the same.  The
spherical, coma, astigmatism, Petzval and both colour terms of the tree *are* the classical ones —
the two sign reversals (in `B` and in `h'`) cancel — but the distortion term is not: the tree's
`½Δ(ū²)` enters with the wrong orientation, and the two agree exactly when `h'·Δ(ū²) = 0`. -/
theorem refracting_surface_behind_mirror (P Q : Pre ℝ) (k : ℕ)
    (hC : Q.C = P.C) (hya : Q.ya = P.ya) (hua : Q.ua = P.ua) (hyb : Q.yb = P.yb) (hub : Q.ub = P.ub)
    (hI : Q.inv = P.inv) (h0 : nth Q.n (k - 1) = -nth P.n (k - 1)) (h1 : nth Q.n k = -nth P.n k)
    (hL : Q.nL = -P.nL) (d0 : nth Q.dn (k - 1) = -nth P.dn (k - 1)) (d1 : nth Q.dn k = -nth P.dn k)
    (hH : P.inv ≠ 0) (hn' : nth P.n k ≠ 0) :
    Q.tscTerm k = P.tscTerm k ∧ Q.ccTerm k = P.ccTerm k ∧ Q.tacTerm k = P.tacTerm k ∧
    Q.tpcTerm k = P.tpcTerm k ∧
    Q.tachcTerm_spec k = P.tachcTerm_spec k ∧ Q.tchcTerm_spec k = P.tchcTerm_spec k ∧
    Q.dcTerm k = P.dcTerm k - P.hp * (nth P.ub k * nth P.ub k - nth P.ub (k - 1) * nth P.ub (k - 1)) ∧
    (Q.dcTerm k = P.dcTerm k ↔
      P.hp * (nth P.ub k * nth P.ub k - nth P.ub (k - 1) * nth P.ub (k - 1)) = 0) := by
  have hHq : Q.inv ≠ 0 := hI ▸ hH
  have hnq : nth Q.n k ≠ 0 := by rw [h1]; exact neg_ne_zero.2 hn'
  have hu : Q.uL = P.uL := by unfold Pre.uL; rw [hua]
  have ei : Q.i k = P.i k := by unfold Pre.i; rw [hC, hya, hua]
  have eip : Q.ip k = P.ip k := by unfold Pre.ip; rw [hC, hyb, hub]
  have hdc : Q.dcTerm k = P.dcTerm k
      - P.hp * (nth P.ub k * nth P.ub k - nth P.ub (k - 1) * nth P.ub (k - 1)) := by
    simp only [Pre.dcTerm, Bp_eq Q k hnq hHq, Bp_eq P k hn' hH, Pre.hp, Model.sq, half_eq, ei, eip, hu, hL, hI,
      h0, h1, hyb, hub]
    num_real
    field_simp
    ring
  refine ⟨?_, ?_, ?_, ?_, ?_, ?_, hdc, ?_⟩
  · simp only [Pre.tscTerm, B_eq Q k hnq hHq, B_eq P k hn' hH, Pre.hp, Model.sq, ei, hu, hL, hI, h0, h1, hya, hua]
    num_real; field_simp; ring
  · simp only [Pre.ccTerm, B_eq Q k hnq hHq, B_eq P k hn' hH, Pre.hp, ei, eip, hu, hL, hI, h0, h1, hya, hua]
    num_real; field_simp; ring
  · simp only [Pre.tacTerm, B_eq Q k hnq hHq, B_eq P k hn' hH, Pre.hp, Model.sq, ei, eip, hu, hL, hI, h0, h1, hya, hua]
    num_real; field_simp; ring
  · simp only [Pre.tpcTerm, Pre.hp, hu, hL, hI, h0, h1, hC]
    num_real; field_simp; ring
  · simp only [Pre.tachcTerm_spec, Pre.dnFac, ei, hu, hL, h0, h1, d0, d1, hya]
    num_real; field_simp; ring
  · simp only [Pre.tchcTerm_spec, Pre.dnFac, eip, hu, hL, h0, h1, d0, d1, hya]
    num_real; field_simp; ring
  · rw [hdc]; constructor <;> intro h <;> linarith


/-! ### edit, then re-evaluate: the aberrations are a function of the current prescription -/

/-- `optic.aberrations.third_order()` on the current prescription (`nF`, `nC`: `optic.n(0.4861)`,
`optic.n(0.6563)` of the current lens) -/
noncomputable def aberrOf (R : Presc ℝ) (nF nC : List ℝ) (spec : Bool) : ThirdOrder ℝ :=
  (precalcCode (toPSys R) nF nC).thirdOrder spec

/-- **result_independent_of_history**: two lenses reached by any two edit histories (from any two
starting prescriptions) that present the same surfaces, aperture and field to the paraxial tracer
return the same 13-tuple and the same Seidel sums: the model of `Aberrations` keeps no state
between calls (`_precalculations` is re-run by every accessor). -/
theorem result_independent_of_history (R₁ R₂ : Presc ℝ) (ops₁ ops₂ : List (Op ℝ)) (nF nC : List ℝ) (spec : Bool)
    (h : toPSys (runOps R₁ ops₁) = toPSys (runOps R₂ ops₂)) :
    aberrOf (runOps R₁ ops₁) nF nC spec = aberrOf (runOps R₂ ops₂) nF nC spec ∧
    (precalcCode (toPSys (runOps R₁ ops₁)) nF nC).seidels = (precalcCode (toPSys (runOps R₂ ops₂)) nF nC).seidels := by
  unfold aberrOf; rw [h]; exact ⟨rfl, rfl⟩

/-- **aberrations_ignore_unread_edits**: `set_conic`, the tilt/x-decentre setters, `set_asphere_coeff` and
`add_wavelength` change nothing the third-order code reads (it sees radii, vertex positions, y-decentres, indices,
mirror and stop flags only): the result after such an edit is the result before it.  In particular the
model — like the tree — returns the *spherical-surface* Seidel terms for a conic surface: the conic
contribution to `S_I` is not part of `Aberrations` (the harness restricts the classical comparison
to conic-free lenses for this reason). -/
theorem aberrations_ignore_unread_edits (R : Presc ℝ) (v : ℝ) (k i : ℕ) (p : Bool) (nF nC : List ℝ) (spec : Bool) :
    aberrOf (setConic R v k) nF nC spec = aberrOf R nF nC spec ∧
    aberrOf (setCoeff R v k i) nF nC spec = aberrOf R nF nC spec ∧
    aberrOf { R with surfs := modifyAt R.surfs k fun s => { s with rx := v } } nF nC spec = aberrOf R nF nC spec ∧
    aberrOf { R with surfs := modifyAt R.surfs k fun s => { s with ry := v } } nF nC spec = aberrOf R nF nC spec ∧
    aberrOf { R with surfs := modifyAt R.surfs k fun s => { s with dx := v } } nF nC spec = aberrOf R nF nC spec ∧
    aberrOf (addWave R v p) nF nC spec = aberrOf R nF nC spec := by
  have key : ∀ f : SRec ℝ → SRec ℝ,
      (∀ s, (f s).kind = s.kind ∧ (f s).dy = s.dy ∧ (f s).z = s.z ∧ (f s).radius = s.radius ∧
        (f s).mPre = s.mPre ∧ (f s).mPost = s.mPost ∧ (f s).refl = s.refl ∧ (f s).stop = s.stop) →
      toPSys { R with surfs := modifyAt R.surfs k f } = toPSys R := by
    intro f hf
    unfold toPSys
    simp only [matN]
    rw [map_modifyAt _ f R.surfs k]
    intro s
    obtain ⟨a1, a2, a3, a4, a5, a6, a7, a8⟩ := hf s
    rw [a1, a2, a3, a4, a5, a6, a7, a8]
  have cg : ∀ S S' : PSys ℝ, S = S' → (precalcCode S nF nC).thirdOrder spec = (precalcCode S' nF nC).thirdOrder spec :=
    fun _ _ h => by rw [h]
  unfold aberrOf
  refine ⟨?_, ?_, ?_, ?_, ?_, ?_⟩
  · exact cg _ _ (key (fun s => { s with conic := v }) fun s => ⟨rfl, rfl, rfl, rfl, rfl, rfl, rfl, rfl⟩)
  · exact cg _ _ (key (fun s => { s with coeffs := modifyAt s.coeffs i fun _ => v })
      fun s => ⟨rfl, rfl, rfl, rfl, rfl, rfl, rfl, rfl⟩)
  · exact cg _ _ (key (fun s => { s with rx := v }) fun s => ⟨rfl, rfl, rfl, rfl, rfl, rfl, rfl, rfl⟩)
  · exact cg _ _ (key (fun s => { s with ry := v }) fun s => ⟨rfl, rfl, rfl, rfl, rfl, rfl, rfl, rfl⟩)
  · exact cg _ _ (key (fun s => { s with dx := v }) fun s => ⟨rfl, rfl, rfl, rfl, rfl, rfl, rfl, rfl⟩)
  · rfl

/-- **last_radius_edit_wins**: setting a radius twice is setting it once to the last value (also
when the surface was a plane, which the first call turns into a standard surface): no trace of the
intermediate value is left in what `Aberrations` reads, nor anywhere else in the prescription. -/
theorem last_radius_edit_wins (R : Presc ℝ) (v w : ℝ) (k : ℕ) (nF nC : List ℝ) (spec : Bool) :
    setRadius (setRadius R v k) w k = setRadius R w k ∧
    aberrOf (setRadius (setRadius R v k) w k) nF nC spec = aberrOf (setRadius R w k) nF nC spec := by
  have h : setRadius (setRadius R v k) w k = setRadius R w k := by
    unfold setRadius
    simp only [modifyAt_modifyAt]
    congr 1
    congr 1
    funext s
    cases s.gk <;> simp
  exact ⟨h, by rw [h]⟩

/-- editing a radius and restoring it gives back the original prescription (non-plane surface, or
any index outside the list), hence the original aberrations; a plane is excluded because `set_radius`
turns it into a standard surface (the aberrations are still restored when the plane's stored radius,
`inf`, is written back: see `last_radius_edit_wins`) -/
theorem radius_edit_roundtrip (R : Presc ℝ) (v : ℝ) (k : ℕ) (nF nC : List ℝ) (spec : Bool)
    (hk : ∀ s, R.surfs[k]? = some s → s.gk ≠ .plane) :
    aberrOf (setRadius (setRadius R v k) ((R.surfs.map (·.radius)).getD k 0) k) nF nC spec = aberrOf R nF nC spec := by
  rw [(last_radius_edit_wins R v _ k nF nC spec).1]
  have : setRadius R ((R.surfs.map (·.radius)).getD k 0) k = R := by
    unfold setRadius
    generalize hr : (R.surfs.map (·.radius)).getD k 0 = r
    rw [modifyAt_fix]
    intro s hs
    have hne := hk s hs
    have : r = s.radius := by
      rw [← hr]; simp [List.getD_eq_getElem?_getD, hs]
    subst this
    clear hr hs
    rcases s with ⟨kind, gk, z, dx, dy, rx, ry, radius, conic, coeffs, mPre, mPost, stop, refl⟩
    cases gk <;> simp_all
  rw [this]

example : ∃ (R : Presc ℝ) (k : ℕ), (∀ s, R.surfs[k]? = some s → s.gk ≠ .plane) ∧ k < R.surfs.length :=
  ⟨{ surfs := [⟨.object, .plane, 0, 0, 0, 0, 0, 0, 0, [], 0, 0, false, false⟩,
               ⟨.standard, .standard, 0, 0, 0, 0, 0, 50, 0, [], 0, 1, true, false⟩],
     lastThickness := 0, apValue := 10, maxYField := 1 }, 1,
   by intro s hs; simp at hs; subst hs; simp, by simp⟩


/-- F-C08-1, the case named in the finding: for a finite object the marginal ray leaves the axial
object point (`_ya[0] = 0`), so the tree's colour terms of the *first* surface are exactly 0 whatever
its dispersion step — while the classical ones are `−y₁ i₁ …` with the height on the surface itself -/
theorem colour_code_first_surface_zero (P : Pre ℝ) (h0 : nth P.ya 0 = 0) :
    P.tachcTerm_code 1 = 0 ∧ P.tchcTerm_code 1 = 0 ∧
    (P.nL ≠ 0 → P.uL ≠ 0 → (P.tachcTerm_spec 1 = 0 ↔ nth P.ya 1 * P.i 1 * P.dnFac 1 = 0)) := by
  refine ⟨?_, ?_, ?_⟩
  · simp only [Pre.tachcTerm_code, Nat.sub_self, h0]; num_real; simp
  · simp only [Pre.tchcTerm_code, Nat.sub_self, h0]; num_real; simp
  · intro hnL huL
    have hd : P.nL * P.uL ≠ 0 := mul_ne_zero hnL huL
    simp only [Pre.tachcTerm_spec]; num_real
    rw [div_mul_eq_mul_div, div_eq_zero_iff]
    simp only [hd, or_false, neg_mul, neg_eq_zero]

example : ∃ P : Pre ℝ, nth P.ya 0 = 0 ∧ P.nL ≠ 0 ∧ P.uL ≠ 0 ∧ P.tachcTerm_spec 1 ≠ 0 := by
  refine ⟨⟨1, [1, 2, 2], 3, [0, 1, 0], [0, 1, 1], [1/10, -1/2, -1/2], [0, 0, 0], [0, 0, 0], [0, 1/100, 0]⟩,
    by simp [nth], by simp [Pre.nL, last], by simp [Pre.uL, last], ?_⟩
  simp [Pre.tachcTerm_spec, Pre.i, Pre.dnFac, Pre.nL, Pre.uL, last, nth]
  num_real
  norm_num

/-- **signed_vs_unsigned_index**: the index array of the signed precalculation and `optic.n()` as
the tree reads it differ by a sign only, at every surface: `n_spec[k] = ± n_code[k]`; so the two
precalculations can differ in orientation, never in magnitude of an index (mirrors, any number). -/
theorem signed_vs_unsigned_index (S : PSys ℝ) (nF nC : List ℝ) (k : ℕ) (hk : k < S.surfs.length) :
    nth (precalcSpec S nF nC).n k = nth (precalcCode S nF nC).n k ∨
    nth (precalcSpec S nF nC).n k = -nth (precalcCode S nF nC).n k := by
  show nth (mulLists (sigmas 1 S.surfs) (nList S)) k = nth (nList S) k ∨
    nth (mulLists (sigmas 1 S.surfs) (nList S)) k = -nth (nList S) k
  rw [show nList S = S.surfs.map (·.n2) from rfl, signedN_getD S.surfs 1 k hk]
  have : nth (S.surfs.map (·.n2)) k = (S.surfs.getD k dS).n2 := by
    simp [nth, List.getD_eq_getElem?_getD, hk]
  rw [this]
  rcases sigmas_pm S.surfs 1 k (Or.inl rfl) hk with h | h <;> rw [h]
  · left; ring
  · right; ring

example : (0 : ℕ) < (single 1 (3/2) 50 5 150 1).surfs.length := by simp [single]

/-- non-vacuity of `refracting_surface_behind_mirror` -/
example : ∃ (P Q : Pre ℝ) (k : ℕ), Q.C = P.C ∧ Q.ya = P.ya ∧ Q.ua = P.ua ∧ Q.yb = P.yb ∧ Q.ub = P.ub ∧
    Q.inv = P.inv ∧ nth Q.n (k - 1) = -nth P.n (k - 1) ∧ nth Q.n k = -nth P.n k ∧ Q.nL = -P.nL ∧
    nth Q.dn (k - 1) = -nth P.dn (k - 1) ∧ nth Q.dn k = -nth P.dn k ∧ P.inv ≠ 0 ∧ nth P.n k ≠ 0 :=
  ⟨⟨1, [1, 2, 2], 3, [0, 1, 0], [1, 1, 1], [0, -1/2, -1/2], [0, 0, 0], [1/10, 1/20, 1/20], [0, 1/100, 1/100]⟩,
   ⟨1, [-1, -2, -2], 3, [0, 1, 0], [1, 1, 1], [0, -1/2, -1/2], [0, 0, 0], [1/10, 1/20, 1/20], [0, -(1/100), -(1/100)]⟩,
   1, rfl, rfl, rfl, rfl, rfl, rfl, by simp [nth], by simp [nth], by simp [Pre.nL, last], by simp [nth],
   by simp [nth], by simp, by simp [nth]⟩



/-- **stop_shift_formulae**: moving the stop adds a multiple `ε` of the marginal ray to the chief ray
(`ȳ* = ȳ + ε y`, `ū* = ū + ε u` at the surface, on both sides) and leaves the Lagrange invariant
unchanged.  Stated on the stored arrays at surface `k`: the model's terms obey the classical stop-shift
equations `S_II* = S_II + ε S_I`, `S_III* = S_III + 2ε S_II + ε² S_I`, with `S_I`, `S_IV` unchanged —
for every `ε`, every surface, also when `H = 0`. -/
theorem stop_shift_formulae (P Q : Pre ℝ) (k : ℕ) (ε : ℝ) (hn : Q.n = P.n) (hC : Q.C = P.C)
    (hya : Q.ya = P.ya) (hua : Q.ua = P.ua) (hI : Q.inv = P.inv)
    (hyb : nth Q.yb k = nth P.yb k + ε * nth P.ya k)
    (hub : nth Q.ub (k - 1) = nth P.ub (k - 1) + ε * nth P.ua (k - 1)) :
    Q.tscTerm k = P.tscTerm k ∧ Q.tpcTerm k = P.tpcTerm k ∧
    Q.ccTerm k = P.ccTerm k + ε * P.tscTerm k ∧
    Q.tacTerm k = P.tacTerm k + 2 * ε * P.ccTerm k + ε ^ 2 * P.tscTerm k := by
  have hi : Q.i k = P.i k := by unfold Pre.i; rw [hC, hya, hua]
  have hip : Q.ip k = P.ip k + ε * P.i k := by
    unfold Pre.ip Pre.i; rw [hC, hyb, hub]; num_real; ring
  have hB : Q.B k = P.B k := by
    unfold Pre.B Pre.denom; rw [hi, hn, hya, hua, hI]
  have hhp : Q.hp = P.hp := by unfold Pre.hp Pre.nL Pre.uL; rw [hn, hua, hI]
  refine ⟨?_, ?_, ?_, ?_⟩
  · unfold Pre.tscTerm; rw [hB, hi, hhp]
  · unfold Pre.tpcTerm; rw [hn, hC, hhp, hI]
  · unfold Pre.ccTerm Pre.tscTerm; rw [hB, hi, hip, hhp]; simp only [Model.sq]; num_real; ring
  · unfold Pre.tacTerm Pre.ccTerm Pre.tscTerm; rw [hB, hip, hhp]; simp only [Model.sq]; num_real; ring

example : ∃ (P Q : Pre ℝ) (k : ℕ) (ε : ℝ), ε ≠ 0 ∧ Q.n = P.n ∧ Q.C = P.C ∧ Q.ya = P.ya ∧ Q.ua = P.ua ∧
    Q.inv = P.inv ∧ nth Q.yb k = nth P.yb k + ε * nth P.ya k ∧
    nth Q.ub (k - 1) = nth P.ub (k - 1) + ε * nth P.ua (k - 1) :=
  ⟨⟨1, [1, 2, 2], 3, [0, 1, 0], [1, 1, 1], [0, -1/2, -1/2], [0, 0, 0], [1/10, 1/20, 1/20], []⟩,
   ⟨1, [1, 2, 2], 3, [0, 1, 0], [1, 1, 1], [0, -1/2, -1/2], [0, 2, 0], [1/10, 1/20, 1/20], []⟩,
   1, 2, by norm_num, rfl, rfl, rfl, rfl, rfl, by simp [nth], by simp [nth]⟩

end C08
