import OptiModel.Model.Wavefront
import OptiModel.Proofs.NumReal
import Mathlib.Tactic.FieldSimp
import Mathlib.Tactic.Ring
import Mathlib.Tactic.LinearCombination
import Mathlib.Tactic.Positivity
import Mathlib.Tactic.Linarith
import Mathlib.Tactic.NormNum
/-!
# C09  Reported OPD is the path difference to the chief-ray reference sphere
Theorems over ℝ about `Model/Wavefront.lean` (the model the correspondence run ties to
`wavefront.py`, `analysis/rms_vs_field.py`, `optimization/operand/ray.py`, `distribution.py`).

Which variant is the tree's: `…Code` (geometric distances `t`, tilt term without index) is what `wavefront.py`
did before F-C09-1/F-C09-2 were repaired upstream (commit 88b5ca6); since then the tree computes the `…Spec`
variant (`n_img·t`, `n_obj·tilt`).  The two coincide in air (`code_eq_spec`).  Every clause is therefore stated
for both variants (`opd_definition`/`opd_definition_spec`, `chief_opd_zero`/`…_spec`, `opds_getElem`/
`opdsSpec_getElem`, `fan_is_cross_sample`/`…_spec`, `corrected_path_…`/`corrected_path_spec_…`); the clause as
a whole is `reported_opd_is_path_difference_to_sphere`.
-/
namespace C09
open Model Model.Wf

/-! ### the reference sphere -/

/-- the sphere is centred on the chief ray's image-surface intersection -/
theorem sphere_centre (c : Cfg ℝ) (chief : Ray ℝ) :
    (sphereOf c chief).xc = chief.x ∧ (sphereOf c chief).yc = chief.y ∧ (sphereOf c chief).zc = chief.z :=
  ⟨rfl, rfl, rfl⟩

/-- **sphere_radius**: `R = ‖C − (0, 0, z_XP)‖`, `C` the chief-ray image point, `z_XP = z_img + XPL` the
axial point of the paraxial exit pupil. -/
theorem sphere_radius (c : Cfg ℝ) (chief : Ray ℝ) :
    (sphereOf c chief).R =
      Real.sqrt ((chief.x - 0) ^ 2 + (chief.y - 0) ^ 2 + (chief.z - (c.zimg + c.xpl)) ^ 2) := by
  unfold sphereOf referenceSphere pupilZ Wf.sq
  num_real
  congr 1; ring

theorem sphere_radius_nonneg (c : Cfg ℝ) (chief : Ray ℝ) : 0 ≤ (sphereOf c chief).R := by
  rw [sphere_radius]; exact Real.sqrt_nonneg _

/-- the axial exit-pupil point lies on the reference sphere -/
theorem pupil_point_on_sphere (c : Cfg ℝ) (chief : Ray ℝ) :
    (0 - (sphereOf c chief).xc) ^ 2 + (0 - (sphereOf c chief).yc) ^ 2 +
      ((c.zimg + c.xpl) - (sphereOf c chief).zc) ^ 2 = (sphereOf c chief).R ^ 2 := by
  rw [sphere_radius, Real.sq_sqrt (by positivity)]
  obtain ⟨hx, hy, hz⟩ := sphere_centre c chief
  rw [hx, hy, hz]; ring

/-! ### from the image surface back to the sphere -/

/-- the quadratic the code solves is `‖P − t·dir − C‖² − R²` -/
theorem quadratic_is_sphere_equation (s : Sphere ℝ) (r : Ray ℝ) (t : ℝ) :
    ((backPoint r t).1 - s.xc) ^ 2 + ((backPoint r t).2.1 - s.yc) ^ 2 + ((backPoint r t).2.2 - s.zc) ^ 2
      - s.R ^ 2 = qa r * t ^ 2 + qb s r * t + qc s r := by
  unfold backPoint qa qb qc Wf.sq
  num_real
  ring

/-- `c = ‖P − C‖² − R²`: negative exactly when the image point is inside the sphere -/
theorem qc_eq (s : Sphere ℝ) (r : Ray ℝ) :
    qc s r = (r.x - s.xc) ^ 2 + (r.y - s.yc) ^ 2 + (r.z - s.zc) ^ 2 - s.R ^ 2 := by
  unfold qc Wf.sq; num_real; ring

theorem qa_eq (r : Ray ℝ) : qa r = r.L ^ 2 + r.M ^ 2 + r.N ^ 2 := by
  unfold qa Wf.sq; num_real; ring

theorem root_solves (a b c sd t : ℝ) (ha : a ≠ 0) (hsd : sd * sd = b * b - 4 * a * c)
    (ht : t = (-b - sd) / (2 * a) ∨ t = (-b + sd) / (2 * a)) : a * t ^ 2 + b * t + c = 0 := by
  rcases ht with h | h <;> subst h <;> field_simp <;> linear_combination hsd

theorem disc_eq (s : Sphere ℝ) (r : Ray ℝ) : disc s r = qb s r * qb s r - 4 * qa r * qc s r := by
  unfold disc Wf.sq four Num.ofNat; num_real; norm_num

theorem rootMinus_eq (s : Sphere ℝ) (r : Ray ℝ) :
    rootMinus s r = (-(qb s r) - Real.sqrt (disc s r)) / (2 * qa r) := by
  unfold rootMinus; num_real

theorem rootPlus_eq (s : Sphere ℝ) (r : Ray ℝ) :
    rootPlus s r = (-(qb s r) + Real.sqrt (disc s r)) / (2 * qa r) := by
  unfold rootPlus; num_real

/-- the value returned is one of the two roots; which one is decided by the sign of the first -/
theorem imageToXp_eq (s : Sphere ℝ) (r : Ray ℝ) :
    imageToXp s r = if rootMinus s r < 0 then rootPlus s r else rootMinus s r := by
  unfold imageToXp
  simp only [NumReal.lt_decide, NumReal.zero_eq, decide_eq_true_eq]

theorem imageToXp_cases (s : Sphere ℝ) (r : Ray ℝ) :
    imageToXp s r = rootMinus s r ∨ imageToXp s r = rootPlus s r := by
  rw [imageToXp_eq]; split <;> simp

/-- **image_to_sphere**: for a ray with non-zero direction and non-negative discriminant the point reached by
going back from the image surface by the returned `t` lies on the reference sphere. -/
theorem image_to_sphere (s : Sphere ℝ) (r : Ray ℝ) (ha : qa r ≠ 0) (hd : 0 ≤ disc s r) :
    ((backPoint r (imageToXp s r)).1 - s.xc) ^ 2 + ((backPoint r (imageToXp s r)).2.1 - s.yc) ^ 2 +
      ((backPoint r (imageToXp s r)).2.2 - s.zc) ^ 2 = s.R ^ 2 := by
  have hq := quadratic_is_sphere_equation s r (imageToXp s r)
  have hs : Real.sqrt (disc s r) * Real.sqrt (disc s r) = qb s r * qb s r - 4 * qa r * qc s r := by
    rw [Real.mul_self_sqrt hd, disc_eq]
  have h0 : qa r * imageToXp s r ^ 2 + qb s r * imageToXp s r + qc s r = 0 := by
    apply root_solves _ _ _ _ _ ha hs
    rcases imageToXp_cases s r with h | h
    · left; rw [h, rootMinus_eq]
    · right; rw [h, rootPlus_eq]
  linarith

/-- the same in norm form: `‖P_img − t·dir − C‖ = R` (the radius of a reference sphere is `≥ 0`) -/
theorem image_to_sphere_norm (s : Sphere ℝ) (r : Ray ℝ) (ha : qa r ≠ 0) (hd : 0 ≤ disc s r) (hR : 0 ≤ s.R) :
    Real.sqrt (((backPoint r (imageToXp s r)).1 - s.xc) ^ 2 + ((backPoint r (imageToXp s r)).2.1 - s.yc) ^ 2 +
      ((backPoint r (imageToXp s r)).2.2 - s.zc) ^ 2) = s.R := by
  rw [image_to_sphere s r ha hd, Real.sqrt_sq hR]

/-- order of the two roots -/
theorem rootMinus_le_rootPlus (s : Sphere ℝ) (r : Ray ℝ) (ha : 0 < qa r) : rootMinus s r ≤ rootPlus s r := by
  rw [rootMinus_eq, rootPlus_eq]
  have := Real.sqrt_nonneg (disc s r)
  apply div_le_div_of_nonneg_right _ (by positivity)
  linarith

/-- **image_to_sphere_root** (which root the code takes): the smaller root when it is non-negative (the
first crossing met when going back from the image surface); otherwise the larger one — in particular the
non-negative one when exactly one root is non-negative. -/
theorem image_to_sphere_root (s : Sphere ℝ) (r : Ray ℝ) :
    (0 ≤ rootMinus s r → imageToXp s r = rootMinus s r) ∧
    (rootMinus s r < 0 → imageToXp s r = rootPlus s r) ∧
    (rootMinus s r < 0 → 0 ≤ rootPlus s r → 0 ≤ imageToXp s r) := by
  rw [imageToXp_eq]
  refine ⟨fun h => by rw [if_neg (not_lt.mpr h)], fun h => by rw [if_pos h], fun h h2 => by rw [if_pos h]; exact h2⟩

/-- when the image point is inside the sphere (the normal situation: blur ≪ R) there is exactly one crossing
behind the image surface (`t > 0`), the other root is negative, and the code returns the positive one —
also when the exit pupil is virtual (to the right of the image surface). -/
theorem image_to_sphere_inside (s : Sphere ℝ) (r : Ray ℝ) (ha : 0 < qa r) (hc : qc s r < 0) :
    0 < disc s r ∧ rootMinus s r < 0 ∧ 0 < rootPlus s r ∧ imageToXp s r = rootPlus s r := by
  have hd : qb s r * qb s r < disc s r := by rw [disc_eq]; nlinarith
  have hd0 : 0 < disc s r := lt_of_le_of_lt (mul_self_nonneg _) hd
  have habs : |qb s r| < Real.sqrt (disc s r) := by
    rw [← Real.sqrt_mul_self (abs_nonneg (qb s r)), abs_mul_abs_self]
    exact Real.sqrt_lt_sqrt (mul_self_nonneg _) hd
  have h1 : rootMinus s r < 0 := by
    rw [rootMinus_eq]
    apply div_neg_of_neg_of_pos _ (by positivity)
    have := neg_abs_le (qb s r); linarith
  have h2 : 0 < rootPlus s r := by
    rw [rootPlus_eq]
    apply div_pos _ (by positivity)
    have := le_abs_self (qb s r); linarith
  exact ⟨hd0, h1, h2, ((image_to_sphere_root s r).2.1) h1⟩

/-- the chief ray itself (unit direction) is at distance exactly `R` from the sphere -/
theorem chief_distance_is_radius (c : Cfg ℝ) (chief : Ray ℝ) (hu : qa chief = 1) :
    imageToXp (sphereOf c chief) chief = (sphereOf c chief).R := by
  have hR := sphere_radius_nonneg c chief
  obtain ⟨hx, hy, hz⟩ := sphere_centre c chief
  have hb : qb (sphereOf c chief) chief = 0 := by
    unfold qb; rw [hx, hy, hz]; num_real; ring
  have hc : qc (sphereOf c chief) chief = -((sphereOf c chief).R ^ 2) := by
    rw [qc_eq, hx, hy, hz]; ring
  have hd : disc (sphereOf c chief) chief = (2 * (sphereOf c chief).R) ^ 2 := by
    rw [disc_eq, hb, hc, hu]; ring
  have hs : Real.sqrt (disc (sphereOf c chief) chief) = 2 * (sphereOf c chief).R := by
    rw [hd, Real.sqrt_sq (by linarith)]
  rw [imageToXp_eq, rootMinus_eq, rootPlus_eq, hs, hb, hu]
  split
  · ring
  · rename_i h
    have : (sphereOf c chief).R = 0 := by
      have : (-0 - 2 * (sphereOf c chief).R) / (2 * 1) = -(sphereOf c chief).R := by ring
      rw [this] at h; linarith
    rw [this]; ring


/-! ### the reported OPD -/

theorem milli_eq : (milli : ℝ) = 1 / 1000 := by
  unfold milli; num_real; norm_num

/-- **opd_definition**: the reported value is `(ref − ray)/(λ·10⁻³)` (λ in µm, paths in mm, result in
waves) where each path is the recorded optical path at the image surface minus the distance back to the
reference sphere minus the tilt term, and `ref` is the same expression for the chief ray at pupil `(0,0)`. -/
theorem opd_definition (c : Cfg ℝ) (chief r : Ray ℝ) (px py : ℝ) :
    opdOfRayCode c chief r px py =
      ((chief.opd - imageToXp (sphereOf c chief) chief - tiltCorrectionCode c 0 0) -
       (r.opd - imageToXp (sphereOf c chief) r - tiltCorrectionCode c px py)) / (c.wavelength * (1 / 1000)) := by
  unfold opdOfRayCode opdRefCode correctTiltCode pathLengthCode
  rw [← milli_eq]

/-- the variant the property requires: optical (index-weighted) paths in the image and object space -/
theorem opd_definition_spec (c : Cfg ℝ) (chief r : Ray ℝ) (px py : ℝ) :
    opdOfRaySpec c chief r px py =
      ((chief.opd - c.nImg * imageToXp (sphereOf c chief) chief - c.nObj * tiltCorrectionCode c 0 0) -
       (r.opd - c.nImg * imageToXp (sphereOf c chief) r - c.nObj * tiltCorrectionCode c px py)) /
        (c.wavelength * (1 / 1000)) := by
  unfold opdOfRaySpec opdRefSpec correctTiltSpec pathLengthSpec tiltCorrectionSpec
  rw [← milli_eq]

/-- in air (`n_img = n_obj = 1`) the tree computes exactly what the property requires -/
theorem code_eq_spec (c : Cfg ℝ) (chief r : Ray ℝ) (px py : ℝ) (hi : c.nImg = 1) (ho : c.nObj = 1) :
    opdOfRayCode c chief r px py = opdOfRaySpec c chief r px py := by
  rw [opd_definition, opd_definition_spec, hi, ho]; ring

/-- otherwise they differ by the index defect of the two distances (finding F-C09-1 / F-C09-2) -/
theorem code_minus_spec (c : Cfg ℝ) (chief r : Ray ℝ) (px py : ℝ) :
    opdOfRayCode c chief r px py - opdOfRaySpec c chief r px py =
      ((c.nImg - 1) * (imageToXp (sphereOf c chief) chief - imageToXp (sphereOf c chief) r) +
       (c.nObj - 1) * (tiltCorrectionCode c 0 0 - tiltCorrectionCode c px py)) / (c.wavelength * (1 / 1000)) := by
  rw [opd_definition, opd_definition_spec]; ring

/-- **chief_opd_zero**: the chief ray's own OPD is exactly 0 (the same expression on both sides) -/
theorem chief_opd_zero (c : Cfg ℝ) (chief : Ray ℝ) : opdOfRayCode c chief chief 0 0 = 0 := by
  rw [opd_definition]; simp

theorem chief_opd_zero_spec (c : Cfg ℝ) (chief : Ray ℝ) : opdOfRaySpec c chief chief 0 0 = 0 := by
  rw [opd_definition_spec]; simp

/-- every entry of `data[i][j][0]` is that quantity for the ray record and pupil point of the same index -/
theorem opds_getElem (c : Cfg ℝ) (chief : Ray ℝ) (rays : List (Ray ℝ)) (pts : List (ℝ × ℝ)) (k : Nat)
    (h1 : k < rays.length) (h2 : k < pts.length) :
    (opdsCode c chief rays pts)[k]'(by simp [opdsCode, h1, h2]) =
      opdOfRayCode c chief rays[k] pts[k].1 pts[k].2 := by
  simp [opdsCode]

theorem opds_length (c : Cfg ℝ) (chief : Ray ℝ) (rays : List (Ray ℝ)) (pts : List (ℝ × ℝ))
    (h : rays.length = pts.length) : (opdsCode c chief rays pts).length = pts.length := by
  simp [opdsCode, h]

/-- the second component of `data[i][j]` is the image-surface intensity record, sample by sample -/
theorem intensities_getElem (rays : List (Ray ℝ)) (k : Nat) (h : k < rays.length) :
    (intensities rays)[k]'(by simp [intensities, h]) = rays[k].i := by
  simp [intensities]

/-! ### the tilt term: paths referred to one plane wavefront -/

theorem radians_eq (x : ℝ) : radians x = x * (Real.pi / 180) := by
  unfold radians Num.ofNat; num_real; norm_num

/-- all rays of an infinite-object bundle for a field along y are parallel to `(0, sin θ, cos θ)` -/
theorem launch_dir (g : Launch ℝ) (px py : ℝ) (hx : g.fieldX = 0) (hvx : g.vx = 1) (hvy : g.vy = 1)
    (hp : g.pos1 = 0) (hs : 0 < g.offset + g.epl) (hc : 0 < Real.cos (radians g.fieldY)) :
    g.dir px py = (0, Real.sin (radians g.fieldY), Real.cos (radians g.fieldY)) := by
  set θ := radians g.fieldY with hθ
  have hr0 : radians (0 : ℝ) = 0 := by rw [radians_eq]; ring
  unfold Launch.dir Launch.start Launch.aim Wf.sq
  rw [hx, hvx, hvy, hp, hr0]
  num_real
  rw [← hθ, Real.tan_zero, Real.tan_eq_sin_div_cos]
  have hc' : Real.cos θ ≠ 0 := ne_of_gt hc
  have hmag : Real.sqrt ((px * g.epd * 1 / 2 - (px * g.epd / 2 * 1 + 0 * (g.offset + g.epl))) *
        (px * g.epd * 1 / 2 - (px * g.epd / 2 * 1 + 0 * (g.offset + g.epl))) +
      (py * g.epd * 1 / 2 - (py * g.epd / 2 * 1 + -(Real.sin θ / Real.cos θ) * (g.offset + g.epl))) *
        (py * g.epd * 1 / 2 - (py * g.epd / 2 * 1 + -(Real.sin θ / Real.cos θ) * (g.offset + g.epl))) +
      (g.epl - (0 - g.offset)) * (g.epl - (0 - g.offset))) = (g.offset + g.epl) / Real.cos θ := by
    have h1 : (0 : ℝ) ≤ (g.offset + g.epl) / Real.cos θ := by positivity
    rw [← Real.sqrt_sq h1]
    congr 1
    have := Real.sin_sq_add_cos_sq θ
    field_simp
    linear_combination (4 * (g.offset + g.epl) ^ 2) * this
  rw [hmag]
  have hs' : g.offset + g.epl ≠ 0 := ne_of_gt hs
  refine Prod.ext ?_ (Prod.ext ?_ ?_)
  · show _ / _ = (0 : ℝ)
    rw [div_eq_zero_iff]; left; ring
  · show _ / _ = Real.sin θ
    field_simp; ring
  · show _ / _ = Real.cos θ
    field_simp; ring

/-- **tilt_is_wavefront_offset**: infinite object, field along y (`x_tilt = 0`), zero vignetting, first
surface at `z = 0`, start plane in front of the entrance pupil, `|θ| < 90°`.  The term `_correct_tilt` subtracts
for the pupil point `(px, py)` is `dir · (P₀(0,1) − P₀(px,py))`: the distance, along the common direction
of the bundle, between the ray's start point and the plane wavefront through the start point of the ray
`(0,1)`.  Hence `opd − tilt` is the path counted from that one plane wavefront for every ray of the bundle
(including the chief ray, for which the code takes `(px,py) = (0,0)`). -/
theorem tilt_is_wavefront_offset (c : Cfg ℝ) (g : Launch ℝ) (px py : ℝ)
    (hang : c.isAngle = true) (hxt : c.maxX * c.Hx = 0) (hyt : c.maxY * c.Hy = g.fieldY) (he : c.epd = g.epd)
    (hx : g.fieldX = 0) (hvx : g.vx = 1) (hvy : g.vy = 1) (hp : g.pos1 = 0) (hs : 0 < g.offset + g.epl)
    (hc : 0 < Real.cos (radians g.fieldY)) :
    tiltCorrectionCode c px py =
      (g.dir px py).1 * ((g.start 0 1).1 - (g.start px py).1) +
      (g.dir px py).2.1 * ((g.start 0 1).2.1 - (g.start px py).2.1) +
      (g.dir px py).2.2 * ((g.start 0 1).2.2 - (g.start px py).2.2) := by
  rw [launch_dir g px py hx hvx hvy hp hs hc]
  have hr0 : radians (0 : ℝ) = 0 := by rw [radians_eq]; ring
  unfold tiltCorrectionCode Launch.start
  rw [hang]
  num_real
  rw [hxt, hyt, he, hx, hvx, hvy, hr0, Real.sin_zero]
  simp only [if_true]
  ring

/-- consequence: the corrected path is the recorded path plus the projection of the start-point offset -/
theorem corrected_path_is_from_common_wavefront (c : Cfg ℝ) (g : Launch ℝ) (opd px py : ℝ)
    (hang : c.isAngle = true) (hxt : c.maxX * c.Hx = 0) (hyt : c.maxY * c.Hy = g.fieldY) (he : c.epd = g.epd)
    (hx : g.fieldX = 0) (hvx : g.vx = 1) (hvy : g.vy = 1) (hp : g.pos1 = 0) (hs : 0 < g.offset + g.epl)
    (hc : 0 < Real.cos (radians g.fieldY)) :
    correctTiltCode c opd px py = opd +
      ((g.dir px py).1 * ((g.start px py).1 - (g.start 0 1).1) +
       (g.dir px py).2.1 * ((g.start px py).2.1 - (g.start 0 1).2.1) +
       (g.dir px py).2.2 * ((g.start px py).2.2 - (g.start 0 1).2.2)) := by
  unfold correctTiltCode
  rw [tilt_is_wavefront_offset c g px py hang hxt hyt he hx hvx hvy hp hs hc]
  num_real
  ring

/-- finite object with height fields: no term is subtracted (all rays leave one object point) -/
theorem no_tilt_for_height_fields (c : Cfg ℝ) (opd px py : ℝ) (h : c.isAngle = false) :
    correctTiltCode c opd px py = opd := by
  unfold correctTiltCode tiltCorrectionCode
  rw [h]; num_real; simp


/-! ### RMS wavefront error -/

theorem foldl_add (l : List ℝ) (a : ℝ) : l.foldl (fun a b => a + b) a = a + l.sum := by
  induction l generalizing a with
  | nil => simp
  | cons x xs ih => simp [List.foldl_cons, ih, add_assoc]

theorem sumL_eq (l : List ℝ) : sumL l = l.sum := by
  unfold sumL; num_real; rw [foldl_add]; ring

/-- `np.mean` -/
theorem mean_eq (l : List ℝ) : mean l = l.sum / (l.length : ℝ) := by
  unfold mean Num.ofNat; rw [sumL_eq]; num_real; norm_num

/-- **rms_def**: `OPD.rms()` and every entry of the RMS-versus-field table are
`sqrt((Σ opd_k²)/N)` over the samples of that wavefront (no piston or tilt removed, no weighting) -/
theorem rms_def (opds : List ℝ) :
    rms opds = Real.sqrt ((opds.map (fun x => x ^ 2)).sum / (opds.length : ℝ)) := by
  unfold rms
  rw [mean_eq]
  num_real
  have : List.map Wf.sq opds = List.map (fun x => x ^ 2) opds := by
    apply List.map_congr_left; intro x _; unfold Wf.sq; num_real; ring
  rw [this, List.length_map]

theorem rms_nonneg (opds : List ℝ) : 0 ≤ rms opds := by rw [rms_def]; exact Real.sqrt_nonneg _

theorem sum_sq_eq_zero (l : List ℝ) (h : (l.map (fun x => x ^ 2)).sum = 0) : ∀ x ∈ l, x = 0 := by
  induction l with
  | nil => simp
  | cons a as ih =>
    simp only [List.map_cons, List.sum_cons] at h
    have h1 : 0 ≤ a ^ 2 := by positivity
    have h2 : 0 ≤ (as.map (fun x => x ^ 2)).sum :=
      List.sum_nonneg (by intro y hy; obtain ⟨x, _, rfl⟩ := List.mem_map.mp hy; positivity)
    have ha : a ^ 2 = 0 := by linarith
    have hs : (as.map (fun x => x ^ 2)).sum = 0 := by linarith
    intro x hx
    rcases List.mem_cons.mp hx with rfl | hx
    · exact pow_eq_zero_iff (by norm_num) |>.mp ha
    · exact ih hs x hx

/-- a wavefront whose samples are all zero has RMS zero, and conversely (non-empty sample) -/
theorem rms_zero_iff (opds : List ℝ) (hne : opds ≠ []) : rms opds = 0 ↔ ∀ x ∈ opds, x = 0 := by
  rw [rms_def]
  have hlen : (0 : ℝ) < opds.length := by
    have : 0 < opds.length := List.length_pos_of_ne_nil hne
    exact_mod_cast this
  have hnn : ∀ y ∈ opds.map (fun x => x ^ 2), (0 : ℝ) ≤ y := by
    intro y hy; obtain ⟨x, _, rfl⟩ := List.mem_map.mp hy; positivity
  have hs : 0 ≤ (opds.map (fun x => x ^ 2)).sum := List.sum_nonneg hnn
  constructor
  · intro h
    have h0 : (opds.map (fun x => x ^ 2)).sum / (opds.length : ℝ) = 0 := by
      have := (Real.sqrt_eq_zero (div_nonneg hs hlen.le)).mp h; exact this
    have h1 : (opds.map (fun x => x ^ 2)).sum = 0 := by
      rcases div_eq_zero_iff.mp h0 with h | h
      · exact h
      · exact absurd h (ne_of_gt hlen)
    exact sum_sq_eq_zero opds h1
  · intro h
    have : (opds.map (fun x => x ^ 2)).sum = 0 := by
      apply List.sum_eq_zero; intro y hy
      obtain ⟨x, hx, rfl⟩ := List.mem_map.mp hy
      rw [h x hx]; ring
    rw [this]; simp

/-- `RmsWavefrontErrorVsField._rms_wavefront_error`: entry `[i][j]` is the RMS of `data[i][j][0]` -/
theorem rms_vs_field_def (data : List (List (List ℝ))) (i j : Nat) :
    ((rmsVsField data)[i]?.bind (·[j]?)) = ((data[i]?.bind (·[j]?)).map rms) := by
  unfold rmsVsField
  simp only [List.getElem?_map]
  cases data[i]? with
  | none => simp
  | some row => simp [List.getElem?_map]

/-! ### `np.linspace`, the cross distribution and the fans -/

theorem linspace_length (a b : ℝ) (n : Nat) : (linspace a b n).length = n := by
  unfold linspace; dsimp only; split <;> simp

/-- for `n ≥ 2` the samples are `a + i·(b−a)/(n−1)`; the last one, which the code overwrites with `b`,
is that value too -/
theorem linspace_getElem (a b : ℝ) (n i : Nat) (hn : 2 ≤ n) (hi : i < n) :
    (linspace a b n)[i]'(by rw [linspace_length]; exact hi) = a + (i : ℝ) * ((b - a) / ((n : ℝ) - 1)) := by
  unfold linspace
  have hdiv : n - 1 ≠ 0 := by omega
  simp only [hdiv, if_false, List.getElem_map, List.getElem_range]
  unfold Num.ofNat
  num_real
  have hcast : ((n - 1 : Nat) : ℝ) = (n : ℝ) - 1 := by
    rw [Nat.cast_sub (by omega)]; simp
  have hne : (n : ℝ) - 1 ≠ 0 := by
    have : (2 : ℝ) ≤ n := by exact_mod_cast hn
    linarith
  split
  · rename_i h
    have : (i : ℝ) = (n : ℝ) - 1 := by
      have : i = n - 1 := by omega
      rw [this, hcast]
    rw [this]; field_simp; ring
  · rw [hcast]; simp only [Nat.cast_one, div_one]; ring

theorem zip_replicate_left {β : Type} (a : β) (l : List β) :
    List.zip (List.replicate l.length a) l = l.map (fun t => (a, t)) := by
  induction l with
  | nil => rfl
  | cons x xs ih => simp [List.replicate_succ, ih]

theorem zip_replicate_right {β : Type} (a : β) (l : List β) :
    List.zip l (List.replicate l.length a) = l.map (fun t => (t, a)) := by
  induction l with
  | nil => rfl
  | cons x xs ih => simp [List.replicate_succ, ih]

/-- `CrossDistribution`: first the `n` points `(0, t_k)`, then the `n` points `(t_k, 0)`, `t = linspace(-1,1,n)` -/
theorem crossPoints_eq (n : Nat) :
    (crossPoints n : List (ℝ × ℝ)) =
      (linspace (-1 : ℝ) 1 n).map (fun t => ((0 : ℝ), t)) ++ (linspace (-1 : ℝ) 1 n).map (fun t => (t, (0 : ℝ))) := by
  unfold crossPoints
  have hl := linspace_length (-1) 1 n
  num_real
  rw [List.zip_append (by simp [hl])]
  congr 1
  · have := zip_replicate_left (0 : ℝ) (linspace (-1 : ℝ) 1 n)
    rw [hl] at this; exact this
  · have := zip_replicate_right (0 : ℝ) (linspace (-1 : ℝ) 1 n)
    rw [hl] at this; exact this

/-- **fan_is_cross_sample**: the y-fan `data[:n]` of `OPDFan` is the reported OPD of the first `n` ray
records at the pupil points `(0, t_k)`, the x-fan `data[n:]` that of the remaining records at `(t_k, 0)`,
`t = linspace(-1, 1, n) = pupil_coord`: the fans are the cross sample of the same wavefront. -/
theorem fan_is_cross_sample (c : Cfg ℝ) (chief : Ray ℝ) (rays : List (Ray ℝ)) (n : Nat) :
    fanY n (opdsCode c chief rays (crossPoints n)) =
        opdsCode c chief (rays.take n) ((linspace (-1 : ℝ) 1 n).map (fun t => ((0 : ℝ), t))) ∧
    fanX n (opdsCode c chief rays (crossPoints n)) =
        opdsCode c chief (rays.drop n) ((linspace (-1 : ℝ) 1 n).map (fun t => (t, (0 : ℝ)))) := by
  have hl := linspace_length (-1) 1 n
  unfold fanY fanX opdsCode
  rw [crossPoints_eq, List.take_zipWith, List.drop_zipWith]
  constructor
  · rw [List.take_left' (by simp [hl])]
  · rw [List.drop_left' (by simp [hl])]

/-! ### Gaussian quadrature and the OPD-difference operand -/

/-- **opd_difference_def** (scalar weight of every distribution other than `gaussian_quad`):
the mean absolute deviation of the reported OPD from its mean -/
theorem opd_difference_def_unweighted (opds : List ℝ) :
    opdDifference opds none = mean (opds.map (fun o => |o - mean opds|)) := by
  unfold opdDifference
  num_real
  simp only [List.map_map]
  congr 1
  apply List.map_congr_left; intro o _
  simp [Function.comp, NumReal.abs_eq]

/-- **opd_difference_def**: `mean_k |(opd_k − mean opd) · w_k|`, sample `k` paired with weight `k` -/
theorem opd_difference_def (opds ws : List ℝ) :
    opdDifference opds (some ws) =
      mean (List.zipWith (fun o w => |o - mean opds| * |w|) opds ws) := by
  unfold opdDifference
  num_real
  simp only [List.map_zipWith]
  congr 2
  funext o w
  rw [NumReal.abs_eq, abs_mul]

theorem flatMap_zip3 {β γ δ : Type} (rs : List β) (ws : List γ) (f : β → δ × δ × δ) :
    List.zip (rs.flatMap (fun r => [(f r).1, (f r).2.1, (f r).2.2])) (ws.flatMap (fun w => [w, w, w])) =
      (List.zip rs ws).flatMap (fun p => [((f p.1).1, p.2), ((f p.1).2.1, p.2), ((f p.1).2.2, p.2)]) := by
  induction rs generalizing ws with
  | nil => simp
  | cons r rs ih =>
    cases ws with
    | nil => simp
    | cons w ws => simp [List.flatMap_cons, ih]

/-- the weights `OPD_difference` uses off axis (`np.repeat(w, 3)`) are aligned with the points
(`np.outer(radius, cos θ).flatten()`): sample `3k+m` lies on ring `k` and carries ring `k`'s weight -/
theorem gq_weights_aligned (n : Nat) :
    List.zip (outerFlat (gqRadius n : List ℝ) ((gqThetas false : List ℝ).map Num.cos)) (opdDiffWeights false n : List ℝ) =
      (List.zip (gqRadius n : List ℝ) (gqWeights false n : List ℝ)).flatMap (fun p =>
        (gqThetas false : List ℝ).map (fun t => (p.1 * Real.cos t, p.2))) := by
  unfold opdDiffWeights outerFlat repeat3 gqThetas
  simp only [Bool.false_eq_true, if_false, List.map_cons, List.map_nil]
  have := flatMap_zip3 (gqRadius n : List ℝ) (gqWeights false n : List ℝ)
    (fun r : ℝ => (r * Num.cos (Num.neg (lit 104719755 100000000 : ℝ)), r * Num.cos (0 : ℝ),
               r * Num.cos (lit 104719755 100000000 : ℝ)))
  num_real
  exact this

/-- ring count and weight count agree for every allowed number of rings, so no sample is dropped -/
theorem gq_lengths (n : Nat) : (gqRadius n : List ℝ).length = (gqWeightsRaw n : List ℝ).length := by
  unfold gqRadius gqWeightsRaw
  split <;> rfl

/-- `get_weights`: Forbes' radial weights times 6 on axis (one azimuth), times 2 off axis (three) -/
theorem gq_weights_scale (sym : Bool) (n : Nat) :
    (gqWeights sym n : List ℝ) = (gqWeightsRaw n).map (fun w => w * (if sym then 6 else 2)) := by
  unfold gqWeights Num.ofNat
  apply List.map_congr_left; intro w _
  cases sym <;> num_real <;> norm_num

/-! ### the hypotheses are satisfiable -/

/-- image point inside a unit sphere, unit direction: all guards of `image_to_sphere` hold -/
example : ∃ (s : Sphere ℝ) (r : Ray ℝ), qa r ≠ 0 ∧ 0 ≤ disc s r ∧ 0 ≤ s.R ∧ qc s r < 0 ∧ imageToXp s r = 1 := by
  refine ⟨⟨0, 0, 0, 1⟩, ⟨0, 0, 0, 0, 0, 1, 1, 0⟩, ?_, ?_, ?_, ?_, ?_⟩
  · rw [qa_eq]; norm_num
  · rw [disc_eq, qc_eq, qa_eq]; unfold qb; num_real; norm_num
  · norm_num
  · rw [qc_eq]; norm_num
  · have hd : disc (⟨0, 0, 0, 1⟩ : Sphere ℝ) ⟨0, 0, 0, 0, 0, 1, 1, 0⟩ = 4 := by
      rw [disc_eq, qc_eq, qa_eq]; unfold qb; num_real; norm_num
    have hs : Real.sqrt 4 = 2 := by
      rw [show (4 : ℝ) = 2 ^ 2 by norm_num, Real.sqrt_sq (by norm_num)]
    rw [imageToXp_eq, rootMinus_eq, rootPlus_eq, hd, hs, qa_eq]
    unfold qb; num_real; norm_num

/-- an oblique bundle (field 18° along y) satisfying the hypotheses of `tilt_is_wavefront_offset` -/
example : ∃ g : Launch ℝ, g.fieldX = 0 ∧ g.vx = 1 ∧ g.vy = 1 ∧ g.pos1 = 0 ∧ 0 < g.offset + g.epl ∧
    0 < Real.cos (radians g.fieldY) ∧ g.fieldY ≠ 0 := by
  refine ⟨⟨5, 10, 10, 0, 0, 18, 1, 1⟩, rfl, rfl, rfl, rfl, by norm_num, ?_, by norm_num⟩
  rw [radians_eq]
  apply Real.cos_pos_of_mem_Ioo
  constructor <;> nlinarith [Real.pi_pos]

/-! ### review additions: the clause in one statement, `…Spec` counterparts, joint non-vacuity -/

/-- `imageToXp` is a *distance* for a unit direction: the point reached lies `|t|` from the image point -/
theorem backPoint_distance (r : Ray ℝ) (t : ℝ) (hu : qa r = 1) (ht : 0 ≤ t) :
    Real.sqrt (((backPoint r t).1 - r.x) ^ 2 + ((backPoint r t).2.1 - r.y) ^ 2 + ((backPoint r t).2.2 - r.z) ^ 2) = t := by
  have h : ((backPoint r t).1 - r.x) ^ 2 + ((backPoint r t).2.1 - r.y) ^ 2 + ((backPoint r t).2.2 - r.z) ^ 2
      = t ^ 2 * qa r := by
    rw [qa_eq]; unfold backPoint; num_real; ring
  rw [h, hu, mul_one, Real.sqrt_sq ht]

/-- **reported_opd_is_path_difference_to_sphere** (the first sentence of C09 in one statement).  For a ray
and a chief ray with unit directions whose image point lies inside the reference sphere (blur smaller than
the sphere radius): going back from the image point against the ray one meets the reference sphere at a
point `Q` at distance `t > 0`; the chief ray meets it at distance `R`; and the reported value is
`((chief path to the sphere) − (ray path to the sphere)) / λ`, each path being the recorded optical path at
the image surface minus `n_img ×` that distance minus the `n_obj ×` wavefront offset in object space. -/
theorem reported_opd_is_path_difference_to_sphere (c : Cfg ℝ) (chief r : Ray ℝ) (px py : ℝ)
    (hu : qa r = 1) (huc : qa chief = 1) (hin : qc (sphereOf c chief) r < 0) :
    let s := sphereOf c chief
    let Q := backPoint r (imageToXp s r)
    let d := Real.sqrt ((Q.1 - r.x) ^ 2 + (Q.2.1 - r.y) ^ 2 + (Q.2.2 - r.z) ^ 2)
    0 < d ∧
    (Q.1 - s.xc) ^ 2 + (Q.2.1 - s.yc) ^ 2 + (Q.2.2 - s.zc) ^ 2 = s.R ^ 2 ∧
    opdOfRaySpec c chief r px py =
      ((chief.opd - c.nImg * s.R - c.nObj * tiltCorrectionCode c 0 0) -
       (r.opd - c.nImg * d - c.nObj * tiltCorrectionCode c px py)) / (c.wavelength * (1 / 1000)) := by
  intro s Q d
  have ha : 0 < qa r := by rw [hu]; norm_num
  obtain ⟨hd, -, hpos, hroot⟩ := image_to_sphere_inside s r ha hin
  have htpos : 0 < imageToXp s r := by rw [hroot]; exact hpos
  have hdist : d = imageToXp s r := backPoint_distance r _ hu htpos.le
  refine ⟨by rw [hdist]; exact htpos, image_to_sphere s r ha.ne' hd.le, ?_⟩
  rw [opd_definition_spec, hdist, chief_distance_is_radius c chief huc]

/-! ### the same statements for the `…Spec` variant (what the tree computes since F-C09-1/2 were repaired) -/

theorem opdsSpec_getElem (c : Cfg ℝ) (chief : Ray ℝ) (rays : List (Ray ℝ)) (pts : List (ℝ × ℝ)) (k : Nat)
    (h1 : k < rays.length) (h2 : k < pts.length) :
    (opdsSpec c chief rays pts)[k]'(by simp [opdsSpec, h1, h2]) =
      opdOfRaySpec c chief rays[k] pts[k].1 pts[k].2 := by
  simp [opdsSpec]

theorem fan_is_cross_sample_spec (c : Cfg ℝ) (chief : Ray ℝ) (rays : List (Ray ℝ)) (n : Nat) :
    fanY n (opdsSpec c chief rays (crossPoints n)) =
        opdsSpec c chief (rays.take n) ((linspace (-1 : ℝ) 1 n).map (fun t => ((0 : ℝ), t))) ∧
    fanX n (opdsSpec c chief rays (crossPoints n)) =
        opdsSpec c chief (rays.drop n) ((linspace (-1 : ℝ) 1 n).map (fun t => (t, (0 : ℝ)))) := by
  have hl := linspace_length (-1) 1 n
  unfold fanY fanX opdsSpec
  rw [crossPoints_eq, List.take_zipWith, List.drop_zipWith]
  constructor
  · rw [List.take_left' (by simp [hl])]
  · rw [List.drop_left' (by simp [hl])]

/-- the optical version of `corrected_path_is_from_common_wavefront`: the term subtracted is `n_obj` times
the geometric offset between the start point and the common plane wavefront -/
theorem corrected_path_spec_is_from_common_wavefront (c : Cfg ℝ) (g : Launch ℝ) (opd px py : ℝ)
    (hang : c.isAngle = true) (hxt : c.maxX * c.Hx = 0) (hyt : c.maxY * c.Hy = g.fieldY) (he : c.epd = g.epd)
    (hx : g.fieldX = 0) (hvx : g.vx = 1) (hvy : g.vy = 1) (hp : g.pos1 = 0) (hs : 0 < g.offset + g.epl)
    (hc : 0 < Real.cos (radians g.fieldY)) :
    correctTiltSpec c opd px py = opd + c.nObj *
      ((g.dir px py).1 * ((g.start px py).1 - (g.start 0 1).1) +
       (g.dir px py).2.1 * ((g.start px py).2.1 - (g.start 0 1).2.1) +
       (g.dir px py).2.2 * ((g.start px py).2.2 - (g.start 0 1).2.2)) := by
  unfold correctTiltSpec tiltCorrectionSpec
  rw [tilt_is_wavefront_offset c g px py hang hxt hyt he hx hvx hvy hp hs hc]
  num_real
  ring

/-- non-vacuity of `tilt_is_wavefront_offset` / `corrected_path_…`: a configuration *and* a bundle (field
18° along y, EPD 10) meeting every hypothesis together -/
example : ∃ (c : Cfg ℝ) (g : Launch ℝ), c.isAngle = true ∧ c.maxX * c.Hx = 0 ∧ c.maxY * c.Hy = g.fieldY ∧
    c.epd = g.epd ∧ g.fieldX = 0 ∧ g.vx = 1 ∧ g.vy = 1 ∧ g.pos1 = 0 ∧ 0 < g.offset + g.epl ∧
    0 < Real.cos (radians g.fieldY) ∧ g.fieldY ≠ 0 := by
  refine ⟨⟨true, 0, 18, 0, 1, 10, -50, 100, 1, 1, 0.55⟩, ⟨5, 10, 10, 0, 0, 18, 1, 1⟩,
    rfl, by norm_num, by norm_num, rfl, rfl, rfl, rfl, rfl, by norm_num, ?_, by norm_num⟩
  rw [radians_eq]
  apply Real.cos_pos_of_mem_Ioo
  constructor <;> nlinarith [Real.pi_pos]

/-- non-vacuity of `reported_opd_is_path_difference_to_sphere`: exit pupil 100 in front of the image plane,
chief ray along the axis, a ray arriving 0.01 off the chief image point with direction `(0, 3/5, 4/5)` -/
example : ∃ (c : Cfg ℝ) (chief r : Ray ℝ), qa r = 1 ∧ qa chief = 1 ∧ qc (sphereOf c chief) r < 0 ∧
    r.y ≠ chief.y ∧ r.M ≠ 0 := by
  refine ⟨⟨true, 0, 0, 0, 0, 10, -100, 100, 1, 1, 0.55⟩, ⟨0, 0, 100, 0, 0, 1, 1, 120⟩,
    ⟨0, 1/100, 100, 0, 3/5, 4/5, 1, 120⟩, ?_, ?_, ?_, by norm_num, by norm_num⟩
  · rw [qa_eq]; norm_num
  · rw [qa_eq]; norm_num
  · rw [qc_eq, sphere_radius, Real.sq_sqrt (by positivity)]
    obtain ⟨hx, hy, hz⟩ := sphere_centre (⟨true, 0, 0, 0, 0, 10, -100, 100, 1, 1, 0.55⟩ : Cfg ℝ)
      (⟨0, 0, 100, 0, 0, 1, 1, 120⟩ : Ray ℝ)
    rw [hx, hy, hz]; norm_num

end C09
