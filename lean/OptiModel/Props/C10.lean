import OptiModel.Model.Zernike
import OptiModel.Gen.ZernikeTables
import OptiModel.Proofs.ZernikeIdx
import OptiModel.Proofs.ZernikeTab
import OptiModel.Proofs.Zernike
import OptiModel.Proofs.ZernikeFit
/-!
# C10  Zernike families are correctly indexed, normalised, and recovered by fitting

`Gen.Zernike.standardTable / fringeTable / nollTable` are the `.indices` lists **as produced by the
code under verification** (regenerated from `/repo` by `gen/gen_zernike_tables.py` on every run of
`./check C10`).  The index theorems below are statements about those literals, re-checked by the
kernel (`decide +kernel`) after every regeneration; a change of the Python index generation that
alters the lists breaks them.

Model: `Model/Zernike.lean`; helper lemmas: `Proofs/ZernikeIdx.lean` (discrete), `Proofs/ZernikeTab.lean`
(exact rational tables), `Proofs/Zernike.lean` (integrals), `Proofs/ZernikeFit.lean` (linearity, least squares).

Not formalised (named partial in the claim):
* the polar change of variables from the iterated integral `∫₀^{2π}∫₀¹ … r dr dφ` of
  `orthonormal_polar` to the area integral over the unit disk;
* `R_n^m(1) = 1` and radial orthogonality for *all* n (general binomial identities): proved here for
  every valid index with `n ≤ 19`, which contains every index the three families can produce;
* that a least-squares minimiser satisfies the normal equations (converse of `lsq_normal_is_min`) and
  that scipy's `least_squares` returns the minimiser (checked numerically by the harness);
* the last clause of the property (the Zernike decomposition of a lens wavefront reproduces the sampled
  OPD up to the truncation residual): no theorem, numerical only (`ZernikeOPD` on the bundled lenses).

REVIEW NOTE.  Sections 1–3 are statements about the model / the regenerated tables.  In section 4 the
theorems `lsq_normal_is_min`, `fit_recovers`, `fit_recovers_min`, `fit_spec_linear` are linear algebra
about an *arbitrary* matrix; section 5 instantiates them on the model's `poly` with the first `N`
indices (`fit_recovers_model`, `fit_linear_model`) and shows the full-rank hypothesis satisfiable by
a genuine 3-term design matrix (`tilt_design_injective`).  "Sufficiently many well-spread points" of
the property enters only as that rank hypothesis; no theorem says which point sets have full rank.
-/
namespace C10
open Model.Zern Gen.Zernike
set_option maxRecDepth 100000

/-! ## 1. Index tables -/

/-! ### the model reproduces the code's lists (kernel-checked correspondence of `_generate_indices`) -/

theorem standard_table_model : standardTable = standardIndices := by decide +kernel
theorem fringe_table_model : fringeTable = fringeIndices := by decide +kernel
theorem noll_table_model : nollTable = nollIndices := by decide +kernel

/-! ### general facts about the published single-index rules -/

/-- OSA/ANSI `j = (n(n+2)+m)/2` is injective on valid `(n,m)` -/
theorem osa_rule_injective {n m n' m' : Int} (h : validNM n m) (h' : validNM n' m')
    (e : osaIndex n m = osaIndex n' m') : n = n' ∧ m = m' := ZernikeIdx.osa_injective h h' e

/-- Noll's index is injective on valid `(n,m)` -/
theorem noll_rule_injective {n m n' m' : Int} (h : validNM n m) (h' : validNM n' m')
    (e : nollNumber n m = nollNumber n' m') : n = n' ∧ m = m' := ZernikeIdx.noll_injective h h' e

/-- the Fringe number is injective on valid `(n,m)` -/
theorem fringe_rule_injective {n m n' m' : Int} (h : validNM n m) (h' : validNM n' m')
    (e : fringeNumber n m = fringeNumber n' m') : n = n' ∧ m = m' := ZernikeIdx.fringe_injective h h' e

/-- OSA index below 120 ⇔ `n < 15` (the code's `range(15)`) -/
theorem osa_first_120 {n m : Int} (h : validNM n m) : osaIndex n m < 120 ↔ n < 15 :=
  ZernikeIdx.osa_lt_120_iff h

/-- Noll index at most 120 ⇔ `n < 15` (the code's `range(15)`) -/
theorem noll_first_120 {n m : Int} (h : validNM n m) : nollNumber n m ≤ 120 ↔ n < 15 :=
  ZernikeIdx.noll_le_120_iff h

/-- every pair with Fringe number ≤ 120 has `n < 20`: the code's `range(20)` loses nothing -/
theorem fringe_range20_sufficient {n m : Int} (h : validNM n m) (hj : fringeNumber n m ≤ 120) : n < 20 :=
  ZernikeIdx.fringe_le_120_n_lt_20 h hj

/-- the code's float expression for the Fringe number equals the published rule on valid indices -/
theorem fringe_code_number {n m : Int} (h : validNM n m) : fringeNumberCode n m = fringeNumber n m :=
  ZernikeIdx.fringeNumberCode_eq h

/-- the code's `if/elif` chain for Noll's `c` equals the published rule, for all integers -/
theorem noll_code_number (n m : Int) : nollNumberCode n m = nollNumber n m := ZernikeIdx.nollNumberCode_eq n m

/-- the four branches of the chain are exhaustive (no stale `c`) -/
theorem noll_branches_exhaustive (n m : Int) :
    (0 < m ∧ n % 4 ≤ 1) ∨ (m < 0 ∧ 2 ≤ n % 4) ∨ (0 ≤ m ∧ 2 ≤ n % 4) ∨ (m ≤ 0 ∧ n % 4 ≤ 1) :=
  ZernikeIdx.noll_branches_exhaustive n m

example : validNM 4 (-2) := by decide

/-! ### Standard (OSA/ANSI): the k-th entry (k = 0 … 119) is the valid pair with OSA index k -/

theorem standard_indices :
    standardTable.length = 120 ∧ (∀ p ∈ standardTable, validNM p.1 p.2) ∧
    standardTable.map (fun p => osaIndex p.1 p.2) = (List.range 120).map Int.ofNat := by decide +kernel

/-- the same list, enumerated by inverting the rule -/
theorem standard_indices_enumerated : standardTable = (List.range 120).map osaRule := by decide +kernel

theorem standard_indices_nodup : standardTable.Nodup := by decide +kernel

set_option synthInstance.maxSize 4000 in
theorem standard_complete_fin : ∀ n : Nat, n < 15 → ∀ b : Nat, b < 29 →
    validNM (n:Int) ((b:Int) - 14) → ((n:Int), (b:Int) - 14) ∈ standardTable := by decide +kernel

/-- exactly the first 120: every valid pair with OSA index < 120 is in the list -/
theorem standard_indices_complete {n m : Int} (h : validNM n m) (hj : osaIndex n m < 120) :
    (n, m) ∈ standardTable := by
  have hn := (ZernikeIdx.osa_lt_120_iff h).mp hj
  obtain ⟨h0, h1, h2, h3⟩ := h
  have := standard_complete_fin n.toNat (by omega) (m + 14).toNat (by omega)
  have e1 : ((n.toNat : Nat) : Int) = n := by omega
  have e2 : (((m + 14).toNat : Nat) : Int) - 14 = m := by omega
  rw [e1, e2] at this
  exact this ⟨h0, h1, h2, h3⟩

/-! ### Noll: the k-th entry (k = 0 … 119) is the valid pair with Noll index k+1 -/

theorem noll_indices :
    nollTable.length = 120 ∧ (∀ p ∈ nollTable, validNM p.1 p.2) ∧
    nollTable.map (fun p => nollNumber p.1 p.2) = (List.range 120).map (fun k => Int.ofNat (k + 1)) := by
  decide +kernel

/-- the same list, enumerated by Noll's rule as published (row n, |m| ascending, even j ↔ cosine) -/
theorem noll_indices_enumerated : nollTable = (List.range 120).map (fun k => nollRule (k + 1)) := by
  decide +kernel

theorem noll_indices_nodup : nollTable.Nodup := by decide +kernel

set_option synthInstance.maxSize 4000 in
theorem noll_complete_fin : ∀ n : Nat, n < 15 → ∀ b : Nat, b < 29 →
    validNM (n:Int) ((b:Int) - 14) → ((n:Int), (b:Int) - 14) ∈ nollTable := by decide +kernel

theorem noll_indices_complete {n m : Int} (h : validNM n m) (hj : nollNumber n m ≤ 120) :
    (n, m) ∈ nollTable := by
  have hn := (ZernikeIdx.noll_le_120_iff h).mp hj
  obtain ⟨h0, h1, h2, h3⟩ := h
  have := noll_complete_fin n.toNat (by omega) (m + 14).toNat (by omega)
  have e1 : ((n.toNat : Nat) : Int) = n := by omega
  have e2 : (((m + 14).toNat : Nat) : Int) - 14 = m := by omega
  rw [e1, e2] at this
  exact this ⟨h0, h1, h2, h3⟩

/-! ### Fringe: the k-th entry (k = 0 … 119) is the valid pair with Fringe number k+1 -/

theorem fringe_indices :
    fringeTable.length = 120 ∧ (∀ p ∈ fringeTable, validNM p.1 p.2) ∧
    fringeTable.map (fun p => fringeNumber p.1 p.2) = (List.range 120).map (fun k => Int.ofNat (k + 1)) := by
  decide +kernel

theorem fringe_indices_enumerated : fringeTable = (List.range 120).map (fun k => fringeRule (k + 1)) := by
  decide +kernel

theorem fringe_indices_nodup : fringeTable.Nodup := by decide +kernel

set_option synthInstance.maxSize 4000 in
theorem fringe_complete_fin : ∀ n : Nat, n < 20 → ∀ b : Nat, b < 39 →
    (validNM (n:Int) ((b:Int) - 19) ∧ fringeNumber (n:Int) ((b:Int) - 19) ≤ 120) →
    ((n:Int), (b:Int) - 19) ∈ fringeTable := by decide +kernel

theorem fringe_indices_complete {n m : Int} (h : validNM n m) (hj : fringeNumber n m ≤ 120) :
    (n, m) ∈ fringeTable := by
  have hn := ZernikeIdx.fringe_le_120_n_lt_20 h hj
  have hv := h
  obtain ⟨h0, h1, h2, h3⟩ := h
  have := fringe_complete_fin n.toNat (by omega) (m + 19).toNat (by omega)
  have e1 : ((n.toNat : Nat) : Int) = n := by omega
  have e2 : (((m + 19).toNat : Nat) : Int) - 19 = m := by omega
  rw [e1, e2] at this
  exact this ⟨hv, hj⟩

/-- every index any family can produce is valid with `n ≤ 19` (the range of the radial theorems) -/
theorem tables_supported : ∀ p ∈ standardTable ++ nollTable ++ fringeTable, validNM p.1 p.2 ∧ p.1 ≤ 19 := by
  decide +kernel

/-! ## 2. Radial polynomials -/

/-- over ℝ the model's `_radial_term` is the polynomial given by the rational coefficient list -/
theorem radial_is_polynomial (n m : Int) (r : ℝ) :
    radialTerm n m r = ZernikeR.evalR (radialCoeffs n m) r := ZernikeR.radialTerm_real n m r

/-- the code's float division `a / b` is exact: the coefficient is an integer below 2^53 (n ≤ 19) -/
theorem radial_coefficients_integral : ∀ m : Nat, m < 20 → ∀ n : Nat, n < 20 → (m ≤ n ∧ (n - m) % 2 = 0) →
    ∀ k : Nat, k < sMax n m → (coeffFrac n m k).2 ∣ (coeffFrac n m k).1 ∧
      (coeffFrac n m k).1 / (coeffFrac n m k).2 < 2^53 := ZernikeTab.coeff_integral_table

/-- `R_n^m(1) = 1` for every valid index with n ≤ 19 -/
theorem radial_at_one {n m : Int} (h : validNM n m) (hn : n ≤ 19) : radialTerm n m (1:ℝ) = 1 :=
  ZernikeR.radial_at_one h hn

/-- unit radial value at the pupil edge for every polynomial of every family -/
theorem radial_at_one_all_families :
    ∀ p ∈ standardTable ++ nollTable ++ fringeTable, radialTerm p.1 p.2 (1:ℝ) = 1 := by
  intro p hp
  obtain ⟨hv, hn⟩ := tables_supported p hp
  exact ZernikeR.radial_at_one hv hn

/-- the coefficient-list inner product *is* the weighted integral (through Mathlib's `integral_pow`) -/
theorem innerR_is_integral (p q : List (Nat × ℚ)) :
    ∫ r in (0:ℝ)..1, ZernikeR.evalR p r * ZernikeR.evalR q r * r = ((innerR p q : ℚ) : ℝ) :=
  ZernikeR.integral_evalR p q

/-- `∫₀¹ R_n^m R_n'^m r dr = δ_{nn'}/(2n+2)` for all valid indices with n, n' ≤ 19 -/
theorem radial_orthogonality {n n' m : Int} (h : validNM n m) (h' : validNM n' m) (hn : n ≤ 19) (hn' : n' ≤ 19) :
    ∫ r in (0:ℝ)..1, radialTerm n m r * radialTerm n' m r * r =
      if n = n' then 1 / (2 * (n:ℝ) + 2) else 0 := ZernikeR.radial_orthogonality h h' hn hn'

example : validNM 6 2 ∧ validNM 4 2 ∧ (6:Int) ≤ 19 := by decide

/-! ## 3. Azimuthal terms, norm constants, orthonormality -/

/-- `∫₀^{2π} A_m A_m' dφ = δ_{mm'} · (2π if m = 0 else π)` where `A_m = cos mφ` (m ≥ 0), `sin mφ` (m < 0) -/
theorem azimuthal_orthogonality (m m' : Int) :
    ∫ φ in (0:ℝ)..2*Real.pi, azimuthalTerm m φ * azimuthalTerm m' φ =
      if m = m' then (if m = 0 then 2*Real.pi else Real.pi) else 0 := ZernikeR.azimuthal_orthogonality m m'

/-- Standard: `N² · 1/(2n+2) · (2π or π) = π` -/
theorem norm_constants_standard {n : Int} (m : Int) (hn : 0 ≤ n) :
    (normConstant .standard n m : ℝ)^2 * (1 / (2 * (n:ℝ) + 2)) * (if m = 0 then 2*Real.pi else Real.pi) = Real.pi := by
  rw [ZernikeR.norm_sq_standard m hn]
  have : (2 * (n:ℝ) + 2) ≠ 0 := by
    have : (0:ℝ) ≤ n := by exact_mod_cast hn
    positivity
  split_ifs <;> field_simp

/-- Noll: `N² · 1/(2n+2) · (2π or π) = π` -/
theorem norm_constants_noll {n : Int} (m : Int) (hn : 0 ≤ n) :
    (normConstant .noll n m : ℝ)^2 * (1 / (2 * (n:ℝ) + 2)) * (if m = 0 then 2*Real.pi else Real.pi) = Real.pi := by
  rw [ZernikeR.norm_sq_noll m hn]
  have : (2 * (n:ℝ) + 2) ≠ 0 := by
    have : (0:ℝ) ≤ n := by exact_mod_cast hn
    positivity
  split_ifs <;> field_simp

/-- Fringe polynomials carry no normalisation -/
theorem norm_constants_fringe (n m : Int) : (normConstant .fringe n m : ℝ) = 1 := ZernikeR.norm_fringe n m

/-- the polar iterated integral of a product of two terms separates into norms × radial × azimuthal -/
theorem terms_separate (f : Family) (n m n' m' : Int) :
    ∫ φ in (0:ℝ)..2*Real.pi, ∫ r in (0:ℝ)..1, getTerm f 1 n m r φ * getTerm f 1 n' m' r φ * r =
      (normConstant f n m * normConstant f n' m') *
      (∫ r in (0:ℝ)..1, radialTerm n m r * radialTerm n' m' r * r) *
      (∫ φ in (0:ℝ)..2*Real.pi, azimuthalTerm m φ * azimuthalTerm m' φ) :=
  ZernikeR.integral_terms_separated f n m n' m'

/-- Orthonormality of the Standard and Noll polynomials over the unit disk, in polar form:
`∫₀^{2π} ∫₀¹ Z_n^m Z_n'^m' r dr dφ = π · δ` (i.e. `(1/π)∫∫ = δ`), for all valid indices with n, n' ≤ 19. -/
theorem orthonormal_polar (f : Family) (hf : f = .standard ∨ f = .noll) {n m n' m' : Int}
    (h : validNM n m) (h' : validNM n' m') (hn : n ≤ 19) (hn' : n' ≤ 19) :
    ∫ φ in (0:ℝ)..2*Real.pi, ∫ r in (0:ℝ)..1, getTerm f 1 n m r φ * getTerm f 1 n' m' r φ * r =
      if n = n' ∧ m = m' then Real.pi else 0 := by
  rw [ZernikeR.integral_terms_separated, ZernikeR.azimuthal_orthogonality]
  by_cases hm : m = m'
  · subst hm
    rw [ZernikeR.radial_orthogonality h h' hn hn']
    by_cases hnn : n = n'
    · subst hnn
      simp only [and_self, if_true]
      have key := fun g => (show (normConstant g n m : ℝ) * normConstant g n m = (normConstant g n m : ℝ)^2 by ring)
      rcases hf with rfl | rfl
      · rw [key]; exact norm_constants_standard m h.1
      · rw [key]; exact norm_constants_noll m h.1
    · simp [hnn]
  · simp [hm]

/-- Fringe polynomials are orthogonal (not normalised): the same integral vanishes for distinct indices -/
theorem fringe_orthogonal_polar {n m n' m' : Int}
    (h : validNM n m) (h' : validNM n' m') (hn : n ≤ 19) (hn' : n' ≤ 19) (hne : ¬ (n = n' ∧ m = m')) :
    ∫ φ in (0:ℝ)..2*Real.pi, ∫ r in (0:ℝ)..1,
      getTerm .fringe 1 n m r φ * getTerm .fringe 1 n' m' r φ * r = 0 := by
  rw [ZernikeR.integral_terms_separated, ZernikeR.azimuthal_orthogonality]
  by_cases hm : m = m'
  · subst hm
    rw [ZernikeR.radial_orthogonality h h' hn hn']
    have hnn : n ≠ n' := fun e => hne ⟨e, rfl⟩
    simp [hnn]
  · simp [hm]

/-! ## 4. Evaluation is linear; least-squares specification of `ZernikeFit` -/

/-- `poly` is linear in the coefficient vector (coefficient lists of equal length) -/
theorem poly_linear (f : Family) (c d : List ℝ) (a b : ℝ) (h : c.length = d.length) (r φ : ℝ) :
    poly f (List.zipWith (fun x y => a * x + b * y) c d) r φ = a * poly f c r φ + b * poly f d r φ :=
  ZernikeFit.polyOn_linear f (indices f) c d a b h r φ

/-- `poly` at the sample points = design matrix (unit-coefficient terms) applied to the coefficients -/
theorem poly_eq_design {M N : ℕ} (f : Family) (idx : Fin N → Int × Int) (pts : Fin M → ℝ × ℝ)
    (c : Fin N → ℝ) (i : Fin M) :
    polyOn f (List.ofFn idx) (List.ofFn c) (pts i).1 (pts i).2 = (ZernikeFit.design f idx pts).mulVec c i :=
  ZernikeFit.poly_eq_design f idx pts c i

/-- a solution of the normal equations `AᵀA x = Aᵀ z` minimises the sum of squared residuals -/
theorem lsq_normal_is_min {M N : ℕ} (A : Matrix (Fin M) (Fin N) ℝ) (x : Fin N → ℝ) (z : Fin M → ℝ)
    (hne : A.transpose.mulVec (A.mulVec x) = A.transpose.mulVec z) (y : Fin N → ℝ) :
    dotProduct (A.mulVec x - z) (A.mulVec x - z) ≤ dotProduct (A.mulVec y - z) (A.mulVec y - z) :=
  ZernikeFit.lsq_normal_is_min A x z hne y

/-- exact data `z = A c`, design matrix of full column rank (`A.mulVec` injective): the solution of the
normal equations is the generating coefficient vector -/
theorem fit_recovers {M N : ℕ} (A : Matrix (Fin M) (Fin N) ℝ) (hA : Function.Injective A.mulVec)
    (x c : Fin N → ℝ) (hne : A.transpose.mulVec (A.mulVec x) = A.transpose.mulVec (A.mulVec c)) : x = c :=
  ZernikeFit.lsq_normal_unique A hA x c hne

/-- the same for any minimiser of the sum of squared residuals -/
theorem fit_recovers_min {M N : ℕ} (A : Matrix (Fin M) (Fin N) ℝ) (hA : Function.Injective A.mulVec)
    (x c : Fin N → ℝ)
    (hmin : ∀ y, dotProduct (A.mulVec x - A.mulVec c) (A.mulVec x - A.mulVec c) ≤
      dotProduct (A.mulVec y - A.mulVec c) (A.mulVec y - A.mulVec c)) : x = c :=
  ZernikeFit.lsq_min_exact A hA x c hmin

/-- the fit is linear in the data: normal-equation solutions combine linearly (and are unique under
full column rank by `fit_recovers`) -/
theorem fit_spec_linear {M N : ℕ} (A : Matrix (Fin M) (Fin N) ℝ) (x₁ x₂ : Fin N → ℝ) (z₁ z₂ : Fin M → ℝ)
    (a b : ℝ) (h₁ : A.transpose.mulVec (A.mulVec x₁) = A.transpose.mulVec z₁)
    (h₂ : A.transpose.mulVec (A.mulVec x₂) = A.transpose.mulVec z₂) :
    A.transpose.mulVec (A.mulVec (a • x₁ + b • x₂)) = A.transpose.mulVec (a • z₁ + b • z₂) :=
  ZernikeFit.lsq_normal_linear A x₁ x₂ z₁ z₂ a b h₁ h₂

/-- the rank hypothesis is satisfiable: the 1×1 design matrix of piston at one sample point -/
example : Function.Injective (Matrix.mulVec (fun (_ : Fin 1) (_ : Fin 1) => (1:ℝ))) := by
  intro u v h
  funext j
  have := congrFun h 0
  simp [Matrix.mulVec, dotProduct] at this
  have hj : j = 0 := Subsingleton.elim _ _
  rw [hj]; exact this

/-! ## 5. The fit clauses stated on the model's `poly` (not on an abstract matrix)

REVIEW NOTE.  `fit_recovers`, `fit_recovers_min`, `fit_spec_linear` above are facts of linear algebra
about an arbitrary matrix `A`; nothing in their statements mentions Zernike polynomials, and the only
instance of the rank hypothesis was a 1×1 matrix.  Below they are instantiated on the model:
`ZernikeFit(x, y, z, type, N)` minimises `Σ_i (poly(c)(r_i, φ_i) − z_i)²` over coefficient vectors of
length `N`, `poly` using the first `N` indices of the family. -/

open ZernikeFit in
/-- the first `N` indices of a family (`terms` pairs coefficient `k` with `indices[k]`) -/
def firstIdx (f : Family) (N : ℕ) (j : Fin N) : Int × Int := (indices f).getD j (0, 0)

theorem indices_length (f : Family) : (indices f).length = 120 := by
  cases f
  · show standardIndices.length = 120
    rw [← standard_table_model]; exact standard_indices.1
  · show fringeIndices.length = 120
    rw [← fringe_table_model]; exact fringe_indices.1
  · show nollIndices.length = 120
    rw [← noll_table_model]; exact noll_indices.1

theorem take_eq_ofFn {β : Type} (l : List β) (d : β) (N : ℕ) (hN : N ≤ l.length) :
    l.take N = List.ofFn (fun j : Fin N => l.getD j d) := by
  apply List.ext_getElem
  · simp [hN]
  · intro i h1 h2
    have hi : i < N := by simpa using h2
    have hil : i < l.length := by omega
    simp [List.getD_eq_getElem?_getD, hil]

/-- a coefficient vector of length `N ≤ 120` meets exactly the first `N` indices -/
theorem poly_first (f : Family) {N : ℕ} (hN : N ≤ 120) (c : Fin N → ℝ) (r φ : ℝ) :
    poly f (List.ofFn c) r φ = polyOn f (List.ofFn (firstIdx f N)) (List.ofFn c) r φ := by
  have hl : N ≤ (indices f).length := by rw [indices_length]; exact hN
  unfold poly polyOn termsOn firstIdx
  rw [← take_eq_ofFn (indices f) (0, 0) N hl, List.zipWith_eq_zipWith_take_min]
  simp only [List.length_ofFn, hl, inf_of_le_left]
  rw [List.take_of_length_le (by simp : (List.ofFn c).length ≤ N)]

/-- `poly` of `N` coefficients at the sample points is the design matrix of the first `N` terms -/
theorem poly_eq_design_first (f : Family) {M N : ℕ} (hN : N ≤ 120) (pts : Fin M → ℝ × ℝ) (c : Fin N → ℝ)
    (i : Fin M) :
    poly f (List.ofFn c) (pts i).1 (pts i).2 = (ZernikeFit.design f (firstIdx f N) pts).mulVec c i := by
  rw [poly_first f hN, ZernikeFit.poly_eq_design]

/-- **fitting exact data recovers the coefficients** (the property's clause, on the model): if the data
are `z_i = poly(c)(r_i, φ_i)` for a vector `c` of `N ≤ 120` coefficients, the sample points make the
design matrix of the first `N` terms of full column rank, and `x` minimises the sum of squared
residuals `Σ_i (poly(x)(r_i, φ_i) − z_i)²` (what `least_squares` is asked for), then `x = c`. -/
theorem fit_recovers_model (f : Family) {M N : ℕ} (hN : N ≤ 120) (pts : Fin M → ℝ × ℝ) (c x : Fin N → ℝ)
    (hA : Function.Injective (ZernikeFit.design f (firstIdx f N) pts).mulVec)
    (hmin : ∀ y : Fin N → ℝ,
      ∑ i, (poly f (List.ofFn x) (pts i).1 (pts i).2 - poly f (List.ofFn c) (pts i).1 (pts i).2) ^ 2 ≤
      ∑ i, (poly f (List.ofFn y) (pts i).1 (pts i).2 - poly f (List.ofFn c) (pts i).1 (pts i).2) ^ 2) :
    x = c := by
  apply ZernikeFit.lsq_min_exact (ZernikeFit.design f (firstIdx f N) pts) hA x c
  intro y
  have key : ∀ u : Fin N → ℝ,
      dotProduct ((ZernikeFit.design f (firstIdx f N) pts).mulVec u - (ZernikeFit.design f (firstIdx f N) pts).mulVec c)
        ((ZernikeFit.design f (firstIdx f N) pts).mulVec u - (ZernikeFit.design f (firstIdx f N) pts).mulVec c) =
      ∑ i, (poly f (List.ofFn u) (pts i).1 (pts i).2 - poly f (List.ofFn c) (pts i).1 (pts i).2) ^ 2 := by
    intro u
    unfold dotProduct
    apply Finset.sum_congr rfl
    intro i _
    rw [Pi.sub_apply, ← poly_eq_design_first f hN pts u i, ← poly_eq_design_first f hN pts c i, sq]
  rw [key x, key y]
  exact hmin y

/-- **the fit is linear in the data** (on the model): if `x₁`, `x₂` are least-squares fits (solutions of
the normal equations of the design matrix of the first `N` terms) of data `z₁`, `z₂`, then `a x₁ + b x₂`
is a least-squares fit of `a z₁ + b z₂`: it minimises `Σ_i (poly(y)(r_i, φ_i) − (a z₁ + b z₂)_i)²`. -/
theorem fit_linear_model (f : Family) {M N : ℕ} (hN : N ≤ 120) (pts : Fin M → ℝ × ℝ)
    (x₁ x₂ : Fin N → ℝ) (z₁ z₂ : Fin M → ℝ) (a b : ℝ)
    (h₁ : (ZernikeFit.design f (firstIdx f N) pts).transpose.mulVec
            ((ZernikeFit.design f (firstIdx f N) pts).mulVec x₁) =
          (ZernikeFit.design f (firstIdx f N) pts).transpose.mulVec z₁)
    (h₂ : (ZernikeFit.design f (firstIdx f N) pts).transpose.mulVec
            ((ZernikeFit.design f (firstIdx f N) pts).mulVec x₂) =
          (ZernikeFit.design f (firstIdx f N) pts).transpose.mulVec z₂) (y : Fin N → ℝ) :
    ∑ i, (poly f (List.ofFn (a • x₁ + b • x₂)) (pts i).1 (pts i).2 - (a • z₁ + b • z₂) i) ^ 2 ≤
    ∑ i, (poly f (List.ofFn y) (pts i).1 (pts i).2 - (a • z₁ + b • z₂) i) ^ 2 := by
  have hlin := ZernikeFit.lsq_normal_linear _ x₁ x₂ z₁ z₂ a b h₁ h₂
  have hmin := ZernikeFit.lsq_normal_is_min _ (a • x₁ + b • x₂) (a • z₁ + b • z₂) hlin y
  have key : ∀ u : Fin N → ℝ,
      dotProduct ((ZernikeFit.design f (firstIdx f N) pts).mulVec u - (a • z₁ + b • z₂))
        ((ZernikeFit.design f (firstIdx f N) pts).mulVec u - (a • z₁ + b • z₂)) =
      ∑ i, (poly f (List.ofFn u) (pts i).1 (pts i).2 - (a • z₁ + b • z₂) i) ^ 2 := by
    intro u
    unfold dotProduct
    apply Finset.sum_congr rfl
    intro i _
    rw [Pi.sub_apply, ← poly_eq_design_first f hN pts u i, sq]
  rw [key, key] at hmin
  exact hmin

/-! ### the rank hypothesis is satisfiable by a genuine Zernike design matrix

Fringe, `N = 3` (piston, x-tilt, y-tilt), three pupil points `(r, φ) = (0, 0), (1, 0), (1, π/2)`: the
design matrix is `[[1, 0, 0], [1, 1, 0], [1, 0, −1]]` (note the `−1`: the code's sine terms are
`sin(mφ)` with negative `m`). -/

theorem radial_low (r : ℝ) :
    radialTerm 0 0 r = 1 ∧ radialTerm 1 1 r = r ∧ radialTerm 1 (-1) r = r := by
  have h00 : radialCoeffs 0 0 = [(0, 1)] := by decide +kernel
  have h11 : radialCoeffs 1 1 = [(1, 1)] := by decide +kernel
  have h1m : radialCoeffs 1 (-1) = [(1, 1)] := by decide +kernel
  refine ⟨?_, ?_, ?_⟩
  · rw [ZernikeR.radialTerm_real, h00]; simp [ZernikeR.evalR]
  · rw [ZernikeR.radialTerm_real, h11]; simp [ZernikeR.evalR]
  · rw [ZernikeR.radialTerm_real, h1m]; simp [ZernikeR.evalR]

noncomputable def tiltPts : Fin 3 → ℝ × ℝ := ![(0, 0), (1, 0), (1, Real.pi / 2)]

theorem fringe_first3 : firstIdx .fringe 3 = ![(0, 0), (1, 1), (1, -1)] := by
  funext j
  unfold firstIdx
  show fringeIndices.getD j (0, 0) = _
  rw [← fringe_table_model]
  fin_cases j <;> rfl

theorem tilt_design_rows (u : Fin 3 → ℝ) :
    (ZernikeFit.design .fringe (firstIdx .fringe 3) tiltPts).mulVec u =
      ![u 0, u 0 + u 1, u 0 - u 2] := by
  funext i
  rw [fringe_first3]
  simp only [Matrix.mulVec, dotProduct, Fin.sum_univ_three, ZernikeFit.design]
  fin_cases i <;>
    (simp [tiltPts, ZernikeR.getTerm_real, ZernikeR.norm_fringe, radial_low, ZernikeR.azimuthalTerm_real]
     try ring)

theorem tilt_design_injective :
    Function.Injective (ZernikeFit.design .fringe (firstIdx .fringe 3) tiltPts).mulVec := by
  intro u v h
  rw [tilt_design_rows, tilt_design_rows] at h
  have h0 := congrFun h 0
  have h1 := congrFun h 1
  have h2 := congrFun h 2
  simp at h0 h1 h2
  funext j
  fin_cases j
  · exact h0
  · show u 1 = v 1; linarith
  · show u 2 = v 2; linarith

/-- non-vacuity of `fit_recovers_model`: all hypotheses hold for the three-term Fringe fit on `tiltPts`
with `x = c` (the generating vector is a minimiser: its residual is zero) -/
example (c : Fin 3 → ℝ) :
    Function.Injective (ZernikeFit.design .fringe (firstIdx .fringe 3) tiltPts).mulVec ∧
    ∀ y : Fin 3 → ℝ,
      ∑ i, (poly .fringe (List.ofFn c) (tiltPts i).1 (tiltPts i).2 -
            poly .fringe (List.ofFn c) (tiltPts i).1 (tiltPts i).2) ^ 2 ≤
      ∑ i, (poly .fringe (List.ofFn y) (tiltPts i).1 (tiltPts i).2 -
            poly .fringe (List.ofFn c) (tiltPts i).1 (tiltPts i).2) ^ 2 :=
  ⟨tilt_design_injective, fun y => by
    simp only [sub_self, ne_eq, OfNat.ofNat_ne_zero, not_false_eq_true, zero_pow, Finset.sum_const_zero]
    exact Finset.sum_nonneg fun i _ => sq_nonneg _⟩

end C10
