import OptiModel.Model.Psf
import OptiModel.Proofs.NumReal
import OptiModel.Proofs.Dft
import OptiModel.Proofs.PsfBridge
import Mathlib.Tactic.FieldSimp
import Mathlib.Tactic.Ring
import Mathlib.Tactic.Linarith
import Mathlib.Tactic.Positivity
/-!
# C11  PSF, Strehl ratio and MTF are correctly normalised transforms of the pupil

Theorems about `Model/Psf.lean` at the carrier ℝ.  Complex numbers of the model are pairs; `toC`
reads a pair as an element of ℂ.  `E N m = exp(-2πi m/N)`; `dft2R N x k1 k2 = Σ_{j1,j2<N}
x j1 j2 · E N (j1 k1 + j2 k2)` (`dft2R_eq_sum`) is the defining sum of `np.fft.fft2`.
`supportCount n P` is the number of non-zero pupil samples, `amp mean mask I` the real amplitude
`intensity / mean` inside the mask.

Known defects of the tree (see `known_findings.json`) are stated as theorems about the `…Code`
functions: F17 (`strehl_code_unaberrated`, `strehl_code_exceeds_one`), F9 (`cutoff_frequency_code`,
`cutoff_frequency_code_iff`), odd `grid − num_rays` (`strehl_code_reads_off_centre`,
`mtf_code_slices_shifted`).

Not theorems (numerical in the harness): the closed form `(2/π)(φ − cos φ sin φ)` for the sampled
circular pupil (an approximation statement), `np.fft.fft2` = the defining sum, the scatter of the
ray list into the raster (`ranks`) and the binning of `np.histogram`.
-/
namespace C11
open Finset Model.Psf DftMath PsfBridge
open scoped Real

instance paddedSize_neZero (n g : ℕ) [NeZero n] : NeZero (paddedSize n g) :=
  ⟨by have := NeZero.pos n; unfold paddedSize; omega⟩

lemma pad_fits (n g : ℕ) : padWidth n g + n ≤ paddedSize n g := by unfold paddedSize; omega

/-! ### the PSF is a non-negative, normalised squared modulus of the DFT of the padded pupil -/

/-- every pixel is `|DFT₂(pad P)[k]|² · 100 / norm`, `k` the `fftshift`-ed index, with the DFT written
out as the defining double sum -/
theorem psf_is_sq_modulus (n g : ℕ) [NeZero n] (P : ℕ → ℕ → Cx ℝ) (norm : ℝ) (r c : ℕ)
    (hr : r < paddedSize n g) (hc : c < paddedSize n g) :
    psfGrid n g P norm r c =
      Complex.normSq (∑ j1 ∈ range (paddedSize n g), ∑ j2 ∈ range (paddedSize n g),
        toC (padFn n (padWidth n g) P j1 j2) *
          E (paddedSize n g) ((j1 * shiftIdx (paddedSize n g) r + j2 * shiftIdx (paddedSize n g) c : ℕ) : ℤ))
      / norm * 100 := by
  unfold psfGrid psfTab
  rw [psfTabG_entry n _ _ P norm r c hr hc, dft2R_eq_sum]
  rfl

theorem psf_nonneg (n g : ℕ) [NeZero n] (P : ℕ → ℕ → Cx ℝ) (norm : ℝ) (hn : 0 < norm) (r c : ℕ)
    (hr : r < paddedSize n g) (hc : c < paddedSize n g) : 0 ≤ psfGrid n g P norm r c := by
  unfold psfGrid psfTab
  rw [psfTabG_entry n _ _ P norm r c hr hc]
  have := Complex.normSq_nonneg (dft2R (paddedSize n g) (padC n (padWidth n g) P)
    (shiftIdx (paddedSize n g) r) (shiftIdx (paddedSize n g) c))
  positivity

/-! ### the normalisation is the peak of the unaberrated pupil -/

/-- `max |DFT₂(1_{P≠0})|² = (#support)²` -/
theorem norm_is_unaberrated_peak (n : ℕ) [NeZero n] (P : ℕ → ℕ → Cx ℝ) :
    normFactor n P = supportCount n P ^ 2 := normFactor_eq n P

/-- … and that maximum is attained at zero frequency (triangle inequality) -/
theorem nominal_peak_at_dc (n : ℕ) (P : ℕ → ℕ → Cx ℝ) (k1 k2 : ℕ) :
    Complex.normSq (dft2R n (nomC P) k1 k2) ≤ supportCount n P ^ 2 ∧
    Complex.normSq (dft2R n (nomC P) 0 0) = supportCount n P ^ 2 := by
  constructor
  · rw [Complex.normSq_eq_norm_sq]
    have hb := norm_dft2R_le n (nomC P) k1 k2
    rw [sum_norm_nomC] at hb
    exact pow_le_pow_left₀ (norm_nonneg _) hb 2
  · rw [dft2R_zero, sum_nomC, Complex.normSq_ofReal]; ring

/-- with the property's normalisation (`Σ amplitude = #support`) the unaberrated pupil (`W = 0`)
gives a central value of exactly 100 and no pixel above 100 -/
theorem unaberrated_peak_is_100 (n g : ℕ) [NeZero n] (mean : ℝ) (mask : ℕ → ℕ → Bool) (I : ℕ → ℕ → ℝ)
    (P : ℕ → ℕ → Cx ℝ) (hP : P = pupil mean mask I fun _ _ => 0)
    (hA : ∀ r c, r < n → c < n → 0 ≤ amp mean mask I r c)
    (hsum : ∑ r ∈ range n, ∑ c ∈ range n, amp mean mask I r c = supportCount n P)
    (hS : 0 < supportCount n P) :
    psfGrid n g P (normFactor n P) (paddedSize n g / 2) (paddedSize n g / 2) = 100 ∧
    ∀ r c, r < paddedSize n g → c < paddedSize n g → psfGrid n g P (normFactor n P) r c ≤ 100 := by
  have hnorm : normFactor n P = supportCount n P ^ 2 := normFactor_eq n P
  have hpos : 0 < supportCount n P ^ 2 := by positivity
  have hPc : ∀ i j, toC (P i j) = (amp mean mask I i j : ℂ) :=
    fun i j => by rw [hP]; exact toC_pupil_zero_phase mean mask I i j
  constructor
  · unfold psfGrid psfTab
    rw [psfTabG_centre n _ _ (pad_fits n g) P, hnorm]
    simp_rw [hPc]
    rw [show (∑ i ∈ range n, ∑ j ∈ range n, (amp mean mask I i j : ℂ))
        = ((∑ i ∈ range n, ∑ j ∈ range n, amp mean mask I i j : ℝ) : ℂ) by push_cast; rfl,
      Complex.normSq_ofReal, hsum, ← sq, div_self (ne_of_gt hpos), one_mul]
  · intro r c hr hc
    unfold psfGrid psfTab
    refine (psfTabG_le n _ _ (pad_fits n g) P _ (hnorm ▸ hpos) r c hr hc).trans (le_of_eq ?_)
    simp_rw [hPc, Complex.norm_real, Real.norm_eq_abs]
    rw [sum_congr rfl fun r hr => sum_congr rfl fun c hc =>
      abs_of_nonneg (hA r c (mem_range.mp hr) (mem_range.mp hc)), hsum, hnorm,
      div_self (ne_of_gt hpos), one_mul]

/-! ### Parseval: the energy of the PSF does not depend on the phase -/

/-- 2-D Parseval for the separable transform (from the 1-D identity `DftMath.parsevalR`, which is
DESIGN appendix A.6 moved from `ZMod N` to `range N`) -/
theorem parseval2 (N : ℕ) [NeZero N] (x : ℕ → ℕ → ℂ) :
    ∑ k1 ∈ range N, ∑ k2 ∈ range N, Complex.normSq (dft2R N x k1 k2)
      = (N : ℝ) ^ 2 * ∑ j1 ∈ range N, ∑ j2 ∈ range N, Complex.normSq (x j1 j2) := parseval2R N x

/-- total of the PSF = `G² · Σ|P|² · 100 / norm` -/
theorem psf_energy (n g : ℕ) [NeZero n] (P : ℕ → ℕ → Cx ℝ) (norm : ℝ) :
    ∑ r ∈ range (paddedSize n g), ∑ c ∈ range (paddedSize n g), psfGrid n g P norm r c
      = (paddedSize n g : ℝ) ^ 2 * (∑ i ∈ range n, ∑ j ∈ range n, Complex.normSq (toC (P i j))) / norm * 100 :=
  psfTabG_sum n _ _ (pad_fits n g) P norm

/-- same amplitudes, any two phase maps: same total energy (normalisation included) -/
theorem energy_independent_of_phase (n g : ℕ) [NeZero n] (mean : ℝ) (mask : ℕ → ℕ → Bool)
    (I W W' : ℕ → ℕ → ℝ) :
    ∑ r ∈ range (paddedSize n g), ∑ c ∈ range (paddedSize n g),
        psfGrid n g (pupil mean mask I W) (normFactor n (pupil mean mask I W)) r c
      = ∑ r ∈ range (paddedSize n g), ∑ c ∈ range (paddedSize n g),
        psfGrid n g (pupil mean mask I W') (normFactor n (pupil mean mask I W')) r c := by
  rw [psf_energy, psf_energy, normFactor_eq, normFactor_eq, supportCount_pupil, supportCount_pupil]
  simp_rw [normSq_pupil]

/-! ### Strehl ratio -/

/-- central value / 100 of the array that was transformed, for amplitudes `A ≥ 0` with
`Σ A = #support`: never above one.  (Holds for the tree's array as well as for the
`grid_size × grid_size` array of the specification: see `strehl_le_one_spec`.) -/
theorem strehl_le_one_central (n gp pad : ℕ) [NeZero n] [NeZero gp] (hfit : pad + n ≤ gp)
    (mean : ℝ) (mask : ℕ → ℕ → Bool) (I W : ℕ → ℕ → ℝ)
    (hA : ∀ r c, r < n → c < n → 0 ≤ amp mean mask I r c)
    (hsum : ∑ r ∈ range n, ∑ c ∈ range n, amp mean mask I r c = supportCount n (pupil mean mask I W))
    (hS : 0 < supportCount n (pupil mean mask I W)) :
    strehlSpec gp (look2 Num.zero (psfTabG n gp pad (pupil mean mask I W)
      (normFactor n (pupil mean mask I W)))) ≤ 1 := by
  unfold strehlSpec
  rw [strehlAt_eq, psfTabG_centre n gp pad hfit, normFactor_eq, Complex.normSq_eq_norm_sq]
  have hb := norm_sum_pupil_le n mean mask I W hA
  rw [hsum] at hb
  have h2 := pow_le_pow_left₀ (norm_nonneg _) hb 2
  have hpos : 0 < supportCount n (pupil mean mask I W) ^ 2 := by positivity
  rw [div_mul_eq_mul_div, div_div, div_le_one (by positivity)]
  nlinarith

/-- the property's Strehl clause for the specification (`grid_size²` array, amplitude normalised
over the transmitted samples) -/
theorem strehl_le_one_spec (n g : ℕ) [NeZero n] (hg : n ≤ g)
    (mean : ℝ) (mask : ℕ → ℕ → Bool) (I W : ℕ → ℕ → ℝ)
    (hA : ∀ r c, r < n → c < n → 0 ≤ amp mean mask I r c)
    (hsum : ∑ r ∈ range n, ∑ c ∈ range n, amp mean mask I r c = supportCount n (pupil mean mask I W))
    (hS : 0 < supportCount n (pupil mean mask I W)) :
    strehlSpec g (look2 Num.zero (psfTabSpec n g (pupil mean mask I W)
      (normFactor n (pupil mean mask I W)))) ≤ 1 := by
  have : NeZero g := ⟨by have := NeZero.pos n; omega⟩
  unfold psfTabSpec
  exact strehl_le_one_central n g (padWidth n g) (by unfold padWidth; omega) mean mask I W hA hsum hS

/-- `amplitude = intensity / np.mean(intensity)`: the amplitudes add up to the number of *all*
samples … -/
theorem meanCode_normalises (inten : ℕ → ℝ) (m : ℕ) (h : rsum inten m ≠ 0) :
    ∑ i ∈ range m, inten i / meanCode inten m = m := by
  have hm : (m : ℝ) ≠ 0 := by
    rintro h0
    have : m = 0 := by exact_mod_cast h0
    subst this
    exact h rfl
  unfold meanCode
  rw [← sum_div, ← rsum_eq]
  num_real
  simp only [Num.ofNat, NumReal.ofRat_eq, Nat.cast_one, div_one]
  field_simp

/-- … whereas dividing by the mean over the transmitted samples makes them add up to `#support` -/
theorem meanSpec_normalises (inten : ℕ → ℝ) (m : ℕ) (h : rsum inten m ≠ 0)
    (hc : countNonzero inten m ≠ 0) :
    ∑ i ∈ range m, inten i / meanSpec inten m = countNonzero inten m := by
  have hm : ((countNonzero inten m : ℕ) : ℝ) ≠ 0 := by exact_mod_cast hc
  unfold meanSpec
  rw [← sum_div, ← rsum_eq]
  num_real
  simp only [Num.ofNat, NumReal.ofRat_eq, Nat.cast_one, div_one]
  field_simp

/-- FULL STATEMENT (false on the tree, F17): `strehlCode … ≤ 1` for every pupil normalised as the
code normalises it (`Σ A = #samples in the mask`).  Proved part: pupils without blocked samples
(`A > 0` on the whole mask, so `#support = #mask`) and even `grid_size − num_rays`. -/
theorem strehl_le_one_partial (n g : ℕ) [NeZero n] (hg : n ≤ g) (heven : (g - n) % 2 = 0)
    (mean : ℝ) (mask : ℕ → ℕ → Bool) (I W : ℕ → ℕ → ℝ)
    (hA : ∀ r c, r < n → c < n → 0 ≤ amp mean mask I r c)
    (hcode : ∑ r ∈ range n, ∑ c ∈ range n, amp mean mask I r c
              = ∑ r ∈ range n, ∑ c ∈ range n, if mask r c then (1 : ℝ) else 0)
    (hfull : ∀ r c, r < n → c < n → mask r c = true → amp mean mask I r c ≠ 0)
    (hS : 0 < supportCount n (pupil mean mask I W)) :
    strehlCode g (psfGrid n g (pupil mean mask I W) (normFactor n (pupil mean mask I W))) ≤ 1 := by
  have hgp : paddedSize n g = g := by unfold paddedSize padWidth; omega
  have hsum : ∑ r ∈ range n, ∑ c ∈ range n, amp mean mask I r c = supportCount n (pupil mean mask I W) := by
    rw [hcode, supportCount_pupil]
    refine sum_congr rfl fun r hr => sum_congr rfl fun c hc => ?_
    by_cases hm : mask r c = true
    · rw [if_pos hm, if_pos (hfull r c (mem_range.mp hr) (mem_range.mp hc) hm)]
    · rw [if_neg hm, if_neg]
      simp [amp, hm]
  have := strehl_le_one_central n (paddedSize n g) (padWidth n g) (pad_fits n g) mean mask I W hA hsum hS
  unfold strehlCode
  unfold strehlSpec at this
  rw [hgp] at this
  unfold psfGrid psfTab
  rw [hgp]
  exact this

/-- what the tree computes for an unaberrated pupil (`W = 0`, even `grid_size − num_rays`):
`(Σ A / #support)²`; with the code's normalisation `Σ A = #mask` this is `(#mask / #support)²` -/
theorem strehl_code_unaberrated (n g : ℕ) [NeZero n] (hg : n ≤ g) (heven : (g - n) % 2 = 0)
    (mean : ℝ) (mask : ℕ → ℕ → Bool) (I : ℕ → ℕ → ℝ)
    (P : ℕ → ℕ → Cx ℝ) (hP : P = pupil mean mask I fun _ _ => 0)
    (hS : 0 < supportCount n P) :
    strehlCode g (psfGrid n g P (normFactor n P))
      = ((∑ r ∈ range n, ∑ c ∈ range n, amp mean mask I r c) / supportCount n P) ^ 2 := by
  have hgp : paddedSize n g = g := by unfold paddedSize padWidth; omega
  have hPc : ∀ i j, toC (P i j) = (amp mean mask I i j : ℂ) :=
    fun i j => by rw [hP]; exact toC_pupil_zero_phase mean mask I i j
  unfold strehlCode
  rw [strehlAt_eq]
  unfold psfGrid psfTab
  have hc := psfTabG_centre n (paddedSize n g) (padWidth n g) (pad_fits n g) P (normFactor n P)
  rw [hgp] at hc ⊢
  rw [hc, normFactor_eq]
  simp_rw [hPc]
  rw [show (∑ i ∈ range n, ∑ j ∈ range n, (amp mean mask I i j : ℂ))
      = ((∑ i ∈ range n, ∑ j ∈ range n, amp mean mask I i j : ℝ) : ℂ) by push_cast; rfl,
    Complex.normSq_ofReal]
  have : supportCount n P ≠ 0 := ne_of_gt hS
  field_simp

/-- NEGATION WITNESS for `strehl_le_one` on the tree (F17): a 2×2 pupil, one transmitted sample of
intensity 1, three blocked ones, no aberration; `mean = np.mean(intensity) = 1/4`; the tree's
Strehl ratio is 16. -/
theorem strehl_code_exceeds_one :
    ∃ (n g : ℕ) (mask : ℕ → ℕ → Bool) (I W : ℕ → ℕ → ℝ) (mean : ℝ),
      (∀ r c, 0 ≤ I r c) ∧
      mean = (∑ r ∈ range n, ∑ c ∈ range n, if mask r c then I r c else 0) /
             (∑ r ∈ range n, ∑ c ∈ range n, if mask r c then (1 : ℝ) else 0) ∧
      1 < strehlCode g (psfGrid n g (pupil mean mask I W) (normFactor n (pupil mean mask I W))) := by
  refine ⟨2, 2, fun _ _ => true, fun r c => if r = 0 ∧ c = 0 then 1 else 0, fun _ _ => 0, 1 / 4, ?_, ?_, ?_⟩
  · intro r c
    show 0 ≤ (if r = 0 ∧ c = 0 then (1 : ℝ) else 0)
    split_ifs <;> norm_num
  · simp [sum_range_succ]; norm_num
  · have hS : supportCount 2 (pupil (1 / 4) (fun _ _ => true)
        (fun r c => if r = 0 ∧ c = 0 then (1 : ℝ) else 0) fun _ _ => 0) = 1 := by
      rw [supportCount_pupil]
      simp [sum_range_succ, amp]
    have h := strehl_code_unaberrated 2 2 (le_refl _) (by norm_num) (1 / 4) (fun _ _ => true)
      (fun r c => if r = 0 ∧ c = 0 then (1 : ℝ) else 0) _ rfl (by rw [hS]; norm_num)
    rw [h, hS]
    simp [sum_range_succ, amp]

/-- odd `num_rays`, even `grid_size`: the transformed array has side `grid_size − 1`, its
zero-frequency pixel is `grid_size/2 − 1`, and `strehl_ratio` reads pixel `grid_size/2` -/
theorem strehl_code_reads_off_centre (n g : ℕ) (hg : n ≤ g) (hn : n % 2 = 1) (hge : g % 2 = 0) :
    paddedSize n g = g - 1 ∧ paddedSize n g / 2 + 1 = g / 2 ∧
    ∀ psf : ℕ → ℕ → ℝ, strehlCode g psf = strehlAt (paddedSize n g / 2 + 1) psf := by
  have h1 : paddedSize n g = g - 1 := by unfold paddedSize padWidth; omega
  have h2 : paddedSize n g / 2 + 1 = g / 2 := by rw [h1]; omega
  exact ⟨h1, h2, fun psf => by unfold strehlCode; rw [h2]⟩

/-! ### FFT MTF -/

/-- MTF = |FFT₂(psf)| divided by its zero-frequency value `Σ psf` (slices started at the
zero-frequency index of the transformed array) -/
theorem mtf_is_normalised_modulus (gp : ℕ) [NeZero gp] (psf : ℕ → ℕ → ℝ)
    (hp : ∀ r c, r < gp → c < gp → 0 ≤ psf r c) (k : ℕ) (hk : k < gp - gp / 2) :
    look Num.zero (mtfSlices gp (sliceStartSpec gp) psf).1 k
        = otfAbs gp psf (gp / 2 + k) (gp / 2) / total gp psf ∧
    look Num.zero (mtfSlices gp (sliceStartSpec gp) psf).2 k
        = otfAbs gp psf (gp / 2) (gp / 2 + k) / total gp psf :=
  mtfSlices_eq gp psf hp k hk

/-- every curve starts at one (`|Σ p e^{iθ}| ≤ Σ p` makes the first entry the maximum) -/
theorem mtf_dc_one (gp : ℕ) [NeZero gp] (psf : ℕ → ℕ → ℝ)
    (hp : ∀ r c, r < gp → c < gp → 0 ≤ psf r c) (ht : 0 < total gp psf) :
    look Num.zero (mtfSlices gp (sliceStartSpec gp) psf).1 0 = 1 ∧
    look Num.zero (mtfSlices gp (sliceStartSpec gp) psf).2 0 = 1 := by
  have hpos := NeZero.pos gp
  have h := mtfSlices_eq gp psf hp 0 (by omega)
  unfold sliceStartSpec
  rw [h.1, h.2, Nat.add_zero, otfAbs_centre gp psf hp]
  exact ⟨div_self (ne_of_gt ht), div_self (ne_of_gt ht)⟩

/-- … and stays within [0, 1] -/
theorem mtf_in_unit_interval (gp : ℕ) [NeZero gp] (psf : ℕ → ℕ → ℝ)
    (hp : ∀ r c, r < gp → c < gp → 0 ≤ psf r c) (ht : 0 < total gp psf) (k : ℕ) (hk : k < gp - gp / 2) :
    (0 ≤ look Num.zero (mtfSlices gp (sliceStartSpec gp) psf).1 k ∧
      look Num.zero (mtfSlices gp (sliceStartSpec gp) psf).1 k ≤ 1) ∧
    (0 ≤ look Num.zero (mtfSlices gp (sliceStartSpec gp) psf).2 k ∧
      look Num.zero (mtfSlices gp (sliceStartSpec gp) psf).2 k ≤ 1) := by
  have h := mtfSlices_eq gp psf hp k hk
  unfold sliceStartSpec
  rw [h.1, h.2]
  exact ⟨⟨div_nonneg (otfAbs_nonneg _ _ _ _) ht.le, (div_le_one ht).mpr (otfAbs_le gp psf hp _ _)⟩,
         ⟨div_nonneg (otfAbs_nonneg _ _ _ _) ht.le, (div_le_one ht).mpr (otfAbs_le gp psf hp _ _)⟩⟩

/-- the tree's slices (`data[grid_size//2:, …]`) are those of the specification whenever
`grid_size − num_rays` is even … -/
theorem mtf_code_slices_even (n g : ℕ) (hg : n ≤ g) (heven : (g - n) % 2 = 0) :
    sliceStartCode g = sliceStartSpec (paddedSize n g) := by
  unfold sliceStartCode sliceStartSpec paddedSize padWidth
  congr 1; omega

/-- … and start one bin *after* zero frequency when `num_rays` is odd and `grid_size` even -/
theorem mtf_code_slices_shifted (n g : ℕ) (hg : n ≤ g) (hn : n % 2 = 1) (hge : g % 2 = 0) :
    sliceStartCode g = sliceStartSpec (paddedSize n g) + 1 := by
  unfold sliceStartCode sliceStartSpec paddedSize padWidth
  omega

/-! ### no MTF exceeds the diffraction-limited one -/

/-- discrete Wiener–Khinchin: `DFT₂(|DFT₂ x|²) = N² ·` circular autocorrelation of `x` -/
theorem wiener_khinchin (N : ℕ) [NeZero N] (x : ℕ → ℕ → ℂ) (s1 s2 : ℕ) :
    dft2R N (fun k1 k2 => ((Complex.normSq (dft2R N x k1 k2) : ℝ) : ℂ)) s1 s2
      = (N : ℂ) ^ 2 * ∑ j1 ∈ range N, ∑ j2 ∈ range N,
          x j1 j2 * (starRingEnd ℂ) (x ((j1 + s1) % N) ((j2 + s2) % N)) := wiener_khinchin2 N x s1 s2

/-- every sample of both normalised MTF slices of a pupil `P` is bounded by the corresponding
sample for the zero-phase pupil `P0 = |P|` (the diffraction-limited system with the same
transmission), same normalisation -/
theorem mtf_le_diffraction_limited (n gp pad : ℕ) [NeZero gp] (hfit : pad + n ≤ gp)
    (P P0 : ℕ → ℕ → Cx ℝ) (h0 : ∀ i j, toC (P0 i j) = ((‖toC (P i j)‖ : ℝ) : ℂ))
    (norm : ℝ) (hn : 0 < norm)
    (hE : 0 < total gp (look2 Num.zero (psfTabG n gp pad P norm)))
    (k : ℕ) (hk : k < gp - gp / 2) :
    look Num.zero (mtfSlices gp (sliceStartSpec gp) (look2 Num.zero (psfTabG n gp pad P norm))).1 k
      ≤ look Num.zero (mtfSlices gp (sliceStartSpec gp) (look2 Num.zero (psfTabG n gp pad P0 norm))).1 k ∧
    look Num.zero (mtfSlices gp (sliceStartSpec gp) (look2 Num.zero (psfTabG n gp pad P norm))).2 k
      ≤ look Num.zero (mtfSlices gp (sliceStartSpec gp) (look2 Num.zero (psfTabG n gp pad P0 norm))).2 k := by
  have hP := mtfSlices_eq gp _ (fun r c hr hc => psfTabG_nonneg n gp pad P norm hn r c hr hc) k hk
  have hP0 := mtfSlices_eq gp _ (fun r c hr hc => psfTabG_nonneg n gp pad P0 norm hn r c hr hc) k hk
  unfold sliceStartSpec
  rw [hP.1, hP.2, hP0.1, hP0.2, total_zero_phase n gp pad hfit P P0 h0 norm]
  exact ⟨div_le_div_of_nonneg_right (otfAbs_le_zero_phase n gp pad P P0 h0 norm _ _) hE.le,
         div_le_div_of_nonneg_right (otfAbs_le_zero_phase n gp pad P P0 h0 norm _ _) hE.le⟩

/-- the zero-phase pupil of the model: same intensities, `W = 0`, amplitudes `≥ 0` -/
theorem zero_phase_pupil (mean : ℝ) (mask : ℕ → ℕ → Bool) (I W : ℕ → ℕ → ℝ)
    (hA : ∀ r c, 0 ≤ amp mean mask I r c) (i j : ℕ) :
    toC (pupil mean mask I (fun _ _ => 0) i j) = ((‖toC (pupil mean mask I W i j)‖ : ℝ) : ℂ) := by
  rw [toC_pupil_zero_phase, norm_pupil, abs_of_nonneg (hA i j)]

/-! ### frequency axis and cut-off -/

/-- specification: sample `num_rays` of a slice is the cut-off `1/(λ·10⁻³·FNO)` cycles/mm -/
theorem cutoff_frequency (n : ℕ) (hn : n ≠ 0) (wl fno : ℝ) (hw : wl ≠ 0) (hf : fno ≠ 0) :
    freqAxis (freqStepSpec n wl fno) n = maxFreq wl fno := by
  have hn' : (n : ℝ) ≠ 0 := by exact_mod_cast hn
  unfold freqAxis freqStepSpec maxFreq
  num_real
  simp only [Num.ofNat, NumReal.ofRat_eq, Nat.cast_one, div_one, Nat.cast_ofNat]
  field_simp

/-- the tree (F9): the frequency attached to sample `num_rays` is `grid_size/1000` times the cut-off -/
theorem cutoff_frequency_code (n g : ℕ) (hn : n ≠ 0) (wl fno : ℝ) (hw : wl ≠ 0) (hf : fno ≠ 0) :
    freqAxis (freqStepCode n g wl fno) n = (g : ℝ) / 1000 * maxFreq wl fno := by
  have hn' : (n : ℝ) ≠ 0 := by exact_mod_cast hn
  unfold freqAxis freqStepCode maxFreq
  num_real
  simp only [Num.ofNat, NumReal.ofRat_eq, Nat.cast_one, div_one, Nat.cast_ofNat]
  field_simp

/-- hence the tree's axis is right exactly for `grid_size = 1000` -/
theorem cutoff_frequency_code_iff (n g : ℕ) (hn : n ≠ 0) (wl fno : ℝ) (hw : 0 < wl) (hf : 0 < fno) :
    freqAxis (freqStepCode n g wl fno) n = maxFreq wl fno ↔ g = 1000 := by
  rw [cutoff_frequency_code n g hn wl fno hw.ne' hf.ne']
  have hm : maxFreq wl fno ≠ 0 := by
    unfold maxFreq
    num_real
    simp only [Nat.cast_one, Nat.cast_ofNat]
    positivity
  constructor
  · intro h
    have h1 : (g : ℝ) / 1000 = 1 := by
      have := mul_right_cancel₀ hm (h.trans (one_mul _).symm)
      exact this
    have h2 : (g : ℝ) = 1000 := by linarith [(div_eq_one_iff_eq (by norm_num : (1000 : ℝ) ≠ 0)).mp h1]
    exact_mod_cast h2
  · rintro rfl
    norm_num

/-- both steps differ by the factor `grid_size/1000` at every sample -/
theorem freq_step_ratio (n g : ℕ) (hn : n ≠ 0) (wl fno : ℝ) (hw : wl ≠ 0) (hf : fno ≠ 0) :
    freqStepCode n g wl fno = (g : ℝ) / 1000 * freqStepSpec n wl fno := by
  have hn' : (n : ℝ) ≠ 0 := by exact_mod_cast hn
  unfold freqStepCode freqStepSpec
  num_real
  simp only [Num.ofNat, NumReal.ofRat_eq, Nat.cast_one, div_one, Nat.cast_ofNat]
  field_simp

/-! ### geometric MTF -/

/-- one frequency of `GeometricMTF._compute_field_data` is the modulus of the Fourier transform of
the line spread (histogram counts `A_j` at the bin centres `x_j`) divided by its total -/
theorem geometric_mtf_is_line_spread_ft (A xc : ℕ → ℝ) (dx : ℝ) (nb : ℕ) (v : ℝ)
    (hdx : dx ≠ 0) (hA : 0 < ∑ j ∈ range nb, A j) :
    geoMtfAt A xc dx nb v
      = ‖∑ j ∈ range nb, (A j : ℂ) * Complex.exp (((2 * π * v * xc j : ℝ) : ℂ) * Complex.I)‖
        / ∑ j ∈ range nb, A j := by
  unfold geoMtfAt
  simp only [rsum_eq]
  num_real
  set S := ∑ j ∈ range nb, A j with hS
  have hden : ∑ j ∈ range nb, A j * dx = S * dx := by rw [hS, sum_mul]
  have hc : ∑ j ∈ range nb, A j * Real.cos (2 * π * v * xc j) * dx
      = (∑ j ∈ range nb, A j * Real.cos (2 * π * v * xc j)) * dx := by rw [sum_mul]
  have hs : ∑ j ∈ range nb, A j * Real.sin (2 * π * v * xc j) * dx
      = (∑ j ∈ range nb, A j * Real.sin (2 * π * v * xc j)) * dx := by rw [sum_mul]
  rw [hden, hc, hs]
  set C := ∑ j ∈ range nb, A j * Real.cos (2 * π * v * xc j)
  set Sn := ∑ j ∈ range nb, A j * Real.sin (2 * π * v * xc j)
  have hz : (∑ j ∈ range nb, (A j : ℂ) * Complex.exp (((2 * π * v * xc j : ℝ) : ℂ) * Complex.I))
      = ⟨C, Sn⟩ := by
    apply Complex.ext
    · simp only [Complex.re_sum, Complex.mul_re, Complex.ofReal_re, Complex.ofReal_im, zero_mul, sub_zero,
        Complex.exp_ofReal_mul_I_re]
      rfl
    · simp only [Complex.im_sum, Complex.mul_im, Complex.ofReal_re, Complex.ofReal_im, zero_mul, add_zero,
        Complex.exp_ofReal_mul_I_im]
      rfl
  rw [hz, Complex.norm_def, Complex.normSq_mk]
  have hS0 : S ≠ 0 := ne_of_gt hA
  rw [mul_div_mul_right _ _ hdx, mul_div_mul_right _ _ hdx]
  rw [show C / S * (C / S) + Sn / S * (Sn / S) = (C * C + Sn * Sn) / S ^ 2 by field_simp]
  rw [Real.sqrt_div' _ (by positivity), Real.sqrt_sq hA.le]

/-- the unscaled geometric MTF never exceeds one (triangle inequality), so the scaled one never
exceeds the diffraction-limit factor it is multiplied with -/
theorem geometric_mtf_le_diff_limit (A xc : ℕ → ℝ) (dx : ℝ) (nb : ℕ) (v scale : ℝ)
    (hdx : dx ≠ 0) (hnn : ∀ j, j < nb → 0 ≤ A j) (hA : 0 < ∑ j ∈ range nb, A j) (hs : 0 ≤ scale) :
    geoMtfAt A xc dx nb v * scale ≤ scale := by
  rw [geometric_mtf_is_line_spread_ft A xc dx nb v hdx hA]
  have hb : ‖∑ j ∈ range nb, (A j : ℂ) * Complex.exp (((2 * π * v * xc j : ℝ) : ℂ) * Complex.I)‖
      ≤ ∑ j ∈ range nb, A j := by
    refine (norm_sum_le _ _).trans (le_of_eq (sum_congr rfl fun j hj => ?_))
    rw [norm_mul, Complex.norm_exp_ofReal_mul_I, mul_one, Complex.norm_real, Real.norm_eq_abs,
      abs_of_nonneg (hnn j (mem_range.mp hj))]
  have : ‖∑ j ∈ range nb, (A j : ℂ) * Complex.exp (((2 * π * v * xc j : ℝ) : ℂ) * Complex.I)‖
      / ∑ j ∈ range nb, A j ≤ 1 := (div_le_one hA).mpr hb
  nlinarith

/-- at zero frequency the geometric MTF is one -/
theorem geometric_mtf_dc_one (A xc : ℕ → ℝ) (dx : ℝ) (nb : ℕ)
    (hdx : dx ≠ 0) (hA : 0 < ∑ j ∈ range nb, A j) : geoMtfAt A xc dx nb 0 = 1 := by
  rw [geometric_mtf_is_line_spread_ft A xc dx nb 0 hdx hA]
  simp only [mul_zero, zero_mul, Complex.ofReal_zero, Complex.exp_zero, mul_one]
  rw [← Complex.ofReal_sum, Complex.norm_real, Real.norm_eq_abs, abs_of_pos hA, div_self (ne_of_gt hA)]

/-- the diffraction-limit formula `(2/π)(φ − cos φ sin φ)`, `φ = arccos(ν/ν_c)`, is 1 at zero
frequency and 0 at the cut-off -/
theorem diff_limit_endpoints : diffLimit (0 : ℝ) = 1 ∧ diffLimit (1 : ℝ) = 0 := by
  unfold diffLimit
  num_real
  constructor
  · rw [Real.arccos_zero, Real.cos_pi_div_two]
    have := Real.pi_pos
    field_simp
    ring
  · rw [Real.arccos_one, Real.cos_zero, Real.sin_zero]
    simp

/-- non-vacuity of the hypotheses used above: a 2-bin line spread -/
example : ∃ (A : ℕ → ℝ) (nb : ℕ), (∀ j, j < nb → 0 ≤ A j) ∧ 0 < ∑ j ∈ range nb, A j :=
  ⟨fun _ => 1, 2, fun _ _ => by norm_num, by simp⟩

/-- non-vacuity: a PSF with positive total -/
example : ∃ (gp : ℕ) (psf : ℕ → ℕ → ℝ), (∀ r c, r < gp → c < gp → 0 ≤ psf r c) ∧ 0 < total gp psf :=
  ⟨1, fun _ _ => 1, fun _ _ _ _ => by norm_num, by simp [total]⟩

/-- non-vacuity of the amplitude hypotheses (`A ≥ 0`, `Σ A = #support > 0`): a one-sample pupil -/
example : ∃ (n : ℕ) (mean : ℝ) (mask : ℕ → ℕ → Bool) (I W : ℕ → ℕ → ℝ),
    (∀ r c, r < n → c < n → 0 ≤ amp mean mask I r c) ∧
    (∑ r ∈ range n, ∑ c ∈ range n, amp mean mask I r c = supportCount n (pupil mean mask I W)) ∧
    0 < supportCount n (pupil mean mask I W) := by
  refine ⟨1, 1, fun _ _ => true, fun _ _ => 1, fun _ _ => 0, ?_, ?_, ?_⟩
  · intro r c _ _; simp [amp]
  · rw [supportCount_pupil]; simp [amp]
  · rw [supportCount_pupil]; simp [amp]

end C11
