import OptiModel.Model.Psf
import OptiModel.Proofs.NumReal
import OptiModel.Proofs.Dft
import OptiModel.Proofs.PsfBridge
import Mathlib.Tactic.FieldSimp
import Mathlib.Tactic.Ring
import Mathlib.Tactic.Linarith
import Mathlib.Tactic.Positivity
/-!
# C11  PSF, Strehl ratio and MTF are correctly normalised transforms of the pupil

Theorems about `Model/Psf.lean` at the carrier ℝ.  Complex numbers of the model are pairs; `toC`
reads a pair as an element of ℂ.  `E N m = exp(-2πi m/N)`; `dft2R N x k1 k2 = Σ_{j1,j2<N}
x j1 j2 · E N (j1 k1 + j2 k2)` (`dft2R_eq_sum`) is the defining sum of `np.fft.fft2`.
`supportCount n P` is the number of non-zero pupil samples, `amp mean mask I` the real amplitude
`intensity / mean` inside the mask.

Defects of the tree *as first examined* (see `known_findings.json`; all of F17, F9, F-C11-1…5 are
now `fixed` in `/repo`) are stated as theorems about the `…Code` functions: F17
(`strehl_code_unaberrated`, `strehl_code_exceeds_one`), F9 (`cutoff_frequency_code`,
`cutoff_frequency_code_iff`), odd `grid − num_rays` (`strehl_code_reads_off_centre`,
`mtf_code_slices_shifted`).  REVIEW NOTE: since those repairs `/repo` is the `…Spec` variant
(`meanSpec`, `psfTabSpec`, `strehlSpec g`, `sliceStartSpec g`, `freqStepSpec`); "the tree" in the
docstrings of the `…Code` theorems means the tree before the repairs.  The clause theorems that were
stated only for `psfGrid` (= `psfTab`, the old padding) are restated for `psfTabSpec` in the last
section (`psfSpec_*`, `mtf_pipeline`, `mtf_zero_from_cutoff`, `strehl_le_one_psfSpec`).

Not theorems (numerical in the harness): the closed form `(2/π)(φ − cos φ sin φ)` for the sampled
circular pupil (an approximation statement), `np.fft.fft2` = the defining sum, the scatter of the
ray list into the raster (`ranks`) and the binning of `np.histogram`.
-/
namespace C11
open Finset Model.Psf DftMath PsfBridge
open scoped Real

instance paddedSize_neZero (n g : ℕ) [NeZero n] : NeZero (paddedSize n g) :=
  ⟨by have := NeZero.pos n; unfold paddedSize; omega⟩

lemma pad_fits (n g : ℕ) : padWidth n g + n ≤ paddedSize n g := by unfold paddedSize; omega

/-! ### the PSF is a non-negative, normalised squared modulus of the DFT of the padded pupil -/

/-- every pixel is `|DFT₂(pad P)[k]|² · 100 / norm`, `k` the `fftshift`-ed index, with the DFT written
out as the defining double sum -/
theorem psf_is_sq_modulus (n g : ℕ) [NeZero n] (P : ℕ → ℕ → Cx ℝ) (norm : ℝ) (r c : ℕ)
    (hr : r < paddedSize n g) (hc : c < paddedSize n g) :
    psfGrid n g P norm r c =
      Complex.normSq (∑ j1 ∈ range (paddedSize n g), ∑ j2 ∈ range (paddedSize n g),
        toC (padFn n (padWidth n g) P j1 j2) *
          E (paddedSize n g) ((j1 * shiftIdx (paddedSize n g) r + j2 * shiftIdx (paddedSize n g) c : ℕ) : ℤ))
      / norm * 100 := by
  unfold psfGrid psfTab
  rw [psfTabG_entry n _ _ P norm r c hr hc, dft2R_eq_sum]
  rfl

theorem psf_nonneg (n g : ℕ) [NeZero n] (P : ℕ → ℕ → Cx ℝ) (norm : ℝ) (hn : 0 < norm) (r c : ℕ)
    (hr : r < paddedSize n g) (hc : c < paddedSize n g) : 0 ≤ psfGrid n g P norm r c := by
  unfold psfGrid psfTab
  rw [psfTabG_entry n _ _ P norm r c hr hc]
  have := Complex.normSq_nonneg (dft2R (paddedSize n g) (padC n (padWidth n g) P)
    (shiftIdx (paddedSize n g) r) (shiftIdx (paddedSize n g) c))
  positivity

/-! ### the normalisation is the peak of the unaberrated pupil -/

/-- `max |DFT₂(1_{P≠0})|² = (#support)²` -/
theorem norm_is_unaberrated_peak (n : ℕ) [NeZero n] (P : ℕ → ℕ → Cx ℝ) :
    normFactor n P = supportCount n P ^ 2 := normFactor_eq n P

/-- … and that maximum is attained at zero frequency (triangle inequality) -/
theorem nominal_peak_at_dc (n : ℕ) (P : ℕ → ℕ → Cx ℝ) (k1 k2 : ℕ) :
    Complex.normSq (dft2R n (nomC P) k1 k2) ≤ supportCount n P ^ 2 ∧
    Complex.normSq (dft2R n (nomC P) 0 0) = supportCount n P ^ 2 := by
  constructor
  · rw [Complex.normSq_eq_norm_sq]
    have hb := norm_dft2R_le n (nomC P) k1 k2
    rw [sum_norm_nomC] at hb
    exact pow_le_pow_left₀ (norm_nonneg _) hb 2
  · rw [dft2R_zero, sum_nomC, Complex.normSq_ofReal]; ring

/-- with the property's normalisation (`Σ amplitude = #support`) the unaberrated pupil (`W = 0`)
gives a central value of exactly 100 and no pixel above 100 -/
theorem unaberrated_peak_is_100 (n g : ℕ) [NeZero n] (mean : ℝ) (mask : ℕ → ℕ → Bool) (I : ℕ → ℕ → ℝ)
    (P : ℕ → ℕ → Cx ℝ) (hP : P = pupil mean mask I fun _ _ => 0)
    (hA : ∀ r c, r < n → c < n → 0 ≤ amp mean mask I r c)
    (hsum : ∑ r ∈ range n, ∑ c ∈ range n, amp mean mask I r c = supportCount n P)
    (hS : 0 < supportCount n P) :
    psfGrid n g P (normFactor n P) (paddedSize n g / 2) (paddedSize n g / 2) = 100 ∧
    ∀ r c, r < paddedSize n g → c < paddedSize n g → psfGrid n g P (normFactor n P) r c ≤ 100 := by
  have hnorm : normFactor n P = supportCount n P ^ 2 := normFactor_eq n P
  have hpos : 0 < supportCount n P ^ 2 := by positivity
  have hPc : ∀ i j, toC (P i j) = (amp mean mask I i j : ℂ) :=
    fun i j => by rw [hP]; exact toC_pupil_zero_phase mean mask I i j
  constructor
  · unfold psfGrid psfTab
    rw [psfTabG_centre n _ _ (pad_fits n g) P, hnorm]
    simp_rw [hPc]
    rw [show (∑ i ∈ range n, ∑ j ∈ range n, (amp mean mask I i j : ℂ))
        = ((∑ i ∈ range n, ∑ j ∈ range n, amp mean mask I i j : ℝ) : ℂ) by push_cast; rfl,
      Complex.normSq_ofReal, hsum, ← sq, div_self (ne_of_gt hpos), one_mul]
  · intro r c hr hc
    unfold psfGrid psfTab
    refine (psfTabG_le n _ _ (pad_fits n g) P _ (hnorm ▸ hpos) r c hr hc).trans (le_of_eq ?_)
    simp_rw [hPc, Complex.norm_real, Real.norm_eq_abs]
    rw [sum_congr rfl fun r hr => sum_congr rfl fun c hc =>
      abs_of_nonneg (hA r c (mem_range.mp hr) (mem_range.mp hc)), hsum, hnorm,
      div_self (ne_of_gt hpos), one_mul]

/-! ### Parseval: the energy of the PSF does not depend on the phase -/

/-- 2-D Parseval for the separable transform (from the 1-D identity `DftMath.parsevalR`, which is
DESIGN appendix A.6 moved from `ZMod N` to `range N`) -/
theorem parseval2 (N : ℕ) [NeZero N] (x : ℕ → ℕ → ℂ) :
    ∑ k1 ∈ range N, ∑ k2 ∈ range N, Complex.normSq (dft2R N x k1 k2)
      = (N : ℝ) ^ 2 * ∑ j1 ∈ range N, ∑ j2 ∈ range N, Complex.normSq (x j1 j2) := parseval2R N x

/-- total of the PSF = `G² · Σ|P|² · 100 / norm` -/
theorem psf_energy (n g : ℕ) [NeZero n] (P : ℕ → ℕ → Cx ℝ) (norm : ℝ) :
    ∑ r ∈ range (paddedSize n g), ∑ c ∈ range (paddedSize n g), psfGrid n g P norm r c
      = (paddedSize n g : ℝ) ^ 2 * (∑ i ∈ range n, ∑ j ∈ range n, Complex.normSq (toC (P i j))) / norm * 100 :=
  psfTabG_sum n _ _ (pad_fits n g) P norm

/-- same amplitudes, any two phase maps: same total energy (normalisation included) -/
theorem energy_independent_of_phase (n g : ℕ) [NeZero n] (mean : ℝ) (mask : ℕ → ℕ → Bool)
    (I W W' : ℕ → ℕ → ℝ) :
    ∑ r ∈ range (paddedSize n g), ∑ c ∈ range (paddedSize n g),
        psfGrid n g (pupil mean mask I W) (normFactor n (pupil mean mask I W)) r c
      = ∑ r ∈ range (paddedSize n g), ∑ c ∈ range (paddedSize n g),
        psfGrid n g (pupil mean mask I W') (normFactor n (pupil mean mask I W')) r c := by
  rw [psf_energy, psf_energy, normFactor_eq, normFactor_eq, supportCount_pupil, supportCount_pupil]
  simp_rw [normSq_pupil]

/-! ### Strehl ratio -/

/-- central value / 100 of the array that was transformed, for amplitudes `A ≥ 0` with
`Σ A = #support`: never above one.  (Holds for the tree's array as well as for the
`grid_size × grid_size` array of the specification: see `strehl_le_one_spec`.) -/
theorem strehl_le_one_central (n gp pad : ℕ) [NeZero n] [NeZero gp] (hfit : pad + n ≤ gp)
    (mean : ℝ) (mask : ℕ → ℕ → Bool) (I W : ℕ → ℕ → ℝ)
    (hA : ∀ r c, r < n → c < n → 0 ≤ amp mean mask I r c)
    (hsum : ∑ r ∈ range n, ∑ c ∈ range n, amp mean mask I r c = supportCount n (pupil mean mask I W))
    (hS : 0 < supportCount n (pupil mean mask I W)) :
    strehlSpec gp (look2 Num.zero (psfTabG n gp pad (pupil mean mask I W)
      (normFactor n (pupil mean mask I W)))) ≤ 1 := by
  unfold strehlSpec
  rw [strehlAt_eq, psfTabG_centre n gp pad hfit, normFactor_eq, Complex.normSq_eq_norm_sq]
  have hb := norm_sum_pupil_le n mean mask I W hA
  rw [hsum] at hb
  have h2 := pow_le_pow_left₀ (norm_nonneg _) hb 2
  have hpos : 0 < supportCount n (pupil mean mask I W) ^ 2 := by positivity
  rw [div_mul_eq_mul_div, div_div, div_le_one (by positivity)]
  nlinarith

/-- the property's Strehl clause for the specification (`grid_size²` array, amplitude normalised
over the transmitted samples) -/
theorem strehl_le_one_spec (n g : ℕ) [NeZero n] (hg : n ≤ g)
    (mean : ℝ) (mask : ℕ → ℕ → Bool) (I W : ℕ → ℕ → ℝ)
    (hA : ∀ r c, r < n → c < n → 0 ≤ amp mean mask I r c)
    (hsum : ∑ r ∈ range n, ∑ c ∈ range n, amp mean mask I r c = supportCount n (pupil mean mask I W))
    (hS : 0 < supportCount n (pupil mean mask I W)) :
    strehlSpec g (look2 Num.zero (psfTabSpec n g (pupil mean mask I W)
      (normFactor n (pupil mean mask I W)))) ≤ 1 := by
  have : NeZero g := ⟨by have := NeZero.pos n; omega⟩
  unfold psfTabSpec
  exact strehl_le_one_central n g (padWidth n g) (by unfold padWidth; omega) mean mask I W hA hsum hS

/-- `amplitude = intensity / np.mean(intensity)`: the amplitudes add up to the number of *all*
samples … -/
theorem meanCode_normalises (inten : ℕ → ℝ) (m : ℕ) (h : rsum inten m ≠ 0) :
    ∑ i ∈ range m, inten i / meanCode inten m = m := by
  have hm : (m : ℝ) ≠ 0 := by
    rintro h0
    have : m = 0 := by exact_mod_cast h0
    subst this
    exact h rfl
  unfold meanCode
  rw [← sum_div, ← rsum_eq]
  num_real
  simp only [Num.ofNat, NumReal.ofRat_eq, Nat.cast_one, div_one]
  field_simp

/-- … whereas dividing by the mean over the transmitted samples makes them add up to `#support` -/
theorem meanSpec_normalises (inten : ℕ → ℝ) (m : ℕ) (h : rsum inten m ≠ 0)
    (hc : countNonzero inten m ≠ 0) :
    ∑ i ∈ range m, inten i / meanSpec inten m = countNonzero inten m := by
  have hm : ((countNonzero inten m : ℕ) : ℝ) ≠ 0 := by exact_mod_cast hc
  unfold meanSpec
  rw [← sum_div, ← rsum_eq]
  num_real
  simp only [Num.ofNat, NumReal.ofRat_eq, Nat.cast_one, div_one]
  field_simp

/-- FULL STATEMENT (false on the tree, F17): `strehlCode … ≤ 1` for every pupil normalised as the
code normalises it (`Σ A = #samples in the mask`).  Proved part: pupils without blocked samples
(`A > 0` on the whole mask, so `#support = #mask`) and even `grid_size − num_rays`. -/
theorem strehl_le_one_partial (n g : ℕ) [NeZero n] (hg : n ≤ g) (heven : (g - n) % 2 = 0)
    (mean : ℝ) (mask : ℕ → ℕ → Bool) (I W : ℕ → ℕ → ℝ)
    (hA : ∀ r c, r < n → c < n → 0 ≤ amp mean mask I r c)
    (hcode : ∑ r ∈ range n, ∑ c ∈ range n, amp mean mask I r c
              = ∑ r ∈ range n, ∑ c ∈ range n, if mask r c then (1 : ℝ) else 0)
    (hfull : ∀ r c, r < n → c < n → mask r c = true → amp mean mask I r c ≠ 0)
    (hS : 0 < supportCount n (pupil mean mask I W)) :
    strehlCode g (psfGrid n g (pupil mean mask I W) (normFactor n (pupil mean mask I W))) ≤ 1 := by
  have hgp : paddedSize n g = g := by unfold paddedSize padWidth; omega
  have hsum : ∑ r ∈ range n, ∑ c ∈ range n, amp mean mask I r c = supportCount n (pupil mean mask I W) := by
    rw [hcode, supportCount_pupil]
    refine sum_congr rfl fun r hr => sum_congr rfl fun c hc => ?_
    by_cases hm : mask r c = true
    · rw [if_pos hm, if_pos (hfull r c (mem_range.mp hr) (mem_range.mp hc) hm)]
    · rw [if_neg hm, if_neg]
      simp [amp, hm]
  have := strehl_le_one_central n (paddedSize n g) (padWidth n g) (pad_fits n g) mean mask I W hA hsum hS
  unfold strehlCode
  unfold strehlSpec at this
  rw [hgp] at this
  unfold psfGrid psfTab
  rw [hgp]
  exact this

/-- what the tree computes for an unaberrated pupil (`W = 0`, even `grid_size − num_rays`):
`(Σ A / #support)²`; with the code's normalisation `Σ A = #mask` this is `(#mask / #support)²` -/
theorem strehl_code_unaberrated (n g : ℕ) [NeZero n] (hg : n ≤ g) (heven : (g - n) % 2 = 0)
    (mean : ℝ) (mask : ℕ → ℕ → Bool) (I : ℕ → ℕ → ℝ)
    (P : ℕ → ℕ → Cx ℝ) (hP : P = pupil mean mask I fun _ _ => 0)
    (hS : 0 < supportCount n P) :
    strehlCode g (psfGrid n g P (normFactor n P))
      = ((∑ r ∈ range n, ∑ c ∈ range n, amp mean mask I r c) / supportCount n P) ^ 2 := by
  have hgp : paddedSize n g = g := by unfold paddedSize padWidth; omega
  have hPc : ∀ i j, toC (P i j) = (amp mean mask I i j : ℂ) :=
    fun i j => by rw [hP]; exact toC_pupil_zero_phase mean mask I i j
  unfold strehlCode
  rw [strehlAt_eq]
  unfold psfGrid psfTab
  have hc := psfTabG_centre n (paddedSize n g) (padWidth n g) (pad_fits n g) P (normFactor n P)
  rw [hgp] at hc ⊢
  rw [hc, normFactor_eq]
  simp_rw [hPc]
  rw [show (∑ i ∈ range n, ∑ j ∈ range n, (amp mean mask I i j : ℂ))
      = ((∑ i ∈ range n, ∑ j ∈ range n, amp mean mask I i j : ℝ) : ℂ) by push_cast; rfl,
    Complex.normSq_ofReal]
  have : supportCount n P ≠ 0 := ne_of_gt hS
  field_simp

/-- NEGATION WITNESS for `strehl_le_one` on the tree (F17): a 2×2 pupil, one transmitted sample of
intensity 1, three blocked ones, no aberration; `mean = np.mean(intensity) = 1/4`; the tree's
Strehl ratio is 16. -/
theorem strehl_code_exceeds_one :
    ∃ (n g : ℕ) (mask : ℕ → ℕ → Bool) (I W : ℕ → ℕ → ℝ) (mean : ℝ),
      (∀ r c, 0 ≤ I r c) ∧
      mean = (∑ r ∈ range n, ∑ c ∈ range n, if mask r c then I r c else 0) /
             (∑ r ∈ range n, ∑ c ∈ range n, if mask r c then (1 : ℝ) else 0) ∧
      1 < strehlCode g (psfGrid n g (pupil mean mask I W) (normFactor n (pupil mean mask I W))) := by
  refine ⟨2, 2, fun _ _ => true, fun r c => if r = 0 ∧ c = 0 then 1 else 0, fun _ _ => 0, 1 / 4, ?_, ?_, ?_⟩
  · intro r c
    show 0 ≤ (if r = 0 ∧ c = 0 then (1 : ℝ) else 0)
    split_ifs <;> norm_num
  · simp [sum_range_succ]; norm_num
  · have hS : supportCount 2 (pupil (1 / 4) (fun _ _ => true)
        (fun r c => if r = 0 ∧ c = 0 then (1 : ℝ) else 0) fun _ _ => 0) = 1 := by
      rw [supportCount_pupil]
      simp [sum_range_succ, amp]
    have h := strehl_code_unaberrated 2 2 (le_refl _) (by norm_num) (1 / 4) (fun _ _ => true)
      (fun r c => if r = 0 ∧ c = 0 then (1 : ℝ) else 0) _ rfl (by rw [hS]; norm_num)
    rw [h, hS]
    simp [sum_range_succ, amp]

/-- odd `num_rays`, even `grid_size`: the transformed array has side `grid_size − 1`, its
zero-frequency pixel is `grid_size/2 − 1`, and `strehl_ratio` reads pixel `grid_size/2` -/
theorem strehl_code_reads_off_centre (n g : ℕ) (hg : n ≤ g) (hn : n % 2 = 1) (hge : g % 2 = 0) :
    paddedSize n g = g - 1 ∧ paddedSize n g / 2 + 1 = g / 2 ∧
    ∀ psf : ℕ → ℕ → ℝ, strehlCode g psf = strehlAt (paddedSize n g / 2 + 1) psf := by
  have h1 : paddedSize n g = g - 1 := by unfold paddedSize padWidth; omega
  have h2 : paddedSize n g / 2 + 1 = g / 2 := by rw [h1]; omega
  exact ⟨h1, h2, fun psf => by unfold strehlCode; rw [h2]⟩

/-! ### FFT MTF -/

/-- MTF = |FFT₂(psf)| divided by its zero-frequency value `Σ psf` (slices started at the
zero-frequency index of the transformed array) -/
theorem mtf_is_normalised_modulus (gp : ℕ) [NeZero gp] (psf : ℕ → ℕ → ℝ)
    (hp : ∀ r c, r < gp → c < gp → 0 ≤ psf r c) (k : ℕ) (hk : k < gp - gp / 2) :
    look Num.zero (mtfSlices gp (sliceStartSpec gp) psf).1 k
        = otfAbs gp psf (gp / 2 + k) (gp / 2) / total gp psf ∧
    look Num.zero (mtfSlices gp (sliceStartSpec gp) psf).2 k
        = otfAbs gp psf (gp / 2) (gp / 2 + k) / total gp psf :=
  mtfSlices_eq gp psf hp k hk

/-- every curve starts at one (`|Σ p e^{iθ}| ≤ Σ p` makes the first entry the maximum) -/
theorem mtf_dc_one (gp : ℕ) [NeZero gp] (psf : ℕ → ℕ → ℝ)
    (hp : ∀ r c, r < gp → c < gp → 0 ≤ psf r c) (ht : 0 < total gp psf) :
    look Num.zero (mtfSlices gp (sliceStartSpec gp) psf).1 0 = 1 ∧
    look Num.zero (mtfSlices gp (sliceStartSpec gp) psf).2 0 = 1 := by
  have hpos := NeZero.pos gp
  have h := mtfSlices_eq gp psf hp 0 (by omega)
  unfold sliceStartSpec
  rw [h.1, h.2, Nat.add_zero, otfAbs_centre gp psf hp]
  exact ⟨div_self (ne_of_gt ht), div_self (ne_of_gt ht)⟩

/-- … and stays within [0, 1] -/
theorem mtf_in_unit_interval (gp : ℕ) [NeZero gp] (psf : ℕ → ℕ → ℝ)
    (hp : ∀ r c, r < gp → c < gp → 0 ≤ psf r c) (ht : 0 < total gp psf) (k : ℕ) (hk : k < gp - gp / 2) :
    (0 ≤ look Num.zero (mtfSlices gp (sliceStartSpec gp) psf).1 k ∧
      look Num.zero (mtfSlices gp (sliceStartSpec gp) psf).1 k ≤ 1) ∧
    (0 ≤ look Num.zero (mtfSlices gp (sliceStartSpec gp) psf).2 k ∧
      look Num.zero (mtfSlices gp (sliceStartSpec gp) psf).2 k ≤ 1) := by
  have h := mtfSlices_eq gp psf hp k hk
  unfold sliceStartSpec
  rw [h.1, h.2]
  exact ⟨⟨div_nonneg (otfAbs_nonneg _ _ _ _) ht.le, (div_le_one ht).mpr (otfAbs_le gp psf hp _ _)⟩,
         ⟨div_nonneg (otfAbs_nonneg _ _ _ _) ht.le, (div_le_one ht).mpr (otfAbs_le gp psf hp _ _)⟩⟩

/-- the tree's slices (`data[grid_size//2:, …]`) are those of the specification whenever
`grid_size − num_rays` is even … -/
theorem mtf_code_slices_even (n g : ℕ) (hg : n ≤ g) (heven : (g - n) % 2 = 0) :
    sliceStartCode g = sliceStartSpec (paddedSize n g) := by
  unfold sliceStartCode sliceStartSpec paddedSize padWidth
  congr 1; omega

/-- … and start one bin *after* zero frequency when `num_rays` is odd and `grid_size` even -/
theorem mtf_code_slices_shifted (n g : ℕ) (hg : n ≤ g) (hn : n % 2 = 1) (hge : g % 2 = 0) :
    sliceStartCode g = sliceStartSpec (paddedSize n g) + 1 := by
  unfold sliceStartCode sliceStartSpec paddedSize padWidth
  omega

/-! ### no MTF exceeds the diffraction-limited one -/

/-- discrete Wiener–Khinchin: `DFT₂(|DFT₂ x|²) = N² ·` circular autocorrelation of `x` -/
theorem wiener_khinchin (N : ℕ) [NeZero N] (x : ℕ → ℕ → ℂ) (s1 s2 : ℕ) :
    dft2R N (fun k1 k2 => ((Complex.normSq (dft2R N x k1 k2) : ℝ) : ℂ)) s1 s2
      = (N : ℂ) ^ 2 * ∑ j1 ∈ range N, ∑ j2 ∈ range N,
          x j1 j2 * (starRingEnd ℂ) (x ((j1 + s1) % N) ((j2 + s2) % N)) := wiener_khinchin2 N x s1 s2

/-- every sample of both normalised MTF slices of a pupil `P` is bounded by the corresponding
sample for the zero-phase pupil `P0 = |P|` (the diffraction-limited system with the same
transmission), same normalisation -/
theorem mtf_le_diffraction_limited (n gp pad : ℕ) [NeZero gp] (hfit : pad + n ≤ gp)
    (P P0 : ℕ → ℕ → Cx ℝ) (h0 : ∀ i j, toC (P0 i j) = ((‖toC (P i j)‖ : ℝ) : ℂ))
    (norm : ℝ) (hn : 0 < norm)
    (hE : 0 < total gp (look2 Num.zero (psfTabG n gp pad P norm)))
    (k : ℕ) (hk : k < gp - gp / 2) :
    look Num.zero (mtfSlices gp (sliceStartSpec gp) (look2 Num.zero (psfTabG n gp pad P norm))).1 k
      ≤ look Num.zero (mtfSlices gp (sliceStartSpec gp) (look2 Num.zero (psfTabG n gp pad P0 norm))).1 k ∧
    look Num.zero (mtfSlices gp (sliceStartSpec gp) (look2 Num.zero (psfTabG n gp pad P norm))).2 k
      ≤ look Num.zero (mtfSlices gp (sliceStartSpec gp) (look2 Num.zero (psfTabG n gp pad P0 norm))).2 k := by
  have hP := mtfSlices_eq gp _ (fun r c hr hc => psfTabG_nonneg n gp pad P norm hn r c hr hc) k hk
  have hP0 := mtfSlices_eq gp _ (fun r c hr hc => psfTabG_nonneg n gp pad P0 norm hn r c hr hc) k hk
  unfold sliceStartSpec
  rw [hP.1, hP.2, hP0.1, hP0.2, total_zero_phase n gp pad hfit P P0 h0 norm]
  exact ⟨div_le_div_of_nonneg_right (otfAbs_le_zero_phase n gp pad P P0 h0 norm _ _) hE.le,
         div_le_div_of_nonneg_right (otfAbs_le_zero_phase n gp pad P P0 h0 norm _ _) hE.le⟩

/-- the zero-phase pupil of the model: same intensities, `W = 0`, amplitudes `≥ 0` -/
theorem zero_phase_pupil (mean : ℝ) (mask : ℕ → ℕ → Bool) (I W : ℕ → ℕ → ℝ)
    (hA : ∀ r c, 0 ≤ amp mean mask I r c) (i j : ℕ) :
    toC (pupil mean mask I (fun _ _ => 0) i j) = ((‖toC (pupil mean mask I W i j)‖ : ℝ) : ℂ) := by
  rw [toC_pupil_zero_phase, norm_pupil, abs_of_nonneg (hA i j)]

/-! ### frequency axis and cut-off -/

/-- specification: sample `num_rays` of a slice is the cut-off `1/(λ·10⁻³·FNO)` cycles/mm -/
theorem cutoff_frequency (n : ℕ) (hn : n ≠ 0) (wl fno : ℝ) (hw : wl ≠ 0) (hf : fno ≠ 0) :
    freqAxis (freqStepSpec n wl fno) n = maxFreq wl fno := by
  have hn' : (n : ℝ) ≠ 0 := by exact_mod_cast hn
  unfold freqAxis freqStepSpec maxFreq
  num_real
  simp only [Num.ofNat, NumReal.ofRat_eq, Nat.cast_one, div_one, Nat.cast_ofNat]
  field_simp

/-- the tree (F9): the frequency attached to sample `num_rays` is `grid_size/1000` times the cut-off -/
theorem cutoff_frequency_code (n g : ℕ) (hn : n ≠ 0) (wl fno : ℝ) (hw : wl ≠ 0) (hf : fno ≠ 0) :
    freqAxis (freqStepCode n g wl fno) n = (g : ℝ) / 1000 * maxFreq wl fno := by
  have hn' : (n : ℝ) ≠ 0 := by exact_mod_cast hn
  unfold freqAxis freqStepCode maxFreq
  num_real
  simp only [Num.ofNat, NumReal.ofRat_eq, Nat.cast_one, div_one, Nat.cast_ofNat]
  field_simp

/-- hence the tree's axis is right exactly for `grid_size = 1000` -/
theorem cutoff_frequency_code_iff (n g : ℕ) (hn : n ≠ 0) (wl fno : ℝ) (hw : 0 < wl) (hf : 0 < fno) :
    freqAxis (freqStepCode n g wl fno) n = maxFreq wl fno ↔ g = 1000 := by
  rw [cutoff_frequency_code n g hn wl fno hw.ne' hf.ne']
  have hm : maxFreq wl fno ≠ 0 := by
    unfold maxFreq
    num_real
    simp only [Nat.cast_one, Nat.cast_ofNat]
    positivity
  constructor
  · intro h
    have h1 : (g : ℝ) / 1000 = 1 := by
      have := mul_right_cancel₀ hm (h.trans (one_mul _).symm)
      exact this
    have h2 : (g : ℝ) = 1000 := by linarith [(div_eq_one_iff_eq (by norm_num : (1000 : ℝ) ≠ 0)).mp h1]
    exact_mod_cast h2
  · rintro rfl
    norm_num

/-- both steps differ by the factor `grid_size/1000` at every sample -/
theorem freq_step_ratio (n g : ℕ) (hn : n ≠ 0) (wl fno : ℝ) (hw : wl ≠ 0) (hf : fno ≠ 0) :
    freqStepCode n g wl fno = (g : ℝ) / 1000 * freqStepSpec n wl fno := by
  have hn' : (n : ℝ) ≠ 0 := by exact_mod_cast hn
  unfold freqStepCode freqStepSpec
  num_real
  simp only [Num.ofNat, NumReal.ofRat_eq, Nat.cast_one, div_one, Nat.cast_ofNat]
  field_simp

/-! ### geometric MTF -/

/-- one frequency of `GeometricMTF._compute_field_data` is the modulus of the Fourier transform of
the line spread (histogram counts `A_j` at the bin centres `x_j`) divided by its total -/
theorem geometric_mtf_is_line_spread_ft (A xc : ℕ → ℝ) (dx : ℝ) (nb : ℕ) (v : ℝ)
    (hdx : dx ≠ 0) (hA : 0 < ∑ j ∈ range nb, A j) :
    geoMtfAt A xc dx nb v
      = ‖∑ j ∈ range nb, (A j : ℂ) * Complex.exp (((2 * π * v * xc j : ℝ) : ℂ) * Complex.I)‖
        / ∑ j ∈ range nb, A j := by
  unfold geoMtfAt
  simp only [rsum_eq]
  num_real
  set S := ∑ j ∈ range nb, A j with hS
  have hden : ∑ j ∈ range nb, A j * dx = S * dx := by rw [hS, sum_mul]
  have hc : ∑ j ∈ range nb, A j * Real.cos (2 * π * v * xc j) * dx
      = (∑ j ∈ range nb, A j * Real.cos (2 * π * v * xc j)) * dx := by rw [sum_mul]
  have hs : ∑ j ∈ range nb, A j * Real.sin (2 * π * v * xc j) * dx
      = (∑ j ∈ range nb, A j * Real.sin (2 * π * v * xc j)) * dx := by rw [sum_mul]
  rw [hden, hc, hs]
  set C := ∑ j ∈ range nb, A j * Real.cos (2 * π * v * xc j)
  set Sn := ∑ j ∈ range nb, A j * Real.sin (2 * π * v * xc j)
  have hz : (∑ j ∈ range nb, (A j : ℂ) * Complex.exp (((2 * π * v * xc j : ℝ) : ℂ) * Complex.I))
      = ⟨C, Sn⟩ := by
    apply Complex.ext
    · simp only [Complex.re_sum, Complex.mul_re, Complex.ofReal_re, Complex.ofReal_im, zero_mul, sub_zero,
        Complex.exp_ofReal_mul_I_re]
      rfl
    · simp only [Complex.im_sum, Complex.mul_im, Complex.ofReal_re, Complex.ofReal_im, zero_mul, add_zero,
        Complex.exp_ofReal_mul_I_im]
      rfl
  rw [hz, Complex.norm_def, Complex.normSq_mk]
  have hS0 : S ≠ 0 := ne_of_gt hA
  rw [mul_div_mul_right _ _ hdx, mul_div_mul_right _ _ hdx]
  rw [show C / S * (C / S) + Sn / S * (Sn / S) = (C * C + Sn * Sn) / S ^ 2 by field_simp]
  rw [Real.sqrt_div' _ (by positivity), Real.sqrt_sq hA.le]

/-- the unscaled geometric MTF never exceeds one (triangle inequality), so the scaled one never
exceeds the diffraction-limit factor it is multiplied with -/
theorem geometric_mtf_le_diff_limit (A xc : ℕ → ℝ) (dx : ℝ) (nb : ℕ) (v scale : ℝ)
    (hdx : dx ≠ 0) (hnn : ∀ j, j < nb → 0 ≤ A j) (hA : 0 < ∑ j ∈ range nb, A j) (hs : 0 ≤ scale) :
    geoMtfAt A xc dx nb v * scale ≤ scale := by
  rw [geometric_mtf_is_line_spread_ft A xc dx nb v hdx hA]
  have hb : ‖∑ j ∈ range nb, (A j : ℂ) * Complex.exp (((2 * π * v * xc j : ℝ) : ℂ) * Complex.I)‖
      ≤ ∑ j ∈ range nb, A j := by
    refine (norm_sum_le _ _).trans (le_of_eq (sum_congr rfl fun j hj => ?_))
    rw [norm_mul, Complex.norm_exp_ofReal_mul_I, mul_one, Complex.norm_real, Real.norm_eq_abs,
      abs_of_nonneg (hnn j (mem_range.mp hj))]
  have : ‖∑ j ∈ range nb, (A j : ℂ) * Complex.exp (((2 * π * v * xc j : ℝ) : ℂ) * Complex.I)‖
      / ∑ j ∈ range nb, A j ≤ 1 := (div_le_one hA).mpr hb
  nlinarith

/-- at zero frequency the geometric MTF is one -/
theorem geometric_mtf_dc_one (A xc : ℕ → ℝ) (dx : ℝ) (nb : ℕ)
    (hdx : dx ≠ 0) (hA : 0 < ∑ j ∈ range nb, A j) : geoMtfAt A xc dx nb 0 = 1 := by
  rw [geometric_mtf_is_line_spread_ft A xc dx nb 0 hdx hA]
  simp only [mul_zero, zero_mul, Complex.ofReal_zero, Complex.exp_zero, mul_one]
  rw [← Complex.ofReal_sum, Complex.norm_real, Real.norm_eq_abs, abs_of_pos hA, div_self (ne_of_gt hA)]

/-- the diffraction-limit formula `(2/π)(φ − cos φ sin φ)`, `φ = arccos(ν/ν_c)`, is 1 at zero
frequency and 0 at the cut-off -/
theorem diff_limit_endpoints : diffLimit (0 : ℝ) = 1 ∧ diffLimit (1 : ℝ) = 0 := by
  unfold diffLimit
  num_real
  constructor
  · rw [Real.arccos_zero, Real.cos_pi_div_two]
    have := Real.pi_pos
    field_simp
    ring
  · rw [Real.arccos_one, Real.cos_zero, Real.sin_zero]
    simp

/-- non-vacuity of the hypotheses used above: a 2-bin line spread -/
example : ∃ (A : ℕ → ℝ) (nb : ℕ), (∀ j, j < nb → 0 ≤ A j) ∧ 0 < ∑ j ∈ range nb, A j :=
  ⟨fun _ => 1, 2, fun _ _ => by norm_num, by simp⟩

/-- non-vacuity: a PSF with positive total -/
example : ∃ (gp : ℕ) (psf : ℕ → ℕ → ℝ), (∀ r c, r < gp → c < gp → 0 ≤ psf r c) ∧ 0 < total gp psf :=
  ⟨1, fun _ _ => 1, fun _ _ _ _ => by norm_num, by simp [total]⟩

/-- non-vacuity of the amplitude hypotheses (`A ≥ 0`, `Σ A = #support > 0`): a one-sample pupil -/
example : ∃ (n : ℕ) (mean : ℝ) (mask : ℕ → ℕ → Bool) (I W : ℕ → ℕ → ℝ),
    (∀ r c, r < n → c < n → 0 ≤ amp mean mask I r c) ∧
    (∑ r ∈ range n, ∑ c ∈ range n, amp mean mask I r c = supportCount n (pupil mean mask I W)) ∧
    0 < supportCount n (pupil mean mask I W) := by
  refine ⟨1, 1, fun _ _ => true, fun _ _ => 1, fun _ _ => 0, ?_, ?_, ?_⟩
  · intro r c _ _; simp [amp]
  · rw [supportCount_pupil]; simp [amp]
  · rw [supportCount_pupil]; simp [amp]

/-! ### the `grid_size × grid_size` PSF (`psfTabSpec`) — what `/repo` computes since the repairs

REVIEW NOTE.  `psfGrid` above is the tree *before* commit a136490 (symmetric padding, side
`paddedSize n g`); `/repo` now pads to exactly `grid_size` (`pad`, `pad_end`), normalises the amplitude
over the transmitted samples (55d199a, `meanSpec`) and reads Strehl / slices at `grid_size // 2`, i.e.
it is `psfTabSpec`, `strehlSpec g`, `sliceStartSpec g`.  For even `grid_size − num_rays` the two arrays
coincide (`psfSpec_eq_psfGrid`); for odd differences the theorems about `psfGrid` say nothing about the
current tree.  The clauses are therefore restated here for `psfTabSpec`, for every parity, and the MTF
clauses are composed with the PSF (no free hypothesis on the PSF array is left). -/

/-- entry (r, c) of the `grid_size × grid_size` PSF -/
noncomputable def psfSpec (n g : ℕ) (P : ℕ → ℕ → Cx ℝ) (norm : ℝ) (r c : ℕ) : ℝ :=
  look2 Num.zero (psfTabSpec n g P norm) r c

lemma spec_fits (n g : ℕ) (hg : n ≤ g) : padWidth n g + n ≤ g := by unfold padWidth; omega

lemma neZero_of_le (n g : ℕ) [NeZero n] (hg : n ≤ g) : NeZero g := ⟨by have := NeZero.pos n; omega⟩

/-- even `grid_size − num_rays`: the old and the new array are the same -/
theorem psfSpec_eq_psfGrid (n g : ℕ) (hg : n ≤ g) (heven : (g - n) % 2 = 0) (P : ℕ → ℕ → Cx ℝ) (norm : ℝ) :
    psfSpec n g P norm = psfGrid n g P norm := by
  have hgp : paddedSize n g = g := by unfold paddedSize padWidth; omega
  funext r c
  unfold psfSpec psfGrid psfTab psfTabSpec
  rw [hgp]

/-- every pixel is `|DFT₂(pad P)[k]|² · 100 / norm`, defining double sum, side `grid_size` -/
theorem psfSpec_is_sq_modulus (n g : ℕ) [NeZero n] (hg : n ≤ g) (P : ℕ → ℕ → Cx ℝ) (norm : ℝ) (r c : ℕ)
    (hr : r < g) (hc : c < g) :
    psfSpec n g P norm r c =
      Complex.normSq (∑ j1 ∈ range g, ∑ j2 ∈ range g,
        toC (padFn n (padWidth n g) P j1 j2) * E g ((j1 * shiftIdx g r + j2 * shiftIdx g c : ℕ) : ℤ))
      / norm * 100 := by
  have : NeZero g := neZero_of_le n g hg
  unfold psfSpec psfTabSpec
  rw [psfTabG_entry n _ _ P norm r c hr hc, dft2R_eq_sum]
  rfl

theorem psfSpec_nonneg (n g : ℕ) [NeZero n] (hg : n ≤ g) (P : ℕ → ℕ → Cx ℝ) (norm : ℝ) (hn : 0 < norm) (r c : ℕ)
    (hr : r < g) (hc : c < g) : 0 ≤ psfSpec n g P norm r c := by
  have : NeZero g := neZero_of_le n g hg
  exact psfTabG_nonneg n g (padWidth n g) P norm hn r c hr hc

/-- total of the PSF = `G² · Σ|P|² · 100 / norm` (2-D Parseval) -/
theorem psfSpec_energy (n g : ℕ) [NeZero n] (hg : n ≤ g) (P : ℕ → ℕ → Cx ℝ) (norm : ℝ) :
    ∑ r ∈ range g, ∑ c ∈ range g, psfSpec n g P norm r c
      = (g : ℝ) ^ 2 * (∑ i ∈ range n, ∑ j ∈ range n, Complex.normSq (toC (P i j))) / norm * 100 := by
  have : NeZero g := neZero_of_le n g hg
  exact psfTabG_sum n g (padWidth n g) (spec_fits n g hg) P norm

/-- same amplitudes, any two phase maps: same total energy -/
theorem psfSpec_energy_independent_of_phase (n g : ℕ) [NeZero n] (hg : n ≤ g) (mean : ℝ) (mask : ℕ → ℕ → Bool)
    (I W W' : ℕ → ℕ → ℝ) :
    ∑ r ∈ range g, ∑ c ∈ range g, psfSpec n g (pupil mean mask I W) (normFactor n (pupil mean mask I W)) r c
      = ∑ r ∈ range g, ∑ c ∈ range g,
          psfSpec n g (pupil mean mask I W') (normFactor n (pupil mean mask I W')) r c := by
  rw [psfSpec_energy n g hg, psfSpec_energy n g hg, normFactor_eq, normFactor_eq, supportCount_pupil,
    supportCount_pupil]
  simp_rw [normSq_pupil]

/-- the unaberrated pupil peaks at exactly 100, at pixel `(grid_size//2, grid_size//2)`, no pixel above -/
theorem psfSpec_unaberrated_peak_is_100 (n g : ℕ) [NeZero n] (hg : n ≤ g) (mean : ℝ) (mask : ℕ → ℕ → Bool)
    (I : ℕ → ℕ → ℝ) (P : ℕ → ℕ → Cx ℝ) (hP : P = pupil mean mask I fun _ _ => 0)
    (hA : ∀ r c, r < n → c < n → 0 ≤ amp mean mask I r c)
    (hsum : ∑ r ∈ range n, ∑ c ∈ range n, amp mean mask I r c = supportCount n P)
    (hS : 0 < supportCount n P) :
    psfSpec n g P (normFactor n P) (g / 2) (g / 2) = 100 ∧
    ∀ r c, r < g → c < g → psfSpec n g P (normFactor n P) r c ≤ 100 := by
  have : NeZero g := neZero_of_le n g hg
  have hfit := spec_fits n g hg
  have hnorm : normFactor n P = supportCount n P ^ 2 := normFactor_eq n P
  have hpos : 0 < supportCount n P ^ 2 := by positivity
  have hPc : ∀ i j, toC (P i j) = (amp mean mask I i j : ℂ) :=
    fun i j => by rw [hP]; exact toC_pupil_zero_phase mean mask I i j
  constructor
  · unfold psfSpec psfTabSpec
    rw [psfTabG_centre n _ _ hfit P, hnorm]
    simp_rw [hPc]
    rw [show (∑ i ∈ range n, ∑ j ∈ range n, (amp mean mask I i j : ℂ))
        = ((∑ i ∈ range n, ∑ j ∈ range n, amp mean mask I i j : ℝ) : ℂ) by push_cast; rfl,
      Complex.normSq_ofReal, hsum, ← sq, div_self (ne_of_gt hpos), one_mul]
  · intro r c hr hc
    unfold psfSpec psfTabSpec
    refine (psfTabG_le n _ _ hfit P _ (hnorm ▸ hpos) r c hr hc).trans (le_of_eq ?_)
    simp_rw [hPc, Complex.norm_real, Real.norm_eq_abs]
    rw [sum_congr rfl fun r hr => sum_congr rfl fun c hc =>
      abs_of_nonneg (hA r c (mem_range.mp hr) (mem_range.mp hc)), hsum, hnorm,
      div_self (ne_of_gt hpos), one_mul]

/-- a pupil with at least one transmitted sample has a PSF of positive total energy
(the hypothesis `0 < total` of the MTF theorems is not an extra assumption) -/
theorem psfSpec_total_pos (n g : ℕ) [NeZero n] (hg : n ≤ g) (mean : ℝ) (mask : ℕ → ℕ → Bool) (I W : ℕ → ℕ → ℝ)
    (hS : 0 < supportCount n (pupil mean mask I W)) :
    0 < total g (psfSpec n g (pupil mean mask I W) (normFactor n (pupil mean mask I W))) := by
  have : NeZero g := neZero_of_le n g hg
  have hgpos : (0 : ℝ) < g := by exact_mod_cast NeZero.pos g
  unfold total
  rw [psfSpec_energy n g hg, normFactor_eq]
  simp_rw [normSq_pupil]
  have hsq : 0 < ∑ i ∈ range n, ∑ j ∈ range n, amp mean mask I i j ^ 2 := by
    have hnn : 0 ≤ ∑ i ∈ range n, ∑ j ∈ range n, amp mean mask I i j ^ 2 :=
      sum_nonneg fun i _ => sum_nonneg fun j _ => sq_nonneg _
    rcases hnn.lt_or_eq with h | h
    · exact h
    · exfalso
      have h1 := (sum_eq_zero_iff_of_nonneg (fun i _ => sum_nonneg fun j _ => sq_nonneg _)).mp h.symm
      have hz : ∀ i ∈ range n, ∀ j ∈ range n, amp mean mask I i j = 0 := by
        intro i hi j hj
        have h2 := (sum_eq_zero_iff_of_nonneg (fun j _ => sq_nonneg (amp mean mask I i j))).mp (h1 i hi) j hj
        exact pow_eq_zero_iff (by norm_num) |>.mp h2
      rw [supportCount_pupil] at hS
      have : (∑ r ∈ range n, ∑ c ∈ range n, if amp mean mask I r c ≠ 0 then (1 : ℝ) else 0) = 0 :=
        sum_eq_zero fun i hi => sum_eq_zero fun j hj => by rw [if_neg (not_not.mpr (hz i hi j hj))]
      linarith
  positivity

lemma psfSpec_fun (n g : ℕ) (P : ℕ → ℕ → Cx ℝ) (norm : ℝ) :
    psfSpec n g P norm = look2 Num.zero (psfTabG n g (padWidth n g) P norm) := rfl

/-- **MTF clauses, end to end** (`FFTPSF` → `FFTMTF._generate_mtf_data`, every parity of
`grid_size − num_rays`): for a pupil `P` with non-negative amplitudes and at least one transmitted
sample, both MTF curves start at one, and every sample lies in `[0, 1]` and does not exceed the
sample of the unaberrated (zero-phase) pupil `P0` of the same transmission, run through the same
pipeline (its own `_get_normalization` included). -/
theorem mtf_pipeline (n g : ℕ) [NeZero n] (hg : n ≤ g) (mean : ℝ) (mask : ℕ → ℕ → Bool) (I W : ℕ → ℕ → ℝ)
    (hA : ∀ r c, 0 ≤ amp mean mask I r c) (hS : 0 < supportCount n (pupil mean mask I W))
    (P P0 : ℕ → ℕ → Cx ℝ) (hP : P = pupil mean mask I W) (hP0 : P0 = pupil mean mask I fun _ _ => 0)
    (M M0 : Array ℝ × Array ℝ)
    (hM : M = mtfSlices g (sliceStartSpec g) (psfSpec n g P (normFactor n P)))
    (hM0 : M0 = mtfSlices g (sliceStartSpec g) (psfSpec n g P0 (normFactor n P0))) :
    (look Num.zero M.1 0 = 1 ∧ look Num.zero M.2 0 = 1) ∧
    ∀ k, k < g - g / 2 →
      (0 ≤ look Num.zero M.1 k ∧ look Num.zero M.1 k ≤ look Num.zero M0.1 k ∧ look Num.zero M0.1 k ≤ 1) ∧
      (0 ≤ look Num.zero M.2 k ∧ look Num.zero M.2 k ≤ look Num.zero M0.2 k ∧ look Num.zero M0.2 k ≤ 1) := by
  have : NeZero g := neZero_of_le n g hg
  have hfit := spec_fits n g hg
  have hN0 : normFactor n P0 = normFactor n P := by
    rw [hP, hP0, normFactor_eq, normFactor_eq, supportCount_pupil, supportCount_pupil]
  rw [hN0] at hM0
  have hSP : 0 < supportCount n P := by rw [hP]; exact hS
  have hS0 : 0 < supportCount n (pupil mean mask I fun _ _ => 0) := by
    rw [supportCount_pupil]; rw [supportCount_pupil] at hS; exact hS
  have hNpos : 0 < normFactor n P := by rw [normFactor_eq]; positivity
  have hnn : ∀ r c, r < g → c < g → 0 ≤ psfSpec n g P (normFactor n P) r c :=
    fun r c hr hc => psfSpec_nonneg n g hg P (normFactor n P) hNpos r c hr hc
  have hnn0 : ∀ r c, r < g → c < g → 0 ≤ psfSpec n g P0 (normFactor n P) r c :=
    fun r c hr hc => psfSpec_nonneg n g hg P0 (normFactor n P) hNpos r c hr hc
  have ht : 0 < total g (psfSpec n g P (normFactor n P)) := by
    rw [hP]; exact psfSpec_total_pos n g hg mean mask I W hS
  have ht0 : 0 < total g (psfSpec n g P0 (normFactor n P)) := by
    rw [← hN0, hP0]; exact psfSpec_total_pos n g hg mean mask I _ hS0
  have h0 : ∀ i j, toC (P0 i j) = ((‖toC (P i j)‖ : ℝ) : ℂ) := by
    intro i j; rw [hP, hP0]; exact zero_phase_pupil mean mask I W hA i j
  rw [hM, hM0]
  refine ⟨mtf_dc_one g (psfSpec n g P (normFactor n P)) hnn ht, fun k hk => ?_⟩
  have hin := mtf_in_unit_interval g (psfSpec n g P (normFactor n P)) hnn ht k hk
  have hin0 := mtf_in_unit_interval g (psfSpec n g P0 (normFactor n P)) hnn0 ht0 k hk
  have hle := mtf_le_diffraction_limited n g (padWidth n g) hfit P P0 h0 (normFactor n P) hNpos
    (by rw [← psfSpec_fun]; exact ht) k hk
  rw [← psfSpec_fun, ← psfSpec_fun] at hle
  exact ⟨⟨hin.1.1, hle.1, hin0.1.2⟩, ⟨hin.2.1, hle.2, hin0.2.2⟩⟩

/-! #### the MTF data vanish from sample `num_rays` on -/

/-- a padded pupil row/column index shifted circularly by `k` with `n ≤ k ≤ gp − n` leaves the support -/
lemma shifted_out_of_support (n gp pad j k : ℕ) (hfit : pad + n ≤ gp) (hj : pad ≤ j ∧ j < pad + n)
    (hk : n ≤ k) (hk2 : k + n ≤ gp) : ¬ (pad ≤ (j + k) % gp ∧ (j + k) % gp < pad + n) := by
  by_cases h : j + k < gp
  · rw [Nat.mod_eq_of_lt h]; omega
  · have h1 : (j + k) % gp = j + k - gp := by
      rw [Nat.mod_eq_sub_mod (by omega), Nat.mod_eq_of_lt (by omega)]
    rw [h1]; omega

lemma shiftIdx_add (gp k : ℕ) (hk : gp / 2 + k < gp) : shiftIdx gp (gp / 2 + k) = k := by
  unfold shiftIdx
  have : gp / 2 + k + (gp - gp / 2) = k + gp := by omega
  rw [this, Nat.add_mod_right, Nat.mod_eq_of_lt (by omega)]

/-- the circular autocorrelation of the padded pupil vanishes for row (or column) shifts `k` with
`n ≤ k ≤ gp − n` -/
lemma autocorr_zero (n gp pad : ℕ) (hfit : pad + n ≤ gp) (P : ℕ → ℕ → Cx ℝ) (s1 s2 : ℕ)
    (hs : (n ≤ s1 ∧ s1 + n ≤ gp) ∨ (n ≤ s2 ∧ s2 + n ≤ gp)) :
    ∑ j1 ∈ range gp, ∑ j2 ∈ range gp,
      padC n pad P j1 j2 * (starRingEnd ℂ) (padC n pad P ((j1 + s1) % gp) ((j2 + s2) % gp)) = 0 := by
  refine sum_eq_zero fun j1 _ => sum_eq_zero fun j2 _ => ?_
  by_cases h1 : pad ≤ j1 ∧ j1 < pad + n
  · by_cases h2 : pad ≤ j2 ∧ j2 < pad + n
    · rcases hs with ⟨ha, hb⟩ | ⟨ha, hb⟩
      · rw [padC_eq n pad P ((j1 + s1) % gp), if_neg (shifted_out_of_support n gp pad j1 s1 hfit h1 ha hb)]
        simp
      · rw [padC_eq n pad P ((j1 + s1) % gp), if_neg (shifted_out_of_support n gp pad j2 s2 hfit h2 ha hb)]
        simp
    · rw [padC_eq n pad P j1 j2, if_neg h2]; simp
  · rw [padC_eq n pad P j1 j2, if_neg h1]; simp

/-- **sample `num_rays` is the cut-off of the MTF data**: the transform of the PSF vanishes at every
row or column frequency index `k` with `num_rays ≤ k ≤ gp − num_rays` (the pupil is `num_rays`
samples wide, so its autocorrelation is zero from that shift on, until it wraps around) -/
theorem otf_zero_beyond_cutoff (n gp pad : ℕ) [NeZero gp] (hfit : pad + n ≤ gp) (P : ℕ → ℕ → Cx ℝ) (norm : ℝ)
    (k : ℕ) (hk : n ≤ k) (hk2 : k + n ≤ gp) (hk3 : gp / 2 + k < gp) :
    otfAbs gp (look2 Num.zero (psfTabG n gp pad P norm)) (gp / 2 + k) (gp / 2) = 0 ∧
    otfAbs gp (look2 Num.zero (psfTabG n gp pad P norm)) (gp / 2) (gp / 2 + k) = 0 := by
  have hpos := NeZero.pos gp
  have hwk : ∀ s1 s2, dft2R gp (powerC n gp pad P) s1 s2 = (gp : ℂ) ^ 2 *
      ∑ j1 ∈ range gp, ∑ j2 ∈ range gp,
        padC n pad P j1 j2 * (starRingEnd ℂ) (padC n pad P ((j1 + s1) % gp) ((j2 + s2) % gp)) :=
    fun s1 s2 => wiener_khinchin2 gp (padC n pad P) s1 s2
  constructor
  · rw [otfAbs_psf, shiftIdx_add gp k hk3, shiftIdx_centre gp hpos, hwk,
      autocorr_zero n gp pad hfit P k 0 (Or.inl ⟨hk, hk2⟩)]
    simp
  · rw [otfAbs_psf, shiftIdx_add gp k hk3, shiftIdx_centre gp hpos, hwk,
      autocorr_zero n gp pad hfit P 0 k (Or.inr ⟨hk, hk2⟩)]
    simp

/-- **the frequency axis is attached to the right samples** (`FFTPSF` → `FFTMTF`, current tree): every
sample `k ≥ num_rays` of both MTF curves is zero (as long as `k ≤ grid_size − num_rays`, i.e. for the
whole plotted half-axis when `grid_size ≥ 2·num_rays`), while `cutoff_frequency` says that sample
`num_rays` of the axis is `1/(λ·10⁻³·FNO)`: the curves reach zero exactly at the stated cut-off.
(`cutoff_frequency` alone only relates two hand-written formulas.) -/
theorem mtf_zero_from_cutoff (n g : ℕ) [NeZero n] (hg : n ≤ g) (P : ℕ → ℕ → Cx ℝ) (norm : ℝ) (hn : 0 < norm)
    (k : ℕ) (hk : n ≤ k) (hk2 : k + n ≤ g) (hk3 : k < g - g / 2) :
    look Num.zero (mtfSlices g (sliceStartSpec g) (psfSpec n g P norm)).1 k = 0 ∧
    look Num.zero (mtfSlices g (sliceStartSpec g) (psfSpec n g P norm)).2 k = 0 := by
  have : NeZero g := neZero_of_le n g hg
  have hnn : ∀ r c, r < g → c < g → 0 ≤ psfSpec n g P norm r c :=
    fun r c hr hc => psfSpec_nonneg n g hg P norm hn r c hr hc
  have h := mtfSlices_eq g (psfSpec n g P norm) hnn k hk3
  have hz := otf_zero_beyond_cutoff n g (padWidth n g) (spec_fits n g hg) P norm k hk hk2 (by omega)
  rw [← psfSpec_fun] at hz
  unfold sliceStartSpec
  rw [h.1, h.2, hz.1, hz.2]
  simp

/-- non-vacuity of the index window: the default `num_rays = 128`, `grid_size = 1024`, samples 128 … 511 -/
example : ∀ k, 128 ≤ k → k < 1024 - 1024 / 2 → k + 128 ≤ 1024 := by omega

/-- **Strehl clause on the current tree**: `strehl_ratio()` reads pixel `grid_size//2` of the
`grid_size²` array; with the amplitude normalised over the transmitted samples it never exceeds one
(restates `strehl_le_one_spec` for `psfSpec`). -/
theorem strehl_le_one_psfSpec (n g : ℕ) [NeZero n] (hg : n ≤ g)
    (mean : ℝ) (mask : ℕ → ℕ → Bool) (I W : ℕ → ℕ → ℝ)
    (hA : ∀ r c, r < n → c < n → 0 ≤ amp mean mask I r c)
    (hsum : ∑ r ∈ range n, ∑ c ∈ range n, amp mean mask I r c = supportCount n (pupil mean mask I W))
    (hS : 0 < supportCount n (pupil mean mask I W)) :
    strehlCode g (psfSpec n g (pupil mean mask I W) (normFactor n (pupil mean mask I W))) ≤ 1 :=
  strehl_le_one_spec n g hg mean mask I W hA hsum hS

/-- non-vacuity of the amplitude hypotheses on a pupil that is not a single sample: 3×3 raster, the
four corners outside the mask, one blocked sample (intensity 0) inside, amplitudes normalised over
the 4 transmitted samples (`mean = 1/2 = (4 · 1/2)/4`), a non-trivial phase map -/
example : ∃ (n : ℕ) (mean : ℝ) (mask : ℕ → ℕ → Bool) (I W : ℕ → ℕ → ℝ),
    (∀ r c, 0 ≤ amp mean mask I r c) ∧
    (∑ r ∈ range n, ∑ c ∈ range n, amp mean mask I r c = supportCount n (pupil mean mask I W)) ∧
    supportCount n (pupil mean mask I W) = 4 := by
  refine ⟨3, 1 / 2, fun r c => decide (r = 1 ∨ c = 1), fun r c => if r = 1 ∧ c = 1 then 0 else 1 / 2,
    fun r c => (r : ℝ) / 3 - c, ?_, ?_, ?_⟩
  · intro r c
    unfold amp
    dsimp only
    split_ifs <;> norm_num
  · rw [supportCount_pupil]
    simp only [sum_range_succ, sum_range_zero, amp]
    norm_num
  · rw [supportCount_pupil]
    simp only [sum_range_succ, sum_range_zero, amp]
    norm_num

end C11
