import OptiModel.Model.Psf
import OptiModel.Model.Parax
import OptiModel.Proofs.NumReal
import OptiModel.Proofs.Dft
import OptiModel.Proofs.PsfBridge
import Mathlib.Tactic.FieldSimp
import Mathlib.Tactic.Ring
import Mathlib.Tactic.Linarith
import Mathlib.Tactic.Positivity
import Mathlib.Tactic.LinearCombination
import Mathlib.Tactic.NormNum
import Mathlib.Analysis.SpecialFunctions.Trigonometric.Bounds
/-!
# C11  PSF, Strehl ratio and MTF are correctly normalised transforms of the pupil

Theorems about `Model/Psf.lean` at the carrier ℝ.  Complex numbers of the model are pairs; `toC`
reads a pair as an element of ℂ.  `E N m = exp(-2πi m/N)`; `dft2R N x k1 k2 = Σ_{j1,j2<N}
x j1 j2 · E N (j1 k1 + j2 k2)` (`dft2R_eq_sum`) is the defining sum of `np.fft.fft2`.
`supportCount n P` is the number of non-zero pupil samples, `amp mean mask I` the real amplitude
`intensity / mean` inside the mask.

Defects of the tree *as first examined* (see `known_findings.json`; all of F17, F9, F-C11-1…5 are
now `fixed` in `/repo`) are stated as theorems about the `…Code` functions: F17
(`strehl_code_unaberrated`, `strehl_code_exceeds_one`), F9 (`cutoff_frequency_code`,
`cutoff_frequency_code_iff`), odd `grid − num_rays` (`strehl_code_reads_off_centre`,
`mtf_code_slices_shifted`).  REVIEW NOTE: since those repairs `/repo` is the `…Spec` variant
(`meanSpec`, `psfTabSpec`, `strehlSpec g`, `sliceStartSpec g`, `freqStepSpec`); "the tree" in the
docstrings of the `…Code` theorems means the tree before the repairs.  The clause theorems that were
stated only for `psfGrid` (= `psfTab`, the old padding) are restated for `psfTabSpec` in the last
section (`psfSpec_*`, `mtf_pipeline`, `mtf_zero_from_cutoff`, `strehl_le_one_psfSpec`).

Round-7 extension (last section): (a) `workingFno_*` — the seeded pupil-magnification slip, working
F-number = `1/(2|u'|)` (abstract transfer matrix and, on `Model/Parax.lean`, the family `stopLens`),
cut-off = `2 NA/λ`; (b) `psfSpec_peak_100_any_mask`, `psfSpec_norm_by_traced_rays`, `strehl_any_mask`,
`meanSpec_uniform`/`meanCode_uniform`; (c) `fftshift_index_convention`, `mtf_symmetric`;
(d) `freq_step_times_extent`, `diff_limit_in_unit_interval`, `geo_freq_axis`,
`geometric_mtf_scaled_in_unit_interval`.

Not theorems (numerical in the harness): the closed form `(2/π)(φ − cos φ sin φ)` for the sampled
circular pupil (an approximation statement), `np.fft.fft2` = the defining sum, the scatter of the
ray list into the raster (`ranks`) and the binning of `np.histogram`.
-/
namespace C11
open Finset Model.Psf DftMath PsfBridge
open scoped Real

instance paddedSize_neZero (n g : ℕ) [NeZero n] : NeZero (paddedSize n g) :=
  ⟨by have := NeZero.pos n; unfold paddedSize; omega⟩

lemma pad_fits (n g : ℕ) : padWidth n g + n ≤ paddedSize n g := by unfold paddedSize; omega

/-! ### the PSF is a non-negative, normalised squared modulus of the DFT of the padded pupil -/

/-- every pixel is `|DFT₂(pad P)[k]|² · 100 / norm`, `k` the `fftshift`-ed index, with the DFT written
out as the defining double sum -/
theorem psf_is_sq_modulus (n g : ℕ) [NeZero n] (P : ℕ → ℕ → Cx ℝ) (norm : ℝ) (r c : ℕ)
    (hr : r < paddedSize n g) (hc : c < paddedSize n g) :
    psfGrid n g P norm r c =
      Complex.normSq (∑ j1 ∈ range (paddedSize n g), ∑ j2 ∈ range (paddedSize n g),
        toC (padFn n (padWidth n g) P j1 j2) *
          E (paddedSize n g) ((j1 * shiftIdx (paddedSize n g) r + j2 * shiftIdx (paddedSize n g) c : ℕ) : ℤ))
      / norm * 100 := by
  unfold psfGrid psfTab
  rw [psfTabG_entry n _ _ P norm r c hr hc, dft2R_eq_sum]
  rfl

theorem psf_nonneg (n g : ℕ) [NeZero n] (P : ℕ → ℕ → Cx ℝ) (norm : ℝ) (hn : 0 < norm) (r c : ℕ)
    (hr : r < paddedSize n g) (hc : c < paddedSize n g) : 0 ≤ psfGrid n g P norm r c := by
  unfold psfGrid psfTab
  rw [psfTabG_entry n _ _ P norm r c hr hc]
  have := Complex.normSq_nonneg (dft2R (paddedSize n g) (padC n (padWidth n g) P)
    (shiftIdx (paddedSize n g) r) (shiftIdx (paddedSize n g) c))
  positivity

/-! ### the normalisation is the peak of the unaberrated pupil -/

/-- `max |DFT₂(1_{P≠0})|² = (#support)²` -/
theorem norm_is_unaberrated_peak (n : ℕ) [NeZero n] (P : ℕ → ℕ → Cx ℝ) :
    normFactor n P = supportCount n P ^ 2 := normFactor_eq n P

/-- … and that maximum is attained at zero frequency (triangle inequality) -/
theorem nominal_peak_at_dc (n : ℕ) (P : ℕ → ℕ → Cx ℝ) (k1 k2 : ℕ) :
    Complex.normSq (dft2R n (nomC P) k1 k2) ≤ supportCount n P ^ 2 ∧
    Complex.normSq (dft2R n (nomC P) 0 0) = supportCount n P ^ 2 := by
  constructor
  · rw [Complex.normSq_eq_norm_sq]
    have hb := norm_dft2R_le n (nomC P) k1 k2
    rw [sum_norm_nomC] at hb
    exact pow_le_pow_left₀ (norm_nonneg _) hb 2
  · rw [dft2R_zero, sum_nomC, Complex.normSq_ofReal]; ring

/-- with the property's normalisation (`Σ amplitude = #support`) the unaberrated pupil (`W = 0`)
gives a central value of exactly 100 and no pixel above 100 -/
theorem unaberrated_peak_is_100 (n g : ℕ) [NeZero n] (mean : ℝ) (mask : ℕ → ℕ → Bool) (I : ℕ → ℕ → ℝ)
    (P : ℕ → ℕ → Cx ℝ) (hP : P = pupil mean mask I fun _ _ => 0)
    (hA : ∀ r c, r < n → c < n → 0 ≤ amp mean mask I r c)
    (hsum : ∑ r ∈ range n, ∑ c ∈ range n, amp mean mask I r c = supportCount n P)
    (hS : 0 < supportCount n P) :
    psfGrid n g P (normFactor n P) (paddedSize n g / 2) (paddedSize n g / 2) = 100 ∧
    ∀ r c, r < paddedSize n g → c < paddedSize n g → psfGrid n g P (normFactor n P) r c ≤ 100 := by
  have hnorm : normFactor n P = supportCount n P ^ 2 := normFactor_eq n P
  have hpos : 0 < supportCount n P ^ 2 := by positivity
  have hPc : ∀ i j, toC (P i j) = (amp mean mask I i j : ℂ) :=
    fun i j => by rw [hP]; exact toC_pupil_zero_phase mean mask I i j
  constructor
  · unfold psfGrid psfTab
    rw [psfTabG_centre n _ _ (pad_fits n g) P, hnorm]
    simp_rw [hPc]
    rw [show (∑ i ∈ range n, ∑ j ∈ range n, (amp mean mask I i j : ℂ))
        = ((∑ i ∈ range n, ∑ j ∈ range n, amp mean mask I i j : ℝ) : ℂ) by push_cast; rfl,
      Complex.normSq_ofReal, hsum, ← sq, div_self (ne_of_gt hpos), one_mul]
  · intro r c hr hc
    unfold psfGrid psfTab
    refine (psfTabG_le n _ _ (pad_fits n g) P _ (hnorm ▸ hpos) r c hr hc).trans (le_of_eq ?_)
    simp_rw [hPc, Complex.norm_real, Real.norm_eq_abs]
    rw [sum_congr rfl fun r hr => sum_congr rfl fun c hc =>
      abs_of_nonneg (hA r c (mem_range.mp hr) (mem_range.mp hc)), hsum, hnorm,
      div_self (ne_of_gt hpos), one_mul]

/-! ### Parseval: the energy of the PSF does not depend on the phase -/

/-- 2-D Parseval for the separable transform (from the 1-D identity `DftMath.parsevalR`, which is
DESIGN appendix A.6 moved from `ZMod N` to `range N`) -/
theorem parseval2 (N : ℕ) [NeZero N] (x : ℕ → ℕ → ℂ) :
    ∑ k1 ∈ range N, ∑ k2 ∈ range N, Complex.normSq (dft2R N x k1 k2)
      = (N : ℝ) ^ 2 * ∑ j1 ∈ range N, ∑ j2 ∈ range N, Complex.normSq (x j1 j2) := parseval2R N x

/-- total of the PSF = `G² · Σ|P|² · 100 / norm` -/
theorem psf_energy (n g : ℕ) [NeZero n] (P : ℕ → ℕ → Cx ℝ) (norm : ℝ) :
    ∑ r ∈ range (paddedSize n g), ∑ c ∈ range (paddedSize n g), psfGrid n g P norm r c
      = (paddedSize n g : ℝ) ^ 2 * (∑ i ∈ range n, ∑ j ∈ range n, Complex.normSq (toC (P i j))) / norm * 100 :=
  psfTabG_sum n _ _ (pad_fits n g) P norm

/-- same amplitudes, any two phase maps: same total energy (normalisation included) -/
theorem energy_independent_of_phase (n g : ℕ) [NeZero n] (mean : ℝ) (mask : ℕ → ℕ → Bool)
    (I W W' : ℕ → ℕ → ℝ) :
    ∑ r ∈ range (paddedSize n g), ∑ c ∈ range (paddedSize n g),
        psfGrid n g (pupil mean mask I W) (normFactor n (pupil mean mask I W)) r c
      = ∑ r ∈ range (paddedSize n g), ∑ c ∈ range (paddedSize n g),
        psfGrid n g (pupil mean mask I W') (normFactor n (pupil mean mask I W')) r c := by
  rw [psf_energy, psf_energy, normFactor_eq, normFactor_eq, supportCount_pupil, supportCount_pupil]
  simp_rw [normSq_pupil]

/-! ### Strehl ratio -/

/-- central value / 100 of the array that was transformed, for amplitudes `A ≥ 0` with
`Σ A = #support`: never above one.  (Holds for the tree's array as well as for the
`grid_size × grid_size` array of the specification: see `strehl_le_one_spec`.) -/
theorem strehl_le_one_central (n gp pad : ℕ) [NeZero n] [NeZero gp] (hfit : pad + n ≤ gp)
    (mean : ℝ) (mask : ℕ → ℕ → Bool) (I W : ℕ → ℕ → ℝ)
    (hA : ∀ r c, r < n → c < n → 0 ≤ amp mean mask I r c)
    (hsum : ∑ r ∈ range n, ∑ c ∈ range n, amp mean mask I r c = supportCount n (pupil mean mask I W))
    (hS : 0 < supportCount n (pupil mean mask I W)) :
    strehlSpec gp (look2 Num.zero (psfTabG n gp pad (pupil mean mask I W)
      (normFactor n (pupil mean mask I W)))) ≤ 1 := by
  unfold strehlSpec
  rw [strehlAt_eq, psfTabG_centre n gp pad hfit, normFactor_eq, Complex.normSq_eq_norm_sq]
  have hb := norm_sum_pupil_le n mean mask I W hA
  rw [hsum] at hb
  have h2 := pow_le_pow_left₀ (norm_nonneg _) hb 2
  have hpos : 0 < supportCount n (pupil mean mask I W) ^ 2 := by positivity
  rw [div_mul_eq_mul_div, div_div, div_le_one (by positivity)]
  nlinarith

/-- the property's Strehl clause for the specification (`grid_size²` array, amplitude normalised
over the transmitted samples) -/
theorem strehl_le_one_spec (n g : ℕ) [NeZero n] (hg : n ≤ g)
    (mean : ℝ) (mask : ℕ → ℕ → Bool) (I W : ℕ → ℕ → ℝ)
    (hA : ∀ r c, r < n → c < n → 0 ≤ amp mean mask I r c)
    (hsum : ∑ r ∈ range n, ∑ c ∈ range n, amp mean mask I r c = supportCount n (pupil mean mask I W))
    (hS : 0 < supportCount n (pupil mean mask I W)) :
    strehlSpec g (look2 Num.zero (psfTabSpec n g (pupil mean mask I W)
      (normFactor n (pupil mean mask I W)))) ≤ 1 := by
  have : NeZero g := ⟨by have := NeZero.pos n; omega⟩
  unfold psfTabSpec
  exact strehl_le_one_central n g (padWidth n g) (by unfold padWidth; omega) mean mask I W hA hsum hS

/-- `amplitude = intensity / np.mean(intensity)`: the amplitudes add up to the number of *all*
samples … -/
theorem meanCode_normalises (inten : ℕ → ℝ) (m : ℕ) (h : rsum inten m ≠ 0) :
    ∑ i ∈ range m, inten i / meanCode inten m = m := by
  have hm : (m : ℝ) ≠ 0 := by
    rintro h0
    have : m = 0 := by exact_mod_cast h0
    subst this
    exact h rfl
  unfold meanCode
  rw [← sum_div, ← rsum_eq]
  num_real
  simp only [Num.ofNat, NumReal.ofRat_eq, Nat.cast_one, div_one]
  field_simp

/-- … whereas dividing by the mean over the transmitted samples makes them add up to `#support` -/
theorem meanSpec_normalises (inten : ℕ → ℝ) (m : ℕ) (h : rsum inten m ≠ 0)
    (hc : countNonzero inten m ≠ 0) :
    ∑ i ∈ range m, inten i / meanSpec inten m = countNonzero inten m := by
  have hm : ((countNonzero inten m : ℕ) : ℝ) ≠ 0 := by exact_mod_cast hc
  unfold meanSpec
  rw [← sum_div, ← rsum_eq]
  num_real
  simp only [Num.ofNat, NumReal.ofRat_eq, Nat.cast_one, div_one]
  field_simp

/-- FULL STATEMENT (false on the tree, F17): `strehlCode … ≤ 1` for every pupil normalised as the
code normalises it (`Σ A = #samples in the mask`).  Proved part: pupils without blocked samples
(`A > 0` on the whole mask, so `#support = #mask`) and even `grid_size − num_rays`. -/
theorem strehl_le_one_partial (n g : ℕ) [NeZero n] (hg : n ≤ g) (heven : (g - n) % 2 = 0)
    (mean : ℝ) (mask : ℕ → ℕ → Bool) (I W : ℕ → ℕ → ℝ)
    (hA : ∀ r c, r < n → c < n → 0 ≤ amp mean mask I r c)
    (hcode : ∑ r ∈ range n, ∑ c ∈ range n, amp mean mask I r c
              = ∑ r ∈ range n, ∑ c ∈ range n, if mask r c then (1 : ℝ) else 0)
    (hfull : ∀ r c, r < n → c < n → mask r c = true → amp mean mask I r c ≠ 0)
    (hS : 0 < supportCount n (pupil mean mask I W)) :
    strehlCode g (psfGrid n g (pupil mean mask I W) (normFactor n (pupil mean mask I W))) ≤ 1 := by
  have hgp : paddedSize n g = g := by unfold paddedSize padWidth; omega
  have hsum : ∑ r ∈ range n, ∑ c ∈ range n, amp mean mask I r c = supportCount n (pupil mean mask I W) := by
    rw [hcode, supportCount_pupil]
    refine sum_congr rfl fun r hr => sum_congr rfl fun c hc => ?_
    by_cases hm : mask r c = true
    · rw [if_pos hm, if_pos (hfull r c (mem_range.mp hr) (mem_range.mp hc) hm)]
    · rw [if_neg hm, if_neg]
      simp [amp, hm]
  have := strehl_le_one_central n (paddedSize n g) (padWidth n g) (pad_fits n g) mean mask I W hA hsum hS
  unfold strehlCode
  unfold strehlSpec at this
  rw [hgp] at this
  unfold psfGrid psfTab
  rw [hgp]
  exact this

/-- what the tree computes for an unaberrated pupil (`W = 0`, even `grid_size − num_rays`):
`(Σ A / #support)²`; with the code's normalisation `Σ A = #mask` this is `(#mask / #support)²` -/
theorem strehl_code_unaberrated (n g : ℕ) [NeZero n] (hg : n ≤ g) (heven : (g - n) % 2 = 0)
    (mean : ℝ) (mask : ℕ → ℕ → Bool) (I : ℕ → ℕ → ℝ)
    (P : ℕ → ℕ → Cx ℝ) (hP : P = pupil mean mask I fun _ _ => 0)
    (hS : 0 < supportCount n P) :
    strehlCode g (psfGrid n g P (normFactor n P))
      = ((∑ r ∈ range n, ∑ c ∈ range n, amp mean mask I r c) / supportCount n P) ^ 2 := by
  have hgp : paddedSize n g = g := by unfold paddedSize padWidth; omega
  have hPc : ∀ i j, toC (P i j) = (amp mean mask I i j : ℂ) :=
    fun i j => by rw [hP]; exact toC_pupil_zero_phase mean mask I i j
  unfold strehlCode
  rw [strehlAt_eq]
  unfold psfGrid psfTab
  have hc := psfTabG_centre n (paddedSize n g) (padWidth n g) (pad_fits n g) P (normFactor n P)
  rw [hgp] at hc ⊢
  rw [hc, normFactor_eq]
  simp_rw [hPc]
  rw [show (∑ i ∈ range n, ∑ j ∈ range n, (amp mean mask I i j : ℂ))
      = ((∑ i ∈ range n, ∑ j ∈ range n, amp mean mask I i j : ℝ) : ℂ) by push_cast; rfl,
    Complex.normSq_ofReal]
  have : supportCount n P ≠ 0 := ne_of_gt hS
  field_simp

/-- NEGATION WITNESS for `strehl_le_one` on the tree (F17): a 2×2 pupil, one transmitted sample of
intensity 1, three blocked ones, no aberration; `mean = np.mean(intensity) = 1/4`; the tree's
Strehl ratio is 16. -/
theorem strehl_code_exceeds_one :
    ∃ (n g : ℕ) (mask : ℕ → ℕ → Bool) (I W : ℕ → ℕ → ℝ) (mean : ℝ),
      (∀ r c, 0 ≤ I r c) ∧
      mean = (∑ r ∈ range n, ∑ c ∈ range n, if mask r c then I r c else 0) /
             (∑ r ∈ range n, ∑ c ∈ range n, if mask r c then (1 : ℝ) else 0) ∧
      1 < strehlCode g (psfGrid n g (pupil mean mask I W) (normFactor n (pupil mean mask I W))) := by
  refine ⟨2, 2, fun _ _ => true, fun r c => if r = 0 ∧ c = 0 then 1 else 0, fun _ _ => 0, 1 / 4, ?_, ?_, ?_⟩
  · intro r c
    show 0 ≤ (if r = 0 ∧ c = 0 then (1 : ℝ) else 0)
    split_ifs <;> norm_num
  · simp [sum_range_succ]; norm_num
  · have hS : supportCount 2 (pupil (1 / 4) (fun _ _ => true)
        (fun r c => if r = 0 ∧ c = 0 then (1 : ℝ) else 0) fun _ _ => 0) = 1 := by
      rw [supportCount_pupil]
      simp [sum_range_succ, amp]
    have h := strehl_code_unaberrated 2 2 (le_refl _) (by norm_num) (1 / 4) (fun _ _ => true)
      (fun r c => if r = 0 ∧ c = 0 then (1 : ℝ) else 0) _ rfl (by rw [hS]; norm_num)
    rw [h, hS]
    simp [sum_range_succ, amp]

/-- odd `num_rays`, even `grid_size`: the transformed array has side `grid_size − 1`, its
zero-frequency pixel is `grid_size/2 − 1`, and `strehl_ratio` reads pixel `grid_size/2` -/
theorem strehl_code_reads_off_centre (n g : ℕ) (hg : n ≤ g) (hn : n % 2 = 1) (hge : g % 2 = 0) :
    paddedSize n g = g - 1 ∧ paddedSize n g / 2 + 1 = g / 2 ∧
    ∀ psf : ℕ → ℕ → ℝ, strehlCode g psf = strehlAt (paddedSize n g / 2 + 1) psf := by
  have h1 : paddedSize n g = g - 1 := by unfold paddedSize padWidth; omega
  have h2 : paddedSize n g / 2 + 1 = g / 2 := by rw [h1]; omega
  exact ⟨h1, h2, fun psf => by unfold strehlCode; rw [h2]⟩

/-! ### FFT MTF -/

/-- MTF = |FFT₂(psf)| divided by its zero-frequency value `Σ psf` (slices started at the
zero-frequency index of the transformed array) -/
theorem mtf_is_normalised_modulus (gp : ℕ) [NeZero gp] (psf : ℕ → ℕ → ℝ)
    (hp : ∀ r c, r < gp → c < gp → 0 ≤ psf r c) (k : ℕ) (hk : k < gp - gp / 2) :
    look Num.zero (mtfSlices gp (sliceStartSpec gp) psf).1 k
        = otfAbs gp psf (gp / 2 + k) (gp / 2) / total gp psf ∧
    look Num.zero (mtfSlices gp (sliceStartSpec gp) psf).2 k
        = otfAbs gp psf (gp / 2) (gp / 2 + k) / total gp psf :=
  mtfSlices_eq gp psf hp k hk

/-- every curve starts at one (`|Σ p e^{iθ}| ≤ Σ p` makes the first entry the maximum) -/
theorem mtf_dc_one (gp : ℕ) [NeZero gp] (psf : ℕ → ℕ → ℝ)
    (hp : ∀ r c, r < gp → c < gp → 0 ≤ psf r c) (ht : 0 < total gp psf) :
    look Num.zero (mtfSlices gp (sliceStartSpec gp) psf).1 0 = 1 ∧
    look Num.zero (mtfSlices gp (sliceStartSpec gp) psf).2 0 = 1 := by
  have hpos := NeZero.pos gp
  have h := mtfSlices_eq gp psf hp 0 (by omega)
  unfold sliceStartSpec
  rw [h.1, h.2, Nat.add_zero, otfAbs_centre gp psf hp]
  exact ⟨div_self (ne_of_gt ht), div_self (ne_of_gt ht)⟩

/-- … and stays within [0, 1] -/
theorem mtf_in_unit_interval (gp : ℕ) [NeZero gp] (psf : ℕ → ℕ → ℝ)
    (hp : ∀ r c, r < gp → c < gp → 0 ≤ psf r c) (ht : 0 < total gp psf) (k : ℕ) (hk : k < gp - gp / 2) :
    (0 ≤ look Num.zero (mtfSlices gp (sliceStartSpec gp) psf).1 k ∧
      look Num.zero (mtfSlices gp (sliceStartSpec gp) psf).1 k ≤ 1) ∧
    (0 ≤ look Num.zero (mtfSlices gp (sliceStartSpec gp) psf).2 k ∧
      look Num.zero (mtfSlices gp (sliceStartSpec gp) psf).2 k ≤ 1) := by
  have h := mtfSlices_eq gp psf hp k hk
  unfold sliceStartSpec
  rw [h.1, h.2]
  exact ⟨⟨div_nonneg (otfAbs_nonneg _ _ _ _) ht.le, (div_le_one ht).mpr (otfAbs_le gp psf hp _ _)⟩,
         ⟨div_nonneg (otfAbs_nonneg _ _ _ _) ht.le, (div_le_one ht).mpr (otfAbs_le gp psf hp _ _)⟩⟩

/-- the tree's slices (`data[grid_size//2:, …]`) are those of the specification whenever
`grid_size − num_rays` is even … -/
theorem mtf_code_slices_even (n g : ℕ) (hg : n ≤ g) (heven : (g - n) % 2 = 0) :
    sliceStartCode g = sliceStartSpec (paddedSize n g) := by
  unfold sliceStartCode sliceStartSpec paddedSize padWidth
  congr 1; omega

/-- … and start one bin *after* zero frequency when `num_rays` is odd and `grid_size` even -/
theorem mtf_code_slices_shifted (n g : ℕ) (hg : n ≤ g) (hn : n % 2 = 1) (hge : g % 2 = 0) :
    sliceStartCode g = sliceStartSpec (paddedSize n g) + 1 := by
  unfold sliceStartCode sliceStartSpec paddedSize padWidth
  omega

/-! ### no MTF exceeds the diffraction-limited one -/

/-- discrete Wiener–Khinchin: `DFT₂(|DFT₂ x|²) = N² ·` circular autocorrelation of `x` -/
theorem wiener_khinchin (N : ℕ) [NeZero N] (x : ℕ → ℕ → ℂ) (s1 s2 : ℕ) :
    dft2R N (fun k1 k2 => ((Complex.normSq (dft2R N x k1 k2) : ℝ) : ℂ)) s1 s2
      = (N : ℂ) ^ 2 * ∑ j1 ∈ range N, ∑ j2 ∈ range N,
          x j1 j2 * (starRingEnd ℂ) (x ((j1 + s1) % N) ((j2 + s2) % N)) := wiener_khinchin2 N x s1 s2

/-- every sample of both normalised MTF slices of a pupil `P` is bounded by the corresponding
sample for the zero-phase pupil `P0 = |P|` (the diffraction-limited system with the same
transmission), same normalisation -/
theorem mtf_le_diffraction_limited (n gp pad : ℕ) [NeZero gp] (hfit : pad + n ≤ gp)
    (P P0 : ℕ → ℕ → Cx ℝ) (h0 : ∀ i j, toC (P0 i j) = ((‖toC (P i j)‖ : ℝ) : ℂ))
    (norm : ℝ) (hn : 0 < norm)
    (hE : 0 < total gp (look2 Num.zero (psfTabG n gp pad P norm)))
    (k : ℕ) (hk : k < gp - gp / 2) :
    look Num.zero (mtfSlices gp (sliceStartSpec gp) (look2 Num.zero (psfTabG n gp pad P norm))).1 k
      ≤ look Num.zero (mtfSlices gp (sliceStartSpec gp) (look2 Num.zero (psfTabG n gp pad P0 norm))).1 k ∧
    look Num.zero (mtfSlices gp (sliceStartSpec gp) (look2 Num.zero (psfTabG n gp pad P norm))).2 k
      ≤ look Num.zero (mtfSlices gp (sliceStartSpec gp) (look2 Num.zero (psfTabG n gp pad P0 norm))).2 k := by
  have hP := mtfSlices_eq gp _ (fun r c hr hc => psfTabG_nonneg n gp pad P norm hn r c hr hc) k hk
  have hP0 := mtfSlices_eq gp _ (fun r c hr hc => psfTabG_nonneg n gp pad P0 norm hn r c hr hc) k hk
  unfold sliceStartSpec
  rw [hP.1, hP.2, hP0.1, hP0.2, total_zero_phase n gp pad hfit P P0 h0 norm]
  exact ⟨div_le_div_of_nonneg_right (otfAbs_le_zero_phase n gp pad P P0 h0 norm _ _) hE.le,
         div_le_div_of_nonneg_right (otfAbs_le_zero_phase n gp pad P P0 h0 norm _ _) hE.le⟩

/-- the zero-phase pupil of the model: same intensities, `W = 0`, amplitudes `≥ 0` -/
theorem zero_phase_pupil (mean : ℝ) (mask : ℕ → ℕ → Bool) (I W : ℕ → ℕ → ℝ)
    (hA : ∀ r c, 0 ≤ amp mean mask I r c) (i j : ℕ) :
    toC (pupil mean mask I (fun _ _ => 0) i j) = ((‖toC (pupil mean mask I W i j)‖ : ℝ) : ℂ) := by
  rw [toC_pupil_zero_phase, norm_pupil, abs_of_nonneg (hA i j)]

/-! ### frequency axis and cut-off -/

/-- specification: sample `num_rays` of a slice is the cut-off `1/(λ·10⁻³·FNO)` cycles/mm -/
theorem cutoff_frequency (n : ℕ) (hn : n ≠ 0) (wl fno : ℝ) (hw : wl ≠ 0) (hf : fno ≠ 0) :
    freqAxis (freqStepSpec n wl fno) n = maxFreq wl fno := by
  have hn' : (n : ℝ) ≠ 0 := by exact_mod_cast hn
  unfold freqAxis freqStepSpec maxFreq
  num_real
  simp only [Num.ofNat, NumReal.ofRat_eq, Nat.cast_one, div_one, Nat.cast_ofNat]
  field_simp

/-- the tree (F9): the frequency attached to sample `num_rays` is `grid_size/1000` times the cut-off -/
theorem cutoff_frequency_code (n g : ℕ) (hn : n ≠ 0) (wl fno : ℝ) (hw : wl ≠ 0) (hf : fno ≠ 0) :
    freqAxis (freqStepCode n g wl fno) n = (g : ℝ) / 1000 * maxFreq wl fno := by
  have hn' : (n : ℝ) ≠ 0 := by exact_mod_cast hn
  unfold freqAxis freqStepCode maxFreq
  num_real
  simp only [Num.ofNat, NumReal.ofRat_eq, Nat.cast_one, div_one, Nat.cast_ofNat]
  field_simp

/-- hence the tree's axis is right exactly for `grid_size = 1000` -/
theorem cutoff_frequency_code_iff (n g : ℕ) (hn : n ≠ 0) (wl fno : ℝ) (hw : 0 < wl) (hf : 0 < fno) :
    freqAxis (freqStepCode n g wl fno) n = maxFreq wl fno ↔ g = 1000 := by
  rw [cutoff_frequency_code n g hn wl fno hw.ne' hf.ne']
  have hm : maxFreq wl fno ≠ 0 := by
    unfold maxFreq
    num_real
    simp only [Nat.cast_one, Nat.cast_ofNat]
    positivity
  constructor
  · intro h
    have h1 : (g : ℝ) / 1000 = 1 := by
      have := mul_right_cancel₀ hm (h.trans (one_mul _).symm)
      exact this
    have h2 : (g : ℝ) = 1000 := by linarith [(div_eq_one_iff_eq (by norm_num : (1000 : ℝ) ≠ 0)).mp h1]
    exact_mod_cast h2
  · rintro rfl
    norm_num

/-- both steps differ by the factor `grid_size/1000` at every sample -/
theorem freq_step_ratio (n g : ℕ) (hn : n ≠ 0) (wl fno : ℝ) (hw : wl ≠ 0) (hf : fno ≠ 0) :
    freqStepCode n g wl fno = (g : ℝ) / 1000 * freqStepSpec n wl fno := by
  have hn' : (n : ℝ) ≠ 0 := by exact_mod_cast hn
  unfold freqStepCode freqStepSpec
  num_real
  simp only [Num.ofNat, NumReal.ofRat_eq, Nat.cast_one, div_one, Nat.cast_ofNat]
  field_simp

/-! ### geometric MTF -/

/-- one frequency of `GeometricMTF._compute_field_data` is the modulus of the Fourier transform of
the line spread (histogram counts `A_j` at the bin centres `x_j`) divided by its total -/
theorem geometric_mtf_is_line_spread_ft (A xc : ℕ → ℝ) (dx : ℝ) (nb : ℕ) (v : ℝ)
    (hdx : dx ≠ 0) (hA : 0 < ∑ j ∈ range nb, A j) :
    geoMtfAt A xc dx nb v
      = ‖∑ j ∈ range nb, (A j : ℂ) * Complex.exp (((2 * π * v * xc j : ℝ) : ℂ) * Complex.I)‖
        / ∑ j ∈ range nb, A j := by
  unfold geoMtfAt
  simp only [rsum_eq]
  num_real
  set S := ∑ j ∈ range nb, A j with hS
  have hden : ∑ j ∈ range nb, A j * dx = S * dx := by rw [hS, sum_mul]
  have hc : ∑ j ∈ range nb, A j * Real.cos (2 * π * v * xc j) * dx
      = (∑ j ∈ range nb, A j * Real.cos (2 * π * v * xc j)) * dx := by rw [sum_mul]
  have hs : ∑ j ∈ range nb, A j * Real.sin (2 * π * v * xc j) * dx
      = (∑ j ∈ range nb, A j * Real.sin (2 * π * v * xc j)) * dx := by rw [sum_mul]
  rw [hden, hc, hs]
  set C := ∑ j ∈ range nb, A j * Real.cos (2 * π * v * xc j)
  set Sn := ∑ j ∈ range nb, A j * Real.sin (2 * π * v * xc j)
  have hz : (∑ j ∈ range nb, (A j : ℂ) * Complex.exp (((2 * π * v * xc j : ℝ) : ℂ) * Complex.I))
      = ⟨C, Sn⟩ := by
    apply Complex.ext
    · simp only [Complex.re_sum, Complex.mul_re, Complex.ofReal_re, Complex.ofReal_im, zero_mul, sub_zero,
        Complex.exp_ofReal_mul_I_re]
      rfl
    · simp only [Complex.im_sum, Complex.mul_im, Complex.ofReal_re, Complex.ofReal_im, zero_mul, add_zero,
        Complex.exp_ofReal_mul_I_im]
      rfl
  rw [hz, Complex.norm_def, Complex.normSq_mk]
  have hS0 : S ≠ 0 := ne_of_gt hA
  rw [mul_div_mul_right _ _ hdx, mul_div_mul_right _ _ hdx]
  rw [show C / S * (C / S) + Sn / S * (Sn / S) = (C * C + Sn * Sn) / S ^ 2 by field_simp]
  rw [Real.sqrt_div' _ (by positivity), Real.sqrt_sq hA.le]

/-- the unscaled geometric MTF never exceeds one (triangle inequality), so the scaled one never
exceeds the diffraction-limit factor it is multiplied with -/
theorem geometric_mtf_le_diff_limit (A xc : ℕ → ℝ) (dx : ℝ) (nb : ℕ) (v scale : ℝ)
    (hdx : dx ≠ 0) (hnn : ∀ j, j < nb → 0 ≤ A j) (hA : 0 < ∑ j ∈ range nb, A j) (hs : 0 ≤ scale) :
    geoMtfAt A xc dx nb v * scale ≤ scale := by
  rw [geometric_mtf_is_line_spread_ft A xc dx nb v hdx hA]
  have hb : ‖∑ j ∈ range nb, (A j : ℂ) * Complex.exp (((2 * π * v * xc j : ℝ) : ℂ) * Complex.I)‖
      ≤ ∑ j ∈ range nb, A j := by
    refine (norm_sum_le _ _).trans (le_of_eq (sum_congr rfl fun j hj => ?_))
    rw [norm_mul, Complex.norm_exp_ofReal_mul_I, mul_one, Complex.norm_real, Real.norm_eq_abs,
      abs_of_nonneg (hnn j (mem_range.mp hj))]
  have : ‖∑ j ∈ range nb, (A j : ℂ) * Complex.exp (((2 * π * v * xc j : ℝ) : ℂ) * Complex.I)‖
      / ∑ j ∈ range nb, A j ≤ 1 := (div_le_one hA).mpr hb
  nlinarith

/-- at zero frequency the geometric MTF is one -/
theorem geometric_mtf_dc_one (A xc : ℕ → ℝ) (dx : ℝ) (nb : ℕ)
    (hdx : dx ≠ 0) (hA : 0 < ∑ j ∈ range nb, A j) : geoMtfAt A xc dx nb 0 = 1 := by
  rw [geometric_mtf_is_line_spread_ft A xc dx nb 0 hdx hA]
  simp only [mul_zero, zero_mul, Complex.ofReal_zero, Complex.exp_zero, mul_one]
  rw [← Complex.ofReal_sum, Complex.norm_real, Real.norm_eq_abs, abs_of_pos hA, div_self (ne_of_gt hA)]

/-- the diffraction-limit formula `(2/π)(φ − cos φ sin φ)`, `φ = arccos(ν/ν_c)`, is 1 at zero
frequency and 0 at the cut-off -/
theorem diff_limit_endpoints : diffLimit (0 : ℝ) = 1 ∧ diffLimit (1 : ℝ) = 0 := by
  unfold diffLimit
  num_real
  constructor
  · rw [Real.arccos_zero, Real.cos_pi_div_two]
    have := Real.pi_pos
    field_simp
    ring
  · rw [Real.arccos_one, Real.cos_zero, Real.sin_zero]
    simp

/-- non-vacuity of the hypotheses used above: a 2-bin line spread -/
example : ∃ (A : ℕ → ℝ) (nb : ℕ), (∀ j, j < nb → 0 ≤ A j) ∧ 0 < ∑ j ∈ range nb, A j :=
  ⟨fun _ => 1, 2, fun _ _ => by norm_num, by simp⟩

/-- non-vacuity: a PSF with positive total -/
example : ∃ (gp : ℕ) (psf : ℕ → ℕ → ℝ), (∀ r c, r < gp → c < gp → 0 ≤ psf r c) ∧ 0 < total gp psf :=
  ⟨1, fun _ _ => 1, fun _ _ _ _ => by norm_num, by simp [total]⟩

/-- non-vacuity of the amplitude hypotheses (`A ≥ 0`, `Σ A = #support > 0`): a one-sample pupil -/
example : ∃ (n : ℕ) (mean : ℝ) (mask : ℕ → ℕ → Bool) (I W : ℕ → ℕ → ℝ),
    (∀ r c, r < n → c < n → 0 ≤ amp mean mask I r c) ∧
    (∑ r ∈ range n, ∑ c ∈ range n, amp mean mask I r c = supportCount n (pupil mean mask I W)) ∧
    0 < supportCount n (pupil mean mask I W) := by
  refine ⟨1, 1, fun _ _ => true, fun _ _ => 1, fun _ _ => 0, ?_, ?_, ?_⟩
  · intro r c _ _; simp [amp]
  · rw [supportCount_pupil]; simp [amp]
  · rw [supportCount_pupil]; simp [amp]

/-! ### the `grid_size × grid_size` PSF (`psfTabSpec`) — what `/repo` computes since the repairs

REVIEW NOTE.  `psfGrid` above is the tree *before* commit a136490 (symmetric padding, side
`paddedSize n g`); `/repo` now pads to exactly `grid_size` (`pad`, `pad_end`), normalises the amplitude
over the transmitted samples (55d199a, `meanSpec`) and reads Strehl / slices at `grid_size // 2`, i.e.
it is `psfTabSpec`, `strehlSpec g`, `sliceStartSpec g`.  For even `grid_size − num_rays` the two arrays
coincide (`psfSpec_eq_psfGrid`); for odd differences the theorems about `psfGrid` say nothing about the
current tree.  The clauses are therefore restated here for `psfTabSpec`, for every parity, and the MTF
clauses are composed with the PSF (no free hypothesis on the PSF array is left). -/

/-- entry (r, c) of the `grid_size × grid_size` PSF -/
noncomputable def psfSpec (n g : ℕ) (P : ℕ → ℕ → Cx ℝ) (norm : ℝ) (r c : ℕ) : ℝ :=
  look2 Num.zero (psfTabSpec n g P norm) r c

lemma spec_fits (n g : ℕ) (hg : n ≤ g) : padWidth n g + n ≤ g := by unfold padWidth; omega

lemma neZero_of_le (n g : ℕ) [NeZero n] (hg : n ≤ g) : NeZero g := ⟨by have := NeZero.pos n; omega⟩

/-- even `grid_size − num_rays`: the old and the new array are the same -/
theorem psfSpec_eq_psfGrid (n g : ℕ) (hg : n ≤ g) (heven : (g - n) % 2 = 0) (P : ℕ → ℕ → Cx ℝ) (norm : ℝ) :
    psfSpec n g P norm = psfGrid n g P norm := by
  have hgp : paddedSize n g = g := by unfold paddedSize padWidth; omega
  funext r c
  unfold psfSpec psfGrid psfTab psfTabSpec
  rw [hgp]

/-- every pixel is `|DFT₂(pad P)[k]|² · 100 / norm`, defining double sum, side `grid_size` -/
theorem psfSpec_is_sq_modulus (n g : ℕ) [NeZero n] (hg : n ≤ g) (P : ℕ → ℕ → Cx ℝ) (norm : ℝ) (r c : ℕ)
    (hr : r < g) (hc : c < g) :
    psfSpec n g P norm r c =
      Complex.normSq (∑ j1 ∈ range g, ∑ j2 ∈ range g,
        toC (padFn n (padWidth n g) P j1 j2) * E g ((j1 * shiftIdx g r + j2 * shiftIdx g c : ℕ) : ℤ))
      / norm * 100 := by
  have : NeZero g := neZero_of_le n g hg
  unfold psfSpec psfTabSpec
  rw [psfTabG_entry n _ _ P norm r c hr hc, dft2R_eq_sum]
  rfl

theorem psfSpec_nonneg (n g : ℕ) [NeZero n] (hg : n ≤ g) (P : ℕ → ℕ → Cx ℝ) (norm : ℝ) (hn : 0 < norm) (r c : ℕ)
    (hr : r < g) (hc : c < g) : 0 ≤ psfSpec n g P norm r c := by
  have : NeZero g := neZero_of_le n g hg
  exact psfTabG_nonneg n g (padWidth n g) P norm hn r c hr hc

/-- total of the PSF = `G² · Σ|P|² · 100 / norm` (2-D Parseval) -/
theorem psfSpec_energy (n g : ℕ) [NeZero n] (hg : n ≤ g) (P : ℕ → ℕ → Cx ℝ) (norm : ℝ) :
    ∑ r ∈ range g, ∑ c ∈ range g, psfSpec n g P norm r c
      = (g : ℝ) ^ 2 * (∑ i ∈ range n, ∑ j ∈ range n, Complex.normSq (toC (P i j))) / norm * 100 := by
  have : NeZero g := neZero_of_le n g hg
  exact psfTabG_sum n g (padWidth n g) (spec_fits n g hg) P norm

/-- same amplitudes, any two phase maps: same total energy -/
theorem psfSpec_energy_independent_of_phase (n g : ℕ) [NeZero n] (hg : n ≤ g) (mean : ℝ) (mask : ℕ → ℕ → Bool)
    (I W W' : ℕ → ℕ → ℝ) :
    ∑ r ∈ range g, ∑ c ∈ range g, psfSpec n g (pupil mean mask I W) (normFactor n (pupil mean mask I W)) r c
      = ∑ r ∈ range g, ∑ c ∈ range g,
          psfSpec n g (pupil mean mask I W') (normFactor n (pupil mean mask I W')) r c := by
  rw [psfSpec_energy n g hg, psfSpec_energy n g hg, normFactor_eq, normFactor_eq, supportCount_pupil,
    supportCount_pupil]
  simp_rw [normSq_pupil]

/-- the unaberrated pupil peaks at exactly 100, at pixel `(grid_size//2, grid_size//2)`, no pixel above -/
theorem psfSpec_unaberrated_peak_is_100 (n g : ℕ) [NeZero n] (hg : n ≤ g) (mean : ℝ) (mask : ℕ → ℕ → Bool)
    (I : ℕ → ℕ → ℝ) (P : ℕ → ℕ → Cx ℝ) (hP : P = pupil mean mask I fun _ _ => 0)
    (hA : ∀ r c, r < n → c < n → 0 ≤ amp mean mask I r c)
    (hsum : ∑ r ∈ range n, ∑ c ∈ range n, amp mean mask I r c = supportCount n P)
    (hS : 0 < supportCount n P) :
    psfSpec n g P (normFactor n P) (g / 2) (g / 2) = 100 ∧
    ∀ r c, r < g → c < g → psfSpec n g P (normFactor n P) r c ≤ 100 := by
  have : NeZero g := neZero_of_le n g hg
  have hfit := spec_fits n g hg
  have hnorm : normFactor n P = supportCount n P ^ 2 := normFactor_eq n P
  have hpos : 0 < supportCount n P ^ 2 := by positivity
  have hPc : ∀ i j, toC (P i j) = (amp mean mask I i j : ℂ) :=
    fun i j => by rw [hP]; exact toC_pupil_zero_phase mean mask I i j
  constructor
  · unfold psfSpec psfTabSpec
    rw [psfTabG_centre n _ _ hfit P, hnorm]
    simp_rw [hPc]
    rw [show (∑ i ∈ range n, ∑ j ∈ range n, (amp mean mask I i j : ℂ))
        = ((∑ i ∈ range n, ∑ j ∈ range n, amp mean mask I i j : ℝ) : ℂ) by push_cast; rfl,
      Complex.normSq_ofReal, hsum, ← sq, div_self (ne_of_gt hpos), one_mul]
  · intro r c hr hc
    unfold psfSpec psfTabSpec
    refine (psfTabG_le n _ _ hfit P _ (hnorm ▸ hpos) r c hr hc).trans (le_of_eq ?_)
    simp_rw [hPc, Complex.norm_real, Real.norm_eq_abs]
    rw [sum_congr rfl fun r hr => sum_congr rfl fun c hc =>
      abs_of_nonneg (hA r c (mem_range.mp hr) (mem_range.mp hc)), hsum, hnorm,
      div_self (ne_of_gt hpos), one_mul]

/-- a pupil with at least one transmitted sample has a PSF of positive total energy
(the hypothesis `0 < total` of the MTF theorems is not an extra assumption) -/
theorem psfSpec_total_pos (n g : ℕ) [NeZero n] (hg : n ≤ g) (mean : ℝ) (mask : ℕ → ℕ → Bool) (I W : ℕ → ℕ → ℝ)
    (hS : 0 < supportCount n (pupil mean mask I W)) :
    0 < total g (psfSpec n g (pupil mean mask I W) (normFactor n (pupil mean mask I W))) := by
  have : NeZero g := neZero_of_le n g hg
  have hgpos : (0 : ℝ) < g := by exact_mod_cast NeZero.pos g
  unfold total
  rw [psfSpec_energy n g hg, normFactor_eq]
  simp_rw [normSq_pupil]
  have hsq : 0 < ∑ i ∈ range n, ∑ j ∈ range n, amp mean mask I i j ^ 2 := by
    have hnn : 0 ≤ ∑ i ∈ range n, ∑ j ∈ range n, amp mean mask I i j ^ 2 :=
      sum_nonneg fun i _ => sum_nonneg fun j _ => sq_nonneg _
    rcases hnn.lt_or_eq with h | h
    · exact h
    · exfalso
      have h1 := (sum_eq_zero_iff_of_nonneg (fun i _ => sum_nonneg fun j _ => sq_nonneg _)).mp h.symm
      have hz : ∀ i ∈ range n, ∀ j ∈ range n, amp mean mask I i j = 0 := by
        intro i hi j hj
        have h2 := (sum_eq_zero_iff_of_nonneg (fun j _ => sq_nonneg (amp mean mask I i j))).mp (h1 i hi) j hj
        exact pow_eq_zero_iff (by norm_num) |>.mp h2
      rw [supportCount_pupil] at hS
      have : (∑ r ∈ range n, ∑ c ∈ range n, if amp mean mask I r c ≠ 0 then (1 : ℝ) else 0) = 0 :=
        sum_eq_zero fun i hi => sum_eq_zero fun j hj => by rw [if_neg (not_not.mpr (hz i hi j hj))]
      linarith
  positivity

lemma psfSpec_fun (n g : ℕ) (P : ℕ → ℕ → Cx ℝ) (norm : ℝ) :
    psfSpec n g P norm = look2 Num.zero (psfTabG n g (padWidth n g) P norm) := rfl

/-- **MTF clauses, end to end** (`FFTPSF` → `FFTMTF._generate_mtf_data`, every parity of
`grid_size − num_rays`): for a pupil `P` with non-negative amplitudes and at least one transmitted
sample, both MTF curves start at one, and every sample lies in `[0, 1]` and does not exceed the
sample of the unaberrated (zero-phase) pupil `P0` of the same transmission, run through the same
pipeline (its own `_get_normalization` included). -/
theorem mtf_pipeline (n g : ℕ) [NeZero n] (hg : n ≤ g) (mean : ℝ) (mask : ℕ → ℕ → Bool) (I W : ℕ → ℕ → ℝ)
    (hA : ∀ r c, 0 ≤ amp mean mask I r c) (hS : 0 < supportCount n (pupil mean mask I W))
    (P P0 : ℕ → ℕ → Cx ℝ) (hP : P = pupil mean mask I W) (hP0 : P0 = pupil mean mask I fun _ _ => 0)
    (M M0 : Array ℝ × Array ℝ)
    (hM : M = mtfSlices g (sliceStartSpec g) (psfSpec n g P (normFactor n P)))
    (hM0 : M0 = mtfSlices g (sliceStartSpec g) (psfSpec n g P0 (normFactor n P0))) :
    (look Num.zero M.1 0 = 1 ∧ look Num.zero M.2 0 = 1) ∧
    ∀ k, k < g - g / 2 →
      (0 ≤ look Num.zero M.1 k ∧ look Num.zero M.1 k ≤ look Num.zero M0.1 k ∧ look Num.zero M0.1 k ≤ 1) ∧
      (0 ≤ look Num.zero M.2 k ∧ look Num.zero M.2 k ≤ look Num.zero M0.2 k ∧ look Num.zero M0.2 k ≤ 1) := by
  have : NeZero g := neZero_of_le n g hg
  have hfit := spec_fits n g hg
  have hN0 : normFactor n P0 = normFactor n P := by
    rw [hP, hP0, normFactor_eq, normFactor_eq, supportCount_pupil, supportCount_pupil]
  rw [hN0] at hM0
  have hSP : 0 < supportCount n P := by rw [hP]; exact hS
  have hS0 : 0 < supportCount n (pupil mean mask I fun _ _ => 0) := by
    rw [supportCount_pupil]; rw [supportCount_pupil] at hS; exact hS
  have hNpos : 0 < normFactor n P := by rw [normFactor_eq]; positivity
  have hnn : ∀ r c, r < g → c < g → 0 ≤ psfSpec n g P (normFactor n P) r c :=
    fun r c hr hc => psfSpec_nonneg n g hg P (normFactor n P) hNpos r c hr hc
  have hnn0 : ∀ r c, r < g → c < g → 0 ≤ psfSpec n g P0 (normFactor n P) r c :=
    fun r c hr hc => psfSpec_nonneg n g hg P0 (normFactor n P) hNpos r c hr hc
  have ht : 0 < total g (psfSpec n g P (normFactor n P)) := by
    rw [hP]; exact psfSpec_total_pos n g hg mean mask I W hS
  have ht0 : 0 < total g (psfSpec n g P0 (normFactor n P)) := by
    rw [← hN0, hP0]; exact psfSpec_total_pos n g hg mean mask I _ hS0
  have h0 : ∀ i j, toC (P0 i j) = ((‖toC (P i j)‖ : ℝ) : ℂ) := by
    intro i j; rw [hP, hP0]; exact zero_phase_pupil mean mask I W hA i j
  rw [hM, hM0]
  refine ⟨mtf_dc_one g (psfSpec n g P (normFactor n P)) hnn ht, fun k hk => ?_⟩
  have hin := mtf_in_unit_interval g (psfSpec n g P (normFactor n P)) hnn ht k hk
  have hin0 := mtf_in_unit_interval g (psfSpec n g P0 (normFactor n P)) hnn0 ht0 k hk
  have hle := mtf_le_diffraction_limited n g (padWidth n g) hfit P P0 h0 (normFactor n P) hNpos
    (by rw [← psfSpec_fun]; exact ht) k hk
  rw [← psfSpec_fun, ← psfSpec_fun] at hle
  exact ⟨⟨hin.1.1, hle.1, hin0.1.2⟩, ⟨hin.2.1, hle.2, hin0.2.2⟩⟩

/-! #### the MTF data vanish from sample `num_rays` on -/

/-- a padded pupil row/column index shifted circularly by `k` with `n ≤ k ≤ gp − n` leaves the support -/
lemma shifted_out_of_support (n gp pad j k : ℕ) (hfit : pad + n ≤ gp) (hj : pad ≤ j ∧ j < pad + n)
    (hk : n ≤ k) (hk2 : k + n ≤ gp) : ¬ (pad ≤ (j + k) % gp ∧ (j + k) % gp < pad + n) := by
  by_cases h : j + k < gp
  · rw [Nat.mod_eq_of_lt h]; omega
  · have h1 : (j + k) % gp = j + k - gp := by
      rw [Nat.mod_eq_sub_mod (by omega), Nat.mod_eq_of_lt (by omega)]
    rw [h1]; omega

lemma shiftIdx_add (gp k : ℕ) (hk : gp / 2 + k < gp) : shiftIdx gp (gp / 2 + k) = k := by
  unfold shiftIdx
  have : gp / 2 + k + (gp - gp / 2) = k + gp := by omega
  rw [this, Nat.add_mod_right, Nat.mod_eq_of_lt (by omega)]

/-- the circular autocorrelation of the padded pupil vanishes for row (or column) shifts `k` with
`n ≤ k ≤ gp − n` -/
lemma autocorr_zero (n gp pad : ℕ) (hfit : pad + n ≤ gp) (P : ℕ → ℕ → Cx ℝ) (s1 s2 : ℕ)
    (hs : (n ≤ s1 ∧ s1 + n ≤ gp) ∨ (n ≤ s2 ∧ s2 + n ≤ gp)) :
    ∑ j1 ∈ range gp, ∑ j2 ∈ range gp,
      padC n pad P j1 j2 * (starRingEnd ℂ) (padC n pad P ((j1 + s1) % gp) ((j2 + s2) % gp)) = 0 := by
  refine sum_eq_zero fun j1 _ => sum_eq_zero fun j2 _ => ?_
  by_cases h1 : pad ≤ j1 ∧ j1 < pad + n
  · by_cases h2 : pad ≤ j2 ∧ j2 < pad + n
    · rcases hs with ⟨ha, hb⟩ | ⟨ha, hb⟩
      · rw [padC_eq n pad P ((j1 + s1) % gp), if_neg (shifted_out_of_support n gp pad j1 s1 hfit h1 ha hb)]
        simp
      · rw [padC_eq n pad P ((j1 + s1) % gp), if_neg (shifted_out_of_support n gp pad j2 s2 hfit h2 ha hb)]
        simp
    · rw [padC_eq n pad P j1 j2, if_neg h2]; simp
  · rw [padC_eq n pad P j1 j2, if_neg h1]; simp

/-- **sample `num_rays` is the cut-off of the MTF data**: the transform of the PSF vanishes at every
row or column frequency index `k` with `num_rays ≤ k ≤ gp − num_rays` (the pupil is `num_rays`
samples wide, so its autocorrelation is zero from that shift on, until it wraps around) -/
theorem otf_zero_beyond_cutoff (n gp pad : ℕ) [NeZero gp] (hfit : pad + n ≤ gp) (P : ℕ → ℕ → Cx ℝ) (norm : ℝ)
    (k : ℕ) (hk : n ≤ k) (hk2 : k + n ≤ gp) (hk3 : gp / 2 + k < gp) :
    otfAbs gp (look2 Num.zero (psfTabG n gp pad P norm)) (gp / 2 + k) (gp / 2) = 0 ∧
    otfAbs gp (look2 Num.zero (psfTabG n gp pad P norm)) (gp / 2) (gp / 2 + k) = 0 := by
  have hpos := NeZero.pos gp
  have hwk : ∀ s1 s2, dft2R gp (powerC n gp pad P) s1 s2 = (gp : ℂ) ^ 2 *
      ∑ j1 ∈ range gp, ∑ j2 ∈ range gp,
        padC n pad P j1 j2 * (starRingEnd ℂ) (padC n pad P ((j1 + s1) % gp) ((j2 + s2) % gp)) :=
    fun s1 s2 => wiener_khinchin2 gp (padC n pad P) s1 s2
  constructor
  · rw [otfAbs_psf, shiftIdx_add gp k hk3, shiftIdx_centre gp hpos, hwk,
      autocorr_zero n gp pad hfit P k 0 (Or.inl ⟨hk, hk2⟩)]
    simp
  · rw [otfAbs_psf, shiftIdx_add gp k hk3, shiftIdx_centre gp hpos, hwk,
      autocorr_zero n gp pad hfit P 0 k (Or.inr ⟨hk, hk2⟩)]
    simp

/-- **the frequency axis is attached to the right samples** (`FFTPSF` → `FFTMTF`, current tree): every
sample `k ≥ num_rays` of both MTF curves is zero (as long as `k ≤ grid_size − num_rays`, i.e. for the
whole plotted half-axis when `grid_size ≥ 2·num_rays`), while `cutoff_frequency` says that sample
`num_rays` of the axis is `1/(λ·10⁻³·FNO)`: the curves reach zero exactly at the stated cut-off.
(`cutoff_frequency` alone only relates two hand-written formulas.) -/
theorem mtf_zero_from_cutoff (n g : ℕ) [NeZero n] (hg : n ≤ g) (P : ℕ → ℕ → Cx ℝ) (norm : ℝ) (hn : 0 < norm)
    (k : ℕ) (hk : n ≤ k) (hk2 : k + n ≤ g) (hk3 : k < g - g / 2) :
    look Num.zero (mtfSlices g (sliceStartSpec g) (psfSpec n g P norm)).1 k = 0 ∧
    look Num.zero (mtfSlices g (sliceStartSpec g) (psfSpec n g P norm)).2 k = 0 := by
  have : NeZero g := neZero_of_le n g hg
  have hnn : ∀ r c, r < g → c < g → 0 ≤ psfSpec n g P norm r c :=
    fun r c hr hc => psfSpec_nonneg n g hg P norm hn r c hr hc
  have h := mtfSlices_eq g (psfSpec n g P norm) hnn k hk3
  have hz := otf_zero_beyond_cutoff n g (padWidth n g) (spec_fits n g hg) P norm k hk hk2 (by omega)
  rw [← psfSpec_fun] at hz
  unfold sliceStartSpec
  rw [h.1, h.2, hz.1, hz.2]
  simp

/-- non-vacuity of the index window: the default `num_rays = 128`, `grid_size = 1024`, samples 128 … 511 -/
example : ∀ k, 128 ≤ k → k < 1024 - 1024 / 2 → k + 128 ≤ 1024 := by omega

/-- **Strehl clause on the current tree**: `strehl_ratio()` reads pixel `grid_size//2` of the
`grid_size²` array; with the amplitude normalised over the transmitted samples it never exceeds one
(restates `strehl_le_one_spec` for `psfSpec`). -/
theorem strehl_le_one_psfSpec (n g : ℕ) [NeZero n] (hg : n ≤ g)
    (mean : ℝ) (mask : ℕ → ℕ → Bool) (I W : ℕ → ℕ → ℝ)
    (hA : ∀ r c, r < n → c < n → 0 ≤ amp mean mask I r c)
    (hsum : ∑ r ∈ range n, ∑ c ∈ range n, amp mean mask I r c = supportCount n (pupil mean mask I W))
    (hS : 0 < supportCount n (pupil mean mask I W)) :
    strehlCode g (psfSpec n g (pupil mean mask I W) (normFactor n (pupil mean mask I W))) ≤ 1 :=
  strehl_le_one_spec n g hg mean mask I W hA hsum hS

/-- non-vacuity of the amplitude hypotheses on a pupil that is not a single sample: 3×3 raster, the
four corners outside the mask, one blocked sample (intensity 0) inside, amplitudes normalised over
the 4 transmitted samples (`mean = 1/2 = (4 · 1/2)/4`), a non-trivial phase map -/
example : ∃ (n : ℕ) (mean : ℝ) (mask : ℕ → ℕ → Bool) (I W : ℕ → ℕ → ℝ),
    (∀ r c, 0 ≤ amp mean mask I r c) ∧
    (∑ r ∈ range n, ∑ c ∈ range n, amp mean mask I r c = supportCount n (pupil mean mask I W)) ∧
    supportCount n (pupil mean mask I W) = 4 := by
  refine ⟨3, 1 / 2, fun r c => decide (r = 1 ∨ c = 1), fun r c => if r = 1 ∧ c = 1 then 0 else 1 / 2,
    fun r c => (r : ℝ) / 3 - c, ?_, ?_, ?_⟩
  · intro r c
    unfold amp
    dsimp only
    split_ifs <;> norm_num
  · rw [supportCount_pupil]
    simp only [sum_range_succ, sum_range_zero, amp]
    norm_num
  · rw [supportCount_pupil]
    simp only [sum_range_succ, sum_range_zero, amp]
    norm_num

/-! ## Round-7 extension: working F-number, any-mask normalisation, grid parity, remaining numeric clauses -/

/-! ### working F-number (`FFTMTF._get_fno`) -/

lemma workingFno_finite (fno xpd epd m : ℝ) :
    workingFno fno false xpd epd m = fno * (1 + |m| / (xpd / epd)) := by
  unfold workingFno
  num_real
  simp

/-- (a) SEEDED SLIP `p = EPD/XPD` instead of `XPD/EPD` is `workingFno` with the two pupil diameters swapped.
The two values coincide exactly when `m = 0` or `p = ±1`. -/
theorem workingFno_pupil_mag_slip_iff (fno xpd epd m : ℝ) (hf : fno ≠ 0) (hx : xpd ≠ 0) (he : epd ≠ 0) :
    workingFno fno false epd xpd m = workingFno fno false xpd epd m ↔
      m = 0 ∨ xpd = epd ∨ xpd = -epd := by
  rw [workingFno_finite, workingFno_finite]
  have key : fno * (1 + |m| / (epd / xpd)) - fno * (1 + |m| / (xpd / epd))
      = fno * |m| * (xpd - epd) * (xpd + epd) / (xpd * epd) := by
    field_simp; ring
  constructor
  · intro h
    have h0 : fno * |m| * (xpd - epd) * (xpd + epd) / (xpd * epd) = 0 := by rw [← key]; linarith
    rw [div_eq_zero_iff] at h0
    rcases h0 with h0 | h0
    · rcases mul_eq_zero.mp h0 with h1 | h1
      · rcases mul_eq_zero.mp h1 with h2 | h2
        · rcases mul_eq_zero.mp h2 with h3 | h3
          · exact absurd h3 hf
          · left; exact abs_eq_zero.mp h3
        · right; left; linarith
      · right; right; linarith
    · exact absurd h0 (mul_ne_zero hx he)
  · intro h
    have h0 : fno * |m| * (xpd - epd) * (xpd + epd) / (xpd * epd) = 0 := by
      rcases h with h | h | h
      · rw [h]; simp
      · rw [h]; simp
      · rw [h]; simp
    linarith [key, h0]

/-- … hence for positive pupil diameters they differ whenever `p ≠ 1` and `m ≠ 0` -/
theorem workingFno_pupil_mag_slip_differs (fno xpd epd m : ℝ) (hf : fno ≠ 0) (hx : 0 < xpd) (he : 0 < epd)
    (hp : xpd / epd ≠ 1) (hm : m ≠ 0) :
    workingFno fno false epd xpd m ≠ workingFno fno false xpd epd m := by
  intro h
  rcases (workingFno_pupil_mag_slip_iff fno xpd epd m hf hx.ne' he.ne').mp h with h | h | h
  · exact hm h
  · exact hp (by rw [h]; exact div_self he.ne')
  · linarith

example : ∃ fno xpd epd m : ℝ, fno ≠ 0 ∧ 0 < xpd ∧ 0 < epd ∧ xpd / epd ≠ 1 ∧ m ≠ 0 :=
  ⟨4, 3, 2, -1 / 2, by norm_num, by norm_num, by norm_num, by norm_num, by norm_num⟩

/-- (a) **working F-number = 1/(2|u'|)**, `n = n' = 1`.  `[[A,B],[C,D]]` is the paraxial transfer matrix from
the entrance-pupil plane to the exit-pupil plane (`det = 1`: `C04.ptrace_eq_matrix`, `lagrange_invariant`;
`B = 0`: the planes are conjugate, `C04.XPL_is_stop_conjugate`), `f = -1/C` is `Paraxial.f2`
(`C04.f2_F2_eq_matrix`), the marginal ray is `(EPD/2, u0) ↦ (XPD/2, u')` and `m = u0/u'` is
`Paraxial.magnification` for `n = n' = 1` without mirrors.  HYPOTHESES NEEDED: `m ≤ 0` (real, inverted
image) and `XPD, EPD > 0`.  The general identity is `1/(2|u'|) = FNO·|1 − m/p|`; the code's
`1 + |m|/p` is that value only for `m/p ≤ 0` (see `workingFno_not_half_inverse_slope_erect`).
No assumption on the position of the image surface is needed.  For the model `Model/Parax.lean`
itself the statement is instantiated in `workingFno_parax_stop_lens` below. -/
theorem workingFno_is_half_inverse_marginal_slope (A B C D epd xpd u0 u' f : ℝ)
    (hdet : A * D - B * C = 1) (hB : B = 0)
    (hy : xpd / 2 = A * (epd / 2) + B * u0) (hu : u' = C * (epd / 2) + D * u0)
    (hf : f = -1 / C) (hC : C ≠ 0) (he : 0 < epd) (hx : 0 < xpd) (hu' : u' ≠ 0)
    (hm : u0 / u' ≤ 0) :
    workingFno (|f| / epd) false xpd epd (u0 / u') = 1 / (2 * |u'|) := by
  subst hB
  have hA : A = xpd / epd := by field_simp; linarith
  have hD : D = epd / xpd := by
    have hA0 : A ≠ 0 := by rw [hA]; positivity
    have : A * D = 1 := by linarith
    rw [hA] at this
    field_simp at this ⊢
    linarith
  have hu0 : u0 = (u' - C * (epd / 2)) * (xpd / epd) := by
    rw [hu, hD]; field_simp; ring
  have hq : 1 + |u0 / u'| / (xpd / epd) = C * epd / (2 * u') := by
    rw [abs_of_nonpos hm, hu0]; field_simp; ring
  have hqpos : 0 < C * epd / (2 * u') := by
    rw [← hq]
    have : 0 ≤ |u0 / u'| / (xpd / epd) := by positivity
    linarith
  have hCu : 0 < C * u' := by
    have e : C * u' = C * epd / (2 * u') * (2 * u' ^ 2 / epd) := by field_simp
    rw [e]
    have : 0 < u' ^ 2 := by positivity
    positivity
  rw [workingFno_finite, hq, hf, abs_div, abs_neg, abs_one]
  rcases pos_and_pos_or_neg_and_neg_of_mul_pos hCu with ⟨h1, h2⟩ | ⟨h1, h2⟩
  · rw [abs_of_pos h1, abs_of_pos h2]; field_simp
  · rw [abs_of_neg h1, abs_of_neg h2]; field_simp

example : ∃ A B C D epd xpd u0 u' f : ℝ, A * D - B * C = 1 ∧ B = 0 ∧ xpd / 2 = A * (epd / 2) + B * u0 ∧
    u' = C * (epd / 2) + D * u0 ∧ f = -1 / C ∧ C ≠ 0 ∧ 0 < epd ∧ 0 < xpd ∧ u' ≠ 0 ∧ u0 / u' ≤ 0 ∧ xpd ≠ epd :=
  ⟨2, 0, -1 / 50, 1 / 2, 10, 20, 1 / 20, -3 / 40, 50, by norm_num, rfl, by norm_num, by norm_num, by norm_num,
    by norm_num, by norm_num, by norm_num, by norm_num, by norm_num, by norm_num⟩

/-- NEGATION WITNESS for dropping `m ≤ 0`: a virtual, erect image (`m = 2`, `f = 1`, `p = 1`): `_get_fno`
gives 3 whereas `1/(2|u'|) = 1`.  (No real image, hence no PSF on a detector: outside the property's range;
recorded because `abs(m)` in `_get_fno` silently assumes `m/p ≤ 0`.) -/
theorem workingFno_not_half_inverse_slope_erect :
    ∃ A B C D epd xpd u0 u' f : ℝ, A * D - B * C = 1 ∧ B = 0 ∧ xpd / 2 = A * (epd / 2) + B * u0 ∧
      u' = C * (epd / 2) + D * u0 ∧ f = -1 / C ∧ C ≠ 0 ∧ 0 < epd ∧ 0 < xpd ∧ u' ≠ 0 ∧ 0 < u0 / u' ∧
      workingFno (|f| / epd) false xpd epd (u0 / u') ≠ 1 / (2 * |u'|) := by
  refine ⟨1, 0, -1, 1, 1, 1, 1, 1 / 2, 1, by norm_num, rfl, by norm_num, by norm_num, by norm_num,
    by norm_num, by norm_num, by norm_num, by norm_num, by norm_num, ?_⟩
  rw [workingFno_finite]
  norm_num

/-- (a) the MTF cut-off `1/(λ·Fw)` of `FFTMTF` is `2·|u'|/λ` (λ in mm = `wl/1000`): twice the image-space
numerical aperture of the paraxial marginal ray over the wavelength — an independent definition. -/
theorem cutoff_is_two_NA_over_lambda (A B C D epd xpd u0 u' f wl : ℝ)
    (hdet : A * D - B * C = 1) (hB : B = 0)
    (hy : xpd / 2 = A * (epd / 2) + B * u0) (hu : u' = C * (epd / 2) + D * u0)
    (hf : f = -1 / C) (hC : C ≠ 0) (he : 0 < epd) (hx : 0 < xpd) (hu' : u' ≠ 0)
    (hm : u0 / u' ≤ 0) (hw : wl ≠ 0) :
    maxFreq wl (workingFno (|f| / epd) false xpd epd (u0 / u')) = 2 * |u'| / (wl / 1000) := by
  rw [workingFno_is_half_inverse_marginal_slope A B C D epd xpd u0 u' f hdet hB hy hu hf hC he hx hu' hm]
  have : |u'| ≠ 0 := abs_ne_zero.mpr hu'
  unfold maxFreq
  num_real
  simp only [Nat.cast_one, Nat.cast_ofNat]
  field_simp

/-! ### normalisation for ANY mask (obstructed, clipped, vignetted) -/

/-- uniform illumination `i0`; the samples marked `blocked` carry intensity 0 (vignetted rays) -/
noncomputable def uniformI (i0 : ℝ) (blocked : ℕ → ℕ → Bool) (r c : ℕ) : ℝ := if blocked r c then 0 else i0

/-- number of samples inside the mask (= number of TRACED rays) -/
noncomputable def maskCount (n : ℕ) (mask : ℕ → ℕ → Bool) : ℝ :=
  ∑ r ∈ range n, ∑ c ∈ range n, if mask r c = true then 1 else 0

/-- number of transmitted samples -/
noncomputable def transCount (n : ℕ) (mask blocked : ℕ → ℕ → Bool) : ℝ :=
  ∑ r ∈ range n, ∑ c ∈ range n, if (mask r c && !blocked r c) = true then 1 else 0

lemma amp_uniform (i0 : ℝ) (hi : i0 ≠ 0) (mask blocked : ℕ → ℕ → Bool) (r c : ℕ) :
    amp i0 mask (uniformI i0 blocked) r c = if (mask r c && !blocked r c) = true then 1 else 0 := by
  unfold amp uniformI
  cases mask r c <;> cases blocked r c <;> simp [hi]

lemma supportCount_uniform (n : ℕ) (i0 : ℝ) (hi : i0 ≠ 0) (mask blocked : ℕ → ℕ → Bool) (W : ℕ → ℕ → ℝ) :
    supportCount n (pupil i0 mask (uniformI i0 blocked) W) = transCount n mask blocked := by
  rw [supportCount_pupil]
  unfold transCount
  refine sum_congr rfl fun r _ => sum_congr rfl fun c _ => ?_
  rw [amp_uniform i0 hi]
  split_ifs <;> simp_all

lemma sum_amp_uniform (n : ℕ) (i0 : ℝ) (hi : i0 ≠ 0) (mask blocked : ℕ → ℕ → Bool) :
    ∑ r ∈ range n, ∑ c ∈ range n, amp i0 mask (uniformI i0 blocked) r c = transCount n mask blocked := by
  unfold transCount
  exact sum_congr rfl fun r _ => sum_congr rfl fun c _ => amp_uniform i0 hi mask blocked r c

lemma amp_uniform_nonneg (i0 : ℝ) (hi : i0 ≠ 0) (mask blocked : ℕ → ℕ → Bool) (r c : ℕ) :
    0 ≤ amp i0 mask (uniformI i0 blocked) r c := by
  rw [amp_uniform i0 hi]; split_ifs <;> norm_num

lemma transCount_pos (n : ℕ) (mask blocked : ℕ → ℕ → Bool)
    (hT : ∃ r c, r < n ∧ c < n ∧ mask r c = true ∧ blocked r c = false) : 0 < transCount n mask blocked := by
  obtain ⟨r, c, hr, hc, hm, hb⟩ := hT
  unfold transCount
  have h1 : (1 : ℝ) ≤ ∑ c' ∈ range n, if (mask r c' && !blocked r c') = true then (1 : ℝ) else 0 := by
    have := single_le_sum (f := fun c' => if (mask r c' && !blocked r c') = true then (1 : ℝ) else 0)
      (fun i _ => by split_ifs <;> norm_num) (mem_range.mpr hc)
    simpa [hm, hb] using this
  have h2 := single_le_sum
    (f := fun r' => ∑ c' ∈ range n, if (mask r' c' && !blocked r' c') = true then (1 : ℝ) else 0)
    (fun i _ => sum_nonneg fun j _ => by split_ifs <;> norm_num) (mem_range.mpr hr)
  linarith

/-- the intensity-mean over the transmitted samples of a uniformly illuminated, partly blocked ray
list is the illumination itself (so `mean = i0` below is `meanSpec`) … -/
lemma rsum_uniform (i0 : ℝ) (hi : i0 ≠ 0) (b : ℕ → Bool) (m : ℕ) :
    rsum (fun i => if b i = true then (0 : ℝ) else i0) m
      = i0 * (countNonzero (fun i => if b i = true then (0 : ℝ) else i0) m : ℕ) := by
  induction m with
  | zero => simp [rsum, countNonzero, NumReal.fzero_eq]
  | succ m ih =>
    unfold rsum countNonzero
    rw [ih]
    num_real
    cases b m <;> simp [hi] <;> ring

/-- uniformly illuminated ray list with blocked rays: the mean over the transmitted rays is the illumination
(so `mean = i0` in the theorems below is `meanSpec`, what `/repo` computes) … -/
theorem meanSpec_uniform (i0 : ℝ) (hi : i0 ≠ 0) (b : ℕ → Bool) (m : ℕ)
    (hc : countNonzero (fun i => if b i = true then (0 : ℝ) else i0) m ≠ 0) :
    meanSpec (fun i => if b i = true then (0 : ℝ) else i0) m = i0 := by
  have hc' : ((countNonzero (fun i => if b i = true then (0 : ℝ) else i0) m : ℕ) : ℝ) ≠ 0 := by exact_mod_cast hc
  unfold meanSpec
  rw [rsum_uniform i0 hi]
  num_real
  simp only [Num.ofNat, NumReal.ofRat_eq, Nat.cast_one, div_one]
  field_simp

/-- … whereas `np.mean` over all `m` traced rays gives `i0 · T / m` -/
theorem meanCode_uniform (i0 : ℝ) (hi : i0 ≠ 0) (b : ℕ → Bool) (m : ℕ) :
    meanCode (fun i => if b i = true then (0 : ℝ) else i0) m
      = i0 * (countNonzero (fun i => if b i = true then (0 : ℝ) else i0) m : ℕ) / m := by
  unfold meanCode
  rw [rsum_uniform i0 hi]
  num_real
  simp only [Num.ofNat, NumReal.ofRat_eq, Nat.cast_one, div_one]

/-- (b) **ANY mask**: for a uniformly illuminated pupil with an arbitrary mask (clipped) and arbitrary blocked
samples inside it (obstructed, vignetted), zero phase: `_get_normalization` is `T²`, `T` the number of
transmitted samples, the central pixel of the `grid_size²` PSF is exactly 100 and no pixel exceeds 100.
All hypotheses of `psfSpec_unaberrated_peak_is_100` are discharged; only `T ≥ 1` remains. -/
theorem psfSpec_peak_100_any_mask (n g : ℕ) [NeZero n] (hg : n ≤ g) (i0 : ℝ) (hi : i0 ≠ 0)
    (mask blocked : ℕ → ℕ → Bool) (P : ℕ → ℕ → Cx ℝ)
    (hP : P = pupil i0 mask (uniformI i0 blocked) fun _ _ => 0)
    (hT : ∃ r c, r < n ∧ c < n ∧ mask r c = true ∧ blocked r c = false) :
    normFactor n P = transCount n mask blocked ^ 2 ∧
    psfSpec n g P (normFactor n P) (g / 2) (g / 2) = 100 ∧
    ∀ r c, r < g → c < g → psfSpec n g P (normFactor n P) r c ≤ 100 := by
  have hS : supportCount n P = transCount n mask blocked := by rw [hP]; exact supportCount_uniform n i0 hi _ _ _
  refine ⟨by rw [normFactor_eq, hS], ?_⟩
  exact psfSpec_unaberrated_peak_is_100 n g hg i0 mask (uniformI i0 blocked) P hP
    (fun r c _ _ => amp_uniform_nonneg i0 hi mask blocked r c)
    (by rw [hS]; exact sum_amp_uniform n i0 hi mask blocked)
    (by rw [hS]; exact transCount_pos n mask blocked hT)

lemma transCount_le_maskCount (n : ℕ) (mask blocked : ℕ → ℕ → Bool) :
    transCount n mask blocked ≤ maskCount n mask := by
  unfold transCount maskCount
  refine sum_le_sum fun r _ => sum_le_sum fun c _ => ?_
  cases mask r c <;> cases blocked r c <;> simp

lemma transCount_eq_maskCount_iff (n : ℕ) (mask blocked : ℕ → ℕ → Bool) :
    transCount n mask blocked = maskCount n mask ↔
      ∀ r c, r < n → c < n → mask r c = true → blocked r c = false := by
  have hle : ∀ r c, (if (mask r c && !blocked r c) = true then (1 : ℝ) else 0) ≤ if mask r c = true then 1 else 0 := by
    intro r c; cases mask r c <;> cases blocked r c <;> simp
  unfold transCount maskCount
  rw [sum_eq_sum_iff_of_le (fun r _ => sum_le_sum fun c _ => hle r c)]
  constructor
  · intro h r c hr hc hm
    have h1 := (sum_eq_sum_iff_of_le (fun c _ => hle r c)).mp (h r (mem_range.mpr hr)) c (mem_range.mpr hc)
    rw [hm] at h1
    cases hb : blocked r c
    · rfl
    · rw [hb] at h1; simp at h1
  · intro h r hr
    refine sum_congr rfl fun c hc => ?_
    cases hm : mask r c
    · simp
    · have := h r c (mem_range.mp hr) (mem_range.mp hc) hm
      simp [this]

/-- (b) SEEDED SLIP: normalising by the square of the number of TRACED rays (`maskCount`) gives a central
value `100·(T/M)²`, which is the required 100 iff no sample inside the mask is blocked. -/
theorem psfSpec_norm_by_traced_rays (n g : ℕ) [NeZero n] (hg : n ≤ g) (i0 : ℝ) (hi : i0 ≠ 0)
    (mask blocked : ℕ → ℕ → Bool) (P : ℕ → ℕ → Cx ℝ)
    (hP : P = pupil i0 mask (uniformI i0 blocked) fun _ _ => 0)
    (hM : 0 < maskCount n mask) :
    psfSpec n g P (maskCount n mask ^ 2) (g / 2) (g / 2)
      = 100 * (transCount n mask blocked / maskCount n mask) ^ 2 ∧
    (psfSpec n g P (maskCount n mask ^ 2) (g / 2) (g / 2) = 100 ↔
      ∀ r c, r < n → c < n → mask r c = true → blocked r c = false) := by
  have : NeZero g := neZero_of_le n g hg
  have hPc : ∀ i j, toC (P i j) = (amp i0 mask (uniformI i0 blocked) i j : ℂ) :=
    fun i j => by rw [hP]; exact toC_pupil_zero_phase i0 mask _ i j
  have hval : psfSpec n g P (maskCount n mask ^ 2) (g / 2) (g / 2)
      = 100 * (transCount n mask blocked / maskCount n mask) ^ 2 := by
    unfold psfSpec psfTabSpec
    rw [psfTabG_centre n _ _ (spec_fits n g hg) P]
    simp_rw [hPc]
    rw [show (∑ i ∈ range n, ∑ j ∈ range n, (amp i0 mask (uniformI i0 blocked) i j : ℂ))
        = ((∑ i ∈ range n, ∑ j ∈ range n, amp i0 mask (uniformI i0 blocked) i j : ℝ) : ℂ) by push_cast; rfl,
      Complex.normSq_ofReal, sum_amp_uniform n i0 hi]
    field_simp
  refine ⟨hval, ?_⟩
  rw [hval, ← transCount_eq_maskCount_iff]
  have hT0 : 0 ≤ transCount n mask blocked := by
    unfold transCount
    exact sum_nonneg fun r _ => sum_nonneg fun c _ => by split_ifs <;> norm_num
  constructor
  · intro h
    have h1 : (transCount n mask blocked / maskCount n mask) ^ 2 = 1 := by linarith
    have h2 : 0 ≤ transCount n mask blocked / maskCount n mask := by positivity
    have h3 : transCount n mask blocked / maskCount n mask = 1 := by nlinarith
    exact (div_eq_one_iff_eq hM.ne').mp h3
  · intro h
    rw [h, div_self hM.ne']; norm_num

/-- (b) Strehl ratio for ANY mask / obstruction and ANY wavefront `W`: at most one (triangle inequality on the
DFT centre sample), and exactly one for `W = 0`; no hypothesis on amplitudes left. -/
theorem strehl_any_mask (n g : ℕ) [NeZero n] (hg : n ≤ g) (i0 : ℝ) (hi : i0 ≠ 0)
    (mask blocked : ℕ → ℕ → Bool) (W : ℕ → ℕ → ℝ)
    (hT : ∃ r c, r < n ∧ c < n ∧ mask r c = true ∧ blocked r c = false) :
    strehlCode g (psfSpec n g (pupil i0 mask (uniformI i0 blocked) W)
      (normFactor n (pupil i0 mask (uniformI i0 blocked) W))) ≤ 1 ∧
    strehlCode g (psfSpec n g (pupil i0 mask (uniformI i0 blocked) fun _ _ => 0)
      (normFactor n (pupil i0 mask (uniformI i0 blocked) fun _ _ => 0))) = 1 := by
  constructor
  · exact strehl_le_one_psfSpec n g hg i0 mask (uniformI i0 blocked) W
      (fun r c _ _ => amp_uniform_nonneg i0 hi mask blocked r c)
      (by rw [supportCount_uniform n i0 hi]; exact sum_amp_uniform n i0 hi mask blocked)
      (by rw [supportCount_uniform n i0 hi]; exact transCount_pos n mask blocked hT)
  · have h := (psfSpec_peak_100_any_mask n g hg i0 hi mask blocked _ rfl hT).2.1
    unfold strehlCode
    rw [strehlAt_eq, h]; norm_num

example : ∃ (n : ℕ) (mask blocked : ℕ → ℕ → Bool), (∃ r c, r < n ∧ c < n ∧ mask r c = true ∧ blocked r c = false) ∧
    (∃ r c, r < n ∧ c < n ∧ mask r c = true ∧ blocked r c = true) ∧ (∃ r c, r < n ∧ c < n ∧ mask r c = false) :=
  ⟨3, fun r c => decide (r = 1 ∨ c = 1), fun r c => decide (r = 1 ∧ c = 1),
    ⟨0, 1, by decide⟩, ⟨1, 1, by decide⟩, ⟨0, 0, by decide⟩⟩

/-! ### odd and even grid sizes: index conventions, symmetry of the MTF -/

/-- (c) index conventions for even AND odd `grid_size`: zero frequency sits at `g//2` after `fftshift`; pixel
`g//2 + k` holds frequency `+k`, pixel `g//2 − k` holds `−k` (`= g − k` mod `g`); the slices
`data[g//2:]` have `g − g//2 = ⌈g/2⌉` samples (`g/2` for even, `g//2 + 1` for odd `g`) -/
theorem fftshift_index_convention (g : ℕ) (hg : 0 < g) :
    shiftIdx g (g / 2) = 0 ∧
    (∀ k, g / 2 + k < g → shiftIdx g (g / 2 + k) = k) ∧
    (∀ k, 1 ≤ k → k ≤ g / 2 → shiftIdx g (g / 2 - k) = g - k) ∧
    g - sliceStartSpec g = (g + 1) / 2 ∧
    (g % 2 = 0 → g - sliceStartSpec g = g / 2) ∧ (g % 2 = 1 → g - sliceStartSpec g = g / 2 + 1) := by
  refine ⟨shiftIdx_centre g hg, fun k hk => shiftIdx_add g k hk, fun k h1 h2 => ?_, ?_, ?_, ?_⟩
  · unfold shiftIdx
    have : g / 2 - k + (g - g / 2) = g - k := by omega
    rw [this]
    exact Nat.mod_eq_of_lt (by omega)
  · unfold sliceStartSpec; omega
  · unfold sliceStartSpec; omega
  · unfold sliceStartSpec; omega

/-- transform of a real array: `conj F[k1,k2] = F[-k1,-k2]` (indices mod `N`) -/
lemma dft2R_conj_real (N : ℕ) [NeZero N] (x : ℕ → ℕ → ℂ) (hx : ∀ r c, (starRingEnd ℂ) (x r c) = x r c)
    (k1 k2 k1' k2' : ℕ) (h1 : (k1 + k1') % N = 0) (h2 : (k2 + k2') % N = 0) :
    (starRingEnd ℂ) (dft2R N x k1 k2) = dft2R N x k1' k2' := by
  have z1 : ((k1 : ZMod N) + (k1' : ZMod N)) = 0 := by
    have := (ZMod.natCast_eq_zero_iff (k1 + k1') N).mpr (Nat.dvd_of_mod_eq_zero h1)
    exact_mod_cast this
  have z2 : ((k2 : ZMod N) + (k2' : ZMod N)) = 0 := by
    have := (ZMod.natCast_eq_zero_iff (k2 + k2') N).mpr (Nat.dvd_of_mod_eq_zero h2)
    exact_mod_cast this
  rw [dft2R_eq_sum, dft2R_eq_sum, map_sum]
  refine sum_congr rfl fun j1 _ => ?_
  rw [map_sum]
  refine sum_congr rfl fun j2 _ => ?_
  rw [map_mul, hx, conj_E]
  congr 1
  apply E_congr_mod
  push_cast
  linear_combination (-(j1 : ZMod N)) * z1 + (-(j2 : ZMod N)) * z2

/-- (c) **symmetry of the MTF**: the PSF is real, so `|FFT₂(psf)|` at `−k` equals the value at `+k`, along
rows and along columns, for every parity of the grid: the half-axis that `FFTMTF` keeps loses nothing. -/
theorem mtf_symmetric (gp : ℕ) [NeZero gp] (psf : ℕ → ℕ → ℝ) (k : ℕ) (h1 : 1 ≤ k) (h2 : k ≤ gp / 2)
    (h3 : gp / 2 + k < gp) :
    otfAbs gp psf (gp / 2 - k) (gp / 2) = otfAbs gp psf (gp / 2 + k) (gp / 2) ∧
    otfAbs gp psf (gp / 2) (gp / 2 - k) = otfAbs gp psf (gp / 2) (gp / 2 + k) := by
  have hpos := NeZero.pos gp
  obtain ⟨hc, hp, hm, -⟩ := fftshift_index_convention gp hpos
  have hreal : ∀ r c, (starRingEnd ℂ) (realC psf r c) = realC psf r c := fun r c => Complex.conj_ofReal _
  have hk : (k + (gp - k)) % gp = 0 := by
    have : k + (gp - k) = gp := by omega
    rw [this, Nat.mod_self]
  unfold otfAbs
  rw [hc, hp k h3, hm k h1 h2]
  constructor
  · rw [← dft2R_conj_real gp (realC psf) hreal k 0 (gp - k) 0 hk (by simp), Complex.norm_conj]
  · rw [← dft2R_conj_real gp (realC psf) hreal 0 k 0 (gp - k) (by simp) hk, Complex.norm_conj]

example : ∃ gp k : ℕ, 1 ≤ k ∧ k ≤ gp / 2 ∧ gp / 2 + k < gp ∧ gp % 2 = 1 := ⟨65, 32, by omega⟩

/-! ### frequency step and PSF extent; geometric MTF axis and scaling -/

/-- (d) `_get_psf_units` vs. the MTF axis: frequency step × extent of the `grid_size` image = 1
(in cycles/mm × µm: 1000) — the DFT duality `Δν = 1/(G·Δx)` -/
theorem freq_step_times_extent (n g : ℕ) (hn : n ≠ 0) (hg : g ≠ 0) (wl fno : ℝ) (hw : wl ≠ 0) (hf : fno ≠ 0) :
    freqStepSpec n wl fno * psfExtent n g g wl fno = 1000 := by
  have hn' : (n : ℝ) ≠ 0 := by exact_mod_cast hn
  have hg' : (g : ℝ) ≠ 0 := by exact_mod_cast hg
  unfold freqStepSpec psfExtent
  num_real
  simp only [Num.ofNat, NumReal.ofRat_eq, Nat.cast_one, div_one, Nat.cast_ofNat]
  field_simp

/-- (d) the diffraction-limit factor `(2/π)(φ − cos φ sin φ)` lies in `[0, 1]` on `0 ≤ ν/ν_c ≤ 1` -/
theorem diff_limit_in_unit_interval (ratio : ℝ) (h0 : 0 ≤ ratio) (h1 : ratio ≤ 1) :
    0 ≤ diffLimit ratio ∧ diffLimit ratio ≤ 1 := by
  unfold diffLimit
  num_real
  have hpi := Real.pi_pos
  set φ := Real.arccos ratio with hφ
  have hφ0 : 0 ≤ φ := Real.arccos_nonneg ratio
  have hφ1 : φ ≤ π / 2 := Real.arccos_le_pi_div_two.mpr h0
  have hs0 : 0 ≤ Real.sin φ := Real.sin_nonneg_of_nonneg_of_le_pi hφ0 (by linarith)
  have hs1 : Real.sin φ ≤ φ := Real.sin_le hφ0
  have hc0 : 0 ≤ Real.cos φ := by rw [hφ, Real.cos_arccos (by linarith) h1]; exact h0
  have hc1 : Real.cos φ ≤ 1 := Real.cos_le_one φ
  have hcs : Real.cos φ * Real.sin φ ≤ Real.sin φ := by nlinarith
  have hcs0 : 0 ≤ Real.cos φ * Real.sin φ := mul_nonneg hc0 hs0
  constructor
  · have : 0 ≤ φ - Real.cos φ * Real.sin φ := by linarith
    positivity
  · have hle : φ - Real.cos φ * Real.sin φ ≤ π / 2 := by linarith
    calc 2 / π * (φ - Real.cos φ * Real.sin φ) ≤ 2 / π * (π / 2) :=
          mul_le_mul_of_nonneg_left hle (by positivity)
      _ = 1 := by field_simp

/-- (d) geometric MTF: `freq = linspace(0, max_freq, num_points)` starts at 0, ends at the cut-off, stays between -/
theorem geo_freq_axis (numPoints : ℕ) (hN : 2 ≤ numPoints) (maxF : ℝ) (hF : 0 ≤ maxF) :
    linspace numPoints (Num.zero : ℝ) maxF 0 = 0 ∧
    linspace numPoints (Num.zero : ℝ) maxF (numPoints - 1) = maxF ∧
    ∀ k, k < numPoints → 0 ≤ linspace numPoints (Num.zero : ℝ) maxF k ∧
      linspace numPoints (Num.zero : ℝ) maxF k ≤ maxF := by
  have hN1 : ¬ numPoints ≤ 1 := by omega
  have hd : (0 : ℝ) < ((numPoints - 1 : ℕ) : ℝ) := by exact_mod_cast (by omega : 0 < numPoints - 1)
  have gen : ∀ k, k + 1 ≠ numPoints →
      linspace numPoints (Num.zero : ℝ) maxF k = (k : ℝ) * (maxF / ((numPoints - 1 : ℕ) : ℝ)) := by
    intro k hk
    unfold linspace
    rw [if_neg hN1, if_neg (by simpa using hk)]
    num_real
    simp only [Num.ofNat, NumReal.ofRat_eq, Nat.cast_one, div_one, sub_zero, add_zero]
  have hlast : linspace numPoints (Num.zero : ℝ) maxF (numPoints - 1) = maxF := by
    unfold linspace
    rw [if_neg hN1, if_pos (by simp; omega)]
  refine ⟨?_, hlast, fun k hk => ?_⟩
  · rw [gen 0 (by omega)]; simp
  · by_cases hk1 : k + 1 = numPoints
    · have : k = numPoints - 1 := by omega
      rw [this, hlast]; exact ⟨hF, le_refl _⟩
    · rw [gen k hk1]
      have hkle : (k : ℝ) ≤ ((numPoints - 1 : ℕ) : ℝ) := by exact_mod_cast (by omega : k ≤ numPoints - 1)
      constructor
      · positivity
      · rw [mul_div_assoc']
        rw [div_le_iff₀ hd]
        nlinarith

/-- (d) every scaled geometric MTF sample lies in `[0, diff-limit] ⊆ [0, 1]` -/
theorem geometric_mtf_scaled_in_unit_interval (A xc : ℕ → ℝ) (dx : ℝ) (nb : ℕ) (v ratio : ℝ)
    (hdx : dx ≠ 0) (hnn : ∀ j, j < nb → 0 ≤ A j) (hA : 0 < ∑ j ∈ range nb, A j)
    (h0 : 0 ≤ ratio) (h1 : ratio ≤ 1) :
    0 ≤ geoMtfAt A xc dx nb v * diffLimit ratio ∧
    geoMtfAt A xc dx nb v * diffLimit ratio ≤ diffLimit ratio ∧ diffLimit ratio ≤ 1 := by
  obtain ⟨hd0, hd1⟩ := diff_limit_in_unit_interval ratio h0 h1
  have hg0 : 0 ≤ geoMtfAt A xc dx nb v := by
    rw [geometric_mtf_is_line_spread_ft A xc dx nb v hdx hA]
    positivity
  exact ⟨mul_nonneg hg0 hd0, geometric_mtf_le_diff_limit A xc dx nb v _ hdx hnn hA hd0, hd1⟩

/-- non-vacuity of the guards of `geo_freq_axis`, `diff_limit_in_unit_interval`, `psfSpec_norm_by_traced_rays` -/
example : ∃ (numPoints : ℕ) (maxF ratio : ℝ), 2 ≤ numPoints ∧ 0 ≤ maxF ∧ 0 ≤ ratio ∧ ratio ≤ 1 :=
  ⟨50, 200, 1 / 2, by norm_num, by norm_num, by norm_num, by norm_num⟩
example : 0 < maskCount 2 (fun _ _ => true) := by
  unfold maskCount; simp

/-! ### (a) continued: the working F-number evaluated on `Model/Parax.lean` -/
section ParaxTie
open Model

/-- stop in front of a thin plano-convex lens -/
noncomputable def stopLens (d t R n zi epd h : ℝ) : PSys ℝ :=
  ⟨[⟨.object, 0, -d, 0, 1, 1, false, false⟩, ⟨.standard, 0, 0, 0, 1, 1, false, true⟩,
    ⟨.standard, 0, t, R, 1, n, false, false⟩, ⟨.standard, 0, t, 0, n, 1, false, false⟩,
    ⟨.image, 0, zi, 0, 1, 1, false, false⟩], .EPD, epd, .objectHeight, h, false⟩

lemma stopLens_stop (d t R n zi epd h : ℝ) : stopIndex (stopLens d t R n zi epd h).surfs = some 1 := by
  simp [stopLens, stopIndex, List.findIdx?_cons]

lemma stopLens_stop_inv (d t R n zi epd h : ℝ) :
    stopIndex (inverted (stopLens d t R n zi epd h).surfs) = some 3 := by
  simp [stopLens, stopIndex, inverted, List.findIdx?_cons]

lemma stopLens_EPL (d t R n zi epd h : ℝ) : EPL (stopLens d t R n zi epd h) = 0 := by
  simp only [EPL, stopLens_stop, stopLens_stop_inv]
  simp [stopLens, inverted, traceGeneric, ptrace, pstep, ys, us, last, posOf, tenth]

lemma stopLens_u (d t R n zi epd h : ℝ) (hn : n ≠ 0) (hd : d ≠ 0) (hR : R ≠ 0) :
    last (us (marginalRay (stopLens d t R n zi epd h)))
      = epd / (2 * d) - (epd / 2 + t * (epd / (2 * d))) * ((n - 1) / R) := by
  unfold marginalRay
  rw [stopLens_EPL]
  simp [stopLens, EPD, traceGeneric, ptrace, pstep, pstepStd, pstepImg, us, last, posOf]
  num_real
  field_simp

lemma stopLens_EPD (d t R n zi epd h : ℝ) : EPD (stopLens d t R n zi epd h) = epd := by
  simp [EPD, stopLens]

lemma stopLens_FNO (d t R n zi epd h : ℝ) (hn : n ≠ 0) (hR : R ≠ 0) (h1 : n - 1 ≠ 0) :
    FNO (stopLens d t R n zi epd h) = |(-1) / (-((n - 1) / R))| / epd := by
  unfold FNO
  rw [stopLens_EPD]
  simp [stopLens, f2, f2raw, traceGeneric, ptrace, pstep, pstepStd, pstepImg, ys, us, first, last, posOf]
  num_real
  congr 1
  congr 1
  field_simp

lemma stopLens_mag (d t R n zi epd h : ℝ) (hn : n ≠ 0) (hd : d ≠ 0) (hR : R ≠ 0) :
    magnification (stopLens d t R n zi epd h)
      = epd / (2 * d) / last (us (marginalRay (stopLens d t R n zi epd h))) := by
  unfold magnification
  rw [stopLens_u d t R n zi epd h hn hd hR]
  unfold marginalRay
  rw [stopLens_EPL]
  simp [stopLens, EPD, nList, mirrorSign, traceGeneric, ptrace, pstep, pstepStd, pstepImg, us, first, last, posOf]
  num_real
  field_simp

lemma stopLens_XPD (d t R n zi epd h : ℝ) (hn : n ≠ 0) (hd : d ≠ 0) (hR : R ≠ 0)
    (ht : 1 - t * ((n - 1) / R) ≠ 0) :
    XPD (stopLens d t R n zi epd h) = epd / (1 - t * ((n - 1) / R)) := by
  have ht' : t - t * n + R ≠ 0 := by
    intro h0; apply ht; field_simp; linarith
  have ht'' : R - t * (n - 1) ≠ 0 := by
    intro h0; apply ht'; linarith
  simp only [XPD, XPL, marginalRay, stopLens_EPL, stopLens_stop]
  simp [stopLens, EPD, traceGeneric, ptrace, pstep, pstepStd, pstepImg, ys, us, last, posOf, tenth]
  num_real
  field_simp
  ring
/-- (a) **the working F-number of the model `Model/Parax.lean` is `1/(2|u'|)`** on the family `stopLens`
(aperture stop at distance `t` in front of a thin plano-convex lens, radius `R`, index `n`, object at distance
`d`, image surface ANYWHERE (`zi` free), so pupil magnification `p = 1/(1 − t(n−1)/R) ≠ 1` in general):
`_get_fno` evaluated on `Paraxial.FNO/XPD/EPD/magnification` equals one over twice the modulus of the
image-space slope of `Paraxial.marginal_ray`.  Hypotheses: non-degenerate lens, `p > 0`, `m ≤ 0`, `u' ≠ 0`.
PARTIAL with respect to "every lens": one 6-parameter family; the general step is
`workingFno_is_half_inverse_marginal_slope`. -/
theorem workingFno_parax_stop_lens_partial (d t R n zi epd h : ℝ) (hn : n ≠ 0) (h1 : n - 1 ≠ 0) (hd : d ≠ 0)
    (hR : R ≠ 0) (ht : 0 < 1 - t * ((n - 1) / R)) (he : 0 < epd)
    (S : PSys ℝ) (hS : S = stopLens d t R n zi epd h)
    (hu : last (us (marginalRay S)) ≠ 0) (hm : magnification S ≤ 0) :
    workingFno (FNO S) false (XPD S) (EPD S) (magnification S)
      = 1 / (2 * |last (us (marginalRay S))|) := by
  subst hS
  rw [stopLens_mag d t R n zi epd h hn hd hR] at hm ⊢
  rw [stopLens_FNO d t R n zi epd h hn hR h1, stopLens_XPD d t R n zi epd h hn hd hR ht.ne', stopLens_EPD]
  have hue := stopLens_u d t R n zi epd h hn hd hR
  have hφ : (n - 1) / R ≠ 0 := div_ne_zero h1 hR
  exact workingFno_is_half_inverse_marginal_slope (1 / (1 - t * ((n - 1) / R))) 0 (-((n - 1) / R))
    (1 - t * ((n - 1) / R)) epd (epd / (1 - t * ((n - 1) / R))) (epd / (2 * d)) _ _
    (by rw [one_div_mul_cancel ht.ne']; ring) rfl (by ring) (by rw [hue]; ring) rfl (neg_ne_zero.mpr hφ) he (div_pos he ht) hu hm

/-- non-vacuity: `d = 100, t = 5, R = 25, n = 3/2` (`f = 50`, `p = 10/9`), `EPD = 10`: `u' = −11/200`, `m = −10/11` -/
example : ∃ d t R n zi epd h : ℝ, n ≠ 0 ∧ n - 1 ≠ 0 ∧ d ≠ 0 ∧ R ≠ 0 ∧ 0 < 1 - t * ((n - 1) / R) ∧ 0 < epd ∧
    last (us (marginalRay (stopLens d t R n zi epd h))) ≠ 0 ∧ magnification (stopLens d t R n zi epd h) ≤ 0 := by
  refine ⟨100, 5, 25, 3 / 2, 60, 10, 1, by norm_num, by norm_num, by norm_num, by norm_num, by norm_num,
    by norm_num, ?_, ?_⟩
  · rw [stopLens_u _ _ _ _ _ _ _ (by norm_num) (by norm_num) (by norm_num)]; norm_num
  · rw [stopLens_mag _ _ _ _ _ _ _ (by norm_num) (by norm_num) (by norm_num),
      stopLens_u _ _ _ _ _ _ _ (by norm_num) (by norm_num) (by norm_num)]; norm_num

end ParaxTie

end C11
