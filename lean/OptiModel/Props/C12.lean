import OptiModel.Proofs.Analysis
/-!
# C12  Geometric analyses are faithful functions of the traced rays

Theorems about `Model/Analysis.lean` over ℝ (a few hold over every carrier and are stated so).

Clause → theorem
* outputs are functions of the ray records at the documented samples:
  `analysis_is_function_of_rays` (spot data of a lens = post-processing of `traceLens` records),
  `spot_function_of_xy`, `distortion_function_of_y`, `fc_function_of_meridional`,
  `operand_rms_eq_spot_rms`, `operand_is_record`.
  REVIEW NOTE: the first four are unfoldings / congruences of the model's own definitions (they hold
  for *any* definition of that shape and say nothing about `/repo`); the clause "equals the quantity
  recomputed from independently traced rays" is carried by the differential correspondence of the
  harness, not by these theorems.  Only `operand_rms_eq_spot_rms` relates two differently written
  computations.
* centroid / radii: `centroid_translation`, `centred_centroid_zero`, `rms_le_geometric`, `radii_nonneg`
* encircled energy: `ee_monotone`, `ee_le_total`, `ee_reaches_total`, `ee_reaches_total_at_rmax`,
  `linspace_last` (the last plotted radius is `r_max`); composed for the model's actual output
  `encircledEnergy data n` (bound on `r_max` derived, not assumed): `encircledEnergy_curves`
  (with `eeRmax_spec`, `linspace_zero_mono`, `spotsOK_of_rays`)
* field curvature: `parabasal_intersection`, `fc_value_is_z_offset`
* distortion: `distortion_def`, `distortion_zero_at_reference`, `distortion_ref_is_paraxial_partial`,
  `distortion_spec_angle`,
  `distortion_height_linear_zero` (the reference required for object-height fields; the code's
  `tan(radians(h))` reference is F18 — numerical evidence in the harness)
* grid distortion: `grid_flip_is_negation`, `gridDistortion_spec_angle`
* explicit lists (F12): `explicit_lists_own` (code = spec when the primary wavelength sits at the
  lens's primary index of the given list), `explicit_lists_code_differs` (a concrete list where the
  code's centroid is not the primary-wavelength centroid), `rayFan_code_eq_spec`

Partial (no theorem; numerical in the harness, see `coddington_partial` below): agreement of the
parabasal intersection with Coddington's equations is a first-order limit (error O(δ²)).
REVIEW NOTE, further gaps: the distortion clause is stated against the *small-field chief ray*
reference (`distortion_def`); that this is the paraxial image height is only the conditional
`distortion_ref_is_paraxial_partial`.  No theorem at all concerns `pupilAberration`, `yybarSegments`,
`rmsVsFieldHy`, `fanPupil`/`fanShift` (beyond `rayFan_code_eq_spec`) or `gridOut`'s `max_distortion`:
for those analyses the claim rests on the differential correspondence only.

Round-8 additions (end of file):
* distortion sign follows the SIGNED reference height: `dist_term_pos_iff`, `dist_term_abs_differs_iff`
  (slip "/|y_p|" differs iff `y_p < 0 ∧ y ≠ y_p`), `distortion_sign_signed_height`, `distortion_inverted_image`
* field curvature on a curved image: `fcTangential_own_z`, `fcTangential_same_slice_misses_focus`,
  `fcSagittal_mirror_pair` (mirror relation of the sagittal pair is a hypothesis on the records)
* spot diagrams: `center_center`, `center_zero`, `radii_translation_invariant`, `centring_on_copy`,
  `centroid_changes_if_centred_in_place`; `'all'` RMS: `opRmsAll_same_samples`, `opRmsAll_mean_of_wavelength_means`
* sampling: `linspace_getD`, `linspace_symmetric`, `fanPupil_symmetric`, `rayFan_reference_zero`,
  `rmsVsField_samples`; FINDING (edge) `fanPupil_one_point_not_chief`
* `yybar_segments_spec`, `pupilAb_spec`
-/
namespace C12
open Model Model.An AnProofs

/-! ### generic list facts -/

theorem forall_mem_zipWith {β γ δ : Type} (f : β → γ → δ) (P : δ → Prop) (h : ∀ a b, P (f a b)) :
    ∀ (xs : List β) (ys : List γ), ∀ v ∈ List.zipWith f xs ys, P v := by
  intro xs
  induction xs with
  | nil => intro ys v hv; simp at hv
  | cons a xs ih =>
    intro ys v hv
    cases ys with
    | nil => simp at hv
    | cons b ys =>
      simp only [List.zipWith_cons_cons, List.mem_cons] at hv
      rcases hv with rfl | hv
      · exact h a b
      · exact ih ys v hv

/-! ### centroid -/

/-- **centroid_translation**: shifting every point of a spot by `-c` shifts its centroid by `-c`. -/
theorem centroid_translation (s : Spot ℝ) (c : ℝ × ℝ) (hx : s.x ≠ []) (hy : s.y ≠ []) :
    centroidOf (center s c) = ((centroidOf s).1 - c.1, (centroidOf s).2 - c.2) := by
  unfold centroidOf center
  simp only [mean_eq]
  num_real
  rw [mean_map_sub s.x c.1 hx, mean_map_sub s.y c.2 hy]

/-- a spot centred on its own centroid has centroid zero (`_center_spots` on the reference
wavelength) -/
theorem centred_centroid_zero (s : Spot ℝ) (hx : s.x ≠ []) (hy : s.y ≠ []) :
    centroidOf (center s (centroidOf s)) = (0, 0) := by
  rw [centroid_translation s _ hx hy]
  simp

example : ∃ s : Spot ℝ, s.x ≠ [] ∧ s.y ≠ [] := ⟨⟨[1, 2], [3, 5], [1, 1]⟩, by simp, by simp⟩

/-! ### radii -/

theorem r2_nonneg (s : Spot ℝ) : ∀ v ∈ r2Of s, 0 ≤ v := by
  unfold r2Of
  apply forall_mem_zipWith
  intro a b
  num_real
  nlinarith [mul_self_nonneg a, mul_self_nonneg b]

/-- **radii_nonneg** -/
theorem radii_nonneg (s : Spot ℝ) : 0 ≤ rmsOf s ∧ 0 ≤ geoOf s := by
  constructor
  · unfold rmsOf
    rw [NumReal.sqrt_eq]
    exact Real.sqrt_nonneg _
  · unfold geoOf
    by_cases h : radiiOf s = []
    · rw [h]
      show (0 : ℝ) ≤ Num.zero
      rw [NumReal.fzero_eq]
    · have hm := npMax_mem _ h
      unfold radiiOf at hm ⊢
      obtain ⟨v, _, hv⟩ := List.mem_map.mp hm
      rw [← hv, NumReal.sqrt_eq]
      exact Real.sqrt_nonneg v

/-- **rms_le_geometric**: the RMS radius never exceeds the geometric (maximum) radius. -/
theorem rms_le_geometric (s : Spot ℝ) (hne : r2Of s ≠ []) : rmsOf s ≤ geoOf s := by
  have hG0 : 0 ≤ geoOf s := (radii_nonneg s).2
  have hG : ∀ v ∈ r2Of s, Real.sqrt v ≤ geoOf s := by
    intro v hv
    apply npMax_ge (radiiOf s)
    unfold radiiOf
    exact List.mem_map.mpr ⟨v, hv, NumReal.sqrt_eq v⟩
  have hle : ∀ v ∈ r2Of s, v ≤ (geoOf s) ^ 2 := by
    intro v hv
    have h1 := hG v hv
    have h0 : 0 ≤ Real.sqrt v := Real.sqrt_nonneg v
    calc v = (Real.sqrt v) ^ 2 := (Real.sq_sqrt (r2_nonneg s v hv)).symm
      _ ≤ (geoOf s) ^ 2 := by nlinarith
  unfold rmsOf
  rw [mean_eq, NumReal.sqrt_eq]
  calc Real.sqrt ((r2Of s).sum / ((r2Of s).length : ℝ))
      ≤ Real.sqrt ((geoOf s) ^ 2) := Real.sqrt_le_sqrt (mean_le_of_forall_le _ _ hne hle)
    _ = geoOf s := Real.sqrt_sq hG0

example : ∃ s : Spot ℝ, r2Of s ≠ [] := ⟨⟨[1], [2], [1]⟩, by simp [r2Of]⟩

/-! ### encircled energy -/

/-- one term of `np.nansum(energy[radii <= r])` over ℝ -/
noncomputable def eeTerm (r ρ e : ℝ) : ℝ := if ρ ≤ r then e else 0

theorem eeAt_eq (radii energy : List ℝ) (r : ℝ) :
    eeAt radii energy r = (List.zipWith (eeTerm r) radii energy).sum := by
  unfold eeAt
  rw [sumL_eq]
  congr 1
  congr 1
  funext ρ e
  unfold eeTerm
  have hn : isNaN e = false := NumReal.isNaN_false e
  rw [hn]
  by_cases h : ρ ≤ r
  · have hl : Num.le ρ r = true := by rw [NumReal.le_eq]; exact h
    rw [hl]; simp [h]
  · have hl : Num.le ρ r = false := by rw [NumReal.le_decide]; exact decide_eq_false h
    rw [hl]; simp [h, NumReal.zero_eq]

theorem eeTerm_mono (r r' ρ e : ℝ) (hr : r ≤ r') (he : 0 ≤ e) : eeTerm r ρ e ≤ eeTerm r' ρ e := by
  unfold eeTerm
  by_cases h : ρ ≤ r
  · have h' : ρ ≤ r' := le_trans h hr
    simp [h, h']
  · by_cases h' : ρ ≤ r' <;> simp [h, h', he]

/-- **ee_monotone**: for non-negative ray energies the encircled energy is non-decreasing in the
radius. -/
theorem ee_monotone (radii energy : List ℝ) (r r' : ℝ) (hr : r ≤ r') (he : ∀ e ∈ energy, 0 ≤ e) :
    eeAt radii energy r ≤ eeAt radii energy r' := by
  rw [eeAt_eq, eeAt_eq]
  induction radii generalizing energy with
  | nil => simp
  | cons ρ radii ih =>
    cases energy with
    | nil => simp
    | cons e energy =>
      simp only [List.zipWith_cons_cons, List.sum_cons]
      have h1 := eeTerm_mono r r' ρ e hr (he e (by simp))
      have h2 := ih energy (fun x hx => he x (by simp [hx]))
      linarith

/-- the encircled energy never exceeds the total energy of the rays paired with a radius -/
theorem ee_le_total (radii energy : List ℝ) (r : ℝ) (hlen : radii.length = energy.length)
    (he : ∀ e ∈ energy, 0 ≤ e) : eeAt radii energy r ≤ sumL energy := by
  rw [eeAt_eq, sumL_eq]
  induction radii generalizing energy with
  | nil =>
    cases energy with
    | nil => simp
    | cons e energy => simp at hlen
  | cons ρ radii ih =>
    cases energy with
    | nil => simp at hlen
    | cons e energy =>
      simp only [List.zipWith_cons_cons, List.sum_cons]
      have h2 := ih energy (by simpa using hlen) (fun x hx => he x (by simp [hx]))
      have he0 := he e (by simp)
      have h1 : eeTerm r ρ e ≤ e := by
        unfold eeTerm; by_cases h : ρ ≤ r <;> simp [h, he0]
      linarith

/-- **ee_reaches_total**: at a radius that contains every ray the encircled energy is the total
(transmitted) energy `np.nansum(energy)`. -/
theorem ee_reaches_total (radii energy : List ℝ) (r : ℝ) (hlen : radii.length = energy.length)
    (hall : ∀ ρ ∈ radii, ρ ≤ r) : eeAt radii energy r = sumL energy := by
  rw [eeAt_eq, sumL_eq]
  induction radii generalizing energy with
  | nil =>
    cases energy with
    | nil => simp
    | cons e energy => simp at hlen
  | cons ρ radii ih =>
    cases energy with
    | nil => simp at hlen
    | cons e energy =>
      simp only [List.zipWith_cons_cons, List.sum_cons]
      rw [ih energy (by simpa using hlen) (fun x hx => hall x (by simp [hx]))]
      have h : ρ ≤ r := hall ρ (by simp)
      simp [eeTerm, h]

theorem eeBuffer_ge_one : (1 : ℝ) ≤ eeBuffer := by
  unfold eeBuffer
  rw [NumReal.ofRat_eq]
  norm_num

/-- the curve of `EncircledEnergy` ends at the total energy: `r_max = 1.2 · A` with `A` at least
the geometric radius of this (centred) spot contains every ray. -/
theorem ee_reaches_total_at_rmax (s : Spot ℝ) (A : ℝ) (hlen : (radiiOf s).length = s.i.length)
    (hA : geoOf s ≤ A) : eeAt (radiiOf s) s.i (A * eeBuffer) = sumL s.i := by
  apply ee_reaches_total _ _ _ hlen
  intro ρ hρ
  have h1 : ρ ≤ geoOf s := npMax_ge _ ρ hρ
  have h0 : 0 ≤ geoOf s := (radii_nonneg s).2
  have hA0 : 0 ≤ A := le_trans h0 hA
  have hb := eeBuffer_ge_one
  rw [NumReal.mul_eq]
  nlinarith

/-- the last sample of `np.linspace(a, b, n)` (`n ≥ 2`) is `b`: the last plotted radius is `r_max` -/
theorem linspace_last {α : Type} [Num α] (a b : α) (m : Nat) :
    (linspace a b (m + 2)).getLast? = some b := by
  unfold linspace
  simp [List.getLast?_map, List.getLast?_range]

/-! ### field curvature: parabasal pair -/

/-- **parabasal_intersection**: `t₁ = parabasalT …` is the parameter at which ray 1
`(y₁ + t M₁, z₁ + t N₁)` meets ray 2 in the projection, it is the only such parameter, and the
value returned by `FieldCurvature` (`t₁ · N₁`) is the z-offset of the meeting point from ray 1's
point on the image surface. -/
theorem parabasal_intersection (y1 z1 M1 N1 y2 z2 M2 N2 : ℝ) (hD : M1 * N2 - M2 * N1 ≠ 0) :
    let t1 := parabasalT y1 z1 M1 N1 y2 z2 M2 N2
    let t2 := (M1 * (z1 - z2) - N1 * (y1 - y2)) / (M1 * N2 - M2 * N1)
    (y1 + t1 * M1 = y2 + t2 * M2 ∧ z1 + t1 * N1 = z2 + t2 * N2) ∧
    (∀ s1 s2 : ℝ, y1 + s1 * M1 = y2 + s2 * M2 → z1 + s1 * N1 = z2 + s2 * N2 → s1 = t1) ∧
    t1 * N1 = (z1 + t1 * N1) - z1 := by
  intro t1 t2
  have ht1 : t1 = (M2 * z1 - M2 * z2 - N2 * y1 + N2 * y2) / (M1 * N2 - M2 * N1) := by
    show parabasalT y1 z1 M1 N1 y2 z2 M2 N2 = _
    unfold parabasalT
    num_real
  have hu : t1 * (M1 * N2 - M2 * N1) = M2 * z1 - M2 * z2 - N2 * y1 + N2 * y2 := by
    rw [ht1]; exact div_mul_cancel₀ _ hD
  have hv : t2 * (M1 * N2 - M2 * N1) = M1 * (z1 - z2) - N1 * (y1 - y2) := div_mul_cancel₀ _ hD
  clear_value t1 t2
  refine ⟨⟨?_, ?_⟩, ?_, by ring⟩
  · have h : (y1 + t1 * M1 - (y2 + t2 * M2)) * (M1 * N2 - M2 * N1) = 0 := by
      linear_combination M1 * hu - M2 * hv
    have := (mul_eq_zero.mp h).resolve_right hD
    linarith
  · have h : (z1 + t1 * N1 - (z2 + t2 * N2)) * (M1 * N2 - M2 * N1) = 0 := by
      linear_combination N1 * hu - N2 * hv
    have := (mul_eq_zero.mp h).resolve_right hD
    linarith
  · intro s1 s2 h1 h2
    have h : (s1 - t1) * (M1 * N2 - M2 * N1) = 0 := by
      linear_combination N2 * h1 - M2 * h2 - hu
    have := (mul_eq_zero.mp h).resolve_right hD
    linarith

example : (1 : ℝ) * 1 - 0 * (1 : ℝ) ≠ 0 := by norm_num

/-- every value of `fcTangential` is `parabasalT … · N₁` of a consecutive pair (definitional, `rfl`;
the content is in `parabasal_intersection`) -/
theorem fc_value_is_z_offset (r1 r2 : Ray ℝ) (rs : List (Ray ℝ)) :
    fcTangential (r1 :: r2 :: rs) =
      (parabasalT r1.y r1.z r1.M r1.N r2.y r2.z r2.M r2.N * r1.N) :: fcTangential rs ∧
    fcSagittal (r1 :: r2 :: rs) =
      (parabasalT r1.x r1.z r1.L r1.N r2.x r2.z r2.L r2.N * r1.N) :: fcSagittal rs := by
  constructor <;> rfl

/-- **coddington_partial** (placeholder for the clause that is *not* proved): the agreement of the
parabasal intersection with Coddington's equations along the chief ray is a first-order limit
(pupil offset δ → 0, error O(δ²)); it is checked numerically in `harness/c12.py` against an
independent Coddington recursion.  What is proved here is only the exact part: for two rays that
really pass through a common point `(yf, zf)` the returned value is that point's z-offset. -/
theorem coddington_partial (y1 z1 M1 N1 y2 z2 M2 N2 yf zf a b : ℝ) (hD : M1 * N2 - M2 * N1 ≠ 0)
    (h1y : yf = y1 + a * M1) (h1z : zf = z1 + a * N1) (h2y : yf = y2 + b * M2) (h2z : zf = z2 + b * N2) :
    parabasalT y1 z1 M1 N1 y2 z2 M2 N2 * N1 = zf - z1 := by
  have h := (parabasal_intersection y1 z1 M1 N1 y2 z2 M2 N2 hD).2.1 a b (by rw [← h1y, ← h2y]) (by rw [← h1z, ← h2z])
  rw [← h, NumReal.mul_eq, h1z]
  ring

/-! ### distortion -/

theorem eps10_val : (eps10 : ℝ) = 1 / 10 ^ 10 := by
  unfold eps10
  rw [NumReal.ofRat_eq]
  norm_num

theorem hundred_val : (hundred : ℝ) = 100 := by
  unfold hundred
  rw [NumReal.ofRat_eq]
  norm_num

theorem deg2rad_val (x : ℝ) : deg2rad x = x * (Real.pi / 180) := by
  unfold deg2rad
  num_real
  norm_num

/-- reference image height: the small-field chief-ray height `y0` (field `ε·θmax`) scaled by `tan`
(f-tan) or linearly in the angle (f-θ) -/
noncomputable def yRef (t : DistType) (θmax y0 h : ℝ) : ℝ :=
  match t with
  | .ftan => y0 / Real.tan (eps10 * θmax) * Real.tan (h * θmax)
  | .ftheta => y0 / Real.tan (eps10 * θmax) * h * θmax

/-- **distortion_def**: every value of `Distortion.data` is `100·(y_chief − y_ref)/y_ref` with
`y_ref` the small-field chief-ray height scaled by `tan` (f-tan) or linearly (f-θ). -/
theorem distortion_def (t : DistType) (maxField : ℝ) (hy yr : List ℝ) :
    distortion_code t maxField hy yr =
      List.zipWith (fun h y =>
        100 * (y - yRef t (maxField * (Real.pi / 180)) (yr.headD 0) h) /
          yRef t (maxField * (Real.pi / 180)) (yr.headD 0) h) hy yr := by
  unfold distortion_code
  simp only [deg2rad_val, hundred_val]
  cases t <;> (simp only [yRef]; num_real)

/-- for angular fields the property's reference is the code's -/
theorem distortion_spec_angle (t : DistType) (maxField : ℝ) (hy yr : List ℝ) :
    distortion_spec true t maxField hy yr = distortion_code t maxField hy yr := by
  simp [distortion_spec]

/-- at the reference field itself the f-tan distortion is exactly zero -/
theorem distortion_zero_at_reference (maxField y0 : ℝ) (hy yr : List ℝ)
    (ht : Real.tan (eps10 * (maxField * (Real.pi / 180))) ≠ 0) :
    distortion_code .ftan maxField (eps10 :: hy) (y0 :: yr) =
      0 :: (distortion_code .ftan maxField (eps10 :: hy) (y0 :: yr)).tail := by
  rw [distortion_def]
  simp only [List.zipWith_cons_cons, List.headD_cons, List.tail_cons, yRef]
  congr 1
  rw [div_mul_cancel₀ _ ht]
  simp

/-- **distortion for object-height fields** (what the property requires, F18): with the linear
reference a perfectly linear imaging `y = m·h` has zero distortion at every field.
(The numerator `m h − m h` vanishes identically; for `m = 0` or a field `h = 0` the quotient is the
junk `0/0 = 0` of ℝ where NumPy gives `nan` — the statement is meaningful for `m ≠ 0`, `h ≠ 0`.) -/
theorem distortion_height_linear_zero (m : ℝ) (hy : List ℝ) :
    ∀ v ∈ distortion_height (eps10 :: hy) ((eps10 :: hy).map (fun h => m * h)), v = 0 := by
  have he : (eps10 : ℝ) ≠ 0 := by rw [eps10_val]; norm_num
  unfold distortion_height
  simp only [List.map_cons, List.headD_cons]
  num_real
  have key : ∀ h : ℝ, hundred * (m * h - m * eps10 / eps10 * h) / (m * eps10 / eps10 * h) = 0 := by
    intro h
    have e : m * eps10 / eps10 = m := mul_div_cancel_right₀ m he
    rw [e]
    simp
  have hz : ∀ (l : List ℝ), ∀ v ∈ List.zipWith (fun h y : ℝ =>
      hundred * (y - m * eps10 / eps10 * h) / (m * eps10 / eps10 * h)) l (l.map fun h => m * h), v = 0 := by
    intro l
    induction l with
    | nil => intro v hv; simp at hv
    | cons a l ih =>
      intro v hv
      simp only [List.map_cons, List.zipWith_cons_cons, List.mem_cons] at hv
      rcases hv with rfl | hv
      · exact key a
      · exact ih v hv
  exact hz (eps10 :: hy)

/-! ### grid distortion -/

/-- why `GridDistortion` mirrors the predicted x-grid (`np.flip`): on a symmetric extent and for an
odd reference function (`tan`, the identity) flipping the grid is negating it, which is the image
of the ray generator's mirrored x-field axis for *angular* fields.  For object-height fields the
generator does not mirror x, hence `gridDistortion_spec` has no flip there (finding F-C12-1). -/
theorem grid_flip_is_negation (f : ℝ → ℝ) (ext : List ℝ) (hodd : ∀ h, f (-h) = -f h)
    (hsym : ext.reverse = ext.map (fun h => -h)) :
    (gridPredicted f ext true).1 = (gridPredicted f ext false).1.map (fun v => -v) ∧
    (gridPredicted f ext true).2 = (gridPredicted f ext false).2 := by
  refine ⟨?_, rfl⟩
  have hx : (gridH ext).map (fun h => f h.1) = ext.flatMap (fun _ => ext.map f) := by
    simp [gridH, List.map_flatMap, Function.comp_def]
  have hrev : (ext.map f).reverse = (ext.map f).map (fun v => -v) := by
    rw [← List.map_reverse, hsym]
    simp [List.map_map, Function.comp_def, hodd]
  simp only [gridPredicted, if_true, Bool.false_eq_true, if_false, hx]
  rw [List.reverse_flatMap, hsym, List.flatMap_map, List.map_flatMap]
  simp [Function.comp_def, hrev]

example : ([-1, 0, 1] : List ℝ).reverse = ([-1, 0, 1] : List ℝ).map (fun h => -h) := by simp

/-- for angular fields the property's grid is the code's -/
theorem gridDistortion_spec_angle (t : DistType) (maxField y0 : ℝ) (ext : List ℝ) (rays : List (Ray ℝ)) :
    gridDistortion_spec true t maxField y0 ext rays = gridDistortion_code t maxField y0 ext rays := by
  simp [gridDistortion_spec]

/-! ### explicit wavelength lists (F12) -/

/-- **explicit_lists_own**: if the primary wavelength is found in the given list at the lens's
primary index, `SpotDiagram.centroid` is the primary-wavelength centroid. -/
theorem explicit_lists_own (data : SpotData ℝ) (wls : List ℝ) (primary : ℝ) (ref : List (Spot ℝ))
    (pidx : Nat) (hidx : refIndex wls primary = some pidx) (hlen : ∀ fd ∈ data, pidx < fd.length) :
    centroid_code data pidx = some (centroid_spec data wls primary ref) := by
  unfold centroid_code centroid_spec
  rw [hidx]
  have : (data.all fun fd => decide (pidx < fd.length)) = true := by
    rw [List.all_eq_true]; intro fd hfd; exact decide_eq_true (hlen fd hfd)
  simp [this]

/-- a list that differs from the lens's own: lens wavelengths `[1, 2]` with primary `1` (index 0),
analysis called with `[2, 1]`: the code takes the centroid of the spot of wavelength `2`. -/
theorem explicit_lists_code_differs :
    let data : SpotData ℝ := [[⟨[1], [1], [1]⟩, ⟨[0], [0], [1]⟩]]
    centroid_code data 0 = some [(1, 1)] ∧ centroid_spec data [2, 1] 1 [] = [(0, 0)] := by
  intro data
  have h21 : feq (2 : ℝ) 1 = false := by
    unfold feq
    have : Num.le (2 : ℝ) 1 = false := by rw [NumReal.le_decide]; exact decide_eq_false (by norm_num)
    rw [this]; rfl
  have h11 : feq (1 : ℝ) 1 = true := by
    unfold feq
    have : Num.le (1 : ℝ) 1 = true := by rw [NumReal.le_eq]
    rw [this]; rfl
  constructor
  · simp [data, centroid_code, centroidOf, mean_eq]
  · have hi : refIndex [(2 : ℝ), 1] 1 = some 1 := by
      simp [refIndex, List.findIdx?_cons, h21, h11]
    simp [data, centroid_spec, hi, centroidOf, mean_eq]

/-- `RayFan`: when the primary wavelength is in the given list the code is what the property
requires; otherwise the code raises `KeyError` (`none`). -/
theorem rayFan_code_eq_spec {α : Type} [Num α] (wls : List α) (primary : α) (data : List (List (Fan α)))
    (n : Nat) (ref : List (α × α)) :
    (∀ j, refIndex wls primary = some j →
      rayFan_code wls primary data n = some (rayFan_spec wls primary data n ref)) ∧
    (refIndex wls primary = none → rayFan_code wls primary data n = none) := by
  constructor
  · intro j h; simp [rayFan_code, rayFan_spec, h]
  · intro h; simp [rayFan_code, h]

/-! ### analyses are functions of the ray records -/

/-- **analysis_is_function_of_rays** (spot data): entry `[f][w]` of `SpotDiagram.data` is the
`[x, y, intensity]` of the image-surface record of the trace of the rays launched for field `f`
and wavelength `w`.  DEFINITIONAL: this is `List.getD` of the two `List.map`s in `spotDataOfLens`;
`surfsAt` and `launch` are free parameters, so nothing is said about which rays are launched. -/
theorem analysis_is_function_of_rays {α : Type} [Num α] (surfsAt : α → List (RSurf α))
    (launch : (α × α) → α → List (Ray α)) (fields : List (α × α)) (wls : List α)
    (f w : Nat) (hf : f < fields.length) (hw : w < wls.length) :
    ((spotDataOfLens surfsAt launch fields wls).getD f []).getD w default =
      spotOfRays (imageRecords wls[w] (surfsAt wls[w]) (launch fields[f] wls[w])) := by
  simp [spotDataOfLens, List.getD_eq_getElem?_getD, hf, hw]

/-- centroid and radii depend on the records only through their `(x, y)` -/
theorem spot_function_of_xy {α : Type} [Num α] (rs rs' : List (Ray α))
    (hx : rs.map (·.x) = rs'.map (·.x)) (hy : rs.map (·.y) = rs'.map (·.y)) (c : α × α) :
    centroidOf (spotOfRays rs) = centroidOf (spotOfRays rs') ∧
    rmsOf (center (spotOfRays rs) c) = rmsOf (center (spotOfRays rs') c) ∧
    geoOf (center (spotOfRays rs) c) = geoOf (center (spotOfRays rs') c) := by
  simp [centroidOf, spotOfRays, rmsOf, geoOf, radiiOf, r2Of, center, hx, hy]

/-- TRIVIAL (congruence of function application: `h ▸ rfl`, true of every function applied to
`rs.map (·.y)`).  Documents only that the model's `Distortion` is *written* as a function of the y
column (see `Drv/Analysis.lean`: the command feeds `rs.map (·.y)`); it is no evidence for the clause. -/
theorem distortion_function_of_y {α : Type} [Num α] (angle : Bool) (t : DistType) (mf : α) (hy : List α)
    (rs rs' : List (Ray α)) (h : rs.map (·.y) = rs'.map (·.y)) :
    distortion_code t mf hy (rs.map (·.y)) = distortion_code t mf hy (rs'.map (·.y)) ∧
    distortion_spec angle t mf hy (rs.map (·.y)) = distortion_spec angle t mf hy (rs'.map (·.y)) := by
  rw [h]; exact ⟨rfl, rfl⟩

theorem pairsOf_map {β γ : Type} (g : β → γ) : ∀ l : List β,
    pairsOf (l.map g) = (pairsOf l).map (fun p => (g p.1, g p.2))
  | [] => rfl
  | [_] => rfl
  | a :: b :: l => by simp [pairsOf, pairsOf_map g l]

open scoped Num in
/-- tangential field curvature depends on the records only through `(y, z, M, N)` -/
theorem fc_function_of_meridional {α : Type} [Num α] (rs rs' : List (Ray α))
    (h : rs.map (fun r => (r.y, r.z, r.M, r.N)) = rs'.map (fun r => (r.y, r.z, r.M, r.N))) :
    fcTangential rs = fcTangential rs' := by
  have key : ∀ l : List (Ray α), fcTangential l =
      (pairsOf (l.map (fun r => (r.y, r.z, r.M, r.N)))).map
        (fun p => parabasalT p.1.1 p.1.2.1 p.1.2.2.1 p.1.2.2.2 p.2.1 p.2.2.1 p.2.2.2.1 p.2.2.2.2 * p.1.2.2.2) := by
    intro l
    rw [pairsOf_map]
    simp [fcTangential, Function.comp_def]
  rw [key, key, h]

/-- `RayOperand.rms_spot_size` (one wavelength) is `SpotDiagram.rms_spot_radius` of the same rays,
over every carrier (hence bit-identical at `Float`) -/
theorem operand_rms_eq_spot_rms {α : Type} [Num α] (rs : List (Ray α)) :
    opRmsSingle rs = rmsOf (center (spotOfRays rs) (centroidOf (spotOfRays rs))) := by
  simp [opRmsSingle, rmsOf, center, spotOfRays, centroidOf, r2Of, List.zipWith_map]

/-- `RayOperand.x_intercept … N` return component `f` of record `[surface, 0]` -/
theorem operand_is_record {α : Type} [Num α] (recs : List (List (Ray α))) (k : Nat) (r : Ray α)
    (rest : List (Ray α)) (f : RayField) (hk : k < recs.length) (h : recs[k] = r :: rest) :
    rayOperand recs (k : Int) f = some (rayGet r f) := by
  have hp : pyIdx recs.length (k : Int) = some k := by
    simp [pyIdx, hk]
  simp [rayOperand, hp, List.getD_eq_getElem?_getD, hk, h]

/-! ### encircled energy, end to end: the curves `EncircledEnergy` plots

The theorems `ee_monotone` / `ee_reaches_total_at_rmax` above are about `eeAt` at arbitrary radii and
carry the bound `geoOf s ≤ A` as a *hypothesis*.  The statements below are about the model's actual
output `encircledEnergy data numPoints` (what `Drv/Analysis.lean` runs): the plotted radii are
`linspace(0, r_max, numPoints)` with `r_max = eeRmax data`, and the bound is *derived* from the
definition of `eeRmax`. -/

/-- shape of the data `SpotDiagram._generate_field_data` produces: x, y, intensity of equal length,
non-negative intensities -/
def SpotsOK (data : SpotData ℝ) : Prop :=
  ∀ fd ∈ data, ∀ s ∈ fd, s.x.length = s.i.length ∧ s.y.length = s.i.length ∧ ∀ e ∈ s.i, 0 ≤ e

/-- the records of a trace always have that shape (intensities ≥ 0 assumed: C16) -/
theorem spotsOK_of_rays (rss : List (List (List (Ray ℝ)))) (hI : ∀ f ∈ rss, ∀ rs ∈ f, ∀ r ∈ rs, 0 ≤ r.i) :
    SpotsOK (rss.map fun f => f.map spotOfRays) := by
  intro fd hfd s hs
  obtain ⟨f, hf, rfl⟩ := List.mem_map.mp hfd
  obtain ⟨rs, hrs, rfl⟩ := List.mem_map.mp hs
  refine ⟨by simp [spotOfRays], by simp [spotOfRays], ?_⟩
  intro e he
  obtain ⟨r, hr, rfl⟩ := List.mem_map.mp he
  exact hI f hf rs hrs r hr

theorem mem_zipWith_exists {β γ δ : Type} (f : β → γ → δ) :
    ∀ (xs : List β) (ys : List γ), ∀ v ∈ List.zipWith f xs ys, ∃ a ∈ xs, ∃ b ∈ ys, v = f a b := by
  intro xs
  induction xs with
  | nil => intro ys v hv; simp at hv
  | cons a xs ih =>
    intro ys v hv
    cases ys with
    | nil => simp at hv
    | cons b ys =>
      simp only [List.zipWith_cons_cons, List.mem_cons] at hv
      rcases hv with rfl | hv
      · exact ⟨a, by simp, b, by simp, rfl⟩
      · obtain ⟨a', ha', b', hb', e⟩ := ih ys v hv
        exact ⟨a', by simp [ha'], b', by simp [hb'], e⟩

/-- every centred spot of `EncircledEnergy` is a spot of the data with a centre subtracted -/
theorem eeCenter_mem (data : SpotData ℝ) (fd : List (Spot ℝ)) (hfd : fd ∈ eeCenter data) (s : Spot ℝ) (hs : s ∈ fd) :
    ∃ fd0 ∈ data, ∃ s0 ∈ fd0, ∃ c : ℝ × ℝ, s = center s0 c := by
  unfold eeCenter centerSpots at hfd
  obtain ⟨fd0, h0, c, _, rfl⟩ := mem_zipWith_exists _ _ _ fd hfd
  obtain ⟨s0, hs0, rfl⟩ := List.mem_map.mp hs
  exact ⟨fd0, h0, s0, hs0, c, rfl⟩

theorem eeCenter_shape (data : SpotData ℝ) (hok : SpotsOK data) (fd : List (Spot ℝ)) (hfd : fd ∈ eeCenter data)
    (s : Spot ℝ) (hs : s ∈ fd) : (radiiOf s).length = s.i.length ∧ ∀ e ∈ s.i, 0 ≤ e := by
  obtain ⟨fd0, h0, s0, hs0, c, rfl⟩ := eeCenter_mem data fd hfd s hs
  obtain ⟨hx, hy, he⟩ := hok fd0 h0 s0 hs0
  refine ⟨?_, he⟩
  simp [radiiOf, r2Of, center, hx, hy]

/-- `r_max` bounds the geometric radius of every centred spot of every field, and is `≥ 0` -/
theorem eeRmax_spec (data : SpotData ℝ) :
    0 ≤ eeRmax data ∧
    ∀ fd ∈ eeCenter data, ∀ s ∈ fd, ∃ A : ℝ, geoOf s ≤ A ∧ eeRmax data = A * eeBuffer := by
  set L := ((eeCenter data).map (·.map geoOf)).flatten with hL
  have hnn : ∀ v ∈ L, 0 ≤ v := by
    intro v hv
    obtain ⟨l, hl, hvl⟩ := List.mem_flatten.mp hv
    obtain ⟨fd, _, rfl⟩ := List.mem_map.mp hl
    obtain ⟨s, _, rfl⟩ := List.mem_map.mp hvl
    exact (radii_nonneg s).2
  have h0 : 0 ≤ npMax L := by
    by_cases hne : L = []
    · rw [hne]; show (0 : ℝ) ≤ Num.zero; rw [NumReal.fzero_eq]
    · exact hnn _ (npMax_mem L hne)
  have hb := eeBuffer_ge_one
  constructor
  · show 0 ≤ Num.mul (npMax L) eeBuffer
    rw [NumReal.fmul_eq]
    nlinarith
  · intro fd hfd s hs
    refine ⟨npMax L, npMax_ge L _ ?_, rfl⟩
    exact List.mem_flatten.mpr ⟨fd.map geoOf, List.mem_map.mpr ⟨fd, hfd, rfl⟩, List.mem_map.mpr ⟨s, hs, rfl⟩⟩

/-- `np.linspace(0, b, n)` with `b ≥ 0` is non-decreasing -/
theorem linspace_zero_mono (b : ℝ) (hb : 0 ≤ b) (n : Nat) : (linspace (0 : ℝ) b n).Pairwise (· ≤ ·) := by
  match n with
  | 0 => simp [linspace]
  | 1 => simp [linspace]
  | m + 2 =>
    unfold linspace
    simp only
    rw [List.pairwise_map]
    refine List.Pairwise.imp_of_mem ?_ (List.pairwise_lt_range (n := m + 2))
    intro i j hi hj hij
    have hi' : i < m + 2 := List.mem_range.mp hi
    have hj' : j < m + 2 := List.mem_range.mp hj
    have hm : (0 : ℝ) < ((m + 1 : ℕ) : ℝ) := by positivity
    have hstep : ∀ k : ℕ, k ≤ m + 1 → (k : ℝ) * (b / ((m + 1 : ℕ) : ℝ)) ≤ b := by
      intro k hk
      have hk' : (k : ℝ) ≤ ((m + 1 : ℕ) : ℝ) := by exact_mod_cast hk
      rw [← mul_div_assoc, div_le_iff₀ hm]
      nlinarith
    have hi_ne : i ≠ m + 1 := by omega
    rw [if_neg hi_ne]
    num_real
    rw [ofNat_eq, ofNat_eq, sub_zero, add_zero]
    by_cases hjm : j = m + 1
    · rw [if_pos hjm]
      exact hstep i (by omega)
    · rw [if_neg hjm, ofNat_eq, add_zero]
      have : (i : ℝ) ≤ (j : ℝ) := by exact_mod_cast hij.le
      have hs : 0 ≤ b / ((m + 1 : ℕ) : ℝ) := div_nonneg hb hm.le
      exact mul_le_mul_of_nonneg_right this hs

/-- **encircled energy, the property's clause on the plotted curves**: for spot data of the shape
the trace produces and `num_points ≥ 2`, every curve `(r_step, ee)` of `EncircledEnergy`
* has the radii `linspace(0, r_max, num_points)`, non-decreasing, ending at `r_max`;
* is non-decreasing along them (`ee` is a non-decreasing list);
and the last values of the curves are, in plotting order, the total energies `np.nansum(intensity)`
of the spots (so every curve *reaches* the total transmitted energy of its own spot). -/
theorem encircledEnergy_curves (data : SpotData ℝ) (hok : SpotsOK data) (m : Nat) :
    (∀ c ∈ encircledEnergy data (m + 2),
        c.1 = linspace 0 (eeRmax data) (m + 2) ∧ c.1.Pairwise (· ≤ ·) ∧
        c.1.getLast? = some (eeRmax data) ∧ c.2.Pairwise (· ≤ ·)) ∧
    (encircledEnergy data (m + 2)).map (fun c => c.2.getLast?) =
      ((eeCenter data).map fun fd => fd.map fun s => some (sumL s.i)).flatten := by
  obtain ⟨hr0, hrmax⟩ := eeRmax_spec data
  have hmono := linspace_zero_mono (eeRmax data) hr0 (m + 2)
  constructor
  · intro c hc
    unfold encircledEnergy at hc
    obtain ⟨l, hl, hcl⟩ := List.mem_flatten.mp hc
    obtain ⟨fd, hfd, rfl⟩ := List.mem_map.mp hl
    obtain ⟨s, hs, rfl⟩ := List.mem_map.mp hcl
    refine ⟨rfl, hmono, linspace_last _ _ m, ?_⟩
    show ((linspace 0 (eeRmax data) (m + 2)).map (eeAt (radiiOf s) s.i)).Pairwise (· ≤ ·)
    rw [List.pairwise_map]
    exact hmono.imp fun {a b} hab => ee_monotone _ _ a b hab (eeCenter_shape data hok fd hfd s hs).2
  · unfold encircledEnergy
    simp only [List.map_flatten, List.map_map]
    congr 1
    apply List.map_congr_left
    intro fd hfd
    simp only [Function.comp_def, List.map_map]
    apply List.map_congr_left
    intro s hs
    simp only [List.getLast?_map, linspace_last, Option.map_some]
    obtain ⟨A, hA, hR⟩ := hrmax fd hfd s hs
    rw [hR]
    congr 1
    exact ee_reaches_total_at_rmax s A (eeCenter_shape data hok fd hfd s hs).1 hA

/-- non-vacuity: two fields, one wavelength, three rays each, unequal energies (one blocked ray) -/
example : SpotsOK [[⟨[0, 1, -1], [0, 2, 1], [1, 1, 0]⟩], [⟨[3, 4, 5], [0, 1, -1], [1, 0.5, 1]⟩]] := by
  intro fd hfd s hs
  simp only [List.mem_cons, List.mem_nil_iff, or_false] at hfd
  rcases hfd with rfl | rfl <;>
  · simp only [List.mem_cons, List.mem_nil_iff, or_false] at hs
    subst hs
    refine ⟨rfl, rfl, ?_⟩
    intro e he
    simp only [List.mem_cons, List.mem_nil_iff, or_false] at he
    rcases he with rfl | rfl | rfl <;> norm_num

/-- non-vacuity of `distortion_zero_at_reference`: a 20° field (`tan` of a small positive angle) -/
example : Real.tan (eps10 * ((20 : ℝ) * (Real.pi / 180))) ≠ 0 := by
  rw [eps10_val]
  have hpi := Real.pi_pos
  have h1 : 0 < 1 / 10 ^ 10 * ((20 : ℝ) * (Real.pi / 180)) := by positivity
  have h2 : 1 / 10 ^ 10 * ((20 : ℝ) * (Real.pi / 180)) < Real.pi / 2 := by nlinarith
  exact ne_of_gt (Real.tan_pos_of_pos_of_lt_pi_div_two h1 h2)

/-- non-vacuity of `ee_monotone` / `ee_le_total`: non-negative energies of the right length -/
example : ∃ radii energy : List ℝ, radii.length = energy.length ∧ radii ≠ [] ∧ ∀ e ∈ energy, 0 ≤ e :=
  ⟨[0, 1, 2], [1, 0, 0.5], rfl, by simp, by intro e he; simp at he; rcases he with rfl | rfl | rfl <;> norm_num⟩

/-! ### two further links (review additions) -/

/-- PARTIAL (distortion against the *paraxial* image height): **if** the small-field chief ray lands at
its paraxial height `y0 = f·tan(ε θmax)` (object at infinity, focal length `f`), the code's reference is
the paraxial image height `f·tan(h θmax)` (f-tan) resp. `f·h θmax` (f-θ) at every field.  The premise
(the chief ray at field `1e-10` is paraxial, error O(ε²)) is not a theorem; it is checked numerically
against the harness's own y-nu trace. -/
theorem distortion_ref_is_paraxial_partial (θmax f h : ℝ) (ht : Real.tan (eps10 * θmax) ≠ 0) :
    yRef .ftan θmax (f * Real.tan (eps10 * θmax)) h = f * Real.tan (h * θmax) ∧
    yRef .ftheta θmax (f * Real.tan (eps10 * θmax)) h = f * (h * θmax) := by
  unfold yRef
  simp only
  rw [mul_div_assoc, div_self ht, mul_one]
  exact ⟨rfl, by ring⟩

/-- `RayOperand.rms_spot_size(wavelength='all')` on a lens with a single wavelength is the
single-wavelength operand (two differently written computations agree, every carrier) -/
theorem operand_rms_all_single {α : Type} [Num α] (rs : List (Ray α)) :
    opRmsAll [rs] 0 = opRmsSingle rs := by
  simp [opRmsAll, opRmsSingle, List.zipWith_map, List.zipWith_self]

/-! ### round-8 additions: sign of the distortion, own-z tangential focus, sagittal symmetry,
centring on a copy, `'all'`-wavelength RMS, symmetric fan sampling, y-ybar segments -/

/-! #### (a) distortion: the sign follows the SIGNED reference height -/

/-- one distortion term `100 (y − y_p)/y_p` with image point and reference on the same side of the
axis (`y·y_p > 0`): it is positive exactly when the real image point is farther from the axis
than the reference, whatever the sign of `y_p` (upright or inverted image). -/
theorem dist_term_pos_iff (y yp : ℝ) (hs : 0 < y * yp) :
    0 < 100 * (y - yp) / yp ↔ |yp| < |y| := by
  have hp0 : yp ≠ 0 := by
    intro h
    rw [h, mul_zero] at hs
    exact lt_irrefl _ hs
  rcases lt_or_gt_of_ne hp0 with hn | hpos
  · have hy : y < 0 := by
      by_contra hc
      push Not at hc
      nlinarith [mul_nonneg hc (neg_pos.mpr hn).le]
    rw [abs_of_neg hn, abs_of_neg hy]
    constructor
    · intro h
      by_contra hc
      push Not at hc
      have : 100 * (y - yp) / yp ≤ 0 := div_nonpos_of_nonneg_of_nonpos (by linarith) hn.le
      linarith
    · intro h
      exact div_pos_of_neg_of_neg (by linarith) hn
  · have hy : 0 < y := by
      by_contra hc
      push Not at hc
      nlinarith [mul_nonneg (neg_nonneg.mpr hc) hpos.le]
    rw [abs_of_pos hpos, abs_of_pos hy]
    constructor
    · intro h
      by_contra hc
      push Not at hc
      have : 100 * (y - yp) / yp ≤ 0 := div_nonpos_of_nonpos_of_nonneg (by linarith) hpos.le
      linarith
    · intro h
      exact div_pos (by linarith) hpos

/-- the seeded slip "divide by `|y_p|`" against the code's "divide by `y_p`": the two agree exactly
when the reference height is positive or the term vanishes; for a negative reference height
(inverted image: finite object, relay) the slip reports the opposite sign. -/
theorem dist_term_abs_differs_iff (y yp : ℝ) (hp : yp ≠ 0) :
    (100 * (y - yp) / |yp| = 100 * (y - yp) / yp ↔ (0 < yp ∨ y = yp)) ∧
    (yp < 0 → 100 * (y - yp) / |yp| = -(100 * (y - yp) / yp)) := by
  constructor
  · constructor
    · intro h
      by_contra hc
      push Not at hc
      obtain ⟨h1, h2⟩ := hc
      have hneg : yp < 0 := lt_of_le_of_ne h1 hp
      rw [abs_of_neg hneg, div_neg] at h
      have h0 : 100 * (y - yp) / yp = 0 := by linarith
      rcases div_eq_zero_iff.mp h0 with h3 | h3
      · exact h2 (by linarith)
      · exact hp h3
    · rintro (h | h)
      · rw [abs_of_pos h]
      · rw [h]
        simp
  · intro h
    rw [abs_of_neg h, div_neg]

example : (0 : ℝ) < (-2) * (-1) ∧ (-1 : ℝ) ≠ 0 := by norm_num

/-- `distortion_height` written out over ℝ -/
theorem distortion_height_unfold (hy yr : List ℝ) :
    distortion_height hy yr =
      List.zipWith (fun h y => 100 * (y - yr.headD 0 / eps10 * h) / (yr.headD 0 / eps10 * h)) hy yr := by
  unfold distortion_height
  simp only [hundred_val]

/-- **distortion_sign_signed_height** (object-height fields, `distortion_height`): at a field
`h > 0` with small-field chief-ray height `y0 ≠ 0` (negative for an inverted image) the value
reported is `100 (y − y_p)/y_p` with the SIGNED reference `y_p = y0/ε·h`; if the real image point
is on the same side as the reference the value is positive iff `|y| > |y_p|` (pincushion), for
either sign of `y0`; and dividing by `|y_p|` instead changes the value iff `y0 < 0 ∧ y ≠ y_p`
(then it flips the sign). -/
theorem distortion_sign_signed_height (y0 h y : ℝ) (hy : List ℝ) (yr : List ℝ) (hy0 : y0 ≠ 0) (hh : 0 < h)
    (hsame : 0 < y * y0) :
    let yp := y0 / eps10 * h
    distortion_height (eps10 :: h :: hy) (y0 :: y :: yr) =
      0 :: (100 * (y - yp) / yp) :: (distortion_height (eps10 :: h :: hy) (y0 :: y :: yr)).tail.tail ∧
    (0 < 100 * (y - yp) / yp ↔ |yp| < |y|) ∧
    (100 * (y - yp) / |yp| ≠ 100 * (y - yp) / yp ↔ (y0 < 0 ∧ y ≠ yp)) ∧
    (y0 < 0 → 100 * (y - yp) / |yp| = -(100 * (y - yp) / yp)) := by
  intro yp
  have he : (0 : ℝ) < eps10 := by rw [eps10_val]; norm_num
  have hc : 0 < h / eps10 := div_pos hh he
  have hyp : yp = y0 * (h / eps10) := by
    show y0 / eps10 * h = _
    ring
  have hyp0 : yp ≠ 0 := by
    rw [hyp]
    exact mul_ne_zero hy0 hc.ne'
  have hsgn : 0 < y * yp := by
    rw [hyp]
    have : y * (y0 * (h / eps10)) = (y * y0) * (h / eps10) := by ring
    rw [this]
    exact mul_pos hsame hc
  have hpos_iff : 0 < yp ↔ 0 < y0 := by
    rw [hyp]
    constructor
    · intro h1
      by_contra hcn
      push Not at hcn
      nlinarith [mul_nonneg (neg_nonneg.mpr hcn) hc.le]
    · intro h1
      exact mul_pos h1 hc
  refine ⟨?_, dist_term_pos_iff y yp hsgn, ?_, ?_⟩
  · rw [distortion_height_unfold]
    simp only [List.zipWith_cons_cons, List.headD_cons, List.tail_cons]
    congr 1
    have : y0 / eps10 * eps10 = y0 := div_mul_cancel₀ y0 he.ne'
    rw [this, sub_self, mul_zero, zero_div]
  · rw [Ne, (dist_term_abs_differs_iff y yp hyp0).1, hpos_iff]
    constructor
    · intro hn
      push Not at hn
      exact ⟨lt_of_le_of_ne hn.1 hy0, hn.2⟩
    · rintro ⟨h1, h2⟩ hn
      rcases hn with h3 | h3
      · exact lt_asymm h1 h3
      · exact h2 h3
  · intro h1
    apply (dist_term_abs_differs_iff y yp hyp0).2
    by_contra hcn
    push Not at hcn
    have : 0 < yp := lt_of_le_of_ne hcn (Ne.symm hyp0)
    exact lt_asymm h1 (hpos_iff.mp this)

example : (-3 : ℝ) ≠ 0 ∧ (0 : ℝ) < 1 / 2 ∧ (0 : ℝ) < (-2) * (-3) := by norm_num

/-- **distortion_inverted_image**: negating every chief-ray height (the same lens with an inverted
image) leaves the reported distortion unchanged, for both distortion types and for the
object-height reference: the code's sign convention follows the signed paraxial height.
(No guard: over ℝ the junk quotient `x/0 = 0` is also invariant; NumPy gives `nan` on both sides.) -/
theorem distortion_inverted_image (t : DistType) (maxField : ℝ) (hy yr : List ℝ) :
    distortion_code t maxField hy (yr.map (fun y => -y)) = distortion_code t maxField hy yr ∧
    distortion_height hy (yr.map (fun y => -y)) = distortion_height hy yr := by
  have hhead : (yr.map (fun y : ℝ => -y)).headD 0 = -(yr.headD 0) := by
    cases yr <;> simp
  constructor
  · rw [distortion_def, distortion_def, hhead, List.zipWith_map_right]
    congr 1
    funext h y
    have e : yRef t (maxField * (Real.pi / 180)) (-(yr.headD 0)) h
        = -(yRef t (maxField * (Real.pi / 180)) (yr.headD 0) h) := by
      cases t <;> (simp only [yRef]; ring)
    rw [e]
    have e2 : 100 * (-y - -yRef t (maxField * (Real.pi / 180)) (yr.headD 0) h)
        = -(100 * (y - yRef t (maxField * (Real.pi / 180)) (yr.headD 0) h)) := by ring
    rw [e2, neg_div_neg_eq]
  · rw [distortion_height_unfold, distortion_height_unfold, hhead, List.zipWith_map_right]
    congr 1
    funext h y
    have e : -(yr.headD 0) / eps10 * h = -(yr.headD 0 / eps10 * h) := by ring
    rw [e]
    have e2 : 100 * (-y - -(yr.headD 0 / eps10 * h)) = -(100 * (y - yr.headD 0 / eps10 * h)) := by ring
    rw [e2, neg_div_neg_eq]

/-! #### (b) field curvature: each parabasal ray's own z; sagittal pair by symmetry -/

/-- **fcTangential_own_z**: on a curved image surface the two tangential parabasal rays end at
different `z`; `FieldCurvature` uses each ray's own end point.  Taking both `z` from ray 1's slice
(the seeded slip) changes the value by `M₂ (z₁ − z₂)/(M₁N₂ − M₂N₁)·N₁`, hence gives the same
answer iff `M₂ (z₁ − z₂) N₁ = 0` (flat image `z₁ = z₂`, or the second ray parallel to the axis). -/
theorem fcTangential_own_z (r1 r2 : Ray ℝ) (hD : r1.M * r2.N - r2.M * r1.N ≠ 0) :
    fcTangential [r1, r2] =
      [parabasalT r1.y r1.z r1.M r1.N r2.y r1.z r2.M r2.N * r1.N
        + r2.M * (r1.z - r2.z) * r1.N / (r1.M * r2.N - r2.M * r1.N)] ∧
    (fcTangential [r1, r2] = [parabasalT r1.y r1.z r1.M r1.N r2.y r1.z r2.M r2.N * r1.N]
      ↔ r2.M * (r1.z - r2.z) * r1.N = 0) := by
  have key : parabasalT r1.y r1.z r1.M r1.N r2.y r2.z r2.M r2.N * r1.N =
      parabasalT r1.y r1.z r1.M r1.N r2.y r1.z r2.M r2.N * r1.N
        + r2.M * (r1.z - r2.z) * r1.N / (r1.M * r2.N - r2.M * r1.N) := by
    unfold parabasalT
    num_real
    field_simp
    ring
  have hf : fcTangential [r1, r2] = [parabasalT r1.y r1.z r1.M r1.N r2.y r2.z r2.M r2.N * r1.N] := rfl
  rw [hf, key]
  refine ⟨rfl, ?_⟩
  rw [List.cons.injEq]
  constructor
  · rintro ⟨h, _⟩
    have h0 : r2.M * (r1.z - r2.z) * r1.N / (r1.M * r2.N - r2.M * r1.N) = 0 := by linarith
    rcases div_eq_zero_iff.mp h0 with h1 | h1
    · exact h1
    · exact absurd h1 hD
  · intro h
    rw [h, zero_div, add_zero]
    exact ⟨rfl, rfl⟩

example : ∃ r1 r2 : Ray ℝ, r1.M * r2.N - r2.M * r1.N ≠ 0 ∧ r2.M * (r1.z - r2.z) * r1.N ≠ 0 :=
  ⟨{ x := 0, y := 1, z := 0, L := 0, M := 0, N := 1, i := 1, opd := 0 },
   { x := 0, y := 2, z := 1, L := 0, M := 1, N := 1, i := 1, opd := 0 }, by norm_num, by norm_num⟩

/-- **fcSagittal_mirror_pair**: the two sagittal parabasal rays (`Px = ∓δ`, `Hx = 0`) of a system
symmetric about the meridional plane are mirror images (`x ↦ −x`, `L ↦ −L`, same `z`, `N`).  For such
a pair the sagittal value is `−x₁/L₁ · N₁`: no `z` enters (the pair ends at the SAME `z` also on a
curved image, so the slice the `z`'s are read from is immaterial), the rays meet on the meridional
plane `x = 0`, and replacing ray 2's `z` by ray 1's changes nothing.
(The mirror relation itself is a hypothesis on the records; it is not derived from `traceLens` here.) -/
theorem fcSagittal_mirror_pair (r1 r2 : Ray ℝ) (hx : r2.x = -r1.x) (hL : r2.L = -r1.L) (hz : r2.z = r1.z)
    (hN : r2.N = r1.N) (hL0 : r1.L ≠ 0) (hN0 : r1.N ≠ 0) :
    fcSagittal [r1, r2] = [-(r1.x / r1.L) * r1.N] ∧
    r1.x + (-(r1.x / r1.L)) * r1.L = 0 ∧
    fcSagittal [r1, { r2 with z := r1.z }] = fcSagittal [r1, r2] := by
  have hf : ∀ r : Ray ℝ, fcSagittal [r1, r] = [parabasalT r1.x r1.z r1.L r1.N r.x r.z r.L r.N * r1.N] :=
    fun _ => rfl
  refine ⟨?_, ?_, ?_⟩
  · rw [hf, hx, hL, hz, hN]
    unfold parabasalT
    num_real
    congr 1
    field_simp
    ring
  · field_simp
    ring
  · rw [hf, hf]
    simp only [hz]

example : ∃ r1 r2 : Ray ℝ, r2.x = -r1.x ∧ r2.L = -r1.L ∧ r2.z = r1.z ∧ r2.N = r1.N ∧ r1.L ≠ 0 ∧ r1.N ≠ 0 :=
  ⟨{ x := 1, y := 1, z := 3, L := -1, M := 0, N := 1, i := 1, opd := 0 },
   { x := -1, y := 1, z := 3, L := 1, M := 0, N := 1, i := 1, opd := 0 }, by norm_num, by norm_num, rfl, rfl,
   by norm_num, by norm_num⟩

/-! #### (c) spot diagrams: centring on a copy, invariance of the radii -/

/-- centring twice is centring by the sum -/
theorem center_center (s : Spot ℝ) (c d : ℝ × ℝ) :
    center (center s c) d = center s (c.1 + d.1, c.2 + d.2) := by
  unfold center
  simp only [List.map_map, Spot.mk.injEq, and_true]
  num_real
  constructor <;> (apply List.map_congr_left; intro a _; simp only [Function.comp]; ring)

/-- centring by zero is the identity (what a second radius query would do to already centred data) -/
theorem center_zero (s : Spot ℝ) : center s (0, 0) = s := by
  unfold center
  num_real
  simp

/-- **radii_translation_invariant**: the RMS and geometric radii about the spot's own centroid do
not change when the whole spot is translated (in particular when it has already been centred) -/
theorem radii_translation_invariant (s : Spot ℝ) (d : ℝ × ℝ) (hx : s.x ≠ []) (hy : s.y ≠ []) :
    rmsOf (center (center s d) (centroidOf (center s d))) = rmsOf (center s (centroidOf s)) ∧
    geoOf (center (center s d) (centroidOf (center s d))) = geoOf (center s (centroidOf s)) := by
  have e : center (center s d) (centroidOf (center s d)) = center s (centroidOf s) := by
    rw [centroid_translation s d hx hy, center_center]
    congr 1
    ext <;> simp
  rw [e]
  exact ⟨rfl, rfl⟩

theorem centerSpots_map (data : SpotData ℝ) (f : List (Spot ℝ) → ℝ × ℝ) :
    centerSpots data (data.map f) = data.map (fun fd => fd.map (center · (f fd))) := by
  unfold centerSpots
  induction data with
  | nil => rfl
  | cons a l ih => simp only [List.map_cons, List.zipWith_cons_cons, ih]

/-- **centring_on_copy**: `rms_spot_radius` / `geometric_spot_radius` centre a COPY.  In the model
the queries are functions of `data` (it cannot change); what the theorem adds is that a
hypothetical in-place centring would not be observable through the radii but WOULD be through
`centroid()`: for data whose reference spots (index `p`) are non-empty, after centring with
`centroid()` the centroids are all `(0,0)` (so `centroid()` must be taken from the untouched data),
centring again with the new centroids is the identity, and all radii are unchanged. -/
theorem centring_on_copy (data : SpotData ℝ) (p : Nat)
    (hok : ∀ fd ∈ data, p < fd.length ∧ (fd.getD p default).x ≠ [] ∧ (fd.getD p default).y ≠ []) :
    let cen := fun fd : List (Spot ℝ) => centroidOf (fd.getD p default)
    let data' := centerSpots data (data.map cen)
    data'.map cen = data.map (fun _ => ((0 : ℝ), (0 : ℝ))) ∧
    centerSpots data' (data'.map cen) = data' ∧
    rmsSpotRadius data' (data'.map cen) = rmsSpotRadius data (data.map cen) ∧
    geometricSpotRadius data' (data'.map cen) = geometricSpotRadius data (data.map cen) := by
  intro cen data'
  have hd : data' = data.map (fun fd => fd.map (center · (cen fd))) := centerSpots_map data cen
  have h1 : data'.map cen = data.map (fun _ => ((0 : ℝ), (0 : ℝ))) := by
    rw [hd, List.map_map]
    apply List.map_congr_left
    intro fd hfd
    obtain ⟨hp, hx, hy⟩ := hok fd hfd
    show centroidOf ((fd.map (center · (cen fd))).getD p default) = (0, 0)
    have : (fd.map (center · (cen fd))).getD p default = center (fd.getD p default) (cen fd) := by
      simp [List.getD_eq_getElem?_getD, List.getElem?_map, List.getElem?_eq_getElem hp]
    rw [this]
    exact centred_centroid_zero _ hx hy
  have h2 : centerSpots data' (data'.map cen) = data' := by
    rw [centerSpots_map]
    conv_rhs => rw [← List.map_id data']
    apply List.map_congr_left
    intro fd' hfd'
    have hc : cen fd' = (0, 0) := by
      have hm : cen fd' ∈ data'.map cen := List.mem_map.mpr ⟨fd', hfd', rfl⟩
      rw [h1] at hm
      obtain ⟨_, _, hv⟩ := List.mem_map.mp hm
      exact hv.symm
    rw [hc]
    simp only [center_zero, List.map_id', id]
  refine ⟨h1, h2, ?_, ?_⟩
  · unfold rmsSpotRadius
    rw [h2]
  · unfold geometricSpotRadius
    rw [h2]

example : ∀ fd ∈ ([[⟨[0, 1], [2, 3], [1, 1]⟩, ⟨[5], [6], [1]⟩]] : SpotData ℝ),
    0 < fd.length ∧ (fd.getD 0 default).x ≠ [] ∧ (fd.getD 0 default).y ≠ [] := by
  intro fd hfd
  simp only [List.mem_singleton] at hfd
  subst hfd
  simp

/-- an in-place centring WOULD be visible in `centroid()`: concrete data whose centroid is not zero -/
theorem centroid_changes_if_centred_in_place :
    let data : SpotData ℝ := [[⟨[1, 3], [2, 4], [1, 1]⟩]]
    centroid_code data 0 = some [(2, 3)] ∧
    centroid_code (centerSpots data [(2, 3)]) 0 = some [(0, 0)] := by
  simp only [centroid_code, centerSpots, center, centroidOf, mean_eq]
  num_real
  norm_num

/-! `RayOperand.rms_spot_size(wavelength='all')`: same pupil samples for every wavelength -/

theorem flatten_replicate_sum_len (l : List ℝ) (n : ℕ) :
    ((List.replicate n l).flatten).sum = n * l.sum ∧
    ((List.replicate n l).flatten).length = n * l.length := by
  induction n with
  | zero => simp
  | succ k ih =>
    rw [List.replicate_succ, List.flatten_cons, List.sum_append, List.length_append, ih.1, ih.2]
    constructor
    · push_cast; ring
    · ring

theorem mean_flatten_replicate (l : List ℝ) (n : ℕ) :
    mean ((List.replicate (n + 1) l).flatten) = mean l := by
  rw [mean_eq, mean_eq]
  obtain ⟨h1, h2⟩ := flatten_replicate_sum_len l (n + 1)
  rw [h1, h2]
  push_cast
  have hn : ((n : ℝ) + 1) ≠ 0 := by positivity
  rw [mul_div_mul_left _ _ hn]

/-- **opRmsAll_same_samples**: the `'all'` operand traces the SAME `(Hx, Hy, num_rays,
distribution)` for every wavelength.  Consequence proved here: when the records do not depend on
the wavelength (all-reflective lens) the `'all'` value over `n+1` wavelengths equals the
single-wavelength value, whichever wavelength is primary — which fails for a sampler that changes
between wavelengths. -/
theorem opRmsAll_same_samples (rs : List (Ray ℝ)) (n p : ℕ) (hp : p ≤ n) :
    opRmsAll (List.replicate (n + 1) rs) p = opRmsSingle rs := by
  have hget : (List.replicate (n + 1) rs).getD p [] = rs := by
    simp [List.getD_eq_getElem?_getD, Nat.lt_succ_of_le hp]
  unfold opRmsAll opRmsSingle
  simp only [hget, List.zipWith_map, List.zipWith_self]
  congr 1
  rw [List.flatMap_def, List.map_replicate, mean_flatten_replicate]

/-! #### (d) ray fans: symmetric sampling; y-ybar -/

/-- entries of `np.linspace(a, b, m+2)` -/
theorem linspace_getD (a b : ℝ) (m i : ℕ) (hi : i < m + 2) :
    (linspace a b (m + 2)).getD i 0 =
      if i = m + 1 then b else (i : ℝ) * ((b - a) / ((m + 1 : ℕ) : ℝ)) + a := by
  unfold linspace
  simp only [List.getD_eq_getElem?_getD, List.getElem?_map, List.getElem?_range hi, Option.map_some,
    Option.getD_some]
  split_ifs
  · rfl
  · num_real
    rw [ofNat_eq, ofNat_eq]

/-- **linspace_symmetric**: `linspace(−c, c, n)` (`n ≥ 2`) is symmetric, entry `n−1−i` is minus
entry `i` — the pupil samples of `RayFan` (`c = 1`) and the extent of `GridDistortion`
(`c = √2/2`) -/
theorem linspace_symmetric (c : ℝ) (m i : ℕ) (hi : i ≤ m + 1) :
    (linspace (-c) c (m + 2)).getD (m + 1 - i) 0 = -((linspace (-c) c (m + 2)).getD i 0) := by
  rw [linspace_getD _ _ _ _ (by omega), linspace_getD _ _ _ _ (by omega)]
  have hm : ((m + 1 : ℕ) : ℝ) ≠ 0 := by positivity
  by_cases h1 : i = m + 1
  · have h0 : m + 1 - i = 0 := by omega
    rw [if_pos h1, h0, if_neg (by omega)]
    simp
  · by_cases h2 : i = 0
    · subst h2
      have e : m + 1 - 0 = m + 1 := by omega
      rw [e, if_pos rfl, if_neg (by omega)]
      simp
    · rw [if_neg (by omega), if_neg h1, Nat.cast_sub hi]
      field_simp
      ring

/-- **fanPupil_symmetric**: `RayFan`'s pupil samples are symmetric about `0`, and the middle
sample `num_points // 2` (the reference of `fanOffsets`) is the chief ray `P = 0` — provided
`num_points ≥ 2` (after the odd-forcing: `≥ 3`). -/
theorem fanPupil_symmetric (n : ℕ) (h2 : 2 ≤ n) :
    (∀ i, i < oddPoints n →
      (fanPupil n : List ℝ).getD (oddPoints n - 1 - i) 0 = -((fanPupil n : List ℝ).getD i 0)) ∧
    (fanPupil n : List ℝ).getD (oddPoints n / 2) 0 = 0 ∧ oddPoints n / 2 < (fanPupil n : List ℝ).length := by
  obtain ⟨j, hj⟩ : ∃ j, oddPoints n = 2 * j + 3 := by
    unfold oddPoints
    split_ifs with h
    · exact ⟨(n - 2) / 2, by omega⟩
    · exact ⟨(n - 3) / 2, by omega⟩
  have hfp : (fanPupil n : List ℝ) = linspace (-1) 1 (2 * j + 1 + 2) := by
    unfold fanPupil
    rw [hj]
    num_real
  refine ⟨?_, ?_, ?_⟩
  · intro i hi
    rw [hfp, hj]
    have := linspace_symmetric 1 (2 * j + 1) i (by omega)
    have e : 2 * j + 3 - 1 - i = 2 * j + 1 + 1 - i := by omega
    rw [e]
    exact this
  · have hmid : oddPoints n / 2 = j + 1 := by omega
    have hs := linspace_symmetric 1 (2 * j + 1) (j + 1) (by omega)
    have e : 2 * j + 1 + 1 - (j + 1) = j + 1 := by omega
    rw [e] at hs
    rw [hfp, hmid]
    linarith
  · rw [hfp]
    unfold linspace
    simp only [List.length_map, List.length_range]
    omega

example : (2 : ℕ) ≤ 5 := by norm_num

/-- FINDING (edge case): for `num_points ≤ 1` the fan has the single sample `linspace(−1, 1, 1) = [−1]`,
so the "centre" sample `num_points // 2 = 0` that `RayFan` subtracts as the chief-ray reference is the
marginal ray `P = −1`, not `P = 0` (the comment "force to be odd so a point lies at P=0" fails). -/
theorem fanPupil_one_point_not_chief :
    oddPoints 1 = 1 ∧ oddPoints 0 = 1 ∧ (fanPupil 1 : List ℝ) = [-1] ∧
    (fanPupil 1 : List ℝ).getD (oddPoints 1 / 2) 0 ≠ 0 := by
  have h : (fanPupil 1 : List ℝ) = [-1] := by
    unfold fanPupil oddPoints linspace
    num_real
    simp
  refine ⟨rfl, rfl, h, ?_⟩
  rw [h]
  norm_num [oddPoints]

open scoped Num in
/-- **yybar_segments_spec**: `YYbar` plots `len − 2` segments; segment `i` joins surface `i+1` to
surface `i+2` in the `(ȳ, y)` plane, consecutive segments share their end point (a connected
polyline from surface 1 to the image surface), nothing else of the traces enters. -/
theorem yybar_segments_spec {α : Type} [Num α] (ya yb : List α) :
    (yybarSegments ya yb).length = ya.length - 2 ∧
    (∀ i, i < ya.length - 2 → (yybarSegments ya yb)[i]? =
      some (yb.getD (i + 1) 0, yb.getD (i + 2) 0, ya.getD (i + 1) 0, ya.getD (i + 2) 0)) ∧
    (∀ i, i + 1 < ya.length - 2 → ∀ s s', (yybarSegments ya yb)[i]? = some s →
      (yybarSegments ya yb)[i + 1]? = some s' → s'.1 = s.2.1 ∧ s'.2.2.1 = s.2.2.2) := by
  have hidx : ∀ i, i < ya.length - 2 → (yybarSegments ya yb)[i]? =
      some (yb.getD (i + 1) 0, yb.getD (i + 2) 0, ya.getD (i + 1) 0, ya.getD (i + 2) 0) := by
    intro i hi
    unfold yybarSegments
    simp only [List.getElem?_map, List.getElem?_range hi, Option.map_some]
    rfl
  refine ⟨by simp [yybarSegments], hidx, ?_⟩
  intro i hi s s' hs hs'
  rw [hidx i (by omega)] at hs
  rw [hidx (i + 1) hi] at hs'
  cases hs
  cases hs'
  exact ⟨rfl, rfl⟩

/-- **pupilAb_spec**: every value of `PupilAberration` is `(paraxial − real)/d·100` at the stop, and
it vanishes exactly when the real ray hits the stop at the paraxial coordinate (`d ≠ 0`, ray not
vignetted); one-sample form -/
theorem pupilAb_spec (pr re d i : ℝ) (hd : d ≠ 0) (hi : i ≠ 0) :
    pupilAb [pr] d [re] [i] = [(pr - re) / d * 100] ∧ (pupilAb [pr] d [re] [i] = [0] ↔ re = pr) := by
  have h : pupilAb [pr] d [re] [i] = [(pr - re) / d * 100] := by
    unfold pupilAb
    simp only [List.zip_cons_cons, List.zip_nil_right, List.zipWith_cons_cons, List.zipWith_nil_right]
    have hz : Num.isZero i = false := by
      rw [← Bool.not_eq_true, NumReal.isZero_eq]
      exact hi
    rw [hz]
    simp only [Bool.false_eq_true, if_false, hundred_val]
  rw [h]
  refine ⟨rfl, ?_⟩
  rw [List.cons.injEq]
  constructor
  · rintro ⟨h0, _⟩
    have h100 : (100 : ℝ) ≠ 0 := by norm_num
    have h1 : (pr - re) / d = 0 := (mul_eq_zero.mp h0).resolve_right h100
    have h2 : pr - re = 0 := (div_eq_zero_iff.mp h1).resolve_right hd
    linarith
  · intro e
    rw [e, sub_self, zero_div, zero_mul]
    exact ⟨rfl, rfl⟩

example : (2 : ℝ) ≠ 0 ∧ (1 : ℝ) ≠ 0 := by norm_num

/-! #### further consequences -/

/-- **fcTangential_same_slice_misses_focus**: for two tangential parabasal rays that really pass through a
common focus `(yf, zf)`, `FieldCurvature` (own `z` per ray) returns the focus' z-offset `zf − z₁`,
while the same-slice variant does NOT whenever `M₂ (z₁ − z₂) N₁ ≠ 0` (curved image). -/
theorem fcTangential_same_slice_misses_focus (r1 r2 : Ray ℝ) (yf zf a b : ℝ)
    (hD : r1.M * r2.N - r2.M * r1.N ≠ 0)
    (h1y : yf = r1.y + a * r1.M) (h1z : zf = r1.z + a * r1.N)
    (h2y : yf = r2.y + b * r2.M) (h2z : zf = r2.z + b * r2.N)
    (hne : r2.M * (r1.z - r2.z) * r1.N ≠ 0) :
    fcTangential [r1, r2] = [zf - r1.z] ∧
    parabasalT r1.y r1.z r1.M r1.N r2.y r1.z r2.M r2.N * r1.N ≠ zf - r1.z := by
  have hc := coddington_partial r1.y r1.z r1.M r1.N r2.y r2.z r2.M r2.N yf zf a b hD h1y h1z h2y h2z
  have hf : fcTangential [r1, r2] = [parabasalT r1.y r1.z r1.M r1.N r2.y r2.z r2.M r2.N * r1.N] := rfl
  refine ⟨by rw [hf, hc], ?_⟩
  intro hs
  have h := (fcTangential_own_z r1 r2 hD).2.mp (by rw [hf, hc, hs])
  exact hne h

example : ∃ (r1 r2 : Ray ℝ) (yf zf a b : ℝ), r1.M * r2.N - r2.M * r1.N ≠ 0 ∧
    yf = r1.y + a * r1.M ∧ zf = r1.z + a * r1.N ∧ yf = r2.y + b * r2.M ∧ zf = r2.z + b * r2.N ∧
    r2.M * (r1.z - r2.z) * r1.N ≠ 0 :=
  ⟨{ x := 0, y := 1, z := 0, L := 0, M := 0, N := 1, i := 1, opd := 0 },
   { x := 0, y := 2, z := 1, L := 0, M := -1, N := 1, i := 1, opd := 0 }, 1, 2, 2, 1,
   by norm_num, by norm_num, by norm_num, by norm_num, by norm_num, by norm_num⟩

theorem flatten_equal_length (ls : List (List ℝ)) (k : ℕ) (hk : 0 < k) (h : ∀ l ∈ ls, l.length = k) :
    (ls.map mean).sum * (k : ℝ) = ls.flatten.sum ∧ ls.flatten.length = ls.length * k := by
  have hk' : (k : ℝ) ≠ 0 := by positivity
  induction ls with
  | nil => simp
  | cons a l ih =>
    obtain ⟨i1, i2⟩ := ih (fun l' hl' => h l' (List.mem_cons_of_mem _ hl'))
    have ha : a.length = k := h a List.mem_cons_self
    rw [List.map_cons, List.sum_cons, List.flatten_cons, List.sum_append, List.length_append, i2, ha,
      List.length_cons, ← i1, mean_eq, ha]
    constructor
    · field_simp
    · ring

/-- **opRmsAll_mean_of_wavelength_means**: because `rms_spot_size('all')` traces the SAME number of
pupil samples `k` for every wavelength, its square is the plain (unweighted) mean over the
wavelengths of the per-wavelength mean squared distances from the primary-wavelength centroid. -/
theorem opRmsAll_mean_of_wavelength_means (rss : List (List (Ray ℝ))) (p k : ℕ) (hk : 0 < k)
    (hlen : ∀ rs ∈ rss, rs.length = k) :
    let mx := mean ((rss.getD p []).map (·.x))
    let my := mean ((rss.getD p []).map (·.y))
    opRmsAll rss p = Real.sqrt (mean (rss.map fun rs =>
      mean (rs.map fun r => (r.x - mx) * (r.x - mx) + (r.y - my) * (r.y - my)))) := by
  intro mx my
  unfold opRmsAll
  simp only []
  rw [NumReal.sqrt_eq]
  congr 1
  set g : Ray ℝ → ℝ := fun r => (r.x - mx) * (r.x - mx) + (r.y - my) * (r.y - my) with hg
  have hgoal : mean (rss.flatMap fun rs => rs.map g) = mean (rss.map fun rs => mean (rs.map g)) := by
    rw [List.flatMap_def]
    obtain ⟨h1, h2⟩ := flatten_equal_length (rss.map fun rs => rs.map g) k hk (by
      intro l hl
      obtain ⟨rs, hrs, rfl⟩ := List.mem_map.mp hl
      rw [List.length_map]
      exact hlen rs hrs)
    rw [List.map_map] at h1
    rw [mean_eq, mean_eq, h2, ← h1, List.length_map, List.length_map]
    have hk' : (k : ℝ) ≠ 0 := by positivity
    push_cast
    by_cases hn : (rss.length : ℝ) = 0
    · rw [hn]; simp
    · field_simp
      rfl
  exact hgoal

example : ∀ rs ∈ ([[default, default], [default, default]] : List (List (Ray ℝ))), rs.length = 2 := by
  intro rs h
  simp only [List.mem_cons, List.mem_nil_iff, or_false] at h
  rcases h with rfl | rfl <;> rfl

/-- **rmsVsField_samples**: `RmsSpotSizeVsField` samples `Hy` from `0` to `1` in non-decreasing order
(`num_fields ≥ 2`). -/
theorem rmsVsField_samples (m : ℕ) :
    (rmsVsFieldHy (m + 2) : List ℝ).getD 0 7 = 0 ∧ (rmsVsFieldHy (m + 2) : List ℝ).getLast? = some 1 ∧
    (rmsVsFieldHy (m + 2) : List ℝ).Pairwise (· ≤ ·) ∧ (rmsVsFieldHy (m + 2) : List ℝ).length = m + 2 := by
  have e : (rmsVsFieldHy (m + 2) : List ℝ) = linspace 0 1 (m + 2) := by
    unfold rmsVsFieldHy
    num_real
  rw [e]
  refine ⟨?_, linspace_last 0 1 m, linspace_zero_mono 1 zero_le_one (m + 2), ?_⟩
  · unfold linspace
    simp only [List.getD_eq_getElem?_getD, List.getElem?_map, List.getElem?_range (show 0 < m + 2 by omega),
      Option.map_some, Option.getD_some]
    rw [if_neg (by omega)]
    num_real
    rw [ofNat_eq]
    simp
  · unfold linspace
    simp

theorem getD_map_sub_self (l : List ℝ) (k : ℕ) (hk : k < l.length) :
    (l.map (fun x => x - l.getD k 0)).getD k 0 = 0 := by
  simp [List.getD_eq_getElem?_getD, List.getElem?_eq_getElem hk]

/-- **rayFan_reference_zero**: after `RayFan`'s referencing, the centre sample (`num_points // 2`) of the
reference wavelength's fans is exactly `0` in both `x` and `y`: the fans are measured from the
primary-wavelength chief ray (one field; the other wavelengths are shifted by the same offset). -/
theorem rayFan_reference_zero (fd : List (Fan ℝ)) (j n : ℕ) (hj : j < fd.length)
    (hx : n / 2 < (fd.getD j default).x.length) (hy : n / 2 < (fd.getD j default).y.length) :
    let o := ((fd.getD j default).x.getD (n / 2) 0, (fd.getD j default).y.getD (n / 2) 0)
    fanShift [fd] (fanOffsets [fd] j n) = [fd.map (fun f : Fan ℝ => f.shift o)] ∧
    ((fd.map (fun f : Fan ℝ => f.shift o)).getD j default).x.getD (n / 2) 0 = 0 ∧
    ((fd.map (fun f : Fan ℝ => f.shift o)).getD j default).y.getD (n / 2) 0 = 0 := by
  intro o
  have hm : (fd.map (fun f : Fan ℝ => f.shift o)).getD j default = (fd.getD j default).shift o := by
    simp [List.getD_eq_getElem?_getD, List.getElem?_map, List.getElem?_eq_getElem hj]
  refine ⟨rfl, ?_, ?_⟩
  · rw [hm]
    exact getD_map_sub_self (fd.getD j default).x (n / 2) hx
  · rw [hm]
    exact getD_map_sub_self (fd.getD j default).y (n / 2) hy

example : ∃ fd : List (Fan ℝ), 0 < fd.length ∧ 3 / 2 < (fd.getD 0 default).x.length ∧
    3 / 2 < (fd.getD 0 default).y.length :=
  ⟨[⟨[1, 2, 3], [1, 1, 1], [4, 5, 6], [1, 1, 1]⟩], by simp, by simp, by simp⟩

end C12
