import OptiModel.Proofs.Effects
import OptiModel.Proofs.EffectsBatch
import OptiModel.Proofs.NumReal
import Mathlib.Tactic.Ring
import Mathlib.Tactic.Linarith
import Mathlib.Tactic.FieldSimp
import Mathlib.Tactic.NormNum
/-!
# C13  Tracing and analysis are repeatable and free of side effects

Theorems about `Model/Effects.lean` (state machine `St = (lens, records, heap)`) and about the
batch structure of the real tracer `Model/Real.lean`.  Everything that does not involve
arithmetic is proved for an arbitrary carrier `α` with `[Num α]` – in particular for `Float`,
the carrier the driver runs, so that "bit-identical" is literally what is proved there.
-/
namespace C13
open Model hiding Op step
open Model.Fx

variable {α : Type} [Num α]

/-! ## A. paraxial queries -/

/-- **paraxial_query_is_pure**: every `Paraxial` query, executed against arbitrary records (forward
traces overwrite the lens' own records after `reset`, reverse traces run on the deep copy made by
`inverted`), returns the pure function of the prescription of `Model/Parax.lean` (C04). -/
theorem paraxial_query_is_pure (S : PSys α) (q : Query) (recs : Recs α) :
    (queryM S q recs).1 = queryPure S q := queryM_val S q recs

/-- a query made of reverse traces only (here `f1`) leaves the records of the lens untouched -/
theorem reverse_query_keeps_records (S : PSys α) (recs : Recs α) : (f1M S recs).2 = recs := by
  simp only [f1M, tgM_recs_rev]

/-! ## C. batch independence of the real tracer -/

/-- every surface of the list has a closed-form intersection (plane / conic) -/
def AllClosed (ss : List (RSurf α)) : Prop := ∀ s ∈ ss, closedForm s.geom = true

/-- **batch_independence** (first block).  With closed-form geometries the per-surface records of
the rays `a`, traced together with any other rays `b`, are the records of `a` traced alone –
for every carrier, hence bit for bit over `Float`. -/
theorem batch_independence (w : α) (ss : List (RSurf α)) (a b : List (Ray α)) (h : AllClosed ss) :
    (traceLens w ss (a ++ b)).map (List.take a.length) = traceLens w ss a := by
  induction ss generalizing a b with
  | nil => rfl
  | cons s ss ih =>
    have hs : closedForm s.geom = true := h s (by simp)
    have hss : AllClosed ss := fun t ht => h t (by simp [ht])
    simp only [traceLens, List.map_cons, traceSurf_append s w a b hs]
    have hl := traceSurf_length s w a hs
    rw [← hl, List.take_left', ih _ _ hss]
    rfl

/-- **batch_independence** (second block): the rays traced *after* others in the same call -/
theorem batch_independence_drop (w : α) (ss : List (RSurf α)) (a b : List (Ray α)) (h : AllClosed ss) :
    (traceLens w ss (a ++ b)).map (List.drop a.length) = traceLens w ss b := by
  induction ss generalizing a b with
  | nil => rfl
  | cons s ss ih =>
    have hs : closedForm s.geom = true := h s (by simp)
    have hss : AllClosed ss := fun t ht => h t (by simp [ht])
    simp only [traceLens, List.map_cons, traceSurf_append s w a b hs]
    have hl := traceSurf_length s w a hs
    rw [← hl, List.drop_left', ih _ _ hss]
    rfl

/-- **batch_independence** for one ray anywhere in a batch: its record at every surface is the
record of that ray traced alone -/
theorem batch_independence_single (w : α) (ss : List (RSurf α)) (pre post : List (Ray α)) (r : Ray α)
    (h : AllClosed ss) :
    (traceLens w ss (pre ++ r :: post)).map (fun rs => (rs.drop pre.length).take 1) = traceLens w ss [r] := by
  have h1 := batch_independence_drop w ss pre (r :: post) h
  have h2 := batch_independence w ss [r] post h
  rw [← h2, List.singleton_append, ← h1, List.map_map]
  rfl

/-- the hypothesis is satisfiable: a plane and a conic surface -/
example (z o : α) : AllClosed [(⟨.standard, ⟨z, z, z, z, z, z⟩, .plane, o, o, z, false, none, none⟩ : RSurf α),
    ⟨.standard, ⟨z, z, z, z, z, z⟩, .standard o z, o, o, z, false, none, none⟩] := by
  intro s hs
  simp only [List.mem_cons, List.not_mem_nil, or_false] at hs
  rcases hs with rfl | rfl <;> rfl

/-! ### Newton–Raphson geometries: what the other rays of a batch decide

`NewtonRaphsonGeometry.distance` stops when `max |dz| < tol` over the *whole batch*.  Each sweep
acts on every ray separately (`nrSweep_pts`), so the batch only decides *how many* sweeps all
rays receive (`nrLoop_eq_iter`): a ray traced with others receives at least as many steps as when
traced alone.  Each further step moves the point along its own ray (`nrStep_on_ray`) by exactly
`|dz| / |N|` (`nrStep_displacement`), which is below `tol / |N|` once the ray has met the
stopping test (`nrStep_displacement_lt`).

Over ℝ (no NaN) the count can only grow with the batch: `nr_alone_stops_no_later` (`k_alone ≤ k_batch`).

Full statement (not proved; numerical only): for every ray, the points found in a batch and alone
differ by at most `tol / |N|`.  Missing: convergence of the Newton iteration (contraction of
`|dz|` under the further steps, so that the added displacements stay below the first one), and
the NaN case of the float `np.max` (a NaN ray keeps the whole batch iterating to `max_iter`). -/

/-- the loop is `k` sweeps for some `k ≤ max_iter`: the same `k` for every ray of the batch -/
theorem nrLoop_eq_iter (g : Geom α) (rays : List (Ray α)) (tol : α) (n : Nat) (pts : List (α × α × α)) :
    ∃ k, k ≤ n ∧ nrLoop g rays tol n pts = nrIter g rays k pts := by
  induction n generalizing pts with
  | zero => exact ⟨0, Nat.le_refl 0, rfl⟩
  | succ n ih =>
    simp only [nrLoop]
    by_cases hm : Num.lt (nrSweep g rays pts).2 tol = true
    · exact ⟨1, Nat.succ_le_succ (Nat.zero_le n), by simp only [hm, if_true, nrIter]⟩
    · obtain ⟨k, hk, e⟩ := ih (nrSweep g rays pts).1
      exact ⟨k + 1, Nat.succ_le_succ hk, by simp only [hm, if_false, nrIter, e]; rfl⟩

/-- **batch_independence_nr_partial**: in a batch `a ++ b` the rays `a` end at the points of
`k` Newton steps, alone at the points of `k'` Newton steps of the *same* per-ray iteration from
the same start; only the counts `k, k' ≤ max_iter` differ (`k` is decided by all of `a ++ b`). -/
theorem batch_independence_nr_partial (g : Geom α) (a b : List (Ray α)) (tol : α) (n : Nat)
    (pa pb : List (α × α × α)) (hl : pa.length = a.length) :
    ∃ k k', k ≤ n ∧ k' ≤ n ∧
      (nrLoop g (a ++ b) tol n (pa ++ pb)).take a.length = nrIter g a k pa ∧
      nrLoop g a tol n pa = nrIter g a k' pa := by
  obtain ⟨k, hk, e⟩ := nrLoop_eq_iter g (a ++ b) tol n (pa ++ pb)
  obtain ⟨k', hk', e'⟩ := nrLoop_eq_iter g a tol n pa
  refine ⟨k, k', hk, hk', ?_, e'⟩
  rw [e, nrIter_append g a b k pa pb hl, ← nrIter_length g a k pa hl, List.take_left']
  rfl

/-! ## B. frame condition and independence of history -/

/-- **query_preserves_prescription**: a call that is not an editing operation leaves the lens
(prescription, fields, wavelengths-dependent media, aperture) exactly as it was.
*By construction of the model*: `step` returns `s.lens` unchanged for `.call` and `.analysis` (the
proof is `rfl`), so this theorem adds nothing to the definition of `Model.Fx.step`; that the Python
calls have this frame property is established only by the conformance run (`optic.to_dict()` before
and after every call, `harness/c13.py`), not by a proof. -/
theorem query_preserves_prescription (env : Env α) (code : Bool) (s : St α) (op : Op α)
    (h : op.isEdit = false) : (step env code s op).1.lens = s.lens := by
  cases op with
  | call c => rfl
  | analysis a => rfl
  | edit f => simp [Op.isEdit] at h

/-- … and so does every interleaving of such calls -/
theorem query_preserves_prescription_run (env : Env α) (code : Bool) (ops : List (Op α)) (s : St α)
    (h : ∀ op ∈ ops, op.isEdit = false) : (run env code s ops).lens = s.lens := by
  induction ops generalizing s with
  | nil => rfl
  | cons op ops ih =>
    have h1 := query_preserves_prescription env code s op (h op (by simp))
    have h2 := ih (step env code s op).1 (fun o ho => h o (by simp [ho]))
    simp only [run, List.foldl_cons] at h2 ⊢
    rw [h2, h1]

/-- **result_independent_of_history**: on the same lens and with the same caller arrays the value
returned by a call, and the caller arrays afterwards, are the same whatever was traced before
(the records component is arbitrary on both sides).  Reason, visible in the proof: every forward
trace starts with `reset`, reverse traces work on a copy, results are read after the overwrite. -/
theorem result_independent_of_history (env : Env α) (code : Bool) (s₁ s₂ : St α) (op : Op α)
    (hl : s₁.lens = s₂.lens) (hh : s₁.heap = s₂.heap) :
    (step env code s₁ op).2 = (step env code s₂ op).2 ∧
    (step env code s₁ op).1.heap = (step env code s₂ op).1.heap := by
  cases op with
  | call c =>
    obtain ⟨hv, hp, _⟩ := stepCall_indep env code s₂.lens c s₁.records s₂.records s₂.heap
    simp only [step, hl, hh]
    exact ⟨hv, hp⟩
  | analysis a =>
    obtain ⟨hv, hp⟩ := runCalls_indep env code s₂.lens (a.calls s₂.lens) s₁.records s₂.records s₂.heap
    simp only [step, hl, hh]
    exact ⟨by rw [hv], hp⟩
  | edit f => simp only [step, hh, and_self]

/-- the records left by a tracing call are a function of lens, arguments and caller arrays -/
theorem records_independent_of_history (env : Env α) (code : Bool) (s₁ s₂ : St α) (c : Call α)
    (hl : s₁.lens = s₂.lens) (hh : s₁.heap = s₂.heap) (hc : c.exposes = true)
    (he : (step env code s₁ (.call c)).2.err = false) :
    (step env code s₁ (.call c)).1.records = (step env code s₂ (.call c)).1.records := by
  obtain ⟨_, _, hr⟩ := stepCall_indep env code s₂.lens c s₁.records s₂.records s₂.heap
  simp only [step, hl, hh] at he ⊢
  exact hr hc he

/-- the hypotheses are satisfiable: `Optic.trace` exposes its records and does not raise -/
example (env : Env α) (code : Bool) (s : St α) (Hx Hy w : α) (pts : List (α × α)) :
    (Call.trace Hx Hy w pts).exposes = true ∧ (step env code s (.call (.trace Hx Hy w pts))).2.err = false :=
  ⟨rfl, rfl⟩

/-! ## D. caller-owned arrays -/

/-- **caller_arrays_unchanged** (specification variant, `code = false`): no call writes a
caller-owned array.  The variant `code = false` of `scaleArg` returns the heap it was given, so this
restates the definition of the specification variant; the statements about the tree are
`caller_arrays_unchanged_code_noarr`, `caller_arrays_unchanged_partial` and the negation witness
`caller_arrays_changed_code` below. -/
theorem caller_arrays_unchanged_spec (env : Env α) (s : St α) (op : Op α) :
    (step env false s op).1.heap = s.heap := by
  cases op with
  | call c => exact stepCall_spec_heap env s.lens c _
  | analysis a => exact runCalls_spec_heap env s.lens _ _
  | edit f => rfl

theorem caller_arrays_unchanged_spec_run (env : Env α) (ops : List (Op α)) (s : St α) :
    (run env false s ops).heap = s.heap := by
  induction ops generalizing s with
  | nil => rfl
  | cons op ops ih =>
    have h2 := ih (step env false s op).1
    simp only [run, List.foldl_cons] at h2 ⊢
    rw [h2, caller_arrays_unchanged_spec]

/-- repeated identical calls return equal results (specification variant): consequence of the
three theorems above -/
theorem repeated_call_equal_spec (env : Env α) (s : St α) (op : Op α) (h : op.isEdit = false) :
    (step env false (step env false s op).1 op).2 = (step env false s op).2 :=
  (result_independent_of_history env false _ s op (query_preserves_prescription env false s op h)
    (caller_arrays_unchanged_spec env s op)).1

/-- the same with any non-editing calls in between -/
theorem repeated_call_equal_spec_run (env : Env α) (s : St α) (op : Op α) (between : List (Op α))
    (h : ∀ o ∈ between, o.isEdit = false) :
    (step env false (run env false s between) op).2 = (step env false s op).2 :=
  (result_independent_of_history env false _ s op (query_preserves_prescription_run env false between s h)
    (caller_arrays_unchanged_spec_run env between s)).1

/-! ### the code as it stands (`code = true`), over ℝ -/

/-- **caller_arrays_unchanged_partial** (the code as it stands).  Full statement, false for the
tree (see `caller_arrays_changed_code`): `∀ env s op, (step env true s op).1.heap = s.heap`.
Proved part: it holds when the vignetting factors at the requested field are zero – the in-place
product then multiplies by `1 - 0`.  Missing: the case of a non-zero factor, where the tree
writes the caller's array (finding F3). -/
theorem caller_arrays_unchanged_partial (env : Env ℝ) (hz : ZeroVig env) (s : St ℝ) (op : Op ℝ) :
    (step env true s op).1.heap = s.heap := by
  cases op with
  | call c => exact stepCall_code_zero_heap env hz s.lens c _
  | analysis a => exact runCalls_code_zero_heap env hz s.lens _ _
  | edit f => rfl

/-- the hypothesis is satisfiable -/
example : ZeroVig (⟨fun _ _ _ => ([0], [0]), fun _ _ => []⟩ : Env ℝ) := fun _ _ _ => rfl

/-- the lens used by the witness below (contents irrelevant) -/
noncomputable def witnessLens : Lens ℝ := ⟨⟨[], .EPD, 1, .angle, 0, true⟩, [], fun _ => []⟩

/-- **caller_arrays_changed_code** (negation witness, F3): with vignetting factor 1/2 the call
`trace_generic(0, 0, Px, 0, w)` with `Px = array([1.])` leaves the caller's array at `[0.5]`. -/
theorem caller_arrays_changed_code :
    ∃ (env : Env ℝ) (s : St ℝ) (op : Op ℝ), op.isEdit = false ∧ (step env true s op).1.heap ≠ s.heap := by
  refine ⟨⟨fun _ _ _ => ([1/2], [0]), fun _ _ => []⟩, ⟨witnessLens, [], [[1]]⟩,
    .call (.traceGeneric (.scalar 0) (.scalar 0) (.arr 0) (.scalar 0) 1), rfl, ?_⟩
  have e : (step (⟨fun _ _ _ => ([1/2], [0]), fun _ _ => []⟩ : Env ℝ) true ⟨witnessLens, [], [[1]]⟩
      (.call (.traceGeneric (.scalar 0) (.scalar 0) (.arr 0) (.scalar 0) 1))).1.heap = [[1 * (1 - 1/2)]] := by
    simp only [step, stepCall, traceGenericM, scaleArg, if_true, Arg.read, mulB, List.getD_cons_zero,
      List.set_cons_zero, List.map_cons, List.map_nil]
  rw [e]
  intro hc
  have : (1 : ℝ) * (1 - 1/2) = 1 := by
    simpa using hc
  norm_num at this

/-- … and the second of two identical calls then launches different rays: the effective pupil
coordinate handed to the generator is `0.25`, not `0.5` (repeatability is lost as well). -/
theorem repeated_call_sees_changed_array :
    let env : Env ℝ := ⟨fun _ _ _ => ([1/2], [0]), fun _ g => g.px.map fun p => ⟨p, 0, 0, 0, 0, 1, 1, 0⟩⟩
    let s : St ℝ := ⟨witnessLens, [], [[1]]⟩
    let op : Op ℝ := .call (.traceGeneric (.scalar 0) (.scalar 0) (.arr 0) (.scalar 0) 1)
    (step env true (step env true s op).1 op).2.rays ≠ (step env true s op).2.rays := by
  intro env s op
  have e1 : (step env true s op).2.rays = [⟨1 * (1 - 1/2), 0, 0, 0, 0, 1, 1, 0⟩] := by
    simp only [env, s, op, step, stepCall, traceGenericM, scaleArg, if_true, Arg.read, mulB, List.getD_cons_zero,
      List.set_cons_zero, List.map_cons, List.map_nil, genM, groupTraceR, witnessLens, traceLens,
      List.getLastD, bcast]
    num_real
    rfl
  have e2 : (step env true (step env true s op).1 op).2.rays = [⟨1 * (1 - 1/2) * (1 - 1/2), 0, 0, 0, 0, 1, 1, 0⟩] := by
    simp only [env, s, op, step, stepCall, traceGenericM, scaleArg, if_true, Arg.read, mulB, List.getD_cons_zero,
      List.set_cons_zero, List.map_cons, List.map_nil, genM, groupTraceR, witnessLens, traceLens,
      List.getLastD, bcast]
    num_real
    rfl
  rw [e1, e2]
  intro hc
  have := congrArg (fun l => (l.map (·.x))) hc
  simp at this
  norm_num at this

/-- **nr_alone_stops_no_later** (over ℝ, where `np.max` has no NaN to propagate): a non-empty set
of rays `a` traced within a batch `a ++ b` receives `k` Newton sweeps, traced alone `k'` sweeps of
the same per-ray iteration from the same start, and `k' ≤ k ≤ max_iter`: the other rays of the
batch can only *add* iterations.  Together with `nrStep_displacement_lt` every added sweep moves
the point along its ray by less than `tol / |N|` as long as the ray still meets the test. -/
theorem nr_alone_stops_no_later (g : Geom ℝ) (a b : List (Ray ℝ)) (tol : ℝ) (n : Nat)
    (pa pb : List (ℝ × ℝ × ℝ)) (hl : pa.length = a.length) (hne : a ≠ []) :
    ∃ k k', k' ≤ k ∧ k ≤ n ∧
      (nrLoop g (a ++ b) tol n (pa ++ pb)).take a.length = nrIter g a k pa ∧
      nrLoop g a tol n pa = nrIter g a k' pa := by
  induction n generalizing pa pb with
  | zero =>
    refine ⟨0, 0, Nat.le_refl 0, Nat.le_refl 0, ?_, rfl⟩
    simp only [nrLoop, nrIter, ← hl, List.take_left']
  | succ n ih =>
    have take_iter : ∀ k, (nrIter g (a ++ b) k (pa ++ pb)).take a.length = nrIter g a k pa := by
      intro k
      rw [nrIter_append g a b k pa pb hl, ← nrIter_length g a k pa hl, List.take_left']
      rfl
    by_cases hA : Num.lt (nrSweep g a pa).2 tol = true
    · -- alone: stops after this sweep
      have eA : nrLoop g a tol (n + 1) pa = nrIter g a 1 pa := by
        simp only [nrLoop, hA, if_true, nrIter]
      by_cases hB : Num.lt (nrSweep g (a ++ b) (pa ++ pb)).2 tol = true
      · refine ⟨1, 1, Nat.le_refl 1, Nat.succ_le_succ (Nat.zero_le n), ?_, eA⟩
        have : nrLoop g (a ++ b) tol (n + 1) (pa ++ pb) = nrIter g (a ++ b) 1 (pa ++ pb) := by
          simp only [nrLoop, hB, if_true, nrIter]
        rw [this, take_iter]
      · obtain ⟨k, hk, e⟩ := nrLoop_eq_iter g (a ++ b) tol n (nrSweep g (a ++ b) (pa ++ pb)).1
        refine ⟨k + 1, 1, Nat.succ_le_succ (Nat.zero_le k), Nat.succ_le_succ hk, ?_, eA⟩
        have : nrLoop g (a ++ b) tol (n + 1) (pa ++ pb) = nrIter g (a ++ b) (k + 1) (pa ++ pb) := by
          simp only [nrLoop, hB, if_false, nrIter, e]; rfl
        rw [this, take_iter]
    · -- alone: continues; then the batch continues as well
      have hB : ¬ Num.lt (nrSweep g (a ++ b) (pa ++ pb)).2 tol = true :=
        fun h => hA (sweep_test_mono g a b pa pb tol hl hne h)
      obtain ⟨k, k', hkk, hk, e1, e2⟩ := ih (nrSweep g a pa).1 (nrSweep g b pb).1 (nrSweep_pts_length g a pa hl)
      refine ⟨k + 1, k' + 1, Nat.succ_le_succ hkk, Nat.succ_le_succ hk, ?_, ?_⟩
      · simp only [nrLoop, hB, if_false, nrSweep_pts_append g a b pa pb hl, nrIter]
        exact e1
      · simp only [nrLoop, hA, if_false, nrIter]
        exact e2

/-- the hypotheses are satisfiable: one ray with its start point -/
example : ([(0, 0, 0)] : List (ℝ × ℝ × ℝ)).length = ([⟨0, 0, 0, 0, 0, 1, 1, 0⟩] : List (Ray ℝ)).length ∧
    ([⟨0, 0, 0, 0, 0, 1, 1, 0⟩] : List (Ray ℝ)) ≠ [] := ⟨rfl, by simp⟩

/-! ### one Newton–Raphson step over ℝ -/

/-- the new point lies on the ray through the old point -/
theorem nrStep_on_ray (g : Geom ℝ) (r : Ray ℝ) (p : ℝ × ℝ × ℝ) :
    ∃ t : ℝ, (nrStep g r p).1 = (p.1 + t * r.L, p.2.1 + t * r.M, p.2.2 + t * r.N) := by
  refine ⟨-((p.2.2 - g.nrSag p.1 p.2.1) / r.N), ?_⟩
  simp only [nrStep]
  num_real
  simp only [Prod.mk.injEq]
  refine ⟨by ring, by ring, by ring⟩

/-- it moves the point by exactly `|dz| / |N|` for a unit direction.  (`hN` is not used by the proof:
over ℝ the equation also holds at `N = 0` because `dz / 0 = 0` on both sides, whereas the code
divides by zero there (`inf`/`nan`); the guard keeps the statement to what it means for the code.) -/
theorem nrStep_displacement (g : Geom ℝ) (r : Ray ℝ) (p : ℝ × ℝ × ℝ) (hu : r.L^2 + r.M^2 + r.N^2 = 1)
    (_hN : r.N ≠ 0) :
    ((nrStep g r p).1.1 - p.1)^2 + ((nrStep g r p).1.2.1 - p.2.1)^2 + ((nrStep g r p).1.2.2 - p.2.2)^2
      = ((p.2.2 - g.nrSag p.1 p.2.1) / r.N)^2 := by
  simp only [nrStep]
  num_real
  have : ∀ d : ℝ, (p.1 - d * r.L - p.1)^2 + (p.2.1 - d * r.M - p.2.1)^2 + (p.2.2 - d * r.N - p.2.2)^2
      = d^2 * (r.L^2 + r.M^2 + r.N^2) := by intro d; ring
  rw [this, hu, mul_one]

/-- … hence by less than `tol / |N|` once the ray itself meets the stopping test `|dz| < tol` -/
theorem nrStep_displacement_lt (g : Geom ℝ) (r : Ray ℝ) (p : ℝ × ℝ × ℝ) (tol : ℝ)
    (hu : r.L^2 + r.M^2 + r.N^2 = 1) (hN : r.N ≠ 0) (hz : (nrStep g r p).2 < tol) :
    ((nrStep g r p).1.1 - p.1)^2 + ((nrStep g r p).1.2.1 - p.2.1)^2 + ((nrStep g r p).1.2.2 - p.2.2)^2
      < (tol / r.N)^2 := by
  rw [nrStep_displacement g r p hu hN]
  simp only [nrStep] at hz
  num_real
  rw [div_pow, div_pow]
  have hN2 : 0 < r.N^2 := by positivity
  apply div_lt_div_of_pos_right _ hN2
  have h0 : 0 ≤ |p.2.2 - g.nrSag p.1 p.2.1| := abs_nonneg _
  calc (p.2.2 - g.nrSag p.1 p.2.1)^2 = |p.2.2 - g.nrSag p.1 p.2.1|^2 := (sq_abs _).symm
    _ < tol^2 := by nlinarith

example : ∃ (g : Geom ℝ) (r : Ray ℝ) (p : ℝ × ℝ × ℝ) (tol : ℝ),
    r.L^2 + r.M^2 + r.N^2 = 1 ∧ r.N ≠ 0 ∧ (nrStep g r p).2 < tol :=
  ⟨.plane, ⟨0, 0, 0, 0, 0, 1, 1, 0⟩, (0, 0, 0), 1, by norm_num, by norm_num, by
    simp only [nrStep, Geom.nrSag]; num_real; norm_num⟩

/-! ## E. the code as it stands (`code = true`), every carrier: which calls are safe

Added by the review: sections B/D prove repeatability only for the specification variant
(`code = false`).  For the tree (`code = true`) the only place where a caller-owned array is
written is `trace_generic` with an ndarray `Px` or `Py`; every other call (and every analysis that
issues only such calls) leaves the heap alone and is therefore repeatable bit for bit – for every
carrier, in particular `Float`. -/

variable {α : Type} [Num α]

/-- the call hands no caller-owned array as `Px` / `Py` (scalars, or arrays the callee allocated) -/
def noArrPupil : Call α → Bool
  | .traceGeneric _ _ (.arr _) _ _ => false
  | .traceGeneric _ _ _ (.arr _) _ => false
  | _ => true

theorem stepCall_code_noarr_heap (env : Env α) (L : Lens α) (c : Call α) (st : Recs α × Heap α)
    (h : noArrPupil c = true) : (stepCall env true L c st).2.2 = st.2 := by
  cases c with
  | trace Hx Hy w pts => rfl
  | query q => rfl
  | paraxTrace Hy Py => rfl
  | traceGeneric Hx Hy Px Py w =>
    cases Px <;> cases Py <;> first | rfl | (simp [noArrPupil] at h)

theorem runCalls_code_noarr_heap (env : Env α) (L : Lens α) (cs : List (Call α)) (st : Recs α × Heap α)
    (h : ∀ c ∈ cs, noArrPupil c = true) : (runCalls env true L cs st).2.2 = st.2 := by
  induction cs generalizing st with
  | nil => rfl
  | cons c cs ih =>
    simp only [runCalls]
    rw [ih _ (fun d hd => h d (by simp [hd])), stepCall_code_noarr_heap env L c st (h c (by simp))]

/-- an op all of whose calls satisfy `noArrPupil` on the current lens -/
def OpNoArr (L : Lens α) : Op α → Prop
  | .call c => noArrPupil c = true
  | .analysis a => ∀ c ∈ a.calls L, noArrPupil c = true
  | .edit _ => True

/-- **caller_arrays_unchanged_code_noarr** (the code as it stands, every carrier): a call that does
not pass a caller-owned ndarray as `Px` / `Py` writes no caller-owned array (`Hx`, `Hy` may be
caller arrays: they are only read). -/
theorem caller_arrays_unchanged_code_noarr (env : Env α) (s : St α) (op : Op α) (h : OpNoArr s.lens op) :
    (step env true s op).1.heap = s.heap := by
  cases op with
  | call c => exact stepCall_code_noarr_heap env s.lens c _ h
  | analysis a => exact runCalls_code_noarr_heap env s.lens _ _ h
  | edit f => rfl

/-- **repeated_call_equal** (either variant): whenever the first call left the caller arrays as they
were, the second of two identical non-editing calls returns the same result. -/
theorem repeated_call_equal_of_heap (env : Env α) (code : Bool) (s : St α) (op : Op α)
    (h : op.isEdit = false) (hh : (step env code s op).1.heap = s.heap) :
    (step env code (step env code s op).1 op).2 = (step env code s op).2 :=
  (result_independent_of_history env code _ s op (query_preserves_prescription env code s op h) hh).1

/-- the code as it stands is repeatable (bit for bit over `Float`) on every call without ndarray
`Px` / `Py` -/
theorem repeated_call_equal_code_noarr (env : Env α) (s : St α) (op : Op α) (h : op.isEdit = false)
    (hn : OpNoArr s.lens op) : (step env true (step env true s op).1 op).2 = (step env true s op).2 :=
  repeated_call_equal_of_heap env true s op h (caller_arrays_unchanged_code_noarr env s op hn)

/-- … and, over ℝ, on every call when the lens has no vignetting factors -/
theorem repeated_call_equal_code_zero_vig (env : Env ℝ) (hz : ZeroVig env) (s : St ℝ) (op : Op ℝ)
    (h : op.isEdit = false) : (step env true (step env true s op).1 op).2 = (step env true s op).2 :=
  repeated_call_equal_of_heap env true s op h (caller_arrays_unchanged_partial env hz s op)

/-- the hypothesis is satisfiable by the calls that matter: `Optic.trace`, every paraxial query,
`trace_generic` with scalar pupil coordinates and *array* field coordinates -/
example (Hx Hy w : α) (pts : List (α × α)) (q : Query) (p : α) :
    noArrPupil (Call.trace Hx Hy w pts) = true ∧ noArrPupil (Call.query q : Call α) = true ∧
    noArrPupil (Call.traceGeneric (.arr 0) (.arr 1) (.scalar p) (.fresh [p, p]) w) = true :=
  ⟨rfl, rfl, rfl⟩

/-! ## F. round 7: per-ray root selection, regrouping of a batch, interleavings with edits -/

open scoped Num

/-! ### F.a  `StandardGeometry.distance`: the degenerate branch is taken ray by ray -/

/-- **std_distance_selects_per_ray**: for every batch, `StandardGeometry.distance` gives each ray
the linear root `-c/b` exactly when *its own* `a` is zero, and the selected quadratic root
otherwise – whatever the other rays of the batch are (every carrier, hence bit for bit over
`Float`; a variant "if any ray has `a == 0` take the linear root for all" does not satisfy this). -/
theorem std_distance_selects_per_ray (R k : α) (rays : List (Ray α)) :
    (Geom.standard R k).distance rays = rays.map fun r =>
      if Num.isZero (conicABC R k r).1 then -(conicABC R k r).2.2 / (conicABC R k r).2.1
      else selectRootQuad (conicABC R k r).1 (conicABC R k r).2.1 (conicABC R k r).2.2 r.z r.N := by
  simp only [Geom.distance]
  apply List.map_congr_left
  intro r _
  rw [stdDistance_eq, selectRoot_eq]

/-- **std_distance_per_ray_in_batch**: the value of the ray at any position of a batch is the value
of that ray alone -/
theorem std_distance_per_ray_in_batch (R k : α) (pre post : List (Ray α)) (r : Ray α) :
    ((Geom.standard R k).distance (pre ++ r :: post))[pre.length]? = ((Geom.standard R k).distance [r]).head? := by
  simp only [Geom.distance, List.map_append, List.map_cons, List.map_nil, List.head?_cons]
  rw [List.getElem?_append_right (by simp)]
  simp

/-- **std_distance_mixed_batch**: a batch that mixes a ray with `a = 0` and a ray with `a ≠ 0`
(in either order): the first gets the linear root, the second the quadratic one. -/
theorem std_distance_mixed_batch (R k : α) (r0 r1 : Ray α)
    (h0 : Num.isZero (conicABC R k r0).1 = true) (h1 : Num.isZero (conicABC R k r1).1 = false) :
    (Geom.standard R k).distance [r0, r1] =
      [-(conicABC R k r0).2.2 / (conicABC R k r0).2.1,
       selectRootQuad (conicABC R k r1).1 (conicABC R k r1).2.1 (conicABC R k r1).2.2 r1.z r1.N] ∧
    (Geom.standard R k).distance [r1, r0] =
      [selectRootQuad (conicABC R k r1).1 (conicABC R k r1).2.1 (conicABC R k r1).2.2 r1.z r1.N,
       -(conicABC R k r0).2.2 / (conicABC R k r0).2.1] := by
  simp only [std_distance_selects_per_ray, List.map_cons, List.map_nil, h0, h1, if_true,
    Bool.false_eq_true, if_false, and_self]

/-- the hypotheses are satisfiable over ℝ: a paraboloid (`k = -1`), an axial ray (`a = 0`) and an
oblique unit ray (`a = 9/25`) -/
example : Num.isZero (conicABC (1:ℝ) (-1) ⟨0, 0, -1, 0, 0, 1, 1, 0⟩).1 = true ∧
    Num.isZero (conicABC (1:ℝ) (-1) ⟨0, 0, -1, 3/5, 0, 4/5, 1, 0⟩).1 = false := by
  constructor
  · rw [NumReal.isZero_eq]; simp only [conicABC]; num_real; norm_num
  · rw [← Bool.not_eq_true, NumReal.isZero_eq]; simp only [conicABC]; num_real; norm_num

/-! ### F.b  the whole surface loop: order and grouping of the batch -/

/-- **traceLens_per_ray**: with closed-form geometries the record of surface `j` is, ray by ray,
the ray traced alone through the surfaces `0..j` – localisation, intersection, propagation,
optical path, aperture clipping (`i := 0`), refraction/reflection and coating included, since all
of these are inside `traceRay`. -/
theorem traceLens_per_ray (w : α) (ss : List (RSurf α)) (rays : List (Ray α)) (h : AllClosed ss)
    (j : Nat) (hj : j < ss.length) :
    (traceLens w ss rays)[j]? = some (rays.map (rayThrough w (ss.take (j + 1)))) := by
  induction ss generalizing rays j with
  | nil => simp at hj
  | cons s ss ih =>
    have hs : closedForm s.geom = true := h s (by simp)
    have hss : AllClosed ss := fun t ht => h t (by simp [ht])
    cases j with
    | zero =>
      simp only [traceLens, traceSurf_eq_map s w _ hs, List.getElem?_cons_zero]
      rfl
    | succ j =>
      have hj' : j < ss.length := by simpa using hj
      simp only [traceLens, traceSurf_eq_map s w _ hs, List.getElem?_cons_succ, List.take_succ_cons]
      rw [ih _ hss j hj', List.map_map]
      rfl

/-- **batch_gather**: any regrouping of the batch (reordering, sub-batch, duplication; `gather idx`)
commutes with the whole surface loop: every per-surface record of the regrouped batch is the
regrouped record of the original batch. -/
theorem batch_gather (w : α) (ss : List (RSurf α)) (idx : List Nat) (rays : List (Ray α)) (h : AllClosed ss) :
    traceLens w ss (gather idx rays) = (traceLens w ss rays).map (gather idx) := by
  induction ss generalizing rays with
  | nil => rfl
  | cons s ss ih =>
    have hs : closedForm s.geom = true := h s (by simp)
    have hss : AllClosed ss := fun t ht => h t (by simp [ht])
    simp only [traceLens, List.map_cons, traceSurf_eq_map s w _ hs, gather_map]
    rw [ih _ hss]

/-- **batch_concat**: rays of several field points traced in one call: the records are the
concatenation, surface by surface, of the records of the separate calls. -/
theorem batch_concat (w : α) (ss : List (RSurf α)) (a b : List (Ray α)) (h : AllClosed ss) :
    traceLens w ss (a ++ b) = List.zipWith (· ++ ·) (traceLens w ss a) (traceLens w ss b) := by
  induction ss generalizing a b with
  | nil => rfl
  | cons s ss ih =>
    have hs : closedForm s.geom = true := h s (by simp)
    have hss : AllClosed ss := fun t ht => h t (by simp [ht])
    simp only [traceLens, traceSurf_append s w a b hs, List.zipWith_cons_cons]
    rw [ih _ _ hss]

/-- **batch_perm**: a permutation of the batch permutes every per-surface record -/
theorem batch_perm (w : α) (ss : List (RSurf α)) (a b : List (Ray α)) (h : AllClosed ss) (hp : a.Perm b) :
    List.Forall₂ List.Perm (traceLens w ss a) (traceLens w ss b) := by
  induction ss generalizing a b with
  | nil => exact List.Forall₂.nil
  | cons s ss ih =>
    have hs : closedForm s.geom = true := h s (by simp)
    have hss : AllClosed ss := fun t ht => h t (by simp [ht])
    simp only [traceLens, traceSurf_eq_map s w _ hs]
    exact List.Forall₂.cons (hp.map _) (ih _ _ hss (hp.map _))

/-- **group_trace_gather**: the same at the level of `SurfaceGroup.trace`: the rays returned for a
regrouped batch are the regrouped returned rays, and the per-surface records left on the lens are
the regrouped records. -/
theorem group_trace_gather (L : Lens α) (w : α) (idx : List Nat) (rays : List (Ray α)) (recs : Recs α)
    (h : AllClosed (L.real w)) :
    (groupTraceR L w (gather idx rays) recs).1 = gather idx (groupTraceR L w rays recs).1 ∧
    (groupTraceR L w (gather idx rays) recs).2 =
      (traceLens w (L.real w) rays).map fun r => Rec.real (gather idx r) := by
  simp only [groupTraceR, batch_gather w _ idx rays h, getLastD_map, groupWrite_zero, List.map_map,
    true_and]
  rfl

/-- the regrouping is not vacuous: `gather [1, 0]` swaps two rays, `gather [1]` selects the second -/
example (x y : α) : gather [1, 0] [x, y] = [y, x] ∧ gather [1] [x, y] = [y] := ⟨rfl, rfl⟩

/-! ### F.d  arbitrary interleavings of queries and edits -/

/-- **run_lens_eq_edits**: after an arbitrary history (tracing calls, queries, analyses and
edits interleaved in any way, either variant) the lens is what the edits alone, in their order,
make of it: the non-editing calls are invisible in the evolution of the prescription. -/
theorem run_lens_eq_edits (env : Env α) (code : Bool) (ops : List (Op α)) (s : St α) :
    (run env code s ops).lens = (edits ops).foldl (fun L f => f L) s.lens := by
  induction ops generalizing s with
  | nil => rfl
  | cons op ops ih =>
    have h2 := ih (step env code s op).1
    simp only [run, List.foldl_cons] at h2 ⊢
    rw [h2]
    cases op <;> rfl

/-- **result_independent_of_interleaving_spec**: two arbitrary histories with the same edits in the
same order (queries, traces and analyses interleaved differently, in different numbers), started
from states with the same lens and caller arrays: any call afterwards returns the same result
(specification variant). -/
theorem result_independent_of_interleaving_spec (env : Env α) (s₁ s₂ : St α) (h₁ h₂ : List (Op α)) (op : Op α)
    (hl : s₁.lens = s₂.lens) (hh : s₁.heap = s₂.heap) (he : edits h₁ = edits h₂) :
    (step env false (run env false s₁ h₁) op).2 = (step env false (run env false s₂ h₂) op).2 :=
  (result_independent_of_history env false _ _ op
    (by rw [run_lens_eq_edits, run_lens_eq_edits, he, hl])
    (by rw [caller_arrays_unchanged_spec_run, caller_arrays_unchanged_spec_run, hh])).1

/-- the hypothesis is satisfiable by histories that differ: a query before the edit, two after -/
example (f : Lens α → Lens α) (q : Query) :
    edits [Op.call (.query q), .edit f] = edits [Op.edit f, .call (.query q), .call (.query q)] ∧
    [Op.call (.query q), .edit f] ≠ [Op.edit f, .call (.query q), .call (.query q)] := ⟨rfl, by simp⟩

/-- an op that hands no caller-owned ndarray as `Px` / `Py` whatever the lens is at that moment -/
def OpNoArrAll (op : Op α) : Prop := ∀ L, OpNoArr L op

/-- **caller_arrays_unchanged_code_noarr_run** (the code as it stands, every carrier): along an
arbitrary interleaving of edits with calls that pass no caller-owned ndarray as `Px` / `Py`, no
caller-owned array is written. -/
theorem caller_arrays_unchanged_code_noarr_run (env : Env α) (ops : List (Op α)) (s : St α)
    (h : ∀ op ∈ ops, OpNoArrAll op) : (run env true s ops).heap = s.heap := by
  induction ops generalizing s with
  | nil => rfl
  | cons op ops ih =>
    have h2 := ih (step env true s op).1 (fun o ho => h o (by simp [ho]))
    simp only [run, List.foldl_cons] at h2 ⊢
    rw [h2, caller_arrays_unchanged_code_noarr env s op (h op (by simp) s.lens)]

/-- **result_independent_of_interleaving_code_noarr** (the code as it stands, every carrier, bit
for bit over `Float`): the same as `result_independent_of_interleaving_spec` for the tree, for
histories of edits and calls without ndarray `Px` / `Py`. -/
theorem result_independent_of_interleaving_code_noarr (env : Env α) (s₁ s₂ : St α) (h₁ h₂ : List (Op α))
    (op : Op α) (hl : s₁.lens = s₂.lens) (hh : s₁.heap = s₂.heap) (he : edits h₁ = edits h₂)
    (n₁ : ∀ o ∈ h₁, OpNoArrAll o) (n₂ : ∀ o ∈ h₂, OpNoArrAll o) :
    (step env true (run env true s₁ h₁) op).2 = (step env true (run env true s₂ h₂) op).2 :=
  (result_independent_of_history env true _ _ op
    (by rw [run_lens_eq_edits, run_lens_eq_edits, he, hl])
    (by rw [caller_arrays_unchanged_code_noarr_run env h₁ s₁ n₁,
      caller_arrays_unchanged_code_noarr_run env h₂ s₂ n₂, hh])).1

/-- the hypothesis is satisfiable: `Optic.trace`, a query, an edit -/
example (Hx Hy w : α) (pts : List (α × α)) (q : Query) (f : Lens α → Lens α) :
    ∀ o ∈ [Op.call (.trace Hx Hy w pts), .call (.query q), .edit f], OpNoArrAll o := by
  intro o ho L
  simp only [List.mem_cons, List.not_mem_nil, or_false] at ho
  rcases ho with rfl | rfl | rfl
  · show noArrPupil _ = true; rfl
  · show noArrPupil _ = true; rfl
  · trivial

/-! ### F.c  Newton–Raphson surfaces: what exactly is true of the shared loop

`nrCount` is the number of sweeps the shared loop executes.  Proved here (over ℝ, no NaN):
the count of a batch is at least the count of each of its blocks and of each of its rays
(`nrCount_mono_left/right`, `nr_ray_in_batch_steps`); if, at the sweep where a block `a` meets the
test, the rest of the batch meets it as well, the batch does to `a` exactly what `a` gets alone
(`nr_dominated_batch_agrees`), so two batches that share their slowest rays agree on them
(`nr_batches_sharing_slowest_agree`); full independence is false (`nr_not_batch_independent`);
every added sweep in which the ray still meets its own test moves it along its ray by less than
`tol/|N|` (`nr_extra_sweeps_displacement_partial`). -/

/-- the loop is `nrCount` sweeps of the per-ray iteration, the same number for every ray -/
theorem nrLoop_count (g : Geom α) (rays : List (Ray α)) (tol : α) (n : Nat) (pts : List (α × α × α)) :
    nrLoop g rays tol n pts = nrIter g rays (nrCount g rays tol n pts) pts ∧ nrCount g rays tol n pts ≤ n :=
  ⟨nrLoop_eq_count g rays tol n pts, nrCount_le g rays tol n pts⟩

/-- **nrCount_mono_left**: the first block of a batch gets at least as many sweeps as alone -/
theorem nrCount_mono_left (g : Geom ℝ) (a b : List (Ray ℝ)) (tol : ℝ) (n : Nat)
    (pa pb : List (ℝ × ℝ × ℝ)) (hl : pa.length = a.length) (hne : a ≠ []) :
    nrCount g a tol n pa ≤ nrCount g (a ++ b) tol n (pa ++ pb) := by
  induction n generalizing pa pb with
  | zero => exact Nat.le_refl 0
  | succ n ih =>
    simp only [nrCount]
    by_cases hB : Num.lt (nrSweep g (a ++ b) (pa ++ pb)).2 tol = true
    · have hA := sweep_test_mono g a b pa pb tol hl hne hB
      simp only [hA, hB, if_true]
      exact Nat.le_refl 1
    · simp only [hB, if_false, nrSweep_pts_append g a b pa pb hl]
      by_cases hA : Num.lt (nrSweep g a pa).2 tol = true
      · simp only [hA, if_true]; exact Nat.succ_le_succ (Nat.zero_le _)
      · simp only [hA, if_false]
        exact Nat.succ_le_succ (ih _ _ (nrSweep_pts_length g a pa hl))

/-- **nrCount_mono_right**: … and so does the second block -/
theorem nrCount_mono_right (g : Geom ℝ) (a b : List (Ray ℝ)) (tol : ℝ) (n : Nat)
    (pa pb : List (ℝ × ℝ × ℝ)) (hl : pa.length = a.length) (hlb : pb.length = b.length) (hne : b ≠ []) :
    nrCount g b tol n pb ≤ nrCount g (a ++ b) tol n (pa ++ pb) := by
  induction n generalizing pa pb with
  | zero => exact Nat.le_refl 0
  | succ n ih =>
    simp only [nrCount]
    by_cases hB : Num.lt (nrSweep g (a ++ b) (pa ++ pb)).2 tol = true
    · have hA := sweep_test_mono_right g a b pa pb tol hl hlb hne hB
      simp only [hA, hB, if_true]
      exact Nat.le_refl 1
    · simp only [hB, if_false, nrSweep_pts_append g a b pa pb hl]
      by_cases hA : Num.lt (nrSweep g b pb).2 tol = true
      · simp only [hA, if_true]; exact Nat.succ_le_succ (Nat.zero_le _)
      · simp only [hA, if_false]
        exact Nat.succ_le_succ (ih _ _ (nrSweep_pts_length g a pa hl) (nrSweep_pts_length g b pb hlb))

/-- **nr_ray_in_batch_steps**: a ray at any position of a batch ends at the point of `k` steps of
its own Newton iteration (`nrPt`), alone at the point of `k'` steps from the same start, and
`k' ≤ k ≤ max_iter`: every ray gets at least as many steps in a batch as alone. -/
theorem nr_ray_in_batch_steps (g : Geom ℝ) (pre post : List (Ray ℝ)) (r : Ray ℝ) (tol : ℝ) (n : Nat)
    (ppre ppost : List (ℝ × ℝ × ℝ)) (p : ℝ × ℝ × ℝ) (hl : ppre.length = pre.length)
    (hlp : ppost.length = post.length) :
    ∃ k k', k' ≤ k ∧ k ≤ n ∧
      (nrLoop g (pre ++ r :: post) tol n (ppre ++ p :: ppost))[pre.length]? = some (nrPt g r k p) ∧
      nrLoop g [r] tol n [p] = [nrPt g r k' p] := by
  refine ⟨nrCount g (pre ++ r :: post) tol n (ppre ++ p :: ppost), nrCount g [r] tol n [p], ?_,
    nrCount_le _ _ _ _ _, ?_, ?_⟩
  · have h1 := nrCount_mono_left g [r] post tol n [p] ppost rfl (by simp)
    have h2 := nrCount_mono_right g pre (r :: post) tol n ppre (p :: ppost) hl (by simp [hlp]) (by simp)
    exact Nat.le_trans h1 h2
  · rw [nrLoop_eq_count, nrIter_append g pre (r :: post) _ ppre (p :: ppost) hl,
      ← nrIter_length g pre _ ppre hl, List.getElem?_append_right (Nat.le_refl _), Nat.sub_self]
    have := nrIter_append g [r] post (nrCount g (pre ++ r :: post) tol n (ppre ++ p :: ppost)) [p] ppost rfl
    simp only [List.singleton_append] at this
    rw [this, nrIter_single]
    rfl
  · rw [nrLoop_eq_count, nrIter_single]

/-- the hypotheses are satisfiable -/
example : ([(0, 0, 0)] : List (ℝ × ℝ × ℝ)).length = ([⟨0, 0, 0, 0, 0, 1, 1, 0⟩] : List (Ray ℝ)).length := rfl

/-- **nr_dominated_batch_agrees**: if at every sweep at which the block `a` (on its own
trajectory) meets the stopping test every ray of the rest `b` has `|dz| < tol` as well – `a`
contains the slowest rays –, then the shared loop runs exactly as long as for `a` alone and the
rays of `a` end exactly where they end alone. -/
theorem nr_dominated_batch_agrees (g : Geom ℝ) (a b : List (Ray ℝ)) (tol : ℝ) (n : Nat)
    (pa pb : List (ℝ × ℝ × ℝ)) (hl : pa.length = a.length) (hne : a ≠ [])
    (hd : ∀ i < n, Num.lt (nrSweep g a (nrIter g a i pa)).2 tol = true →
      ∀ x ∈ dzs g b (nrIter g b i pb), x < tol) :
    nrCount g (a ++ b) tol n (pa ++ pb) = nrCount g a tol n pa ∧
    (nrLoop g (a ++ b) tol n (pa ++ pb)).take a.length = nrLoop g a tol n pa := by
  have hc : nrCount g (a ++ b) tol n (pa ++ pb) = nrCount g a tol n pa := by
    induction n generalizing pa pb with
    | zero => rfl
    | succ n ih =>
      simp only [nrCount]
      by_cases hA : Num.lt (nrSweep g a pa).2 tol = true
      · have hB : Num.lt (nrSweep g (a ++ b) (pa ++ pb)).2 tol = true :=
          (sweep_test_append g a b pa pb tol hl hne).mpr ⟨hA, hd 0 (Nat.succ_pos n) hA⟩
        simp only [hA, hB, if_true]
      · have hB : ¬ Num.lt (nrSweep g (a ++ b) (pa ++ pb)).2 tol = true :=
          fun h => hA ((sweep_test_append g a b pa pb tol hl hne).mp h).1
        simp only [hA, hB, if_false, nrSweep_pts_append g a b pa pb hl]
        rw [ih _ _ (nrSweep_pts_length g a pa hl) (fun i hi => hd (i + 1) (Nat.succ_lt_succ hi))]
  refine ⟨hc, ?_⟩
  rw [nrLoop_eq_count, nrLoop_eq_count, hc, nrIter_append g a b _ pa pb hl,
    ← nrIter_length g a (nrCount g a tol n pa) pa hl, List.take_left']
  rfl

/-- **nr_batches_sharing_slowest_agree**: two batches `a ++ b` and `a ++ c` that share their slowest
rays `a` give the rays of `a` the same points. -/
theorem nr_batches_sharing_slowest_agree (g : Geom ℝ) (a b c : List (Ray ℝ)) (tol : ℝ) (n : Nat)
    (pa pb pc : List (ℝ × ℝ × ℝ)) (hl : pa.length = a.length) (hne : a ≠ [])
    (hb : ∀ i < n, Num.lt (nrSweep g a (nrIter g a i pa)).2 tol = true →
      ∀ x ∈ dzs g b (nrIter g b i pb), x < tol)
    (hc : ∀ i < n, Num.lt (nrSweep g a (nrIter g a i pa)).2 tol = true →
      ∀ x ∈ dzs g c (nrIter g c i pc), x < tol) :
    (nrLoop g (a ++ b) tol n (pa ++ pb)).take a.length = (nrLoop g (a ++ c) tol n (pa ++ pc)).take a.length := by
  rw [(nr_dominated_batch_agrees g a b tol n pa pb hl hne hb).2,
    (nr_dominated_batch_agrees g a c tol n pa pc hl hne hc).2]

/-- the domination hypothesis is satisfiable: an empty rest (and, less trivially, the witness of
`nr_not_batch_independent` read the other way round) -/
example (g : Geom ℝ) (a : List (Ray ℝ)) (tol : ℝ) (n : Nat) (pa : List (ℝ × ℝ × ℝ)) :
    ∀ i < n, Num.lt (nrSweep g a (nrIter g a i pa)).2 tol = true →
      ∀ x ∈ dzs g ([] : List (Ray ℝ)) (nrIter g [] i []), x < tol := by
  intro i _ _ x hx
  simp [dzs] at hx

/-! #### full independence is false -/

/-- the sag of the even asphere `R = 1, k = -1`, no polynomial terms: the paraboloid `r²/2` -/
theorem parab_sag (t : ℝ) (m : Nat) (x y : ℝ) :
    (Geom.evenAsphere (1:ℝ) (-1) t m []).nrSag x y = (x * x + y * y) / 2 := by
  simp only [Geom.nrSag, asphSag, conicSag, List.zipIdx_nil, List.foldl_nil]
  num_real
  have e : (1:ℝ) + -1 = 0 := by norm_num
  rw [e, zero_mul, zero_div, sub_zero, Real.sqrt_one]
  norm_num

noncomputable def witG : Geom ℝ := .evenAsphere 1 (-1) 1 2 []
/-- oblique unit ray, `|dz| = 1/2 < tol = 1` at the first sweep -/
noncomputable def witA : Ray ℝ := ⟨0, 0, 0, 3/5, 0, 4/5, 1, 0⟩
/-- axial ray starting 5 above the vertex: `|dz| = 5 ≥ tol` at the first sweep, `0` at the second -/
noncomputable def witB : Ray ℝ := ⟨0, 0, 0, 0, 0, 1, 1, 0⟩

/-- **nr_not_batch_independent** (negation witness; finding: the clause "the result for one ray
does not depend on which other rays are traced in the same call" holds for Newton–Raphson surfaces
only up to the tolerance).  Paraboloid `z = r²/2`, `tol = 1`, `max_iter = 2`: the oblique ray alone
stops after one sweep at `x = 11/8`; in a batch with an axial ray that needs two sweeps it is
moved on to `x = 875/512`. -/
theorem nr_not_batch_independent :
    ¬ ∀ (g : Geom ℝ) (a b : List (Ray ℝ)) (tol : ℝ) (n : Nat) (pa pb : List (ℝ × ℝ × ℝ)),
      pa.length = a.length → pb.length = b.length →
      (nrLoop g (a ++ b) tol n (pa ++ pb)).take a.length = nrLoop g a tol n pa := by
  intro h
  have sA1 : nrStep witG witA (1, 0, 0) = ((11/8, 0, 1/2), 1/2) := by
    simp only [nrStep, witG, witA, parab_sag]; num_real; norm_num
  have sA2 : nrStep witG witA (11/8, 0, 1/2) = ((875/512, 0, 121/128), 57/128) := by
    simp only [nrStep, witG, witA, parab_sag]; num_real; norm_num
  have sB1 : nrStep witG witB (0, 0, 5) = ((0, 0, 0), 5) := by
    simp only [nrStep, witG, witB, parab_sag]; num_real; norm_num
  have sB2 : nrStep witG witB (0, 0, 0) = ((0, 0, 0), 0) := by
    simp only [nrStep, witG, witB, parab_sag]; num_real; norm_num
  have hA1 : Num.lt (nrSweep witG [witA] [(1, 0, 0)]).2 1 = true := by
    rw [NumReal.lt_eq, nrSweep_max, npMax_lt _ _ (by simp [dzs])]
    intro x hx
    simp only [dzs, List.zip_cons_cons, List.zip_nil_right, List.map_cons, List.map_nil, sA1,
      List.mem_cons, List.not_mem_nil, or_false] at hx
    rw [hx]; norm_num
  have eA : nrLoop witG [witA] 1 2 [(1, 0, 0)] = [(11/8, 0, 1/2)] := by
    show nrLoop witG [witA] 1 (1 + 1) [(1, 0, 0)] = _
    simp only [nrLoop, hA1, if_true, nrSweep_pts, List.zip_cons_cons, List.zip_nil_right, List.map_cons,
      List.map_nil, sA1]
  have hB1 : ¬ Num.lt (nrSweep witG [witA, witB] [(1, 0, 0), (0, 0, 5)]).2 1 = true := by
    rw [NumReal.lt_eq, nrSweep_max, npMax_lt _ _ (by simp [dzs])]
    intro hx
    have := hx 5 (by simp [dzs, sB1])
    norm_num at this
  have E1 : (nrSweep witG [witA, witB] [(1, 0, 0), (0, 0, 5)]).1 = [(11/8, 0, 1/2), (0, 0, 0)] := by
    simp only [nrSweep_pts, List.zip_cons_cons, List.zip_nil_right, List.map_cons, List.map_nil, sA1, sB1]
  have hB2 : Num.lt (nrSweep witG [witA, witB] [(11/8, 0, 1/2), (0, 0, 0)]).2 1 = true := by
    rw [NumReal.lt_eq, nrSweep_max, npMax_lt _ _ (by simp [dzs])]
    intro x hx
    simp only [dzs, List.zip_cons_cons, List.zip_nil_right, List.map_cons, List.map_nil, sA2, sB2,
      List.mem_cons, List.not_mem_nil, or_false] at hx
    rcases hx with rfl | rfl <;> norm_num
  have E2 : (nrSweep witG [witA, witB] [(11/8, 0, 1/2), (0, 0, 0)]).1 = [(875/512, 0, 121/128), (0, 0, 0)] := by
    simp only [nrSweep_pts, List.zip_cons_cons, List.zip_nil_right, List.map_cons, List.map_nil, sA2, sB2]
  have eB : nrLoop witG [witA, witB] 1 2 [(1, 0, 0), (0, 0, 5)] = [(875/512, 0, 121/128), (0, 0, 0)] := by
    show nrLoop witG [witA, witB] 1 (1 + 1) [(1, 0, 0), (0, 0, 5)] = _
    simp only [nrLoop, hB1, Bool.false_eq_true, if_false, E1, hB2, if_true, E2]
  have := h witG [witA] [witB] 1 2 [(1, 0, 0)] [(0, 0, 5)] rfl rfl
  simp only [List.cons_append, List.nil_append] at this
  rw [eA, eB] at this
  simp at this
  norm_num at this

/-! #### how far the added sweeps can move a ray -/

/-- **nr_extra_sweeps_displacement_partial**.  Full statement (numerical only): the points a ray
gets in a batch and alone differ by at most `tol / |N|`.  Proved part: `m` further sweeps move the
point along its own ray, `p ↦ p + t·(L, M, N)`, with `|t| ≤ m · tol / |N|` (`|t|` is the Euclidean
displacement for a unit direction) *provided* the ray meets its own test `|dz| < tol` in each of
them.  Missing: that a ray which has met the test keeps meeting it and that the `|dz|` contract
(convergence of the Newton iteration), which would replace `m · tol` by a multiple of `tol`
independent of `m`. -/
theorem nr_extra_sweeps_displacement_partial (g : Geom ℝ) (r : Ray ℝ) (tol : ℝ) (hN : r.N ≠ 0) (m : Nat)
    (p : ℝ × ℝ × ℝ) (hz : ∀ j < m, (nrStep g r (nrPt g r j p)).2 < tol) :
    ∃ t : ℝ, nrPt g r m p = (p.1 + t * r.L, p.2.1 + t * r.M, p.2.2 + t * r.N) ∧
      |t| ≤ m * (tol / |r.N|) := by
  induction m generalizing p with
  | zero => exact ⟨0, by simp [nrPt], by simp⟩
  | succ m ih =>
    obtain ⟨t', e', b'⟩ := ih (nrStep g r p).1 (fun j hj => hz (j + 1) (Nat.succ_lt_succ hj))
    have h0 : (nrStep g r p).2 < tol := hz 0 (Nat.succ_pos m)
    have e1 : (nrStep g r p).1 = (p.1 + -((p.2.2 - g.nrSag p.1 p.2.1) / r.N) * r.L,
        p.2.1 + -((p.2.2 - g.nrSag p.1 p.2.1) / r.N) * r.M,
        p.2.2 + -((p.2.2 - g.nrSag p.1 p.2.1) / r.N) * r.N) := by
      simp only [nrStep]
      num_real
      simp only [Prod.mk.injEq]
      exact ⟨by ring, by ring, by ring⟩
    have h0' : |p.2.2 - g.nrSag p.1 p.2.1| < tol := by
      simp only [nrStep] at h0
      num_real
      exact h0
    refine ⟨-((p.2.2 - g.nrSag p.1 p.2.1) / r.N) + t', ?_, ?_⟩
    · show nrPt g r m (nrStep g r p).1 = _
      rw [e', e1]
      simp only [Prod.mk.injEq]
      exact ⟨by ring, by ring, by ring⟩
    · have hNp : 0 < |r.N| := abs_pos.mpr hN
      have ht0 : |-((p.2.2 - g.nrSag p.1 p.2.1) / r.N)| ≤ tol / |r.N| := by
        rw [abs_neg, abs_div]
        exact div_le_div_of_nonneg_right (le_of_lt h0') (le_of_lt hNp)
      calc |-((p.2.2 - g.nrSag p.1 p.2.1) / r.N) + t'|
          ≤ |-((p.2.2 - g.nrSag p.1 p.2.1) / r.N)| + |t'| := abs_add_le _ _
        _ ≤ tol / |r.N| + m * (tol / |r.N|) := add_le_add ht0 b'
        _ = ((m + 1 : ℕ) : ℝ) * (tol / |r.N|) := by push_cast; ring

/-- the hypotheses are satisfiable: the oblique ray of the witness above, one further sweep -/
example : witA.N ≠ 0 ∧ ∀ j < 1, (nrStep witG witA (nrPt witG witA j (11/8, 0, 1/2))).2 < 1 := by
  refine ⟨by simp only [witA]; norm_num, ?_⟩
  intro j hj
  have : j = 0 := by omega
  subst this
  simp only [nrPt, nrStep, witG, witA, parab_sag]
  num_real
  norm_num

/-! #### order of the batch on Newton–Raphson surfaces -/

/-- the stopping test of one sweep does not depend on the order of the two blocks -/
theorem sweep_test_swap (g : Geom ℝ) (a b : List (Ray ℝ)) (pa pb : List (ℝ × ℝ × ℝ)) (tol : ℝ)
    (hl : pa.length = a.length) (hlb : pb.length = b.length) :
    (Num.lt (nrSweep g (a ++ b) (pa ++ pb)).2 tol = true) ↔ (Num.lt (nrSweep g (b ++ a) (pb ++ pa)).2 tol = true) := by
  by_cases ha : a = []
  · subst ha
    have : pa = [] := List.length_eq_zero_iff.mp hl
    subst this
    simp only [List.nil_append, List.append_nil]
  by_cases hb : b = []
  · subst hb
    have : pb = [] := List.length_eq_zero_iff.mp hlb
    subst this
    simp only [List.nil_append, List.append_nil]
  rw [sweep_test_append g a b pa pb tol hl ha, sweep_test_append g b a pb pa tol hlb hb,
    NumReal.lt_eq, NumReal.lt_eq, nrSweep_max, nrSweep_max]
  have hA : dzs g a pa ≠ [] := by
    cases a with
    | nil => exact absurd rfl ha
    | cons r a =>
      cases pa with
      | nil => simp at hl
      | cons p pa => simp [dzs]
  have hB : dzs g b pb ≠ [] := by
    cases b with
    | nil => exact absurd rfl hb
    | cons r b =>
      cases pb with
      | nil => simp at hlb
      | cons p pb => simp [dzs]
  rw [npMax_lt _ _ hA, npMax_lt _ _ hB]
  exact And.comm

/-- **nr_block_position_irrelevant**: on a Newton–Raphson surface the shared loop runs equally
long whichever block of the batch comes first, and a block of rays gets the same points whether
it is traced before or after the others (order of field points / of the rays in one call). -/
theorem nr_block_position_irrelevant (g : Geom ℝ) (a b : List (Ray ℝ)) (tol : ℝ) (n : Nat)
    (pa pb : List (ℝ × ℝ × ℝ)) (hl : pa.length = a.length) (hlb : pb.length = b.length) :
    nrCount g (a ++ b) tol n (pa ++ pb) = nrCount g (b ++ a) tol n (pb ++ pa) ∧
    (nrLoop g (a ++ b) tol n (pa ++ pb)).take a.length = (nrLoop g (b ++ a) tol n (pb ++ pa)).drop b.length := by
  have hc : nrCount g (a ++ b) tol n (pa ++ pb) = nrCount g (b ++ a) tol n (pb ++ pa) := by
    induction n generalizing pa pb with
    | zero => rfl
    | succ n ih =>
      simp only [nrCount]
      by_cases hT : Num.lt (nrSweep g (a ++ b) (pa ++ pb)).2 tol = true
      · have hT' := (sweep_test_swap g a b pa pb tol hl hlb).mp hT
        simp only [hT, hT', if_true]
      · have hT' : ¬ Num.lt (nrSweep g (b ++ a) (pb ++ pa)).2 tol = true :=
          fun h => hT ((sweep_test_swap g a b pa pb tol hl hlb).mpr h)
        simp only [hT, hT', if_false, nrSweep_pts_append g a b pa pb hl, nrSweep_pts_append g b a pb pa hlb]
        rw [ih _ _ (nrSweep_pts_length g a pa hl) (nrSweep_pts_length g b pb hlb)]
  refine ⟨hc, ?_⟩
  rw [nrLoop_eq_count, nrLoop_eq_count, hc, nrIter_append g a b _ pa pb hl, nrIter_append g b a _ pb pa hlb,
    ← nrIter_length g a (nrCount g (b ++ a) tol n (pb ++ pa)) pa hl, List.take_left',
    ← nrIter_length g b (nrCount g (b ++ a) tol n (pb ++ pa)) pb hlb, List.drop_left']
  · rfl
  · rfl

/-- the hypotheses are satisfiable: the two rays of the witness above -/
example : ([(1, 0, 0)] : List (ℝ × ℝ × ℝ)).length = [witA].length ∧
    ([(0, 0, 5)] : List (ℝ × ℝ × ℝ)).length = [witB].length := ⟨rfl, rfl⟩

end C13
