import OptiModel.Proofs.Effects
import OptiModel.Proofs.NumReal
import Mathlib.Tactic.Ring
import Mathlib.Tactic.Linarith
import Mathlib.Tactic.FieldSimp
import Mathlib.Tactic.NormNum
/-!
# C13  Tracing and analysis are repeatable and free of side effects

Theorems about `Model/Effects.lean` (state machine `St = (lens, records, heap)`) and about the
batch structure of the real tracer `Model/Real.lean`.  Everything that does not involve
arithmetic is proved for an arbitrary carrier `α` with `[Num α]` – in particular for `Float`,
the carrier the driver runs, so that "bit-identical" is literally what is proved there.
-/
namespace C13
open Model hiding Op step
open Model.Fx

variable {α : Type} [Num α]

/-! ## A. paraxial queries -/

/-- **paraxial_query_is_pure**: every `Paraxial` query, executed against arbitrary records (forward
traces overwrite the lens' own records after `reset`, reverse traces run on the deep copy made by
`inverted`), returns the pure function of the prescription of `Model/Parax.lean` (C04). -/
theorem paraxial_query_is_pure (S : PSys α) (q : Query) (recs : Recs α) :
    (queryM S q recs).1 = queryPure S q := queryM_val S q recs

/-- a query made of reverse traces only (here `f1`) leaves the records of the lens untouched -/
theorem reverse_query_keeps_records (S : PSys α) (recs : Recs α) : (f1M S recs).2 = recs := by
  simp only [f1M, tgM_recs_rev]

/-! ## C. batch independence of the real tracer -/

/-- every surface of the list has a closed-form intersection (plane / conic) -/
def AllClosed (ss : List (RSurf α)) : Prop := ∀ s ∈ ss, closedForm s.geom = true

/-- **batch_independence** (first block).  With closed-form geometries the per-surface records of
the rays `a`, traced together with any other rays `b`, are the records of `a` traced alone –
for every carrier, hence bit for bit over `Float`. -/
theorem batch_independence (w : α) (ss : List (RSurf α)) (a b : List (Ray α)) (h : AllClosed ss) :
    (traceLens w ss (a ++ b)).map (List.take a.length) = traceLens w ss a := by
  induction ss generalizing a b with
  | nil => rfl
  | cons s ss ih =>
    have hs : closedForm s.geom = true := h s (by simp)
    have hss : AllClosed ss := fun t ht => h t (by simp [ht])
    simp only [traceLens, List.map_cons, traceSurf_append s w a b hs]
    have hl := traceSurf_length s w a hs
    rw [← hl, List.take_left', ih _ _ hss]
    rfl

/-- **batch_independence** (second block): the rays traced *after* others in the same call -/
theorem batch_independence_drop (w : α) (ss : List (RSurf α)) (a b : List (Ray α)) (h : AllClosed ss) :
    (traceLens w ss (a ++ b)).map (List.drop a.length) = traceLens w ss b := by
  induction ss generalizing a b with
  | nil => rfl
  | cons s ss ih =>
    have hs : closedForm s.geom = true := h s (by simp)
    have hss : AllClosed ss := fun t ht => h t (by simp [ht])
    simp only [traceLens, List.map_cons, traceSurf_append s w a b hs]
    have hl := traceSurf_length s w a hs
    rw [← hl, List.drop_left', ih _ _ hss]
    rfl

/-- **batch_independence** for one ray anywhere in a batch: its record at every surface is the
record of that ray traced alone -/
theorem batch_independence_single (w : α) (ss : List (RSurf α)) (pre post : List (Ray α)) (r : Ray α)
    (h : AllClosed ss) :
    (traceLens w ss (pre ++ r :: post)).map (fun rs => (rs.drop pre.length).take 1) = traceLens w ss [r] := by
  have h1 := batch_independence_drop w ss pre (r :: post) h
  have h2 := batch_independence w ss [r] post h
  rw [← h2, List.singleton_append, ← h1, List.map_map]
  rfl

/-- the hypothesis is satisfiable: a plane and a conic surface -/
example (z o : α) : AllClosed [(⟨.standard, ⟨z, z, z, z, z, z⟩, .plane, o, o, z, false, none, none⟩ : RSurf α),
    ⟨.standard, ⟨z, z, z, z, z, z⟩, .standard o z, o, o, z, false, none, none⟩] := by
  intro s hs
  simp only [List.mem_cons, List.not_mem_nil, or_false] at hs
  rcases hs with rfl | rfl <;> rfl

/-! ### Newton–Raphson geometries: what the other rays of a batch decide

`NewtonRaphsonGeometry.distance` stops when `max |dz| < tol` over the *whole batch*.  Each sweep
acts on every ray separately (`nrSweep_pts`), so the batch only decides *how many* sweeps all
rays receive (`nrLoop_eq_iter`): a ray traced with others receives at least as many steps as when
traced alone.  Each further step moves the point along its own ray (`nrStep_on_ray`) by exactly
`|dz| / |N|` (`nrStep_displacement`), which is below `tol / |N|` once the ray has met the
stopping test (`nrStep_displacement_lt`).

Over ℝ (no NaN) the count can only grow with the batch: `nr_alone_stops_no_later` (`k_alone ≤ k_batch`).

Full statement (not proved; numerical only): for every ray, the points found in a batch and alone
differ by at most `tol / |N|`.  Missing: convergence of the Newton iteration (contraction of
`|dz|` under the further steps, so that the added displacements stay below the first one), and
the NaN case of the float `np.max` (a NaN ray keeps the whole batch iterating to `max_iter`). -/

/-- the loop is `k` sweeps for some `k ≤ max_iter`: the same `k` for every ray of the batch -/
theorem nrLoop_eq_iter (g : Geom α) (rays : List (Ray α)) (tol : α) (n : Nat) (pts : List (α × α × α)) :
    ∃ k, k ≤ n ∧ nrLoop g rays tol n pts = nrIter g rays k pts := by
  induction n generalizing pts with
  | zero => exact ⟨0, Nat.le_refl 0, rfl⟩
  | succ n ih =>
    simp only [nrLoop]
    by_cases hm : Num.lt (nrSweep g rays pts).2 tol = true
    · exact ⟨1, Nat.succ_le_succ (Nat.zero_le n), by simp only [hm, if_true, nrIter]⟩
    · obtain ⟨k, hk, e⟩ := ih (nrSweep g rays pts).1
      exact ⟨k + 1, Nat.succ_le_succ hk, by simp only [hm, if_false, nrIter, e]; rfl⟩

/-- **batch_independence_nr_partial**: in a batch `a ++ b` the rays `a` end at the points of
`k` Newton steps, alone at the points of `k'` Newton steps of the *same* per-ray iteration from
the same start; only the counts `k, k' ≤ max_iter` differ (`k` is decided by all of `a ++ b`). -/
theorem batch_independence_nr_partial (g : Geom α) (a b : List (Ray α)) (tol : α) (n : Nat)
    (pa pb : List (α × α × α)) (hl : pa.length = a.length) :
    ∃ k k', k ≤ n ∧ k' ≤ n ∧
      (nrLoop g (a ++ b) tol n (pa ++ pb)).take a.length = nrIter g a k pa ∧
      nrLoop g a tol n pa = nrIter g a k' pa := by
  obtain ⟨k, hk, e⟩ := nrLoop_eq_iter g (a ++ b) tol n (pa ++ pb)
  obtain ⟨k', hk', e'⟩ := nrLoop_eq_iter g a tol n pa
  refine ⟨k, k', hk, hk', ?_, e'⟩
  rw [e, nrIter_append g a b k pa pb hl, ← nrIter_length g a k pa hl, List.take_left']
  rfl

/-! ## B. frame condition and independence of history -/

/-- **query_preserves_prescription**: a call that is not an editing operation leaves the lens
(prescription, fields, wavelengths-dependent media, aperture) exactly as it was.
*By construction of the model*: `step` returns `s.lens` unchanged for `.call` and `.analysis` (the
proof is `rfl`), so this theorem adds nothing to the definition of `Model.Fx.step`; that the Python
calls have this frame property is established only by the conformance run (`optic.to_dict()` before
and after every call, `harness/c13.py`), not by a proof. -/
theorem query_preserves_prescription (env : Env α) (code : Bool) (s : St α) (op : Op α)
    (h : op.isEdit = false) : (step env code s op).1.lens = s.lens := by
  cases op with
  | call c => rfl
  | analysis a => rfl
  | edit f => simp [Op.isEdit] at h

/-- … and so does every interleaving of such calls -/
theorem query_preserves_prescription_run (env : Env α) (code : Bool) (ops : List (Op α)) (s : St α)
    (h : ∀ op ∈ ops, op.isEdit = false) : (run env code s ops).lens = s.lens := by
  induction ops generalizing s with
  | nil => rfl
  | cons op ops ih =>
    have h1 := query_preserves_prescription env code s op (h op (by simp))
    have h2 := ih (step env code s op).1 (fun o ho => h o (by simp [ho]))
    simp only [run, List.foldl_cons] at h2 ⊢
    rw [h2, h1]

/-- **result_independent_of_history**: on the same lens and with the same caller arrays the value
returned by a call, and the caller arrays afterwards, are the same whatever was traced before
(the records component is arbitrary on both sides).  Reason, visible in the proof: every forward
trace starts with `reset`, reverse traces work on a copy, results are read after the overwrite. -/
theorem result_independent_of_history (env : Env α) (code : Bool) (s₁ s₂ : St α) (op : Op α)
    (hl : s₁.lens = s₂.lens) (hh : s₁.heap = s₂.heap) :
    (step env code s₁ op).2 = (step env code s₂ op).2 ∧
    (step env code s₁ op).1.heap = (step env code s₂ op).1.heap := by
  cases op with
  | call c =>
    obtain ⟨hv, hp, _⟩ := stepCall_indep env code s₂.lens c s₁.records s₂.records s₂.heap
    simp only [step, hl, hh]
    exact ⟨hv, hp⟩
  | analysis a =>
    obtain ⟨hv, hp⟩ := runCalls_indep env code s₂.lens (a.calls s₂.lens) s₁.records s₂.records s₂.heap
    simp only [step, hl, hh]
    exact ⟨by rw [hv], hp⟩
  | edit f => simp only [step, hh, and_self]

/-- the records left by a tracing call are a function of lens, arguments and caller arrays -/
theorem records_independent_of_history (env : Env α) (code : Bool) (s₁ s₂ : St α) (c : Call α)
    (hl : s₁.lens = s₂.lens) (hh : s₁.heap = s₂.heap) (hc : c.exposes = true)
    (he : (step env code s₁ (.call c)).2.err = false) :
    (step env code s₁ (.call c)).1.records = (step env code s₂ (.call c)).1.records := by
  obtain ⟨_, _, hr⟩ := stepCall_indep env code s₂.lens c s₁.records s₂.records s₂.heap
  simp only [step, hl, hh] at he ⊢
  exact hr hc he

/-- the hypotheses are satisfiable: `Optic.trace` exposes its records and does not raise -/
example (env : Env α) (code : Bool) (s : St α) (Hx Hy w : α) (pts : List (α × α)) :
    (Call.trace Hx Hy w pts).exposes = true ∧ (step env code s (.call (.trace Hx Hy w pts))).2.err = false :=
  ⟨rfl, rfl⟩

/-! ## D. caller-owned arrays -/

/-- **caller_arrays_unchanged** (specification variant, `code = false`): no call writes a
caller-owned array.  The variant `code = false` of `scaleArg` returns the heap it was given, so this
restates the definition of the specification variant; the statements about the tree are
`caller_arrays_unchanged_code_noarr`, `caller_arrays_unchanged_partial` and the negation witness
`caller_arrays_changed_code` below. -/
theorem caller_arrays_unchanged_spec (env : Env α) (s : St α) (op : Op α) :
    (step env false s op).1.heap = s.heap := by
  cases op with
  | call c => exact stepCall_spec_heap env s.lens c _
  | analysis a => exact runCalls_spec_heap env s.lens _ _
  | edit f => rfl

theorem caller_arrays_unchanged_spec_run (env : Env α) (ops : List (Op α)) (s : St α) :
    (run env false s ops).heap = s.heap := by
  induction ops generalizing s with
  | nil => rfl
  | cons op ops ih =>
    have h2 := ih (step env false s op).1
    simp only [run, List.foldl_cons] at h2 ⊢
    rw [h2, caller_arrays_unchanged_spec]

/-- repeated identical calls return equal results (specification variant): consequence of the
three theorems above -/
theorem repeated_call_equal_spec (env : Env α) (s : St α) (op : Op α) (h : op.isEdit = false) :
    (step env false (step env false s op).1 op).2 = (step env false s op).2 :=
  (result_independent_of_history env false _ s op (query_preserves_prescription env false s op h)
    (caller_arrays_unchanged_spec env s op)).1

/-- the same with any non-editing calls in between -/
theorem repeated_call_equal_spec_run (env : Env α) (s : St α) (op : Op α) (between : List (Op α))
    (h : ∀ o ∈ between, o.isEdit = false) :
    (step env false (run env false s between) op).2 = (step env false s op).2 :=
  (result_independent_of_history env false _ s op (query_preserves_prescription_run env false between s h)
    (caller_arrays_unchanged_spec_run env between s)).1

/-! ### the code as it stands (`code = true`), over ℝ -/

/-- **caller_arrays_unchanged_partial** (the code as it stands).  Full statement, false for the
tree (see `caller_arrays_changed_code`): `∀ env s op, (step env true s op).1.heap = s.heap`.
Proved part: it holds when the vignetting factors at the requested field are zero – the in-place
product then multiplies by `1 - 0`.  Missing: the case of a non-zero factor, where the tree
writes the caller's array (finding F3). -/
theorem caller_arrays_unchanged_partial (env : Env ℝ) (hz : ZeroVig env) (s : St ℝ) (op : Op ℝ) :
    (step env true s op).1.heap = s.heap := by
  cases op with
  | call c => exact stepCall_code_zero_heap env hz s.lens c _
  | analysis a => exact runCalls_code_zero_heap env hz s.lens _ _
  | edit f => rfl

/-- the hypothesis is satisfiable -/
example : ZeroVig (⟨fun _ _ _ => ([0], [0]), fun _ _ => []⟩ : Env ℝ) := fun _ _ _ => rfl

/-- the lens used by the witness below (contents irrelevant) -/
noncomputable def witnessLens : Lens ℝ := ⟨⟨[], .EPD, 1, .angle, 0, true⟩, [], fun _ => []⟩

/-- **caller_arrays_changed_code** (negation witness, F3): with vignetting factor 1/2 the call
`trace_generic(0, 0, Px, 0, w)` with `Px = array([1.])` leaves the caller's array at `[0.5]`. -/
theorem caller_arrays_changed_code :
    ∃ (env : Env ℝ) (s : St ℝ) (op : Op ℝ), op.isEdit = false ∧ (step env true s op).1.heap ≠ s.heap := by
  refine ⟨⟨fun _ _ _ => ([1/2], [0]), fun _ _ => []⟩, ⟨witnessLens, [], [[1]]⟩,
    .call (.traceGeneric (.scalar 0) (.scalar 0) (.arr 0) (.scalar 0) 1), rfl, ?_⟩
  have e : (step (⟨fun _ _ _ => ([1/2], [0]), fun _ _ => []⟩ : Env ℝ) true ⟨witnessLens, [], [[1]]⟩
      (.call (.traceGeneric (.scalar 0) (.scalar 0) (.arr 0) (.scalar 0) 1))).1.heap = [[1 * (1 - 1/2)]] := by
    simp only [step, stepCall, traceGenericM, scaleArg, if_true, Arg.read, mulB, List.getD_cons_zero,
      List.set_cons_zero, List.map_cons, List.map_nil]
  rw [e]
  intro hc
  have : (1 : ℝ) * (1 - 1/2) = 1 := by
    simpa using hc
  norm_num at this

/-- … and the second of two identical calls then launches different rays: the effective pupil
coordinate handed to the generator is `0.25`, not `0.5` (repeatability is lost as well). -/
theorem repeated_call_sees_changed_array :
    let env : Env ℝ := ⟨fun _ _ _ => ([1/2], [0]), fun _ g => g.px.map fun p => ⟨p, 0, 0, 0, 0, 1, 1, 0⟩⟩
    let s : St ℝ := ⟨witnessLens, [], [[1]]⟩
    let op : Op ℝ := .call (.traceGeneric (.scalar 0) (.scalar 0) (.arr 0) (.scalar 0) 1)
    (step env true (step env true s op).1 op).2.rays ≠ (step env true s op).2.rays := by
  intro env s op
  have e1 : (step env true s op).2.rays = [⟨1 * (1 - 1/2), 0, 0, 0, 0, 1, 1, 0⟩] := by
    simp only [env, s, op, step, stepCall, traceGenericM, scaleArg, if_true, Arg.read, mulB, List.getD_cons_zero,
      List.set_cons_zero, List.map_cons, List.map_nil, genM, groupTraceR, witnessLens, traceLens,
      List.getLastD, bcast]
    num_real
    rfl
  have e2 : (step env true (step env true s op).1 op).2.rays = [⟨1 * (1 - 1/2) * (1 - 1/2), 0, 0, 0, 0, 1, 1, 0⟩] := by
    simp only [env, s, op, step, stepCall, traceGenericM, scaleArg, if_true, Arg.read, mulB, List.getD_cons_zero,
      List.set_cons_zero, List.map_cons, List.map_nil, genM, groupTraceR, witnessLens, traceLens,
      List.getLastD, bcast]
    num_real
    rfl
  rw [e1, e2]
  intro hc
  have := congrArg (fun l => (l.map (·.x))) hc
  simp at this
  norm_num at this

/-- **nr_alone_stops_no_later** (over ℝ, where `np.max` has no NaN to propagate): a non-empty set
of rays `a` traced within a batch `a ++ b` receives `k` Newton sweeps, traced alone `k'` sweeps of
the same per-ray iteration from the same start, and `k' ≤ k ≤ max_iter`: the other rays of the
batch can only *add* iterations.  Together with `nrStep_displacement_lt` every added sweep moves
the point along its ray by less than `tol / |N|` as long as the ray still meets the test. -/
theorem nr_alone_stops_no_later (g : Geom ℝ) (a b : List (Ray ℝ)) (tol : ℝ) (n : Nat)
    (pa pb : List (ℝ × ℝ × ℝ)) (hl : pa.length = a.length) (hne : a ≠ []) :
    ∃ k k', k' ≤ k ∧ k ≤ n ∧
      (nrLoop g (a ++ b) tol n (pa ++ pb)).take a.length = nrIter g a k pa ∧
      nrLoop g a tol n pa = nrIter g a k' pa := by
  induction n generalizing pa pb with
  | zero =>
    refine ⟨0, 0, Nat.le_refl 0, Nat.le_refl 0, ?_, rfl⟩
    simp only [nrLoop, nrIter, ← hl, List.take_left']
  | succ n ih =>
    have take_iter : ∀ k, (nrIter g (a ++ b) k (pa ++ pb)).take a.length = nrIter g a k pa := by
      intro k
      rw [nrIter_append g a b k pa pb hl, ← nrIter_length g a k pa hl, List.take_left']
      rfl
    by_cases hA : Num.lt (nrSweep g a pa).2 tol = true
    · -- alone: stops after this sweep
      have eA : nrLoop g a tol (n + 1) pa = nrIter g a 1 pa := by
        simp only [nrLoop, hA, if_true, nrIter]
      by_cases hB : Num.lt (nrSweep g (a ++ b) (pa ++ pb)).2 tol = true
      · refine ⟨1, 1, Nat.le_refl 1, Nat.succ_le_succ (Nat.zero_le n), ?_, eA⟩
        have : nrLoop g (a ++ b) tol (n + 1) (pa ++ pb) = nrIter g (a ++ b) 1 (pa ++ pb) := by
          simp only [nrLoop, hB, if_true, nrIter]
        rw [this, take_iter]
      · obtain ⟨k, hk, e⟩ := nrLoop_eq_iter g (a ++ b) tol n (nrSweep g (a ++ b) (pa ++ pb)).1
        refine ⟨k + 1, 1, Nat.succ_le_succ (Nat.zero_le k), Nat.succ_le_succ hk, ?_, eA⟩
        have : nrLoop g (a ++ b) tol (n + 1) (pa ++ pb) = nrIter g (a ++ b) (k + 1) (pa ++ pb) := by
          simp only [nrLoop, hB, if_false, nrIter, e]; rfl
        rw [this, take_iter]
    · -- alone: continues; then the batch continues as well
      have hB : ¬ Num.lt (nrSweep g (a ++ b) (pa ++ pb)).2 tol = true :=
        fun h => hA (sweep_test_mono g a b pa pb tol hl hne h)
      obtain ⟨k, k', hkk, hk, e1, e2⟩ := ih (nrSweep g a pa).1 (nrSweep g b pb).1 (nrSweep_pts_length g a pa hl)
      refine ⟨k + 1, k' + 1, Nat.succ_le_succ hkk, Nat.succ_le_succ hk, ?_, ?_⟩
      · simp only [nrLoop, hB, if_false, nrSweep_pts_append g a b pa pb hl, nrIter]
        exact e1
      · simp only [nrLoop, hA, if_false, nrIter]
        exact e2

/-- the hypotheses are satisfiable: one ray with its start point -/
example : ([(0, 0, 0)] : List (ℝ × ℝ × ℝ)).length = ([⟨0, 0, 0, 0, 0, 1, 1, 0⟩] : List (Ray ℝ)).length ∧
    ([⟨0, 0, 0, 0, 0, 1, 1, 0⟩] : List (Ray ℝ)) ≠ [] := ⟨rfl, by simp⟩

/-! ### one Newton–Raphson step over ℝ -/

/-- the new point lies on the ray through the old point -/
theorem nrStep_on_ray (g : Geom ℝ) (r : Ray ℝ) (p : ℝ × ℝ × ℝ) :
    ∃ t : ℝ, (nrStep g r p).1 = (p.1 + t * r.L, p.2.1 + t * r.M, p.2.2 + t * r.N) := by
  refine ⟨-((p.2.2 - g.nrSag p.1 p.2.1) / r.N), ?_⟩
  simp only [nrStep]
  num_real
  simp only [Prod.mk.injEq]
  refine ⟨by ring, by ring, by ring⟩

/-- it moves the point by exactly `|dz| / |N|` for a unit direction.  (`hN` is not used by the proof:
over ℝ the equation also holds at `N = 0` because `dz / 0 = 0` on both sides, whereas the code
divides by zero there (`inf`/`nan`); the guard keeps the statement to what it means for the code.) -/
theorem nrStep_displacement (g : Geom ℝ) (r : Ray ℝ) (p : ℝ × ℝ × ℝ) (hu : r.L^2 + r.M^2 + r.N^2 = 1)
    (_hN : r.N ≠ 0) :
    ((nrStep g r p).1.1 - p.1)^2 + ((nrStep g r p).1.2.1 - p.2.1)^2 + ((nrStep g r p).1.2.2 - p.2.2)^2
      = ((p.2.2 - g.nrSag p.1 p.2.1) / r.N)^2 := by
  simp only [nrStep]
  num_real
  have : ∀ d : ℝ, (p.1 - d * r.L - p.1)^2 + (p.2.1 - d * r.M - p.2.1)^2 + (p.2.2 - d * r.N - p.2.2)^2
      = d^2 * (r.L^2 + r.M^2 + r.N^2) := by intro d; ring
  rw [this, hu, mul_one]

/-- … hence by less than `tol / |N|` once the ray itself meets the stopping test `|dz| < tol` -/
theorem nrStep_displacement_lt (g : Geom ℝ) (r : Ray ℝ) (p : ℝ × ℝ × ℝ) (tol : ℝ)
    (hu : r.L^2 + r.M^2 + r.N^2 = 1) (hN : r.N ≠ 0) (hz : (nrStep g r p).2 < tol) :
    ((nrStep g r p).1.1 - p.1)^2 + ((nrStep g r p).1.2.1 - p.2.1)^2 + ((nrStep g r p).1.2.2 - p.2.2)^2
      < (tol / r.N)^2 := by
  rw [nrStep_displacement g r p hu hN]
  simp only [nrStep] at hz
  num_real
  rw [div_pow, div_pow]
  have hN2 : 0 < r.N^2 := by positivity
  apply div_lt_div_of_pos_right _ hN2
  have h0 : 0 ≤ |p.2.2 - g.nrSag p.1 p.2.1| := abs_nonneg _
  calc (p.2.2 - g.nrSag p.1 p.2.1)^2 = |p.2.2 - g.nrSag p.1 p.2.1|^2 := (sq_abs _).symm
    _ < tol^2 := by nlinarith

example : ∃ (g : Geom ℝ) (r : Ray ℝ) (p : ℝ × ℝ × ℝ) (tol : ℝ),
    r.L^2 + r.M^2 + r.N^2 = 1 ∧ r.N ≠ 0 ∧ (nrStep g r p).2 < tol :=
  ⟨.plane, ⟨0, 0, 0, 0, 0, 1, 1, 0⟩, (0, 0, 0), 1, by norm_num, by norm_num, by
    simp only [nrStep, Geom.nrSag]; num_real; norm_num⟩

/-! ## E. the code as it stands (`code = true`), every carrier: which calls are safe

Added by the review: sections B/D prove repeatability only for the specification variant
(`code = false`).  For the tree (`code = true`) the only place where a caller-owned array is
written is `trace_generic` with an ndarray `Px` or `Py`; every other call (and every analysis that
issues only such calls) leaves the heap alone and is therefore repeatable bit for bit – for every
carrier, in particular `Float`. -/

variable {α : Type} [Num α]

/-- the call hands no caller-owned array as `Px` / `Py` (scalars, or arrays the callee allocated) -/
def noArrPupil : Call α → Bool
  | .traceGeneric _ _ (.arr _) _ _ => false
  | .traceGeneric _ _ _ (.arr _) _ => false
  | _ => true

theorem stepCall_code_noarr_heap (env : Env α) (L : Lens α) (c : Call α) (st : Recs α × Heap α)
    (h : noArrPupil c = true) : (stepCall env true L c st).2.2 = st.2 := by
  cases c with
  | trace Hx Hy w pts => rfl
  | query q => rfl
  | paraxTrace Hy Py => rfl
  | traceGeneric Hx Hy Px Py w =>
    cases Px <;> cases Py <;> first | rfl | (simp [noArrPupil] at h)

theorem runCalls_code_noarr_heap (env : Env α) (L : Lens α) (cs : List (Call α)) (st : Recs α × Heap α)
    (h : ∀ c ∈ cs, noArrPupil c = true) : (runCalls env true L cs st).2.2 = st.2 := by
  induction cs generalizing st with
  | nil => rfl
  | cons c cs ih =>
    simp only [runCalls]
    rw [ih _ (fun d hd => h d (by simp [hd])), stepCall_code_noarr_heap env L c st (h c (by simp))]

/-- an op all of whose calls satisfy `noArrPupil` on the current lens -/
def OpNoArr (L : Lens α) : Op α → Prop
  | .call c => noArrPupil c = true
  | .analysis a => ∀ c ∈ a.calls L, noArrPupil c = true
  | .edit _ => True

/-- **caller_arrays_unchanged_code_noarr** (the code as it stands, every carrier): a call that does
not pass a caller-owned ndarray as `Px` / `Py` writes no caller-owned array (`Hx`, `Hy` may be
caller arrays: they are only read). -/
theorem caller_arrays_unchanged_code_noarr (env : Env α) (s : St α) (op : Op α) (h : OpNoArr s.lens op) :
    (step env true s op).1.heap = s.heap := by
  cases op with
  | call c => exact stepCall_code_noarr_heap env s.lens c _ h
  | analysis a => exact runCalls_code_noarr_heap env s.lens _ _ h
  | edit f => rfl

/-- **repeated_call_equal** (either variant): whenever the first call left the caller arrays as they
were, the second of two identical non-editing calls returns the same result. -/
theorem repeated_call_equal_of_heap (env : Env α) (code : Bool) (s : St α) (op : Op α)
    (h : op.isEdit = false) (hh : (step env code s op).1.heap = s.heap) :
    (step env code (step env code s op).1 op).2 = (step env code s op).2 :=
  (result_independent_of_history env code _ s op (query_preserves_prescription env code s op h) hh).1

/-- the code as it stands is repeatable (bit for bit over `Float`) on every call without ndarray
`Px` / `Py` -/
theorem repeated_call_equal_code_noarr (env : Env α) (s : St α) (op : Op α) (h : op.isEdit = false)
    (hn : OpNoArr s.lens op) : (step env true (step env true s op).1 op).2 = (step env true s op).2 :=
  repeated_call_equal_of_heap env true s op h (caller_arrays_unchanged_code_noarr env s op hn)

/-- … and, over ℝ, on every call when the lens has no vignetting factors -/
theorem repeated_call_equal_code_zero_vig (env : Env ℝ) (hz : ZeroVig env) (s : St ℝ) (op : Op ℝ)
    (h : op.isEdit = false) : (step env true (step env true s op).1 op).2 = (step env true s op).2 :=
  repeated_call_equal_of_heap env true s op h (caller_arrays_unchanged_partial env hz s op)

/-- the hypothesis is satisfiable by the calls that matter: `Optic.trace`, every paraxial query,
`trace_generic` with scalar pupil coordinates and *array* field coordinates -/
example (Hx Hy w : α) (pts : List (α × α)) (q : Query) (p : α) :
    noArrPupil (Call.trace Hx Hy w pts) = true ∧ noArrPupil (Call.query q : Call α) = true ∧
    noArrPupil (Call.traceGeneric (.arr 0) (.arr 1) (.scalar p) (.fresh [p, p]) w) = true :=
  ⟨rfl, rfl, rfl⟩

end C13
