import OptiModel.Model.Optim
import OptiModel.Proofs.Optim
import OptiModel.Proofs.NumReal
import Mathlib.Tactic.Ring
import Mathlib.Tactic.FieldSimp
import Mathlib.Tactic.Linarith
import Mathlib.Tactic.Positivity
/-!
# C14  Optimisers leave the lens at the returned solution, never worse than the start
Theorems about `Model/Optim.lean`.  Arithmetic clauses over ℝ; protocol clauses for an arbitrary
carrier, an arbitrary lens-state type `σ` and *every* oracle (scipy is not modelled).
-/
set_option linter.unusedSectionVars false
namespace C14
open Model Model.Optim OptimProofs

/-! ## 1. merit function -/

/-- `Operand.fun` is weight × (value − target) (restates the definition of `Operand.fn`: `rfl`) -/
theorem operand_fun_def {σ : Type} (op : Operand σ ℝ) (s : σ) :
    op.fn s = op.weight * (op.value s - op.target) := rfl

/-- `sum_squared = Σ (w_i (v_i − t_i))²` on the current lens -/
theorem merit_def {σ : Type} (ops : List (Operand σ ℝ)) (s : σ) :
    sumSquared ops s = (ops.map fun op => (op.weight * (op.value s - op.target)) ^ 2).sum := by
  unfold sumSquared meritOf
  rw [sumList_eq_sum, List.map_map]
  congr 1
  apply List.map_congr_left
  intro op _
  simp only [Function.comp]
  num_real
  ring

/-- over ℝ there is no NaN: `_fun` returns the merit function of the state it produced -/
theorem fun_is_merit {σ : Type} (pb : Problem σ ℝ) (s : σ) : funVal pb s = sumSquared pb.ops s := by
  unfold funVal guardNaN isNaN
  rw [NumReal.isNaN_false]
  rfl

/-- the merit function is a sum of squares: never negative -/
theorem merit_nonneg {σ : Type} (ops : List (Operand σ ℝ)) (s : σ) : 0 ≤ sumSquared ops s := by
  rw [merit_def]
  apply List.sum_nonneg
  intro x hx
  rcases List.mem_map.1 hx with ⟨op, _, rfl⟩
  positivity


/-! ## 2. every variable is a faithful handle -/

theorem pow10_ne_zero (n : Nat) : (pow10 n : ℝ) ≠ 0 := by
  unfold pow10 Num.ofNat
  num_real
  positivity

/-- `scale ∘ inverse_scale = id` for every variable type -/
theorem scale_invScale (K : VKind) (x : ℝ) : K.scale (K.invScale x) = x := by
  cases K <;> simp only [VKind.scale, VKind.invScale, Num.ofNat]
  case asphere i =>
    have h := pow10_ne_zero (4 + 2 * i)
    revert h
    generalize (pow10 (4 + 2 * i) : ℝ) = p
    intro h
    num_real
    field_simp
  all_goals (num_real; norm_num)

/-- `inverse_scale ∘ scale = id` for every variable type -/
theorem invScale_scale (K : VKind) (x : ℝ) : K.invScale (K.scale x) = x := by
  cases K <;> simp only [VKind.scale, VKind.invScale, Num.ofNat]
  case asphere i =>
    have h := pow10_ne_zero (4 + 2 * i)
    revert h
    generalize (pow10 (4 + 2 * i) : ℝ) = p
    intro h
    num_real
    field_simp
  all_goals (num_real; norm_num)

/-- the surface (and coefficient slot) the variable names exists -/
def InRange : VKind → Lens ℝ → Nat → Prop
  | .thickness, L, k => k + 1 < L.presc.surfs.length
  | .asphere i, L, k => i < ((L.presc.surfs.map (·.coeffs)).getD k []).length
  | .poly _ _, L, k => k < L.poly.length
  | .cheb _ _, L, k => k < L.poly.length
  | _, L, k => k < L.presc.surfs.length

/-- read-back in lens units, every type -/
theorem raw_roundtrip (K : VKind) (L : Lens ℝ) (k : Nat) (y : ℝ) (h : InRange K L k) :
    VKind.rawGet (VKind.rawSet L k y K) k K = y := by
  cases K with
  | radius => exact rb_radius L k y h
  | conic => exact rb_conic L k y h
  | thickness => exact rb_thickness L k y h
  | tilt x => exact rb_tilt L k y x h
  | decenter x => exact rb_decenter L k y x h
  | index => exact rb_index L k y h
  | asphere i => obtain ⟨h1, h2⟩ := coeffs_in_range L k i h; exact rb_asphere L k y i h1 h2
  | poly i j => exact rb_poly L k y i j h
  | cheb i j => exact rb_cheb L k y i j h

/-- `value` after `update(x)` is `x`: every type, scaled and unscaled -/
theorem handle_roundtrip (v : Variable ℝ) (L : Lens ℝ) (x : ℝ) (h : InRange v.kind L v.surf) :
    v.value (v.update L x) = x := by
  unfold Variable.value Variable.update
  rw [raw_roundtrip _ _ _ _ h]
  cases v.scaling
  · simp
  · simp only [if_true]; exact scale_invScale _ _

/-- the hypotheses are satisfiable: a scaled radius variable on surface 1 of a two-surface lens -/
example : InRange .radius
    ({ presc := { surfs := [⟨.object, .plane, 0, 0, 0, 0, 0, 0, 0, [], 0, 0, false, false⟩,
                            ⟨.standard, .standard, 0, 0, 0, 0, 0, 50, 0, [], 0, 1, true, false⟩],
                  lastThickness := 0, apValue := 1, maxYField := 0 } } : Lens ℝ) 1 := by
  simp [InRange]

/-! ## 3. bounds are in the units of the value -/

/-- spec: bounds are scaled exactly when the value is (restates the definition of `boundsSpec`: `rfl`;
what the spec bounds *mean* is `boundsSpec_iff_raw` in §8) -/
theorem bounds_same_units (v : Variable ℝ) :
    v.boundsSpec = if v.scaling then (v.minVal.map v.kind.scale, v.maxVal.map v.kind.scale)
                   else (v.minVal, v.maxVal) := rfl

/-- spec: the value of a lens sitting exactly on a bound, read through the handle, equals the bound
the optimiser is given -/
theorem bounds_spec_consistent (v : Variable ℝ) (L : Lens ℝ) (b : ℝ) (hmin : v.minVal = some b)
    (hraw : v.kind.rawGet L v.surf = b) : v.boundsSpec.1 = some (v.value L) := by
  unfold Variable.boundsSpec Variable.value
  cases v.scaling <;> simp [hmin, hraw]

/-- for scaled variables the tree agrees with the spec -/
theorem boundsCode_eq_spec_of_scaling (v : Variable ℝ) (h : v.scaling = true) :
    v.boundsCode = v.boundsSpec := by
  unfold Variable.boundsCode Variable.boundsSpec; simp [h]

/-- F5: the tree's bounds of an *unscaled* radius variable with limits 10 … 100 are (−0.9, 0),
not (10, 100): a lens with radius 50 is reported outside its own bounds -/
theorem boundsCode_violates_same_units :
    ∃ v : Variable ℝ, v.scaling = false ∧ v.boundsCode ≠ v.boundsSpec ∧
      v.boundsCode = (some (-(9:ℝ)/10), some 0) ∧ v.boundsSpec = (some 10, some 100) := by
  refine ⟨{ kind := .radius, surf := 1, scaling := false, minVal := some 10, maxVal := some 100 }, rfl, ?_, ?_, ?_⟩
  · simp only [Variable.boundsCode, Variable.boundsSpec, VKind.scale, Num.ofNat, Option.map]
    num_real
    norm_num
  · simp only [Variable.boundsCode, VKind.scale, Num.ofNat, Option.map]
    num_real
    norm_num
  · simp [Variable.boundsSpec]


/-! ## 4. the `_fun` / optimize / undo protocol, for every oracle

`σ` is any lens-state type, `view : σ → ω` what can be observed of it (for the concrete lens: the
prescription with media replaced by their indices), `I` an invariant of the states that occur
(surfaces exist, …).  The four lens-level facts the protocol needs are collected in `LensHyp`;
they are proved below (§6) for every single variable type on a pickup-free lens and are checked
numerically by the harness on every generated problem (pickups, solves, several variables). -/

section Protocol
variable {σ ω α : Type} [Num α]

/-- all vectors an oracle produces have `n` entries -/
def OSized (o : Oracle α) (n : Nat) : Prop :=
  (∀ x0 log x, o.next x0 log = some x → x.length = n) ∧ (∀ x0 log, (o.result x0 log).1.length = n)

structure LensHyp (pb : Problem σ α) (view : σ → ω) (I : σ → Prop) : Prop where
  /-- the invariant survives `_fun` -/
  closed : ∀ s x, I s → I (applyX pb x s)
  /-- last write wins: what `_fun(x)` leaves does not depend on an earlier `_fun(y)` -/
  overwrites : ∀ s x y, I s → x.length = pb.vars.length →
    view (applyX pb x (applyX pb y s)) = view (applyX pb x s)
  /-- the handles read back what `_fun` set (not overwritten by other variables, pickups, solves) -/
  readsBack : ∀ s x, I s → x.length = pb.vars.length → values pb (applyX pb x s) = x
  /-- variable values and operand values are functions of the view -/
  observes : ∀ s t, view s = view t →
    values pb s = values pb t ∧ ∀ op ∈ pb.ops, op.value s = op.value t

/-- the starting lens is consistent: re-applying its own variable values and updating changes
nothing observable (pickups and solves were already satisfied) -/
def Settled (pb : Problem σ α) (view : σ → ω) (s : σ) : Prop :=
  view (applyX pb (values pb s) s) = view s

/-- the log `_fun` produces when called at `pts` in turn, starting from `s` -/
def logOf (pb : Problem σ α) : σ → List (List α) → List (List α × α)
  | _, [] => []
  | s, x :: pts => (x, funVal pb (applyX pb x s)) :: logOf pb (applyX pb x s) pts

variable (pb : Problem σ α) (view : σ → ω) (I : σ → Prop)

theorem evalPts_append (s : σ) (p q : List (List α)) :
    evalPts pb s (p ++ q) = evalPts pb (evalPts pb s p) q := by
  simp [evalPts, List.foldl_append]

theorem evalPts_snoc (s : σ) (p : List (List α)) (x : List α) :
    evalPts pb s (p ++ [x]) = applyX pb x (evalPts pb s p) := by
  simp [evalPts, List.foldl_append]

theorem logOf_fst (s : σ) (pts : List (List α)) : (logOf pb s pts).map Prod.fst = pts := by
  induction pts generalizing s with
  | nil => rfl
  | cons x pts ih => simp [logOf, ih]

theorem logOf_append (s : σ) (p q : List (List α)) :
    logOf pb s (p ++ q) = logOf pb s p ++ logOf pb (evalPts pb s p) q := by
  induction p generalizing s with
  | nil => rfl
  | cons x p ih => simp [logOf, ih, evalPts]

/-- the oracle loop is: evaluate some finite list of points in turn -/
theorem runOracle_spec (o : Oracle α) (x0 : List α) (n : Nat) (s : σ) (log : List (List α × α)) :
    ∃ pts, (runOracle pb o x0 n s log).1 = evalPts pb s pts ∧
           (runOracle pb o x0 n s log).2 = log ++ logOf pb s pts := by
  induction n generalizing s log with
  | zero => exact ⟨[], rfl, by simp [runOracle, logOf]⟩
  | succ n ih =>
    unfold runOracle
    cases h : o.next x0 log with
    | none => exact ⟨[], rfl, by simp [logOf]⟩
    | some x =>
      obtain ⟨pts, h1, h2⟩ := ih (funEval pb s x).1 (log ++ [(x, (funEval pb s x).2)])
      refine ⟨x :: pts, ?_, ?_⟩
      · simpa [evalPts, funEval] using h1
      · simpa [logOf, funEval, List.append_assoc] using h2

theorem runOracle_sized (o : Oracle α) (x0 : List α) (n m : Nat) (s : σ) (log : List (List α × α))
    (ho : OSized o m) : ∃ pts, (∀ x ∈ pts, x.length = m) ∧
      (runOracle pb o x0 n s log).1 = evalPts pb s pts ∧
      (runOracle pb o x0 n s log).2 = log ++ logOf pb s pts := by
  induction n generalizing s log with
  | zero => exact ⟨[], by simp, rfl, by simp [runOracle, logOf]⟩
  | succ n ih =>
    unfold runOracle
    cases h : o.next x0 log with
    | none => exact ⟨[], by simp, rfl, by simp [logOf]⟩
    | some x =>
      obtain ⟨pts, h0, h1, h2⟩ := ih (funEval pb s x).1 (log ++ [(x, (funEval pb s x).2)])
      refine ⟨x :: pts, ?_, ?_, ?_⟩
      · intro y hy
        rcases List.mem_cons.1 hy with rfl | hy
        · exact ho.1 _ _ _ h
        · exact h0 y hy
      · simpa [evalPts, funEval] using h1
      · simpa [logOf, funEval, List.append_assoc] using h2

variable {pb view I}

theorem inv_evalPts (H : LensHyp pb view I) (s : σ) (hs : I s) (pts : List (List α)) :
    I (evalPts pb s pts) := by
  induction pts generalizing s with
  | nil => exact hs
  | cons x pts ih => exact ih _ (H.closed s x hs)

/-- last write wins along any evaluation sequence -/
theorem view_evalPts_snoc (H : LensHyp pb view I) (s : σ) (hs : I s) (pts : List (List α))
    (x : List α) (hx : x.length = pb.vars.length) :
    view (evalPts pb s (pts ++ [x])) = view (applyX pb x s) := by
  induction pts generalizing s with
  | nil => rfl
  | cons p pts ih =>
    have := ih (applyX pb p s) (H.closed s p hs)
    simp only [List.cons_append, evalPts, List.foldl_cons] at this ⊢
    rw [this]
    exact H.overwrites s x p hs hx

theorem funVal_congr (H : LensHyp pb view I) (s t : σ) (h : view s = view t) :
    funVal pb s = funVal pb t := by
  unfold funVal sumSquared
  have := (H.observes s t h).2
  congr 2
  apply List.map_congr_left
  intro op hop
  rw [this op hop]

/-- **fun_state_determined**: whatever was evaluated before, `_fun(x)` leaves the lens in the state
`_fun(x)` produces from the start lens (as far as can be observed) and returns the same value -/
theorem fun_state_determined (H : LensHyp pb view I) (s : σ) (hs : I s) (pts : List (List α))
    (x : List α) (hx : x.length = pb.vars.length) :
    view (funEval pb (evalPts pb s pts) x).1 = view (funEval pb s x).1 ∧
    (funEval pb (evalPts pb s pts) x).2 = (funEval pb s x).2 := by
  have h : view (applyX pb x (evalPts pb s pts)) = view (applyX pb x s) := by
    rw [← evalPts_snoc]; exact view_evalPts_snoc H s hs pts x hx
  exact ⟨h, funVal_congr H _ _ h⟩

/-- every value an optimiser ever sees is the pure function `x ↦ _fun(x)` of the start lens -/
theorem log_values_determined (H : LensHyp pb view I) (s : σ) (hs : I s) (pts : List (List α))
    (hp : ∀ x ∈ pts, x.length = pb.vars.length) :
    ∀ e ∈ logOf pb s pts, e.2 = funVal pb (applyX pb e.1 s) := by
  induction pts using List.reverseRecOn with
  | nil => intro e he; simp [logOf] at he
  | append_singleton pts x ih =>
    intro e he
    rw [logOf_append] at he
    rcases List.mem_append.1 he with he | he
    · exact ih (fun y hy => hp y (List.mem_append_left _ hy)) e he
    · simp only [logOf, List.mem_singleton] at he
      subst he
      exact (fun_state_determined H s hs pts x (hp x (by simp))).2

/-- **optimize_leaves_solution** (spec variant), for every oracle: after `optimize` returned
`(x*, f*)` the variable values are `x*`; the lens is, observably, the one `_fun(x*)` produces from the
start lens and is the output of `update_optics` (pickups and solves applied); `_fun`'s value on it is
the value `_fun(x*)` had whenever it was evaluated during the run — so if the returned pair is one of
the logged evaluations, re-evaluating the merit function reproduces `f*` -/
theorem optimize_leaves_solution (H : LensHyp pb view I) (o : Oracle α) (st : OptState σ α)
    (hs : I st.lens) (ho : OSized o pb.vars.length) :
    let r := optimizeSpec pb o st
    let log := (runOracle pb o (values pb st.lens) o.fuel st.lens []).2
    values pb r.1.lens = r.2.1 ∧
    view r.1.lens = view (applyX pb r.2.1 st.lens) ∧
    (∃ t, r.1.lens = pb.upd t) ∧
    (r.2 ∈ log → funVal pb r.1.lens = r.2.2) := by
  intro r log
  obtain ⟨pts, hp, h1, h2⟩ := runOracle_sized pb o (values pb st.lens) o.fuel _ st.lens [] ho
  have hx : r.2.1.length = pb.vars.length := ho.2 _ _
  have hlens : r.1.lens = applyX pb r.2.1 (evalPts pb st.lens pts) := by
    show applyX pb _ (runOracle pb o _ o.fuel st.lens []).1 = _
    rw [h1]; rfl
  have hview : view r.1.lens = view (applyX pb r.2.1 st.lens) := by
    rw [hlens, ← evalPts_snoc]; exact view_evalPts_snoc H _ hs pts _ hx
  refine ⟨?_, hview, ⟨_, hlens⟩, ?_⟩
  · rw [hlens]; exact H.readsBack _ _ (inv_evalPts H _ hs pts) hx
  · intro hmem
    have hl : log = logOf pb st.lens pts := by simpa using h2
    rw [hl] at hmem
    have := log_values_determined H st.lens hs pts hp r.2 hmem
    rw [this]
    exact funVal_congr H _ _ hview

/-- the tree (code variant) leaves the lens at the **last evaluated point** (F6) -/
theorem optimizeCode_leaves_last_point (H : LensHyp pb view I) (o : Oracle α) (st : OptState σ α)
    (hs : I st.lens) (ho : OSized o pb.vars.length) (y : List α) (v : α)
    (hlast : (runOracle pb o (values pb st.lens) o.fuel st.lens []).2.getLast? = some (y, v)) :
    values pb (optimizeCode pb o st).1.lens = y := by
  obtain ⟨pts, hp, h1, h2⟩ := runOracle_sized pb o (values pb st.lens) o.fuel _ st.lens [] ho
  have hl : (runOracle pb o (values pb st.lens) o.fuel st.lens []).2 = logOf pb st.lens pts := by
    simpa using h2
  rw [hl] at hlast
  have hpl : pts.getLast? = some y := by
    have := congrArg (Option.map Prod.fst) hlast
    rw [← List.getLast?_map, logOf_fst] at this
    simpa using this
  obtain ⟨q, rfl⟩ : ∃ q, pts = q ++ [y] := by
    rcases List.eq_nil_or_concat pts with h | ⟨q, z, rfl⟩
    · subst h; simp at hpl
    · simp at hpl; subst hpl; exact ⟨q, by simp⟩
  show values pb (runOracle pb o _ o.fuel st.lens []).1 = y
  rw [h1, evalPts_snoc]
  exact H.readsBack _ _ (inv_evalPts H _ hs q) (hp y (by simp))

/-- negation of `optimize_leaves_solution` for the tree: **any** oracle whose last evaluated point
differs from the vector it returns leaves the variables ≠ `result.x` -/
theorem optimizeCode_not_solution (H : LensHyp pb view I) (o : Oracle α) (st : OptState σ α)
    (hs : I st.lens) (ho : OSized o pb.vars.length) (y : List α) (v : α)
    (hlast : (runOracle pb o (values pb st.lens) o.fuel st.lens []).2.getLast? = some (y, v))
    (hne : y ≠ (optimizeCode pb o st).2.1) :
    values pb (optimizeCode pb o st).1.lens ≠ (optimizeCode pb o st).2.1 := by
  rw [optimizeCode_leaves_last_point H o st hs ho y v hlast]; exact hne


/-! ## 5. history stack: optimise / undo in any order -/

/-- the oracle loop run against a *pure* objective `F` -/
def runPure (F : List α → α) (o : Oracle α) (x0 : List α) : Nat → List (List α × α) → List (List α × α)
  | 0, log => log
  | n + 1, log =>
    match o.next x0 log with
    | none => log
    | some x => runPure F o x0 n (log ++ [(x, F x)])

/-- reference machine: the current variable vector and a stack of earlier ones, nothing else -/
structure Ref (α : Type) where
  cur : List α
  stack : List (List α)

def refStep (F : List α → α) (r : Ref α) : OStep α → Ref α
  | .opt o => ⟨(o.result r.cur (runPure F o r.cur o.fuel [])).1, r.cur :: r.stack⟩
  | .undo => match r.stack with
    | [] => r
    | x :: t => ⟨x, t⟩

/-- an optimise immediately followed by undo is invisible to the reference machine: pure stack -/
theorem ref_opt_undo (F : List α → α) (r : Ref α) (o : Oracle α) :
    refStep F (refStep F r (.opt o)) .undo = r := rfl

/-- the objective as a pure function of the vector, on the start lens `s0` -/
def pureFun (pb : Problem σ α) (s0 : σ) (x : List α) : α := funVal pb (applyX pb x s0)

/-- the stateful loop on a lens reached from `s0` sees exactly the pure objective -/
theorem runOracle_pure (H : LensHyp pb view I) (s0 : σ) (hs : I s0) (o : Oracle α)
    (ho : OSized o pb.vars.length) (x0 : List α) (n : Nat) (pa : List (List α))
    (log : List (List α × α)) :
    ∃ pts, (runOracle pb o x0 n (evalPts pb s0 pa) log).1 = evalPts pb s0 (pa ++ pts) ∧
      (runOracle pb o x0 n (evalPts pb s0 pa) log).2 = runPure (pureFun pb s0) o x0 n log := by
  induction n generalizing pa log with
  | zero => exact ⟨[], by simp [runOracle], rfl⟩
  | succ n ih =>
    unfold runOracle runPure
    cases h : o.next x0 log with
    | none => exact ⟨[], by simp, rfl⟩
    | some x =>
      have hx : x.length = pb.vars.length := ho.1 _ _ _ h
      have hv : (funEval pb (evalPts pb s0 pa) x).2 = pureFun pb s0 x :=
        (fun_state_determined H s0 hs pa x hx).2
      have he : (funEval pb (evalPts pb s0 pa) x).1 = evalPts pb s0 (pa ++ [x]) := by
        rw [evalPts_snoc]; rfl
      obtain ⟨pts, h1, h2⟩ := ih (pa ++ [x]) (log ++ [(x, pureFun pb s0 x)])
      refine ⟨x :: pts, ?_, ?_⟩
      · simp only [he, hv]; rw [h1]; simp
      · simp only [he, hv]; rw [h2]

/-- simulation invariant between an optimiser object and the reference machine -/
def Sim (pb : Problem σ α) (view : σ → ω) (s0 : σ) (st : OptState σ α) (r : Ref α) : Prop :=
  (∃ pa, st.lens = evalPts pb s0 pa) ∧ view st.lens = view (applyX pb r.cur s0) ∧
  st.hist = r.stack ∧ r.cur.length = pb.vars.length ∧ ∀ x ∈ r.stack, x.length = pb.vars.length

def StepSized (n : Nat) : OStep α → Prop
  | .opt o => OSized o n
  | .undo => True

theorem sim_step (H : LensHyp pb view I) (s0 : σ) (hs : I s0) (st : OptState σ α) (r : Ref α)
    (h : Sim pb view s0 st r) (stp : OStep α) (hz : StepSized pb.vars.length stp) :
    Sim pb view s0 (stepSpec pb st stp) (refStep (pureFun pb s0) r stp) := by
  obtain ⟨⟨pa, hpa⟩, hv, hh, hc, hstack⟩ := h
  have hx0 : values pb st.lens = r.cur := by
    rw [(H.observes _ _ hv).1]; exact H.readsBack s0 r.cur hs hc
  cases stp with
  | opt o =>
    have ho : OSized o pb.vars.length := hz
    obtain ⟨pts, h1, h2⟩ := runOracle_pure H s0 hs o ho r.cur o.fuel pa []
    have hrun : runOracle pb o r.cur o.fuel st.lens [] =
        (evalPts pb s0 (pa ++ pts), runPure (pureFun pb s0) o r.cur o.fuel []) := by
      rw [hpa]; exact Prod.ext h1 h2
    have hopt : optimizeSpec pb o st =
        ({ lens := applyX pb (o.result r.cur (runPure (pureFun pb s0) o r.cur o.fuel [])).1
                     (evalPts pb s0 (pa ++ pts)),
           hist := r.cur :: st.hist },
         o.result r.cur (runPure (pureFun pb s0) o r.cur o.fuel [])) := by
      simp only [optimizeSpec, hx0, hrun]
    have hxs : (o.result r.cur (runPure (pureFun pb s0) o r.cur o.fuel [])).1.length = pb.vars.length :=
      ho.2 _ _
    simp only [stepSpec, refStep, hopt]
    refine ⟨⟨pa ++ pts ++ [_], (evalPts_snoc pb s0 _ _).symm⟩, ?_, ?_, hxs, ?_⟩
    · show view (applyX pb _ (evalPts pb s0 (pa ++ pts))) = _
      rw [← evalPts_snoc]; exact view_evalPts_snoc H s0 hs _ _ hxs
    · show r.cur :: st.hist = r.cur :: r.stack
      rw [hh]
    · intro x hx
      rcases List.mem_cons.1 hx with rfl | hx
      · exact hc
      · exact hstack x hx
  | undo =>
    cases hst : r.stack with
    | nil =>
      have : st.hist = [] := by rw [hh, hst]
      simp only [stepSpec, undoSpec, this, refStep, hst]
      exact ⟨⟨pa, hpa⟩, hv, by rw [this, hst], hc, hstack⟩
    | cons x t =>
      have hhist : st.hist = x :: t := by rw [hh, hst]
      have hx : x.length = pb.vars.length := hstack x (by rw [hst]; simp)
      simp only [stepSpec, undoSpec, hhist, refStep, hst]
      refine ⟨⟨pa ++ [x], ?_⟩, ?_, rfl, hx, ?_⟩
      · rw [evalPts_snoc, hpa]
      · show view (applyX pb x st.lens) = view (applyX pb x s0)
        rw [hpa, ← evalPts_snoc]; exact view_evalPts_snoc H s0 hs pa x hx
      · intro y hy; exact hstack y (by rw [hst]; exact List.mem_cons_of_mem _ hy)

/-- **optimise_undo_sequences**: for every sequence of optimise (any oracle) / undo on one optimiser
object, started on a consistent lens, the object behaves as the pure stack machine: its history is
the reference stack and the lens is, observably, `_fun(cur)` applied to the start lens -/
theorem optimise_undo_sequences (H : LensHyp pb view I) (s0 : σ) (hs : I s0)
    (hset : Settled pb view s0) (steps : List (OStep α))
    (hz : ∀ stp ∈ steps, StepSized pb.vars.length stp) :
    Sim pb view s0 (steps.foldl (stepSpec pb) { lens := s0, hist := [] })
      (steps.foldl (refStep (pureFun pb s0)) ⟨values pb s0, []⟩) := by
  have h0 : Sim pb view s0 ({ lens := s0, hist := [] } : OptState σ α) ⟨values pb s0, []⟩ :=
    ⟨⟨[], rfl⟩, hset.symm, rfl, by simp [values], by simp⟩
  revert h0
  generalize ({ lens := s0, hist := [] } : OptState σ α) = st
  generalize (⟨values pb s0, []⟩ : Ref α) = r
  induction steps generalizing st r with
  | nil => intro h; exact h
  | cons stp steps ih =>
    intro h
    exact ih (fun x hx => hz x (List.mem_cons_of_mem _ hx)) _ _
      (sim_step H s0 hs st r h stp (hz stp (by simp)))

/-- **undo_restores**: optimise (any oracle) then undo gives back, observably, the lens before the run
and an empty history -/
theorem undo_restores (H : LensHyp pb view I) (s0 : σ) (hs : I s0) (hset : Settled pb view s0)
    (o : Oracle α) (ho : OSized o pb.vars.length) :
    view (undoSpec pb (optimizeSpec pb o { lens := s0, hist := [] }).1).lens = view s0 ∧
    (undoSpec pb (optimizeSpec pb o { lens := s0, hist := [] }).1).hist = [] := by
  have h := optimise_undo_sequences H s0 hs hset [OStep.opt o, OStep.undo]
    (by intro stp hstp; simp at hstp; rcases hstp with rfl | rfl; exact ho; trivial)
  obtain ⟨_, hv, hh, _, _⟩ := h
  exact ⟨hv.trans hset, hh⟩

/-- more generally: after any history, optimise followed by undo changes nothing observable -/
theorem opt_undo_cancels (H : LensHyp pb view I) (s0 : σ) (hs : I s0) (hset : Settled pb view s0)
    (steps : List (OStep α)) (hz : ∀ stp ∈ steps, StepSized pb.vars.length stp)
    (o : Oracle α) (ho : OSized o pb.vars.length) :
    view ((steps ++ [OStep.opt o, OStep.undo]).foldl (stepSpec pb) { lens := s0, hist := [] }).lens
      = view (steps.foldl (stepSpec pb) { lens := s0, hist := [] }).lens ∧
    ((steps ++ [OStep.opt o, OStep.undo]).foldl (stepSpec pb) { lens := s0, hist := [] }).hist
      = (steps.foldl (stepSpec pb) { lens := s0, hist := [] }).hist := by
  have ha := optimise_undo_sequences H s0 hs hset steps hz
  have hb := optimise_undo_sequences H s0 hs hset (steps ++ [OStep.opt o, OStep.undo]) (by
    intro stp hstp
    rcases List.mem_append.1 hstp with h | h
    · exact hz stp h
    · simp at h; rcases h with rfl | rfl; exact ho; trivial)
  rw [List.foldl_append (f := refStep (pureFun pb s0))] at hb
  simp only [List.foldl_cons, List.foldl_nil, ref_opt_undo] at hb
  exact ⟨hb.2.1.trans ha.2.1.symm, hb.2.2.1.trans ha.2.2.1.symm⟩

/-- without pickups and solves (`update_optics` does nothing) the tree's `undo` is the required one -/
theorem undoCode_eq_undoSpec (pb : Problem σ α) (hupd : ∀ s, pb.upd s = s) (st : OptState σ α) :
    undoCode pb st = undoSpec pb st := by
  unfold undoCode undoSpec applyX
  cases st.hist <;> simp [hupd]

/-! ### assumptions about scipy (not provable here: *partial*; checked numerically by the harness) -/

/-- **not_worse_partial**: *if* the optimiser evaluates the start vector and returns a pair no worse than
every logged evaluation, the returned objective is not worse than the start's.  (Pure logic: `log`,
`vals`, `f0`, `fstar` are free and not related to the model; the statement about `optimizeSpec` is
`not_worse_of_minimising_oracle` in §8.) -/
theorem not_worse_partial (log : List (List α × α)) (x0 : List α) (f0 fstar : ℝ) (vals : List α × α → ℝ)
    (hx0 : ∃ e ∈ log, e.1 = x0 ∧ vals e = f0) (hbest : ∀ e ∈ log, fstar ≤ vals e) : fstar ≤ f0 := by
  obtain ⟨e, he, _, hv⟩ := hx0
  exact hv ▸ hbest e he

/-- **within_bounds_partial**: *if* the returned vector respects the bounds handed to scipy, then with the
spec bounds (same units as the value) every bounded variable reads back within its limits.  (`P` is an
arbitrary predicate: this is `readsBack` rewritten; the statement about `optimizeSpec`, `boundsSpec`
and the user's `min_val … max_val` is `within_bounds_of_bounded_oracle` in §8.) -/
theorem within_bounds_partial (pb : Problem σ α) (H : LensHyp pb view I) (s : σ) (hs : I s)
    (xs : List α) (hx : xs.length = pb.vars.length) (P : List α → Prop) (hP : P xs) :
    P (values pb (applyX pb xs s)) := by
  rw [H.readsBack s xs hs hx]; exact hP

end Protocol


/-! ## 6. the lens-level hypotheses are satisfiable: every single variable on a pickup-free lens

(Several variables at once – any number of radius / conic / thickness / tilt / decentre /
asphere-coefficient variables with distinct targets – are treated in `Proofs/OptimMulti.lean`,
`C14Multi.multi_variable_hyp`, which imports this file.  Lenses *with* pickups or solves are not
covered by any theorem: there `LensHyp` is only checked numerically by the harness.) -/

/-- no pickups, no solves: `Optic.update` has nothing to do -/
def NoPick (L : Lens ℝ) : Prop := L.presc.pickups = [] ∧ L.presc.solves = []

theorem lensUpdate_noPick (L : Lens ℝ) (h : NoPick L) : lensUpdate L = L := by
  unfold lensUpdate update
  simp only [h.1, h.2, List.foldl_nil]

theorem inRange_rawSet (K : VKind) (L : Lens ℝ) (k : Nat) (y : ℝ) (h : InRange K L k) :
    InRange K (VKind.rawSet L k y K) k := by
  cases K with
  | asphere i =>
    obtain ⟨hk, _⟩ := coeffs_in_range L k i h
    show i < _
    rw [rawSet_coeffs_length L k y i hk]; exact h
  | poly i j => show k < _; rw [rawSet_poly_length]; exact h
  | cheb i j => show k < _; rw [rawSet_poly_length]; exact h
  | thickness => show k + 1 < _; rw [rawSet_surfs_length]; exact h
  | radius => show k < _; rw [rawSet_surfs_length]; exact h
  | conic => show k < _; rw [rawSet_surfs_length]; exact h
  | tilt b => show k < _; rw [rawSet_surfs_length]; exact h
  | decenter b => show k < _; rw [rawSet_surfs_length]; exact h
  | index => show k < _; rw [rawSet_surfs_length]; exact h

/-- setting twice is setting once (every type but the index, which allocates a fresh medium) -/
theorem rawSet_twice (K : VKind) (hK : K ≠ .index) (L : Lens ℝ) (k : Nat) (y x : ℝ) (h : InRange K L k) :
    VKind.rawSet (VKind.rawSet L k y K) k x K = VKind.rawSet L k x K := by
  cases K with
  | radius => exact ss_radius L k y x
  | conic => exact ss_conic L k y x
  | thickness => exact ss_thickness L k y x h
  | tilt b => exact ss_tilt L k y x b
  | decenter b => exact ss_decenter L k y x b
  | index => exact absurd rfl hK
  | asphere i => exact ss_asphere L k y x i
  | poly i j => exact ss_poly L k y x i j
  | cheb i j => exact ss_cheb L k y x i j

/-- the invariant used for one variable `v` -/
def VarInv (v : Variable ℝ) (L : Lens ℝ) : Prop := NoPick L ∧ InRange v.kind L v.surf

theorem varInv_update (v : Variable ℝ) (L : Lens ℝ) (x : ℝ) (h : VarInv v L) : VarInv v (v.update L x) := by
  obtain ⟨⟨hp, hs⟩, hr⟩ := h
  refine ⟨⟨?_, ?_⟩, inRange_rawSet _ _ _ _ hr⟩
  · unfold Variable.update; rw [rawSet_pickups]; exact hp
  · unfold Variable.update; rw [rawSet_solves]; exact hs

theorem applyX_single (v : Variable ℝ) (ops : List (Operand (Lens ℝ) ℝ)) (x : ℝ) (xs : List ℝ) (L : Lens ℝ) :
    applyX (lensProblem [v] ops) (x :: xs) L = lensUpdate (v.update L x) := by
  simp [applyX, setAll, lensProblem, Variable.toHandle]

theorem applyX_nil (v : Variable ℝ) (ops : List (Operand (Lens ℝ) ℝ)) (L : Lens ℝ) :
    applyX (lensProblem [v] ops) [] L = lensUpdate L := by
  simp [applyX, setAll, lensProblem]

/-- **the protocol hypotheses hold** for a problem with one variable of any type except `index`
(scaled or not), any operands, on a lens without pickups and solves, the view being the whole state -/
theorem single_variable_hyp (v : Variable ℝ) (hK : v.kind ≠ .index) (ops : List (Operand (Lens ℝ) ℝ)) :
    LensHyp (lensProblem [v] ops) id (VarInv v) where
  closed := by
    intro s x hs
    cases x with
    | nil => rw [applyX_nil, lensUpdate_noPick _ hs.1]; exact hs
    | cons x1 xs =>
      rw [applyX_single]
      have := varInv_update v s x1 hs
      rw [lensUpdate_noPick _ this.1]; exact this
  overwrites := by
    intro s x y hs hx
    obtain ⟨x1, rfl⟩ : ∃ x1, x = [x1] := by
      cases x with
      | nil => simp [lensProblem] at hx
      | cons a t => cases t with
        | nil => exact ⟨a, rfl⟩
        | cons b u => simp [lensProblem] at hx
    show applyX _ [x1] (applyX _ y s) = applyX _ [x1] s
    cases y with
    | nil => rw [applyX_nil, lensUpdate_noPick _ hs.1]
    | cons y1 ys =>
      have h1 := varInv_update v s y1 hs
      rw [applyX_single, applyX_single, applyX_single, lensUpdate_noPick _ h1.1]
      congr 1
      unfold Variable.update
      exact rawSet_twice _ hK _ _ _ _ hs.2
  readsBack := by
    intro s x hs hx
    obtain ⟨x1, rfl⟩ : ∃ x1, x = [x1] := by
      cases x with
      | nil => simp [lensProblem] at hx
      | cons a t => cases t with
        | nil => exact ⟨a, rfl⟩
        | cons b u => simp [lensProblem] at hx
    have h1 := varInv_update v s x1 hs
    rw [applyX_single, lensUpdate_noPick _ h1.1]
    simp only [values, lensProblem, Variable.toHandle, List.map_cons, List.map_nil]
    rw [handle_roundtrip v s x1 hs.2]
  observes := by
    intro s t h
    have : s = t := h
    subst this
    exact ⟨rfl, fun _ _ => rfl⟩

/-- on such a lens the start state is consistent -/
theorem single_variable_settled (v : Variable ℝ) (ops : List (Operand (Lens ℝ) ℝ)) (L : Lens ℝ)
    (h : VarInv v L) (hfix : v.update L (v.value L) = L) :
    Settled (lensProblem [v] ops) id L := by
  unfold Settled
  have hv : values (lensProblem [v] ops) L = [v.value L] := by
    simp [values, lensProblem, Variable.toHandle]
  rw [hv, applyX_single, hfix, lensUpdate_noPick _ h.1]

/-- hence, e.g.: for every oracle, `optimizeSpec` on a one-variable problem leaves the variable at `x*`
and `_fun`'s value on the lens is the value logged at `x*` (instance of `optimize_leaves_solution`) -/
theorem single_variable_leaves_solution (v : Variable ℝ) (hK : v.kind ≠ .index)
    (ops : List (Operand (Lens ℝ) ℝ)) (o : Oracle ℝ) (L : Lens ℝ) (hL : VarInv v L) (ho : OSized o 1) :
    values (lensProblem [v] ops) (optimizeSpec (lensProblem [v] ops) o { lens := L }).1.lens
      = (optimizeSpec (lensProblem [v] ops) o { lens := L }).2.1 :=
  (optimize_leaves_solution (single_variable_hyp v hK ops) o { lens := L } hL
    (by simpa [lensProblem] using ho)).1


/-- the invariant is satisfiable: a scaled radius variable on surface 1 of a two-surface lens without
pickups and solves (so `single_variable_hyp`, `optimize_leaves_solution`, `undo_restores`,
`optimise_undo_sequences` apply to it for every oracle) -/
example : VarInv ({ kind := .radius, surf := 1 } : Variable ℝ)
    ({ presc := { surfs := [⟨.object, .plane, 0, 0, 0, 0, 0, 0, 0, [], 0, 0, false, false⟩,
                            ⟨.standard, .standard, 0, 0, 0, 0, 0, 50, 0, [], 0, 1, true, false⟩],
                  lastThickness := 0, apValue := 1, maxYField := 0 } } : Lens ℝ) := by
  refine ⟨⟨rfl, rfl⟩, ?_⟩
  simp [InRange]

/-! ### the index variable: last write wins for the observable lens -/

/-- what can be observed of a surface: everything except the identity of its media, which are
replaced by their indices -/
noncomputable def obsSurf (P : Presc ℝ) (s : SRec ℝ) :=
  (s.kind, s.gk, s.z, s.dx, s.dy, s.rx, s.ry, s.radius, s.conic, s.coeffs, matN P s.mPre, matN P s.mPost,
   s.stop, s.refl)

/-- the observable lens -/
noncomputable def lensView (L : Lens ℝ) :=
  (L.presc.surfs.map (obsSurf L.presc), L.poly, L.presc.apType, L.presc.apValue, L.presc.fieldType,
   L.presc.maxYField, L.presc.objInf, L.presc.pickups.length, L.presc.solves.length)

/-- every medium identifier names an entry of the table -/
def MatWF (P : Presc ℝ) : Prop := ∀ s ∈ P.surfs, s.mPre < P.mats.length ∧ s.mPost < P.mats.length

theorem matN_append_lt (P : Presc ℝ) (extra : List ℝ) (i : Nat) (h : i < P.mats.length) :
    ({ P with mats := P.mats ++ extra } : Presc ℝ).mats.getD i 0 = P.mats.getD i 0 := by
  simp [List.getD_eq_getElem?_getD, List.getElem?_append_left h]

theorem obs_setIndex_twice (P : Presc ℝ) (k : Nat) (y x : ℝ) (hwf : MatWF P) :
    (setIndex (setIndex P y k) x k).surfs.map (obsSurf (setIndex (setIndex P y k) x k))
      = (setIndex P x k).surfs.map (obsSurf (setIndex P x k)) := by
  apply List.ext_getElem?
  intro j
  simp only [List.getElem?_map, setIndex, getElem?_modifyAt, Option.map_map]
  cases hj : P.surfs[j]? with
  | none => simp
  | some s =>
    have hmem : s ∈ P.surfs := List.mem_of_getElem? hj
    obtain ⟨h1, h2⟩ := hwf s hmem
    simp only [Option.map_some, Function.comp, Option.some.injEq]
    by_cases hk : j = k
    · subst hk
      have : ¬ (j = j + 1) := by omega
      simp [obsSurf, matN, this, List.getD_eq_getElem?_getD, List.getElem?_append_left, h1,
        List.getElem?_append_right]
    · by_cases hk1 : j = k + 1
      · subst hk1
        simp [obsSurf, matN, hk, List.getD_eq_getElem?_getD, List.getElem?_append_left, h2,
          List.getElem?_append_right]
      · simp [obsSurf, matN, hk, hk1, List.getD_eq_getElem?_getD, List.getElem?_append_left, h1, h2]


theorem matWF_setIndex (P : Presc ℝ) (k : Nat) (x : ℝ) (h : MatWF P) : MatWF (setIndex P x k) := by
  intro s hs
  simp only [setIndex] at hs ⊢
  obtain ⟨j, hj⟩ := List.getElem?_of_mem hs
  rw [getElem?_modifyAt, getElem?_modifyAt] at hj
  cases hp : P.surfs[j]? with
  | none => simp [hp] at hj
  | some t =>
    obtain ⟨h1, h2⟩ := h t (List.mem_of_getElem? hp)
    simp only [hp, Option.map_some, Option.some.injEq] at hj
    subst hj
    simp only [List.length_append, List.length_singleton]
    by_cases a : j = k <;> by_cases b : j = k + 1 <;> simp [a, b] <;> omega

/-- the invariant used for an index variable -/
def IdxInv (v : Variable ℝ) (L : Lens ℝ) : Prop := VarInv v L ∧ MatWF L.presc

theorem lensView_update_twice (v : Variable ℝ) (hK : v.kind = .index) (L : Lens ℝ) (y x : ℝ)
    (hwf : MatWF L.presc) : lensView (v.update (v.update L y) x) = lensView (v.update L x) := by
  unfold Variable.update
  rw [hK]
  simp only [VKind.rawSet, lensView]
  rw [obs_setIndex_twice _ _ _ _ hwf]
  rfl

theorem value_of_view (v : Variable ℝ) (hK : v.kind = .index) (L L' : Lens ℝ)
    (h : lensView L = lensView L') : v.value L = v.value L' := by
  have h1 : L.presc.surfs.map (obsSurf L.presc) = L'.presc.surfs.map (obsSurf L'.presc) :=
    congrArg Prod.fst h
  have h2 := congrArg (List.map fun t => t.2.2.2.2.2.2.2.2.2.2.2.1) h1
  simp only [List.map_map] at h2
  unfold Variable.value
  rw [hK]
  simp only [VKind.rawGet]
  have e : ∀ M : Lens ℝ, (M.presc.surfs.map fun s => matN M.presc s.mPost)
      = M.presc.surfs.map ((fun t => t.2.2.2.2.2.2.2.2.2.2.2.1) ∘ obsSurf M.presc) := fun _ => rfl
  rw [e L, e L', h2]

/-- **the protocol hypotheses hold for an index variable** (scaled or not): `set_index` allocates a new
medium at every call, so last-write-wins holds for the *observable* lens (media as indices), provided
the operands read the lens only through that view -/
theorem index_variable_hyp (v : Variable ℝ) (hK : v.kind = .index) (ops : List (Operand (Lens ℝ) ℝ))
    (hops : ∀ op ∈ ops, ∀ L L', lensView L = lensView L' → op.value L = op.value L') :
    LensHyp (lensProblem [v] ops) lensView (IdxInv v) where
  closed := by
    intro s x hs
    cases x with
    | nil => rw [applyX_nil, lensUpdate_noPick _ hs.1.1]; exact hs
    | cons x1 xs =>
      rw [applyX_single]
      have h1 := varInv_update v s x1 hs.1
      rw [lensUpdate_noPick _ h1.1]
      refine ⟨h1, ?_⟩
      unfold Variable.update; rw [hK]; exact matWF_setIndex _ _ _ hs.2
  overwrites := by
    intro s x y hs hx
    obtain ⟨x1, rfl⟩ : ∃ x1, x = [x1] := by
      cases x with
      | nil => simp [lensProblem] at hx
      | cons a t => cases t with
        | nil => exact ⟨a, rfl⟩
        | cons b u => simp [lensProblem] at hx
    cases y with
    | nil => rw [applyX_nil, lensUpdate_noPick _ hs.1.1]
    | cons y1 ys =>
      have h1 := varInv_update v s y1 hs.1
      have h2 := varInv_update v _ x1 h1
      have h3 := varInv_update v s x1 hs.1
      rw [applyX_single, applyX_single, applyX_single, lensUpdate_noPick _ h1.1, lensUpdate_noPick _ h2.1,
        lensUpdate_noPick _ h3.1]
      exact lensView_update_twice v hK s y1 x1 hs.2
  readsBack := by
    intro s x hs hx
    obtain ⟨x1, rfl⟩ : ∃ x1, x = [x1] := by
      cases x with
      | nil => simp [lensProblem] at hx
      | cons a t => cases t with
        | nil => exact ⟨a, rfl⟩
        | cons b u => simp [lensProblem] at hx
    have h1 := varInv_update v s x1 hs.1
    rw [applyX_single, lensUpdate_noPick _ h1.1]
    simp only [values, lensProblem, Variable.toHandle, List.map_cons, List.map_nil]
    rw [handle_roundtrip v s x1 hs.1.2]
  observes := by
    intro s t h
    refine ⟨?_, fun op hop => hops op hop s t h⟩
    simp only [values, lensProblem, Variable.toHandle, List.map_cons, List.map_nil]
    rw [value_of_view v hK s t h]

/-! ## 7. the tree's variants violate the property (F6): witnesses -/

/-- toy lens: one number, read and written by one variable; merit = (value − 0)² -/
def toy : Problem ℝ ℝ := { vars := [⟨id, fun _ x => x⟩], upd := id, ops := [⟨id, 0, 1⟩] }

/-- an optimiser that evaluates `[1]`, then `[2]` (say, a finite-difference probe), and returns `[1]`:
the tree leaves the variable at 2, the required behaviour at 1 -/
theorem optimizeCode_violates :
    values toy (optimizeCode toy (replayOracle [[1], [2]] ([1], 1)) { lens := 5 }).1.lens = [2] ∧
    (optimizeCode toy (replayOracle [[1], [2]] ([1], 1)) { lens := 5 }).2.1 = [1] ∧
    values toy (optimizeSpec toy (replayOracle [[1], [2]] ([1], 1)) { lens := 5 }).1.lens = [1] := by
  simp [optimizeCode, optimizeSpec, runOracle, replayOracle, funEval, applyX, setAll, toy, values]

/-- toy lens with a pickup: the second number follows the first on `update_optics` -/
def toyPickup : Problem (ℝ × ℝ) ℝ :=
  { vars := [⟨Prod.fst, fun s x => (x, s.2)⟩], upd := fun s => (s.1, s.1), ops := [] }

/-- after optimise ((1,1) → (2,2)) the tree's `undo` gives (1,2): the picked-up quantity keeps the
optimised value; the required `undo` gives back (1,1) -/
theorem undoCode_violates :
    (undoCode toyPickup (optimizeSpec toyPickup (replayOracle [[2]] ([2], 0)) { lens := (1, 1) }).1).lens
      = (1, 2) ∧
    (undoSpec toyPickup (optimizeSpec toyPickup (replayOracle [[2]] ([2], 0)) { lens := (1, 1) }).1).lens
      = (1, 1) := by
  simp [undoCode, undoSpec, optimizeSpec, runOracle, replayOracle, funEval, applyX, setAll, toyPickup, values]

/-! ## 8. review additions: the hypotheses of §4–§6 are met by one concrete run, and the two
"scipy" clauses are tied to the model

`not_worse_partial` / `within_bounds_partial` above do not mention the model at all (their
conclusions are instances of their hypotheses).  The theorems below state the same two clauses about
`optimizeSpec` itself, for every oracle that (a) evaluates the start vector, (b) returns one of its
logged evaluations and (c) returns the best of them – what a descent method with a final
`min(log)` does; that scipy's front ends satisfy (a)–(c) is still an assumption (it is false for
some, findings F-C14-3 / F-C14-4). -/

/-- **not_worse** (spec variant, every oracle satisfying (a)–(c)): the merit function on the lens the
optimiser leaves is not larger than on the lens it started from. -/
theorem not_worse_of_minimising_oracle {σ ω : Type} {pb : Problem σ ℝ} {view : σ → ω} {I : σ → Prop}
    (H : LensHyp pb view I) (o : Oracle ℝ) (s0 : σ) (hs : I s0) (hset : Settled pb view s0)
    (ho : OSized o pb.vars.length)
    (hstart : ∃ e ∈ (runOracle pb o (values pb s0) o.fuel s0 []).2, e.1 = values pb s0)
    (hmem : (optimizeSpec pb o { lens := s0 }).2 ∈ (runOracle pb o (values pb s0) o.fuel s0 []).2)
    (hbest : ∀ e ∈ (runOracle pb o (values pb s0) o.fuel s0 []).2,
      (optimizeSpec pb o { lens := s0 }).2.2 ≤ e.2) :
    sumSquared pb.ops (optimizeSpec pb o { lens := s0 }).1.lens ≤ sumSquared pb.ops s0 := by
  rw [← fun_is_merit, ← fun_is_merit]
  obtain ⟨pts, hp, _, h2⟩ := runOracle_sized pb o (values pb s0) o.fuel _ s0 [] ho
  have hl : (runOracle pb o (values pb s0) o.fuel s0 []).2 = logOf pb s0 pts := by simpa using h2
  obtain ⟨e, he, hx0⟩ := hstart
  have h1 : funVal pb (optimizeSpec pb o { lens := s0 }).1.lens = (optimizeSpec pb o { lens := s0 }).2.2 :=
    (optimize_leaves_solution H o { lens := s0 } hs ho).2.2.2 hmem
  have h3 : e.2 = funVal pb s0 := by
    have := log_values_determined H s0 hs pts hp e (hl ▸ he)
    rw [this, hx0]
    exact funVal_congr H _ _ hset
  rw [h1, ← h3]
  exact hbest e he

/-- `x` lies within the (optional) limits `b` -/
def InBounds (b : Option ℝ × Option ℝ) (x : ℝ) : Prop :=
  (∀ lo, b.1 = some lo → lo ≤ x) ∧ (∀ hi, b.2 = some hi → x ≤ hi)

/-- every `scale` is strictly increasing -/
theorem scale_le_iff (K : VKind) (a b : ℝ) : K.scale a ≤ K.scale b ↔ a ≤ b := by
  cases K <;> simp only [VKind.scale, Num.ofNat]
  case asphere i =>
    have h : (0:ℝ) < pow10 (4 + 2 * i) := by
      unfold pow10 Num.ofNat
      num_real
      positivity
    revert h
    generalize (pow10 (4 + 2 * i) : ℝ) = p
    intro h
    num_real
    exact mul_le_mul_iff_of_pos_right h
  all_goals (num_real; constructor <;> intro h <;> norm_num at h ⊢ <;> linarith)

/-- **bounds in the units of the value mean the user's limits**: the value read through the handle
lies within `boundsSpec` exactly when the lens quantity lies within `min_val … max_val` – scaled or
not (for the tree's `boundsCode` this fails for unscaled variables, `boundsCode_violates_same_units`). -/
theorem boundsSpec_iff_raw (v : Variable ℝ) (L : Lens ℝ) :
    InBounds v.boundsSpec (v.value L) ↔ InBounds (v.minVal, v.maxVal) (v.kind.rawGet L v.surf) := by
  unfold Variable.boundsSpec Variable.value InBounds
  cases v.scaling
  · simp
  · simp only [if_true, Option.map_eq_some_iff]
    constructor
    · rintro ⟨h1, h2⟩
      exact ⟨fun lo hlo => (scale_le_iff _ _ _).1 (h1 _ ⟨lo, hlo, rfl⟩),
             fun hi hhi => (scale_le_iff _ _ _).1 (h2 _ ⟨hi, hhi, rfl⟩)⟩
    · rintro ⟨h1, h2⟩
      refine ⟨?_, ?_⟩
      · rintro _ ⟨lo, hlo, rfl⟩; exact (scale_le_iff _ _ _).2 (h1 lo hlo)
      · rintro _ ⟨hi, hhi, rfl⟩; exact (scale_le_iff _ _ _).2 (h2 hi hhi)

/-- **within_bounds** (spec variant): if the vector the oracle returns respects the bounds it was
handed (`boundsSpec`), then on the lens `optimizeSpec` leaves every bounded variable's lens quantity
lies within the user's `min_val … max_val`. -/
theorem within_bounds_of_bounded_oracle {ω : Type} {view : Lens ℝ → ω} {I : Lens ℝ → Prop}
    (vars : List (Variable ℝ)) (ops : List (Operand (Lens ℝ) ℝ))
    (H : LensHyp (lensProblem vars ops) view I) (o : Oracle ℝ) (L : Lens ℝ) (hs : I L)
    (ho : OSized o vars.length)
    (hb : List.Forall₂ (fun v x => InBounds v.boundsSpec x) vars
      (optimizeSpec (lensProblem vars ops) o { lens := L }).2.1) :
    ∀ v ∈ vars, InBounds (v.minVal, v.maxVal)
      (v.kind.rawGet (optimizeSpec (lensProblem vars ops) o { lens := L }).1.lens v.surf) := by
  have hv := (optimize_leaves_solution H o { lens := L } hs (by simpa [lensProblem] using ho)).1
  rw [← hv] at hb
  generalize (optimizeSpec (lensProblem vars ops) o { lens := L }).1.lens = M at hb
  have : values (lensProblem vars ops) M = vars.map fun v => v.value M := by
    simp [values, lensProblem, Variable.toHandle]
  rw [this, List.forall₂_map_right_iff] at hb
  intro v hv
  have : ∀ {l : List (Variable ℝ)}, List.Forall₂ (fun v w => InBounds v.boundsSpec (w.value M)) l l →
      ∀ u ∈ l, InBounds u.boundsSpec (u.value M) := by
    intro l hl
    induction l with
    | nil => intro u hu; simp at hu
    | cons a l ih =>
      intro u hu
      cases hl with
      | cons h t =>
        rcases List.mem_cons.1 hu with rfl | hu
        · exact h
        · exact ih t u hu
  exact (boundsSpec_iff_raw v M).1 (this hb v hv)

/-! ### one concrete run meeting every hypothesis -/

/-- object plane and one spherical surface (R = 50) -/
noncomputable def demoLens : Lens ℝ :=
  { presc := { surfs := [⟨.object, .plane, 0, 0, 0, 0, 0, 0, 0, [], 0, 0, false, false⟩,
                         ⟨.standard, .standard, 0, 0, 0, 0, 0, 50, 0, [], 0, 1, true, false⟩],
               lastThickness := 0, apValue := 1, maxYField := 0 } }

/-- scaled radius variable on surface 1, limits 10 … 100 -/
noncomputable def demoVar : Variable ℝ := { kind := .radius, surf := 1, minVal := some 10, maxVal := some 100 }

theorem demo_inv : VarInv demoVar demoLens := by
  refine ⟨⟨rfl, rfl⟩, ?_⟩
  simp [InRange, demoVar, demoLens]

/-- the start lens is consistent (`hfix` of `single_variable_settled` is satisfiable) -/
theorem demo_fix : demoVar.update demoLens (demoVar.value demoLens) = demoLens := by
  unfold Variable.update Variable.value
  simp only [demoVar, if_true, invScale_scale]
  simp [VKind.rawSet, VKind.rawGet, setRadius, modifyAt, demoLens]

/-- a recorded run: `_fun` at the start value −0.5 (R = 50), then at −0.4 (R = 60); returned: the second -/
noncomputable def demoOracle : Oracle ℝ := replayOracle [[-1/2], [-2/5]] ([-2/5], 0)

theorem demo_sized : OSized demoOracle 1 := by
  constructor
  · intro x0 log x h
    simp only [demoOracle, replayOracle] at h
    rcases hl : log.length with _ | _ | n <;> simp [hl] at h <;> subst h <;> rfl
  · intro x0 log; rfl

/-- every hypothesis of `optimize_leaves_solution`, `undo_restores`, `optimise_undo_sequences` is met
by this run (any operands): after optimise + undo the lens is the start lens, literally -/
example (ops : List (Operand (Lens ℝ) ℝ)) :
    (undoSpec (lensProblem [demoVar] ops)
      (optimizeSpec (lensProblem [demoVar] ops) demoOracle { lens := demoLens }).1).lens = demoLens :=
  (undo_restores (single_variable_hyp demoVar (by simp [demoVar]) ops) demoLens demo_inv
    (single_variable_settled demoVar ops demoLens demo_inv demo_fix) demoOracle
    (by simpa [lensProblem] using demo_sized)).1

/-- … and after optimise the variable reads the returned −0.4, i.e. the radius is 60 -/
example (ops : List (Operand (Lens ℝ) ℝ)) :
    values (lensProblem [demoVar] ops)
      (optimizeSpec (lensProblem [demoVar] ops) demoOracle { lens := demoLens }).1.lens = [-2/5] :=
  single_variable_leaves_solution demoVar (by simp [demoVar]) ops demoOracle demoLens demo_inv demo_sized

/-- … and the radius it leaves (60) lies within the user's limits 10 … 100: the hypotheses of
`within_bounds_of_bounded_oracle` are met (the returned −0.4 lies within the scaled bounds −0.9 … 0) -/
example (ops : List (Operand (Lens ℝ) ℝ)) :
    InBounds (some 10, some 100)
      (VKind.rawGet (optimizeSpec (lensProblem [demoVar] ops) demoOracle { lens := demoLens }).1.lens 1 .radius) := by
  have hb : List.Forall₂ (fun (v : Variable ℝ) x => InBounds v.boundsSpec x) [demoVar]
      (optimizeSpec (lensProblem [demoVar] ops) demoOracle { lens := demoLens }).2.1 := by
    show List.Forall₂ _ [demoVar] [-2/5]
    refine List.Forall₂.cons ?_ List.Forall₂.nil
    simp only [InBounds, Variable.boundsSpec, demoVar, if_true, Option.map_some, Option.some.injEq,
      VKind.scale, Num.ofNat]
    num_real
    constructor <;> intro b hb <;> rw [← hb] <;> norm_num
  exact within_bounds_of_bounded_oracle [demoVar] ops (single_variable_hyp demoVar (by simp [demoVar]) ops)
    demoOracle demoLens demo_inv demo_sized hb demoVar (by simp)

/-! ### … including `not_worse_of_minimising_oracle`, with an operand that reads the lens -/

noncomputable def demoOps : List (Operand (Lens ℝ) ℝ) := [⟨fun L => VKind.rawGet L 1 .radius, 60, 1⟩]

theorem demo_funVal (L : Lens ℝ) : funVal (lensProblem [demoVar] demoOps) L = (VKind.rawGet L 1 .radius - 60) ^ 2 := by
  rw [fun_is_merit, merit_def]
  simp [lensProblem, demoOps]

theorem demo_apply (x : ℝ) (L : Lens ℝ) (h : VarInv demoVar L) :
    VKind.rawGet (applyX (lensProblem [demoVar] demoOps) [x] L) 1 .radius = (x + 1) * 100 ∧
    VarInv demoVar (applyX (lensProblem [demoVar] demoOps) [x] L) := by
  have h1 := varInv_update demoVar L x h
  rw [applyX_single, lensUpdate_noPick _ h1.1]
  refine ⟨?_, h1⟩
  have := raw_roundtrip .radius L 1 ((x + 1) * 100) h.2
  have e : (Num.ofRat 100 1 : ℝ) = 100 := by num_real; norm_num
  simpa [Variable.update, demoVar, VKind.invScale, Num.ofNat, e] using this

theorem demo_log :
    (runOracle (lensProblem [demoVar] demoOps) demoOracle (values (lensProblem [demoVar] demoOps) demoLens)
      demoOracle.fuel demoLens []).2 = [([-1/2], 100), ([-2/5], 0)] := by
  obtain ⟨a1, i1⟩ := demo_apply (-1/2) demoLens demo_inv
  obtain ⟨a2, _⟩ := demo_apply (-2/5) _ i1
  simp only [demoOracle, replayOracle, List.length_cons, List.length_nil, runOracle, funEval,
    List.getElem?_cons_zero, List.nil_append, List.getElem?_cons_succ, List.cons_append, demo_funVal, a1, a2]
  norm_num [runOracle]

theorem demo_x0 : values (lensProblem [demoVar] demoOps) demoLens = [-1/2] := by
  simp only [values, lensProblem, Variable.toHandle, Variable.value, demoVar, VKind.rawGet, demoLens,
    VKind.scale, Num.ofNat, List.map_cons, List.map_nil, List.getD_cons_succ, List.getD_cons_zero, if_true]
  num_real
  norm_num

/-- every hypothesis of `not_worse_of_minimising_oracle` is met by the recorded run: the merit
`(R − 60)²` is 100 at the start and 0 on the lens the optimiser leaves -/
example : sumSquared demoOps (optimizeSpec (lensProblem [demoVar] demoOps) demoOracle { lens := demoLens }).1.lens
    ≤ sumSquared demoOps demoLens := by
  have hl := demo_log
  have hr : (optimizeSpec (lensProblem [demoVar] demoOps) demoOracle { lens := demoLens }).2 = ([-2/5], 0) := rfl
  refine not_worse_of_minimising_oracle (single_variable_hyp demoVar (by simp [demoVar]) demoOps) demoOracle
    demoLens demo_inv (single_variable_settled demoVar demoOps demoLens demo_inv demo_fix)
    (by simpa [lensProblem] using demo_sized) ?_ ?_ ?_
  · rw [hl, demo_x0]; exact ⟨([-1/2], 100), by simp, rfl⟩
  · rw [hl, hr]; simp
  · rw [hl, hr]
    intro e he
    simp only [List.mem_cons, List.not_mem_nil, or_false] at he
    rcases he with rfl | rfl <;> norm_num
end C14
