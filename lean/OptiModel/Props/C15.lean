import OptiModel.Model.Toler
import OptiModel.Proofs.TolerAbs
import OptiModel.Proofs.TolerPresc
import OptiModel.Proofs.NumReal
import Mathlib.Tactic.Ring
import Mathlib.Tactic.Linarith
/-!
# C15  Tolerancing reports true perturbed performance and restores the nominal lens

Theorems about `Model/Toler.lean`.  They are stated for an arbitrary lens type `σ` whose variables
obey the read/write laws `Frame.Lawful` (write is read back, leaves the other variables and the
rest of the lens alone); `presc_variables_lawful` shows that the prescription state machine
`Presc ℝ` (C01) with the variables of `optimization/variable/*.py` obeys them, and
`presc_eqv_is_snapshot_equality` that "same observable prescription" (`Eqv`) means equality of
everything `harness/c01.snap` observes (vertex positions, radii, conics, indices, tilts, decentres,
asphere coefficients, surface kinds/stop flags).

Hypotheses that appear everywhere:
* `F.TolWF T N` – the `Tolerancing` object was built on the nominal lens `N`: every perturbed or
  compensated variable exists, `initial_value` was read on `N`, `inverse_scale ∘ scale = id`
  (`compensator_scaling_roundtrip`: true over ℝ for every variable kind);
* `F.Resp T` – operands and the compensator optimiser are functions of the observable prescription
  (the optimiser is an arbitrary oracle `oracle j s`: C14's `optimize_leaves_solution` is not needed,
  the table records whatever values the optimiser left in the lens);
* `F.Agree T N s` – lens `s` differs from `N` at most in perturbed/compensated variables (true of
  `N` itself and of every lens a previous run left behind, including the perturbed lens
  `MonteCarlo.run` leaves, F7).
Lenses with pickups or solves are outside these theorems when a compensator is present: the
optimiser then also calls `Optic.update()` (finding F-C15-2); without pickups/solves
`Presc.update` is the identity (`update_without_pickups_is_identity`).
-/
set_option linter.unusedSectionVars false
namespace C15
open Model TolerAbs TolerPresc

variable {σ ι α β ρ : Type} [DecidableEq ι] {F : Frame σ ι α ρ}

/-! ## reset -/

/-- `Tolerancing.reset()` restores every perturbed and every compensated variable: the observable
prescription is the nominal one again. -/
theorem reset_restores (L : F.Lawful) {T : Tol σ ι α β} {N s : σ} (hN : F.inv N) (hT : F.TolWF T N)
    (h : F.Agree T N s) : F.Eqv (T.reset F.S s) N :=
  reset_eqv L hN hT h

variable [Num α]

/-! ## rows -/

/-- Every run of the shared loop (`SensitivityAnalysis.run`: `trials = saTrials sizes`,
`MonteCarlo.run`: `trials = mcTrials m n`), started on any lens that differs from nominal at most
in the toleranced variables, records exactly the table `specRows`: row `j` holds the sampled values
`vals_j` and `evaluate (compensate_j (apply vals_j N))` computed on the *nominal* lens `N`. -/
theorem trial_row_is_fresh_evaluation (L : F.Lawful) {T : Tol σ ι α β} {N : σ} (hN : F.inv N)
    (hT : F.TolWF T N) (hR : F.Resp T) (trials : List (List Nat)) (j : Nat) (r : Run σ α)
    (hr : F.Agree T N r.lens) :
    (runTrials F.S T j r trials).2 = specRows F.S T N j r.samplers r.stream trials :=
  (runTrials_spec L hN hT hR trials j r hr).1

/-- what a row of `specRows` is: the recorded perturbation values applied to the nominal lens,
followed by the compensation of that trial, then the operands -/
theorem specRows_row (S : Sys σ ι α) (T : Tol σ ι α β) (N : σ) :
    ∀ (trials : List (List Nat)) (j : Nat) (smps : List (Sampler α)) (st : List α) (row : Row α β),
      row ∈ specRows S T N j smps st trials →
      ∃ k, row.ops = T.evaluate (T.applyCompensators S k (applyVals S T N row.applied)).1 ∧
           row.comp = (T.applyCompensators S k (applyVals S T N row.applied)).2
  | [], _, _, _, _, h => by simp [specRows] at h
  | t :: ts, j, smps, st, row, h => by
    simp only [specRows, List.mem_cons] at h
    rcases h with rfl | h
    · exact ⟨j, rfl, rfl⟩
    · exact specRows_row S T N ts (j+1) _ _ row h

/-- the same with the number of the optimiser run made explicit (review addition; `specRows_row` only
says "some run `k`"): the `i`-th row of the table uses the compensation of run `j + i` -/
theorem specRows_row_at (S : Sys σ ι α) (T : Tol σ ι α β) (N : σ) :
    ∀ (trials : List (List Nat)) (j : Nat) (smps : List (Sampler α)) (st : List α) (i : Nat) (row : Row α β),
      (specRows S T N j smps st trials)[i]? = some row →
      row.ops = T.evaluate (T.applyCompensators S (j + i) (applyVals S T N row.applied)).1 ∧
      row.comp = (T.applyCompensators S (j + i) (applyVals S T N row.applied)).2
  | [], _, _, _, _, _, h => by simp [specRows] at h
  | t :: ts, j, smps, st, 0, row, h => by
    simp only [specRows, List.getElem?_cons_zero, Option.some.injEq] at h
    subst h
    exact ⟨rfl, rfl⟩
  | t :: ts, j, smps, st, i + 1, row, h => by
    simp only [specRows, List.getElem?_cons_succ] at h
    have := specRows_row_at S T N ts (j + 1) _ _ i row h
    rwa [show j + 1 + i = j + (i + 1) by omega] at this

/-- the sensitivity table and the Monte-Carlo table (tree version and repaired version) are tables
of fresh evaluations -/
theorem sensitivity_rows_fresh (L : F.Lawful) {T : Tol σ ι α β} {N : σ} (hN : F.inv N)
    (hT : F.TolWF T N) (hR : F.Resp T) (r : Run σ α) (hr : F.Agree T N r.lens) :
    (runSA F.S T r).2 = specRows F.S T N 0 r.samplers r.stream (saTrials (r.samplers.map Sampler.size)) :=
  (runTrials_spec L hN hT hR _ 0 r hr).1

theorem montecarlo_rows_fresh (L : F.Lawful) {T : Tol σ ι α β} {N : σ} (hN : F.inv N)
    (hT : F.TolWF T N) (hR : F.Resp T) (r : Run σ α) (hr : F.Agree T N r.lens) (n : Nat) :
    (runMC_code F.S T r n).2 = specRows F.S T N 0 r.samplers r.stream (mcTrials T.perts.length n) ∧
    (runMC_spec F.S T r n).2 = (runMC_code F.S T r n).2 :=
  ⟨(runTrials_spec L hN hT hR _ 0 r hr).1, rfl⟩

/-- Perturbation values equal to the nominal values (`initial_value`) reproduce the nominal
operand values, provided the compensation of that trial leaves the nominal lens alone (always
true without compensators, see `nominal_perturbation_identity_no_comp`). -/
theorem nominal_perturbation_identity (L : F.Lawful) {T : Tol σ ι α β} {N : σ} (hN : F.inv N)
    (hT : F.TolWF T N) (hR : F.Resp T) (vals : List (Nat × α)) (k : Nat)
    (hv : ∀ iv, iv ∈ vals → ∃ p, T.perts[iv.1]? = some p ∧ iv.2 = p.init)
    (hfix : F.Eqv (T.applyCompensators F.S k N).1 N) :
    T.evaluate (T.applyCompensators F.S k (applyVals F.S T N vals)).1 = T.evaluate N := by
  have e1 := applyVals_nominal L hT vals N (eqv_refl hN) hv
  have e2 := (applyCompensators_eqv L hT hR k e1).1
  exact evaluate_eqv hR (eqv_trans e2 hfix)

theorem nominal_perturbation_identity_no_comp (L : F.Lawful) {T : Tol σ ι α β} {N : σ} (hN : F.inv N)
    (hT : F.TolWF T N) (hR : F.Resp T) (vals : List (Nat × α)) (k : Nat)
    (hv : ∀ iv, iv ∈ vals → ∃ p, T.perts[iv.1]? = some p ∧ iv.2 = p.init) (hc : T.comps = []) :
    T.evaluate (T.applyCompensators F.S k (applyVals F.S T N vals)).1 = T.evaluate N := by
  apply nominal_perturbation_identity L hN hT hR vals k hv
  simp only [Tol.applyCompensators, hc, List.isEmpty_nil, if_true]
  exact eqv_refl hN

/-! ## the lens after the run -/

/-- `SensitivityAnalysis.run` ends with `reset()`: nominal prescription. -/
theorem sensitivity_restores (L : F.Lawful) {T : Tol σ ι α β} {N : σ} (hN : F.inv N)
    (hT : F.TolWF T N) (hR : F.Resp T) (r : Run σ α) (hr : F.Agree T N r.lens) :
    F.Eqv (runSA F.S T r).1.lens N :=
  reset_eqv L hN hT (runTrials_spec L hN hT hR _ 0 r hr).2.1

/-- `MonteCarlo.run` as the property requires it (reset after the loop): nominal prescription. -/
theorem montecarlo_restores (L : F.Lawful) {T : Tol σ ι α β} {N : σ} (hN : F.inv N)
    (hT : F.TolWF T N) (hR : F.Resp T) (r : Run σ α) (hr : F.Agree T N r.lens) (n : Nat) :
    F.Eqv (runMC_spec F.S T r n).1.lens N :=
  reset_eqv L hN hT (runTrials_spec L hN hT hR _ 0 r hr).2.1

/-- a later explicit `Tolerancing.reset()` repairs what the tree's `MonteCarlo.run` leaves behind -/
theorem montecarlo_code_then_reset_restores (L : F.Lawful) {T : Tol σ ι α β} {N : σ} (hN : F.inv N)
    (hT : F.TolWF T N) (hR : F.Resp T) (r : Run σ α) (hr : F.Agree T N r.lens) (n : Nat) :
    F.Eqv (T.reset F.S (runMC_code F.S T r n).1.lens) N :=
  reset_eqv L hN hT (runTrials_spec L hN hT hR _ 0 r hr).2.1

/-- F7, exact form: `MonteCarlo.run(n+1)` as in the tree leaves the lens in the state of its last
trial: last row's values applied to the nominal lens, followed by that trial's compensation. -/
theorem montecarlo_code_leaves_last_trial (L : F.Lawful) {T : Tol σ ι α β} {N : σ} (hN : F.inv N)
    (hT : F.TolWF T N) (hR : F.Resp T) (r : Run σ α) (hr : F.Agree T N r.lens) (n : Nat) :
    ∃ row, (runMC_code F.S T r (n+1)).2.getLast? = some row ∧
      F.Eqv (runMC_code F.S T r (n+1)).1.lens
        (T.applyCompensators F.S n (applyVals F.S T N row.applied)).1 :=
  runMC_code_last L hN hT hR r hr n

/-- F7, negation witness: `montecarlo_restores` is false for `runMC_code` — one perturbation with a
scalar sampler whose value is not the nominal one, no compensator, any number `n+1 ≥ 1` of trials. -/
theorem montecarlo_code_not_restored (L : F.Lawful) {T : Tol σ ι α β} {N : σ} (hN : F.inv N)
    (hT : F.TolWF T N) (hR : F.Resp T) (r : Run σ α) (hr : F.Agree T N r.lens) (p : PVar ι α) (v : α)
    (hp : T.perts = [p]) (hc : T.comps = []) (hs : r.samplers = [Sampler.scalar v])
    (hne : p.var.un v ≠ F.S.get N p.var.idx) (n : Nat) :
    ¬ F.Eqv (runMC_code F.S T r (n+1)).1.lens N :=
  runMC_code_not_restored L hN hT hR r hr p v hp hc hs hne n

/-! ## reproducibility -/

/-- Same sampler states and same stream of values drawn from NumPy's generator ⇒ same table, whatever
lens (within `Agree`) the two runs start from — e.g. a second run on the lens the first left behind.
(That a seeded NumPy generator reproduces the stream is trusted.) -/
theorem seeded_reproducible (L : F.Lawful) {T : Tol σ ι α β} {N : σ} (hN : F.inv N) (hT : F.TolWF T N)
    (hR : F.Resp T) (trials : List (List Nat)) (j : Nat) (r r' : Run σ α)
    (hr : F.Agree T N r.lens) (hr' : F.Agree T N r'.lens) (hs : r.samplers = r'.samplers)
    (hst : r.stream = r'.stream) :
    (runTrials F.S T j r trials).2 = (runTrials F.S T j r' trials).2 :=
  runTrials_reproducible L hN hT hR trials j r r' hr hr' hs hst

/-- the perturbation values of the table and the final sampler states/stream do not depend on the
lens at all -/
theorem sampling_independent_of_lens (L : F.Lawful) {T : Tol σ ι α β} {N : σ} (hN : F.inv N)
    (hT : F.TolWF T N) (hR : F.Resp T) (trials : List (List Nat)) (j : Nat) (r : Run σ α)
    (hr : F.Agree T N r.lens) :
    ((runTrials F.S T j r trials).1.samplers, (runTrials F.S T j r trials).1.stream) =
      (drawTrials T.perts.length r.samplers r.stream trials).1 :=
  (runTrials_spec L hN hT hR trials j r hr).2.2

/-! ## samplers -/
section Samplers
open scoped Num

/-- `RangeSampler.sample()` called `k` times from index `i ≤ len`: the values cycle through
`values` (wrap-around at the end). -/
theorem range_sampler_cycle (vs : List α) (hv : 0 < vs.length) (st : List α) (k i : Nat) (hi : i ≤ vs.length) :
    sampleSeq (.range vs i) st k = (List.range k).map fun j => vs.getD ((i + j) % vs.length) 0 :=
  sampleSeq_range vs hv st k i hi

/-- One block of `SensitivityAnalysis.run` (`size` calls) records exactly the `tolLinspace` values in
order — on the first run (index 0) and on every later run (index = size: wraps to 0). -/
theorem range_sampler_full_cycle (vs : List α) (hv : 0 < vs.length) (st : List α) :
    sampleSeq (.range vs 0) st vs.length = vs ∧ sampleSeq (.range vs vs.length) st vs.length = vs := by
  have key : ∀ i, i = 0 ∨ i = vs.length → sampleSeq (.range vs i) st vs.length = vs := by
    intro i hi
    rw [sampleSeq_range vs hv st vs.length i (by rcases hi with rfl | rfl <;> omega)]
    apply List.ext_getElem
    · simp
    · intro j h1 h2
      simp only [List.getElem_map, List.getElem_range]
      have hj : j < vs.length := h2
      have : (i + j) % vs.length = j := by
        rcases hi with rfl | rfl
        · rw [Nat.zero_add, Nat.mod_eq_of_lt hj]
        · rw [Nat.add_comm, Nat.add_mod_right, Nat.mod_eq_of_lt hj]
      rw [this, List.getD_eq_getElem?_getD, List.getElem?_eq_getElem hj]; rfl
  exact ⟨key 0 (Or.inl rfl), key _ (Or.inr rfl)⟩

/-- A range sampler that has been used before (`k` earlier `sample()` calls: a Monte-Carlo preview, a manual
`apply()`/`reset()`; the driver's `ra` sampler) is the same sampler at some index `i ≤ len`. -/
theorem used_range_sampler_state (vs : List α) (hv : 0 < vs.length) (k : Nat) :
    ∃ i, i ≤ vs.length ∧
      Nat.repeat (fun s => (s.sample ([] : List α)).2.1) k (Sampler.range vs 0) = Sampler.range vs i := by
  induction k with
  | zero => exact ⟨0, Nat.zero_le _, rfl⟩
  | succ k ih =>
    obtain ⟨i, hi, h⟩ := ih
    by_cases hc : vs.length ≤ i
    · refine ⟨1, hv, ?_⟩
      show ((Nat.repeat (fun s => (s.sample ([] : List α)).2.1) k (Sampler.range vs 0)).sample []).2.1 = _
      rw [h]
      simp only [Sampler.sample, if_pos hc]
    · refine ⟨i + 1, by omega, ?_⟩
      show ((Nat.repeat (fun s => (s.sample ([] : List α)).2.1) k (Sampler.range vs 0)).sample []).2.1 = _
      rw [h]
      simp only [Sampler.sample, if_neg hc]

/-- The block of `SensitivityAnalysis.run` on such a sampler records the range values rotated by that index:
every row still holds the value that `sample()` returned (and `sensitivity_rows_fresh`, which holds for *any*
sampler state, pairs it with the operands evaluated for exactly that value). -/
theorem used_range_sampler_block (vs : List α) (hv : 0 < vs.length) (k : Nat) (st : List α) :
    ∃ i, i ≤ vs.length ∧
      sampleSeq (Nat.repeat (fun s => (s.sample ([] : List α)).2.1) k (Sampler.range vs 0)) st vs.length
        = (List.range vs.length).map fun j => vs.getD ((i + j) % vs.length) 0 := by
  obtain ⟨i, hi, h⟩ := used_range_sampler_state vs hv k
  exact ⟨i, hi, by rw [h]; exact sampleSeq_range vs hv st vs.length i hi⟩

example : Nat.repeat (fun s => (s.sample ([] : List ℝ)).2.1) 5 (Sampler.range [10, 20, 30] 0)
    = Sampler.range [10, 20, 30] 2 := by simp [Nat.repeat, Sampler.sample]

/-- a `ScalarSampler` returns its value and does not change -/
theorem scalar_sampler_constant (v : α) (st : List α) : (Sampler.scalar v).sample st = (v, .scalar v, st) := rfl

/-- a `DistributionSampler` consumes exactly one value of the global stream -/
theorem dist_sampler_consumes_one (x : α) (st : List α) : (Sampler.dist).sample (x :: st) = (x, .dist, st) := rfl

theorem linspace_length (a b : α) (n : Nat) : (tolLinspace a b n).length = n := by
  unfold tolLinspace
  rcases n with _ | _ | n <;> simp

end Samplers

/-- over ℝ: `tolLinspace` starts at `start` and ends at `stop` -/
theorem linspace_endpoints (a b : ℝ) (n : Nat) :
    (tolLinspace a b (n+2)).head? = some a ∧ (tolLinspace a b (n+2)).getLast? = some b := by
  unfold tolLinspace
  constructor
  · rw [List.head?_map, List.range_succ_eq_map]
    simp only [List.head?_cons, Option.map_some, Num.ofNat]
    num_real
    simp
  · rw [List.getLast?_map, List.range_succ]
    simp

/-! ## the instance: prescription state machine -/

/-- the variables of `optimization/variable/*.py` on `Presc ℝ` obey the read/write laws (for every
nominal lens `N`; a radius variable is required to sit on a non-plane, thickness and index variables
need a successor surface, coefficient numbers must be in range) -/
theorem presc_variables_lawful (N : Presc ℝ) : (frameP N).Lawful := frameP_lawful N

/-- `Eqv` on `Presc ℝ` is equality of the observable snapshot -/
theorem presc_eqv_is_snapshot_equality (N P Q : Presc ℝ) (hn : 2 ≤ (shapes N).length)
    (h : (frameP N).Eqv P Q) : snapOf P = snapOf Q := eqv_snap N P Q hn h

/-- `reset_restores` on `Presc ℝ`, in observable terms -/
theorem presc_reset_restores_snapshot (N s : Presc ℝ) (hn : 2 ≤ (shapes N).length) (hN : invP N N)
    {T : Tol (Presc ℝ) Var ℝ β} (hT : (frameP N).TolWF T N) (h : (frameP N).Agree T N s) :
    snapOf (T.reset prescSys s) = snapOf N :=
  eqv_snap N _ _ hn (reset_eqv (frameP_lawful N) hN hT h)

/-- `scale`/`inverse_scale` of every variable kind are mutually inverse over ℝ (compensator
variables are created with `apply_scaling=True`) -/
theorem compensator_scaling_roundtrip (v : Var) (x : ℝ) :
    (compVar (α := ℝ) v).un ((compVar v).sc x) = x := compVar_roundtrip v x

/-- without pickups and solves `Optic.update()` (called by the optimiser) changes nothing -/
theorem update_without_pickups_is_identity (P : Presc ℝ) (h1 : P.pickups = []) (h2 : P.solves = []) :
    update P = P := update_id P h1 h2

/-! ### non-vacuity: a concrete singlet, F7 on it -/

noncomputable def demoSurf (z r : ℝ) (gk : GKind) (pre post : Nat) : SRec ℝ :=
  ⟨.standard, gk, z, 0, 0, 0, 0, r, 0, [], pre, post, false, false⟩

/-- object plane, one refracting sphere (R = 50, n = 1.5), image plane -/
noncomputable def demoLens : Presc ℝ :=
  { surfs := [demoSurf (-10) 0 .plane 0 0, demoSurf 0 50 .standard 0 1, demoSurf 100 0 .plane 1 1],
    lastThickness := 0, mats := [1, 3/2], apValue := 1, maxYField := 0 }

theorem demo_inv : invP demoLens demoLens := by
  refine ⟨rfl, ?_, ?_⟩
  · simp [posAt, positions, demoLens, demoSurf]
  · intro t ht
    simp only [demoLens, List.mem_cons, List.not_mem_nil, or_false] at ht
    rcases ht with rfl | rfl | rfl <;> simp [demoSurf, demoLens]

theorem demo_ok : okShape (shapes demoLens) ⟨.radius, 1⟩ :=
  ⟨(SKind.standard, GKind.standard, false, false, 0), rfl, by simp⟩

/-- tolerancing set-up on the singlet: radius of surface 1 perturbed to 60 by a `ScalarSampler`,
operand = that radius, no compensator -/
noncomputable def demoTol : Tol (Presc ℝ) Var ℝ ℝ :=
  { perts := [PVar.make prescSys (pertVar ⟨.radius, 1⟩) demoLens], comps := [],
    operands := [fun P => Var.get P ⟨.radius, 1⟩], oracle := fun _ _ => [] }

theorem demo_wf : (frameP demoLens).TolWF demoTol demoLens := by
  intro p hp
  simp only [demoTol, List.append_nil, List.mem_singleton] at hp
  subst hp
  exact ⟨⟨demo_ok, fun _ => rfl⟩, rfl⟩

theorem demo_resp : (frameP demoLens).Resp demoTol := by
  refine ⟨?_, fun _ _ _ _ => rfl⟩
  intro f hf s t h
  simp only [demoTol, List.mem_singleton] at hf
  subst hf
  exact h.2.2.2 ⟨.radius, 1⟩ demo_ok

/-- F7 on a concrete lens: after the tree's `MonteCarlo.run(n+1)` the singlet is not nominal -/
theorem montecarlo_code_not_restored_demo (st : List ℝ) (n : Nat) :
    ¬ (frameP demoLens).Eqv
      (runMC_code prescSys demoTol ⟨demoLens, [Sampler.scalar 60], st⟩ (n+1)).1.lens demoLens := by
  apply montecarlo_code_not_restored (F := frameP demoLens) (frameP_lawful demoLens) demo_inv demo_wf demo_resp
    ⟨demoLens, [Sampler.scalar 60], st⟩ (agree_of_eqv (eqv_refl demo_inv)) _ 60 rfl rfl rfl _ n
  show (60 : ℝ) ≠ Var.get demoLens ⟨.radius, 1⟩
  simp [Var.get, surfField, demoLens, demoSurf]

/-- …while the repaired loop and the sensitivity loop restore it -/
example (st : List ℝ) (n : Nat) :
    snapOf (runMC_spec prescSys demoTol ⟨demoLens, [Sampler.scalar 60], st⟩ n).1.lens = snapOf demoLens :=
  eqv_snap demoLens _ _ (by simp [shapes, demoLens])
    (montecarlo_restores (F := frameP demoLens) (frameP_lawful demoLens) demo_inv demo_wf demo_resp _
      (agree_of_eqv (eqv_refl demo_inv)) n)

/-! ### non-vacuity with a compensator (review addition)

The set-up above has no compensator and an oracle that is never called.  Here: the radius of surface 1
perturbed by a `RangeSampler`, the thickness behind surface 1 as (scaled) compensator, an
optimiser whose result depends on the lens it is started on (through the observable prescription),
two operands. -/

theorem demo_okT : okShape (shapes demoLens) ⟨.thickness, 1⟩ := by
  show 1 + 1 < (shapes demoLens).length
  simp [shapes, demoLens]

noncomputable def demoTolC : Tol (Presc ℝ) Var ℝ ℝ :=
  { perts := [PVar.make prescSys (pertVar ⟨.radius, 1⟩) demoLens],
    comps := [PVar.make prescSys (compVar ⟨.thickness, 1⟩) demoLens],
    operands := [fun P => Var.get P ⟨.radius, 1⟩, fun P => Var.get P ⟨.thickness, 1⟩],
    oracle := fun _ P => [Var.get P ⟨.radius, 1⟩] }

theorem demo_wfC : (frameP demoLens).TolWF demoTolC demoLens := by
  intro p hp
  simp only [demoTolC, List.cons_append, List.nil_append, List.mem_cons, List.not_mem_nil, or_false] at hp
  rcases hp with rfl | rfl
  · exact ⟨⟨demo_ok, fun _ => rfl⟩, rfl⟩
  · exact ⟨⟨demo_okT, compVar_roundtrip _⟩, rfl⟩

theorem demo_respC : (frameP demoLens).Resp demoTolC := by
  refine ⟨?_, fun _ s t h => congrArg (fun x => [x]) (h.2.2.2 ⟨.radius, 1⟩ demo_ok)⟩
  intro f hf s t h
  simp only [demoTolC, List.mem_cons, List.not_mem_nil, or_false] at hf
  rcases hf with rfl | rfl
  · exact h.2.2.2 ⟨.radius, 1⟩ demo_ok
  · exact h.2.2.2 ⟨.thickness, 1⟩ demo_okT

/-- with the compensator: the sensitivity table is the table of fresh evaluations and the lens is
nominal afterwards (all hypotheses of `sensitivity_rows_fresh` / `sensitivity_restores` discharged) -/
example (st : List ℝ) :
    (runSA prescSys demoTolC ⟨demoLens, [Sampler.mkRange 40 60 3], st⟩).2 =
      specRows prescSys demoTolC demoLens 0 [Sampler.mkRange 40 60 3] st
        (saTrials ([Sampler.mkRange (40:ℝ) 60 3].map Sampler.size)) ∧
    snapOf (runSA prescSys demoTolC ⟨demoLens, [Sampler.mkRange 40 60 3], st⟩).1.lens = snapOf demoLens :=
  ⟨sensitivity_rows_fresh (F := frameP demoLens) (frameP_lawful demoLens) demo_inv demo_wfC demo_respC _
      (agree_of_eqv (eqv_refl demo_inv)),
   eqv_snap demoLens _ _ (by simp [shapes, demoLens])
    (sensitivity_restores (F := frameP demoLens) (frameP_lawful demoLens) demo_inv demo_wfC demo_respC _
      (agree_of_eqv (eqv_refl demo_inv)))⟩

/-! ## finding F-C15-1: index perturbation on a dispersive glass -/

/-- as in the tree: after `reset` of an index perturbation the medium has the nominal index of the
variable's wavelength at *every* wavelength: a dispersive nominal medium (`n1 ≠ n2`) is not restored -/
theorem index_reset_code_loses_dispersion (n1 n2 v : ℝ) (h : n1 ≠ n2) :
    indexReset_code (n1, n2) (indexUpdate (n1, n2) v) n1 ≠ (n1, n2) := by
  simp [indexReset_code, indexUpdate, h]

/-- the reset the property requires (`indexReset_spec` is *defined* as "return the nominal medium":
this is `rfl` and only names the requirement) -/
theorem index_reset_spec_restores (n1 n2 v : ℝ) :
    indexReset_spec (n1, n2) (indexUpdate (n1, n2) v) n1 = (n1, n2) := rfl

/-- for a non-dispersive medium the tree's reset is correct -/
theorem index_reset_code_ok_nondispersive (n v : ℝ) :
    indexReset_code (n, n) (indexUpdate (n, n) v) n = (n, n) := rfl

end C15
