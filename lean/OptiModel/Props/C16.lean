import OptiModel.Model.Real
import OptiModel.Proofs.NumReal
import Mathlib.Tactic.Ring
import Mathlib.Tactic.Positivity
import Mathlib.Tactic.Linarith
/-!
# C16  Ray intensity is never created and is removed exactly as specified

Theorems over ℝ about the intensity path of `Model/Real.lean` (`Ray.propagate` with its
Beer–Lambert factor, `clip`, `interact` with `SimpleCoating`, `traceSurf`, `traceLens`) — the
model that the correspondence run ties to `real_rays.py`, `physical_apertures.py`, `coatings.py`,
`standard_surface.py`.

Specification side: the three factors named by the property,
`atten k λ t = exp(−(4πk/λ)·t·10³)`, `inside ap x y ∈ {0,1}`, `coatFactor s ∈ {T, R, 1}`.
-/
namespace C16
open Model

/-! ### specification: the three factors -/

/-- Beer–Lambert factor over a geometric length `t` (mm) at wavelength `w` (µm), extinction `k` -/
noncomputable def atten (k w t : ℝ) : ℝ := Real.exp (-(4 * Real.pi * k / w) * t * 1000)

open Classical in
/-- indicator of the clear annulus `r_min² ≤ x² + y² ≤ r_max²` (1 when there is no aperture) -/
noncomputable def inside (ap : Option (ℝ × ℝ)) (x y : ℝ) : ℝ :=
  match ap with
  | none => 1
  | some (rmax, rmin) =>
    if rmax * rmax < x * x + y * y ∨ x * x + y * y < rmin * rmin then 0 else 1

/-- the coating factor: `R` at a mirror, `T` at a refracting surface, 1 without coating and at
the image surface -/
def coatFactor (s : RSurf ℝ) : ℝ :=
  match s.kind with
  | .image => 1
  | _ =>
    match s.coating with
    | none => 1
    | some (T, R) => if s.refl then R else T

/-- the per-ray body of `traceSurf` (ray already in the surface frame, `t` = the distance
returned for it) -/
noncomputable def stepRay (s : RSurf ℝ) (w : ℝ) (r : Ray ℝ) (t : ℝ) : Ray ℝ :=
  s.cs.globalize (interact s (clip s.aperture
    { r.propagate t s.k1 w with opd := Num.add (r.propagate t s.k1 w).opd (Num.abs (Num.mul t s.n1)) }))

/-- `traceSurf` is `stepRay` mapped over (localised ray, its distance) -/
theorem traceSurf_body (s : RSurf ℝ) (w : ℝ) (rays : List (Ray ℝ)) (hk : s.kind ≠ .object) :
    traceSurf s w rays =
      ((rays.map s.cs.localize).zip (s.geom.distance (rays.map s.cs.localize))).map
        (fun rt => stepRay s w rt.1 rt.2) := by
  unfold traceSurf
  cases h : s.kind with
  | object => exact absurd h hk
  | standard => rfl
  | image => rfl

theorem traceSurf_object (s : RSurf ℝ) (w : ℝ) (rays : List (Ray ℝ)) (hk : s.kind = .object) :
    traceSurf s w rays = rays := by
  unfold traceSurf; rw [hk]

/-! ### what does not touch the intensity -/

theorem localize_i (c : Cs ℝ) (r : Ray ℝ) : (c.localize r).i = r.i := by
  unfold Cs.localize
  by_cases hx : truthy c.rx = true <;> by_cases hy : truthy c.ry = true <;>
    by_cases hz : truthy c.rz = true <;> simp [hx, hy, hz, Ray.rotateX, Ray.rotateY, Ray.rotateZ, Ray.translate]

theorem globalize_i (c : Cs ℝ) (r : Ray ℝ) : (c.globalize r).i = r.i := by
  unfold Cs.globalize
  by_cases hx : truthy c.rx = true <;> by_cases hy : truthy c.ry = true <;>
    by_cases hz : truthy c.rz = true <;> simp [hx, hy, hz, Ray.rotateX, Ray.rotateY, Ray.rotateZ, Ray.translate]

theorem refract_i (r : Ray ℝ) (nx ny nz n1 n2 : ℝ) : (r.refract nx ny nz n1 n2).i = r.i := rfl
theorem reflect_i (r : Ray ℝ) (nx ny nz : ℝ) : (r.reflect nx ny nz).i = r.i := rfl

/-! ### the three mechanisms -/

/-- Beer–Lambert: `propagate` multiplies the intensity by `exp(−(4πk/λ)·t·10³)` -/
theorem propagate_i (r : Ray ℝ) (t k w : ℝ) : (r.propagate t k w).i = r.i * atten k w t := by
  unfold Ray.propagate atten
  num_real
  simp only [Nat.cast_ofNat, Nat.cast_one, div_one]

theorem propagate_x (r : Ray ℝ) (t k w : ℝ) : (r.propagate t k w).x = r.x + t * r.L := rfl
theorem propagate_y (r : Ray ℝ) (t k w : ℝ) : (r.propagate t k w).y = r.y + t * r.M := rfl

/-- `RadialAperture.clip`: the intensity is multiplied by the annulus indicator, nothing else -/
theorem clip_i (ap : Option (ℝ × ℝ)) (r : Ray ℝ) : (clip ap r).i = r.i * inside ap r.x r.y := by
  unfold clip inside
  cases ap with
  | none => simp
  | some p =>
    obtain ⟨rmax, rmin⟩ := p
    simp only [Bool.or_eq_true]
    num_real
    by_cases h : rmax * rmax < r.x * r.x + r.y * r.y ∨ r.x * r.x + r.y * r.y < rmin * rmin
    · simp [h]
    · simp [h]

/-- `SimpleCoating` through `_interact`: factor `R` at a mirror, `T` otherwise, 1 without -/
theorem interact_i (s : RSurf ℝ) (r : Ray ℝ) : (interact s r).i = r.i * coatFactor s := by
  obtain ⟨kind, cs, geom, n1, n2, k1, refl, ap, co⟩ := s
  unfold interact coatFactor
  generalize geom.normal r = nrm
  obtain ⟨nx, ny, nz⟩ := nrm
  cases kind <;> cases refl <;> cases co with
    | none => simp [refract_i, reflect_i]
    | some p => obtain ⟨T, R⟩ := p; simp [refract_i, reflect_i]; try rfl

/-- **intensity_step**: through one surface the new intensity is
`i · exp(−(4πk/λ)·t·10³) · [hit point inside the aperture] · (T | R | 1)` and nothing else
(`r` is the ray in the surface frame, `t` any distance). -/
theorem intensity_step (s : RSurf ℝ) (w : ℝ) (r : Ray ℝ) (t : ℝ) :
    (stepRay s w r t).i =
      r.i * atten s.k1 w t * inside s.aperture (r.x + t * r.L) (r.y + t * r.M) * coatFactor s := by
  unfold stepRay
  rw [globalize_i, interact_i, clip_i]
  show (r.propagate t s.k1 w).i * inside s.aperture (r.propagate t s.k1 w).x (r.propagate t s.k1 w).y *
      coatFactor s = _
  rw [propagate_i, propagate_x, propagate_y]

/-- a ray landing outside the aperture is dark behind the surface -/
theorem outside_aperture_zero (s : RSurf ℝ) (w : ℝ) (r : Ray ℝ) (t rmax rmin : ℝ)
    (hap : s.aperture = some (rmax, rmin))
    (hout : rmax * rmax < (r.x + t * r.L) * (r.x + t * r.L) + (r.y + t * r.M) * (r.y + t * r.M) ∨
            (r.x + t * r.L) * (r.x + t * r.L) + (r.y + t * r.M) * (r.y + t * r.M) < rmin * rmin) :
    (stepRay s w r t).i = 0 := by
  rw [intensity_step, hap]
  simp [inside, hout]

/-- a ray landing inside the aperture (or no aperture) of an uncoated surface in a medium with
`k = 0` keeps its intensity exactly -/
theorem clear_path_keeps_intensity (s : RSurf ℝ) (w : ℝ) (r : Ray ℝ) (t : ℝ)
    (hk : s.k1 = 0) (hap : s.aperture = none) (hco : s.coating = none) :
    (stepRay s w r t).i = r.i := by
  rw [intensity_step, hk, hap]
  have : coatFactor s = 1 := by unfold coatFactor; rw [hco]; cases s.kind <;> rfl
  simp [atten, inside, this]

/-! ### ranges of the factors -/

theorem atten_pos (k w t : ℝ) : 0 < atten k w t := Real.exp_pos _

theorem atten_le_one (k w t : ℝ) (hk : 0 ≤ k) (hw : 0 < w) (ht : 0 ≤ t) : atten k w t ≤ 1 := by
  unfold atten
  rw [Real.exp_le_one_iff]
  have h : 0 ≤ 4 * Real.pi * k / w := by have := Real.pi_pos; positivity
  nlinarith [mul_nonneg h ht]

theorem inside_cases (ap : Option (ℝ × ℝ)) (x y : ℝ) : inside ap x y = 0 ∨ inside ap x y = 1 := by
  unfold inside
  cases ap with
  | none => right; rfl
  | some p =>
    obtain ⟨a, b⟩ := p
    by_cases h : a * a < x * x + y * y ∨ x * x + y * y < b * b <;> simp [h]

/-- a passive surface: extinction of the medium in front `≥ 0`, coating `0 ≤ T, R ≤ 1` -/
def Passive (s : RSurf ℝ) : Prop :=
  0 ≤ s.k1 ∧ ∀ T R, s.coating = some (T, R) → 0 ≤ T ∧ T ≤ 1 ∧ 0 ≤ R ∧ R ≤ 1

theorem coatFactor_range (s : RSurf ℝ) (hp : Passive s) : 0 ≤ coatFactor s ∧ coatFactor s ≤ 1 := by
  obtain ⟨kind, cs, geom, n1, n2, k1, refl, ap, co⟩ := s
  unfold coatFactor
  cases co with
  | none => cases kind <;> simp
  | some p =>
    obtain ⟨T, R⟩ := p
    have h := hp.2 T R rfl
    cases kind <;> cases refl <;> simp <;> first | exact ⟨h.1, h.2.1⟩ | exact ⟨h.2.2.1, h.2.2.2⟩

/-- the total factor of one passive step with `t ≥ 0` lies in `[0,1]` -/
theorem step_factor_range (s : RSurf ℝ) (w t x y : ℝ) (hp : Passive s) (hw : 0 < w) (ht : 0 ≤ t) :
    0 ≤ atten s.k1 w t * inside s.aperture x y * coatFactor s ∧
    atten s.k1 w t * inside s.aperture x y * coatFactor s ≤ 1 := by
  have ha0 := (atten_pos s.k1 w t).le
  have ha1 := atten_le_one s.k1 w t hp.1 hw ht
  obtain ⟨hc0, hc1⟩ := coatFactor_range s hp
  rcases inside_cases s.aperture x y with h | h <;> rw [h]
  · simp
  · constructor
    · positivity
    · nlinarith [mul_le_one₀ ha1 hc0 hc1]

/-- one passive step: `0 ≤ i' ≤ i` -/
theorem step_monotone (s : RSurf ℝ) (w : ℝ) (r : Ray ℝ) (t : ℝ) (hp : Passive s) (hw : 0 < w)
    (ht : 0 ≤ t) (hi : 0 ≤ r.i) : 0 ≤ (stepRay s w r t).i ∧ (stepRay s w r t).i ≤ r.i := by
  rw [intensity_step]
  obtain ⟨h0, h1⟩ := step_factor_range s w t (r.x + t * r.L) (r.y + t * r.M) hp hw ht
  have e : r.i * atten s.k1 w t * inside s.aperture (r.x + t * r.L) (r.y + t * r.M) * coatFactor s =
      r.i * (atten s.k1 w t * inside s.aperture (r.x + t * r.L) (r.y + t * r.M) * coatFactor s) := by ring
  rw [e]
  exact ⟨mul_nonneg hi h0, mul_le_of_le_one_right hi h1⟩

/-- one step, any surface, any `t`: a dark ray stays dark -/
theorem step_dark (s : RSurf ℝ) (w : ℝ) (r : Ray ℝ) (t : ℝ) (hi : r.i = 0) : (stepRay s w r t).i = 0 := by
  rw [intensity_step, hi]; simp

/-! ### lifting through the batch (`List.zip` / `List.map`) -/

theorem nrSweep_length (g : Geom ℝ) (rays : List (Ray ℝ)) (pts : List (ℝ × ℝ × ℝ))
    (h : pts.length = rays.length) : (nrSweep g rays pts).1.length = rays.length := by
  simp [nrSweep, h]

theorem nrLoop_length (g : Geom ℝ) (rays : List (Ray ℝ)) (tol : ℝ) :
    ∀ (n : Nat) (pts : List (ℝ × ℝ × ℝ)), pts.length = rays.length →
      (nrLoop g rays tol n pts).length = rays.length
  | 0, pts, h => by simpa [nrLoop] using h
  | n+1, pts, h => by
    unfold nrLoop
    have hs := nrSweep_length g rays pts h
    generalize nrSweep g rays pts = sw at hs
    obtain ⟨pts', m⟩ := sw
    simp only
    split
    · exact hs
    · exact nrLoop_length g rays tol n pts' hs

theorem nrDistance_length (g : Geom ℝ) (R tol : ℝ) (mi : Nat) (rays : List (Ray ℝ)) :
    (nrDistance g R tol mi rays).length = rays.length := by
  unfold nrDistance
  simp [nrLoop_length g rays tol mi (rays.map (sphereGuess R)) (by simp)]

/-- every geometry returns one distance per ray -/
theorem distance_length (g : Geom ℝ) (rays : List (Ray ℝ)) : (g.distance rays).length = rays.length := by
  cases g <;> simp [Geom.distance, nrDistance_length]

/-- the batch trace keeps the number (and order) of rays -/
theorem traceSurf_length (s : RSurf ℝ) (w : ℝ) (rays : List (Ray ℝ)) :
    (traceSurf s w rays).length = rays.length := by
  by_cases hk : s.kind = .object
  · rw [traceSurf_object s w rays hk]
  · rw [traceSurf_body s w rays hk]; simp [distance_length]

/-- generic lifting lemma: a relation that holds between `a` and `f (g a, t)` for every `t` drawn
from `ts` holds position-wise between `l` and `((l.map g).zip ts).map f` -/
theorem forall₂_zip_map {β γ : Type} (Rel : β → γ → Prop) (g : β → β) (f : β × ℝ → γ) (P : ℝ → Prop) :
    ∀ (l : List β) (ts : List ℝ), ts.length = l.length → (∀ t ∈ ts, P t) →
      (∀ a t, P t → Rel a (f (g a, t))) → List.Forall₂ Rel l (((l.map g).zip ts).map f)
  | [], ts, _, _, _ => by simp
  | a :: l, [], h, _, _ => by simp at h
  | a :: l, t :: ts, h, hP, hR => by
    simp only [List.map_cons, List.zip_cons_cons]
    refine List.Forall₂.cons (hR a t (hP t (by simp))) ?_
    exact forall₂_zip_map Rel g f P l ts (by simpa using h) (fun t' ht' => hP t' (by simp [ht'])) hR

/-- **traceSurf_intensity** (batch form of `intensity_step`): position by position, the intensity
behind a non-object surface is the intensity in front times the three factors, evaluated with that
ray's own distance and hit point in the surface frame. -/
theorem traceSurf_intensity (s : RSurf ℝ) (w : ℝ) (rays : List (Ray ℝ)) (hk : s.kind ≠ .object) :
    List.Forall₂
      (fun (rt : Ray ℝ × ℝ) (r' : Ray ℝ) =>
        r'.i = rt.1.i * atten s.k1 w rt.2 *
          inside s.aperture ((s.cs.localize rt.1).x + rt.2 * (s.cs.localize rt.1).L)
                            ((s.cs.localize rt.1).y + rt.2 * (s.cs.localize rt.1).M) * coatFactor s)
      (rays.zip (s.geom.distance (rays.map s.cs.localize))) (traceSurf s w rays) := by
  rw [traceSurf_body s w rays hk]
  generalize hts : s.geom.distance (rays.map s.cs.localize) = ts
  have hl : ts.length = rays.length := by rw [← hts, distance_length]; simp
  clear hts
  induction rays generalizing ts with
  | nil => simp
  | cons a l ih =>
    cases ts with
    | nil => simp at hl
    | cons t ts =>
      simp only [List.map_cons, List.zip_cons_cons]
      refine List.Forall₂.cons ?_ (ih ts (by simpa using hl))
      show (stepRay s w (s.cs.localize a) t).i = _
      rw [intensity_step, localize_i]

/-- an object surface hands the batch on unchanged -/
theorem traceSurf_object_intensity (s : RSurf ℝ) (w : ℝ) (rays : List (Ray ℝ)) (hk : s.kind = .object) :
    List.Forall₂ (fun r r' => r'.i = r.i) rays (traceSurf s w rays) := by
  rw [traceSurf_object s w rays hk]
  induction rays with
  | nil => simp
  | cons a l ih => exact List.Forall₂.cons rfl ih

/-! ### along every ray, for every lens -/

/-- `Along P rays recs`: for every ray position, `P i_prev i_next` holds between the launch batch
and the first record and between every two consecutive per-surface records (`Forall₂` also says
that every record has as many rays as the launch batch) -/
def Along (P : ℝ → ℝ → Prop) : List (Ray ℝ) → List (List (Ray ℝ)) → Prop
  | _, [] => True
  | prev, cur :: rest => List.Forall₂ (fun a b => P a.i b.i) prev cur ∧ Along P cur rest

/-- every distance the lens returns for these rays is `≥ 0` (the geometric length `d` of the
property; a predicate on lens and rays because `t` comes out of `Geom.distance`) -/
def DistNonneg (w : ℝ) : List (RSurf ℝ) → List (Ray ℝ) → Prop
  | [], _ => True
  | s :: ss, rays =>
    (s.kind ≠ .object → ∀ t ∈ s.geom.distance (rays.map s.cs.localize), 0 ≤ t) ∧
      DistNonneg w ss (traceSurf s w rays)

def InUnit (rays : List (Ray ℝ)) : Prop := ∀ r ∈ rays, 0 ≤ r.i ∧ r.i ≤ 1

/-- one surface on a batch: `0 ≤ i' ≤ i` position-wise -/
theorem traceSurf_monotone (s : RSurf ℝ) (w : ℝ) (rays : List (Ray ℝ)) (hp : Passive s) (hw : 0 < w)
    (ht : s.kind ≠ .object → ∀ t ∈ s.geom.distance (rays.map s.cs.localize), 0 ≤ t)
    (hi : ∀ r ∈ rays, 0 ≤ r.i) :
    List.Forall₂ (fun a b => 0 ≤ b.i ∧ b.i ≤ a.i) rays (traceSurf s w rays) := by
  by_cases hk : s.kind = .object
  · rw [traceSurf_object s w rays hk]
    clear ht
    induction rays with
    | nil => simp
    | cons a l ih =>
      exact List.Forall₂.cons ⟨hi a (by simp), le_refl _⟩ (ih (fun r hr => hi r (by simp [hr])))
  · have hts := ht hk
    clear ht
    rw [traceSurf_body s w rays hk]
    generalize hd : s.geom.distance (rays.map s.cs.localize) = ts at hts
    have hl : ts.length = rays.length := by rw [← hd, distance_length]; simp
    clear hd
    induction rays generalizing ts with
    | nil => simp
    | cons a l ih =>
      cases ts with
      | nil => simp at hl
      | cons t ts =>
        simp only [List.map_cons, List.zip_cons_cons]
        refine List.Forall₂.cons ?_ (ih (fun r hr => hi r (by simp [hr])) ts
          (fun t' ht' => hts t' (by simp [ht'])) (by simpa using hl))
        have := step_monotone s w (s.cs.localize a) t hp hw (hts t (by simp))
          (by rw [localize_i]; exact hi a (by simp))
        rwa [localize_i] at this

theorem forall₂_imp_right {β : Type} {R : β → β → Prop} {Q : β → Prop} :
    ∀ {l l' : List β}, List.Forall₂ R l l' → (∀ a b, a ∈ l → R a b → Q b) → ∀ b ∈ l', Q b
  | _, _, .nil, _, b, hb => by simp at hb
  | _, _, .cons (a := a) (b := b0) (l₁ := l) (l₂ := l') h t, hq, b, hb => by
    rcases List.mem_cons.mp hb with e | e
    · rw [e]; exact hq a b0 (by simp) h
    · exact forall₂_imp_right t (fun a' b' ha' => hq a' b' (by simp [ha'])) b e

/-- **intensity_monotone**: along every ray, through every passive lens, the intensity is
non-negative and never increases from one record to the next. -/
theorem intensity_monotone (w : ℝ) (hw : 0 < w) : ∀ (ss : List (RSurf ℝ)) (rays : List (Ray ℝ)),
    (∀ s ∈ ss, Passive s) → DistNonneg w ss rays → (∀ r ∈ rays, 0 ≤ r.i) →
    Along (fun i i' => 0 ≤ i' ∧ i' ≤ i) rays (traceLens w ss rays)
  | [], _, _, _, _ => by simp [traceLens, Along]
  | s :: ss, rays, hp, hd, hi => by
    have h1 := traceSurf_monotone s w rays (hp s (by simp)) hw hd.1 hi
    refine ⟨h1, intensity_monotone w hw ss _ (fun t ht => hp t (by simp [ht])) hd.2 ?_⟩
    exact forall₂_imp_right h1 (fun _ _ _ h => h.1)

/-- **intensity_in_unit_interval**: if the launched intensities lie in `[0,1]`, so does every
recorded intensity at every surface. -/
theorem intensity_in_unit_interval (w : ℝ) (hw : 0 < w) : ∀ (ss : List (RSurf ℝ)) (rays : List (Ray ℝ)),
    (∀ s ∈ ss, Passive s) → DistNonneg w ss rays → InUnit rays →
    ∀ recs ∈ traceLens w ss rays, InUnit recs
  | [], _, _, _, _ => by simp [traceLens]
  | s :: ss, rays, hp, hd, hi => by
    have h1 := traceSurf_monotone s w rays (hp s (by simp)) hw hd.1 (fun r hr => (hi r hr).1)
    have hu : InUnit (traceSurf s w rays) := fun r hr =>
      forall₂_imp_right (Q := fun b => 0 ≤ b.i ∧ b.i ≤ 1) h1
        (fun a b ha h => ⟨h.1, le_trans h.2 (hi a ha).2⟩) r hr
    intro recs hr
    simp only [traceLens, List.mem_cons] at hr
    rcases hr with e | e
    · rw [e]; exact hu
    · exact intensity_in_unit_interval w hw ss _ (fun t ht => hp t (by simp [ht])) hd.2 hu recs e

/-- one surface on a batch, no hypotheses at all: zero stays zero -/
theorem traceSurf_dark (s : RSurf ℝ) (w : ℝ) (rays : List (Ray ℝ)) :
    List.Forall₂ (fun a b => a.i = 0 → b.i = 0) rays (traceSurf s w rays) := by
  by_cases hk : s.kind = .object
  · rw [traceSurf_object s w rays hk]
    induction rays with
    | nil => simp
    | cons a l ih => exact List.Forall₂.cons id ih
  · rw [traceSurf_body s w rays hk]
    exact forall₂_zip_map (fun a b => a.i = 0 → b.i = 0) s.cs.localize
      (fun rt => stepRay s w rt.1 rt.2) (fun _ => True) rays
      (s.geom.distance (rays.map s.cs.localize)) (by rw [distance_length, List.length_map])
      (fun _ _ => trivial)
      (fun a t _ h => step_dark s w (s.cs.localize a) t (by rw [localize_i]; exact h))

/-- **dark_stays_dark**: for every lens (no hypothesis on `k`, `T`, `R`, distances) a ray whose
intensity is 0 at one record has intensity 0 at the next, hence at all later ones. -/
theorem dark_stays_dark (w : ℝ) : ∀ (ss : List (RSurf ℝ)) (rays : List (Ray ℝ)),
    Along (fun i i' => i = 0 → i' = 0) rays (traceLens w ss rays)
  | [], _ => by simp [traceLens, Along]
  | s :: ss, rays => ⟨traceSurf_dark s w rays, dark_stays_dark w ss _⟩

/-! ### the record is the ray -/

/-- the batch `SurfaceGroup.trace` returns -/
noncomputable def finalRays (w : ℝ) : List (RSurf ℝ) → List (Ray ℝ) → List (Ray ℝ)
  | [], rays => rays
  | s :: ss, rays => finalRays w ss (traceSurf s w rays)

/-- **recorded_intensity_is_ray_intensity**: each per-surface record *is* the batch handed to the
next surface, and the last record is the batch returned by the trace (so `rays.i` equals
`surface_group.intensity[-1]` and the write-back in `Optic.trace` changes nothing).
(Review: `finalRays` is defined in this file and `traceLens` records, by definition, the batch it
passes on, so this is a property of how the model is written; `Model.Fx.groupTraceR` returns
`(traceLens …).getLastD rays` directly.  The clause "intensities reported by analyses are those of
the traced rays" is not the subject of any theorem; it is checked by the conformance run only.) -/
theorem recorded_intensity_is_ray_intensity (w : ℝ) : ∀ (ss : List (RSurf ℝ)) (rays : List (Ray ℝ)),
    ss ≠ [] → (traceLens w ss rays).getLast? = some (finalRays w ss rays)
  | [], _, h => absurd rfl h
  | [s], rays, _ => by simp [traceLens, finalRays]
  | s :: s' :: ss, rays, _ => by
    have ih := recorded_intensity_is_ray_intensity w (s' :: ss) (traceSurf s w rays) (by simp)
    simp only [traceLens, finalRays] at ih ⊢
    rw [List.getLast?_cons_cons]
    exact ih

theorem record_is_next_input (w : ℝ) (s : RSurf ℝ) (ss : List (RSurf ℝ)) (rays : List (Ray ℝ)) :
    traceLens w (s :: ss) rays = traceSurf s w rays :: traceLens w ss (traceSurf s w rays) := rfl

/-! ### the distance hypothesis is satisfiable: planes and Newton–Raphson shapes -/

/-- over ℝ.  Where the code returns `nan` (a plane behind the ray: `-z/N < 0`) the model over ℝ has
the junk value `0/0 = 0`, and at `N = 0` it has `-z/0 = 0`: in those two cases this inequality says
nothing about the code (see `GenuineHit`). -/
theorem planeDistance_nonneg (r : Ray ℝ) : 0 ≤ planeDistance r := by
  unfold planeDistance maskNeg
  num_real
  split
  · simp
  · linarith

theorem distance_nonneg_plane (rays : List (Ray ℝ)) : ∀ t ∈ (Geom.plane : Geom ℝ).distance rays, 0 ≤ t := by
  intro t ht
  simp only [Geom.distance, List.mem_map] at ht
  obtain ⟨r, _, e⟩ := ht
  rw [← e]; exact planeDistance_nonneg r

theorem maskNeg_nonneg (t v : ℝ) (hv : 0 ≤ v) : 0 ≤ maskNeg t v := by
  unfold maskNeg
  num_real
  split
  · exact hv
  · linarith

/-- the quadratic branch of `StandardGeometry.distance` (`a ≠ 0`) masks negative roots (to `inf` in
the code, to the junk value 0 over ℝ), so what it returns is never negative; the linear branch
`a = 0` returns `-c/b` unmasked — this is the one place where a negative distance can come from -/
theorem selectRoot_nonneg (a b c z N : ℝ) (ha : a ≠ 0) : 0 ≤ selectRoot a b c z N := by
  unfold selectRoot
  have hz : ¬ (Num.isZero a = true) := by rw [NumReal.isZero_eq]; exact ha
  simp only [if_neg hz]
  have hinf : (0:ℝ) ≤ Num.inf := le_refl _
  split
  · exact maskNeg_nonneg _ _ hinf
  · exact maskNeg_nonneg _ _ hinf

/-- every distance a geometry returns *in the model over ℝ* is `≥ 0`, except possibly from the linear
branch of the conic (`a = L² + M² + (1+k)N² = 0`: a paraboloid met by an axis-parallel ray).
Caution (review): for rays that miss the surface this is true for the wrong reason.  The code returns
`nan` (negative discriminant, plane behind the ray, Newton–Raphson not converged) or `inf` (both
roots masked) there, and the intensity becomes `nan` (or `0·…`); over ℝ these are the junk values
`Real.sqrt (negative) = 0`, `0/0 = 0`, `Num.inf = 0`, which are `≥ 0`.  `GenuineHit` below names the
rays for which the ℝ value is the one the code computes. -/
theorem distance_nonneg (g : Geom ℝ) (rays : List (Ray ℝ))
    (hstd : ∀ R k, g = .standard R k → ∀ r ∈ rays, (conicABC R k r).1 ≠ 0) :
    ∀ t ∈ g.distance rays, 0 ≤ t := by
  intro t ht
  cases g with
  | plane => exact distance_nonneg_plane rays t ht
  | standard R k =>
    simp only [Geom.distance, List.mem_map] at ht
    obtain ⟨r, hr, e⟩ := ht
    rw [← e]
    unfold stdDistance
    have := hstd R k rfl r hr
    generalize conicABC R k r = abc at this
    obtain ⟨a, b, c⟩ := abc
    exact selectRoot_nonneg a b c _ _ this
  | evenAsphere R k tol mi c =>
    simp only [Geom.distance, nrDistance, List.mem_map] at ht
    obtain ⟨pr, _, e⟩ := ht
    rw [← e]; exact Real.sqrt_nonneg _
  | polynomial R k tol mi c =>
    simp only [Geom.distance, nrDistance, List.mem_map] at ht
    obtain ⟨pr, _, e⟩ := ht
    rw [← e]; exact Real.sqrt_nonneg _
  | chebyshev R k tol mi c nx ny =>
    simp only [Geom.distance, nrDistance, List.mem_map] at ht
    obtain ⟨pr, _, e⟩ := ht
    rw [← e]; exact Real.sqrt_nonneg _

/-- a lens made of plane surfaces meets `DistNonneg` for every batch -/
theorem distNonneg_planes (w : ℝ) : ∀ (ss : List (RSurf ℝ)) (rays : List (Ray ℝ)),
    (∀ s ∈ ss, s.geom = .plane) → DistNonneg w ss rays
  | [], _, _ => trivial
  | s :: ss, rays, h => by
    refine ⟨fun _ => ?_, distNonneg_planes w ss _ (fun t ht => h t (by simp [ht]))⟩
    rw [h s (by simp)]; exact distance_nonneg_plane _

/-- the rays never take the linear branch of a conic (`a = 0`) anywhere in the lens -/
def NoLinearBranch (w : ℝ) : List (RSurf ℝ) → List (Ray ℝ) → Prop
  | [], _ => True
  | s :: ss, rays =>
    (∀ R k, s.geom = .standard R k → ∀ r ∈ rays.map s.cs.localize, (conicABC R k r).1 ≠ 0) ∧
      NoLinearBranch w ss (traceSurf s w rays)

/-- `DistNonneg` holds *in the model over ℝ* for every lens and batch that avoid the conic's linear
branch (`L² + M² + (1+k)N² = 0`, where the code returns `-c/b` without masking negative values).
This includes rays that miss a surface, for which the statement rests on junk values (see
`distance_nonneg`); the version restricted to rays the code traces without `nan`/`inf` is
`distNonneg_of_genuine`. -/
theorem distNonneg_of_noLinearBranch (w : ℝ) : ∀ (ss : List (RSurf ℝ)) (rays : List (Ray ℝ)),
    NoLinearBranch w ss rays → DistNonneg w ss rays
  | [], _, _ => trivial
  | s :: ss, rays, h =>
    ⟨fun _ => distance_nonneg s.geom _ h.1, distNonneg_of_noLinearBranch w ss _ h.2⟩

/-! ### non-vacuity -/

/-- an absorbing, apertured (with obscuration), coated plane surface -/
noncomputable def exSurf : RSurf ℝ :=
  ⟨.standard, ⟨0, 0, 10, 0, 0, 0⟩, .plane, 3/2, 1, 1/100000, false, some (5, 1), some (1/2, 1/4)⟩
/-- its mirror twin -/
noncomputable def exMirror : RSurf ℝ :=
  ⟨.standard, ⟨0, 0, 20, 0, 0, 0⟩, .plane, 1, 1, 0, true, none, some (1/2, 1/4)⟩

/-- the hypotheses of the whole-lens theorems are satisfiable by a lens with absorption, an
annular aperture, a coating and a mirror, and a batch of two rays (one lit, one dark) -/
example : (∀ s ∈ [exSurf, exMirror], Passive s) ∧
    DistNonneg (11/20) [exSurf, exMirror] [⟨0, 2, 0, 0, 0, 1, 1, 0⟩, ⟨0, 0, 0, 0, 0, 1, 0, 0⟩] ∧
    InUnit [⟨0, 2, 0, 0, 0, 1, 1, 0⟩, ⟨0, 0, 0, 0, 0, 1, 0, 0⟩] := by
  refine ⟨?_, distNonneg_planes _ _ _ (by simp [exSurf, exMirror]), ?_⟩
  · intro s hs
    simp only [List.mem_cons, List.not_mem_nil, or_false] at hs
    rcases hs with e | e <;> rw [e] <;> refine ⟨by norm_num [exSurf, exMirror], ?_⟩ <;>
      intro T R h <;> simp only [exSurf, exMirror, Option.some.injEq, Prod.mk.injEq] at h <;>
      obtain ⟨h1, h2⟩ := h <;> rw [← h1, ← h2] <;> norm_num
  · intro r hr
    simp only [List.mem_cons, List.not_mem_nil, or_false] at hr
    rcases hr with e | e <;> rw [e] <;> norm_num

/-- and the step law is not the trivial `0 = 0`: the factor of the lit ray at `exSurf` is
`exp(−(4π·10⁻⁵/0.55)·10·10³)·1·½ ≠ 0` -/
example : (stepRay exSurf (11/20) ⟨0, 2, -10, 0, 0, 1, 1, 0⟩ 10).i =
    Real.exp (-(4 * Real.pi * (1/100000) / (11/20)) * 10 * 1000) * (1/2) := by
  rw [intensity_step]
  have : inside exSurf.aperture ((0:ℝ) + 10 * 0) (2 + 10 * 0) = 1 := by
    simp only [exSurf, inside]; norm_num
  rw [this]
  simp [exSurf, coatFactor, atten]

/-! ### review: rays the code traces without `nan` / `inf`

`DistNonneg` is a hypothesis about the distances of the model over ℝ.  Where the float code produces
`nan` or `inf` (ray misses the surface) the ℝ model has junk values that happen to be `≥ 0`, so
`distNonneg_of_noLinearBranch` also "covers" such rays, for which `intensity_monotone` says nothing
about the code.  `GenuineHit` singles out the closed-form intersections in which no masked, undefined
or divided-by-zero value is used: there the ℝ expression is the one the code evaluates. -/

/-- the ray (in the surface frame) meets a plane in front of it, or a conic with `a ≠ 0`, a
non-negative discriminant and two non-negative roots (no root is masked to `inf`, so the root
selection compares the two genuine candidates); Newton–Raphson shapes: no condition (their distance
is a `sqrt` of a sum of squares; convergence is not addressed) -/
def GenuineHit (g : Geom ℝ) (r : Ray ℝ) : Prop :=
  match g with
  | .plane => r.N ≠ 0 ∧ 0 ≤ -r.z / r.N
  | .standard R k =>
    (conicABC R k r).1 ≠ 0 ∧
    0 ≤ (conicABC R k r).2.1 ^ 2 - 4 * (conicABC R k r).1 * (conicABC R k r).2.2 ∧
    0 ≤ (-(conicABC R k r).2.1 -
          Real.sqrt ((conicABC R k r).2.1 ^ 2 - 4 * (conicABC R k r).1 * (conicABC R k r).2.2)) /
        (2 * (conicABC R k r).1) ∧
    0 ≤ (-(conicABC R k r).2.1 +
          Real.sqrt ((conicABC R k r).2.1 ^ 2 - 4 * (conicABC R k r).1 * (conicABC R k r).2.2)) /
        (2 * (conicABC R k r).1)
  | _ => True

/-- on a genuine hit the plane distance is the unmasked `-z/N` -/
theorem planeDistance_genuine (r : Ray ℝ) (h : GenuineHit .plane r) : planeDistance r = -r.z / r.N := by
  unfold planeDistance maskNeg
  num_real
  rw [if_neg (not_lt.2 h.2)]

/-- on a genuine hit the conic distance is one of the two unmasked roots of the quadratic -/
theorem stdDistance_genuine (R k : ℝ) (r : Ray ℝ) (h : GenuineHit (.standard R k) r) :
    stdDistance R k r = (-(conicABC R k r).2.1 +
        Real.sqrt ((conicABC R k r).2.1 ^ 2 - 4 * (conicABC R k r).1 * (conicABC R k r).2.2)) /
        (2 * (conicABC R k r).1) ∨
    stdDistance R k r = (-(conicABC R k r).2.1 -
        Real.sqrt ((conicABC R k r).2.1 ^ 2 - 4 * (conicABC R k r).1 * (conicABC R k r).2.2)) /
        (2 * (conicABC R k r).1) := by
  obtain ⟨ha, _, h2, h1⟩ := h
  unfold stdDistance
  generalize conicABC R k r = abc at ha h1 h2 ⊢
  obtain ⟨a, b, c⟩ := abc
  simp only at ha h1 h2 ⊢
  unfold selectRoot maskNeg
  have hz : ¬ (Num.isZero a = true) := by rw [NumReal.isZero_eq]; exact ha
  simp only [if_neg hz]
  num_real
  simp only [Nat.cast_ofNat, Nat.cast_one, div_one]
  have e : b * b - 4 * a * c = b ^ 2 - 4 * a * c := by ring
  rw [e, if_neg (not_lt.2 h1), if_neg (not_lt.2 h2)]
  split
  · left; rfl
  · right; rfl

/-- every ray of the batch makes a genuine hit at every surface of the lens -/
def GenuineLens (w : ℝ) : List (RSurf ℝ) → List (Ray ℝ) → Prop
  | [], _ => True
  | s :: ss, rays =>
    (s.kind ≠ .object → ∀ r ∈ rays.map s.cs.localize, GenuineHit s.geom r) ∧
      GenuineLens w ss (traceSurf s w rays)

theorem distance_nonneg_of_genuine (g : Geom ℝ) (rays : List (Ray ℝ)) (h : ∀ r ∈ rays, GenuineHit g r) :
    ∀ t ∈ g.distance rays, 0 ≤ t := by
  apply distance_nonneg
  intro R k hg r hr
  have := h r hr
  rw [hg] at this
  exact this.1

/-- `DistNonneg` for lenses and batches on which the ℝ model computes what the code computes -/
theorem distNonneg_of_genuine (w : ℝ) : ∀ (ss : List (RSurf ℝ)) (rays : List (Ray ℝ)),
    GenuineLens w ss rays → DistNonneg w ss rays
  | [], _, _ => trivial
  | s :: ss, rays, h =>
    ⟨fun hk => distance_nonneg_of_genuine s.geom _ (h.1 hk), distNonneg_of_genuine w ss _ h.2⟩

/-- **intensity_monotone / intensity_in_unit_interval on genuinely traced rays**: the form of the two
whole-lens theorems whose hypotheses exclude every `nan`/`inf` branch of the closed-form geometries -/
theorem intensity_monotone_genuine (w : ℝ) (hw : 0 < w) (ss : List (RSurf ℝ)) (rays : List (Ray ℝ))
    (hp : ∀ s ∈ ss, Passive s) (hg : GenuineLens w ss rays) (hi : InUnit rays) :
    Along (fun i i' => 0 ≤ i' ∧ i' ≤ i) rays (traceLens w ss rays) ∧
    ∀ recs ∈ traceLens w ss rays, InUnit recs :=
  ⟨intensity_monotone w hw ss rays hp (distNonneg_of_genuine w ss rays hg) (fun r hr => (hi r hr).1),
   intensity_in_unit_interval w hw ss rays hp (distNonneg_of_genuine w ss rays hg) hi⟩

/-- an absorbing, apertured, coated *spherical* surface (R = 50) at `z = 0` -/
noncomputable def exSphere : RSurf ℝ :=
  ⟨.standard, ⟨0, 0, 0, 0, 0, 0⟩, .standard 50 0, 3/2, 1, 1/100000, false, some (5, 1), some (1/2, 1/4)⟩

/-- non-vacuity with a curved surface: the ray from `(0, 2, −10)` along `+z` makes a genuine hit on the
sphere (`a = 1`, `b = −120`, `c = 1104`, discriminant `9984`, both roots positive) -/
example : GenuineLens (11/20) [exSphere] [⟨0, 2, -10, 0, 0, 1, 1, 0⟩] ∧ Passive exSphere := by
  have hloc : exSphere.cs.localize ⟨0, 2, -10, 0, 0, 1, 1, 0⟩ = (⟨0, 2, -10, 0, 0, 1, 1, 0⟩ : Ray ℝ) := by
    have hz : Num.isZero (0:ℝ) = true := by rw [NumReal.isZero_eq]
    simp only [exSphere, Cs.localize, truthy, hz, Ray.translate, Bool.not_true, Bool.false_eq_true, if_false]
    num_real
    norm_num
  have habc : conicABC 50 0 (⟨0, 2, -10, 0, 0, 1, 1, 0⟩ : Ray ℝ) = (1, -120, 1104) := by
    simp only [conicABC]
    num_real
    norm_num
  have hd : ((-120:ℝ)) ^ 2 - 4 * 1 * 1104 = 9984 := by norm_num
  have hs0 : 0 ≤ Real.sqrt 9984 := Real.sqrt_nonneg _
  have hs1 : Real.sqrt 9984 ≤ 120 := by
    rw [Real.sqrt_le_iff]; constructor <;> norm_num
  refine ⟨⟨fun _ r hr => ?_, trivial⟩, ?_⟩
  · simp only [List.map_cons, List.map_nil, List.mem_singleton, hloc] at hr
    subst hr
    show GenuineHit (.standard 50 0) _
    simp only [GenuineHit, habc, hd]
    refine ⟨one_ne_zero, by norm_num, ?_, ?_⟩
    · apply div_nonneg <;> linarith
    · apply div_nonneg <;> linarith
  · refine ⟨by norm_num [exSphere], ?_⟩
    intro T R h
    simp only [exSphere, Option.some.injEq, Prod.mk.injEq] at h
    obtain ⟨h1, h2⟩ := h
    rw [← h1, ← h2]; norm_num

end C16
