import OptiModel.Model.Real
import OptiModel.Proofs.NumReal
import OptiModel.Proofs.Polar
import Mathlib.Tactic.Ring
import Mathlib.Tactic.Positivity
import Mathlib.Tactic.Linarith
import Mathlib.Tactic.FieldSimp
import Mathlib.Tactic.LinearCombination
/-!
# C16  Ray intensity is never created and is removed exactly as specified

Theorems over ℝ about the intensity path of `Model/Real.lean` (`Ray.propagate` with its
Beer–Lambert factor, `clip`, `interact` with `SimpleCoating`, `traceSurf`, `traceLens`) — the
model that the correspondence run ties to `real_rays.py`, `physical_apertures.py`, `coatings.py`,
`standard_surface.py`.

Specification side: the three factors named by the property,
`atten k λ t = exp(−(4πk/λ)·t·10³)`, `inside ap x y ∈ {0,1}`, `coatFactor s ∈ {T, R, 1}`.
-/
namespace C16
open Model

/-! ### specification: the three factors -/

/-- Beer–Lambert factor over a geometric length `t` (mm) at wavelength `w` (µm), extinction `k` -/
noncomputable def atten (k w t : ℝ) : ℝ := Real.exp (-(4 * Real.pi * k / w) * t * 1000)

open Classical in
/-- indicator of the clear annulus `r_min² ≤ x² + y² ≤ r_max²` (1 when there is no aperture) -/
noncomputable def inside (ap : Option (ℝ × ℝ)) (x y : ℝ) : ℝ :=
  match ap with
  | none => 1
  | some (rmax, rmin) =>
    if rmax * rmax < x * x + y * y ∨ x * x + y * y < rmin * rmin then 0 else 1

/-- the coating factor: `R` at a mirror, `T` at a refracting surface, 1 without coating and at
the image surface -/
def coatFactor (s : RSurf ℝ) : ℝ :=
  match s.kind with
  | .image => 1
  | _ =>
    match s.coating with
    | none => 1
    | some (T, R) => if s.refl then R else T

/-- the per-ray body of `traceSurf` (ray already in the surface frame, `t` = the distance
returned for it) -/
noncomputable def stepRay (s : RSurf ℝ) (w : ℝ) (r : Ray ℝ) (t : ℝ) : Ray ℝ :=
  s.cs.globalize (interact s (clip s.aperture
    { r.propagate t s.k1 w with opd := Num.add (r.propagate t s.k1 w).opd (Num.abs (Num.mul t s.n1)) }))

/-- `traceSurf` is `stepRay` mapped over (localised ray, its distance) -/
theorem traceSurf_body (s : RSurf ℝ) (w : ℝ) (rays : List (Ray ℝ)) (hk : s.kind ≠ .object) :
    traceSurf s w rays =
      ((rays.map s.cs.localize).zip (s.geom.distance (rays.map s.cs.localize))).map
        (fun rt => stepRay s w rt.1 rt.2) := by
  unfold traceSurf
  cases h : s.kind with
  | object => exact absurd h hk
  | standard => rfl
  | image => rfl

theorem traceSurf_object (s : RSurf ℝ) (w : ℝ) (rays : List (Ray ℝ)) (hk : s.kind = .object) :
    traceSurf s w rays = rays := by
  unfold traceSurf; rw [hk]

/-! ### what does not touch the intensity -/

theorem localize_i (c : Cs ℝ) (r : Ray ℝ) : (c.localize r).i = r.i := by
  unfold Cs.localize
  by_cases hx : truthy c.rx = true <;> by_cases hy : truthy c.ry = true <;>
    by_cases hz : truthy c.rz = true <;> simp [hx, hy, hz, Ray.rotateX, Ray.rotateY, Ray.rotateZ, Ray.translate]

theorem globalize_i (c : Cs ℝ) (r : Ray ℝ) : (c.globalize r).i = r.i := by
  unfold Cs.globalize
  by_cases hx : truthy c.rx = true <;> by_cases hy : truthy c.ry = true <;>
    by_cases hz : truthy c.rz = true <;> simp [hx, hy, hz, Ray.rotateX, Ray.rotateY, Ray.rotateZ, Ray.translate]

theorem refract_i (r : Ray ℝ) (nx ny nz n1 n2 : ℝ) : (r.refract nx ny nz n1 n2).i = r.i := rfl
theorem reflect_i (r : Ray ℝ) (nx ny nz : ℝ) : (r.reflect nx ny nz).i = r.i := rfl

/-! ### the three mechanisms -/

/-- Beer–Lambert: `propagate` multiplies the intensity by `exp(−(4πk/λ)·t·10³)` -/
theorem propagate_i (r : Ray ℝ) (t k w : ℝ) : (r.propagate t k w).i = r.i * atten k w t := by
  unfold Ray.propagate atten
  num_real
  simp only [Nat.cast_ofNat, Nat.cast_one, div_one]

theorem propagate_x (r : Ray ℝ) (t k w : ℝ) : (r.propagate t k w).x = r.x + t * r.L := rfl
theorem propagate_y (r : Ray ℝ) (t k w : ℝ) : (r.propagate t k w).y = r.y + t * r.M := rfl

/-- `RadialAperture.clip`: the intensity is multiplied by the annulus indicator, nothing else -/
theorem clip_i (ap : Option (ℝ × ℝ)) (r : Ray ℝ) : (clip ap r).i = r.i * inside ap r.x r.y := by
  unfold clip inside
  cases ap with
  | none => simp
  | some p =>
    obtain ⟨rmax, rmin⟩ := p
    simp only [Bool.or_eq_true]
    num_real
    by_cases h : rmax * rmax < r.x * r.x + r.y * r.y ∨ r.x * r.x + r.y * r.y < rmin * rmin
    · simp [h]
    · simp [h]

/-- `SimpleCoating` through `_interact`: factor `R` at a mirror, `T` otherwise, 1 without -/
theorem interact_i (s : RSurf ℝ) (r : Ray ℝ) : (interact s r).i = r.i * coatFactor s := by
  obtain ⟨kind, cs, geom, n1, n2, k1, refl, ap, co⟩ := s
  unfold interact coatFactor
  generalize geom.normal r = nrm
  obtain ⟨nx, ny, nz⟩ := nrm
  cases kind <;> cases refl <;> cases co with
    | none => simp [refract_i, reflect_i]
    | some p => obtain ⟨T, R⟩ := p; simp [refract_i, reflect_i]; try rfl

/-- **intensity_step**: through one surface the new intensity is
`i · exp(−(4πk/λ)·t·10³) · [hit point inside the aperture] · (T | R | 1)` and nothing else
(`r` is the ray in the surface frame, `t` any distance). -/
theorem intensity_step (s : RSurf ℝ) (w : ℝ) (r : Ray ℝ) (t : ℝ) :
    (stepRay s w r t).i =
      r.i * atten s.k1 w t * inside s.aperture (r.x + t * r.L) (r.y + t * r.M) * coatFactor s := by
  unfold stepRay
  rw [globalize_i, interact_i, clip_i]
  show (r.propagate t s.k1 w).i * inside s.aperture (r.propagate t s.k1 w).x (r.propagate t s.k1 w).y *
      coatFactor s = _
  rw [propagate_i, propagate_x, propagate_y]

/-- a ray landing outside the aperture is dark behind the surface -/
theorem outside_aperture_zero (s : RSurf ℝ) (w : ℝ) (r : Ray ℝ) (t rmax rmin : ℝ)
    (hap : s.aperture = some (rmax, rmin))
    (hout : rmax * rmax < (r.x + t * r.L) * (r.x + t * r.L) + (r.y + t * r.M) * (r.y + t * r.M) ∨
            (r.x + t * r.L) * (r.x + t * r.L) + (r.y + t * r.M) * (r.y + t * r.M) < rmin * rmin) :
    (stepRay s w r t).i = 0 := by
  rw [intensity_step, hap]
  simp [inside, hout]

/-- a ray landing inside the aperture (or no aperture) of an uncoated surface in a medium with
`k = 0` keeps its intensity exactly -/
theorem clear_path_keeps_intensity (s : RSurf ℝ) (w : ℝ) (r : Ray ℝ) (t : ℝ)
    (hk : s.k1 = 0) (hap : s.aperture = none) (hco : s.coating = none) :
    (stepRay s w r t).i = r.i := by
  rw [intensity_step, hk, hap]
  have : coatFactor s = 1 := by unfold coatFactor; rw [hco]; cases s.kind <;> rfl
  simp [atten, inside, this]

/-! ### ranges of the factors -/

theorem atten_pos (k w t : ℝ) : 0 < atten k w t := Real.exp_pos _

theorem atten_le_one (k w t : ℝ) (hk : 0 ≤ k) (hw : 0 < w) (ht : 0 ≤ t) : atten k w t ≤ 1 := by
  unfold atten
  rw [Real.exp_le_one_iff]
  have h : 0 ≤ 4 * Real.pi * k / w := by have := Real.pi_pos; positivity
  nlinarith [mul_nonneg h ht]

theorem inside_cases (ap : Option (ℝ × ℝ)) (x y : ℝ) : inside ap x y = 0 ∨ inside ap x y = 1 := by
  unfold inside
  cases ap with
  | none => right; rfl
  | some p =>
    obtain ⟨a, b⟩ := p
    by_cases h : a * a < x * x + y * y ∨ x * x + y * y < b * b <;> simp [h]

/-- a passive surface: extinction of the medium in front `≥ 0`, coating `0 ≤ T, R ≤ 1` -/
def Passive (s : RSurf ℝ) : Prop :=
  0 ≤ s.k1 ∧ ∀ T R, s.coating = some (T, R) → 0 ≤ T ∧ T ≤ 1 ∧ 0 ≤ R ∧ R ≤ 1

theorem coatFactor_range (s : RSurf ℝ) (hp : Passive s) : 0 ≤ coatFactor s ∧ coatFactor s ≤ 1 := by
  obtain ⟨kind, cs, geom, n1, n2, k1, refl, ap, co⟩ := s
  unfold coatFactor
  cases co with
  | none => cases kind <;> simp
  | some p =>
    obtain ⟨T, R⟩ := p
    have h := hp.2 T R rfl
    cases kind <;> cases refl <;> simp <;> first | exact ⟨h.1, h.2.1⟩ | exact ⟨h.2.2.1, h.2.2.2⟩

/-- the total factor of one passive step with `t ≥ 0` lies in `[0,1]` -/
theorem step_factor_range (s : RSurf ℝ) (w t x y : ℝ) (hp : Passive s) (hw : 0 < w) (ht : 0 ≤ t) :
    0 ≤ atten s.k1 w t * inside s.aperture x y * coatFactor s ∧
    atten s.k1 w t * inside s.aperture x y * coatFactor s ≤ 1 := by
  have ha0 := (atten_pos s.k1 w t).le
  have ha1 := atten_le_one s.k1 w t hp.1 hw ht
  obtain ⟨hc0, hc1⟩ := coatFactor_range s hp
  rcases inside_cases s.aperture x y with h | h <;> rw [h]
  · simp
  · constructor
    · positivity
    · nlinarith [mul_le_one₀ ha1 hc0 hc1]

/-- one passive step: `0 ≤ i' ≤ i` -/
theorem step_monotone (s : RSurf ℝ) (w : ℝ) (r : Ray ℝ) (t : ℝ) (hp : Passive s) (hw : 0 < w)
    (ht : 0 ≤ t) (hi : 0 ≤ r.i) : 0 ≤ (stepRay s w r t).i ∧ (stepRay s w r t).i ≤ r.i := by
  rw [intensity_step]
  obtain ⟨h0, h1⟩ := step_factor_range s w t (r.x + t * r.L) (r.y + t * r.M) hp hw ht
  have e : r.i * atten s.k1 w t * inside s.aperture (r.x + t * r.L) (r.y + t * r.M) * coatFactor s =
      r.i * (atten s.k1 w t * inside s.aperture (r.x + t * r.L) (r.y + t * r.M) * coatFactor s) := by ring
  rw [e]
  exact ⟨mul_nonneg hi h0, mul_le_of_le_one_right hi h1⟩

/-- one step, any surface, any `t`: a dark ray stays dark -/
theorem step_dark (s : RSurf ℝ) (w : ℝ) (r : Ray ℝ) (t : ℝ) (hi : r.i = 0) : (stepRay s w r t).i = 0 := by
  rw [intensity_step, hi]; simp

/-! ### lifting through the batch (`List.zip` / `List.map`) -/

theorem nrSweep_length (g : Geom ℝ) (rays : List (Ray ℝ)) (pts : List (ℝ × ℝ × ℝ))
    (h : pts.length = rays.length) : (nrSweep g rays pts).1.length = rays.length := by
  simp [nrSweep, h]

theorem nrLoop_length (g : Geom ℝ) (rays : List (Ray ℝ)) (tol : ℝ) :
    ∀ (n : Nat) (pts : List (ℝ × ℝ × ℝ)), pts.length = rays.length →
      (nrLoop g rays tol n pts).length = rays.length
  | 0, pts, h => by simpa [nrLoop] using h
  | n+1, pts, h => by
    unfold nrLoop
    have hs := nrSweep_length g rays pts h
    generalize nrSweep g rays pts = sw at hs
    obtain ⟨pts', m⟩ := sw
    simp only
    split
    · exact hs
    · exact nrLoop_length g rays tol n pts' hs

theorem nrDistance_length (g : Geom ℝ) (R tol : ℝ) (mi : Nat) (rays : List (Ray ℝ)) :
    (nrDistance g R tol mi rays).length = rays.length := by
  unfold nrDistance
  simp [nrLoop_length g rays tol mi (rays.map (sphereGuess R)) (by simp)]

/-- every geometry returns one distance per ray -/
theorem distance_length (g : Geom ℝ) (rays : List (Ray ℝ)) : (g.distance rays).length = rays.length := by
  cases g <;> simp [Geom.distance, nrDistance_length]

/-- the batch trace keeps the number (and order) of rays -/
theorem traceSurf_length (s : RSurf ℝ) (w : ℝ) (rays : List (Ray ℝ)) :
    (traceSurf s w rays).length = rays.length := by
  by_cases hk : s.kind = .object
  · rw [traceSurf_object s w rays hk]
  · rw [traceSurf_body s w rays hk]; simp [distance_length]

/-- generic lifting lemma: a relation that holds between `a` and `f (g a, t)` for every `t` drawn
from `ts` holds position-wise between `l` and `((l.map g).zip ts).map f` -/
theorem forall₂_zip_map {β γ : Type} (Rel : β → γ → Prop) (g : β → β) (f : β × ℝ → γ) (P : ℝ → Prop) :
    ∀ (l : List β) (ts : List ℝ), ts.length = l.length → (∀ t ∈ ts, P t) →
      (∀ a t, P t → Rel a (f (g a, t))) → List.Forall₂ Rel l (((l.map g).zip ts).map f)
  | [], ts, _, _, _ => by simp
  | a :: l, [], h, _, _ => by simp at h
  | a :: l, t :: ts, h, hP, hR => by
    simp only [List.map_cons, List.zip_cons_cons]
    refine List.Forall₂.cons (hR a t (hP t (by simp))) ?_
    exact forall₂_zip_map Rel g f P l ts (by simpa using h) (fun t' ht' => hP t' (by simp [ht'])) hR

/-- **traceSurf_intensity** (batch form of `intensity_step`): position by position, the intensity
behind a non-object surface is the intensity in front times the three factors, evaluated with that
ray's own distance and hit point in the surface frame. -/
theorem traceSurf_intensity (s : RSurf ℝ) (w : ℝ) (rays : List (Ray ℝ)) (hk : s.kind ≠ .object) :
    List.Forall₂
      (fun (rt : Ray ℝ × ℝ) (r' : Ray ℝ) =>
        r'.i = rt.1.i * atten s.k1 w rt.2 *
          inside s.aperture ((s.cs.localize rt.1).x + rt.2 * (s.cs.localize rt.1).L)
                            ((s.cs.localize rt.1).y + rt.2 * (s.cs.localize rt.1).M) * coatFactor s)
      (rays.zip (s.geom.distance (rays.map s.cs.localize))) (traceSurf s w rays) := by
  rw [traceSurf_body s w rays hk]
  generalize hts : s.geom.distance (rays.map s.cs.localize) = ts
  have hl : ts.length = rays.length := by rw [← hts, distance_length]; simp
  clear hts
  induction rays generalizing ts with
  | nil => simp
  | cons a l ih =>
    cases ts with
    | nil => simp at hl
    | cons t ts =>
      simp only [List.map_cons, List.zip_cons_cons]
      refine List.Forall₂.cons ?_ (ih ts (by simpa using hl))
      show (stepRay s w (s.cs.localize a) t).i = _
      rw [intensity_step, localize_i]

/-- an object surface hands the batch on unchanged -/
theorem traceSurf_object_intensity (s : RSurf ℝ) (w : ℝ) (rays : List (Ray ℝ)) (hk : s.kind = .object) :
    List.Forall₂ (fun r r' => r'.i = r.i) rays (traceSurf s w rays) := by
  rw [traceSurf_object s w rays hk]
  induction rays with
  | nil => simp
  | cons a l ih => exact List.Forall₂.cons rfl ih

/-! ### along every ray, for every lens -/

/-- `Along P rays recs`: for every ray position, `P i_prev i_next` holds between the launch batch
and the first record and between every two consecutive per-surface records (`Forall₂` also says
that every record has as many rays as the launch batch) -/
def Along (P : ℝ → ℝ → Prop) : List (Ray ℝ) → List (List (Ray ℝ)) → Prop
  | _, [] => True
  | prev, cur :: rest => List.Forall₂ (fun a b => P a.i b.i) prev cur ∧ Along P cur rest

/-- every distance the lens returns for these rays is `≥ 0` (the geometric length `d` of the
property; a predicate on lens and rays because `t` comes out of `Geom.distance`) -/
def DistNonneg (w : ℝ) : List (RSurf ℝ) → List (Ray ℝ) → Prop
  | [], _ => True
  | s :: ss, rays =>
    (s.kind ≠ .object → ∀ t ∈ s.geom.distance (rays.map s.cs.localize), 0 ≤ t) ∧
      DistNonneg w ss (traceSurf s w rays)

def InUnit (rays : List (Ray ℝ)) : Prop := ∀ r ∈ rays, 0 ≤ r.i ∧ r.i ≤ 1

/-- one surface on a batch: `0 ≤ i' ≤ i` position-wise -/
theorem traceSurf_monotone (s : RSurf ℝ) (w : ℝ) (rays : List (Ray ℝ)) (hp : Passive s) (hw : 0 < w)
    (ht : s.kind ≠ .object → ∀ t ∈ s.geom.distance (rays.map s.cs.localize), 0 ≤ t)
    (hi : ∀ r ∈ rays, 0 ≤ r.i) :
    List.Forall₂ (fun a b => 0 ≤ b.i ∧ b.i ≤ a.i) rays (traceSurf s w rays) := by
  by_cases hk : s.kind = .object
  · rw [traceSurf_object s w rays hk]
    clear ht
    induction rays with
    | nil => simp
    | cons a l ih =>
      exact List.Forall₂.cons ⟨hi a (by simp), le_refl _⟩ (ih (fun r hr => hi r (by simp [hr])))
  · have hts := ht hk
    clear ht
    rw [traceSurf_body s w rays hk]
    generalize hd : s.geom.distance (rays.map s.cs.localize) = ts at hts
    have hl : ts.length = rays.length := by rw [← hd, distance_length]; simp
    clear hd
    induction rays generalizing ts with
    | nil => simp
    | cons a l ih =>
      cases ts with
      | nil => simp at hl
      | cons t ts =>
        simp only [List.map_cons, List.zip_cons_cons]
        refine List.Forall₂.cons ?_ (ih (fun r hr => hi r (by simp [hr])) ts
          (fun t' ht' => hts t' (by simp [ht'])) (by simpa using hl))
        have := step_monotone s w (s.cs.localize a) t hp hw (hts t (by simp))
          (by rw [localize_i]; exact hi a (by simp))
        rwa [localize_i] at this

theorem forall₂_imp_right {β : Type} {R : β → β → Prop} {Q : β → Prop} :
    ∀ {l l' : List β}, List.Forall₂ R l l' → (∀ a b, a ∈ l → R a b → Q b) → ∀ b ∈ l', Q b
  | _, _, .nil, _, b, hb => by simp at hb
  | _, _, .cons (a := a) (b := b0) (l₁ := l) (l₂ := l') h t, hq, b, hb => by
    rcases List.mem_cons.mp hb with e | e
    · rw [e]; exact hq a b0 (by simp) h
    · exact forall₂_imp_right t (fun a' b' ha' => hq a' b' (by simp [ha'])) b e

/-- **intensity_monotone**: along every ray, through every passive lens, the intensity is
non-negative and never increases from one record to the next. -/
theorem intensity_monotone (w : ℝ) (hw : 0 < w) : ∀ (ss : List (RSurf ℝ)) (rays : List (Ray ℝ)),
    (∀ s ∈ ss, Passive s) → DistNonneg w ss rays → (∀ r ∈ rays, 0 ≤ r.i) →
    Along (fun i i' => 0 ≤ i' ∧ i' ≤ i) rays (traceLens w ss rays)
  | [], _, _, _, _ => by simp [traceLens, Along]
  | s :: ss, rays, hp, hd, hi => by
    have h1 := traceSurf_monotone s w rays (hp s (by simp)) hw hd.1 hi
    refine ⟨h1, intensity_monotone w hw ss _ (fun t ht => hp t (by simp [ht])) hd.2 ?_⟩
    exact forall₂_imp_right h1 (fun _ _ _ h => h.1)

/-- **intensity_in_unit_interval**: if the launched intensities lie in `[0,1]`, so does every
recorded intensity at every surface. -/
theorem intensity_in_unit_interval (w : ℝ) (hw : 0 < w) : ∀ (ss : List (RSurf ℝ)) (rays : List (Ray ℝ)),
    (∀ s ∈ ss, Passive s) → DistNonneg w ss rays → InUnit rays →
    ∀ recs ∈ traceLens w ss rays, InUnit recs
  | [], _, _, _, _ => by simp [traceLens]
  | s :: ss, rays, hp, hd, hi => by
    have h1 := traceSurf_monotone s w rays (hp s (by simp)) hw hd.1 (fun r hr => (hi r hr).1)
    have hu : InUnit (traceSurf s w rays) := fun r hr =>
      forall₂_imp_right (Q := fun b => 0 ≤ b.i ∧ b.i ≤ 1) h1
        (fun a b ha h => ⟨h.1, le_trans h.2 (hi a ha).2⟩) r hr
    intro recs hr
    simp only [traceLens, List.mem_cons] at hr
    rcases hr with e | e
    · rw [e]; exact hu
    · exact intensity_in_unit_interval w hw ss _ (fun t ht => hp t (by simp [ht])) hd.2 hu recs e

/-- one surface on a batch, no hypotheses at all: zero stays zero -/
theorem traceSurf_dark (s : RSurf ℝ) (w : ℝ) (rays : List (Ray ℝ)) :
    List.Forall₂ (fun a b => a.i = 0 → b.i = 0) rays (traceSurf s w rays) := by
  by_cases hk : s.kind = .object
  · rw [traceSurf_object s w rays hk]
    induction rays with
    | nil => simp
    | cons a l ih => exact List.Forall₂.cons id ih
  · rw [traceSurf_body s w rays hk]
    exact forall₂_zip_map (fun a b => a.i = 0 → b.i = 0) s.cs.localize
      (fun rt => stepRay s w rt.1 rt.2) (fun _ => True) rays
      (s.geom.distance (rays.map s.cs.localize)) (by rw [distance_length, List.length_map])
      (fun _ _ => trivial)
      (fun a t _ h => step_dark s w (s.cs.localize a) t (by rw [localize_i]; exact h))

/-- **dark_stays_dark**: for every lens (no hypothesis on `k`, `T`, `R`, distances) a ray whose
intensity is 0 at one record has intensity 0 at the next, hence at all later ones. -/
theorem dark_stays_dark (w : ℝ) : ∀ (ss : List (RSurf ℝ)) (rays : List (Ray ℝ)),
    Along (fun i i' => i = 0 → i' = 0) rays (traceLens w ss rays)
  | [], _ => by simp [traceLens, Along]
  | s :: ss, rays => ⟨traceSurf_dark s w rays, dark_stays_dark w ss _⟩

/-! ### the record is the ray -/

/-- the batch `SurfaceGroup.trace` returns -/
noncomputable def finalRays (w : ℝ) : List (RSurf ℝ) → List (Ray ℝ) → List (Ray ℝ)
  | [], rays => rays
  | s :: ss, rays => finalRays w ss (traceSurf s w rays)

/-- **recorded_intensity_is_ray_intensity**: each per-surface record *is* the batch handed to the
next surface, and the last record is the batch returned by the trace (so `rays.i` equals
`surface_group.intensity[-1]` and the write-back in `Optic.trace` changes nothing).
(Review: `finalRays` is defined in this file and `traceLens` records, by definition, the batch it
passes on, so this is a property of how the model is written; `Model.Fx.groupTraceR` returns
`(traceLens …).getLastD rays` directly.  The clause "intensities reported by analyses are those of
the traced rays" is not the subject of any theorem; it is checked by the conformance run only.) -/
theorem recorded_intensity_is_ray_intensity (w : ℝ) : ∀ (ss : List (RSurf ℝ)) (rays : List (Ray ℝ)),
    ss ≠ [] → (traceLens w ss rays).getLast? = some (finalRays w ss rays)
  | [], _, h => absurd rfl h
  | [s], rays, _ => by simp [traceLens, finalRays]
  | s :: s' :: ss, rays, _ => by
    have ih := recorded_intensity_is_ray_intensity w (s' :: ss) (traceSurf s w rays) (by simp)
    simp only [traceLens, finalRays] at ih ⊢
    rw [List.getLast?_cons_cons]
    exact ih

theorem record_is_next_input (w : ℝ) (s : RSurf ℝ) (ss : List (RSurf ℝ)) (rays : List (Ray ℝ)) :
    traceLens w (s :: ss) rays = traceSurf s w rays :: traceLens w ss (traceSurf s w rays) := rfl

/-! ### the distance hypothesis is satisfiable: planes and Newton–Raphson shapes -/

/-- over ℝ.  Where the code returns `nan` (a plane behind the ray: `-z/N < 0`) the model over ℝ has
the junk value `0/0 = 0`, and at `N = 0` it has `-z/0 = 0`: in those two cases this inequality says
nothing about the code (see `GenuineHit`). -/
theorem planeDistance_nonneg (r : Ray ℝ) : 0 ≤ planeDistance r := by
  unfold planeDistance maskNeg
  num_real
  split
  · simp
  · linarith

theorem distance_nonneg_plane (rays : List (Ray ℝ)) : ∀ t ∈ (Geom.plane : Geom ℝ).distance rays, 0 ≤ t := by
  intro t ht
  simp only [Geom.distance, List.mem_map] at ht
  obtain ⟨r, _, e⟩ := ht
  rw [← e]; exact planeDistance_nonneg r

theorem maskNeg_nonneg (t v : ℝ) (hv : 0 ≤ v) : 0 ≤ maskNeg t v := by
  unfold maskNeg
  num_real
  split
  · exact hv
  · linarith

/-- the quadratic branch of `StandardGeometry.distance` (`a ≠ 0`) masks negative roots (to `inf` in
the code, to the junk value 0 over ℝ), so what it returns is never negative; the linear branch
`a = 0` returns `-c/b` unmasked — this is the one place where a negative distance can come from -/
theorem selectRoot_nonneg (a b c z N : ℝ) (ha : a ≠ 0) : 0 ≤ selectRoot a b c z N := by
  unfold selectRoot
  have hz : ¬ (Num.isZero a = true) := by rw [NumReal.isZero_eq]; exact ha
  simp only [if_neg hz]
  have hinf : (0:ℝ) ≤ Num.inf := le_refl _
  split
  · exact maskNeg_nonneg _ _ hinf
  · exact maskNeg_nonneg _ _ hinf

/-- every distance a geometry returns *in the model over ℝ* is `≥ 0`, except possibly from the linear
branch of the conic (`a = L² + M² + (1+k)N² = 0`: a paraboloid met by an axis-parallel ray).
Caution (review): for rays that miss the surface this is true for the wrong reason.  The code returns
`nan` (negative discriminant, plane behind the ray, Newton–Raphson not converged) or `inf` (both
roots masked) there, and the intensity becomes `nan` (or `0·…`); over ℝ these are the junk values
`Real.sqrt (negative) = 0`, `0/0 = 0`, `Num.inf = 0`, which are `≥ 0`.  `GenuineHit` below names the
rays for which the ℝ value is the one the code computes. -/
theorem distance_nonneg (g : Geom ℝ) (rays : List (Ray ℝ))
    (hstd : ∀ R k, g = .standard R k → ∀ r ∈ rays, (conicABC R k r).1 ≠ 0) :
    ∀ t ∈ g.distance rays, 0 ≤ t := by
  intro t ht
  cases g with
  | plane => exact distance_nonneg_plane rays t ht
  | standard R k =>
    simp only [Geom.distance, List.mem_map] at ht
    obtain ⟨r, hr, e⟩ := ht
    rw [← e]
    unfold stdDistance
    have := hstd R k rfl r hr
    generalize conicABC R k r = abc at this
    obtain ⟨a, b, c⟩ := abc
    exact selectRoot_nonneg a b c _ _ this
  | evenAsphere R k tol mi c =>
    simp only [Geom.distance, nrDistance, List.mem_map] at ht
    obtain ⟨pr, _, e⟩ := ht
    rw [← e]; exact Real.sqrt_nonneg _
  | polynomial R k tol mi c =>
    simp only [Geom.distance, nrDistance, List.mem_map] at ht
    obtain ⟨pr, _, e⟩ := ht
    rw [← e]; exact Real.sqrt_nonneg _
  | chebyshev R k tol mi c nx ny =>
    simp only [Geom.distance, nrDistance, List.mem_map] at ht
    obtain ⟨pr, _, e⟩ := ht
    rw [← e]; exact Real.sqrt_nonneg _

/-- a lens made of plane surfaces meets `DistNonneg` for every batch -/
theorem distNonneg_planes (w : ℝ) : ∀ (ss : List (RSurf ℝ)) (rays : List (Ray ℝ)),
    (∀ s ∈ ss, s.geom = .plane) → DistNonneg w ss rays
  | [], _, _ => trivial
  | s :: ss, rays, h => by
    refine ⟨fun _ => ?_, distNonneg_planes w ss _ (fun t ht => h t (by simp [ht]))⟩
    rw [h s (by simp)]; exact distance_nonneg_plane _

/-- the rays never take the linear branch of a conic (`a = 0`) anywhere in the lens -/
def NoLinearBranch (w : ℝ) : List (RSurf ℝ) → List (Ray ℝ) → Prop
  | [], _ => True
  | s :: ss, rays =>
    (∀ R k, s.geom = .standard R k → ∀ r ∈ rays.map s.cs.localize, (conicABC R k r).1 ≠ 0) ∧
      NoLinearBranch w ss (traceSurf s w rays)

/-- `DistNonneg` holds *in the model over ℝ* for every lens and batch that avoid the conic's linear
branch (`L² + M² + (1+k)N² = 0`, where the code returns `-c/b` without masking negative values).
This includes rays that miss a surface, for which the statement rests on junk values (see
`distance_nonneg`); the version restricted to rays the code traces without `nan`/`inf` is
`distNonneg_of_genuine`. -/
theorem distNonneg_of_noLinearBranch (w : ℝ) : ∀ (ss : List (RSurf ℝ)) (rays : List (Ray ℝ)),
    NoLinearBranch w ss rays → DistNonneg w ss rays
  | [], _, _ => trivial
  | s :: ss, rays, h =>
    ⟨fun _ => distance_nonneg s.geom _ h.1, distNonneg_of_noLinearBranch w ss _ h.2⟩

/-! ### non-vacuity -/

/-- an absorbing, apertured (with obscuration), coated plane surface -/
noncomputable def exSurf : RSurf ℝ :=
  ⟨.standard, ⟨0, 0, 10, 0, 0, 0⟩, .plane, 3/2, 1, 1/100000, false, some (5, 1), some (1/2, 1/4)⟩
/-- its mirror twin -/
noncomputable def exMirror : RSurf ℝ :=
  ⟨.standard, ⟨0, 0, 20, 0, 0, 0⟩, .plane, 1, 1, 0, true, none, some (1/2, 1/4)⟩

/-- the hypotheses of the whole-lens theorems are satisfiable by a lens with absorption, an
annular aperture, a coating and a mirror, and a batch of two rays (one lit, one dark) -/
example : (∀ s ∈ [exSurf, exMirror], Passive s) ∧
    DistNonneg (11/20) [exSurf, exMirror] [⟨0, 2, 0, 0, 0, 1, 1, 0⟩, ⟨0, 0, 0, 0, 0, 1, 0, 0⟩] ∧
    InUnit [⟨0, 2, 0, 0, 0, 1, 1, 0⟩, ⟨0, 0, 0, 0, 0, 1, 0, 0⟩] := by
  refine ⟨?_, distNonneg_planes _ _ _ (by simp [exSurf, exMirror]), ?_⟩
  · intro s hs
    simp only [List.mem_cons, List.not_mem_nil, or_false] at hs
    rcases hs with e | e <;> rw [e] <;> refine ⟨by norm_num [exSurf, exMirror], ?_⟩ <;>
      intro T R h <;> simp only [exSurf, exMirror, Option.some.injEq, Prod.mk.injEq] at h <;>
      obtain ⟨h1, h2⟩ := h <;> rw [← h1, ← h2] <;> norm_num
  · intro r hr
    simp only [List.mem_cons, List.not_mem_nil, or_false] at hr
    rcases hr with e | e <;> rw [e] <;> norm_num

/-- and the step law is not the trivial `0 = 0`: the factor of the lit ray at `exSurf` is
`exp(−(4π·10⁻⁵/0.55)·10·10³)·1·½ ≠ 0` -/
example : (stepRay exSurf (11/20) ⟨0, 2, -10, 0, 0, 1, 1, 0⟩ 10).i =
    Real.exp (-(4 * Real.pi * (1/100000) / (11/20)) * 10 * 1000) * (1/2) := by
  rw [intensity_step]
  have : inside exSurf.aperture ((0:ℝ) + 10 * 0) (2 + 10 * 0) = 1 := by
    simp only [exSurf, inside]; norm_num
  rw [this]
  simp [exSurf, coatFactor, atten]

/-! ### review: rays the code traces without `nan` / `inf`

`DistNonneg` is a hypothesis about the distances of the model over ℝ.  Where the float code produces
`nan` or `inf` (ray misses the surface) the ℝ model has junk values that happen to be `≥ 0`, so
`distNonneg_of_noLinearBranch` also "covers" such rays, for which `intensity_monotone` says nothing
about the code.  `GenuineHit` singles out the closed-form intersections in which no masked, undefined
or divided-by-zero value is used: there the ℝ expression is the one the code evaluates. -/

/-- the ray (in the surface frame) meets a plane in front of it, or a conic with `a ≠ 0`, a
non-negative discriminant and two non-negative roots (no root is masked to `inf`, so the root
selection compares the two genuine candidates); Newton–Raphson shapes: no condition (their distance
is a `sqrt` of a sum of squares; convergence is not addressed) -/
def GenuineHit (g : Geom ℝ) (r : Ray ℝ) : Prop :=
  match g with
  | .plane => r.N ≠ 0 ∧ 0 ≤ -r.z / r.N
  | .standard R k =>
    (conicABC R k r).1 ≠ 0 ∧
    0 ≤ (conicABC R k r).2.1 ^ 2 - 4 * (conicABC R k r).1 * (conicABC R k r).2.2 ∧
    0 ≤ (-(conicABC R k r).2.1 -
          Real.sqrt ((conicABC R k r).2.1 ^ 2 - 4 * (conicABC R k r).1 * (conicABC R k r).2.2)) /
        (2 * (conicABC R k r).1) ∧
    0 ≤ (-(conicABC R k r).2.1 +
          Real.sqrt ((conicABC R k r).2.1 ^ 2 - 4 * (conicABC R k r).1 * (conicABC R k r).2.2)) /
        (2 * (conicABC R k r).1)
  | _ => True

/-- on a genuine hit the plane distance is the unmasked `-z/N` -/
theorem planeDistance_genuine (r : Ray ℝ) (h : GenuineHit .plane r) : planeDistance r = -r.z / r.N := by
  unfold planeDistance maskNeg
  num_real
  rw [if_neg (not_lt.2 h.2)]

/-- on a genuine hit the conic distance is one of the two unmasked roots of the quadratic -/
theorem stdDistance_genuine (R k : ℝ) (r : Ray ℝ) (h : GenuineHit (.standard R k) r) :
    stdDistance R k r = (-(conicABC R k r).2.1 +
        Real.sqrt ((conicABC R k r).2.1 ^ 2 - 4 * (conicABC R k r).1 * (conicABC R k r).2.2)) /
        (2 * (conicABC R k r).1) ∨
    stdDistance R k r = (-(conicABC R k r).2.1 -
        Real.sqrt ((conicABC R k r).2.1 ^ 2 - 4 * (conicABC R k r).1 * (conicABC R k r).2.2)) /
        (2 * (conicABC R k r).1) := by
  obtain ⟨ha, _, h2, h1⟩ := h
  unfold stdDistance
  generalize conicABC R k r = abc at ha h1 h2 ⊢
  obtain ⟨a, b, c⟩ := abc
  simp only at ha h1 h2 ⊢
  unfold selectRoot maskNeg
  have hz : ¬ (Num.isZero a = true) := by rw [NumReal.isZero_eq]; exact ha
  simp only [if_neg hz]
  num_real
  simp only [Nat.cast_ofNat, Nat.cast_one, div_one]
  have e : b * b - 4 * a * c = b ^ 2 - 4 * a * c := by ring
  rw [e, if_neg (not_lt.2 h1), if_neg (not_lt.2 h2)]
  split
  · left; rfl
  · right; rfl

/-- every ray of the batch makes a genuine hit at every surface of the lens -/
def GenuineLens (w : ℝ) : List (RSurf ℝ) → List (Ray ℝ) → Prop
  | [], _ => True
  | s :: ss, rays =>
    (s.kind ≠ .object → ∀ r ∈ rays.map s.cs.localize, GenuineHit s.geom r) ∧
      GenuineLens w ss (traceSurf s w rays)

theorem distance_nonneg_of_genuine (g : Geom ℝ) (rays : List (Ray ℝ)) (h : ∀ r ∈ rays, GenuineHit g r) :
    ∀ t ∈ g.distance rays, 0 ≤ t := by
  apply distance_nonneg
  intro R k hg r hr
  have := h r hr
  rw [hg] at this
  exact this.1

/-- `DistNonneg` for lenses and batches on which the ℝ model computes what the code computes -/
theorem distNonneg_of_genuine (w : ℝ) : ∀ (ss : List (RSurf ℝ)) (rays : List (Ray ℝ)),
    GenuineLens w ss rays → DistNonneg w ss rays
  | [], _, _ => trivial
  | s :: ss, rays, h =>
    ⟨fun hk => distance_nonneg_of_genuine s.geom _ (h.1 hk), distNonneg_of_genuine w ss _ h.2⟩

/-- **intensity_monotone / intensity_in_unit_interval on genuinely traced rays**: the form of the two
whole-lens theorems whose hypotheses exclude every `nan`/`inf` branch of the closed-form geometries -/
theorem intensity_monotone_genuine (w : ℝ) (hw : 0 < w) (ss : List (RSurf ℝ)) (rays : List (Ray ℝ))
    (hp : ∀ s ∈ ss, Passive s) (hg : GenuineLens w ss rays) (hi : InUnit rays) :
    Along (fun i i' => 0 ≤ i' ∧ i' ≤ i) rays (traceLens w ss rays) ∧
    ∀ recs ∈ traceLens w ss rays, InUnit recs :=
  ⟨intensity_monotone w hw ss rays hp (distNonneg_of_genuine w ss rays hg) (fun r hr => (hi r hr).1),
   intensity_in_unit_interval w hw ss rays hp (distNonneg_of_genuine w ss rays hg) hi⟩

/-- an absorbing, apertured, coated *spherical* surface (R = 50) at `z = 0` -/
noncomputable def exSphere : RSurf ℝ :=
  ⟨.standard, ⟨0, 0, 0, 0, 0, 0⟩, .standard 50 0, 3/2, 1, 1/100000, false, some (5, 1), some (1/2, 1/4)⟩

/-- non-vacuity with a curved surface: the ray from `(0, 2, −10)` along `+z` makes a genuine hit on the
sphere (`a = 1`, `b = −120`, `c = 1104`, discriminant `9984`, both roots positive) -/
example : GenuineLens (11/20) [exSphere] [⟨0, 2, -10, 0, 0, 1, 1, 0⟩] ∧ Passive exSphere := by
  have hloc : exSphere.cs.localize ⟨0, 2, -10, 0, 0, 1, 1, 0⟩ = (⟨0, 2, -10, 0, 0, 1, 1, 0⟩ : Ray ℝ) := by
    have hz : Num.isZero (0:ℝ) = true := by rw [NumReal.isZero_eq]
    simp only [exSphere, Cs.localize, truthy, hz, Ray.translate, Bool.not_true, Bool.false_eq_true, if_false]
    num_real
    norm_num
  have habc : conicABC 50 0 (⟨0, 2, -10, 0, 0, 1, 1, 0⟩ : Ray ℝ) = (1, -120, 1104) := by
    simp only [conicABC]
    num_real
    norm_num
  have hd : ((-120:ℝ)) ^ 2 - 4 * 1 * 1104 = 9984 := by norm_num
  have hs0 : 0 ≤ Real.sqrt 9984 := Real.sqrt_nonneg _
  have hs1 : Real.sqrt 9984 ≤ 120 := by
    rw [Real.sqrt_le_iff]; constructor <;> norm_num
  refine ⟨⟨fun _ r hr => ?_, trivial⟩, ?_⟩
  · simp only [List.map_cons, List.map_nil, List.mem_singleton, hloc] at hr
    subst hr
    show GenuineHit (.standard 50 0) _
    simp only [GenuineHit, habc, hd]
    refine ⟨one_ne_zero, by norm_num, ?_, ?_⟩
    · apply div_nonneg <;> linarith
    · apply div_nonneg <;> linarith
  · refine ⟨by norm_num [exSphere], ?_⟩
    intro T R h
    simp only [exSphere, Option.some.injEq, Prod.mk.injEq] at h
    obtain ⟨h1, h2⟩ := h
    rw [← h1, ← h2]; norm_num


/-! ## round 8: local-frame aperture test, pure obscurations, coatings between equal media,
vacuum wavelength, whole-history monotonicity -/

/-! ### (a) the aperture test is made in the surface's LOCAL frame -/

/-- **blocked iff the radius of the (local) point lies outside `[r_min, r_max]`**: for a lit ray,
`RadialAperture.clip` zeroes the intensity exactly when `√(x²+y²) ∉ [r_min, r_max]` -/
theorem clip_blocked_iff_radius (rmax rmin : ℝ) (r : Ray ℝ) (h0 : 0 ≤ rmin) (h1 : 0 ≤ rmax)
    (hi : r.i ≠ 0) :
    (clip (some (rmax, rmin)) r).i = 0 ↔
      ¬ (rmin ≤ Real.sqrt (r.x * r.x + r.y * r.y) ∧ Real.sqrt (r.x * r.x + r.y * r.y) ≤ rmax) := by
  rw [clip_i]
  have hq : 0 ≤ r.x * r.x + r.y * r.y := by nlinarith [mul_self_nonneg r.x, mul_self_nonneg r.y]
  have hS : 0 ≤ Real.sqrt (r.x * r.x + r.y * r.y) := Real.sqrt_nonneg _
  have hSS : Real.sqrt (r.x * r.x + r.y * r.y) * Real.sqrt (r.x * r.x + r.y * r.y) =
      r.x * r.x + r.y * r.y := Real.mul_self_sqrt hq
  generalize Real.sqrt (r.x * r.x + r.y * r.y) = S at hS hSS ⊢
  unfold inside
  simp only
  rw [← hSS]
  have e1 : rmax * rmax < S * S ↔ rmax < S :=
    ⟨fun h => by by_contra hc; exact absurd (mul_self_le_mul_self hS (not_lt.mp hc)) (not_le.mpr h),
     fun h => mul_self_lt_mul_self h1 h⟩
  have e2 : S * S < rmin * rmin ↔ S < rmin :=
    ⟨fun h => by by_contra hc; exact absurd (mul_self_le_mul_self h0 (not_lt.mp hc)) (not_le.mpr h),
     fun h => mul_self_lt_mul_self hS h⟩
  by_cases h : rmax * rmax < S * S ∨ S * S < rmin * rmin
  · rw [if_pos h]
    simp only [mul_zero, true_iff]
    rw [e1, e2] at h
    rintro ⟨ha, hb⟩
    rcases h with h | h <;> linarith
  · rw [if_neg h]
    simp only [mul_one]
    constructor
    · intro h'; exact absurd h' hi
    · intro h'
      exfalso; apply h'
      rw [e1, e2] at h
      have := not_or.mp h
      exact ⟨not_lt.mp this.2, not_lt.mp this.1⟩

example : ∃ (rmax rmin : ℝ) (r : Ray ℝ), 0 ≤ rmin ∧ 0 ≤ rmax ∧ r.i ≠ 0 :=
  ⟨5, 1, ⟨3, 0, 0, 0, 0, 1, 1, 0⟩, by norm_num, by norm_num, by norm_num⟩

/-- **blocked iff the LOCAL hit point is outside the annulus** (whole step): for a lit ray at a
surface whose coating does not itself extinguish the ray, the intensity behind the surface is 0
exactly when the hit point *in the surface frame* (`r` is the localised ray) is outside. -/
theorem stepRay_blocked_iff_local (s : RSurf ℝ) (w : ℝ) (r : Ray ℝ) (t rmax rmin : ℝ)
    (hap : s.aperture = some (rmax, rmin)) (hi : r.i ≠ 0) (hc : coatFactor s ≠ 0) :
    (stepRay s w r t).i = 0 ↔
      (rmax * rmax < (r.x + t * r.L) * (r.x + t * r.L) + (r.y + t * r.M) * (r.y + t * r.M) ∨
       (r.x + t * r.L) * (r.x + t * r.L) + (r.y + t * r.M) * (r.y + t * r.M) < rmin * rmin) := by
  rw [intensity_step, hap]
  have ha := (atten_pos s.k1 w t).ne'
  unfold inside
  simp only
  by_cases h : rmax * rmax < (r.x + t * r.L) * (r.x + t * r.L) + (r.y + t * r.M) * (r.y + t * r.M) ∨
       (r.x + t * r.L) * (r.x + t * r.L) + (r.y + t * r.M) * (r.y + t * r.M) < rmin * rmin
  · simp [h]
  · simp [h, hi, hc, ha]

example : exSurf.aperture = some (5, 1) ∧ (⟨0, 2, -10, 0, 0, 1, 1, 0⟩ : Ray ℝ).i ≠ 0 ∧
    coatFactor exSurf ≠ 0 := by
  refine ⟨rfl, by norm_num, ?_⟩
  simp [exSurf, coatFactor]

/-- the identity frame -/
noncomputable def cs0 : Cs ℝ := ⟨0, 0, 0, 0, 0, 0⟩

theorem localize_cs0 (r : Ray ℝ) : cs0.localize r = r := by
  obtain ⟨x, y, z, L, M, N, i, o⟩ := r
  have hz : Num.isZero (0:ℝ) = true := by rw [NumReal.isZero_eq]
  simp only [cs0, Cs.localize, truthy, hz, Ray.translate, Bool.not_true, Bool.false_eq_true, if_false]
  num_real
  simp

/-- **covariance (general decentre and tilt)**: the intensities behind a surface with frame `cs`
are those behind the same surface placed at the identity frame and met by the rays expressed in
`cs` — the decision depends on (frame, ray) only through the localised ray, so moving surface and
rays together by any rigid motion that `cs` expresses changes no decision. -/
theorem traceSurf_local_frame (s : RSurf ℝ) (w : ℝ) (rays : List (Ray ℝ)) (hk : s.kind ≠ .object) :
    (traceSurf s w rays).map (·.i) =
      (traceSurf { s with cs := cs0 } w (rays.map s.cs.localize)).map (·.i) := by
  rw [traceSurf_body s w rays hk, traceSurf_body { s with cs := cs0 } w _ hk]
  have e : (rays.map s.cs.localize).map (Cs.localize cs0) = rays.map s.cs.localize := by
    rw [List.map_map]; apply List.map_congr_left; intro a _; exact localize_cs0 _
  show _ = List.map (·.i) (List.map (fun rt => stepRay { s with cs := cs0 } w rt.1 rt.2)
    (((rays.map s.cs.localize).map (Cs.localize cs0)).zip
      (s.geom.distance ((rays.map s.cs.localize).map (Cs.localize cs0)))))
  rw [e, List.map_map, List.map_map]
  apply List.map_congr_left
  intro rt _
  simp only [Function.comp]
  rw [intensity_step, intensity_step]
  rfl

/-- the rotation part of `localize` -/
noncomputable def rotPart (rx ry rz : ℝ) (r : Ray ℝ) : Ray ℝ :=
  let r := if truthy rx then r.rotateX (Num.neg rx) else r
  let r := if truthy ry then r.rotateY (Num.neg ry) else r
  if truthy rz then r.rotateZ (Num.neg rz) else r

theorem localize_eq_rotPart (c : Cs ℝ) (r : Ray ℝ) :
    c.localize r = rotPart c.rx c.ry c.rz (r.translate (Num.neg c.x) (Num.neg c.y) (Num.neg c.z)) := rfl

/-- decentring the surface (in x, y and z) together with the ray gives the same local ray -/
theorem localize_decentre_covariant (c : Cs ℝ) (r : Ray ℝ) (dx dy dz : ℝ) :
    Cs.localize ⟨c.x + dx, c.y + dy, c.z + dz, c.rx, c.ry, c.rz⟩ (r.translate dx dy dz) =
      c.localize r := by
  have e : (r.translate dx dy dz).translate (Num.neg (c.x + dx)) (Num.neg (c.y + dy)) (Num.neg (c.z + dz)) =
      r.translate (Num.neg c.x) (Num.neg c.y) (Num.neg c.z) := by
    obtain ⟨x, y, z, L, M, N, i, o⟩ := r
    simp only [Ray.translate]
    num_real
    congr 1 <;> ring
  rw [localize_eq_rotPart, localize_eq_rotPart]
  show rotPart c.rx c.ry c.rz ((r.translate dx dy dz).translate (Num.neg (c.x + dx))
    (Num.neg (c.y + dy)) (Num.neg (c.z + dz))) = _
  rw [e]

/-- the surface moved by `(dx,dy,dz)` -/
noncomputable def decentre (s : RSurf ℝ) (dx dy dz : ℝ) : RSurf ℝ :=
  { s with cs := ⟨s.cs.x + dx, s.cs.y + dy, s.cs.z + dz, s.cs.rx, s.cs.ry, s.cs.rz⟩ }

/-- **covariance under decentre**: a surface decentred by `(dx,dy,dz)` and met by the batch
shifted by the same vector gives, ray by ray, the intensities of the undecentred configuration
(so a ray is blocked by the decentred aperture iff its pre-image is blocked by the centred one) -/
theorem traceSurf_decentre_covariant (s : RSurf ℝ) (w : ℝ) (rays : List (Ray ℝ)) (dx dy dz : ℝ) :
    (traceSurf (decentre s dx dy dz) w (rays.map (fun r => r.translate dx dy dz))).map (·.i) =
      (traceSurf s w rays).map (·.i) := by
  by_cases hk : s.kind = .object
  · have hk' : (decentre s dx dy dz).kind = .object := hk
    rw [traceSurf_object s w rays hk, traceSurf_object (decentre s dx dy dz) w _ hk', List.map_map]
    apply List.map_congr_left
    intro a _; rfl
  · have hk' : (decentre s dx dy dz).kind ≠ .object := hk
    rw [traceSurf_body s w rays hk, traceSurf_body (decentre s dx dy dz) w _ hk']
    have e : (rays.map (fun r => r.translate dx dy dz)).map (decentre s dx dy dz).cs.localize =
        rays.map s.cs.localize := by
      rw [List.map_map]; apply List.map_congr_left; intro a _
      exact localize_decentre_covariant s.cs a dx dy dz
    have hg : (decentre s dx dy dz).geom = s.geom := rfl
    rw [e, hg, List.map_map, List.map_map]
    apply List.map_congr_left
    intro rt _
    simp only [Function.comp]
    rw [intensity_step, intensity_step]
    rfl

/-- **covariance under a tilt about the surface axis**: a radial aperture does not see a rotation
of the local point about z -/
theorem clip_rotateZ_i (ap : Option (ℝ × ℝ)) (r : Ray ℝ) (a : ℝ) :
    (clip ap (r.rotateZ a)).i = (clip ap r).i := by
  rw [clip_i, clip_i]
  have e : (r.rotateZ a).x * (r.rotateZ a).x + (r.rotateZ a).y * (r.rotateZ a).y =
      r.x * r.x + r.y * r.y := by
    simp only [Ray.rotateZ]
    num_real
    linear_combination (r.x * r.x + r.y * r.y) * Real.sin_sq_add_cos_sq a
  cases ap with
  | none => rfl
  | some p =>
    obtain ⟨rmax, rmin⟩ := p
    simp only [inside]
    rw [e]
    rfl

/-- a plane surface decentred by 10 mm in x with a clear radius of 5 mm -/
noncomputable def exDecentred : RSurf ℝ :=
  ⟨.standard, ⟨10, 0, 0, 0, 0, 0⟩, .plane, 1, 1, 0, false, some (5, 0), none⟩

/-- **witness: testing the GLOBAL point differs on a decentred surface.**  The ray through the
centre of the decentred surface (global hit point `(10, 0)`, local hit point `(0, 0)`) passes with
intensity 1, whereas the aperture indicator evaluated at the global point is 0. -/
theorem global_test_differs_witness :
    (traceSurf exDecentred (11/20) [⟨10, 0, -1, 0, 0, 1, 1, 0⟩]).map (·.i) = [1] ∧
    inside exDecentred.aperture 10 0 = 0 := by
  have hloc : exDecentred.cs.localize ⟨10, 0, -1, 0, 0, 1, 1, 0⟩ = (⟨0, 0, -1, 0, 0, 1, 1, 0⟩ : Ray ℝ) := by
    have hz : Num.isZero (0:ℝ) = true := by rw [NumReal.isZero_eq]
    simp only [exDecentred, Cs.localize, truthy, hz, Ray.translate, Bool.not_true, Bool.false_eq_true, if_false]
    num_real
    norm_num
  have hpd : planeDistance (⟨0, 0, -1, 0, 0, 1, 1, 0⟩ : Ray ℝ) = 1 := by
    unfold planeDistance maskNeg
    num_real
    norm_num
  constructor
  · rw [traceSurf_body _ _ _ (by simp [exDecentred])]
    have hg : exDecentred.geom = .plane := rfl
    simp only [List.map_cons, List.map_nil, hloc, hg, Geom.distance, hpd, List.zip_cons_cons,
      List.zip_nil_right, intensity_step]
    simp [exDecentred, atten, inside, coatFactor]
  · simp only [exDecentred, inside]
    norm_num

/-! ### (b) pure obscurations and unlimited apertures -/

open scoped Num in
/-- **pure obscuration, any carrier**: on a carrier in which nothing exceeds `inf·inf` (IEEE:
`inf < a` is false for every `a`, NaN included) `clip` with `r_max = inf` is the bare test
`radius² < r_min²` — there is no early return for an infinite `r_max`. -/
theorem clip_pure_obscuration_generic {α : Type} [Num α]
    (hinf : ∀ a : α, Num.lt ((Num.inf : α) * Num.inf) a = false) (rmin : α) (r : Ray α) :
    clip (some (Num.inf, rmin)) r =
      if Num.lt (r.x * r.x + r.y * r.y) (rmin * rmin) then { r with i := 0 } else r := by
  unfold clip
  simp only [hinf, Bool.false_or]

/-- **pure obscuration over ℝ** (`r_max` beyond the ray: `ℝ` has no `inf`): a lit ray is blocked
exactly when its local radius is `< r_min` -/
theorem obscuration_blocks_iff (rmax rmin : ℝ) (r : Ray ℝ)
    (hbig : r.x * r.x + r.y * r.y ≤ rmax * rmax) (hi : r.i ≠ 0) :
    (clip (some (rmax, rmin)) r).i = 0 ↔ r.x * r.x + r.y * r.y < rmin * rmin := by
  rw [clip_i]
  unfold inside
  simp only
  by_cases h : r.x * r.x + r.y * r.y < rmin * rmin
  · simp [h]
  · have : ¬ (rmax * rmax < r.x * r.x + r.y * r.y ∨ r.x * r.x + r.y * r.y < rmin * rmin) := by
      intro h'; rcases h' with h' | h'
      · linarith
      · exact h h'
    rw [if_neg this]
    simp [h, hi]

example : ∃ (rmax rmin : ℝ) (r : Ray ℝ), r.x * r.x + r.y * r.y ≤ rmax * rmax ∧ r.i ≠ 0 ∧
    r.x * r.x + r.y * r.y < rmin * rmin :=
  ⟨1000, 2, ⟨1, 0, 0, 0, 0, 1, 1, 0⟩, by norm_num, by norm_num, by norm_num⟩

/-- whole step through a pure obscuration -/
theorem stepRay_pure_obscuration (s : RSurf ℝ) (w : ℝ) (r : Ray ℝ) (t rmax rmin : ℝ)
    (hap : s.aperture = some (rmax, rmin)) (hi : r.i ≠ 0) (hc : coatFactor s ≠ 0)
    (hbig : (r.x + t * r.L) * (r.x + t * r.L) + (r.y + t * r.M) * (r.y + t * r.M) ≤ rmax * rmax) :
    (stepRay s w r t).i = 0 ↔
      (r.x + t * r.L) * (r.x + t * r.L) + (r.y + t * r.M) * (r.y + t * r.M) < rmin * rmin := by
  rw [stepRay_blocked_iff_local s w r t rmax rmin hap hi hc]
  constructor
  · intro h; rcases h with h | h
    · linarith
    · exact h
  · exact Or.inr

/-- **`r_min = 0`, `r_max` unlimited blocks nothing**: the ray comes back unchanged -/
theorem open_aperture_blocks_nothing (rmax : ℝ) (r : Ray ℝ)
    (hbig : r.x * r.x + r.y * r.y ≤ rmax * rmax) : clip (some (rmax, 0)) r = r := by
  unfold clip
  simp only [Bool.or_eq_true]
  num_real
  rw [if_neg]
  intro h
  rcases h with h | h
  · linarith
  · nlinarith [mul_self_nonneg r.x, mul_self_nonneg r.y]

example : (3:ℝ) * 3 + 4 * 4 ≤ 1000 * 1000 := by norm_num

/-! ### (c) coatings act whether or not the media differ -/

/-- between equal media (`n₁ = n₂ ≠ 0`) `RealRays.refract` returns the ray itself, whatever the
normal (no unit-length assumption is needed) -/
theorem refract_equal_media_undeviated (r : Ray ℝ) (nx ny nz n : ℝ) (hn : n ≠ 0) :
    r.refract nx ny nz n n = r := by
  obtain ⟨x, y, z, L, M, N, i, o⟩ := r
  simp only [Ray.refract, alignNormal]
  num_real
  rw [div_self hn]
  have e : (1:ℝ) - 1 * 1 * (1 - |L * nx + M * ny + N * nz| * |L * nx + M * ny + N * nz|) =
      |L * nx + M * ny + N * nz| * |L * nx + M * ny + N * nz| := by ring
  rw [e, Real.sqrt_mul_self (abs_nonneg _)]
  congr 1 <;> ring

/-- **a SimpleCoating on a surface between equal media still acts**: the ray leaves undeviated
with intensity `T · i` (not `i`) -/
theorem interact_equal_media_coating (s : RSurf ℝ) (r : Ray ℝ) (T R : ℝ) (hk : s.kind = .standard)
    (hr : s.refl = false) (hco : s.coating = some (T, R)) (hn : s.n1 = s.n2) (hn0 : s.n2 ≠ 0) :
    interact s r = { r with i := r.i * T } := by
  obtain ⟨kind, cs, geom, n1, n2, k1, refl, ap, co⟩ := s
  simp only at hk hr hco hn hn0
  subst hk hr hco hn
  unfold interact
  simp only
  generalize geom.normal r = nrm
  obtain ⟨nx, ny, nz⟩ := nrm
  simp only [Bool.false_eq_true, if_false, refract_equal_media_undeviated r nx ny nz _ hn0]

/-- an air-to-air coated dummy surface -/
noncomputable def exDummy : RSurf ℝ :=
  ⟨.standard, ⟨0, 0, 0, 0, 0, 0⟩, .plane, 1, 1, 0, false, none, some (4/5, 1/5)⟩

example : exDummy.kind = .standard ∧ exDummy.refl = false ∧ exDummy.coating = some (4/5, 1/5) ∧
    exDummy.n1 = exDummy.n2 ∧ exDummy.n2 ≠ 0 := by
  refine ⟨rfl, rfl, rfl, rfl, ?_⟩
  simp [exDummy]

/-- **coating factor for any pair of media**: behind a coated refracting surface the intensity is
`i · atten · inside · T`, with no condition on `n₁`, `n₂` -/
theorem stepRay_coating_any_media (s : RSurf ℝ) (w : ℝ) (r : Ray ℝ) (t T R : ℝ)
    (hk : s.kind ≠ .image) (hr : s.refl = false) (hco : s.coating = some (T, R)) :
    (stepRay s w r t).i =
      r.i * atten s.k1 w t * inside s.aperture (r.x + t * r.L) (r.y + t * r.M) * T := by
  rw [intensity_step]
  have : coatFactor s = T := by
    unfold coatFactor
    rw [hco, hr]
    cases h : s.kind with
    | image => exact absurd h hk
    | object => rfl
    | standard => rfl
  rw [this]

/-- **the refractive indices do not enter the intensity at all** -/
theorem stepRay_i_indep_index (s : RSurf ℝ) (w : ℝ) (r : Ray ℝ) (t a b : ℝ) :
    (stepRay { s with n1 := a, n2 := b } w r t).i = (stepRay s w r t).i := by
  rw [intensity_step, intensity_step]
  rfl

/-! ### (d) Beer–Lambert with the vacuum wavelength -/

/-- **the attenuation is `exp(−4πk·d/λ)` with `d = 10³·t` (mm → µm) and `λ` the vacuum
wavelength**: the refractive index is not an argument of `propagate` -/
theorem propagate_vacuum_wavelength (r : Ray ℝ) (t k w : ℝ) :
    (r.propagate t k w).i = r.i * Real.exp (-(4 * Real.pi * k * (1000 * t) / w)) := by
  rw [propagate_i]
  unfold atten
  congr 2
  ring

/-- using the wavelength in the medium `λ/n` instead would give a different attenuation whenever
`n ≠ 1` in an absorbing medium -/
theorem atten_medium_wavelength_differs (k w t n : ℝ) (hk : 0 < k) (hw : 0 < w) (ht : 0 < t)
    (hn : 0 < n) (hn1 : n ≠ 1) : atten k (w / n) t ≠ atten k w t := by
  unfold atten
  intro h
  have h' := Real.exp_injective h
  have hpi := Real.pi_pos
  have e : 4 * Real.pi * k / (w / n) = n * (4 * Real.pi * k / w) := by
    field_simp
  rw [e] at h'
  have hC : (n - 1) * (4 * Real.pi * k / w * t * 1000) = 0 := by linear_combination (-1 : ℝ) * h'
  rcases mul_eq_zero.mp hC with h1 | h1
  · exact hn1 (by linarith)
  · have : 0 < 4 * Real.pi * k / w * t * 1000 := by positivity
    linarith

example : (0:ℝ) < 1/100000 ∧ (0:ℝ) < 11/20 ∧ (0:ℝ) < 10 ∧ (0:ℝ) < 3/2 ∧ (3/2:ℝ) ≠ 1 := by norm_num

/-- Beer–Lambert composes: two consecutive lengths in the same medium attenuate as their sum -/
theorem atten_add (k w t1 t2 : ℝ) : atten k w (t1 + t2) = atten k w t1 * atten k w t2 := by
  unfold atten
  rw [← Real.exp_add]
  congr 1
  ring

/-- in an absorbing medium every positive length strictly attenuates -/
theorem atten_lt_one (k w t : ℝ) (hk : 0 < k) (hw : 0 < w) (ht : 0 < t) : atten k w t < 1 := by
  unfold atten
  rw [Real.exp_lt_one_iff]
  have hpi := Real.pi_pos
  have : 0 < 4 * Real.pi * k / w * t * 1000 := by positivity
  linarith

/-! ### monotonicity, range and darkness along the WHOLE history -/

theorem forall₂_trans' {β : Type} {R : β → β → Prop} (htr : ∀ a b c, R a b → R b c → R a c) :
    ∀ {l1 l2 l3 : List β}, List.Forall₂ R l1 l2 → List.Forall₂ R l2 l3 → List.Forall₂ R l1 l3
  | _, _, _, .nil, .nil => .nil
  | _, _, _, .cons h t, .cons h' t' => .cons (htr _ _ _ h h') (forall₂_trans' htr t t')

/-- a transitive relation that holds between consecutive records holds between the launch batch
and every record -/
theorem along_all {P : ℝ → ℝ → Prop} (htr : ∀ a b c, P a b → P b c → P a c) :
    ∀ (recs : List (List (Ray ℝ))) (rays : List (Ray ℝ)), Along P rays recs →
      ∀ rc ∈ recs, List.Forall₂ (fun a b => P a.i b.i) rays rc
  | [], _, _, _, h => by simp at h
  | cur :: rest, rays, hA, rc, h => by
    rcases List.mem_cons.mp h with e | e
    · rw [e]; exact hA.1
    · exact forall₂_trans' (fun a b c => htr a.i b.i c.i) hA.1 (along_all htr rest cur hA.2 rc e)

/-- **every record is below the launch intensity**: at every surface of a passive lens, ray by
ray, `0 ≤ i_surface ≤ i_launch` -/
theorem intensity_le_launch (w : ℝ) (hw : 0 < w) (ss : List (RSurf ℝ)) (rays : List (Ray ℝ))
    (hp : ∀ s ∈ ss, Passive s) (hd : DistNonneg w ss rays) (hi : ∀ r ∈ rays, 0 ≤ r.i) :
    ∀ rc ∈ traceLens w ss rays, List.Forall₂ (fun a b => 0 ≤ b.i ∧ b.i ≤ a.i) rays rc :=
  along_all (P := fun i i' => 0 ≤ i' ∧ i' ≤ i) (fun _ _ _ h1 h2 => ⟨h2.1, le_trans h2.2 h1.2⟩) _ _
    (intensity_monotone w hw ss rays hp hd hi)

/-- **darkness is absorbing**: for every lens whatsoever, a ray launched (or arriving) with
intensity 0 has intensity 0 in every later record -/
theorem dark_forever (w : ℝ) (ss : List (RSurf ℝ)) (rays : List (Ray ℝ)) :
    ∀ rc ∈ traceLens w ss rays, List.Forall₂ (fun a b => a.i = 0 → b.i = 0) rays rc :=
  along_all (P := fun i i' => i = 0 → i' = 0) (fun _ _ _ h1 h2 h => h2 (h1 h)) _ _
    (dark_stays_dark w ss rays)

/-- once a ray is dark at surface `s`, it is dark at every record of the rest of the lens
(`dark_forever` applied to the tail of the history) -/
theorem dark_after_surface (w : ℝ) (s : RSurf ℝ) (ss : List (RSurf ℝ)) (rays : List (Ray ℝ)) :
    ∀ rc ∈ traceLens w ss (traceSurf s w rays),
      List.Forall₂ (fun a b => a.i = 0 → b.i = 0) (traceSurf s w rays) rc :=
  dark_forever w ss (traceSurf s w rays)


/-- **the rays returned by the trace are below the launch intensities**: `0 ≤ rays.i ≤ i_launch`
ray by ray for the batch `SurfaceGroup.trace` hands back (hypotheses: those of
`intensity_monotone`, satisfiable by the `exSurf`/`exMirror` example above) -/
theorem final_intensity_le_launch (w : ℝ) (hw : 0 < w) : ∀ (ss : List (RSurf ℝ)) (rays : List (Ray ℝ)),
    (∀ s ∈ ss, Passive s) → DistNonneg w ss rays → (∀ r ∈ rays, 0 ≤ r.i) →
    List.Forall₂ (fun a b => 0 ≤ b.i ∧ b.i ≤ a.i) rays (finalRays w ss rays)
  | [], rays, _, _, hi => by
    simp only [finalRays]
    induction rays with
    | nil => exact .nil
    | cons a l ih => exact .cons ⟨hi a (by simp), le_refl _⟩ (ih trivial (fun r hr => hi r (by simp [hr])))
  | s :: ss, rays, hp, hd, hi => by
    have h1 := traceSurf_monotone s w rays (hp s (by simp)) hw hd.1 hi
    have h2 := final_intensity_le_launch w hw ss _ (fun t ht => hp t (by simp [ht])) hd.2
      (forall₂_imp_right h1 (fun _ _ _ h => h.1))
    exact forall₂_trans' (R := fun (a b : Ray ℝ) => 0 ≤ b.i ∧ b.i ≤ a.i)
      (fun _ _ _ g1 g2 => ⟨g2.1, le_trans g2.2 g1.2⟩) h1 h2

/-! ### (c, polarization) the polarization update is the identity for an undeviated ray -/

section polar
open Model.Polar PolarLemmas

theorem cross_self_vnorm (k : V3 ℝ) : vnorm (cross k k) = 0 := by
  rw [vnorm_eq_zero_iff]
  simp only [cross]
  num_real
  refine ⟨by ring, by ring, by ring⟩

/-- **`PolarizedRays.update` between equal media**: for an undeviated unit direction `k` (not along
x̂, where `_get_3d_electric_field` raises) the code takes its fallback frame `s = k × x̂` and the
surface matrix `o_out @ o_in` is exactly the identity -/
theorem surfaceMatrix_undeviated (k : V3 ℝ) (hk : dot k k = 1) (hx : k.y ≠ 0 ∨ k.z ≠ 0) :
    surfaceMatrix k k = M3.one := by
  have hF : FrameOK k k := ⟨hk, hk, fun _ => hx, Or.inl (cross_self_vnorm k)⟩
  obtain ⟨hs, hs0, _⟩ := sVector_spec k k hF
  rw [surfaceMatrix_eq]
  unfold frameMatrix
  rw [ofCols_eq]
  exact frame_cols _ k hs hk hs0

/-- hence `rays.p` (real: a `SimpleCoating` supplies no Jones matrix) is left unchanged by the
update at a surface between equal media, where `refract_equal_media_undeviated` gives `k₁ = k₀`.
`_partial`: stated for a real `p` (no Jones matrix met before); for a complex `p` the same holds
through `cmul` by the identity, not proved here. -/
theorem polarization_update_identity_undeviated_partial (M : M3 ℝ) (k : V3 ℝ) (hk : dot k k = 1)
    (hx : k.y ≠ 0 ∨ k.z ≠ 0) : update (.real M) ⟨k, k, none⟩ = .real M := by
  simp only [update, polSurface, PMat.mul]
  rw [surfaceMatrix_undeviated k hk hx, one_mul']

example : dot (⟨0, 3/5, 4/5⟩ : V3 ℝ) ⟨0, 3/5, 4/5⟩ = 1 ∧ ((3/5 : ℝ) ≠ 0 ∨ (4/5 : ℝ) ≠ 0) := by
  refine ⟨?_, Or.inl (by norm_num)⟩
  unfold dot
  num_real
  norm_num

end polar

end C16
