import OptiModel.Model.Polar
import OptiModel.Proofs.NumReal
import OptiModel.Proofs.Polar
import Mathlib.Tactic.FieldSimp
import Mathlib.Tactic.Ring
import Mathlib.Tactic.LinearCombination
import Mathlib.Tactic.Positivity
import Mathlib.Tactic.Linarith
import Mathlib.Tactic.NormNum
import Mathlib.Analysis.SpecialFunctions.Trigonometric.Basic
/-!
# C17  Fresnel coefficients conserve energy; polarization elements obey their algebra

Theorems over ℝ about `Model/Polar.lean` (complex numbers are pairs of reals, `cis x = (cos x, sin x)`).
Helper lemmas: `Proofs/Polar.lean`.
-/
namespace C17
open Model.Polar PolarLemmas

/-! ## 1. Fresnel coefficients (`JonesFresnel.calculate_matrix`) -/

/-- **R_s + T_s = 1** for every pair of positive real indices and every angle of incidence with
`0 < cos θ` below the critical angle (a refraction angle `θt` with `0 < cos θt` satisfying Snell's
law exists), the transmittance carrying the factor `(n₂ cos θt)/(n₁ cos θ)`.  The two entries are the
`[0,0]` entries of `JonesFresnel.calculate_matrix(reflect=True / False)`. -/
theorem fresnel_energy_s (n1 n2 θ θt : ℝ) (h1 : 0 < n1) (h2 : 0 < n2) (hc : 0 < Real.cos θ)
    (hct : 0 < Real.cos θt) (snell : n1 * Real.sin θ = n2 * Real.sin θt) :
    (fresnel n1 n2 θ true).s.abs2
      + (n2 * Real.cos θt) / (n1 * Real.cos θ) * (fresnel n1 n2 θ false).s.abs2 = 1 := by
  have hr := fresnelRoot_eq n1 n2 θ θt h1 h2 hct snell
  have hρ : 0 < n2 / n1 * Real.cos θt := by positivity
  simp only [fresnel, if_true, Bool.false_eq_true, if_false, fresnelRs_real _ _ _ _ hr,
    fresnelTs_real _ _ _ _ hr, Cx.abs2]
  num_real
  have key := energy_s_aux (Real.cos θ) (n2 / n1 * Real.cos θt) hc hρ
  have hfac : n2 * Real.cos θt / (n1 * Real.cos θ) = n2 / n1 * Real.cos θt / Real.cos θ := by
    field_simp
  rw [hfac]
  linear_combination key

/-- **R_p + T_p = 1**, same hypotheses; entries `[1,1]` of the two matrices (the reflection matrix
holds `-r_p`) -/
theorem fresnel_energy_p (n1 n2 θ θt : ℝ) (h1 : 0 < n1) (h2 : 0 < n2) (hc : 0 < Real.cos θ)
    (hct : 0 < Real.cos θt) (snell : n1 * Real.sin θ = n2 * Real.sin θt) :
    (fresnel n1 n2 θ true).p.abs2
      + (n2 * Real.cos θt) / (n1 * Real.cos θ) * (fresnel n1 n2 θ false).p.abs2 = 1 := by
  have hr := fresnelRoot_eq n1 n2 θ θt h1 h2 hct snell
  have hρ : 0 < n2 / n1 * Real.cos θt := by positivity
  have hn : 0 < n2 / n1 := by positivity
  simp only [fresnel, if_true, Bool.false_eq_true, if_false, fresnelRp_real _ _ _ _ hr,
    fresnelTp_real _ _ _ _ hr, Cx.abs2, Cx.neg]
  num_real
  have key := energy_p_aux (n2 / n1) (Real.cos θ) (n2 / n1 * Real.cos θt) hn hc hρ
  have hfac : n2 * Real.cos θt / (n1 * Real.cos θ) = n2 / n1 * Real.cos θt / Real.cos θ := by
    field_simp
  rw [hfac]
  linear_combination key

example : ∃ n1 n2 θ θt : ℝ, 0 < n1 ∧ 0 < n2 ∧ 0 < Real.cos θ ∧ 0 < Real.cos θt ∧
    n1 * Real.sin θ = n2 * Real.sin θt :=
  ⟨1, 2, 0, 0, by norm_num, by norm_num, by simp, by simp, by simp⟩

/-- **R + T = 1 for every angle below the critical angle** (the quantifier of the property, no refraction
angle assumed): for positive indices, `0 < cos θ` and `sin²θ < (n₂/n₁)²` the refraction angle
`θt = arcsin(n₁ sin θ / n₂)` satisfies Snell's law with `0 < cos θt`, and both energy balances hold -/
theorem fresnel_energy_below_critical (n1 n2 θ : ℝ) (h1 : 0 < n1) (h2 : 0 < n2) (hc : 0 < Real.cos θ)
    (hcrit : Real.sin θ ^ 2 < (n2 / n1) ^ 2) :
    ∃ θt, 0 < Real.cos θt ∧ n1 * Real.sin θ = n2 * Real.sin θt ∧
      (fresnel n1 n2 θ true).s.abs2
        + (n2 * Real.cos θt) / (n1 * Real.cos θ) * (fresnel n1 n2 θ false).s.abs2 = 1 ∧
      (fresnel n1 n2 θ true).p.abs2
        + (n2 * Real.cos θt) / (n1 * Real.cos θ) * (fresnel n1 n2 θ false).p.abs2 = 1 := by
  set x := n1 * Real.sin θ / n2 with hx
  have hx2 : x ^ 2 < 1 := by
    have e : x ^ 2 = Real.sin θ ^ 2 / (n2 / n1) ^ 2 := by rw [hx]; field_simp
    rw [e, div_lt_one (by positivity)]
    exact hcrit
  have hlo : -1 < x := by nlinarith
  have hhi : x < 1 := by nlinarith
  have hsin : Real.sin (Real.arcsin x) = x := Real.sin_arcsin hlo.le hhi.le
  have hcos : 0 < Real.cos (Real.arcsin x) := by
    rw [Real.cos_arcsin]; apply Real.sqrt_pos.mpr; linarith
  have snell : n1 * Real.sin θ = n2 * Real.sin (Real.arcsin x) := by
    rw [hsin, hx]; field_simp
  exact ⟨Real.arcsin x, hcos, snell, fresnel_energy_s n1 n2 θ _ h1 h2 hc hcos snell,
    fresnel_energy_p n1 n2 θ _ h1 h2 hc hcos snell⟩

/-- non-vacuity at oblique incidence: air → n = 2 at 30° -/
example : 0 < Real.cos (Real.pi / 6) ∧ Real.sin (Real.pi / 6) ^ 2 < ((2:ℝ) / 1) ^ 2 := by
  rw [Real.cos_pi_div_six, Real.sin_pi_div_six]
  exact ⟨by positivity, by norm_num⟩

/-- the third diagonal entry is `-1` (reflection) / `1` (transmission) -/
theorem fresnel_k (n1 n2 θ : ℝ) :
    (fresnel n1 n2 θ true).k = ⟨-1, 0⟩ ∧ (fresnel n1 n2 θ false).k = ⟨1, 0⟩ := by
  simp only [fresnel, if_true, Bool.false_eq_true, if_false, Cx.ofReal, NumReal.fneg_eq,
    NumReal.one_eq, NumReal.zero_eq, and_self]

/-- **Brewster**: below the critical angle, for distinct indices, the p reflection coefficient
vanishes exactly when `tan θ = n₂/n₁` (for equal indices it vanishes at every angle) -/
theorem brewster (n1 n2 θ : ℝ) (h1 : 0 < n1) (h2 : 0 < n2) (hne : n1 ≠ n2) (hc : 0 < Real.cos θ)
    (hs : 0 ≤ Real.sin θ) (hcrit : Real.sin θ ^ 2 < (n2 / n1) ^ 2) :
    (fresnel n1 n2 θ true).p = Cx.zero ↔ Real.tan θ = n2 / n1 := by
  have hr := fresnelRoot_real n1 n2 θ hcrit.le
  have hnpos : 0 < n2 / n1 := by positivity
  have hn1 : n2 / n1 ≠ 1 := by
    intro h; apply hne; rw [div_eq_one_iff_eq h1.ne'] at h; exact h.symm
  have hrad : 0 < (n2 / n1) ^ 2 - Real.sin θ ^ 2 := by linarith
  have key := brewster_aux (n2 / n1) (Real.cos θ) (Real.sin θ) _ hnpos hn1 hc hs
    (Real.sin_sq_add_cos_sq θ) (Real.sqrt_pos.mpr hrad) (Real.sq_sqrt hrad.le)
  rw [Real.tan_eq_sin_div_cos, ← key]
  simp only [fresnel, if_true, fresnelRp_real _ _ _ _ hr, Cx.neg, Cx.zero]
  num_real
  rw [Cx.mk.injEq]
  simp only [neg_zero, and_true, neg_eq_zero]

example : ∃ n1 n2 θ : ℝ, 0 < n1 ∧ 0 < n2 ∧ n1 ≠ n2 ∧ 0 < Real.cos θ ∧ 0 ≤ Real.sin θ ∧
    Real.sin θ ^ 2 < (n2 / n1) ^ 2 :=
  ⟨1, 2, 0, by norm_num, by norm_num, by norm_num, by simp, by simp, by simp⟩

/-- **Brewster's angle exists and is below the critical angle**: `θ_B = arctan(n₂/n₁)` satisfies every
hypothesis of `brewster`, and the p reflection coefficient of the code vanishes there -/
theorem brewster_angle (n1 n2 : ℝ) (h1 : 0 < n1) (h2 : 0 < n2) (hne : n1 ≠ n2) :
    let θ := Real.arctan (n2 / n1)
    0 < Real.cos θ ∧ 0 ≤ Real.sin θ ∧ Real.sin θ ^ 2 < (n2 / n1) ^ 2 ∧
      (fresnel n1 n2 θ true).p = Cx.zero := by
  intro θ
  have hn : 0 < n2 / n1 := by positivity
  have hc : 0 < Real.cos θ := Real.cos_arctan_pos _
  have hsq : 0 < Real.sqrt (1 + (n2 / n1) ^ 2) := Real.sqrt_pos.mpr (by positivity)
  have hs : Real.sin θ = n2 / n1 / Real.sqrt (1 + (n2 / n1) ^ 2) := Real.sin_arctan _
  have hs0 : 0 ≤ Real.sin θ := by rw [hs]; positivity
  have hcrit : Real.sin θ ^ 2 < (n2 / n1) ^ 2 := by
    rw [hs, div_pow, Real.sq_sqrt (by positivity), div_lt_iff₀ (by positivity)]
    nlinarith [sq_nonneg (n2 / n1), pow_pos hn 2, pow_pos hn 4]
  exact ⟨hc, hs0, hcrit, (brewster n1 n2 θ h1 h2 hne hc hs0 hcrit).mpr (Real.tan_arctan _)⟩

/-- **normal incidence**: both reflectances equal `((n₁−n₂)/(n₁+n₂))²` -/
theorem normal_incidence (n1 n2 : ℝ) (h1 : 0 < n1) (h2 : 0 < n2) :
    (fresnel n1 n2 0 true).s.abs2 = ((n1 - n2) / (n1 + n2)) ^ 2 ∧
    (fresnel n1 n2 0 true).p.abs2 = ((n1 - n2) / (n1 + n2)) ^ 2 := by
  have hn : 0 < n2 / n1 := by positivity
  have hr : fresnelRoot n1 n2 0 = ⟨n2 / n1, 0⟩ := by
    rw [fresnelRoot_real n1 n2 0 (by simp; positivity)]
    simp [Real.sqrt_sq hn.le]
  have hsum : n1 + n2 ≠ 0 := by positivity
  simp only [fresnel, if_true, fresnelRs_real _ _ _ _ hr, fresnelRp_real _ _ _ _ hr, Cx.abs2, Cx.neg,
    Real.cos_zero]
  num_real
  constructor
  · field_simp; ring
  · have : (n2 / n1) ^ 2 * 1 + n2 / n1 ≠ 0 := by positivity
    field_simp; ring

/-! ## 2. s–p–k frames, uncoated surfaces, uncoated lenses (`PolarizedRays.update`) -/

/-- **frames orthonormal**: for unit directions (and, when `k0 ∥ k1`, `k0` not along x̂ — the fallback
branch) the rows `(s, p0, k0)` of `o_in` and the columns `(s, p1, k1)` of `o_out` are orthonormal -/
theorem frames_orthonormal (k0 k1 : V3 ℝ) (h : FrameOK k0 k1) :
    let s := sVector k0 k1
    (M3.ofRows s (cross k0 s) k0).mul (M3.ofRows s (cross k0 s) k0).transpose = M3.one ∧
    (M3.ofCols s (cross k1 s) k1).transpose.mul (M3.ofCols s (cross k1 s) k1) = M3.one := by
  intro s
  obtain ⟨hs, hs0, hs1⟩ := sVector_spec k0 k1 h
  exact ⟨frame_rows s k0 hs h.unit0 hs0, by
    rw [ofCols_eq, transpose_transpose]; exact frame_rows s k1 hs h.unit1 hs1⟩

/-- the uncoated polarization matrix of one surface is orthogonal and maps `k0` to `k1` -/
theorem surface_matrix_orthogonal (k0 k1 : V3 ℝ) (h : FrameOK k0 k1) :
    Orthogonal (surfaceMatrix k0 k1) ∧ (surfaceMatrix k0 k1).mulVec k0 = k1 := by
  obtain ⟨hs, hs0, hs1⟩ := sVector_spec k0 k1 h
  rw [surfaceMatrix_eq]
  exact ⟨frameMatrix_orthogonal _ _ _ hs h.unit0 h.unit1 hs0 hs1, frameMatrix_k _ _ _ h.unit0 hs0⟩

example : FrameOK (⟨0, 0, 1⟩ : V3 ℝ) ⟨0, 0, 1⟩ :=
  ⟨by unfold dot; num_real; norm_num, by unfold dot; num_real; norm_num, fun _ => Or.inr (by norm_num),
     Or.inl (by unfold vnorm cross; num_real; norm_num)⟩

/-- an uncoated surface whose frames are defined -/
def UncoatedOK (e : PolEvent ℝ) : Prop := e.jones = none ∧ FrameOK e.k0 e.k1

/-- the events describe one ray in one frame: every surface receives the direction the previous one
produced -/
def Chain : V3 ℝ → List (PolEvent ℝ) → V3 ℝ → Prop
  | k, [], k' => k = k'
  | k, e :: es, k' => e.k0 = k ∧ Chain e.k1 es k'

theorem foldl_uncoated (evs : List (PolEvent ℝ)) :
    ∀ M : M3 ℝ, Orthogonal M → (∀ e ∈ evs, UncoatedOK e) →
      ∃ M', evs.foldl update (.real M) = .real M' ∧ Orthogonal M' ∧
        ∀ kin k k', M.mulVec kin = k → Chain k evs k' → M'.mulVec kin = k' := by
  induction evs with
  | nil =>
    intro M hM _
    exact ⟨M, rfl, hM, fun kin k k' h1 h2 => by rw [h1]; exact h2⟩
  | cons e es ih =>
    intro M hM hall
    have he : UncoatedOK e := hall e (List.mem_cons_self)
    obtain ⟨hS, hk⟩ := surface_matrix_orthogonal e.k0 e.k1 he.2
    have hstep : update (.real M) e = .real ((surfaceMatrix e.k0 e.k1).mul M) := by
      unfold update polSurface
      rw [he.1]
      rfl
    obtain ⟨M', h1, h2, h3⟩ := ih ((surfaceMatrix e.k0 e.k1).mul M) (hS.mul hM)
      (fun e' he' => hall e' (List.mem_cons_of_mem _ he'))
    refine ⟨M', ?_, h2, ?_⟩
    · rw [List.foldl_cons, hstep, h1]
    · intro kin k k' hk0 hch
      obtain ⟨hc1, hc2⟩ := hch
      apply h3 kin e.k1 k' _ hc2
      rw [mulVec_mul, hk0, ← hc1, hk]

/-- **uncoated polarization matrix orthogonal**: through any sequence of uncoated surfaces `rays.p`
stays real and orthogonal, and along a connected ray path it maps the initial direction to the
final one -/
theorem uncoated_matrix_orthogonal (evs : List (PolEvent ℝ)) (h : ∀ e ∈ evs, UncoatedOK e) :
    ∃ M, tracePol evs = .real M ∧ Orthogonal M ∧
      ∀ k k', Chain k evs k' → M.mulVec k = k' := by
  obtain ⟨M, h1, h2, h3⟩ := foldl_uncoated evs M3.one Orthogonal.one h
  exact ⟨M, h1, h2, fun k k' hc => h3 k k k' (one_mulVec k) hc⟩

/-- **intensity preserved**: without coatings the intensity computed by `update_intensity` for any
polarized input state `(Ex, Ey, φx, φy)` (not both amplitudes zero) equals the unit input intensity,
for every lens (list of surface events), every ray (unit initial direction not along x̂).
(For a polarized state `update_intensity` does not use the initial intensity `_i0` at all — the result
is 1 whatever `i0` is; only the unpolarized branch scales by `_i0`.) -/
theorem uncoated_preserves_intensity (evs : List (PolEvent ℝ)) (h : ∀ e ∈ evs, UncoatedOK e)
    (k : V3 ℝ) (hk : dot k k = 1) (hx : k.y ≠ 0 ∨ k.z ≠ 0) (a b px py i0 : ℝ) (hab : a ≠ 0 ∨ b ≠ 0) :
    updateIntensity (tracePol evs) (polarized a b px py) k i0 = 1 := by
  obtain ⟨M, h1, h2, -⟩ := uncoated_matrix_orthogonal evs h
  have hp : (polarized a b px py).isPol = true := rfl
  unfold updateIntensity polIntensity
  rw [if_pos hp, h1]
  show sumAbsSq (M.rmulVec _) = 1
  rw [h2.sumAbsSq, (field3d_spec _ k hk hx).1, polarized_unit a b px py hab]

/-- **field stays transverse**: along a connected ray path through uncoated surfaces the propagated
field `P·E0` (real and imaginary part) is perpendicular to the final direction.
(The hypothesis `Chain` is what the tree violates at tilted surfaces, finding F-C17-3.) -/
theorem field_stays_transverse (evs : List (PolEvent ℝ)) (h : ∀ e ∈ evs, UncoatedOK e)
    (k k' : V3 ℝ) (hk : dot k k = 1) (hx : k.y ≠ 0 ∨ k.z ≠ 0) (hc : Chain k evs k')
    (st : PolState ℝ) :
    dot (reV (outputField (tracePol evs) (field3d st k))) k' = 0 ∧
    dot (imV (outputField (tracePol evs) (field3d st k))) k' = 0 := by
  obtain ⟨M, h1, h2, h3⟩ := uncoated_matrix_orthogonal evs h
  obtain ⟨-, hr, hi⟩ := field3d_spec st k hk hx
  rw [h1]
  show dot (reV (M.rmulVec _)) k' = 0 ∧ dot (imV (M.rmulVec _)) k' = 0
  rw [reV_rmulVec, imV_rmulVec, ← h3 k k' hc, h2.dot, h2.dot]
  exact ⟨hr, hi⟩

example : ∃ (evs : List (PolEvent ℝ)) (k k' : V3 ℝ), (∀ e ∈ evs, UncoatedOK e) ∧ dot k k = 1 ∧
    (k.y ≠ 0 ∨ k.z ≠ 0) ∧ Chain k evs k' ∧ evs ≠ [] := by
  have hf : FrameOK (⟨0, 0, 1⟩ : V3 ℝ) ⟨0, 0, 1⟩ :=
    ⟨by unfold dot; num_real; norm_num, by unfold dot; num_real; norm_num, fun _ => Or.inr (by norm_num),
     Or.inl (by unfold vnorm cross; num_real; norm_num)⟩
  refine ⟨[⟨⟨0, 0, 1⟩, ⟨0, 0, 1⟩, none⟩], ⟨0, 0, 1⟩, ⟨0, 0, 1⟩, ?_, ?_, Or.inr (by norm_num), ⟨rfl, rfl⟩, by simp⟩
  · intro e he
    rw [List.mem_singleton] at he
    rw [he]; exact ⟨rfl, hf⟩
  · unfold dot; num_real; norm_num

/-- non-vacuity with real refraction: a two-surface lens, the ray enters along the axis, is bent by
`asin(3/5)` at the first surface and back onto the axis at the second; all hypotheses of
`uncoated_preserves_intensity` and `field_stays_transverse` hold -/
theorem bent_ray_ok :
    let ka : V3 ℝ := ⟨0, 0, 1⟩
    let kb : V3 ℝ := ⟨0, 3 / 5, 4 / 5⟩
    let evs : List (PolEvent ℝ) := [⟨ka, kb, none⟩, ⟨kb, ka, none⟩]
    (∀ e ∈ evs, UncoatedOK e) ∧ dot ka ka = 1 ∧ (ka.y ≠ 0 ∨ ka.z ≠ 0) ∧ Chain ka evs ka ∧ ka ≠ kb := by
  intro ka kb evs
  have hsq : (1:ℝ) / 100000000 ≤ Real.sqrt (9 / 25) := by
    rw [Real.le_sqrt' (by norm_num)]; norm_num
  have hab : FrameOK ka kb := by
    refine ⟨?_, ?_, fun _ => Or.inr ?_, Or.inr ?_⟩
    · simp only [ka, dot]; num_real; norm_num
    · simp only [kb, dot]; num_real; norm_num
    · simp only [ka]; norm_num
    · simp only [ka, kb, vnorm, cross]; num_real
      have : ((0:ℝ) * (4 / 5) - 1 * (3 / 5)) * (0 * (4 / 5) - 1 * (3 / 5)) + (1 * 0 - 0 * (4 / 5)) * (1 * 0 - 0 * (4 / 5))
          + (0 * (3 / 5) - 0 * 0) * (0 * (3 / 5) - 0 * 0) = 9 / 25 := by norm_num
      rw [this]; exact hsq
  have hba : FrameOK kb ka := by
    refine ⟨?_, ?_, fun _ => Or.inl ?_, Or.inr ?_⟩
    · simp only [kb, dot]; num_real; norm_num
    · simp only [ka, dot]; num_real; norm_num
    · simp only [kb]; norm_num
    · simp only [ka, kb, vnorm, cross]; num_real
      have : ((3:ℝ) / 5 * 1 - 4 / 5 * 0) * (3 / 5 * 1 - 4 / 5 * 0) + (4 / 5 * 0 - 0 * 1) * (4 / 5 * 0 - 0 * 1)
          + (0 * 0 - 3 / 5 * 0) * (0 * 0 - 3 / 5 * 0) = 9 / 25 := by norm_num
      rw [this]; exact hsq
  refine ⟨?_, ?_, Or.inr ?_, ⟨rfl, rfl, rfl⟩, ?_⟩
  · intro e he
    simp only [evs, List.mem_cons, List.mem_nil_iff, or_false] at he
    rcases he with rfl | rfl
    · exact ⟨rfl, hab⟩
    · exact ⟨rfl, hba⟩
  · simp only [ka, dot]; num_real; norm_num
  · simp only [ka]; norm_num
  · intro h
    have := congrArg V3.y h
    simp only [ka, kb] at this
    norm_num at this

/-- … hence, for that lens and any input state, intensity 1 and a transverse output field -/
example (a b px py i0 : ℝ) (hab : a ≠ 0 ∨ b ≠ 0) :
    let ka : V3 ℝ := ⟨0, 0, 1⟩
    let kb : V3 ℝ := ⟨0, 3 / 5, 4 / 5⟩
    let evs : List (PolEvent ℝ) := [⟨ka, kb, none⟩, ⟨kb, ka, none⟩]
    updateIntensity (tracePol evs) (polarized a b px py) ka i0 = 1 ∧
    dot (reV (outputField (tracePol evs) (field3d (polarized a b px py) ka))) ka = 0 := by
  intro ka kb evs
  obtain ⟨h1, h2, h3, h4, -⟩ := bent_ray_ok
  exact ⟨uncoated_preserves_intensity evs h1 ka h2 h3 a b px py i0 hab,
    (field_stays_transverse evs h1 ka ka h2 h3 h4 _).1⟩

/-- the `_spec` variant for tilted surfaces (finding F-C17-3): conjugating the surface matrix with the
surface's rotation `R` (local → global) gives an orthogonal matrix that maps the *global* incoming
direction `R k0` to the *global* outgoing direction `R k1`, so that global directions chain -/
theorem surfaceMatrix_spec_global (R : M3 ℝ) (hR : Orthogonal R) (hR' : Orthogonal R.transpose)
    (k0 k1 : V3 ℝ) (h : FrameOK k0 k1) :
    Orthogonal (surfaceMatrix_spec R k0 k1) ∧
    (surfaceMatrix_spec R k0 k1).mulVec (R.mulVec k0) = R.mulVec k1 := by
  obtain ⟨hS, hk⟩ := surface_matrix_orthogonal k0 k1 h
  unfold surfaceMatrix_spec
  refine ⟨(hR.mul hS).mul hR', ?_⟩
  have hRR : R.transpose.mul R = M3.one := hR
  rw [mulVec_mul, mulVec_mul, ← mulVec_mul R.transpose R, hRR, one_mulVec, hk]

/-! ## 3. unpolarized light (`update_intensity`) -/

theorem outputField_real (m : M3 ℝ) (E : V3 (Cx ℝ)) :
    outputField (.real m) E = outputField (.cplx m.toC) E := by
  unfold outputField M3.rmulVec M3.cmulVec M3.toC Cx.rmul Cx.mul Cx.add Cx.ofReal
  num_real
  simp only [V3.mk.injEq, Cx.mk.injEq]
  refine ⟨⟨?_, ?_⟩, ⟨?_, ?_⟩, ⟨?_, ?_⟩⟩ <;> ring

/-- the complex amplitudes `(row_i·ŝ, row_i·p̂)` of output component `i` for unit x / y input -/
noncomputable def rowS (m0 m1 m2 : Cx ℝ) (k : V3 ℝ) : Cx ℝ :=
  ((m0.smul (sHat k).x).add (m1.smul (sHat k).y)).add (m2.smul (sHat k).z)
noncomputable def rowP (m0 m1 m2 : Cx ℝ) (k : V3 ℝ) : Cx ℝ :=
  ((m0.smul (pHat k).x).add (m1.smul (pHat k).y)).add (m2.smul (pHat k).z)

/-- `tr(P†P)` restricted to the transverse plane of the initial direction -/
noncomputable def transverseTrace (m : M3 (Cx ℝ)) (k : V3 ℝ) : ℝ :=
  (rowS m.a00 m.a01 m.a02 k).abs2 + (rowP m.a00 m.a01 m.a02 k).abs2 +
  ((rowS m.a10 m.a11 m.a12 k).abs2 + (rowP m.a10 m.a11 m.a12 k).abs2) +
  ((rowS m.a20 m.a21 m.a22 k).abs2 + (rowP m.a20 m.a21 m.a22 k).abs2)

theorem polIntensity_cplx (m : M3 (Cx ℝ)) (st : PolState ℝ) (k : V3 ℝ) :
    polIntensity (.cplx m) st k =
      ((st.jones.1.mul (rowS m.a00 m.a01 m.a02 k)).add (st.jones.2.mul (rowP m.a00 m.a01 m.a02 k))).abs2 +
      ((st.jones.1.mul (rowS m.a10 m.a11 m.a12 k)).add (st.jones.2.mul (rowP m.a10 m.a11 m.a12 k))).abs2 +
      ((st.jones.1.mul (rowS m.a20 m.a21 m.a22 k)).add (st.jones.2.mul (rowP m.a20 m.a21 m.a22 k))).abs2 := by
  have hf : field3d st k = ⟨(st.jones.1.smul (sHat k).x).add (st.jones.2.smul (pHat k).x),
      (st.jones.1.smul (sHat k).y).add (st.jones.2.smul (pHat k).y),
      (st.jones.1.smul (sHat k).z).add (st.jones.2.smul (pHat k).z)⟩ := rfl
  unfold polIntensity outputField
  simp only
  rw [hf]
  unfold M3.cmulVec sumAbsSq rowS rowP
  simp only [row_lin, abs_mul_abs]

/-- two fully polarized states whose Jones vectors are orthonormal -/
def OrthonormalStates (st1 st2 : PolState ℝ) : Prop :=
  st1.jones.1.abs2 + st1.jones.2.abs2 = 1 ∧ st2.jones.1.abs2 + st2.jones.2.abs2 = 1 ∧
  (st1.jones.1.mul st2.jones.1.conj).add (st1.jones.2.mul st2.jones.2.conj) = Cx.zero

theorem pair_sum_cplx (m : M3 (Cx ℝ)) (k : V3 ℝ) (st1 st2 : PolState ℝ) (h : OrthonormalStates st1 st2) :
    polIntensity (.cplx m) st1 k + polIntensity (.cplx m) st2 k = transverseTrace m k := by
  obtain ⟨h1, h2, h3⟩ := h
  rw [polIntensity_cplx, polIntensity_cplx]
  have e0 := unitary_mix _ _ _ _ (rowS m.a00 m.a01 m.a02 k) (rowP m.a00 m.a01 m.a02 k) h1 h2 h3
  have e1 := unitary_mix _ _ _ _ (rowS m.a10 m.a11 m.a12 k) (rowP m.a10 m.a11 m.a12 k) h1 h2 h3
  have e2 := unitary_mix _ _ _ _ (rowS m.a20 m.a21 m.a22 k) (rowP m.a20 m.a21 m.a22 k) h1 h2 h3
  unfold transverseTrace
  linear_combination e0 + e1 + e2

theorem xy_states : OrthonormalStates (polarized (1:ℝ) 0 0 0) (polarized (0:ℝ) 1 0 0) := by
  unfold OrthonormalStates PolState.jones polarized Cx.rmul Cx.cis Cx.abs2 Cx.mul Cx.conj Cx.add Cx.zero
  num_real
  simp [Real.sqrt_one]

/-- **unpolarized = mean of any two orthogonal unit states**: for every polarization matrix (any
coatings), every ray, and every pair of input states with orthonormal Jones vectors, the intensity
`update_intensity` assigns to unpolarized light (unit initial intensity) is the mean of the two
polarized intensities.  (Purely algebraic in the launch frame `ŝ, p̂`; for `k ∥ x̂`, where the code
raises, both sides are the junk value 0.) -/
theorem unpolarized_is_mean (P : PMat ℝ) (k : V3 ℝ) (st1 st2 : PolState ℝ)
    (h : OrthonormalStates st1 st2) :
    updateIntensity P unpolarized k 1 = (polIntensity P st1 k + polIntensity P st2 k) / 2 := by
  have key : ∀ m : M3 (Cx ℝ), updateIntensity (.cplx m) unpolarized k 1
      = (polIntensity (.cplx m) st1 k + polIntensity (.cplx m) st2 k) / 2 := by
    intro m
    have hu : (unpolarized : PolState ℝ).isPol = false := rfl
    unfold updateIntensity
    rw [hu]
    simp only [Bool.false_eq_true, if_false]
    num_real
    rw [pair_sum_cplx m k _ _ xy_states, pair_sum_cplx m k _ _ h, mul_one]
  cases P with
  | cplx m => exact key m
  | real m =>
    have := key m.toC
    unfold updateIntensity polIntensity at *
    simp only [outputField_real]
    exact this

example : OrthonormalStates (createPolarization .H : PolState ℝ) (createPolarization .V) := xy_states

/-- the random orthogonal pairs the harness traces: `(Ex e^{iφx}, Ey e^{iφy})` and
`(Ey e^{iφx}, −Ex e^{iφy})` are orthonormal states for every amplitude pair (not both zero) and all
phases -/
theorem orth_pair (a b px py : ℝ) (h : a ≠ 0 ∨ b ≠ 0) :
    OrthonormalStates (polarized a b px py) (polarized b (-a) px py) := by
  have hpos : 0 < a * a + b * b := by
    rcases h with h | h
    · have := mul_self_pos.mpr h; nlinarith [mul_self_nonneg b]
    · have := mul_self_pos.mpr h; nlinarith [mul_self_nonneg a]
  have e2 : b * b + -a * -a = a * a + b * b := by ring
  have hm : Real.sqrt (a * a + b * b) ≠ 0 := (Real.sqrt_pos.mpr hpos).ne'
  have hm2 : Real.sqrt (a * a + b * b) * Real.sqrt (a * a + b * b) = a * a + b * b :=
    Real.mul_self_sqrt hpos.le
  have c1 := Real.cos_sq_add_sin_sq px
  have c2 := Real.cos_sq_add_sin_sq py
  unfold OrthonormalStates PolState.jones polarized Cx.rmul Cx.cis Cx.abs2 Cx.mul Cx.conj Cx.add Cx.zero
  num_real
  simp only [e2, Cx.mk.injEq]
  set m := Real.sqrt (a * a + b * b)
  refine ⟨?_, ?_, ?_, ?_⟩
  · field_simp
    linear_combination (a^2) * c1 + (b^2) * c2 - hm2
  · field_simp
    linear_combination (b^2) * c1 + (a^2) * c2 - hm2
  · field_simp
    linear_combination (a*b) * c1 - (a*b) * c2
  · field_simp
    ring

/-! ## 4. Jones elements -/

/-- 2×2 complex matrix product -/
noncomputable def jmul (a b : J2 (Cx ℝ)) : J2 (Cx ℝ) :=
  ⟨(a.a.mul b.a).add (a.b.mul b.c), (a.a.mul b.b).add (a.b.mul b.d),
   (a.c.mul b.a).add (a.d.mul b.c), (a.c.mul b.b).add (a.d.mul b.d)⟩
/-- conjugate transpose -/
noncomputable def jadj (a : J2 (Cx ℝ)) : J2 (Cx ℝ) := ⟨a.a.conj, a.c.conj, a.b.conj, a.d.conj⟩
noncomputable def jone : J2 (Cx ℝ) := ⟨⟨1, 0⟩, ⟨0, 0⟩, ⟨0, 0⟩, ⟨1, 0⟩⟩
/-- matrix × Jones vector -/
noncomputable def japply (a : J2 (Cx ℝ)) (v : Cx ℝ × Cx ℝ) : Cx ℝ × Cx ℝ :=
  ((a.a.mul v.1).add (a.b.mul v.2), (a.c.mul v.1).add (a.d.mul v.2))
/-- `v v†`, the orthogonal projector onto a unit Jones vector -/
noncomputable def outer (v : Cx ℝ × Cx ℝ) : J2 (Cx ℝ) :=
  ⟨v.1.mul v.1.conj, v.1.mul v.2.conj, v.2.mul v.1.conj, v.2.mul v.2.conj⟩
/-- rotation by `θ` -/
noncomputable def rot (θ : ℝ) : J2 (Cx ℝ) :=
  ⟨⟨Real.cos θ, 0⟩, ⟨-Real.sin θ, 0⟩, ⟨Real.sin θ, 0⟩, ⟨Real.cos θ, 0⟩⟩
/-- the element `j` turned by `θ`: `R(θ) j R(−θ)` -/
noncomputable def rotated (j : J2 (Cx ℝ)) (θ : ℝ) : J2 (Cx ℝ) := jmul (rot θ) (jmul j (rot (-θ)))
/-- `diag(a, b)` -/
noncomputable def diag (a b : Cx ℝ) : J2 (Cx ℝ) := ⟨a, ⟨0, 0⟩, ⟨0, 0⟩, b⟩

theorem half_eq : (half : ℝ) = 1 / 2 := by
  unfold half; num_real; norm_num

/-- **polarizers are idempotent** (all six) -/
theorem polarizer_idempotent :
    jmul (polarizerH : J2 (Cx ℝ)) polarizerH = polarizerH ∧
    jmul (polarizerV : J2 (Cx ℝ)) polarizerV = polarizerV ∧
    jmul (polarizerL45 : J2 (Cx ℝ)) polarizerL45 = polarizerL45 ∧
    jmul (polarizerL135 : J2 (Cx ℝ)) polarizerL135 = polarizerL135 ∧
    jmul (polarizerRCP : J2 (Cx ℝ)) polarizerRCP = polarizerRCP ∧
    jmul (polarizerLCP : J2 (Cx ℝ)) polarizerLCP = polarizerLCP := by
  unfold polarizerH polarizerV polarizerL45 polarizerL135 polarizerRCP polarizerLCP jmul
    Cx.mul Cx.add Cx.ofReal Cx.zero
  rw [half_eq]
  num_real
  simp only [J2.mk.injEq, Cx.mk.injEq]
  norm_num

theorem sqrt2_half_sq : Real.sqrt 2 / 2 * (Real.sqrt 2 / 2) = 1 / 2 := by
  have := Real.mul_self_sqrt (show (0:ℝ) ≤ 2 by norm_num)
  linear_combination this / 4

theorem inv_sqrt2 : 1 / Real.sqrt 2 = Real.sqrt 2 / 2 := by
  have h := Real.mul_self_sqrt (show (0:ℝ) ≤ 2 by norm_num)
  have h0 : Real.sqrt 2 ≠ 0 := by positivity
  field_simp
  linear_combination (-1 : ℝ) * h

/-- Jones vectors of the six named states of `create_polarization` -/
theorem named_jones :
    (createPolarization .H : PolState ℝ).jones = (⟨1, 0⟩, ⟨0, 0⟩) ∧
    (createPolarization .V : PolState ℝ).jones = (⟨0, 0⟩, ⟨1, 0⟩) ∧
    (createPolarization .Lp45 : PolState ℝ).jones = (⟨Real.sqrt 2 / 2, 0⟩, ⟨Real.sqrt 2 / 2, 0⟩) ∧
    (createPolarization .Lm45 : PolState ℝ).jones = (⟨Real.sqrt 2 / 2, 0⟩, ⟨-(Real.sqrt 2 / 2), 0⟩) ∧
    (createPolarization .RCP : PolState ℝ).jones = (⟨Real.sqrt 2 / 2, 0⟩, ⟨0, -(Real.sqrt 2 / 2)⟩) ∧
    (createPolarization .LCP : PolState ℝ).jones = (⟨Real.sqrt 2 / 2, 0⟩, ⟨0, Real.sqrt 2 / 2⟩) := by
  have e11 : Real.sqrt (1 * 1 + 1 * 1) = Real.sqrt 2 := by norm_num
  have e1m : Real.sqrt (1 * 1 + -1 * -1) = Real.sqrt 2 := by norm_num
  have err : Real.sqrt (Real.sqrt 2 / 2 * (Real.sqrt 2 / 2) + Real.sqrt 2 / 2 * (Real.sqrt 2 / 2)) = 1 := by
    rw [sqrt2_half_sq]; norm_num
  unfold createPolarization polarized PolState.jones Cx.rmul Cx.cis
  num_real
  simp only [Real.cos_zero, Real.sin_zero, neg_div, Real.cos_neg, Real.sin_neg, Real.cos_pi_div_two,
    Real.sin_pi_div_two, e11, e1m, err, inv_sqrt2, neg_div]
  norm_num [inv_sqrt2]

/-- **polarizers project onto their stated state**: each matrix is `v v†`, the orthogonal projector
onto the Jones vector `v` of the state `create_polarization` builds under the same name
(`L135` ↔ `'L-45'`) -/
theorem polarizer_projects :
    (polarizerH : J2 (Cx ℝ)) = outer (createPolarization .H).jones ∧
    (polarizerV : J2 (Cx ℝ)) = outer (createPolarization .V).jones ∧
    (polarizerL45 : J2 (Cx ℝ)) = outer (createPolarization .Lp45).jones ∧
    (polarizerL135 : J2 (Cx ℝ)) = outer (createPolarization .Lm45).jones ∧
    (polarizerRCP : J2 (Cx ℝ)) = outer (createPolarization .RCP).jones ∧
    (polarizerLCP : J2 (Cx ℝ)) = outer (createPolarization .LCP).jones := by
  obtain ⟨h1, h2, h3, h4, h5, h6⟩ := named_jones
  rw [h1, h2, h3, h4, h5, h6]
  unfold polarizerH polarizerV polarizerL45 polarizerL135 polarizerRCP polarizerLCP outer
    Cx.mul Cx.conj Cx.ofReal Cx.zero
  rw [half_eq]
  num_real
  simp only [J2.mk.injEq, Cx.mk.injEq]
  have := sqrt2_half_sq
  refine ⟨?_, ?_, ?_, ?_, ?_, ?_⟩ <;> norm_num <;> nlinarith [this]

/-- a projector `v v†` onto a unit vector passes `v` unchanged and blocks every orthogonal `w` -/
theorem outer_apply (v w : Cx ℝ × Cx ℝ) (hv : v.1.abs2 + v.2.abs2 = 1)
    (hw : (w.1.mul v.1.conj).add (w.2.mul v.2.conj) = Cx.zero) :
    japply (outer v) v = v ∧ japply (outer v) w = (Cx.zero, Cx.zero) := by
  obtain ⟨⟨a, b⟩, ⟨c, d⟩⟩ := v
  obtain ⟨⟨e, f⟩, ⟨g, h⟩⟩ := w
  unfold japply outer Cx.mul Cx.conj Cx.add Cx.abs2 Cx.zero at *
  num_real
  simp only [Prod.mk.injEq, Cx.mk.injEq] at *
  obtain ⟨h1, h2⟩ := hw
  refine ⟨⟨⟨?_, ?_⟩, ⟨?_, ?_⟩⟩, ⟨⟨?_, ?_⟩, ⟨?_, ?_⟩⟩⟩
  · linear_combination a * hv
  · linear_combination b * hv
  · linear_combination c * hv
  · linear_combination d * hv
  · linear_combination a * h1 - b * h2
  · linear_combination b * h1 + a * h2
  · linear_combination c * h1 - d * h2
  · linear_combination d * h1 + c * h2

/-- `P` passes `v` unchanged and blocks every Jones vector orthogonal to `v` -/
def PassBlock (P : J2 (Cx ℝ)) (v : Cx ℝ × Cx ℝ) : Prop :=
  japply P v = v ∧
  ∀ w : Cx ℝ × Cx ℝ, (w.1.mul v.1.conj).add (w.2.mul v.2.conj) = Cx.zero → japply P w = (Cx.zero, Cx.zero)

/-- the six named states are unit Jones vectors -/
theorem named_unit :
    (∀ n : PolName, n ≠ .unpolarized →
      ((createPolarization n : PolState ℝ).jones.1).abs2 + ((createPolarization n : PolState ℝ).jones.2).abs2 = 1) := by
  obtain ⟨h1, h2, h3, h4, h5, h6⟩ := named_jones
  have := sqrt2_half_sq
  intro n hn
  cases n
  · rw [h1]; simp [Cx.abs2]
  · rw [h2]; simp [Cx.abs2]
  · rw [h3]; simp only [Cx.abs2]; num_real; nlinarith
  · rw [h4]; simp only [Cx.abs2]; num_real; nlinarith
  · rw [h5]; simp only [Cx.abs2]; num_real; nlinarith
  · rw [h6]; simp only [Cx.abs2]; num_real; nlinarith
  · exact absurd rfl hn

/-- **polarizers are projectors onto their stated state, as maps**: each of the six matrices of the
code passes the Jones vector of the equally named `create_polarization` state unchanged and
extinguishes every orthogonal Jones vector -/
theorem polarizer_pass_block :
    PassBlock polarizerH (createPolarization .H : PolState ℝ).jones ∧
    PassBlock polarizerV (createPolarization .V : PolState ℝ).jones ∧
    PassBlock polarizerL45 (createPolarization .Lp45 : PolState ℝ).jones ∧
    PassBlock polarizerL135 (createPolarization .Lm45 : PolState ℝ).jones ∧
    PassBlock polarizerRCP (createPolarization .RCP : PolState ℝ).jones ∧
    PassBlock polarizerLCP (createPolarization .LCP : PolState ℝ).jones := by
  obtain ⟨p1, p2, p3, p4, p5, p6⟩ := polarizer_projects
  have z : ∀ v : Cx ℝ × Cx ℝ, ((Cx.zero : Cx ℝ).mul v.1.conj).add ((Cx.zero : Cx ℝ).mul v.2.conj) = Cx.zero := by
    intro v
    unfold Cx.mul Cx.add Cx.zero Cx.conj
    num_real
    simp
  have key : ∀ n : PolName, n ≠ .unpolarized →
      PassBlock (outer (createPolarization n : PolState ℝ).jones) (createPolarization n : PolState ℝ).jones :=
    fun n hn => ⟨(outer_apply _ (Cx.zero, Cx.zero) (named_unit n hn) (z _)).1,
      fun w hw => (outer_apply _ w (named_unit n hn) hw).2⟩
  rw [p1, p2, p3, p4, p5, p6]
  exact ⟨key _ (by decide), key _ (by decide), key _ (by decide), key _ (by decide), key _ (by decide),
    key _ (by decide)⟩

/-- **retarders are unitary**: `J J† = 1` for every retardance and every axis angle -/
theorem retarder_unitary (d t : ℝ) : jmul (retarder d t) (jadj (retarder d t)) = jone := by
  have hd := Real.cos_sq_add_sin_sq (d / 2)
  have ht := Real.cos_sq_add_sin_sq t
  have h2 := Real.sin_two_mul t
  unfold jmul jadj jone retarder Cx.add Cx.mul Cx.conj Cx.smul Cx.cis
  num_real
  simp only [neg_div, Real.cos_neg, Real.sin_neg, h2, J2.mk.injEq, Cx.mk.injEq]
  set cd := Real.cos (d / 2)
  set sd := Real.sin (d / 2)
  set c := Real.cos t
  set s := Real.sin t
  refine ⟨⟨?_, ?_⟩, ⟨?_, ?_⟩, ⟨?_, ?_⟩, ⟨?_, ?_⟩⟩
  · linear_combination ((c^2+s^2)^2) * hd + (c^2 + s^2 + 1) * ht
  · ring
  · ring
  · ring
  · ring
  · ring
  · linear_combination ((c^2+s^2)^2) * hd + (c^2 + s^2 + 1) * ht
  · ring

/-- **stated retardance**: the axis state `(cos t, sin t)` is an eigenvector with phase `e^{-id/2}`, the
orthogonal state `(−sin t, cos t)` with phase `e^{+id/2}`; the two phases differ by exactly `d` -/
theorem retarder_retardance (d t : ℝ) :
    japply (retarder d t) (⟨Real.cos t, 0⟩, ⟨Real.sin t, 0⟩)
      = ((Cx.cis (-(d / 2))).mul ⟨Real.cos t, 0⟩, (Cx.cis (-(d / 2))).mul ⟨Real.sin t, 0⟩) ∧
    japply (retarder d t) (⟨-Real.sin t, 0⟩, ⟨Real.cos t, 0⟩)
      = ((Cx.cis (d / 2)).mul ⟨-Real.sin t, 0⟩, (Cx.cis (d / 2)).mul ⟨Real.cos t, 0⟩) ∧
    Cx.cis (d / 2) = (Cx.cis d).mul (Cx.cis (-(d / 2))) := by
  have ht := Real.cos_sq_add_sin_sq t
  have h2 := Real.sin_two_mul t
  have hdd : Real.cos d = Real.cos (d/2) ^ 2 - Real.sin (d/2) ^ 2 := by
    have := Real.cos_two_mul (d / 2)
    have h := Real.cos_sq_add_sin_sq (d / 2)
    rw [show 2 * (d / 2) = d by ring] at this
    linear_combination this + h
  have hds : Real.sin d = 2 * Real.sin (d/2) * Real.cos (d/2) := by
    have := Real.sin_two_mul (d / 2)
    rw [show 2 * (d / 2) = d by ring] at this
    exact this
  have hd := Real.cos_sq_add_sin_sq (d / 2)
  unfold japply retarder Cx.add Cx.mul Cx.smul Cx.cis
  num_real
  simp only [neg_div, Real.cos_neg, Real.sin_neg, h2, hdd, hds, Prod.mk.injEq, Cx.mk.injEq]
  set cd := Real.cos (d / 2)
  set sd := Real.sin (d / 2)
  set c := Real.cos t
  set s := Real.sin t
  refine ⟨⟨⟨?_, ?_⟩, ⟨?_, ?_⟩⟩, ⟨⟨?_, ?_⟩, ⟨?_, ?_⟩⟩, ⟨?_, ?_⟩⟩
  · linear_combination (cd * c) * ht
  · linear_combination (-sd * c) * ht
  · linear_combination (cd * s) * ht
  · linear_combination (-sd * s) * ht
  · linear_combination (-cd * s) * ht
  · linear_combination (-sd * s) * ht
  · linear_combination (cd * c) * ht
  · linear_combination (sd * c) * ht
  · linear_combination (-cd) * hd
  · linear_combination (-sd) * hd

/-- **rotation covariance of the retarder**: the element at angle `t` is `R(t) · (element at 0) · R(−t)` -/
theorem retarder_rotation_covariant (d t : ℝ) : retarder d t = rotated (retarder d 0) t := by
  have ht := Real.cos_sq_add_sin_sq t
  have h2 := Real.sin_two_mul t
  unfold rotated rot jmul retarder Cx.add Cx.mul Cx.smul Cx.cis
  num_real
  simp only [neg_div, Real.cos_neg, Real.sin_neg, h2, mul_zero, Real.sin_zero, Real.cos_zero,
    J2.mk.injEq, Cx.mk.injEq]
  set cd := Real.cos (d / 2)
  set sd := Real.sin (d / 2)
  set c := Real.cos t
  set s := Real.sin t
  refine ⟨⟨?_, ?_⟩, ⟨?_, ?_⟩, ⟨?_, ?_⟩, ⟨?_, ?_⟩⟩ <;> ring

/-- quarter- and half-wave plates are the retarder with `d = π/2`, `π` (by definition in the code) and
at `t = 0` they are `diag(e^{−iπ/4}, e^{iπ/4})`, `diag(−i, i)` -/
theorem wave_plates (t : ℝ) :
    quarterWave t = retarder (Real.pi / 2) t ∧ halfWave t = retarder Real.pi t ∧
    halfWave (0:ℝ) = diag ⟨0, -1⟩ ⟨0, 1⟩ := by
  refine ⟨rfl, rfl, ?_⟩
  unfold halfWave retarder diag Cx.add Cx.smul Cx.cis
  num_real
  simp [neg_div, Real.cos_pi_div_two, Real.sin_pi_div_two]

/-! ### linear diattenuator: the tree computes `t_max − t_min·cos·sin` (finding F14 / F-C17-1) -/

/-- the **specified** diattenuator is rotation covariant: it is the rotation of `diag(t_max, t_min)`,
which is the element itself at angle 0 -/
theorem diattenuator_spec_rotation_covariant (tmin tmax t : ℝ) :
    diattenuator_spec tmin tmax t = rotated (diag ⟨tmax, 0⟩ ⟨tmin, 0⟩) t ∧
    diattenuator_spec tmin tmax 0 = diag ⟨tmax, 0⟩ ⟨tmin, 0⟩ := by
  unfold diattenuator_spec rotated rot diag jmul Cx.ofReal Cx.add Cx.mul
  num_real
  simp only [Real.cos_neg, Real.sin_neg, Real.sin_zero, Real.cos_zero, J2.mk.injEq, Cx.mk.injEq]
  refine ⟨⟨⟨?_, ?_⟩, ⟨?_, ?_⟩, ⟨?_, ?_⟩, ⟨?_, ?_⟩⟩, ⟨⟨?_, trivial⟩, ⟨?_, trivial⟩, ⟨?_, trivial⟩, ?_, trivial⟩⟩
  all_goals ring1

/-- full statement (FALSE on the tree):
`∀ tmin tmax t, diattenuator_code tmin tmax t = rotated (diattenuator_code tmin tmax 0) t`.
**Its negation**, with the witness `t_min = 0, t_max = 1, θ = π/2`: the code gives off-diagonal `+1`,
the rotation of its own `θ = 0` matrix gives `−1`. -/
theorem diattenuator_rotation_covariant_false :
    ¬ ∀ tmin tmax t : ℝ, diattenuator_code tmin tmax t = rotated (diattenuator_code tmin tmax 0) t := by
  intro h
  have h' := h 0 1 (Real.pi / 2)
  unfold diattenuator_code rotated rot jmul Cx.ofReal Cx.add Cx.mul at h'
  num_real
  simp only [Real.cos_neg, Real.sin_neg, Real.sin_zero, Real.cos_zero, Real.cos_pi_div_two,
    Real.sin_pi_div_two, J2.mk.injEq, Cx.mk.injEq] at h'
  norm_num at h'

/-- the code's element at `θ = 0` is not `diag(t_max, t_min)`: for `t_min = 0, t_max = 1` both
off-diagonal entries are 1 (the value `tests/test_jones.py` pins) -/
theorem diattenuator_code_not_diagonal :
    (diattenuator_code (0:ℝ) 1 0).b = ⟨1, 0⟩ ∧ (diattenuator_code (0:ℝ) 1 0).c = ⟨1, 0⟩ ∧
    diattenuator_code (0:ℝ) 1 0 ≠ diag ⟨1, 0⟩ ⟨0, 0⟩ := by
  unfold diattenuator_code diag Cx.ofReal
  num_real
  simp only [Real.sin_zero, Real.cos_zero, Cx.mk.injEq]
  norm_num

/-- what does hold for the code: it is symmetric and its diagonal is the diagonal of the rotation of
`diag(t_max, t_min)`; only the off-diagonal entry differs from the specification, by exactly
`t_max·(1 − cos t·sin t)` -/
theorem diattenuator_rotation_covariant_partial (tmin tmax t : ℝ) :
    (diattenuator_code tmin tmax t).a = (rotated (diag ⟨tmax, 0⟩ ⟨tmin, 0⟩) t).a ∧
    (diattenuator_code tmin tmax t).d = (rotated (diag ⟨tmax, 0⟩ ⟨tmin, 0⟩) t).d ∧
    (diattenuator_code tmin tmax t).b = (diattenuator_code tmin tmax t).c ∧
    (diattenuator_code tmin tmax t).b.re - (diattenuator_spec tmin tmax t).b.re
      = tmax * (1 - Real.cos t * Real.sin t) := by
  unfold diattenuator_code diattenuator_spec rotated rot diag jmul Cx.ofReal Cx.add Cx.mul
  num_real
  simp only [Real.cos_neg, Real.sin_neg, Cx.mk.injEq]
  refine ⟨⟨?_, ?_⟩, ⟨?_, ?_⟩, trivial, ?_⟩
  all_goals ring1

/-! ## 5. round 8: rotation law and its sign, relative index, state normalisation, launch intensity -/

/-! ### (a) rotation law -/

theorem rotated_zero (j : J2 (Cx ℝ)) : rotated j 0 = j := by
  obtain ⟨⟨a1, a2⟩, ⟨b1, b2⟩, ⟨c1, c2⟩, ⟨d1, d2⟩⟩ := j
  unfold rotated rot jmul Cx.add Cx.mul
  num_real
  simp only [neg_zero, Real.cos_zero, Real.sin_zero, J2.mk.injEq, Cx.mk.injEq]
  refine ⟨⟨?_, ?_⟩, ⟨?_, ?_⟩, ⟨?_, ?_⟩, ⟨?_, ?_⟩⟩ <;> ring

/-- **rotations compose**: turning an element by `a` and then by `b` is turning it by `a + b`
(for every 2×2 Jones block) -/
theorem rotated_rotated (j : J2 (Cx ℝ)) (a b : ℝ) : rotated (rotated j a) b = rotated j (a + b) := by
  obtain ⟨⟨a1, a2⟩, ⟨b1, b2⟩, ⟨c1, c2⟩, ⟨d1, d2⟩⟩ := j
  unfold rotated rot jmul Cx.add Cx.mul
  num_real
  simp only [Real.cos_neg, Real.sin_neg, Real.cos_add, Real.sin_add, J2.mk.injEq, Cx.mk.injEq]
  refine ⟨⟨?_, ?_⟩, ⟨?_, ?_⟩, ⟨?_, ?_⟩, ⟨?_, ?_⟩⟩ <;> ring

/-- **rotation law of the retarder, relative form**: the element at `a + b` is the element at `a`
turned by `b`; quarter- and half-wave plates inherit the law (they are the retarder with `d = π/2, π`) -/
theorem retarder_rotation_law (d a b : ℝ) :
    retarder d (a + b) = rotated (retarder d a) b ∧
    quarterWave (a + b) = rotated (quarterWave a) b ∧ halfWave (a + b) = rotated (halfWave a) b ∧
    quarterWave b = rotated (quarterWave 0) b ∧ halfWave b = rotated (halfWave 0) b := by
  have key : ∀ d a b : ℝ, retarder d (a + b) = rotated (retarder d a) b := by
    intro d a b
    rw [retarder_rotation_covariant d (a + b), retarder_rotation_covariant d a, rotated_rotated]
  exact ⟨key d a b, key _ a b, key _ a b, retarder_rotation_covariant _ b, retarder_rotation_covariant _ b⟩

/-- **linear polarizers obey the rotation law**: the V, +45° and −45° (`L135`) polarizers of the code are
the H polarizer turned by 90°, +45°, −45° (and by 135°) -/
theorem linear_polarizers_are_rotations :
    (polarizerV : J2 (Cx ℝ)) = rotated polarizerH (Real.pi / 2) ∧
    (polarizerL45 : J2 (Cx ℝ)) = rotated polarizerH (Real.pi / 4) ∧
    (polarizerL135 : J2 (Cx ℝ)) = rotated polarizerH (-(Real.pi / 4)) ∧
    (polarizerL135 : J2 (Cx ℝ)) = rotated polarizerH (3 * Real.pi / 4) := by
  have h34c : Real.cos (3 * Real.pi / 4) = -(Real.sqrt 2 / 2) := by
    rw [show 3 * Real.pi / 4 = Real.pi - Real.pi / 4 by ring, Real.cos_pi_sub, Real.cos_pi_div_four]
  have h34s : Real.sin (3 * Real.pi / 4) = Real.sqrt 2 / 2 := by
    rw [show 3 * Real.pi / 4 = Real.pi - Real.pi / 4 by ring, Real.sin_pi_sub, Real.sin_pi_div_four]
  have hq := sqrt2_half_sq
  unfold polarizerH polarizerV polarizerL45 polarizerL135 rotated rot jmul Cx.ofReal Cx.zero Cx.add Cx.mul
  rw [half_eq]
  num_real
  simp only [Real.cos_neg, Real.sin_neg, Real.cos_pi_div_two, Real.sin_pi_div_two, Real.cos_pi_div_four,
    Real.sin_pi_div_four, h34c, h34s, J2.mk.injEq, Cx.mk.injEq]
  refine ⟨⟨⟨?_, ?_⟩, ⟨?_, ?_⟩, ⟨?_, ?_⟩, ⟨?_, ?_⟩⟩, ⟨⟨?_, ?_⟩, ⟨?_, ?_⟩, ⟨?_, ?_⟩, ⟨?_, ?_⟩⟩,
    ⟨⟨?_, ?_⟩, ⟨?_, ?_⟩, ⟨?_, ?_⟩, ⟨?_, ?_⟩⟩, ⟨⟨?_, ?_⟩, ⟨?_, ?_⟩, ⟨?_, ?_⟩, ⟨?_, ?_⟩⟩⟩
  all_goals first | (ring_nf; done) | linear_combination hq | linear_combination (-1 : ℝ) * hq

/-- **rotation law for projectors, as maps**: the projector onto a Jones vector `v`, turned by θ, is the
projector onto the turned vector `R(θ) v` — for every `v` (so every polarizer of the code, turned, is
the polarizer of the turned state; with `linear_polarizers_are_rotations`: V, ±45° are the H polarizer
turned by the angle their name states) -/
theorem rotated_outer (v : Cx ℝ × Cx ℝ) (t : ℝ) : rotated (outer v) t = outer (japply (rot t) v) := by
  obtain ⟨⟨a, b⟩, ⟨c, d⟩⟩ := v
  unfold rotated outer japply rot jmul Cx.add Cx.mul Cx.conj
  num_real
  simp only [Real.cos_neg, Real.sin_neg, J2.mk.injEq, Cx.mk.injEq]
  refine ⟨⟨?_, ?_⟩, ⟨?_, ?_⟩, ⟨?_, ?_⟩, ⟨?_, ?_⟩⟩ <;> ring

/-- the **specified** diattenuator obeys the same relative rotation law (the code's does not:
`diattenuator_rotation_covariant_false`) -/
theorem diattenuator_spec_rotation_law (tmin tmax a b : ℝ) :
    diattenuator_spec tmin tmax (a + b) = rotated (diattenuator_spec tmin tmax a) b := by
  rw [(diattenuator_spec_rotation_covariant tmin tmax (a + b)).1,
    (diattenuator_spec_rotation_covariant tmin tmax a).1, rotated_rotated]

/-- the seeded sign slip: the off-diagonal entry `-1j·sin(d/2)·sin(2θ)` of `JonesLinearRetarder` with
the opposite sign -/
noncomputable def retarder_slip (d t : ℝ) : J2 (Cx ℝ) :=
  ⟨(retarder d t).a, (retarder d t).b.neg, (retarder d t).c.neg, (retarder d t).d⟩

/-- **the slipped matrix is the element at −θ** (fast axis mirrored), for every retardance and angle -/
theorem retarder_slip_is_minus_theta (d t : ℝ) : retarder_slip d t = retarder d (-t) := by
  unfold retarder_slip retarder Cx.neg Cx.add Cx.smul Cx.cis
  num_real
  simp only [Real.cos_neg, Real.sin_neg, mul_neg, neg_zero, J2.mk.injEq, Cx.mk.injEq]
  refine ⟨?_, ?_, ?_, ?_⟩ <;> (try constructor) <;> ring

/-- **the sign of θ is observable exactly off the symmetric cases**: the element at `−θ` (= the slipped
matrix) equals the element at `+θ` iff `sin(d/2) = 0` (retardance a multiple of 2π: no retarder at all)
or `sin 2θ = 0` (θ a multiple of 90°) -/
theorem retarder_sign_observable (d t : ℝ) :
    retarder_slip d t = retarder d t ↔ Real.sin (d / 2) = 0 ∨ Real.sin (2 * t) = 0 := by
  unfold retarder_slip retarder Cx.neg
  num_real
  simp only [J2.mk.injEq, Cx.mk.injEq, true_and, and_true, neg_zero, and_self]
  constructor
  · intro h
    have : Real.sin (d / 2) * Real.sin (2 * t) = 0 := by linarith
    exact mul_eq_zero.mp this
  · intro h
    have : Real.sin (d / 2) * Real.sin (2 * t) = 0 := mul_eq_zero.mpr h
    linarith

/-- … in terms of the angles themselves: the two matrices differ iff the retardance is not a multiple
of 2π and θ is not a multiple of 90° -/
theorem retarder_sign_observable_angles (d t : ℝ) :
    retarder d (-t) ≠ retarder d t ↔
      (¬ ∃ n : ℤ, d = n * (2 * Real.pi)) ∧ (¬ ∃ n : ℤ, t = n * (Real.pi / 2)) := by
  rw [← retarder_slip_is_minus_theta, Ne, retarder_sign_observable, not_or,
    Real.sin_eq_zero_iff, Real.sin_eq_zero_iff]
  constructor
  · rintro ⟨h1, h2⟩
    refine ⟨fun ⟨n, hn⟩ => h1 ⟨n, by rw [hn]; ring⟩, fun ⟨n, hn⟩ => h2 ⟨n, by rw [hn]; ring⟩⟩
  · rintro ⟨h1, h2⟩
    refine ⟨fun ⟨n, hn⟩ => h1 ⟨n, by linarith⟩, fun ⟨n, hn⟩ => h2 ⟨n, by linarith⟩⟩

example : (¬ ∃ n : ℤ, Real.pi = n * (2 * Real.pi)) := by
  rintro ⟨n, hn⟩
  have hp := Real.pi_pos
  have h1 : (n : ℝ) * 2 = 1 := by
    have : Real.pi * ((n : ℝ) * 2 - 1) = 0 := by linarith
    rcases mul_eq_zero.mp this with h | h
    · exact absurd h hp.ne'
    · linarith
  have h2 : (n * 2 : ℤ) = 1 := by exact_mod_cast h1
  omega

/-- **a half-wave plate at θ turns H into linear polarization at 2θ** (global phase `−i`): the fast axis
is at `+θ`.  At 22.5° the output is the `'L+45'` state, at −22.5° (the slipped element) the `'L-45'` state. -/
theorem halfWave_turns_H (t : ℝ) :
    japply (halfWave t) (createPolarization .H : PolState ℝ).jones
      = ((⟨0, -1⟩ : Cx ℝ).mul ⟨Real.cos (2 * t), 0⟩, (⟨0, -1⟩ : Cx ℝ).mul ⟨Real.sin (2 * t), 0⟩) := by
  rw [named_jones.1]
  have hc := Real.cos_two_mul t
  have ht := Real.cos_sq_add_sin_sq t
  unfold japply halfWave retarder Cx.add Cx.mul Cx.smul Cx.cis
  num_real
  simp only [neg_div, Real.cos_neg, Real.sin_neg, Real.cos_pi_div_two, Real.sin_pi_div_two,
    Prod.mk.injEq, Cx.mk.injEq]
  refine ⟨⟨?_, ?_⟩, ⟨?_, ?_⟩⟩
  · ring
  · rw [hc]; linear_combination ht
  · ring
  · ring

theorem halfWave_22_5 :
    japply (halfWave (Real.pi / 8)) (createPolarization .H : PolState ℝ).jones
      = ((⟨0, -1⟩ : Cx ℝ).mul (createPolarization .Lp45 : PolState ℝ).jones.1,
         (⟨0, -1⟩ : Cx ℝ).mul (createPolarization .Lp45 : PolState ℝ).jones.2) ∧
    japply (halfWave (-(Real.pi / 8))) (createPolarization .H : PolState ℝ).jones
      = ((⟨0, -1⟩ : Cx ℝ).mul (createPolarization .Lm45 : PolState ℝ).jones.1,
         (⟨0, -1⟩ : Cx ℝ).mul (createPolarization .Lm45 : PolState ℝ).jones.2) := by
  obtain ⟨-, -, h3, h4, -, -⟩ := named_jones
  rw [halfWave_turns_H, halfWave_turns_H, h3, h4,
    show 2 * (Real.pi / 8) = Real.pi / 4 by ring, show 2 * -(Real.pi / 8) = -(Real.pi / 4) by ring,
    Real.cos_neg, Real.sin_neg, Real.cos_pi_div_four, Real.sin_pi_div_four]
  exact ⟨rfl, rfl⟩

/-- **a quarter-wave plate with the fast axis at +45° turns H into the state `create_polarization('RCP')`**
(exactly, no global phase), the one the `JonesPolarizerRCP` passes; at −45° (the slipped element) the
output is `'LCP'` -/
theorem quarterWave_45 :
    japply (quarterWave (Real.pi / 4)) (createPolarization .H : PolState ℝ).jones
      = (createPolarization .RCP : PolState ℝ).jones ∧
    japply (quarterWave (-(Real.pi / 4))) (createPolarization .H : PolState ℝ).jones
      = (createPolarization .LCP : PolState ℝ).jones ∧
    japply polarizerRCP (japply (quarterWave (Real.pi / 4)) (createPolarization .H : PolState ℝ).jones)
      = japply (quarterWave (Real.pi / 4)) (createPolarization .H : PolState ℝ).jones ∧
    japply polarizerLCP (japply (quarterWave (Real.pi / 4)) (createPolarization .H : PolState ℝ).jones)
      = (Cx.zero, Cx.zero) := by
  obtain ⟨h1, -, -, -, h5, h6⟩ := named_jones
  have hq := sqrt2_half_sq
  have e1 : japply (quarterWave (Real.pi / 4)) (createPolarization .H : PolState ℝ).jones
      = (createPolarization .RCP : PolState ℝ).jones := by
    rw [h1, h5]
    unfold japply quarterWave retarder Cx.add Cx.mul Cx.smul Cx.cis
    num_real
    simp only [neg_div, Real.cos_neg, Real.sin_neg, show Real.pi / 2 / 2 = Real.pi / 4 by ring,
      show 2 * (Real.pi / 4) = Real.pi / 2 by ring, Real.cos_pi_div_four, Real.sin_pi_div_four,
      Real.sin_pi_div_two, Prod.mk.injEq, Cx.mk.injEq]
    refine ⟨⟨?_, ?_⟩, ⟨?_, ?_⟩⟩
    · linear_combination (Real.sqrt 2) * hq
    · ring
    · ring
    · ring
  have e2 : japply (quarterWave (-(Real.pi / 4))) (createPolarization .H : PolState ℝ).jones
      = (createPolarization .LCP : PolState ℝ).jones := by
    rw [h1, h6]
    unfold japply quarterWave retarder Cx.add Cx.mul Cx.smul Cx.cis
    num_real
    simp only [neg_div, Real.cos_neg, Real.sin_neg, show Real.pi / 2 / 2 = Real.pi / 4 by ring,
      show 2 * -(Real.pi / 4) = -(Real.pi / 2) by ring, Real.cos_pi_div_four, Real.sin_pi_div_four,
      Real.sin_pi_div_two, Prod.mk.injEq, Cx.mk.injEq]
    refine ⟨⟨?_, ?_⟩, ⟨?_, ?_⟩⟩
    · linear_combination (Real.sqrt 2) * hq
    · ring
    · ring
    · ring
  obtain ⟨-, -, -, -, p5, p6⟩ := polarizer_pass_block
  refine ⟨e1, e2, ?_, ?_⟩
  · rw [e1]; exact p5.1
  · rw [e1]
    apply p6.2
    rw [h5, h6]
    unfold Cx.mul Cx.conj Cx.add Cx.zero
    num_real
    simp only [Cx.mk.injEq]
    constructor
    · linear_combination (0 : ℝ) * hq
    · ring

/-! ### (b) Fresnel coefficients depend on the RELATIVE index only -/

/-- **only the ratio n₂/n₁ enters**: scaling both indices by a common factor changes no coefficient
(so a glass–glass interface `1.5 → 3` behaves as `1 → 2`; the seeded slip `sin θt = sin θ / n₂`
breaks this) -/
theorem fresnel_relative_index (n1 n2 c θ : ℝ) (hc : c ≠ 0) (refl : Bool) :
    fresnel (c * n1) (c * n2) θ refl = fresnel n1 n2 θ refl := by
  have e : c * n2 / (c * n1) = n2 / n1 := mul_div_mul_left n2 n1 hc
  unfold fresnel fresnelRs fresnelRp fresnelTs fresnelTp fresnelRoot
  num_real
  simp only [e]

/-- **equal indices reflect nothing**, whatever their common value: `r_s = r_p = 0`, `t_s = t_p = 1`
for `n₁ = n₂ = n ≠ 0` at every angle with `0 < cos θ` -/
theorem fresnel_equal_indices (n θ : ℝ) (hn : n ≠ 0) (hc : 0 < Real.cos θ) :
    fresnel n n θ true = ⟨Cx.zero, Cx.zero, ⟨-1, 0⟩⟩ ∧ fresnel n n θ false = ⟨Cx.one, Cx.one, ⟨1, 0⟩⟩ := by
  have h1 : n / n = 1 := div_self hn
  have hr : fresnelRoot n n θ = ⟨Real.cos θ, 0⟩ := by
    rw [fresnelRoot_real n n θ (by rw [h1]; nlinarith [Real.sin_sq_add_cos_sq θ, sq_nonneg (Real.cos θ)]), h1]
    have : (1:ℝ) ^ 2 - Real.sin θ ^ 2 = Real.cos θ ^ 2 := by
      linear_combination (-1 : ℝ) * Real.sin_sq_add_cos_sq θ
    rw [this, Real.sqrt_sq hc.le]
  have h2 : Real.cos θ + Real.cos θ ≠ 0 := by positivity
  simp only [fresnel, if_true, Bool.false_eq_true, if_false, fresnelRs_real _ _ _ _ hr,
    fresnelRp_real _ _ _ _ hr, fresnelTs_real _ _ _ _ hr, fresnelTp_real _ _ _ _ hr, h1, Cx.neg,
    Cx.zero, Cx.one, Cx.ofReal]
  num_real
  simp only [FresnelJ.mk.injEq, Cx.mk.injEq, one_pow, one_mul, mul_one, sub_self, zero_div, neg_zero,
    and_true, true_and]
  refine ⟨?_, ?_⟩ <;> field_simp <;> ring

example : ∃ n θ : ℝ, n ≠ 0 ∧ n ≠ 1 ∧ 0 < Real.cos θ ∧ Real.sin θ ≠ 0 :=
  ⟨3 / 2, Real.pi / 6, by norm_num, by norm_num, by rw [Real.cos_pi_div_six]; positivity,
    by rw [Real.sin_pi_div_six]; norm_num⟩

/-- the seeded slip (absolute `n₂` where the relative index belongs, i.e. `JonesFresnel` evaluated as if
`n₁ = 1`) is visible on an index-matched interface: `2 → 2` at normal incidence it reflects
`r_s = −1/3` where the code reflects nothing -/
theorem fresnel_absolute_index_slip_visible :
    (fresnel (1:ℝ) 2 0 true).s = ⟨-(1 / 3), 0⟩ ∧ (fresnel (2:ℝ) 2 0 true).s = Cx.zero := by
  refine ⟨?_, by rw [(fresnel_equal_indices 2 0 (by norm_num) (by simp)).1]⟩
  have hr : fresnelRoot (1:ℝ) 2 0 = ⟨2, 0⟩ := by
    rw [fresnelRoot_real 1 2 0 (by simp)]
    have : ((2:ℝ) / 1) ^ 2 - Real.sin 0 ^ 2 = 2 ^ 2 := by simp
    rw [this, Real.sqrt_sq (by norm_num)]
  simp only [fresnel, if_true, fresnelRs_real _ _ _ _ hr, Real.cos_zero]
  norm_num

/-- **the coefficients are real below the critical angle** (all four, any positive indices) -/
theorem fresnel_real_below_critical (n1 n2 θ : ℝ) (hcrit : Real.sin θ ^ 2 ≤ (n2 / n1) ^ 2) :
    (fresnel n1 n2 θ true).s.im = 0 ∧ (fresnel n1 n2 θ true).p.im = 0 ∧
    (fresnel n1 n2 θ false).s.im = 0 ∧ (fresnel n1 n2 θ false).p.im = 0 := by
  have hr := fresnelRoot_real n1 n2 θ hcrit
  simp only [fresnel, if_true, Bool.false_eq_true, if_false, fresnelRs_real _ _ _ _ hr,
    fresnelRp_real _ _ _ _ hr, fresnelTs_real _ _ _ _ hr, fresnelTp_real _ _ _ _ hr, Cx.neg]
  num_real
  simp

/-- non-vacuity with `n₁ ≠ 1` (glass → denser glass, 30°): the hypotheses of
`fresnel_energy_below_critical`, `fresnel_real_below_critical` hold, and by `fresnel_relative_index`
the coefficients are those of `1 → 2` -/
example : 0 < (3 / 2 : ℝ) ∧ 0 < (3 : ℝ) ∧ 0 < Real.cos (Real.pi / 6) ∧
    Real.sin (Real.pi / 6) ^ 2 < ((3 : ℝ) / (3 / 2)) ^ 2 ∧
    ∀ r, fresnel (3 / 2 * 1 : ℝ) (3 / 2 * 2) (Real.pi / 6) r = fresnel 1 2 (Real.pi / 6) r := by
  rw [Real.cos_pi_div_six, Real.sin_pi_div_six]
  exact ⟨by norm_num, by norm_num, by positivity, by norm_num,
    fun r => fresnel_relative_index 1 2 (3 / 2) _ (by norm_num) r⟩

/-- **sign of r_p on either side of Brewster's angle**: below the critical angle, for `n = n₂/n₁ ≠ 1`,
the code's `r_p` has the sign of `(n − 1)(n cos θ − sin θ)`: for `n > 1` positive below Brewster's angle
and negative above it (a sign slip in `p` would reverse this) -/
theorem rp_sign (n1 n2 θ : ℝ) (h1 : 0 < n1) (h2 : 0 < n2) (hc : 0 < Real.cos θ) (hs : 0 ≤ Real.sin θ)
    (hcrit : Real.sin θ ^ 2 < (n2 / n1) ^ 2) :
    (0 < (fresnelRp n1 n2 θ).re ↔ 0 < (n2 / n1 - 1) * (n2 / n1 * Real.cos θ - Real.sin θ)) ∧
    ((fresnelRp n1 n2 θ).re < 0 ↔ (n2 / n1 - 1) * (n2 / n1 * Real.cos θ - Real.sin θ) < 0) := by
  have hr := fresnelRoot_real n1 n2 θ hcrit.le
  rw [fresnelRp_real _ _ _ _ hr]
  have hn : 0 < n2 / n1 := by positivity
  set n := n2 / n1 with hnd
  set c := Real.cos θ
  set s := Real.sin θ
  have hp : s ^ 2 + c ^ 2 = 1 := Real.sin_sq_add_cos_sq θ
  have hrad : 0 < n ^ 2 - s ^ 2 := by linarith
  set ρ := Real.sqrt (n ^ 2 - s ^ 2) with hρd
  have hρ : 0 < ρ := Real.sqrt_pos.mpr hrad
  have hρ2 : ρ ^ 2 = n ^ 2 - s ^ 2 := Real.sq_sqrt hrad.le
  have hden : 0 < n ^ 2 * c + ρ := by positivity
  -- (n²c − ρ)(n²c + ρ) = (n−1)(nc−s) · (n+1)(nc+s)
  have key : (n ^ 2 * c - ρ) * (n ^ 2 * c + ρ) = ((n - 1) * (n * c - s)) * ((n + 1) * (n * c + s)) := by
    linear_combination (-1 : ℝ) * hρ2 + n ^ 2 * hp
  have hpos : 0 < (n + 1) * (n * c + s) := by positivity
  show (0 < (n ^ 2 * c - ρ) / (n ^ 2 * c + ρ) ↔ _) ∧ ((n ^ 2 * c - ρ) / (n ^ 2 * c + ρ) < 0 ↔ _)
  rw [div_pos_iff_of_pos_right hden, div_lt_iff₀ hden, zero_mul]
  constructor
  · constructor
    · intro h
      have : 0 < ((n - 1) * (n * c - s)) * ((n + 1) * (n * c + s)) := by rw [← key]; positivity
      exact (mul_pos_iff_of_pos_right hpos).mp this
    · intro h
      have : 0 < (n ^ 2 * c - ρ) * (n ^ 2 * c + ρ) := by rw [key]; positivity
      exact (mul_pos_iff_of_pos_right hden).mp this
  · constructor
    · intro h
      have : ((n - 1) * (n * c - s)) * ((n + 1) * (n * c + s)) < 0 := by
        rw [← key]; exact mul_neg_of_neg_of_pos h hden
      by_contra hcon
      rw [not_lt] at hcon
      have := mul_nonneg hcon hpos.le
      linarith
    · intro h
      have : (n ^ 2 * c - ρ) * (n ^ 2 * c + ρ) < 0 := by
        rw [key]; exact mul_neg_of_neg_of_pos h hpos
      by_contra hcon
      rw [not_lt] at hcon
      have := mul_nonneg hcon hden.le
      linarith

example : ∃ n1 n2 θ : ℝ, 0 < n1 ∧ 0 < n2 ∧ 0 < Real.cos θ ∧ 0 ≤ Real.sin θ ∧
    Real.sin θ ^ 2 < (n2 / n1) ^ 2 ∧ n2 / n1 ≠ 1 :=
  ⟨3 / 2, 3, 0, by norm_num, by norm_num, by simp, by simp, by simp, by norm_num⟩

/-! ### (c) `PolarizationState`: normalisation with a vanishing component, launch intensity -/

/-- **normalisation when one component is exactly 0**: `PolarizationState(Ex=a, Ey=0)` stores
`(a/|a|, 0)` = `(±1, 0)`, and likewise for `Ex = 0` — the division by `mag` is not skipped -/
theorem polarized_zero_component (a px py : ℝ) (ha : a ≠ 0) :
    polarized a 0 px py = ⟨true, a / |a|, 0, px, py⟩ ∧ polarized 0 a px py = ⟨true, 0, a / |a|, px, py⟩ ∧
    (a / |a|) ^ 2 = 1 := by
  have e1 : Real.sqrt (a * a + 0 * 0) = |a| := by
    rw [mul_zero, add_zero]; exact Real.sqrt_mul_self_eq_abs a
  have e2 : Real.sqrt (0 * 0 + a * a) = |a| := by
    rw [mul_zero, zero_add]; exact Real.sqrt_mul_self_eq_abs a
  have habs : |a| ≠ 0 := abs_ne_zero.mpr ha
  refine ⟨?_, ?_, ?_⟩
  · unfold polarized; num_real; rw [e1, zero_div]
  · unfold polarized; num_real; rw [e2, zero_div]
  · rw [div_pow, sq_abs, div_self (pow_ne_zero 2 ha)]

example : ∃ a : ℝ, a ≠ 0 ∧ |a| ≠ 1 := ⟨3, by norm_num, by norm_num⟩

/-- the seeded truthiness slip: `if self.Ex and self.Ey:` instead of `is not None` — a state with a zero
component is stored as given -/
noncomputable def polarized_slip (Ex Ey px py : ℝ) : PolState ℝ :=
  if Ex ≠ 0 ∧ Ey ≠ 0 then polarized Ex Ey px py else ⟨true, Ex, Ey, px, py⟩

/-- the slipped constructor agrees with the code when both components are non-zero and leaves the
intensity `a²` (instead of 1) when one of them vanishes -/
theorem polarized_slip_not_normalised (a b px py : ℝ) :
    (a ≠ 0 → b ≠ 0 → polarized_slip a b px py = polarized a b px py) ∧
    ((polarized_slip a 0 px py).Ex ^ 2 + (polarized_slip a 0 px py).Ey ^ 2 = a ^ 2) ∧
    (a ≠ 0 → (polarized a 0 px py).Ex ^ 2 + (polarized a 0 px py).Ey ^ 2 = 1) := by
  refine ⟨fun ha hb => ?_, ?_, fun ha => polarized_unit a 0 px py (Or.inl ha)⟩
  · unfold polarized_slip; rw [if_pos ⟨ha, hb⟩]
  · unfold polarized_slip; rw [if_neg (fun h => h.2 rfl)]; ring

/-- **the launched state has intensity 1 for every valid input**: for all amplitudes `(Ex, Ey) ≠ (0, 0)`
(one of them may be exactly 0), all phases, and every unit initial direction not along x̂, the 3-D field
`_get_3d_electric_field` builds has `Σ|E|² = 1`, and `update_intensity` before any surface returns 1 -/
theorem launch_intensity_one (a b px py i0 : ℝ) (hab : a ≠ 0 ∨ b ≠ 0) (k : V3 ℝ) (hk : dot k k = 1)
    (hx : k.y ≠ 0 ∨ k.z ≠ 0) :
    sumAbsSq (field3d (polarized a b px py) k) = 1 ∧
    updateIntensity (tracePol []) (polarized a b px py) k i0 = 1 := by
  refine ⟨?_, uncoated_preserves_intensity [] (by simp) k hk hx a b px py i0 hab⟩
  rw [(field3d_spec _ k hk hx).1, polarized_unit a b px py hab]

example : ∃ (a b : ℝ) (k : V3 ℝ), (a ≠ 0 ∨ b ≠ 0) ∧ b = 0 ∧ dot k k = 1 ∧ (k.y ≠ 0 ∨ k.z ≠ 0) :=
  ⟨3, 0, ⟨0, 3 / 5, 4 / 5⟩, Or.inl (by norm_num), rfl, by unfold dot; num_real; norm_num,
    Or.inl (by norm_num)⟩

/-- … whereas a state stored without normalisation (the slip, `Ex = a`, `Ey = 0`) is launched with
intensity `a²` -/
theorem launch_intensity_slip (a px py : ℝ) (k : V3 ℝ) (hk : dot k k = 1) (hx : k.y ≠ 0 ∨ k.z ≠ 0) :
    sumAbsSq (field3d (polarized_slip a 0 px py) k) = a ^ 2 := by
  rw [(field3d_spec _ k hk hx).1]
  exact (polarized_slip_not_normalised a 0 px py).2.1

/-! ### (d) unpolarized light with attenuation on the way -/

/-- `update_intensity` for unpolarized light is linear in the launch intensity `_i0` it is given -/
theorem unpolarized_linear_in_i0 (P : PMat ℝ) (k : V3 ℝ) (a i0 : ℝ) :
    updateIntensity P unpolarized k (a * i0) = a * updateIntensity P unpolarized k i0 := by
  have hu : (unpolarized : PolState ℝ).isPol = false := rfl
  unfold updateIntensity
  rw [hu]
  simp only [Bool.false_eq_true, if_false]
  num_real
  ring

/-- **unpolarized = launch intensity × mean of any two orthogonal unit states**, for every polarization
matrix (whatever coatings attenuated the field on the way), every ray, every ORIGINAL launch intensity
`i0` (`_i0 = intensity.copy()`), every orthonormal pair of input states -/
theorem unpolarized_is_mean_scaled (P : PMat ℝ) (k : V3 ℝ) (st1 st2 : PolState ℝ)
    (h : OrthonormalStates st1 st2) (i0 : ℝ) :
    updateIntensity P unpolarized k i0 = i0 * ((polIntensity P st1 k + polIntensity P st2 k) / 2) := by
  have := unpolarized_linear_in_i0 P k i0 1
  rw [mul_one] at this
  rw [this, unpolarized_is_mean P k st1 st2 h]

/-- the seeded aliasing slip (`_i0 = intensity`, so that `_i0` follows the live array which apertures,
absorption and earlier `update_intensity` calls have scaled by `a`) returns `a` times the specified
value: it is wrong exactly when `a ≠ 1` and the specified value is not 0 -/
theorem unpolarized_alias_slip_differs (P : PMat ℝ) (k : V3 ℝ) (a i0 : ℝ) :
    updateIntensity P unpolarized k (a * i0) = updateIntensity P unpolarized k i0 ↔
      a = 1 ∨ updateIntensity P unpolarized k i0 = 0 := by
  rw [unpolarized_linear_in_i0]
  constructor
  · intro h
    have : (a - 1) * updateIntensity P unpolarized k i0 = 0 := by linear_combination h
    rcases mul_eq_zero.mp this with h | h
    · exact Or.inl (by linarith)
    · exact Or.inr h
  · rintro (h | h)
    · rw [h, one_mul]
    · rw [h, mul_zero]

/-- non-vacuity of the slip: through no surface at all, launch intensity 1, attenuation `a = 1/2`, the
specified unpolarized intensity is 1 and the slipped one 1/2 -/
theorem unpolarized_alias_slip_example (k : V3 ℝ) (hk : dot k k = 1) (hx : k.y ≠ 0 ∨ k.z ≠ 0) :
    updateIntensity (tracePol []) unpolarized k 1 = 1 ∧
    updateIntensity (tracePol []) unpolarized k (1 / 2 * 1) = 1 / 2 := by
  have h1 : updateIntensity (tracePol []) unpolarized k (1:ℝ) = 1 := by
    rw [unpolarized_is_mean _ k _ _ xy_states]
    have e1 := uncoated_preserves_intensity [] (by simp) k hk hx 1 0 0 0 1 (Or.inl one_ne_zero)
    have e2 := uncoated_preserves_intensity [] (by simp) k hk hx 0 1 0 0 1 (Or.inr one_ne_zero)
    have hp1 : (polarized (1:ℝ) 0 0 0).isPol = true := rfl
    have hp2 : (polarized (0:ℝ) 1 0 0).isPol = true := rfl
    unfold updateIntensity at e1 e2
    rw [if_pos hp1] at e1
    rw [if_pos hp2] at e2
    rw [e1, e2]; norm_num
  exact ⟨h1, by rw [unpolarized_linear_in_i0, h1]; norm_num⟩


end C17
