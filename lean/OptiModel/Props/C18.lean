import OptiModel.Model.Material
import OptiModel.Proofs.NumReal
import OptiModel.Proofs.MaterialStr
import OptiModel.Proofs.MaterialReal
import OptiModel.Gen.Catalog
import OptiModel.Gen.CatalogCert
import Mathlib.Tactic.Ring
import Mathlib.Tactic.FieldSimp
import Mathlib.Tactic.Linarith
import Mathlib.Tactic.NormNum
/-!
# C18  Catalogue materials return the index their data file defines

Theorems about `Model/Material.lean`.

* `formulaK_code_eq_spec` (K = 1…9): for every coefficient list of a length the published formula
  provides for, the fold `MaterialFile._formula_K` performs equals the formula of the
  refractiveindex.info document evaluated on the zero-padded coefficients; `formulaK_raises`
  characterises the lengths for which the code raises `ValueError`.  `formulaK_published` shows that the
  specification function really solves the published (implicit) equation.
* `interp_piecewise_linear` (every `x` inside the table's range), `interp_knots`, `interp_linear_between`, `interp_clamps_left/right`, `interp_in_hull`, `interp_raises`:
  `np.interp` on strictly increasing knots.
* `levenshtein_dp_eq_spec`, `levenshtein_zero_iff_eq`.
* `abbe_def`, `polyval_horner`.
* `lookup_exact_name`, `lookup_exact_name_ref`, `lookup_exact_name_own_ref`, `catalog_unambiguous`,
  `ambiguous_genuine`: over the regenerated catalogue table `Gen.Catalog.rows`.

* `formula_code_eq_spec`: the same through the dispatcher `formula_code k` that the driver runs.
* `lookup_code_eq_spec`, `lookup_exact_name_code`: the tree's regular-expression lookup agrees with the
  literal one on metacharacter-free names, so `lookup_exact_name` holds for the code there.
* non-vacuity: `rows_length`, `lookup_exact_name_nonvacuous`, `lookup_exact_name_code_nonvacuous`.

Not covered by theorems (see the harness): IEEE rounding; the regular-expression semantics of the tree
(`lookup_code`, finding F10) on names *with* metacharacters is only run, not reasoned about; scalar
versus array arguments and the per-row data files (coefficients, ranges) are compared by the harness only; the accuracy of the model-glass fit.
-/
namespace C18
open Model.Mat
set_option linter.unnecessarySeqFocus false
set_option linter.unusedTactic false
set_option linter.unreachableTactic false

/-- destructure a list into its first 18 elements -/
macro "split_list " c:ident : tactic => `(tactic|
  rcases $c:ident with _ | ⟨a1, _ | ⟨a2, _ | ⟨a3, _ | ⟨a4, _ | ⟨a5, _ | ⟨a6, _ | ⟨a7, _ | ⟨a8, _ | ⟨a9,
    _ | ⟨a10, _ | ⟨a11, _ | ⟨a12, _ | ⟨a13, _ | ⟨a14, _ | ⟨a15, _ | ⟨a16, _ | ⟨a17, _ | ⟨a18, rest⟩⟩⟩⟩⟩⟩⟩⟩⟩⟩⟩⟩⟩⟩⟩⟩⟩⟩)

/-- closes the cases whose length contradicts the hypotheses -/
macro "bad_length" : tactic => `(tactic|
  (exfalso; simp only [List.length_cons, List.length_nil] at *; omega))

/-- unfold code and specification on an explicit list, pass to Mathlib notation -/
macro "unfold_formulas" : tactic => `(tactic|
  (simp only [formula1_code, formula2_code, formula3_code, formula4_code, formula5_code, formula6_code,
     formula7_code, formula8_code, formula9_code, foldPairs, herzTail, Option.map_some,
     formula1_spec, formula1_rhs, formula2_spec, formula2_rhs, formula3_spec, formula3_rhs,
     formula4_spec, formula4_rhs, formula5_spec, formula6_spec, formula7_spec, formula8_spec,
     formula8_rhs, formula9_spec, formula9_rhs, coef, Model.Mat.sq, List.getD_cons_succ, List.getD_cons_zero,
     List.getD_nil, Nat.reduceSub, Nat.reduceMul, Nat.reduceAdd, npow_two, npow_four, npow_six]
   <;> num_real))

/-! ## dispersion formulas -/

/-- **formula 1 (Sellmeier)**: code = published formula for 1, 3, …, 17 coefficients -/
theorem formula1_code_eq_spec (c : List ℝ) (w : ℝ) (hodd : c.length % 2 = 1) (hlen : c.length ≤ 17) :
    formula1_code c w = some (formula1_spec (coef c) w) := by
  split_list c
  all_goals first
    | bad_length
    | (unfold_formulas <;> (refine congrArg some (congrArg Real.sqrt ?_); ring))

/-- the code raises exactly for an even number of coefficients (including none) -/
theorem formula1_raises {α : Type} [Num α] [NumPow α] (c : List α) (w : α) :
    formula1_code c w = none ↔ c.length % 2 = 0 := by
  cases c with
  | nil => simp [formula1_code]
  | cons c0 rest =>
    simp only [formula1_code, Option.map_eq_none_iff, foldPairs_eq_none_iff, List.length_cons]
    omega

/-- the specification solves the published equation `n² − 1 = C1 + Σ …` with `n ≥ 0` -/
theorem formula1_published (C : ℕ → ℝ) (l : ℝ) (h : 0 ≤ 1 + formula1_rhs C l) :
    (formula1_spec C l) ^ 2 - 1 = formula1_rhs C l ∧ 0 ≤ formula1_spec C l := by
  unfold formula1_spec
  num_real
  exact ⟨by rw [Real.sq_sqrt h]; ring, Real.sqrt_nonneg _⟩

/-- **formula 2 (Sellmeier-2)** -/
theorem formula2_code_eq_spec (c : List ℝ) (w : ℝ) (hodd : c.length % 2 = 1) (hlen : c.length ≤ 17) :
    formula2_code c w = some (formula2_spec (coef c) w) := by
  split_list c
  all_goals first
    | bad_length
    | (unfold_formulas <;> (refine congrArg some (congrArg Real.sqrt ?_); ring))

theorem formula2_raises {α : Type} [Num α] [NumPow α] (c : List α) (w : α) :
    formula2_code c w = none ↔ c.length % 2 = 0 := by
  cases c with
  | nil => simp [formula2_code]
  | cons c0 rest =>
    simp only [formula2_code, Option.map_eq_none_iff, foldPairs_eq_none_iff, List.length_cons]
    omega

theorem formula2_published (C : ℕ → ℝ) (l : ℝ) (h : 0 ≤ 1 + formula2_rhs C l) :
    (formula2_spec C l) ^ 2 - 1 = formula2_rhs C l ∧ 0 ≤ formula2_spec C l := by
  unfold formula2_spec
  num_real
  exact ⟨by rw [Real.sq_sqrt h]; ring, Real.sqrt_nonneg _⟩

/-- **formula 3 (Polynomial)**; `λ^C` is `Real.rpow` -/
theorem formula3_code_eq_spec (c : List ℝ) (w : ℝ) (hodd : c.length % 2 = 1) (hlen : c.length ≤ 17) :
    formula3_code c w = some (formula3_spec (coef c) w) := by
  split_list c
  all_goals first
    | bad_length
    | (unfold_formulas <;> (refine congrArg some (congrArg Real.sqrt ?_); ring))

theorem formula3_raises {α : Type} [Num α] [NumPow α] (c : List α) (w : α) :
    formula3_code c w = none ↔ c.length % 2 = 0 := by
  cases c with
  | nil => simp [formula3_code]
  | cons c0 rest =>
    simp only [formula3_code, Option.map_eq_none_iff, foldPairs_eq_none_iff, List.length_cons]
    omega

theorem formula3_published (C : ℕ → ℝ) (l : ℝ) (h : 0 ≤ formula3_rhs C l) :
    (formula3_spec C l) ^ 2 = formula3_rhs C l ∧ 0 ≤ formula3_spec C l := by
  unfold formula3_spec
  num_real
  exact ⟨Real.sq_sqrt h, Real.sqrt_nonneg _⟩

/-- **formula 4 (RefractiveIndex.INFO)**: 9, 11, …, 17 coefficients -/
theorem formula4_code_eq_spec (c : List ℝ) (w : ℝ) (hodd : c.length % 2 = 1) (h9 : 9 ≤ c.length)
    (hlen : c.length ≤ 17) : formula4_code c w = some (formula4_spec (coef c) w) := by
  split_list c
  all_goals first
    | bad_length
    | (unfold_formulas <;> (refine congrArg some (congrArg Real.sqrt ?_); ring))

/-- the code raises for fewer than 9 coefficients and for an even number -/
theorem formula4_raises {α : Type} [Num α] [NumPow α] (c : List α) (w : α) :
    formula4_code c w = none ↔ c.length < 9 ∨ c.length % 2 = 0 := by
  rcases c with _ | ⟨a1, _ | ⟨a2, _ | ⟨a3, _ | ⟨a4, _ | ⟨a5, _ | ⟨a6, _ | ⟨a7, _ | ⟨a8, _ | ⟨a9, rest⟩⟩⟩⟩⟩⟩⟩⟩⟩
  all_goals first
    | (simp only [formula4_code, Option.map_eq_none_iff, foldPairs_eq_none_iff, List.length_cons]; omega)
    | simp [formula4_code]

theorem formula4_published (C : ℕ → ℝ) (l : ℝ) (h : 0 ≤ formula4_rhs C l) :
    (formula4_spec C l) ^ 2 = formula4_rhs C l ∧ 0 ≤ formula4_spec C l := by
  unfold formula4_spec
  num_real
  exact ⟨Real.sq_sqrt h, Real.sqrt_nonneg _⟩

/-- **formula 5 (Cauchy)**: 1, 3, …, 11 coefficients -/
theorem formula5_code_eq_spec (c : List ℝ) (w : ℝ) (hodd : c.length % 2 = 1) (hlen : c.length ≤ 11) :
    formula5_code c w = some (formula5_spec (coef c) w) := by
  split_list c
  all_goals first
    | bad_length
    | (unfold_formulas <;> (refine congrArg some ?_; ring))

theorem formula5_raises {α : Type} [Num α] [NumPow α] (c : List α) (w : α) :
    formula5_code c w = none ↔ c.length % 2 = 0 := by
  cases c with
  | nil => simp [formula5_code]
  | cons c0 rest =>
    simp only [formula5_code, foldPairs_eq_none_iff, List.length_cons]
    omega

/-- **formula 6 (Gases)** for a positive wavelength (`w ** -2 = 1/w²`): 1, 3, …, 11 coefficients -/
theorem formula6_code_eq_spec (c : List ℝ) (w : ℝ) (hw : 0 < w) (hodd : c.length % 2 = 1)
    (hlen : c.length ≤ 11) : formula6_code c w = some (formula6_spec (coef c) w) := by
  split_list c
  all_goals first
    | bad_length
    | (simp only [formula6_code, foldPairs, rpow_neg_two w hw] <;> unfold_formulas <;>
        (refine congrArg some ?_; ring))

theorem formula6_raises {α : Type} [Num α] [NumPow α] (c : List α) (w : α) :
    formula6_code c w = none ↔ c.length % 2 = 0 := by
  cases c with
  | nil => simp [formula6_code]
  | cons c0 rest =>
    simp only [formula6_code, foldPairs_eq_none_iff, List.length_cons]
    omega

/-- **formula 7 (Herzberger)**: 3 … 6 coefficients; the constant is 0.028 -/
theorem formula7_code_eq_spec (c : List ℝ) (w : ℝ) (h3 : 3 ≤ c.length) (hlen : c.length ≤ 6) :
    formula7_code c w = some (formula7_spec (coef c) w) := by
  split_list c
  all_goals first
    | bad_length
    | (unfold_formulas <;> (refine congrArg some ?_; ring))

theorem formula7_raises {α : Type} [Num α] [NumPow α] (c : List α) (w : α) :
    formula7_code c w = none ↔ c.length < 3 := by
  rcases c with _ | ⟨a1, _ | ⟨a2, _ | ⟨a3, rest⟩⟩⟩ <;> simp [formula7_code]

/-- the specification written with the decimal constant of the document -/
theorem formula7_published (C : ℕ → ℝ) (l : ℝ) :
    formula7_spec C l = C 1 + C 2 / (l ^ 2 - 0.028) + C 3 * (1 / (l ^ 2 - 0.028)) ^ 2
      + C 4 * l ^ 2 + C 5 * l ^ 4 + C 6 * l ^ 6 := by
  simp only [formula7_spec, Model.Mat.sq, npow_four, npow_six]
  num_real
  have e : ((28 : ℕ) : ℝ) / ((1000 : ℕ) : ℝ) = 0.028 := by norm_num
  rw [e]
  ring

/-- **formula 8 (Retro)**: exactly 4 coefficients -/
theorem formula8_code_eq_spec (c : List ℝ) (w : ℝ) (hlen : c.length = 4) :
    formula8_code c w = some (formula8_spec (coef c) w) := by
  split_list c
  all_goals first
    | bad_length
    | (unfold_formulas <;> (refine congrArg some (congrArg Real.sqrt ?_); ring))

theorem formula8_raises {α : Type} [Num α] [NumPow α] (c : List α) (w : α) :
    formula8_code c w = none ↔ c.length ≠ 4 := by
  rcases c with _ | ⟨a1, _ | ⟨a2, _ | ⟨a3, _ | ⟨a4, _ | ⟨a5, rest⟩⟩⟩⟩⟩ <;> simp [formula8_code]

/-- the specification solves `(n² − 1)/(n² + 2) = C1 + C2 λ²/(λ² − C3) + C4 λ²` -/
theorem formula8_published (C : ℕ → ℝ) (l : ℝ) (hb : formula8_rhs C l ≠ 1)
    (h : 0 ≤ (1 + 2 * formula8_rhs C l) / (1 - formula8_rhs C l)) :
    ((formula8_spec C l) ^ 2 - 1) / ((formula8_spec C l) ^ 2 + 2) = formula8_rhs C l
      ∧ 0 ≤ formula8_spec C l := by
  unfold formula8_spec
  num_real
  refine ⟨?_, Real.sqrt_nonneg _⟩
  rw [Real.sq_sqrt h]
  have h1 : 1 - formula8_rhs C l ≠ 0 := fun h0 => hb (by linarith)
  field_simp
  ring

/-- **formula 9 (Exotic)**: exactly 6 coefficients -/
theorem formula9_code_eq_spec (c : List ℝ) (w : ℝ) (hlen : c.length = 6) :
    formula9_code c w = some (formula9_spec (coef c) w) := by
  split_list c
  all_goals first
    | bad_length
    | (unfold_formulas <;> (refine congrArg some (congrArg Real.sqrt ?_); ring))

theorem formula9_raises {α : Type} [Num α] [NumPow α] (c : List α) (w : α) :
    formula9_code c w = none ↔ c.length ≠ 6 := by
  rcases c with _ | ⟨a1, _ | ⟨a2, _ | ⟨a3, _ | ⟨a4, _ | ⟨a5, _ | ⟨a6, _ | ⟨a7, rest⟩⟩⟩⟩⟩⟩⟩ <;>
    simp [formula9_code]

theorem formula9_published (C : ℕ → ℝ) (l : ℝ) (h : 0 ≤ formula9_rhs C l) :
    (formula9_spec C l) ^ 2 = formula9_rhs C l ∧ 0 ≤ formula9_spec C l := by
  unfold formula9_spec
  num_real
  exact ⟨Real.sq_sqrt h, Real.sqrt_nonneg _⟩

/-- the hypotheses are satisfiable: N-BK7-like Sellmeier-2 coefficients at 0.55 µm -/
example : ([0, 1.03961212, 0.00600069867, 0.231792344, 0.0200179144, 1.01046945, 103.560653] :
    List ℝ).length % 2 = 1 ∧ (7 : ℕ) ≤ 17 := ⟨rfl, by decide⟩

/-- the coefficient counts for which formula `k` of the document is defined (and the code does not raise) -/
def ValidLen (k n : Nat) : Prop :=
  match k with
  | 1 | 2 | 3 => n % 2 = 1 ∧ n ≤ 17
  | 4 => n % 2 = 1 ∧ 9 ≤ n ∧ n ≤ 17
  | 5 | 6 => n % 2 = 1 ∧ n ≤ 11
  | 7 => 3 ≤ n ∧ n ≤ 6
  | 8 => n = 4
  | 9 => n = 6
  | _ => False

/-- **the dispatcher the driver runs** (`MaterialFile.n`: `formula_map[type]`): for each of the nine type
strings and every coefficient list of a length the document provides for, `formula_code k` returns the
value of `formula_spec k` (positive wavelength needed for formula 6 only) -/
theorem formula_code_eq_spec (k : Nat) (c : List ℝ) (w : ℝ) (hw : k = 6 → 0 < w)
    (h : ValidLen k c.length) : formula_code k c w = some (formula_spec k c w) := by
  match k, h with
  | 1, h => exact formula1_code_eq_spec c w h.1 h.2
  | 2, h => exact formula2_code_eq_spec c w h.1 h.2
  | 3, h => exact formula3_code_eq_spec c w h.1 h.2
  | 4, h => exact formula4_code_eq_spec c w h.1 h.2.1 h.2.2
  | 5, h => exact formula5_code_eq_spec c w h.1 h.2
  | 6, h => exact formula6_code_eq_spec c w (hw rfl) h.1 h.2
  | 7, h => exact formula7_code_eq_spec c w h.1 h.2
  | 8, h => exact formula8_code_eq_spec c w h
  | 9, h => exact formula9_code_eq_spec c w h

/-- a type string `formula k` with `k` outside 1…9 has no entry in `formula_map` -/
theorem formula_code_unknown (k : Nat) (c : List ℝ) (w : ℝ) (h : k = 0 ∨ 10 ≤ k) :
    formula_code k c w = none := by
  match k, h with
  | 0, _ => rfl
  | k + 10, _ => rfl

/-- non-vacuity: Sellmeier-2 with seven coefficients (N-BK7-like) is a valid instance of the dispatcher theorem -/
example (w : ℝ) : formula_code 2 [0, 1.03961212, 0.00600069867, 0.231792344, 0.0200179144, 1.01046945,
    103.560653] w = some (formula_spec 2 [0, 1.03961212, 0.00600069867, 0.231792344, 0.0200179144,
    1.01046945, 103.560653] w) :=
  formula_code_eq_spec 2 _ w (fun h => absurd h (by decide)) ⟨rfl, by decide⟩

/-! ## tabulated data: `np.interp` -/

/-- `np.interp` raises only for an empty table -/
theorem interp_raises (x : ℝ) (l : List (ℝ × ℝ)) : interp x l = none ↔ l = [] := by
  cases l <;> simp [interp]

/-- left of (or at) the first knot: the first table value -/
theorem interp_clamps_left (x : ℝ) (p : ℝ × ℝ) (rest : List (ℝ × ℝ)) (hinc : Incr (p :: rest))
    (hx : x ≤ p.1) : interp x (p :: rest) = some p.2 := by
  rw [interp_unfold]
  by_cases h : x < p.1
  · rw [if_pos h]
  · rw [if_neg h]
    have : x = p.1 := le_antisymm hx (not_lt.mp h)
    rw [this, interpFrom_at_knot p rest hinc]

/-- right of (or at) the last knot: the last table value -/
theorem interp_clamps_right (x : ℝ) (pre : List (ℝ × ℝ)) (last : ℝ × ℝ) (hinc : Incr (pre ++ [last]))
    (hx : last.1 ≤ x) : interp x (pre ++ [last]) = some last.2 := by
  cases pre with
  | nil =>
    simp only [List.nil_append]
    rw [interp_unfold, if_neg (not_lt.mpr hx)]
    rfl
  | cons p0 pre =>
    simp only [List.cons_append] at hinc ⊢
    have hpl : p0.1 < last.1 := (List.pairwise_cons.mp hinc).1 last (by simp)
    rw [interp_unfold, if_neg (by linarith), interpFrom_right x last pre p0 hinc hx]

/-- between two consecutive knots the result is the straight line through them -/
theorem interp_linear_between (x : ℝ) (pre post : List (ℝ × ℝ)) (p q : ℝ × ℝ)
    (hinc : Incr (pre ++ p :: q :: post)) (hpx : p.1 ≤ x) (hxq : x ≤ q.1) :
    interp x (pre ++ p :: q :: post) = some (p.2 + (x - p.1) * (q.2 - p.2) / (q.1 - p.1)) := by
  cases pre with
  | nil =>
    simp only [List.nil_append] at hinc ⊢
    rw [interp_unfold, if_neg (not_lt.mpr hpx)]
    have hpq : p.1 < q.1 := (List.pairwise_cons.mp hinc).1 q (by simp)
    have hne : q.1 - p.1 ≠ 0 := by linarith
    rw [interpFrom_unfold]
    by_cases hq : q.1 ≤ x
    · have hx : x = q.1 := le_antisymm hxq hq
      rw [if_pos hq, hx, interpFrom_at_knot q post (List.pairwise_cons.mp hinc).2]
      congr 1
      field_simp
      ring
    · rw [if_neg hq]
      by_cases hp : p.1 ≤ x ∧ x ≤ p.1
      · rw [if_pos hp]
        have hx : x = p.1 := le_antisymm hp.2 hp.1
        rw [hx]
        simp
      · rw [if_neg hp]
        congr 1
        field_simp
        ring
  | cons p0 pre =>
    simp only [List.cons_append] at hinc ⊢
    have hp0 : p0.1 < p.1 := (List.pairwise_cons.mp hinc).1 p (by simp)
    rw [interp_unfold, if_neg (by linarith), interpFrom_between x p q post pre p0 hinc hpx hxq]
    rfl

/-- at a knot the tabulated value is returned -/
theorem interp_knots (l : List (ℝ × ℝ)) (p : ℝ × ℝ) (hinc : Incr l) (hp : p ∈ l) :
    interp p.1 l = some p.2 := by
  obtain ⟨pre, post, rfl⟩ := List.append_of_mem hp
  cases post with
  | nil => exact interp_clamps_right p.1 pre p hinc (le_refl _)
  | cons q post =>
    have hpq : p.1 ≤ q.1 := by
      have := (List.pairwise_append.mp hinc).2.1
      exact ((List.pairwise_cons.mp this).1 q (by simp)).le
    rw [interp_linear_between p.1 pre post p q hinc (le_refl _) hpq]
    simp

/-- the interpolated value never leaves the hull of the table values -/
theorem interp_in_hull (x lo hi v : ℝ) (l : List (ℝ × ℝ)) (hinc : Incr l) (hw : Within lo hi l)
    (hv : interp x l = some v) : lo ≤ v ∧ v ≤ hi := by
  cases l with
  | nil => simp [interp] at hv
  | cons p rest =>
    rw [interp_unfold] at hv
    simp only [Option.some.injEq] at hv
    subst hv
    by_cases h : x < p.1
    · rw [if_pos h]; exact hw p (by simp)
    · rw [if_neg h]; exact interpFrom_in_hull x lo hi rest p hinc hw (not_lt.mp h)

/-- non-vacuity: a three-knot table -/
example : Incr [((1 : ℝ), (2 : ℝ)), (2, 5), (4, 3)] := by
  simp only [Incr, List.pairwise_cons, List.mem_cons, List.not_mem_nil, or_false, forall_eq_or_imp,
    forall_eq, List.Pairwise.nil, and_true, IsEmpty.forall_iff, implies_true]
  norm_num

/-- a point between the first knot and some later knot lies between two consecutive knots -/
theorem exists_bracket (x : ℝ) : ∀ (rest : List (ℝ × ℝ)) (a : ℝ × ℝ), a.1 ≤ x → (∃ z ∈ rest, x ≤ z.1) →
    ∃ pre p q post, a :: rest = pre ++ p :: q :: post ∧ p.1 ≤ x ∧ x ≤ q.1
  | [], a, _, ⟨z, hz, _⟩ => by simp at hz
  | b :: rest, a, ha, ⟨z, hz, hxz⟩ => by
    by_cases hb : x ≤ b.1
    · exact ⟨[], a, b, rest, rfl, ha, hb⟩
    · have hz' : z ∈ rest := by
        rcases List.mem_cons.mp hz with rfl | h
        · exact absurd hxz hb
        · exact h
      obtain ⟨pre, p, q, post, e, h1, h2⟩ := exists_bracket x rest b (not_le.mp hb).le ⟨z, hz', hxz⟩
      exact ⟨a :: pre, p, q, post, by rw [e]; rfl, h1, h2⟩

/-- **every abscissa inside the table's range** (the quantifier of the property: "any wavelength inside
the entry's stated range"): on strictly increasing knots, for `x` between the abscissae of two knots
`lo`, `hi` of the table (`lo.1 < hi.1`), `np.interp` returns the value at `x` of the straight line through
two *consecutive* knots that bracket `x` -/
theorem interp_piecewise_linear (l : List (ℝ × ℝ)) (x : ℝ) (hinc : Incr l) (lo hi : ℝ × ℝ) (hlo : lo ∈ l)
    (hhi : hi ∈ l) (hlt : lo.1 < hi.1) (h1 : lo.1 ≤ x) (h2 : x ≤ hi.1) :
    ∃ pre p q post, l = pre ++ p :: q :: post ∧ p.1 ≤ x ∧ x ≤ q.1 ∧
      interp x l = some (p.2 + (x - p.1) * (q.2 - p.2) / (q.1 - p.1)) := by
  cases l with
  | nil => simp at hlo
  | cons a rest =>
    have hmin : ∀ z ∈ a :: rest, a.1 ≤ z.1 := by
      intro z hz
      rcases List.mem_cons.mp hz with rfl | h
      · exact le_refl _
      · exact ((List.pairwise_cons.mp hinc).1 z h).le
    have hhi' : hi ∈ rest := by
      rcases List.mem_cons.mp hhi with rfl | h
      · exact absurd (hmin lo hlo) (not_le.mpr hlt)
      · exact h
    obtain ⟨pre, p, q, post, e, hp, hq⟩ :=
      exists_bracket x rest a (le_trans (hmin lo hlo) h1) ⟨hi, hhi', h2⟩
    refine ⟨pre, p, q, post, e, hp, hq, ?_⟩
    rw [e] at hinc ⊢
    exact interp_linear_between x pre post p q hinc hp hq

/-- non-vacuity: the three-knot table at `x = 3` -/
example : interp (3 : ℝ) [((1 : ℝ), (2 : ℝ)), (2, 5), (4, 3)] = some (5 + (3 - 2) * (3 - 5) / (4 - 2)) := by
  have hinc : Incr [((1 : ℝ), (2 : ℝ)), (2, 5), (4, 3)] := by
    simp only [Incr, List.pairwise_cons, List.mem_cons, List.not_mem_nil, or_false, forall_eq_or_imp,
      forall_eq, List.Pairwise.nil, and_true, IsEmpty.forall_iff, implies_true]
    norm_num
  exact interp_linear_between 3 [((1 : ℝ), (2 : ℝ))] [] (2, 5) (4, 3) hinc (by norm_num) (by norm_num)

/-! ## Abbe number, model glass -/

/-- `BaseMaterial.abbe` is `(n_d − 1)/(n_F − n_C)` at 587.5618, 486.1327 and 656.2725 nm.
(This only unfolds the model's definition and checks the three decimal constants; that the Python method
computes the same is the harness's comparison, not a theorem.) -/
theorem abbe_def (n : ℝ → ℝ) :
    abbe n = (n 0.5875618 - 1) / (n 0.4861327 - n 0.6562725) := by
  simp only [abbe, lamD, lamF, lamC]
  num_real
  have eD : ((5875618 : ℕ) : ℝ) / ((10000000 : ℕ) : ℝ) = 0.5875618 := by norm_num
  have eF : ((4861327 : ℕ) : ℝ) / ((10000000 : ℕ) : ℝ) = 0.4861327 := by norm_num
  have eC : ((6562725 : ℕ) : ℝ) / ((10000000 : ℕ) : ℝ) = 0.6562725 := by norm_num
  rw [eD, eF, eC]

/-- `np.polyval` (Horner) evaluates the polynomial with the given coefficients, highest power first -/
theorem polyval_horner (p : List ℝ) (x : ℝ) : polyval p x = polyEval x p := by
  unfold polyval
  num_real
  rw [foldl_horner]
  simp

/-! ## Levenshtein distance -/

/-- the matrix DP of `Material._levenshtein_distance` computes the Wagner–Fischer recurrence -/
theorem levenshtein_dp_eq_spec (s t : Str) : levDP s t = levSpec s t := levDP_eq_levSpec s t

/-- score 0 means equality -/
theorem levenshtein_zero_iff_eq (s t : Str) : levDP s t = 0 ↔ s = t := levDP_eq_zero_iff s t

/-! ## catalogue lookup over the regenerated table -/
open Gen.Catalog

theorem rows_pass : ∀ r ∈ rows, rowCheck tree ambiguous r = true := by
  intro r hr
  obtain ⟨c, hc, hrc⟩ := List.mem_flatten.mp hr
  exact List.all_eq_true.mp (chunks_ok c hc) r hrc

/-- **finite-table fact** (certificate checked by the kernel, `Gen/CatalogCert.lean`): outside the
exception list, a row shares its lower-cased name (as `name` or as `category_name` of another row)
only with rows of exactly the same name -/
theorem catalog_unambiguous : ∀ r ∈ rows, ∀ x ∈ rows, r.name ∉ ambiguous →
    (lowerL x.cat.str = lowerL r.name.str ∨ lowerL x.name.str = lowerL r.name.str) →
    x.name = r.name :=
  unambiguous_of_rowCheck tree ambiguous rows rows_pass

/-- **lookup_exact_name**: for every catalogue row `r` whose name is not on the exception list, looking
up `r.name` (literal-substring semantics, any tie order of the sort) finds something, and every row
that may be returned has exactly that name -/
theorem lookup_exact_name : ∀ r ∈ rows, r.name ∉ ambiguous →
    lookup_spec (lrows rows) r.name.str none ≠ [] ∧
    ∀ x ∈ lookup_spec (lrows rows) r.name.str none, x.row.name = r.name := by
  intro r hr hamb
  obtain ⟨hne, hall⟩ := lookup_spec_sound rows r hr none trivial
  refine ⟨hne, fun x hx => ?_⟩
  obtain ⟨hxrow, hkey⟩ := hall x hx
  exact catalog_unambiguous r hr x.row hxrow hamb hkey

/-- the same with any reference string that matches the row (literally, in one of the five columns the
filter reads) -/
theorem lookup_exact_name_ref : ∀ r ∈ rows, r.name ∉ ambiguous → ∀ ref : Str,
    refMatch (isInfix (lowerL ref)) (LRow.of 0 r) = true →
    lookup_spec (lrows rows) r.name.str (some ref) ≠ [] ∧
    ∀ x ∈ lookup_spec (lrows rows) r.name.str (some ref), x.row.name = r.name := by
  intro r hr hamb ref href
  obtain ⟨hne, hall⟩ := lookup_spec_sound rows r hr (some ref) href
  refine ⟨hne, fun x hx => ?_⟩
  obtain ⟨hxrow, hkey⟩ := hall x hx
  exact catalog_unambiguous r hr x.row hxrow hamb hkey

/-- in particular with the row's own vendor reference -/
theorem lookup_exact_name_own_ref : ∀ r ∈ rows, r.name ∉ ambiguous →
    lookup_spec (lrows rows) r.name.str (some r.ref.str) ≠ [] ∧
    ∀ x ∈ lookup_spec (lrows rows) r.name.str (some r.ref.str), x.row.name = r.name := by
  intro r hr hamb
  apply lookup_exact_name_ref r hr hamb
  simp [refMatch, LRow.of, isInfix_refl]

/-- the exception list is tight: each listed name belongs to a catalogue row, and a lookup of it may
return a row with another name (a `category_name` or `name` equal to it up to case) -/
theorem ambiguous_genuine : ∀ a ∈ ambiguous,
    (∃ r ∈ rows, r.name = a) ∧
    ∃ x ∈ lookup_spec (lrows rows) a.str none, x.row.name ≠ a := by
  have h := ambiguous_ok
  unfold ambCheck at h
  simp only [Bool.and_eq_true, beq_iff_eq, List.all_eq_true] at h
  obtain ⟨hlen, hall⟩ := h
  intro a ha
  obtain ⟨i, hi, rfl⟩ := List.getElem_of_mem ha
  have hi' : i < witness.length := hlen ▸ hi
  have hiz : i < (ambiguous.zip witness).length := by simp [List.length_zip, hi, hi']
  have hz : (ambiguous[i], witness[i]) ∈ ambiguous.zip witness := by
    have := List.getElem_mem hiz
    rwa [List.getElem_zip] at this
  have hw := hall _ hz
  simp only at hw
  split at hw
  · rename_i r x hr hx
    simp only [Bool.and_eq_true, Bool.not_eq_true', Bool.or_eq_true, beq_iff_eq] at hw
    obtain ⟨⟨⟨⟨hrn, hxn⟩, _⟩, _⟩, hkey⟩ := hw
    have hrmem : r ∈ rows := List.mem_of_getElem? hr
    have hxmem : x ∈ rows := List.mem_of_getElem? hx
    refine ⟨⟨r, hrmem, PStr.eq_of_beq hrn⟩, ?_⟩
    obtain ⟨lx, hlx, hrow⟩ := mem_lookup_spec_of_key_eq rows x hxmem ambiguous[i].str hkey
    refine ⟨lx, hlx, ?_⟩
    rw [hrow]
    intro heq
    rw [heq] at hxn
    simp [PStr.beq] at hxn
    exact hxn rfl rfl
  · simp at hw

theorem rows_length : rows.length = nrows := by decide +kernel

/-- non-vacuity of `lookup_exact_name`: the first row of the catalogue is a row whose name is not on the
exception list -/
theorem lookup_exact_name_nonvacuous : ∃ r ∈ rows, r.name ∉ ambiguous := by
  refine ⟨chunk0.head!, ?_, ?_⟩
  · apply List.mem_flatten.mpr
    exact ⟨chunk0, by simp [chunks], by unfold chunk0; simp⟩
  · unfold chunk0; decide +kernel

/-! ## the lookup of the tree (`lookup_code`, regular-expression semantics) on metacharacter-free names -/

/-- no regular-expression metacharacter (`\ ^ $ * + ? { } [ ] | ( ) .`) occurs in the string -/
def noMeta (s : Str) : Bool := s.all fun c => !(otherMeta c) && c != 40 && c != 41 && c != 46

theorem regexSimple_noMeta : ∀ (s : Str), noMeta s = true → regexSimple s 0 = .ok (s.map Tok.lit)
  | [], _ => rfl
  | c :: cs, h => by
    simp only [noMeta, List.all_cons, Bool.and_eq_true, Bool.not_eq_true', bne_iff_ne, ne_eq] at h
    obtain ⟨⟨⟨⟨h1, h2⟩, h3⟩, h4⟩, h5⟩ := h
    have ih := regexSimple_noMeta cs (by simpa [noMeta] using h5)
    simp only [regexSimple, h1, h2, h3, h4, Bool.false_eq_true, if_false, ih, List.map_cons]
    rfl

theorem matchPrefix_lit : ∀ (s t : Str), matchPrefix (s.map Tok.lit) t = isPrefix s t
  | [], _ => by simp [matchPrefix, isPrefix]
  | _ :: _, [] => by simp [matchPrefix, isPrefix]
  | a :: as, b :: bs => by simp [matchPrefix, isPrefix, matchPrefix_lit as bs]

theorem searchRe_lit (s : Str) : ∀ t : Str, searchRe (s.map Tok.lit) t = isInfix s t
  | [] => by simp [searchRe, isInfix, matchPrefix_lit]
  | b :: bs => by simp [searchRe, isInfix, matchPrefix_lit, searchRe_lit s bs]

/-- **the tree's lookup agrees with the literal-substring specification** whenever the (lower-cased)
name, and the reference if one is given, contain no regular-expression metacharacter -/
theorem lookup_code_eq_spec (rs : List LRow) (name : Str) (hn : noMeta (lowerL name) = true) :
    lookup_code rs name none = .rows (lookup_spec rs name none) ∧
    ∀ ref : Str, ref ≠ [] → noMeta (lowerL ref) = true →
      lookup_code rs name (some ref) = .rows (lookup_spec rs name (some ref)) := by
  have e1 : searchRe ((lowerL name).map Tok.lit) = isInfix (lowerL name) := funext (searchRe_lit _)
  refine ⟨?_, fun ref hne hr => ?_⟩
  · simp only [lookup_code, regexSimple_noMeta _ hn, lookup_spec, Option.map_none, e1]
  · have e2 : searchRe ((lowerL ref).map Tok.lit) = isInfix (lowerL ref) := funext (searchRe_lit _)
    have he : ref.isEmpty = false := by cases ref <;> simp_all
    simp only [lookup_code, regexSimple_noMeta _ hn, regexSimple_noMeta _ hr, lookup_spec, Option.map_some,
      e1, e2, he, Bool.false_eq_true, if_false]

/-- **lookup_exact_name for the code as it stands**: for every catalogue row whose name is not on the
exception list and contains no regular-expression metacharacter (1700 of the 2593 rows; the others are
the subject of finding F10), `Material(name)` as the tree computes it finds something and can only
return rows with exactly that name -/
theorem lookup_exact_name_code : ∀ r ∈ rows, r.name ∉ ambiguous → noMeta (lowerL r.name.str) = true →
    ∃ l, lookup_code (lrows rows) r.name.str none = .rows l ∧ l ≠ [] ∧ ∀ x ∈ l, x.row.name = r.name := by
  intro r hr hamb hm
  obtain ⟨h1, h2⟩ := lookup_exact_name r hr hamb
  exact ⟨_, (lookup_code_eq_spec _ _ hm).1, h1, h2⟩

/-- non-vacuity: row 650 (`N-BK7HT`) satisfies the hypotheses of `lookup_exact_name_code` -/
theorem lookup_exact_name_code_nonvacuous :
    ∃ r ∈ rows, r.name ∉ ambiguous ∧ noMeta (lowerL r.name.str) = true := by
  have h : (rows[650]?).any (fun r => decide (r.name ∉ ambiguous) && noMeta (lowerL r.name.str)) = true := by
    decide +kernel
  cases hr : rows[650]? with
  | none => rw [hr] at h; simp at h
  | some r =>
    rw [hr] at h
    simp only [Option.any_some, Bool.and_eq_true, decide_eq_true_eq] at h
    exact ⟨r, List.mem_of_getElem? hr, h.1, h.2⟩

end C18
