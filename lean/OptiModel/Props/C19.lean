import OptiModel.Proofs.Serial
/-!
  C19  Saving and reloading a lens preserves its behaviour.

  Model: `OptiModel/Model/Serial.lean` (`toDict_code / fromDict_code`: the tree as it stands;
  `toDict_spec / fromDict_spec`: what the property requires).  Lemmas: `OptiModel/Proofs/Serial.lean`.
  Core Lean only: the statements are structural and hold over every numeric carrier `ν`.

  `Wf env p`: every component of the record is what its constructor makes it — polynomial /
  Chebyshev coefficient matrices are rectangular (`np.atleast_2d`), a catalogue `Material` carries the
  file its own lookup returned, no or exactly one primary wavelength, the system aperture passed the
  constructor's check.
-/
namespace C19
open Serial
set_option linter.unusedSectionVars false
variable {ν : Type} [Num ν]

/-- no `Plane` carries the attribute that `set_conic` leaves on it -/
def PlanesClean (p : LensRec ν) : Prop := ∀ s ∈ p.surfaces, s.reloaded = s

theorem reloadedSurfaces_clean (p : LensRec ν) (h : PlanesClean p) : reloadedSurfaces p = p.surfaces := by
  unfold reloadedSurfaces
  conv => rhs; rw [← List.map_id p.surfaces]
  exact List.map_congr_left (fun s hs => by simpa using h s hs)

/-! ## the round trip `from_dict ∘ to_dict` -/

/-- What `Optic.from_dict(lens.to_dict())` computes in the tree as it stands, for every well-formed lens
that has a system aperture and no `ImageSurface`: everything comes back, except that a `Plane` loses the
attribute left by `set_conic` and that every pickup is applied once more. -/
theorem fromDict_toDict_code_general (env : Env ν) (p : LensRec ν) (h : Wf env p) (a : SysAp ν)
    (hap : p.aperture = some a) (hi : ∀ s ∈ p.surfaces, s.isImage = false) :
    fromDict_code env (toDict_code p) =
      (applyPickups true (reloadedSurfaces p) p.pickups).map (fun ss => { p with surfaces := ss }) :=
  Serial.fromDict_toDict_code_general env p h a hap hi

/-- `fromDict (toDict p) = ok p` for the tree as it stands, on the class where it holds: the lens is a
fixed point of its own pickups. -/
theorem fromDict_toDict (env : Env ν) (p : LensRec ν) (h : Wf env p) (a : SysAp ν)
    (hap : p.aperture = some a) (hi : ∀ s ∈ p.surfaces, s.isImage = false) (hc : PlanesClean p)
    (hpk : applyPickups true p.surfaces p.pickups = .ok p.surfaces) :
    fromDict_code env (toDict_code p) = .ok p := by
  rw [fromDict_toDict_code_general env p h a hap hi, reloadedSurfaces_clean p hc, hpk]
  rfl

/-- … and only there: the round trip of the code succeeds with the same lens exactly when re-applying the
pickups changes nothing. -/
theorem fromDict_toDict_iff_pickups_fixed (env : Env ν) (p : LensRec ν) (h : Wf env p) (a : SysAp ν)
    (hap : p.aperture = some a) (hi : ∀ s ∈ p.surfaces, s.isImage = false) (hc : PlanesClean p) :
    fromDict_code env (toDict_code p) = .ok p ↔ applyPickups true p.surfaces p.pickups = .ok p.surfaces := by
  constructor
  · intro e
    rw [fromDict_toDict_code_general env p h a hap hi, reloadedSurfaces_clean p hc] at e
    cases hr : applyPickups true p.surfaces p.pickups with
    | error m => rw [hr] at e; simp at e
    | ok ss =>
      rw [hr] at e
      simp only [map_ok', Except.ok.injEq] at e
      have hss : ss = p.surfaces := congrArg LensRec.surfaces e
      rw [hss]
  · exact fromDict_toDict env p h a hap hi hc

/-- hypotheses of `fromDict_toDict` are satisfiable (a lens without pickups is trivially a fixed point);
a concrete lens *with* a pickup: `demo_round_trip` at the end of the file -/
theorem fromDict_toDict_no_pickups (env : Env ν) (p : LensRec ν) (h : Wf env p) (a : SysAp ν)
    (hap : p.aperture = some a) (hi : ∀ s ∈ p.surfaces, s.isImage = false) (hc : PlanesClean p)
    (hpk : p.pickups = []) : fromDict_code env (toDict_code p) = .ok p :=
  fromDict_toDict env p h a hap hi hc (by rw [hpk]; rfl)

/-- The specification (pickups not re-applied, `ImageSurface` rebuilt, aperture may be absent, Fresnel
materials and polarization state written as dictionaries) round-trips every well-formed lens. -/
theorem fromDict_toDict_spec (env : Env ν) (p : LensRec ν) (h : Wf env p) (hc : PlanesClean p) :
    fromDict_spec env (toDict_spec p) = .ok p := by
  rw [Serial.fromDict_toDict_spec_general env p h, reloadedSurfaces_clean p hc]

/-- `toDict ∘ fromDict` is the identity on the image of `toDict` (specification; no side condition on
`Plane` attributes: they are not part of the dictionary). -/
theorem toDict_fromDict_spec (env : Env ν) (p : LensRec ν) (h : Wf env p) (j : J ν) (hj : j = toDict_spec p) :
    (fromDict_spec env j).map toDict_spec = .ok j := by
  subst hj
  rw [Serial.fromDict_toDict_spec_general env p h]
  simp only [map_ok', toDict_spec, toDictWith_reloaded]

/-- the same for the code on its domain (the reloaded surfaces are a fixed point of the pickups) -/
theorem toDict_fromDict_code (env : Env ν) (p : LensRec ν) (h : Wf env p) (a : SysAp ν)
    (hap : p.aperture = some a) (hi : ∀ s ∈ p.surfaces, s.isImage = false)
    (hpk : applyPickups true (reloadedSurfaces p) p.pickups = .ok (reloadedSurfaces p))
    (j : J ν) (hj : j = toDict_code p) : (fromDict_code env j).map toDict_code = .ok j := by
  subst hj
  rw [fromDict_toDict_code_general env p h a hap hi, hpk]
  simp only [map_ok', toDict_code, toDictWith_reloaded]

/-- Corollary (`reload_traces_identically`): whatever is computed from the prescription — every ray record,
every paraxial quantity of the models of C02/C04 — is the same for the reloaded lens.
(Logically this is only congruence: `fromDict_toDict` gives `q = p`.  The content of the clause "traces
every ray identically" is that the record `LensRec` holds everything the tracer reads; that is the
harness's comparison of traced rays, not a theorem.  The JSON *file* layer — `json.dump`/`json.load` of
numbers, `Infinity`, int versus float — is modelled only by `jsonOk`.) -/
theorem reload_equal_prescription {β : Type} (observe : LensRec ν → β) (env : Env ν) (p q : LensRec ν)
    (h : Wf env p) (a : SysAp ν) (hap : p.aperture = some a) (hi : ∀ s ∈ p.surfaces, s.isImage = false)
    (hc : PlanesClean p) (hpk : applyPickups true p.surfaces p.pickups = .ok p.surfaces)
    (hq : fromDict_code env (toDict_code p) = .ok q) : observe q = observe p := by
  rw [fromDict_toDict env p h a hap hi hc hpk] at hq
  cases hq; rfl

/-- Later use of the reloaded lens: the same edit history (`set_radius`, `set_thickness`, pickups, solves,
`update()` ...) applied to the original and to the reloaded lens leaves the same lens record — in particular a
pickup or solve keeps addressing the surface it addressed before the round trip, which only shows at the next
`update()`.  (Congruence again; what it adds to `reload_equal_prescription` is that the quantifier over
observations includes every observation made *after* further edits.  The harness applies the same later edits
to the original and to every reloaded lens and compares their rays.) -/
theorem reload_equal_under_later_edits {β : Type} (observe : LensRec ν → β) (arrays : Bool) (es : List (Edit ν))
    (env : Env ν) (p q : LensRec ν)
    (h : Wf env p) (a : SysAp ν) (hap : p.aperture = some a) (hi : ∀ s ∈ p.surfaces, s.isImage = false)
    (hc : PlanesClean p) (hpk : applyPickups true p.surfaces p.pickups = .ok p.surfaces)
    (hq : fromDict_code env (toDict_code p) = .ok q) :
    observe (run arrays q es) = observe (run arrays p es) :=
  reload_equal_prescription (fun L => observe (run arrays L es)) env p q h a hap hi hc hpk hq

/-! ## where `from_dict` is *not* the inverse of `to_dict` in the tree as it stands -/

/-- a lens with an `ImageSurface` can be written but not rebuilt (`TypeError`) -/
theorem image_surface_not_reloadable (env : Env ν) (p : LensRec ν) (s : SurfRec ν) (hs : s ∈ p.surfaces)
    (hi : s.isImage = true) : ∀ q, fromDict_code env (toDict_code p) ≠ .ok q := by
  intro q e
  unfold fromDict_code toDict_code fromDictWith toDictWith at e
  simp only [asObj, req, J.lookup, asArr, bind_ok, String.reduceEq, ↓reduceIte] at e
  obtain ⟨_, _, e⟩ := bind_eq_ok e
  obtain ⟨ss, hm, e⟩ := bind_eq_ok e
  obtain ⟨b, hb⟩ := mapE_ok_mem _ _ _ hm _ (List.mem_map_of_mem hs)
  cases s with
  | image g pre ap => exact surfFrom_code_image env g pre ap b hb
  | object g post => simp [SurfRec.isImage] at hi
  | standard g pre post st ap c bs r => simp [SurfRec.isImage] at hi

/-- a lens on which `set_aperture` was never called can be written but not rebuilt (`TypeError`) -/
theorem no_aperture_not_reloadable (env : Env ν) (p : LensRec ν) (hap : p.aperture = none) :
    ∀ q, fromDict_code env (toDict_code p) ≠ .ok q := by
  intro q e
  unfold fromDict_code toDict_code fromDictWith toDictWith at e
  simp only [asObj, req, J.lookup, bind_ok, String.reduceEq, ↓reduceIte, hap, sysApFrom_none_code] at e
  simp at e

/-- the attribute `set_conic` leaves on a `Plane` is lost: witness lens (one object plane with `k = 0`) -/
theorem plane_conic_lost (env : Env ν) :
    ∃ p q : LensRec ν, Wf env p ∧ fromDict_code env (toDict_code p) = .ok q ∧ q ≠ p := by
  let fr : Frame ν := ⟨Num.zero, Num.zero, .scalar Num.zero, Num.zero, Num.zero, Num.zero⟩
  let s : SurfRec ν := .object (.plane (.root fr) (some Num.zero)) (.ideal Num.one Num.zero)
  let a : SysAp ν := ⟨.EPD, Num.one, false⟩
  let p : LensRec ν := ⟨some a, [s], [], false, none, false, [], .ignore, [], []⟩
  have hw : Wf env p := by
    refine ⟨?_, Or.inl rfl, ?_⟩
    · intro t ht
      simp only [p, List.mem_singleton] at ht
      subst ht
      simp [s, SurfRec.wf, GeomRec.wf, MatRec.wf]
    · intro b hb
      simp only [p, Option.some.injEq] at hb
      subst hb
      simp [a, SysAp.wf]
  have hi : ∀ t ∈ p.surfaces, t.isImage = false := by
    intro t ht
    simp only [p, List.mem_singleton] at ht
    subst ht; rfl
  refine ⟨p, { p with surfaces := reloadedSurfaces p }, hw, ?_, ?_⟩
  · rw [fromDict_toDict_code_general env p hw a rfl hi]
    rfl
  · intro e
    have := congrArg LensRec.surfaces e
    simp [p, s, reloadedSurfaces, SurfRec.reloaded, GeomRec.reloaded] at this

/-- a carrier for concrete witnesses -/
instance instNumInt : Num Int where
  add a b := a + b
  sub a b := a - b
  mul a b := a * b
  div a b := a / b
  neg a := -a
  zero := 0
  one := 1
  two := 2
  ofRat a b := (a : Int) / (b : Int)
  inf := 0
  sqrt := id
  abs x := x.natAbs
  lt a b := decide (a < b)
  le a b := decide (a ≤ b)
  sin := id
  cos := id
  tan := id
  asin := id
  acos := id
  exp := id
  atan2 a _ := a
  pi := 3

/-- `PickupManager.from_dict` re-applies the pickups: witness lens (a sphere of radius 1 whose radius picks up
twice its own radius — constructible by `pickups.add(1, 'radius', 1, scale=2)` followed by `set_radius(1, 1)`)
comes back with radius 2. -/
theorem pickups_reapplied_change_lens :
    ∃ (env : Env Int) (p q : LensRec Int), Wf env p ∧ PlanesClean p ∧
      fromDict_code env (toDict_code p) = .ok q ∧ q ≠ p := by
  let env : Env Int := ⟨fun _ _ _ _ _ => .error "no catalogue"⟩
  let fr : Frame Int := ⟨0, 0, .scalar 0, 0, 0, 0⟩
  let s0 : SurfRec Int := .object (.plane (.root fr) none) (.ideal 1 0)
  let s1 : SurfRec Int := .standard (.standard (.root fr) 1 0) (.ideal 1 0) (.ideal 1 0) true none none none false
  let a : SysAp Int := ⟨.EPD, 1, false⟩
  let p : LensRec Int := ⟨some a, [s0, s1], [], false, none, false, [], .ignore, [⟨1, .radius, 1, 2, 0⟩], []⟩
  have hw : Wf env p := by
    refine ⟨?_, Or.inl rfl, ?_⟩
    · intro t ht
      simp only [p, List.mem_cons, List.mem_nil_iff, or_false] at ht
      rcases ht with rfl | rfl <;> simp [s0, s1, SurfRec.wf, GeomRec.wf, MatRec.wf, optWf]
    · intro b hb
      simp only [p, Option.some.injEq] at hb
      subst hb
      simp [a, SysAp.wf]
  have hi : ∀ t ∈ p.surfaces, t.isImage = false := by
    intro t ht
    simp only [p, List.mem_cons, List.mem_nil_iff, or_false] at ht
    rcases ht with rfl | rfl <;> rfl
  have hc : PlanesClean p := by
    intro t ht
    simp only [p, List.mem_cons, List.mem_nil_iff, or_false] at ht
    rcases ht with rfl | rfl <;> rfl
  let s1' : SurfRec Int := .standard (.standard (.root fr) 2 0) (.ideal 1 0) (.ideal 1 0) true none none none false
  refine ⟨env, p, { p with surfaces := [s0, s1'] }, hw, hc, ?_, ?_⟩
  · rw [fromDict_toDict_code_general env p hw a rfl hi]
    rfl
  · intro e
    have := congrArg LensRec.surfaces e
    simp [p, s1, s1'] at this

/-! ## serialisability -/

/-- `json.dump(lens.to_dict())` succeeds exactly for the lenses in which every `cs.z` is a Python float, no
even-asphere coefficient list is an `ndarray`, no surface has a Fresnel coating and the polarization is
`'ignore'`. -/
theorem jsonOk_toDict_code (p : LensRec ν) : (toDict_code p).jsonOk = jsonable_code p := by
  unfold toDict_code jsonable_code
  rw [jsonOk_toDictWith coatToDict_code CoatRec.isSimple jsonOk_coat_code, jsonOk_pol_code]

/-- with `FresnelCoating.to_dict` and the polarization entry repaired only the representation of numbers is left -/
theorem jsonOk_toDict_spec (p : LensRec ν) : (toDict_spec p).jsonOk = jsonable_spec p := by
  unfold toDict_spec jsonable_spec
  rw [jsonOk_toDictWith coatToDict_spec (fun _ => true) jsonOk_coat_spec, jsonOk_pol_spec]
  simp

/-- `serialisable_after_edits`, specification: once `set_thickness` and the solves write floats back
(`arrays = false`), a lens that can be written stays writable under *every* edit history. -/
theorem serialisable_after_edits_spec (p : LensRec ν) (es : List (Edit ν)) (h : (toDict_spec p).jsonOk = true) :
    (toDict_spec (run false p es)).jsonOk = true := by
  rw [jsonOk_toDict_spec] at h ⊢
  unfold run
  induction es generalizing p with
  | nil => exact h
  | cons e es ih => exact ih (step false p e) (step_false_pres _ p e h)

/-- `serialisable_after_edits`, the tree as it stands — *partial*: histories made of `set_radius`, `set_conic`,
`set_index`, tilts, decentres, radius/conic pickups, `update`, `image_solve`, `add_wavelength`,
`set_polarization('ignore')` on a lens without solves and thickness pickups.  The full statement (all edits)
is false for the code: see the four witnesses below. -/
theorem serialisable_after_edits_partial (p : LensRec ν) (es : List (Edit ν)) (h : SafeInv p)
    (hes : ∀ e ∈ es, e.safe = true) : (toDict_code (run true p es)).jsonOk = true := by
  rw [jsonOk_toDict_code]
  suffices SafeInv (run true p es) from this.ok
  unfold run
  induction es generalizing p with
  | nil => exact h
  | cons e es ih =>
    exact ih (step true p e) (step_true_safe p e (hes e (by simp)) h) (fun e' he' => hes e' (by simp [he']))

/-- the hypotheses of the partial theorem are satisfiable: a lens without pickups and solves that can be written -/
theorem safeInv_of_fresh (p : LensRec ν) (h : (toDict_code p).jsonOk = true) (hp : p.pickups = [])
    (hs : p.solves = []) : SafeInv p :=
  ⟨by rw [← jsonOk_toDict_code]; exact h, by intro q hq; rw [hp] at hq; simp at hq, hs⟩

/-- witness 1 (F4): a successful `set_thickness` on the code leaves a lens that `json.dump` rejects -/
theorem set_thickness_breaks_json (p : LensRec ν) (v : ν) (k : Nat) (ss : List (SurfRec ν))
    (h : setThickness true p.surfaces v k = .ok ss) (hne : p.surfaces ≠ []) :
    (toDict_code (step true p (.setThickness v k))).jsonOk = false := by
  rw [jsonOk_toDict_code]
  simp only [step, h, orKeep, jsonable_code]
  unfold setThickness at h
  obtain ⟨pos, _, h⟩ := bind_eq_ok h
  split at h
  · cases h
    cases hp : p.surfaces with
    | nil => exact absurd hp hne
    | cons s rest =>
      simp [List.mapIdx_cons, jsonableWith_split, SurfRec.headScalar, setZ, mkZ, ZRep.isScalar]
  · cases h

/-- witness 2 (F4): a marginal-ray-height solve on surface `idx` of the code leaves a lens that `json.dump` rejects -/
theorem solve_breaks_json (p : LensRec ν) (s : SolveRec ν) (o : ν) (hidx : s.idx < p.surfaces.length) :
    (toDict_code (step true p (.solveAdd s o))).jsonOk = false := by
  rw [jsonOk_toDict_code]
  simp only [step, jsonable_code, Bool.and_eq_false_iff]
  left
  rw [List.all_eq_false]
  refine ⟨(applySolve true p.surfaces s.idx o)[s.idx]'(by simpa [applySolve] using hidx), List.getElem_mem _, ?_⟩
  simp [applySolve, jsonableWith_split, head_mapFrame, mkZ, ZRep.isScalar]

/-- witness 3 (F13): a Fresnel coating anywhere ⇒ `json.dump` rejects the dictionary -/
theorem fresnel_breaks_json (p : LensRec ν) (g : GeomRec ν) (pre post m1 m2 : MatRec ν) (st refl : Bool)
    (ap : Option (ApRec ν)) (b : Option (BsdfRec ν))
    (h : SurfRec.standard g pre post st ap (some (.fresnel m1 m2)) b refl ∈ p.surfaces) :
    (toDict_code p).jsonOk = false := by
  rw [jsonOk_toDict_code]
  simp only [jsonable_code, Bool.and_eq_false_iff]
  left
  rw [List.all_eq_false]
  exact ⟨_, h, by simp [SurfRec.jsonableWith, optAll, CoatRec.isSimple]⟩

/-- witness 4 (F13): a polarization state ⇒ `json.dump` rejects the dictionary -/
theorem polarization_breaks_json (p : LensRec ν) (pl : Bool) (ex ey px py : Option ν)
    (h : p.polarization = .state pl ex ey px py) : (toDict_code p).jsonOk = false := by
  rw [jsonOk_toDict_code]
  simp [jsonable_code, h, PolRec.isIgnore]

/-- witness 5: even-asphere coefficients handed over as an `ndarray` ⇒ `json.dump` rejects the dictionary -/
theorem asphere_ndarray_breaks_json (p : LensRec ν) (cs : CsRec ν) (r k t m : ν) (c : List ν) (post : MatRec ν)
    (h : SurfRec.object (.evenAsphere cs r k t m (.ndarray c)) post ∈ p.surfaces ∨
         ∃ pre st ap co b refl, SurfRec.standard (.evenAsphere cs r k t m (.ndarray c)) pre post st ap co b refl
           ∈ p.surfaces) : (toDict_code p).jsonOk = false := by
  rw [jsonOk_toDict_code]
  simp only [jsonable_code, Bool.and_eq_false_iff]
  left
  rw [List.all_eq_false]
  rcases h with h | ⟨pre, st, ap, co, b, refl, h⟩
  · exact ⟨_, h, by simp [SurfRec.jsonableWith, SurfRec.geom, GeomRec.jsonable, CoefRep.isList]⟩
  · exact ⟨_, h, by simp [SurfRec.jsonableWith, GeomRec.jsonable, CoefRep.isList]⟩

/-! ## non-vacuity: a realistic lens that satisfies every hypothesis of the positive theorems -/

/-- catalogue oracle that knows one glass -/
def demoEnv : Env Int :=
  ⟨fun name _ _ _ _ => if name = "N-BK7" then .ok "glass/schott/N-BK7.yml" else .error "no match"⟩

def demoGlass : MatRec Int := .material "glass/schott/N-BK7.yml" "N-BK7" none true none none

/-- a singlet: object plane, spherical front surface (stop, radial aperture, simple coating), even-asphere
back surface (Lambertian scatter) whose radius picks up −1 × the front radius, image plane; `EPD`
aperture, two field points, three wavelengths (second primary), one pickup, one solve -/
def demoLens : LensRec Int :=
  { aperture := some ⟨.EPD, 10, false⟩
    surfaces :=
      [.object (.plane (.root ⟨0, 0, .scalar (-100), 0, 0, 0⟩) none) (.ideal 1 0),
       .standard (.standard (.root ⟨0, 0, .scalar 0, 0, 0, 0⟩) 50 0) (.ideal 1 0) demoGlass true
         (some (.radial 10 0)) (some (.simple 1 0)) none false,
       .standard (.evenAsphere (.root ⟨0, 0, .scalar 5, 0, 0, 0⟩) (-50) 0 0 100 (.list [0, 1])) demoGlass
         (.ideal 1 0) false none none (some .lambertian) false,
       .standard (.plane (.root ⟨0, 0, .scalar 95, 0, 0, 0⟩) none) (.ideal 1 0) (.ideal 1 0) false none none
         none false]
    fields := [⟨some "angle", 0, 0, 0, 0⟩, ⟨some "angle", 0, 7, 0, 0⟩]
    fgTelecentric := false
    fieldType := some "angle"
    objTelecentric := false
    waves := [⟨486, false, .nm⟩, ⟨588, true, .nm⟩, ⟨656, false, .nm⟩]
    polarization := .ignore
    pickups := [⟨1, .radius, 2, -1, 0⟩]
    solves := [⟨3, 0⟩] }

theorem demo_wf : Wf demoEnv demoLens := by
  refine ⟨?_, Or.inr ⟨[⟨486, false, .nm⟩], ⟨588, true, .nm⟩, [⟨656, false, .nm⟩], rfl, ?_, rfl, ?_⟩, ?_⟩
  · intro t ht
    simp only [demoLens, List.mem_cons, List.mem_nil_iff, or_false] at ht
    rcases ht with rfl | rfl | rfl | rfl <;>
      simp [SurfRec.wf, GeomRec.wf, MatRec.wf, optWf, CoatRec.wf, demoGlass, demoEnv]
  · intro w hw; simp only [List.mem_singleton] at hw; subst hw; rfl
  · intro w hw; simp only [List.mem_singleton] at hw; subst hw; rfl
  · intro b hb
    simp only [demoLens, Option.some.injEq] at hb
    subst hb
    simp [SysAp.wf]

theorem demo_no_image : ∀ s ∈ demoLens.surfaces, s.isImage = false := by
  intro t ht
  simp only [demoLens, List.mem_cons, List.mem_nil_iff, or_false] at ht
  rcases ht with rfl | rfl | rfl | rfl <;> rfl

theorem demo_clean : PlanesClean demoLens := by
  intro t ht
  simp only [demoLens, List.mem_cons, List.mem_nil_iff, or_false] at ht
  rcases ht with rfl | rfl | rfl | rfl <;> rfl

theorem demo_pickups_fixed : applyPickups true demoLens.surfaces demoLens.pickups = .ok demoLens.surfaces := by
  rfl

/-- the round trip of the tree, the dictionary identity and serialisability, all instantiated -/
theorem demo_round_trip :
    fromDict_code demoEnv (toDict_code demoLens) = .ok demoLens ∧
    (fromDict_code demoEnv (toDict_code demoLens)).map toDict_code = .ok (toDict_code demoLens) ∧
    (toDict_code demoLens).jsonOk = true ∧ SafeInv { demoLens with pickups := [], solves := [] } := by
  have h1 := fromDict_toDict demoEnv demoLens demo_wf _ rfl demo_no_image demo_clean demo_pickups_fixed
  refine ⟨h1, ?_, ?_, ?_⟩
  · rw [h1]; rfl
  · rw [jsonOk_toDict_code]; rfl
  · exact safeInv_of_fresh _ (by rw [jsonOk_toDict_code]; rfl) rfl rfl

/-- non-vacuity of `serialisable_after_edits_partial`: a fresh lens and a history of three safe edits
(`set_radius`, a conic pickup, `update`) -/
example :
    (toDict_code (run true { demoLens with pickups := [], solves := [] }
      [.setRadius 40 1, .pickupAdd ⟨1, .conic, 2, 1, 0⟩, .update []])).jsonOk = true :=
  serialisable_after_edits_partial _ _ demo_round_trip.2.2.2 (by
    intro e he
    simp only [List.mem_cons, List.mem_nil_iff, or_false] at he
    rcases he with rfl | rfl | rfl <;> rfl)

end C19
