import OptiModel.Proofs.Serial
/-!
  C19  Saving and reloading a lens preserves its behaviour.

  Model: `OptiModel/Model/Serial.lean` (`toDict_code / fromDict_code`: the tree as it stands;
  `toDict_spec / fromDict_spec`: what the property requires).  Lemmas: `OptiModel/Proofs/Serial.lean`.
  Core Lean only: the statements are structural and hold over every numeric carrier `ν`.

  `Wf env p`: every component of the record is what its constructor makes it — polynomial /
  Chebyshev coefficient matrices are rectangular (`np.atleast_2d`), a catalogue `Material` carries the
  file its own lookup returned, no or exactly one primary wavelength, the system aperture passed the
  constructor's check.
-/
namespace C19
open Serial
set_option linter.unusedSectionVars false
variable {ν : Type} [Num ν]

/-- no `Plane` carries the attribute that `set_conic` leaves on it -/
def PlanesClean (p : LensRec ν) : Prop := ∀ s ∈ p.surfaces, s.reloaded = s

theorem reloadedSurfaces_clean (p : LensRec ν) (h : PlanesClean p) : reloadedSurfaces p = p.surfaces := by
  unfold reloadedSurfaces
  conv => rhs; rw [← List.map_id p.surfaces]
  exact List.map_congr_left (fun s hs => by simpa using h s hs)

/-! ## the round trip `from_dict ∘ to_dict` -/

/-- What `Optic.from_dict(lens.to_dict())` computes in the tree as it stands, for every well-formed lens
that has a system aperture and no `ImageSurface`: everything comes back, except that a `Plane` loses the
attribute left by `set_conic` and that every pickup is applied once more. -/
theorem fromDict_toDict_code_general (env : Env ν) (p : LensRec ν) (h : Wf env p) (a : SysAp ν)
    (hap : p.aperture = some a) (hi : ∀ s ∈ p.surfaces, s.isImage = false) :
    fromDict_code env (toDict_code p) =
      (applyPickups true (reloadedSurfaces p) p.pickups).map (fun ss => { p with surfaces := ss }) :=
  Serial.fromDict_toDict_code_general env p h a hap hi

/-- `fromDict (toDict p) = ok p` for the tree as it stands, on the class where it holds: the lens is a
fixed point of its own pickups. -/
theorem fromDict_toDict (env : Env ν) (p : LensRec ν) (h : Wf env p) (a : SysAp ν)
    (hap : p.aperture = some a) (hi : ∀ s ∈ p.surfaces, s.isImage = false) (hc : PlanesClean p)
    (hpk : applyPickups true p.surfaces p.pickups = .ok p.surfaces) :
    fromDict_code env (toDict_code p) = .ok p := by
  rw [fromDict_toDict_code_general env p h a hap hi, reloadedSurfaces_clean p hc, hpk]
  rfl

/-- … and only there: the round trip of the code succeeds with the same lens exactly when re-applying the
pickups changes nothing. -/
theorem fromDict_toDict_iff_pickups_fixed (env : Env ν) (p : LensRec ν) (h : Wf env p) (a : SysAp ν)
    (hap : p.aperture = some a) (hi : ∀ s ∈ p.surfaces, s.isImage = false) (hc : PlanesClean p) :
    fromDict_code env (toDict_code p) = .ok p ↔ applyPickups true p.surfaces p.pickups = .ok p.surfaces := by
  constructor
  · intro e
    rw [fromDict_toDict_code_general env p h a hap hi, reloadedSurfaces_clean p hc] at e
    cases hr : applyPickups true p.surfaces p.pickups with
    | error m => rw [hr] at e; simp at e
    | ok ss =>
      rw [hr] at e
      simp only [map_ok', Except.ok.injEq] at e
      have hss : ss = p.surfaces := congrArg LensRec.surfaces e
      rw [hss]
  · exact fromDict_toDict env p h a hap hi hc

/-- hypotheses of `fromDict_toDict` are satisfiable (a lens without pickups is trivially a fixed point);
a concrete lens *with* a pickup: `demo_round_trip` at the end of the file -/
theorem fromDict_toDict_no_pickups (env : Env ν) (p : LensRec ν) (h : Wf env p) (a : SysAp ν)
    (hap : p.aperture = some a) (hi : ∀ s ∈ p.surfaces, s.isImage = false) (hc : PlanesClean p)
    (hpk : p.pickups = []) : fromDict_code env (toDict_code p) = .ok p :=
  fromDict_toDict env p h a hap hi hc (by rw [hpk]; rfl)

/-- The specification (pickups not re-applied, `ImageSurface` rebuilt, aperture may be absent, Fresnel
materials and polarization state written as dictionaries) round-trips every well-formed lens. -/
theorem fromDict_toDict_spec (env : Env ν) (p : LensRec ν) (h : Wf env p) (hc : PlanesClean p) :
    fromDict_spec env (toDict_spec p) = .ok p := by
  rw [Serial.fromDict_toDict_spec_general env p h, reloadedSurfaces_clean p hc]

/-- `toDict ∘ fromDict` is the identity on the image of `toDict` (specification; no side condition on
`Plane` attributes: they are not part of the dictionary). -/
theorem toDict_fromDict_spec (env : Env ν) (p : LensRec ν) (h : Wf env p) (j : J ν) (hj : j = toDict_spec p) :
    (fromDict_spec env j).map toDict_spec = .ok j := by
  subst hj
  rw [Serial.fromDict_toDict_spec_general env p h]
  simp only [map_ok', toDict_spec, toDictWith_reloaded]

/-- the same for the code on its domain (the reloaded surfaces are a fixed point of the pickups) -/
theorem toDict_fromDict_code (env : Env ν) (p : LensRec ν) (h : Wf env p) (a : SysAp ν)
    (hap : p.aperture = some a) (hi : ∀ s ∈ p.surfaces, s.isImage = false)
    (hpk : applyPickups true (reloadedSurfaces p) p.pickups = .ok (reloadedSurfaces p))
    (j : J ν) (hj : j = toDict_code p) : (fromDict_code env j).map toDict_code = .ok j := by
  subst hj
  rw [fromDict_toDict_code_general env p h a hap hi, hpk]
  simp only [map_ok', toDict_code, toDictWith_reloaded]

/-- Corollary (`reload_traces_identically`): whatever is computed from the prescription — every ray record,
every paraxial quantity of the models of C02/C04 — is the same for the reloaded lens.
(Logically this is only congruence: `fromDict_toDict` gives `q = p`.  The content of the clause "traces
every ray identically" is that the record `LensRec` holds everything the tracer reads; that is the
harness's comparison of traced rays, not a theorem.  The JSON *file* layer — `json.dump`/`json.load` of
numbers, `Infinity`, int versus float — is modelled only by `jsonOk`.) -/
theorem reload_equal_prescription {β : Type} (observe : LensRec ν → β) (env : Env ν) (p q : LensRec ν)
    (h : Wf env p) (a : SysAp ν) (hap : p.aperture = some a) (hi : ∀ s ∈ p.surfaces, s.isImage = false)
    (hc : PlanesClean p) (hpk : applyPickups true p.surfaces p.pickups = .ok p.surfaces)
    (hq : fromDict_code env (toDict_code p) = .ok q) : observe q = observe p := by
  rw [fromDict_toDict env p h a hap hi hc hpk] at hq
  cases hq; rfl

/-- Later use of the reloaded lens: the same edit history (`set_radius`, `set_thickness`, pickups, solves,
`update()` ...) applied to the original and to the reloaded lens leaves the same lens record — in particular a
pickup or solve keeps addressing the surface it addressed before the round trip, which only shows at the next
`update()`.  (Congruence again; what it adds to `reload_equal_prescription` is that the quantifier over
observations includes every observation made *after* further edits.  The harness applies the same later edits
to the original and to every reloaded lens and compares their rays.) -/
theorem reload_equal_under_later_edits {β : Type} (observe : LensRec ν → β) (arrays : Bool) (es : List (Edit ν))
    (env : Env ν) (p q : LensRec ν)
    (h : Wf env p) (a : SysAp ν) (hap : p.aperture = some a) (hi : ∀ s ∈ p.surfaces, s.isImage = false)
    (hc : PlanesClean p) (hpk : applyPickups true p.surfaces p.pickups = .ok p.surfaces)
    (hq : fromDict_code env (toDict_code p) = .ok q) :
    observe (run arrays q es) = observe (run arrays p es) :=
  reload_equal_prescription (fun L => observe (run arrays L es)) env p q h a hap hi hc hpk hq

/-! ## where `from_dict` is *not* the inverse of `to_dict` in the tree as it stands -/

/-- a lens with an `ImageSurface` can be written but not rebuilt (`TypeError`) -/
theorem image_surface_not_reloadable (env : Env ν) (p : LensRec ν) (s : SurfRec ν) (hs : s ∈ p.surfaces)
    (hi : s.isImage = true) : ∀ q, fromDict_code env (toDict_code p) ≠ .ok q := by
  intro q e
  unfold fromDict_code toDict_code fromDictWith toDictWith at e
  simp only [asObj, req, J.lookup, asArr, bind_ok, String.reduceEq, ↓reduceIte] at e
  obtain ⟨_, _, e⟩ := bind_eq_ok e
  obtain ⟨ss, hm, e⟩ := bind_eq_ok e
  obtain ⟨b, hb⟩ := mapE_ok_mem _ _ _ hm _ (List.mem_map_of_mem hs)
  cases s with
  | image g pre ap => exact surfFrom_code_image env g pre ap b hb
  | object g post => simp [SurfRec.isImage] at hi
  | standard g pre post st ap c bs r => simp [SurfRec.isImage] at hi

/-- a lens on which `set_aperture` was never called can be written but not rebuilt (`TypeError`) -/
theorem no_aperture_not_reloadable (env : Env ν) (p : LensRec ν) (hap : p.aperture = none) :
    ∀ q, fromDict_code env (toDict_code p) ≠ .ok q := by
  intro q e
  unfold fromDict_code toDict_code fromDictWith toDictWith at e
  simp only [asObj, req, J.lookup, bind_ok, String.reduceEq, ↓reduceIte, hap, sysApFrom_none_code] at e
  simp at e

/-- the attribute `set_conic` leaves on a `Plane` is lost: witness lens (one object plane with `k = 0`) -/
theorem plane_conic_lost (env : Env ν) :
    ∃ p q : LensRec ν, Wf env p ∧ fromDict_code env (toDict_code p) = .ok q ∧ q ≠ p := by
  let fr : Frame ν := ⟨Num.zero, Num.zero, .scalar Num.zero, Num.zero, Num.zero, Num.zero⟩
  let s : SurfRec ν := .object (.plane (.root fr) (some Num.zero)) (.ideal Num.one Num.zero)
  let a : SysAp ν := ⟨.EPD, Num.one, false⟩
  let p : LensRec ν := ⟨some a, [s], [], false, none, false, [], .ignore, [], []⟩
  have hw : Wf env p := by
    refine ⟨?_, Or.inl rfl, ?_⟩
    · intro t ht
      simp only [p, List.mem_singleton] at ht
      subst ht
      simp [s, SurfRec.wf, GeomRec.wf, MatRec.wf]
    · intro b hb
      simp only [p, Option.some.injEq] at hb
      subst hb
      simp [a, SysAp.wf]
  have hi : ∀ t ∈ p.surfaces, t.isImage = false := by
    intro t ht
    simp only [p, List.mem_singleton] at ht
    subst ht; rfl
  refine ⟨p, { p with surfaces := reloadedSurfaces p }, hw, ?_, ?_⟩
  · rw [fromDict_toDict_code_general env p hw a rfl hi]
    rfl
  · intro e
    have := congrArg LensRec.surfaces e
    simp [p, s, reloadedSurfaces, SurfRec.reloaded, GeomRec.reloaded] at this

/-- a carrier for concrete witnesses -/
instance instNumInt : Num Int where
  add a b := a + b
  sub a b := a - b
  mul a b := a * b
  div a b := a / b
  neg a := -a
  zero := 0
  one := 1
  two := 2
  ofRat a b := (a : Int) / (b : Int)
  inf := 0
  sqrt := id
  abs x := x.natAbs
  lt a b := decide (a < b)
  le a b := decide (a ≤ b)
  sin := id
  cos := id
  tan := id
  asin := id
  acos := id
  exp := id
  atan2 a _ := a
  pi := 3

/-- `PickupManager.from_dict` re-applies the pickups: witness lens (a sphere of radius 1 whose radius picks up
twice its own radius — constructible by `pickups.add(1, 'radius', 1, scale=2)` followed by `set_radius(1, 1)`)
comes back with radius 2. -/
theorem pickups_reapplied_change_lens :
    ∃ (env : Env Int) (p q : LensRec Int), Wf env p ∧ PlanesClean p ∧
      fromDict_code env (toDict_code p) = .ok q ∧ q ≠ p := by
  let env : Env Int := ⟨fun _ _ _ _ _ => .error "no catalogue"⟩
  let fr : Frame Int := ⟨0, 0, .scalar 0, 0, 0, 0⟩
  let s0 : SurfRec Int := .object (.plane (.root fr) none) (.ideal 1 0)
  let s1 : SurfRec Int := .standard (.standard (.root fr) 1 0) (.ideal 1 0) (.ideal 1 0) true none none none false
  let a : SysAp Int := ⟨.EPD, 1, false⟩
  let p : LensRec Int := ⟨some a, [s0, s1], [], false, none, false, [], .ignore, [⟨1, .radius, 1, 2, 0⟩], []⟩
  have hw : Wf env p := by
    refine ⟨?_, Or.inl rfl, ?_⟩
    · intro t ht
      simp only [p, List.mem_cons, List.mem_nil_iff, or_false] at ht
      rcases ht with rfl | rfl <;> simp [s0, s1, SurfRec.wf, GeomRec.wf, MatRec.wf, optWf]
    · intro b hb
      simp only [p, Option.some.injEq] at hb
      subst hb
      simp [a, SysAp.wf]
  have hi : ∀ t ∈ p.surfaces, t.isImage = false := by
    intro t ht
    simp only [p, List.mem_cons, List.mem_nil_iff, or_false] at ht
    rcases ht with rfl | rfl <;> rfl
  have hc : PlanesClean p := by
    intro t ht
    simp only [p, List.mem_cons, List.mem_nil_iff, or_false] at ht
    rcases ht with rfl | rfl <;> rfl
  let s1' : SurfRec Int := .standard (.standard (.root fr) 2 0) (.ideal 1 0) (.ideal 1 0) true none none none false
  refine ⟨env, p, { p with surfaces := [s0, s1'] }, hw, hc, ?_, ?_⟩
  · rw [fromDict_toDict_code_general env p hw a rfl hi]
    rfl
  · intro e
    have := congrArg LensRec.surfaces e
    simp [p, s1, s1'] at this

/-! ## serialisability -/

/-- `json.dump(lens.to_dict())` succeeds exactly for the lenses in which every `cs.z` is a Python float, no
even-asphere coefficient list is an `ndarray`, no surface has a Fresnel coating and the polarization is
`'ignore'`. -/
theorem jsonOk_toDict_code (p : LensRec ν) : (toDict_code p).jsonOk = jsonable_code p := by
  unfold toDict_code jsonable_code
  rw [jsonOk_toDictWith coatToDict_code CoatRec.isSimple jsonOk_coat_code, jsonOk_pol_code]

/-- with `FresnelCoating.to_dict` and the polarization entry repaired only the representation of numbers is left -/
theorem jsonOk_toDict_spec (p : LensRec ν) : (toDict_spec p).jsonOk = jsonable_spec p := by
  unfold toDict_spec jsonable_spec
  rw [jsonOk_toDictWith coatToDict_spec (fun _ => true) jsonOk_coat_spec, jsonOk_pol_spec]
  simp

/-- `serialisable_after_edits`, specification: once `set_thickness` and the solves write floats back
(`arrays = false`), a lens that can be written stays writable under *every* edit history. -/
theorem serialisable_after_edits_spec (p : LensRec ν) (es : List (Edit ν)) (h : (toDict_spec p).jsonOk = true) :
    (toDict_spec (run false p es)).jsonOk = true := by
  rw [jsonOk_toDict_spec] at h ⊢
  unfold run
  induction es generalizing p with
  | nil => exact h
  | cons e es ih => exact ih (step false p e) (step_false_pres _ p e h)

/-- `serialisable_after_edits`, the tree as it stands — *partial*: histories made of `set_radius`, `set_conic`,
`set_index`, tilts, decentres, radius/conic pickups, `update`, `image_solve`, `add_wavelength`,
`set_polarization('ignore')` on a lens without solves and thickness pickups.  The full statement (all edits)
is false for the code: see the four witnesses below. -/
theorem serialisable_after_edits_partial (p : LensRec ν) (es : List (Edit ν)) (h : SafeInv p)
    (hes : ∀ e ∈ es, e.safe = true) : (toDict_code (run true p es)).jsonOk = true := by
  rw [jsonOk_toDict_code]
  suffices SafeInv (run true p es) from this.ok
  unfold run
  induction es generalizing p with
  | nil => exact h
  | cons e es ih =>
    exact ih (step true p e) (step_true_safe p e (hes e (by simp)) h) (fun e' he' => hes e' (by simp [he']))

/-- the hypotheses of the partial theorem are satisfiable: a lens without pickups and solves that can be written -/
theorem safeInv_of_fresh (p : LensRec ν) (h : (toDict_code p).jsonOk = true) (hp : p.pickups = [])
    (hs : p.solves = []) : SafeInv p :=
  ⟨by rw [← jsonOk_toDict_code]; exact h, by intro q hq; rw [hp] at hq; simp at hq, hs⟩

/-- witness 1 (F4): a successful `set_thickness` on the code leaves a lens that `json.dump` rejects -/
theorem set_thickness_breaks_json (p : LensRec ν) (v : ν) (k : Nat) (ss : List (SurfRec ν))
    (h : setThickness true p.surfaces v k = .ok ss) (hne : p.surfaces ≠ []) :
    (toDict_code (step true p (.setThickness v k))).jsonOk = false := by
  rw [jsonOk_toDict_code]
  simp only [step, h, orKeep, jsonable_code]
  unfold setThickness at h
  obtain ⟨pos, _, h⟩ := bind_eq_ok h
  split at h
  · cases h
    cases hp : p.surfaces with
    | nil => exact absurd hp hne
    | cons s rest =>
      simp [List.mapIdx_cons, jsonableWith_split, SurfRec.headScalar, setZ, mkZ, ZRep.isScalar]
  · cases h

/-- witness 2 (F4): a marginal-ray-height solve on surface `idx` of the code leaves a lens that `json.dump` rejects -/
theorem solve_breaks_json (p : LensRec ν) (s : SolveRec ν) (o : ν) (hidx : s.idx < p.surfaces.length) :
    (toDict_code (step true p (.solveAdd s o))).jsonOk = false := by
  rw [jsonOk_toDict_code]
  simp only [step, jsonable_code, Bool.and_eq_false_iff]
  left
  rw [List.all_eq_false]
  refine ⟨(applySolve true p.surfaces s.idx o)[s.idx]'(by simpa [applySolve] using hidx), List.getElem_mem _, ?_⟩
  simp [applySolve, jsonableWith_split, head_mapFrame, mkZ, ZRep.isScalar]

/-- witness 3 (F13): a Fresnel coating anywhere ⇒ `json.dump` rejects the dictionary -/
theorem fresnel_breaks_json (p : LensRec ν) (g : GeomRec ν) (pre post m1 m2 : MatRec ν) (st refl : Bool)
    (ap : Option (ApRec ν)) (b : Option (BsdfRec ν))
    (h : SurfRec.standard g pre post st ap (some (.fresnel m1 m2)) b refl ∈ p.surfaces) :
    (toDict_code p).jsonOk = false := by
  rw [jsonOk_toDict_code]
  simp only [jsonable_code, Bool.and_eq_false_iff]
  left
  rw [List.all_eq_false]
  exact ⟨_, h, by simp [SurfRec.jsonableWith, optAll, CoatRec.isSimple]⟩

/-- witness 4 (F13): a polarization state ⇒ `json.dump` rejects the dictionary -/
theorem polarization_breaks_json (p : LensRec ν) (pl : Bool) (ex ey px py : Option ν)
    (h : p.polarization = .state pl ex ey px py) : (toDict_code p).jsonOk = false := by
  rw [jsonOk_toDict_code]
  simp [jsonable_code, h, PolRec.isIgnore]

/-- witness 5: even-asphere coefficients handed over as an `ndarray` ⇒ `json.dump` rejects the dictionary -/
theorem asphere_ndarray_breaks_json (p : LensRec ν) (cs : CsRec ν) (r k t m : ν) (c : List ν) (post : MatRec ν)
    (h : SurfRec.object (.evenAsphere cs r k t m (.ndarray c)) post ∈ p.surfaces ∨
         ∃ pre st ap co b refl, SurfRec.standard (.evenAsphere cs r k t m (.ndarray c)) pre post st ap co b refl
           ∈ p.surfaces) : (toDict_code p).jsonOk = false := by
  rw [jsonOk_toDict_code]
  simp only [jsonable_code, Bool.and_eq_false_iff]
  left
  rw [List.all_eq_false]
  rcases h with h | ⟨pre, st, ap, co, b, refl, h⟩
  · exact ⟨_, h, by simp [SurfRec.jsonableWith, SurfRec.geom, GeomRec.jsonable, CoefRep.isList]⟩
  · exact ⟨_, h, by simp [SurfRec.jsonableWith, GeomRec.jsonable, CoefRep.isList]⟩

/-! ## non-vacuity: a realistic lens that satisfies every hypothesis of the positive theorems -/

/-- catalogue oracle that knows one glass -/
def demoEnv : Env Int :=
  ⟨fun name _ _ _ _ => if name = "N-BK7" then .ok "glass/schott/N-BK7.yml" else .error "no match"⟩

def demoGlass : MatRec Int := .material "glass/schott/N-BK7.yml" "N-BK7" none true none none

/-- a singlet: object plane, spherical front surface (stop, radial aperture, simple coating), even-asphere
back surface (Lambertian scatter) whose radius picks up −1 × the front radius, image plane; `EPD`
aperture, two field points, three wavelengths (second primary), one pickup, one solve -/
def demoLens : LensRec Int :=
  { aperture := some ⟨.EPD, 10, false⟩
    surfaces :=
      [.object (.plane (.root ⟨0, 0, .scalar (-100), 0, 0, 0⟩) none) (.ideal 1 0),
       .standard (.standard (.root ⟨0, 0, .scalar 0, 0, 0, 0⟩) 50 0) (.ideal 1 0) demoGlass true
         (some (.radial 10 0)) (some (.simple 1 0)) none false,
       .standard (.evenAsphere (.root ⟨0, 0, .scalar 5, 0, 0, 0⟩) (-50) 0 0 100 (.list [0, 1])) demoGlass
         (.ideal 1 0) false none none (some .lambertian) false,
       .standard (.plane (.root ⟨0, 0, .scalar 95, 0, 0, 0⟩) none) (.ideal 1 0) (.ideal 1 0) false none none
         none false]
    fields := [⟨some "angle", 0, 0, 0, 0⟩, ⟨some "angle", 0, 7, 0, 0⟩]
    fgTelecentric := false
    fieldType := some "angle"
    objTelecentric := false
    waves := [⟨486, false, .nm⟩, ⟨588, true, .nm⟩, ⟨656, false, .nm⟩]
    polarization := .ignore
    pickups := [⟨1, .radius, 2, -1, 0⟩]
    solves := [⟨3, 0⟩] }

theorem demo_wf : Wf demoEnv demoLens := by
  refine ⟨?_, Or.inr ⟨[⟨486, false, .nm⟩], ⟨588, true, .nm⟩, [⟨656, false, .nm⟩], rfl, ?_, rfl, ?_⟩, ?_⟩
  · intro t ht
    simp only [demoLens, List.mem_cons, List.mem_nil_iff, or_false] at ht
    rcases ht with rfl | rfl | rfl | rfl <;>
      simp [SurfRec.wf, GeomRec.wf, MatRec.wf, optWf, CoatRec.wf, demoGlass, demoEnv]
  · intro w hw; simp only [List.mem_singleton] at hw; subst hw; rfl
  · intro w hw; simp only [List.mem_singleton] at hw; subst hw; rfl
  · intro b hb
    simp only [demoLens, Option.some.injEq] at hb
    subst hb
    simp [SysAp.wf]

theorem demo_no_image : ∀ s ∈ demoLens.surfaces, s.isImage = false := by
  intro t ht
  simp only [demoLens, List.mem_cons, List.mem_nil_iff, or_false] at ht
  rcases ht with rfl | rfl | rfl | rfl <;> rfl

theorem demo_clean : PlanesClean demoLens := by
  intro t ht
  simp only [demoLens, List.mem_cons, List.mem_nil_iff, or_false] at ht
  rcases ht with rfl | rfl | rfl | rfl <;> rfl

theorem demo_pickups_fixed : applyPickups true demoLens.surfaces demoLens.pickups = .ok demoLens.surfaces := by
  rfl

/-- the round trip of the tree, the dictionary identity and serialisability, all instantiated -/
theorem demo_round_trip :
    fromDict_code demoEnv (toDict_code demoLens) = .ok demoLens ∧
    (fromDict_code demoEnv (toDict_code demoLens)).map toDict_code = .ok (toDict_code demoLens) ∧
    (toDict_code demoLens).jsonOk = true ∧ SafeInv { demoLens with pickups := [], solves := [] } := by
  have h1 := fromDict_toDict demoEnv demoLens demo_wf _ rfl demo_no_image demo_clean demo_pickups_fixed
  refine ⟨h1, ?_, ?_, ?_⟩
  · rw [h1]; rfl
  · rw [jsonOk_toDict_code]; rfl
  · exact safeInv_of_fresh _ (by rw [jsonOk_toDict_code]; rfl) rfl rfl

/-- non-vacuity of `serialisable_after_edits_partial`: a fresh lens and a history of three safe edits
(`set_radius`, a conic pickup, `update`) -/
example :
    (toDict_code (run true { demoLens with pickups := [], solves := [] }
      [.setRadius 40 1, .pickupAdd ⟨1, .conic, 2, 1, 0⟩, .update []])).jsonOk = true :=
  serialisable_after_edits_partial _ _ demo_round_trip.2.2.2 (by
    intro e he
    simp only [List.mem_cons, List.mem_nil_iff, or_false] at he
    rcases he with rfl | rfl | rfl <;> rfl)

/-! # Round 7 additions

## (a) surface indices counted from the image (`surfaces[i]` with a negative Python `int`) -/
section pyindex

/-- `surfaces[i]` never reads outside the list -/
theorem pyIndex_lt (n : Nat) (i : Int) (k : Nat) (h : pyIndex n i = some k) : k < n := by
  unfold pyIndex at h
  split at h
  · split at h
    · cases h; omega
    · cases h
  · split at h
    · cases h; omega
    · cases h

/-- `IndexError` exactly outside `-n ≤ i < n` -/
theorem pyIndex_none_iff (n : Nat) (i : Int) : pyIndex n i = none ↔ (i < -(n : Int) ∨ (n : Int) ≤ i) := by
  unfold pyIndex
  split
  · split
    · simp; omega
    · simp; omega
  · split
    · simp; omega
    · simp; omega

/-- on the indices of the index-resolved model (`PickRec.src : Nat` …) `pyIndex` is `l[k]?` -/
theorem pyIndex_nat (n k : Nat) : pyIndex n (k : Int) = if k < n then some k else none := by
  unfold pyIndex
  rw [if_pos (by omega)]
  by_cases h : k < n
  · rw [if_pos (by omega), if_pos h]; simp
  · rw [if_neg (by omega), if_neg h]

theorem pyIndex_getElem? {α : Type} (l : List α) (k : Nat) :
    (pyIndex l.length (k : Int)).bind (fun j => l[j]?) = l[k]? := by
  rw [pyIndex_nat]
  by_cases h : k < l.length
  · rw [if_pos h]; rfl
  · rw [if_neg h]; simp at h; simp [h]

/-- `i` and `i + n` address the same surface for `-n ≤ i < 0` -/
theorem pyIndex_add_len (n : Nat) (i : Int) (h1 : -(n : Int) ≤ i) (h2 : i < 0) :
    pyIndex n i = pyIndex n (i + n) := by
  unfold pyIndex
  rw [if_neg (by omega), if_pos h1, if_pos (by omega), if_pos (by omega)]

example : pyIndex 4 (-1) = some 3 ∧ pyIndex 4 (-4) = some 0 ∧ pyIndex 4 (-5) = none ∧ pyIndex 4 4 = none := by
  decide

/-- the correct normalisation `i ↦ n + i` (for `i < 0`) keeps the surface **only** inside the range … -/
theorem pyIndex_normIdx (n : Nat) (i : Int) (h1 : -(n : Int) ≤ i) : pyIndex n (normIdx n i) = pyIndex n i := by
  unfold normIdx
  by_cases h2 : i < 0
  · rw [if_pos h2, pyIndex_add_len n i h1 h2, Int.add_comm]
  · rw [if_neg h2]

/-- … outside it turns an `IndexError` into a valid index: the statement "a normalised stored index resolves
alike for every `n` and `i`" is FALSE; the verbatim stored form (`pickup_index_round_trip`) is the only one
that is right for all `i`.  Witness `n = 2`, `i = -3`. -/
theorem pyIndex_normIdx_not_all : ¬ ∀ (n : Nat) (i : Int), pyIndex n (normIdx n i) = pyIndex n i := by
  intro h
  have := h 2 (-3)
  revert this
  decide

/-- seeded slip `i ↦ (n - 1) + i`: for EVERY lens of at least two surfaces and EVERY index counted from the
image the stored index addresses a different surface (both resolve; no `IndexError` gives it away) -/
theorem pyIndex_normIdxSlip_ne (n : Nat) (i : Int) (hn : 2 ≤ n) (h1 : -(n : Int) ≤ i) (h2 : i < 0) :
    ∃ a b, pyIndex n (normIdxSlip n i) = some a ∧ pyIndex n i = some b ∧ a ≠ b := by
  unfold normIdxSlip
  rw [if_pos h2]
  by_cases h3 : i = -(n : Int)
  · subst h3
    refine ⟨n - 1, 0, ?_, ?_, by omega⟩
    · unfold pyIndex
      rw [if_neg (by omega), if_pos (by omega)]
      congr 1; omega
    · unfold pyIndex
      rw [if_neg (by omega), if_pos (by omega)]
      congr 1; omega
  · refine ⟨((n : Int) - 1 + i).toNat, (i + (n : Int)).toNat, ?_, ?_, by omega⟩
    · unfold pyIndex
      rw [if_pos (by omega), if_pos (by omega)]
    · unfold pyIndex
      rw [if_neg (by omega), if_pos h1]

example : (2 : Nat) ≤ 4 ∧ -((4 : Nat) : Int) ≤ -1 ∧ (-1 : Int) < 0 := by decide

/-- `Pickup(optic, **pickup.to_dict())` is the pickup as registered, negative indices included -/
theorem pickZFrom_pickZToDict (p : PickRecZ ν) : pickZFrom (pickZToDict p) = .ok p := by
  obtain ⟨s, a, t, sc, off⟩ := p
  cases a <;> simp [pickZFrom, pickZToDict, JV.lookup, JV.asInt, JV.asStr, JV.asNum, PickAttr.name, PickAttr.parse]

/-- `BaseSolve.from_dict(solve.to_dict())` is the solve as registered, negative index included -/
theorem solveZFrom_solveZToDict (s : SolveRecZ ν) : solveZFrom (solveZToDict s) = .ok s := by
  obtain ⟨i, h⟩ := s
  simp [solveZFrom, solveZToDict, JV.lookup, JV.asInt, JV.asStr, JV.asNum]

/-- the stored form (index written verbatim) addresses the same surfaces after the round trip, for every
number of surfaces and every index — also the ones that raise -/
theorem pickup_index_round_trip (n : Nat) (p : PickRecZ ν) :
    (pickZFrom (pickZToDict p)).map (PickRecZ.resolve n) = .ok (p.resolve n) := by
  rw [pickZFrom_pickZToDict]; rfl

theorem solve_index_round_trip (n : Nat) (s : SolveRecZ ν) :
    (solveZFrom (solveZToDict s)).map (SolveRecZ.resolve n) = .ok (s.resolve n) := by
  rw [solveZFrom_solveZToDict]; rfl

/-- … hence the reloaded pickup does the same thing to every surface list at the next `apply` -/
theorem pickup_round_trip_applies_alike (arrays : Bool) (ss : List (SurfRec ν)) (p q : PickRecZ ν)
    (h : pickZFrom (pickZToDict p) = .ok q) : applyPickupZ arrays ss q = applyPickupZ arrays ss p := by
  rw [pickZFrom_pickZToDict] at h
  cases h; rfl

/-- the model with natural indices (`PickRec`, used by `fromDict_toDict`) is the non-negative part of this one -/
theorem applyPickupZ_nat (arrays : Bool) (ss : List (SurfRec ν)) (q : PickRec ν) (hs : q.src < ss.length)
    (ht : q.tgt < ss.length) :
    applyPickupZ arrays ss ⟨(q.src : Int), q.attr, (q.tgt : Int), q.scale, q.offset⟩ = applyPickup arrays ss q := by
  unfold applyPickupZ PickRecZ.resolve
  simp only [pyIndex_nat, if_pos hs, if_pos ht]

example : (1 : Nat) < (demoLens.surfaces).length ∧ (2 : Nat) < (demoLens.surfaces).length := by decide

/-- a radius pickup registered with source `-1` reads the image-side surface: same as the natural index `n - 1` -/
theorem applyPickupZ_last (arrays : Bool) (ss : List (SurfRec ν)) (a : PickAttr) (t : Nat) (sc off : ν)
    (hne : ss ≠ []) (ht : t < ss.length) :
    applyPickupZ arrays ss ⟨-1, a, (t : Int), sc, off⟩ = applyPickup arrays ss ⟨ss.length - 1, a, t, sc, off⟩ := by
  have hl : 0 < ss.length := List.length_pos_iff.mpr hne
  have h1 : pyIndex ss.length (-1) = some (ss.length - 1) := by
    unfold pyIndex
    rw [if_neg (by omega), if_pos (by omega)]
    congr 1; omega
  unfold applyPickupZ PickRecZ.resolve
  simp only [h1, pyIndex_nat, if_pos ht]

/-- the slip in the stored form: the reloaded pickup reads a different source surface, in every lens with at
least two surfaces, for every source counted from the image -/
theorem pickup_slip_resolves_elsewhere (n : Nat) (p : PickRecZ ν) (hn : 2 ≤ n) (h1 : -(n : Int) ≤ p.src)
    (h2 : p.src < 0) :
    ∃ q a b, pickZFrom (pickZToDict_slip n p) = .ok q ∧ pyIndex n q.src = some a ∧ pyIndex n p.src = some b ∧
      a ≠ b := by
  obtain ⟨a, b, ha, hb, hab⟩ := pyIndex_normIdxSlip_ne n p.src hn h1 h2
  exact ⟨_, a, b, pickZFrom_pickZToDict _, ha, hb, hab⟩

/-- `surfaces[i:]` (the surfaces a solve shifts) starts at the surface `surfaces[i]` names -/
theorem pySliceStart_of_pyIndex (n : Nat) (i : Int) (k : Nat) (h : pyIndex n i = some k) : pySliceStart n i = k := by
  unfold pyIndex at h
  unfold pySliceStart
  split at h
  · split at h
    · rename_i h1 h2; rw [if_pos h1, if_pos h2]; cases h; rfl
    · cases h
  · split at h
    · rename_i h1 h2; rw [if_neg h1, if_pos h2]; cases h; rfl
    · cases h

theorem applySolve_beyond (arrays : Bool) (ss : List (SurfRec ν)) (idx : Nat) (o : ν) (h : ss.length ≤ idx) :
    applySolve arrays ss idx o = ss := by
  unfold applySolve
  apply List.ext_getElem?
  intro i
  simp only [List.getElem?_mapIdx]
  by_cases hi : i < ss.length
  · rw [List.getElem?_eq_getElem hi]
    simp only [Option.map_some]
    rw [if_neg (by omega)]
  · rw [List.getElem?_eq_none (by omega)]; rfl

/-- the solve model with natural indices is the non-negative part of the one with Python indices -/
theorem applySolveZ_nat (arrays : Bool) (ss : List (SurfRec ν)) (k : Nat) (o : ν) :
    applySolveZ arrays ss (k : Int) o = applySolve arrays ss k o := by
  unfold applySolveZ pySliceStart
  rw [if_pos (by omega)]
  by_cases h : k < ss.length
  · rw [if_pos (by omega)]; simp
  · rw [if_neg (by omega), applySolve_beyond arrays ss _ o (Nat.le_refl _), applySolve_beyond arrays ss k o (by omega)]

/-- the slip in a solve's stored index: the reloaded solve shifts a different set of surfaces -/
theorem solve_slip_shifts_elsewhere (n : Nat) (s : SolveRecZ ν) (hn : 2 ≤ n) (h1 : -(n : Int) ≤ s.idx)
    (h2 : s.idx < 0) :
    pySliceStart n (normIdxSlip n s.idx) ≠ pySliceStart n s.idx := by
  obtain ⟨a, b, ha, hb, hab⟩ := pyIndex_normIdxSlip_ne n s.idx hn h1 h2
  rw [pySliceStart_of_pyIndex _ _ _ ha, pySliceStart_of_pyIndex _ _ _ hb]
  exact hab

end pyindex

/-! ## (b) which object owns the object-space-telecentric flag -/

/-- Whatever the pickups do to the surfaces on reload (no fixed-point hypothesis, no `PlanesClean`): every
other part of the reloaded lens — the Optic-level flag, the FieldGroup's flag, the aperture with its own flag,
fields, field type, wavelengths, polarization, pickups, solves — is the original's. -/
theorem reload_keeps_all_but_surfaces (env : Env ν) (p q : LensRec ν) (h : Wf env p) (a : SysAp ν)
    (hap : p.aperture = some a) (hi : ∀ s ∈ p.surfaces, s.isImage = false)
    (hq : fromDict_code env (toDict_code p) = .ok q) :
    q.objTelecentric = p.objTelecentric ∧ q.fgTelecentric = p.fgTelecentric ∧ q.aperture = p.aperture ∧
    q.fields = p.fields ∧ q.fieldType = p.fieldType ∧ q.waves = p.waves ∧ q.polarization = p.polarization ∧
    q.pickups = p.pickups ∧ q.solves = p.solves := by
  rw [fromDict_toDict_code_general env p h a hap hi] at hq
  cases hr : applyPickups true (reloadedSurfaces p) p.pickups with
  | error m => rw [hr] at hq; simp at hq
  | ok ss =>
    rw [hr] at hq
    simp only [map_ok', Except.ok.injEq] at hq
    subst hq
    simp

/-- the reloaded lens has the same Optic-level flag -/
theorem reload_keeps_optic_flag (env : Env ν) (p q : LensRec ν) (h : Wf env p) (a : SysAp ν)
    (hap : p.aperture = some a) (hi : ∀ s ∈ p.surfaces, s.isImage = false)
    (hq : fromDict_code env (toDict_code p) = .ok q) : q.objTelecentric = p.objTelecentric :=
  (reload_keeps_all_but_surfaces env p q h a hap hi hq).1

/-- the hypotheses are satisfiable (demo singlet) -/
example : demoLens.aperture = some ⟨.EPD, 10, false⟩ ∧
    fromDict_code demoEnv (toDict_code demoLens) = .ok demoLens := ⟨rfl, demo_round_trip.1⟩
example : fromDict_spec demoEnv (toDict_spec demoLens) = .ok demoLens :=
  fromDict_toDict_spec demoEnv demoLens demo_wf demo_clean

/-- specification round trip: the three copies come back each in its own place -/
theorem reload_keeps_flags_spec (env : Env ν) (p q : LensRec ν) (h : Wf env p)
    (hq : fromDict_spec env (toDict_spec p) = .ok q) :
    q.objTelecentric = p.objTelecentric ∧ q.fgTelecentric = p.fgTelecentric ∧ q.aperture = p.aperture := by
  rw [Serial.fromDict_toDict_spec_general env p h] at hq
  cases hq
  simp

/-- a `to_dict` that writes the FieldGroup's copy: the reloaded Optic-level flag is the FieldGroup's -/
theorem fgFlag_slip_reloads_fg_copy (env : Env ν) (p q : LensRec ν) (h : Wf env p) (a : SysAp ν)
    (hap : p.aperture = some a) (hi : ∀ s ∈ p.surfaces, s.isImage = false)
    (hq : fromDict_code env (toDict_fgFlag p) = .ok q) : q.objTelecentric = p.fgTelecentric := by
  have h' : Wf env { p with objTelecentric := p.fgTelecentric } := ⟨h.surfaces, h.waves, h.aperture⟩
  exact reload_keeps_optic_flag env _ q h' a hap hi hq

/-- … so the flag is lost exactly when the two copies differ (the harness sets only the Optic-level one) -/
theorem fgFlag_slip_lost_iff (env : Env ν) (p q : LensRec ν) (h : Wf env p) (a : SysAp ν)
    (hap : p.aperture = some a) (hi : ∀ s ∈ p.surfaces, s.isImage = false)
    (hq : fromDict_code env (toDict_fgFlag p) = .ok q) :
    q.objTelecentric ≠ p.objTelecentric ↔ p.fgTelecentric ≠ p.objTelecentric := by
  rw [fgFlag_slip_reloads_fg_copy env p q h a hap hi hq]

/-- the same for a `to_dict` that writes the aperture's copy -/
theorem apFlag_slip_reloads_ap_copy (env : Env ν) (p q : LensRec ν) (h : Wf env p) (a : SysAp ν)
    (hap : p.aperture = some a) (hi : ∀ s ∈ p.surfaces, s.isImage = false)
    (hq : fromDict_code env (toDict_apFlag p) = .ok q) : q.objTelecentric = a.telecentric := by
  have h' : Wf env { p with objTelecentric := a.telecentric } := ⟨h.surfaces, h.waves, h.aperture⟩
  have e : toDict_apFlag p = toDict_code { p with objTelecentric := a.telecentric } := by
    unfold toDict_apFlag; rw [hap]
  rw [e] at hq
  exact reload_keeps_optic_flag env _ q h' a hap hi hq

/-- the lens of the witnesses: the demo singlet with `optic.obj_space_telecentric = True` set directly (as the
harness does), FieldGroup and aperture copies untouched -/
def teleLens : LensRec Int := { demoLens with objTelecentric := true }

theorem tele_wf : Wf demoEnv teleLens := ⟨demo_wf.surfaces, demo_wf.waves, demo_wf.aperture⟩

/-- the code keeps the flag of the witness lens … -/
theorem tele_round_trip : fromDict_code demoEnv (toDict_code teleLens) = .ok teleLens :=
  fromDict_toDict demoEnv teleLens tele_wf _ rfl demo_no_image demo_clean demo_pickups_fixed

/-- … writing the FieldGroup's copy, or the aperture's, loses it: the lens reloads without error and is no
longer telecentric in object space -/
theorem fgFlag_slip_loses_flag :
    ∃ q, fromDict_code demoEnv (toDict_fgFlag teleLens) = .ok q ∧ q.objTelecentric = false ∧
      teleLens.objTelecentric = true ∧ q ≠ teleLens := by
  have e : fromDict_code demoEnv (toDict_fgFlag teleLens) = .ok demoLens :=
    fromDict_toDict demoEnv demoLens demo_wf _ rfl demo_no_image demo_clean demo_pickups_fixed
  refine ⟨demoLens, e, rfl, rfl, ?_⟩
  intro c
  have := congrArg LensRec.objTelecentric c
  simp [teleLens, demoLens] at this

theorem apFlag_slip_loses_flag :
    ∃ q, fromDict_code demoEnv (toDict_apFlag teleLens) = .ok q ∧ q.objTelecentric = false ∧
      teleLens.objTelecentric = true := by
  have e : fromDict_code demoEnv (toDict_apFlag teleLens) = .ok demoLens :=
    fromDict_toDict demoEnv demoLens demo_wf _ rfl demo_no_image demo_clean demo_pickups_fixed
  exact ⟨demoLens, e, rfl, rfl⟩

/-! ## (c) later use of a lens reloaded through the *specification* round trip -/

/-- every observation of the specification-reloaded lens is the original's -/
theorem reload_equal_prescription_spec {β : Type} (observe : LensRec ν → β) (env : Env ν) (p q : LensRec ν)
    (h : Wf env p) (hc : PlanesClean p) (hq : fromDict_spec env (toDict_spec p) = .ok q) :
    observe q = observe p := by
  rw [fromDict_toDict_spec env p h hc] at hq
  cases hq; rfl

/-- … also after any later edit history, in either representation of the written-back thicknesses; no
hypothesis on the pickups (they are not re-applied), on the aperture or on `ImageSurface`s -/
theorem reload_equal_under_later_edits_spec {β : Type} (observe : LensRec ν → β) (arrays : Bool)
    (es : List (Edit ν)) (env : Env ν) (p q : LensRec ν) (h : Wf env p) (hc : PlanesClean p)
    (hq : fromDict_spec env (toDict_spec p) = .ok q) :
    observe (run arrays q es) = observe (run arrays p es) :=
  reload_equal_prescription_spec (fun L => observe (run arrays L es)) env p q h hc hq

example : Wf demoEnv demoLens ∧ PlanesClean demoLens := ⟨demo_wf, demo_clean⟩

section follow
open scoped Num

theorem radius_setRadius (g : GeomRec ν) (v : ν) : (g.setRadius v).radius = v := by cases g <;> rfl

theorem applySolves_no_offsets (arrays : Bool) (ss : List (SurfRec ν)) (sv : List (SolveRec ν)) :
    applySolves arrays ss sv [] = ss := by cases sv <;> rfl

/-- What `update()` does with a pickup whose source was edited: in a lens with one radius pickup
(source ≠ target, both in range) `set_radius(v, source)` followed by `update()` leaves the target with radius
`scale * v + offset` — computed by the model's `step`, i.e. the pickup reads the *edited* source surface and
writes the target it names. -/
theorem pickup_follows_edited_source (arrays : Bool) (p : LensRec ν) (pk : PickRec ν) (v : ν)
    (hp : p.pickups = [pk]) (ha : pk.attr = .radius) (hs : pk.src < p.surfaces.length)
    (ht : pk.tgt < p.surfaces.length) (hne : pk.src ≠ pk.tgt) :
    ∃ s, (run arrays p [.setRadius v pk.src, .update []]).surfaces[pk.tgt]? = some s ∧
      s.geom.radius = pk.scale * v + pk.offset := by
  obtain ⟨src, attr, tgt, sc, off⟩ := pk
  simp only at ha hs ht hne
  subst ha
  have hs' : p.surfaces[src]? = some (p.surfaces[src]) := List.getElem?_eq_getElem hs
  have ht' : p.surfaces[tgt]? = some (p.surfaces[tgt]) := List.getElem?_eq_getElem ht
  refine ⟨(p.surfaces[tgt]).setGeom ((p.surfaces[tgt]).geom.setRadius (sc * v + off)), ?_, ?_⟩
  · simp only [run, List.foldl_cons, List.foldl_nil, step, setRadiusAt, if_pos hs, orKeep, hp, applyPickups,
      applyPickup, modifyAt, List.getElem?_mapIdx, hs', Option.map_some, if_true, List.length_mapIdx, if_pos ht,
      applySolves_no_offsets, geom_setGeom, radius_setRadius, ht', if_neg (Ne.symm hne)]
  · simp only [geom_setGeom, radius_setRadius]

/-- the same pickup on the reloaded lens (specification round trip): a pickup keeps addressing the surfaces it
addressed before the round trip, which only shows at the `update()` after its source is edited.
*Partial*: one radius pickup; for arbitrary pickup lists and histories the statement is the congruence
`reload_equal_under_later_edits_spec`. -/
theorem reload_pickup_follows_edited_source_partial (arrays : Bool) (env : Env ν) (p q : LensRec ν)
    (pk : PickRec ν) (v : ν) (h : Wf env p) (hc : PlanesClean p)
    (hq : fromDict_spec env (toDict_spec p) = .ok q)
    (hp : p.pickups = [pk]) (ha : pk.attr = .radius) (hs : pk.src < p.surfaces.length)
    (ht : pk.tgt < p.surfaces.length) (hne : pk.src ≠ pk.tgt) :
    ∃ s, (run arrays q [.setRadius v pk.src, .update []]).surfaces[pk.tgt]? = some s ∧
      s.geom.radius = pk.scale * v + pk.offset := by
  rw [fromDict_toDict_spec env p h hc] at hq
  cases hq
  exact pickup_follows_edited_source arrays p pk v hp ha hs ht hne

/-- the same for the round trip of the tree on its domain (the lens is a fixed point of its pickups) -/
theorem reload_code_pickup_follows_edited_source_partial (arrays : Bool) (env : Env ν) (p q : LensRec ν)
    (pk : PickRec ν) (v : ν) (h : Wf env p) (a : SysAp ν) (hap : p.aperture = some a)
    (hi : ∀ s ∈ p.surfaces, s.isImage = false) (hc : PlanesClean p)
    (hpk : applyPickups true p.surfaces p.pickups = .ok p.surfaces)
    (hq : fromDict_code env (toDict_code p) = .ok q)
    (hp : p.pickups = [pk]) (ha : pk.attr = .radius) (hs : pk.src < p.surfaces.length)
    (ht : pk.tgt < p.surfaces.length) (hne : pk.src ≠ pk.tgt) :
    ∃ s, (run arrays q [.setRadius v pk.src, .update []]).surfaces[pk.tgt]? = some s ∧
      s.geom.radius = pk.scale * v + pk.offset := by
  rw [fromDict_toDict env p h a hap hi hc hpk] at hq
  cases hq
  exact pickup_follows_edited_source arrays p pk v hp ha hs ht hne

/-- non-vacuity: the demo singlet without its solve has exactly one radius pickup (1 → 2) -/
example : ∃ s, (run true { demoLens with solves := [] } [.setRadius 40 1, .update []]).surfaces[2]? = some s ∧
    s.geom.radius = -40 := by
  have := pickup_follows_edited_source true { demoLens with solves := [] } ⟨1, .radius, 2, -1, 0⟩ (40 : Int)
    rfl rfl (by decide) (by decide) (by decide)
  simpa using this

theorem setGeom_setGeom (s : SurfRec ν) (g1 g2 : GeomRec ν) : (s.setGeom g1).setGeom g2 = s.setGeom g2 := by
  cases s <;> rfl
theorem setRadius_setRadius (g : GeomRec ν) (a b : ν) : (g.setRadius a).setRadius b = g.setRadius b := by
  cases g <;> rfl

/-- a radius pickup whose target is not its source is idempotent: applying it again changes nothing -/
theorem applyPickup_radius_idem (arrays arrays' : Bool) (ss ss1 : List (SurfRec ν)) (pk : PickRec ν)
    (ha : pk.attr = .radius) (hne : pk.src ≠ pk.tgt) (h : applyPickup arrays ss pk = .ok ss1) :
    applyPickup arrays' ss1 pk = .ok ss1 := by
  obtain ⟨src, attr, tgt, sc, off⟩ := pk
  simp only at ha hne
  subst ha
  unfold applyPickup at h
  cases hs : ss[src]? with
  | none => simp [hs] at h
  | some s =>
    simp only [hs, setRadiusAt] at h
    split at h
    · rename_i ht
      cases h
      simp only [applyPickup, modifyAt, List.getElem?_mapIdx, hs, Option.map_some, if_neg hne, setRadiusAt,
        List.length_mapIdx, if_pos ht]
      congr 1
      apply List.ext_getElem?
      intro i
      simp only [List.getElem?_mapIdx]
      cases ss[i]? with
      | none => rfl
      | some t =>
        by_cases hi : i = tgt
        · simp [hi, setGeom_setGeom, setRadius_setRadius, geom_setGeom]
        · simp [hi]
    · cases h

theorem applyPickup_radius_arrays (a a' : Bool) (ss : List (SurfRec ν)) (pk : PickRec ν) (ha : pk.attr = .radius) :
    applyPickup a ss pk = applyPickup a' ss pk := by
  unfold applyPickup
  rw [ha]

/-- Histories that begin with `update()`, the tree as it stands, WITHOUT the fixed-point hypothesis of
`fromDict_toDict`: in a lens with one radius pickup whose target is not its source (the target may have been
edited after the pickup was registered, so that the reload does change it) the additional application of the
pickup by `PickupManager.from_dict` is invisible after the next `update()` — from there on the reloaded lens and
the original are the same record under every further history.  *Partial*: one radius pickup; the restriction
`src ≠ tgt` cannot be dropped (`reload_then_update_self_pickup_differs`). -/
theorem reload_then_update_code_partial (arrays : Bool) (env : Env ν) (p q : LensRec ν) (pk : PickRec ν)
    (h : Wf env p) (a : SysAp ν) (hap : p.aperture = some a) (hi : ∀ s ∈ p.surfaces, s.isImage = false)
    (hc : PlanesClean p) (hp : p.pickups = [pk]) (ha : pk.attr = .radius) (hne : pk.src ≠ pk.tgt)
    (hq : fromDict_code env (toDict_code p) = .ok q) (os : List ν) (es : List (Edit ν)) :
    run arrays q (.update os :: es) = run arrays p (.update os :: es) := by
  rw [fromDict_toDict_code_general env p h a hap hi, reloadedSurfaces_clean p hc, hp] at hq
  cases hr : applyPickup true p.surfaces pk with
  | error m => simp [applyPickups, hr] at hq
  | ok ss1 =>
    simp only [applyPickups, hr, map_ok', Except.ok.injEq] at hq
    subst hq
    have h1 : applyPickup arrays p.surfaces pk = .ok ss1 := by
      rw [applyPickup_radius_arrays arrays true _ pk ha]; exact hr
    have h2 : applyPickup arrays ss1 pk = .ok ss1 := applyPickup_radius_idem true arrays _ _ pk ha hne hr
    simp only [run, List.foldl_cons]
    congr 1
    simp only [step, hp, applyPickups, h1, h2, orKeep]


/-- the radii of a result (for witnesses) -/
def radiiOf : R (List (SurfRec Int)) → List Int
  | .ok ss => ss.map (fun s => s.geom.radius)
  | .error _ => []

/-- non-vacuity of `reload_then_update_code_partial`: the demo singlet after `set_radius(-60, 2)` — no longer a
fixed point of its pickup 1 → 2, so the reload alone changes it -/
example : (⟨1, .radius, 2, -1, 0⟩ : PickRec Int).attr = .radius ∧ (1 : Nat) ≠ 2 ∧
    applyPickups true (run true demoLens [.setRadius (-60) 2]).surfaces demoLens.pickups ≠
      .ok (run true demoLens [.setRadius (-60) 2]).surfaces := by
  refine ⟨rfl, by decide, ?_⟩
  intro c
  have := congrArg radiiOf c
  revert this
  decide

end follow

/-- the witness lens of `pickups_reapplied_change_lens` -/
def selfPickLens : LensRec Int :=
  ⟨some ⟨.EPD, 1, false⟩,
   [.object (.plane (.root ⟨0, 0, .scalar 0, 0, 0, 0⟩) none) (.ideal 1 0),
    .standard (.standard (.root ⟨0, 0, .scalar 0, 0, 0, 0⟩) 1 0) (.ideal 1 0) (.ideal 1 0) true none none none false],
   [], false, none, false, [], .ignore, [⟨1, .radius, 1, 2, 0⟩], []⟩

/-- a pickup that reads its own target: the reloaded lens differs and `update()` does not bring the two together
(radius 4 against 2) -/
theorem reload_then_update_self_pickup_differs :
    ∃ (env : Env Int) (q : LensRec Int), Wf env selfPickLens ∧ PlanesClean selfPickLens ∧
      fromDict_code env (toDict_code selfPickLens) = .ok q ∧
      (run true q [.update []]).surfaces.map (fun s => s.geom.radius) ≠
      (run true selfPickLens [.update []]).surfaces.map (fun s => s.geom.radius) := by
  let env : Env Int := ⟨fun _ _ _ _ _ => .error "no catalogue"⟩
  have hw : Wf env selfPickLens := by
    refine ⟨?_, Or.inl rfl, ?_⟩
    · intro t ht
      simp only [selfPickLens, List.mem_cons, List.mem_nil_iff, or_false] at ht
      rcases ht with rfl | rfl <;> simp [SurfRec.wf, GeomRec.wf, MatRec.wf, optWf]
    · intro b hb
      simp only [selfPickLens, Option.some.injEq] at hb
      subst hb
      simp [SysAp.wf]
  have hi : ∀ t ∈ selfPickLens.surfaces, t.isImage = false := by
    intro t ht
    simp only [selfPickLens, List.mem_cons, List.mem_nil_iff, or_false] at ht
    rcases ht with rfl | rfl <;> rfl
  have hc : PlanesClean selfPickLens := by
    intro t ht
    simp only [selfPickLens, List.mem_cons, List.mem_nil_iff, or_false] at ht
    rcases ht with rfl | rfl <;> rfl
  refine ⟨env, { selfPickLens with surfaces :=
      [.object (.plane (.root ⟨0, 0, .scalar 0, 0, 0, 0⟩) none) (.ideal 1 0),
       .standard (.standard (.root ⟨0, 0, .scalar 0, 0, 0, 0⟩) 2 0) (.ideal 1 0) (.ideal 1 0) true none none none
         false] }, hw, hc, ?_, ?_⟩
  · rw [fromDict_toDict_code_general env selfPickLens hw _ rfl hi]
    rfl
  · decide

/-! ## (d) the component laws, one per `to_dict / from_dict` pair -/

/-- `CoordinateSystem` (with its chain of reference systems and a `z` of either representation) -/
theorem cs_round_trip (c : CsRec ν) : csFrom (csToDict c) = .ok c := csFrom_csToDict c

/-- the five geometry classes; a `Plane` comes back without the attribute `set_conic` left on it -/
theorem geometry_round_trip (g : GeomRec ν) (h : g.wf = true) : geomFrom (geomToDict g) = .ok g.reloaded :=
  geomFrom_geomToDict g h

/-- … so every geometry that is not such a `Plane` comes back as it was -/
theorem geometry_round_trip_exact (g : GeomRec ν) (h : g.wf = true) (hk : ∀ cs k, g ≠ .plane cs (some k)) :
    geomFrom (geomToDict g) = .ok g := by
  rw [geomFrom_geomToDict g h]
  cases g with
  | plane cs k =>
    cases k with
    | none => rfl
    | some k => exact absurd rfl (hk cs k)
  | _ => rfl

example : (GeomRec.chebyshev (.root ⟨0, 0, .scalar 0, 0, 0, 0⟩) 50 0 0 100 [[1, 2], [3, 4]] 1 1 : GeomRec Int).wf
    = true := by decide

/-- the five material classes (a catalogue `Material` repeats the lookup that made it) -/
theorem material_round_trip (env : Env ν) (m : MatRec ν) (h : m.wf env) : matFrom env (matToDict m) = .ok m :=
  matFrom_matToDict env m h

example : demoGlass.wf demoEnv := by simp [demoGlass, demoEnv, MatRec.wf]

/-- coatings, in memory (the tree hands the material objects of a Fresnel coating through) -/
theorem coating_round_trip_code (env : Env ν) (c : CoatRec ν) (h : c.wf env) :
    coatFrom .code env (coatToDict_code c) = .ok c := coatFrom_code env c h

/-- coatings, specification (materials as dictionaries) -/
theorem coating_round_trip_spec (env : Env ν) (c : CoatRec ν) (h : c.wf env) :
    coatFrom .spec env (coatToDict_spec c) = .ok c := coatFrom_spec env c h

example : (CoatRec.fresnel (.ideal 1 0) demoGlass).wf demoEnv := by simp [demoGlass, demoEnv, MatRec.wf, CoatRec.wf]

/-- the dictionary the tree writes for a Fresnel coating cannot be read by the specification reader and
vice versa (the two forms are not interchangeable): the file written by one variant is rejected by the other -/
theorem coating_forms_not_interchangeable (env : Env ν) (m1 m2 : MatRec ν) :
    (∀ c, coatFrom .spec env (coatToDict_code (.fresnel m1 m2)) ≠ .ok c) ∧
    (∀ c, coatFrom .code env (coatToDict_spec (.fresnel m1 m2)) ≠ .ok c) := by
  constructor
  · intro c e
    simp [coatToDict_code, coatFrom, asObj, J.lookup, req, asStr, matObj, matObjFrom, Mode.spec] at e
  · intro c e
    cases m1 <;> simp [coatToDict_spec, coatFrom, asObj, J.lookup, req, asStr, matObjFrom, Mode.code, matToDict] at e

theorem bsdf_round_trip (b : BsdfRec ν) : bsdfFrom (bsdfToDict b) = .ok b := bsdfFrom_bsdfToDict b

theorem physical_aperture_round_trip (a : ApRec ν) : apFrom (apToDict a) = .ok a := apFrom_apToDict a

/-- a field point with its vignetting factors and its (possibly absent) field type -/
theorem field_round_trip (f : FieldRec ν) : fieldFrom (fieldToDict f) = .ok f := fieldFrom_fieldToDict f

/-- one wavelength with its unit: the stored unit name parses back to the unit, for all five units -/
theorem wavelength_round_trip (w : WaveRec ν) : waveArgs (waveToDict w) = .ok w := waveArgs_waveToDict w

theorem unit_round_trip (u : WUnit) : WUnit.parse u.name = .ok u := by cases u <;> rfl

/-- the wavelength list through `add_wavelength`: the primary flags survive exactly for the lists that have none
or one primary wavelength -/
theorem wavelengths_round_trip (ws : List (WaveRec ν)) (h : WavesWf ws) :
    wavesFrom (ws.map waveToDict) = .ok ws := wavesFrom_waves ws h

example : WavesWf demoLens.waves := demo_wf.waves

/-- … and not otherwise: two primaries (reachable by setting `is_primary` on the objects) come back as one -/
theorem wavelengths_two_primaries_lost :
    ∃ ws : List (WaveRec Int), ∃ ws', wavesFrom (ws.map waveToDict) = .ok ws' ∧ ws' ≠ ws :=
  ⟨[⟨486, true, .nm⟩, ⟨588, true, .nm⟩], [⟨486, false, .nm⟩, ⟨588, true, .nm⟩], rfl, by intro c; simp at c⟩

/-- the system aperture with its own telecentric flag, for both readers -/
theorem system_aperture_round_trip (m : Mode) (a : SysAp ν) (h : a.wf) :
    sysApFrom m (optJ sysApToDict (some a)) = .ok (some a) := sysApFrom_some m a h

example : (⟨.objectNA, 1, true⟩ : SysAp Int).wf := by simp [SysAp.wf]

/-- an aperture that violates the constructor's check (reachable by setting the attribute afterwards) can be
written but not read back -/
theorem system_aperture_invalid_not_reloadable (m : Mode) (v : ν) :
    ∀ r, sysApFrom m (optJ sysApToDict (some ⟨.EPD, v, true⟩)) ≠ .ok r := by
  intro r e
  simp [optJ, sysApToDict, sysApFrom, req, J.lookup, getD, asStr, asNum, asBool, ApType.name, ApType.parse] at e

theorem polarization_round_trip_code (p : PolRec ν) : polFrom .code (polToJ_code p) = .ok p := polFrom_code p
theorem polarization_round_trip_spec (p : PolRec ν) : polFrom .spec (polToJ_spec p) = .ok p := polFrom_spec p

theorem pickup_round_trip (p : PickRec ν) : pickFrom (pickToDict p) = .ok p := pickFrom_pickToDict p
theorem solve_round_trip (s : SolveRec ν) : solveFrom (solveToDict s) = .ok s := solveFrom_solveToDict s

/-- a whole surface (geometry, two media, stop flag, aperture, coating, scatter model, reflective flag),
specification reader, `ImageSurface` included -/
theorem surface_round_trip_spec (env : Env ν) (s : SurfRec ν) (h : s.wf env) :
    surfFrom .spec env (surfToDictWith coatToDict_spec s) = .ok s.reloaded := surfFrom_spec env s h

/-- the same for the tree, except `ImageSurface` (`image_surface_not_reloadable`) -/
theorem surface_round_trip_code (env : Env ν) (s : SurfRec ν) (h : s.wf env) (hi : s.isImage = false) :
    surfFrom .code env (surfToDictWith coatToDict_code s) = .ok s.reloaded := surfFrom_code env s h hi

/-! ### the defaults of the optional keys (`data.get(key, default)`; the harness drops them at random) -/

/-- `CoordinateSystem.from_dict`: every one of the six numbers defaults to 0 -/
theorem cs_defaults : csFrom (.obj [("reference_cs", .null)] : J ν) =
    .ok (.root ⟨Num.zero, Num.zero, .scalar Num.zero, Num.zero, Num.zero, Num.zero⟩) := by
  simp [csFrom, refOf, J.truthy, frameFrom, getD, J.lookup, asNum, asZ]

/-- geometries: `conic = 0`, `tol = 1e-10`, `max_iter = 100`, no coefficients, `norm_x = norm_y = 1` -/
theorem geometry_defaults (cs : CsRec ν) (r : ν) :
    geomFrom (.obj [("type", .str "StandardGeometry"), ("cs", csToDict cs), ("radius", .num r)]) =
      .ok (.standard cs r Num.zero) ∧
    geomFrom (.obj [("type", .str "EvenAsphere"), ("cs", csToDict cs), ("radius", .num r)]) =
      .ok (.evenAsphere cs r Num.zero tolDefault maxIterDefault (.list [])) ∧
    geomFrom (.obj [("type", .str "ChebyshevPolynomialGeometry"), ("cs", csToDict cs), ("radius", .num r)]) =
      .ok (.chebyshev cs r Num.zero tolDefault maxIterDefault [[]] Num.one Num.one) := by
  refine ⟨?_, ?_, ?_⟩ <;>
    simp [geomFrom, asObj, J.lookup, req, getD, csFrom_csToDict, asNum, coefFrom, matrixFrom, mapE]

/-- `IdealMaterial`: `absorp = 0`; `Material`: no reference, robust search, no wavelength limits -/
theorem material_defaults (env : Env ν) (n : ν) (name : String) :
    matFrom env (.obj [("type", .str "IdealMaterial"), ("index", .num n)]) = .ok (.ideal n Num.zero) ∧
    matFrom env (.obj [("type", .str "Material"), ("name", .str name)]) =
      (env.lookup name none true none none).map (fun fn => .material fn name none true none none) := by
  constructor
  · simp [matFrom, asObj, J.lookup, req, getD, asNum]
  · simp only [matFrom, asObj, J.lookup, req, getD, asStr, asOptStr, asBool, asOptNum, bind_ok, Option.getD,
      String.reduceEq, ↓reduceIte]
    cases env.lookup name none true none none <;> rfl

/-- wavelength: primary, micrometres; pickup: scale 1, offset 0; aperture: not telecentric; field: the origin,
no vignetting -/
theorem record_defaults (v : ν) (s t : Nat) (a : PickAttr) (ty : ApType) (m : Mode) (ft : Option String) :
    waveArgs (.obj [("value", .num v)]) = .ok ⟨v, true, .um⟩ ∧
    pickFrom (.obj [("source_surface_idx", .int s), ("attr_type", .str a.name), ("target_surface_idx", .int t)] : J ν)
      = .ok ⟨s, a, t, Num.one, Num.zero⟩ ∧
    sysApFrom m (.obj [("type", .str ty.name), ("value", .num v)]) = .ok (some ⟨ty, v, false⟩) ∧
    fieldFrom (.obj [("field_type", optStrJ ft)] : J ν) = .ok ⟨ft, Num.zero, Num.zero, Num.zero, Num.zero⟩ := by
  refine ⟨?_, ?_, ?_, ?_⟩
  · simp [waveArgs, asObj, J.lookup, req, getD, asNum, asBool, asStr, WUnit.parse]
  · cases a <;> simp [pickFrom, asObj, J.lookup, req, getD, asNum, asNat, asStr, PickAttr.name, PickAttr.parse]
  · cases ty <;> simp [sysApFrom, J.lookup, req, getD, asNum, asBool, asStr, ApType.name, ApType.parse]
  · simp [fieldFrom, asObj, J.lookup, getD, asNum, asOptStr_optStrJ]


end C19
