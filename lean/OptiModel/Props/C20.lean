import OptiModel.Model.Zmx
/-!
# C20  Zemax import reproduces the prescription written in the file

Theorems about `Model/Zmx.lean` (core Lean only; numbers are an abstract type `ν` with an
arbitrary `Num`/`BEq` structure — no law of arithmetic is used).

* `parse_print`            — for every well-formed prescription `p` (any number of surfaces,
  STANDARD / EVENASPH, any aperture kind, any fields, any number of wavelengths, any primary):
  `zload (printZmx p) = ok (expected p)`: one `add_surface` call per written surface with the written
  curvature (as radius), thickness, conic, coefficients, stop flag and medium decision, the written
  aperture, field type, the field *set* sorted by y, the wavelengths and the primary index.
  Itemised corollaries, each about the lens `o` with `zload known (printZmx p) = .ok o`:
  `surface_count`, `surface_data`, `stop_index_read`, `aperture_read`, `fields_read`,
  `wavelengths_read` (helpers about the specification function `expected` only: `expected_*`,
  `stop_index_unique`, `fields_mem`, `fields_nodup`, `fields_sorted`, `fields_exact`).
  The theorems are about the dispatched lines `ZLine`; the text → `ZLine` step (`Model/ZmxLex.lean`,
  both encodings, `float()` parsing) is only run by the harness, not reasoned about.
* `unknown_lines_ignored`, `parse_print_noise` — lines the reader does not dispatch never matter.
* `zstep_comm`, `parse_print_reordered` — nor does the order of the attribute lines inside a surface block.
* `nonsequential_rejected`, `bad_number_rejected` — the load fails with `ValueError`.
* `glass_known`, `glass_vendor`, `glass_model`, `vendor_branch_dead` — decision logic of `_read_glass`.
-/
namespace C20
open Zmx
open scoped Num
variable {ν : Type}

/-! ### lines that are not dispatched -/

theorem foldl_filter_other (st : ZState ν) (ls : List (ZLine ν)) :
    (ls.filter (fun l => !l.isOther)).foldl zstep st = ls.foldl zstep st := by
  induction ls generalizing st with
  | nil => rfl
  | cons l ls ih =>
    cases h : l.isOther
    · simp only [List.filter_cons, h, Bool.not_false, if_true, List.foldl_cons, ih]
    · have hl : l = .other := by cases l <;> simp_all [ZLine.isOther]
      subst hl
      simp only [List.filter_cons, h, Bool.not_true, Bool.false_eq_true, if_false, List.foldl_cons, ih]
      rfl

/-- unknown keywords, blank lines and short lines without effect can be inserted or removed
anywhere without changing what the reader holds -/
theorem unknown_lines_ignored (ls : List (ZLine ν)) :
    zparse (ls.filter (fun l => !l.isOther)) = zparse ls :=
  foldl_filter_other _ ls

/-! ### errors are sticky -/

theorem err_zstep (st : ZState ν) (l : ZLine ν) (h : st.err = true) : (zstep st l).err = true := by
  cases l <;> simp only [zstep, upd] <;> (repeat' split) <;> simp_all

theorem err_foldl (st : ZState ν) (ls : List (ZLine ν)) (h : st.err = true) :
    (ls.foldl zstep st).err = true := by
  induction ls generalizing st with
  | nil => exact h
  | cons l ls ih => exact ih _ (err_zstep st l h)

theorem err_of_mem (st : ZState ν) (ls : List (ZLine ν)) (l : ZLine ν) (hl : l ∈ ls)
    (hs : ∀ s : ZState ν, (zstep s l).err = true) : (ls.foldl zstep st).err = true := by
  induction ls generalizing st with
  | nil => cases hl
  | cons a ls ih =>
    rcases List.mem_cons.mp hl with rfl | h
    · exact err_foldl _ ls (hs st)
    · exact ih _ h

/-- a file whose `MODE` line is not `SEQ` is rejected with `ValueError`, whatever else it says -/
theorem nonsequential_rejected [Num ν] [BEq ν] (known : String → Option String → Bool)
    (ls : List (ZLine ν)) (h : ZLine.mode false ∈ ls) : zload known ls = .error .value := by
  have : (zparse ls).err = true := err_of_mem _ ls _ h (fun s => by simp [zstep])
  simp [zload, zread, zfinish, this]

/-- a number `float()` / `int()` rejects makes the load fail with `ValueError` -/
theorem bad_number_rejected [Num ν] [BEq ν] (known : String → Option String → Bool)
    (ls : List (ZLine ν)) (h : ZLine.bad ∈ ls) : zload known ls = .error .value := by
  have : (zparse ls).err = true := err_of_mem _ ls _ h (fun s => by simp [zstep])
  simp [zload, zread, zfinish, this]

/-! ### glass resolution (`_read_glass`) -/

/-- catalogue name known ⇒ catalogue glass -/
theorem glass_known (known : String → Option String → Bool) (name : String) (cats : List String)
    (nd vd : ν) (h : known name none = true) :
    resolveGlass known name cats nd vd = .catalog name none := by
  simp [resolveGlass, h]

/-- otherwise the first vendor catalogue of `GCAT` that knows the name -/
theorem glass_vendor (known : String → Option String → Bool) (name : String) (cats : List String)
    (nd vd : ν) (c : String) (h : known name none = false)
    (hc : cats.find? (fun c => known name (some c.toLower)) = some c) :
    resolveGlass known name cats nd vd = .catalog name (some c.toLower) := by
  simp [resolveGlass, h, hc]

/-- name unknown everywhere ⇒ the model glass with the file's index and Abbe number -/
theorem glass_model (known : String → Option String → Bool) (name : String) (cats : List String)
    (nd vd : ν) (h : known name none = false)
    (hc : ∀ c ∈ cats, known name (some c.toLower) = false) :
    resolveGlass known name cats nd vd = .abbe nd vd := by
  have : cats.find? (fun c => known name (some c.toLower)) = none := by
    simp only [List.find?_eq_none]
    intro c hmem
    simp [hc c hmem]
  simp [resolveGlass, h, this]

/-- `Material(name, reference)` only narrows the candidates of `Material(name)`: then the vendor
loop can never succeed and the decision is "known ⇒ catalogue, else model glass" -/
theorem vendor_branch_dead (known : String → Option String → Bool)
    (mono : ∀ n r, known n (some r) = true → known n none = true)
    (name : String) (cats : List String) (nd vd : ν) :
    resolveGlass known name cats nd vd =
      if known name none then .catalog name none else .abbe nd vd := by
  cases h : known name none
  · have := glass_model known name cats nd vd h (fun c _ => by
      cases h' : known name (some c.toLower)
      · rfl
      · rw [mono _ _ h'] at h; cases h)
    simpa [h] using this
  · simp [resolveGlass, h]

/-! ### surface blocks -/

theorem foldl_parmLines (st : ZState ν) (c : ZSurf ν) (hc : st.cur = some c) (k : Nat) (cs : List ν) :
    (parmLines k cs).foldl zstep st =
      { st with cur := some { c with parms := c.parms ++ enumParms k cs } } := by
  induction cs generalizing st c k with
  | nil => cases st; simp_all [parmLines, enumParms]
  | cons v vs ih =>
    simp only [parmLines, enumParms, List.foldl_cons]
    have : zstep st (ZLine.parm ((k : Int) + 1) v) =
        { st with cur := some { c with parms := c.parms ++ [((k : Int), v)] } } := by
      simp [zstep, upd, hc]
    rw [this, ih _ { c with parms := c.parms ++ [((k : Int), v)] } rfl]
    simp [List.append_assoc]

/-- a block written for one surface is read back as exactly that surface, the surface that was open
before is flushed, and nothing else in the reader changes -/
theorem foldl_printSurf (st : ZState ν) (s : ZPSurf ν) :
    (printSurf s).foldl zstep st =
      { st with cur := some (recOf (st.gcat.getD []) s), done := st.done ++ st.cur.toList } := by
  obtain ⟨ea, isStop, curv, thick, conic, glass, coeffs⟩ := s
  simp only [printSurf, List.foldl_append, List.foldl_cons, List.foldl_nil]
  cases isStop <;> cases ea <;> cases glass <;> cases conic <;>
    (simp only [zstep, upd, List.foldl_cons, List.foldl_nil, if_true, if_false, Bool.false_eq_true]
     rw [foldl_parmLines _ _ (by rfl)]
     simp [recOf])

/-- all blocks of a file: every block but the last is flushed in order, the last one stays open -/
theorem foldl_blocks (st : ZState ν) (bs : List (ZPSurf ν)) (b : ZPSurf ν) :
    ((bs ++ [b]).flatMap printSurf).foldl zstep st =
      { st with cur := some (recOf (st.gcat.getD []) b),
                done := st.done ++ st.cur.toList ++ bs.map (recOf (st.gcat.getD [])) } := by
  induction bs generalizing st with
  | nil => simp [foldl_printSurf]
  | cons a bs ih =>
    simp only [List.cons_append, List.flatMap_cons, List.foldl_append, foldl_printSurf]
    rw [ih]
    simp [List.append_assoc]

/-! ### header -/

theorem takeFloats_some (xs pad : List ν) :
    takeFloats xs.length ((xs ++ pad).map some) = some xs := by
  induction xs with
  | nil => simp [takeFloats]
  | cons x xs ih =>
    simp only [takeFloats, List.length_cons, List.cons_append, List.map_cons, List.take_succ_cons,
      List.foldr_cons] at ih ⊢
    rw [ih]

theorem foldl_wavm_pad (st : ZState ν) (n : Nat) (hn : st.nw = some n) (hl : st.waves.length = n)
    (pad : List ν) : (pad.map ZLine.wavm).foldl zstep st = st := by
  induction pad with
  | nil => rfl
  | cons v vs ih => simp [zstep, hn, hl, ih]

theorem foldl_wavm (st : ZState ν) (n : Nat) (hn : st.nw = some n) (ws pad : List ν)
    (hl : st.waves.length + ws.length = n) :
    ((ws ++ pad).map ZLine.wavm).foldl zstep st = { st with waves := st.waves ++ ws } := by
  induction ws generalizing st with
  | nil =>
    simp only [List.nil_append, List.append_nil]
    exact foldl_wavm_pad st n hn (by simpa using hl) pad
  | cons w ws ih =>
    have hlt : st.waves.length < n := by simp only [List.length_cons] at hl; omega
    simp only [List.cons_append, List.map_cons, List.foldl_cons]
    have hs : zstep st (ZLine.wavm w) = { st with waves := st.waves ++ [w] } := by
      simp [zstep, hn, hlt]
    rw [hs, ih { st with waves := st.waves ++ [w] } hn
      (by simp only [List.length_append, List.length_cons, List.length_nil] at hl ⊢; omega)]
    simp [List.append_assoc]

theorem zip_fst_snd (l : List (ν × ν)) : (l.map fun f => f.1).zip (l.map fun f => f.2) = l := by
  induction l with
  | nil => rfl
  | cons a l ih => simp [ih]

/-- the reader's state after the header of a well-formed file -/
theorem foldl_header (p : ZPresc ν) :
    (header p).foldl zstep {} =
      { ap := [(p.apKind.key, some p.apValue)], gcat := p.gcat, ftype := some p.fieldType,
        tele := some p.tele, nf := some p.fields.length, nw := some p.waves.length,
        xs := some (p.fields.map fun f => f.1), ys := some (p.fields.map fun f => f.2),
        waves := p.waves, pw := some p.primary } := by
  obtain ⟨gcat, apKind, apValue, fieldType, tele, fields, xpad, ypad, waves, wpad, primary, obj, surfs, img⟩ := p
  have hx := takeFloats_some (fields.map fun f => f.1) xpad
  have hy := takeFloats_some (fields.map fun f => f.2) ypad
  simp only [List.length_map] at hx hy
  simp only [header, List.foldl_append, List.foldl_cons, List.foldl_nil]
  cases apKind <;> cases gcat <;>
    (simp only [zstep, apLine, apSet, hx, hy, List.any_nil, Bool.false_eq_true, if_false, if_true,
        List.nil_append, List.foldl_cons, List.foldl_nil]
     rw [foldl_wavm _ waves.length rfl waves wpad (by simp)]
     simp [ApKind.key])

/-! ### conversion -/

theorem dedup_ne_nil [BEq ν] (l : List (ν × ν)) (h : l ≠ []) : dedup l ≠ [] := by
  cases l with
  | nil => exact absurd rfl h
  | cons a l => simp [dedup]

theorem coeffsOf_enum (a0 a1 a2 a3 a4 a5 a6 a7 : ν) :
    coeffsOf (enumParms 0 [a0, a1, a2, a3, a4, a5, a6, a7]) = some [a0, a1, a2, a3, a4, a5, a6, a7] := by
  simp [coeffsOf, lookupParm, enumParms]

theorem length_eq_eight (l : List ν) (h : l.length = 8) :
    ∃ a0 a1 a2 a3 a4 a5 a6 a7, l = [a0, a1, a2, a3, a4, a5, a6, a7] := by
  match l, h with
  | [a0, a1, a2, a3, a4, a5, a6, a7], _ => exact ⟨a0, a1, a2, a3, a4, a5, a6, a7, rfl⟩

/-- one flushed record of a written surface converts to the written `add_surface` arguments -/
theorem convSurf_recOf [Num ν] (known : String → Option String → Bool) (cats : List String)
    (s : ZPSurf ν) (h : s.evenAsph = true → s.coeffs.length = 8) :
    convSurf known (recOf cats s) = .ok (expSurf known cats s) := by
  obtain ⟨ea, isStop, curv, thick, conic, glass, coeffs⟩ := s
  cases ea
  · cases glass <;> simp [convSurf, recOf, expSurf]
  · obtain ⟨a0, a1, a2, a3, a4, a5, a6, a7, rfl⟩ := length_eq_eight coeffs (h rfl)
    cases glass <;> simp [convSurf, recOf, expSurf, coeffsOf_enum]

theorem convSurfs_recOf [Num ν] (known : String → Option String → Bool) (cats : List String)
    (l : List (ZPSurf ν)) (h : ∀ s ∈ l, s.evenAsph = true → s.coeffs.length = 8) :
    convSurfs known (l.map (recOf cats)) = .ok (l.map (expSurf known cats)) := by
  induction l with
  | nil => rfl
  | cons a l ih =>
    simp only [List.map_cons, convSurfs]
    rw [convSurf_recOf known cats a (h a (List.mem_cons_self ..)),
      ih (fun s hs => h s (List.mem_cons_of_mem _ hs))]

/-! ### primary wavelength (`WavelengthGroup.add_wavelength`) -/

theorem addWave_length (flags : List Bool) (b : Bool) : (addWave flags b).length = flags.length + 1 := by
  unfold addWave; split <;> simp

theorem addWaves_length (pw : Int) (flags : List Bool) (idx n : Nat) :
    (addWaves pw flags idx n).length = flags.length + n := by
  induction n generalizing flags idx with
  | zero => rfl
  | succ n ih => simp only [addWaves, ih, addWave_length]; omega

theorem addWaves_add (pw : Int) (flags : List Bool) (idx a b : Nat) :
    addWaves pw flags idx (a + b) = addWaves pw (addWaves pw flags idx a) (idx + a) b := by
  induction a generalizing flags idx with
  | zero => simp [addWaves]
  | succ a ih =>
    have : a + 1 + b = (a + b) + 1 := by omega
    rw [this]
    simp only [addWaves, ih]
    congr 1
    omega

theorem addWaves_after (k : Nat) (flags : List Bool) (hne : flags ≠ []) (idx m : Nat) (hk : k < idx) :
    addWaves (k : Int) flags idx m = flags ++ List.replicate m false := by
  induction m generalizing flags idx with
  | zero => simp [addWaves]
  | succ m ih =>
    have hd : decide ((idx : Int) = (k : Int)) = false := by
      simp only [decide_eq_false_iff_not]; omega
    have hlen : flags.length ≠ 0 := by
      intro h; exact hne (List.length_eq_zero_iff.mp h)
    have hstep : addWave flags false = flags ++ [false] := by
      simp [addWave, hlen]
    simp only [addWaves, hd, hstep]
    rw [ih _ (by simp) _ (by omega)]
    simp [List.replicate_succ]

theorem primaryIndex_replicate (k : Nat) (r : List Bool) :
    primaryIndex (List.replicate k false ++ true :: r) = some k := by
  induction k with
  | zero => simp [primaryIndex]
  | succ k ih => simp [List.replicate_succ, primaryIndex, ih]

/-- the wavelength with the written primary number ends up as the only primary one -/
theorem primary_read (k n : Nat) (h : k < n) :
    primaryIndex (addWaves (k : Int) [] 0 n) = some k := by
  obtain ⟨m, rfl⟩ : ∃ m, n = k + (1 + m) := ⟨n - k - 1, by omega⟩
  rw [addWaves_add, addWaves_add]
  generalize hf : addWaves (k : Int) [] 0 k = fl
  have hl : fl.length = k := by rw [← hf, addWaves_length]; simp
  have hstep : addWaves (k : Int) fl (0 + k) 1 = List.replicate k false ++ [true] := by
    simp only [addWaves, Nat.zero_add, decide_true, addWave, if_true, List.length_map]
    rw [List.map_const', hl]
    simp
  rw [hstep, addWaves_after k _ (by simp) _ _ (by omega)]
  simp only [List.append_assoc, List.cons_append, List.nil_append]
  exact primaryIndex_replicate k _

/-! ### the round trip -/

/-- well-formed prescription: at least one field point, the primary number names one of the
wavelengths, every EVENASPH surface carries its eight `PARM` lines -/
structure WF (p : ZPresc ν) : Prop where
  fields_ne : p.fields ≠ []
  primary_lt : p.primary < p.waves.length
  asph : ∀ s ∈ p.obj :: p.surfs, s.evenAsph = true → s.coeffs.length = 8

/-- what the reader holds after a well-formed file: the header data and one record per written
surface; the image block stays unflushed -/
theorem zparse_printZmx (p : ZPresc ν) :
    zparse (printZmx p) =
      { cur := some (recOf (p.gcat.getD []) p.img),
        done := (p.obj :: p.surfs).map (recOf (p.gcat.getD [])),
        ap := [(p.apKind.key, some p.apValue)], gcat := p.gcat, ftype := some p.fieldType,
        tele := some p.tele, nf := some p.fields.length, nw := some p.waves.length,
        xs := some (p.fields.map fun f => f.1), ys := some (p.fields.map fun f => f.2),
        waves := p.waves, pw := some p.primary } := by
  have hb : blocks p = (p.obj :: p.surfs) ++ [p.img] := by simp [blocks]
  simp only [zparse, printZmx, List.foldl_append, foldl_header, hb]
  rw [foldl_blocks]
  simp

/-- **parse ∘ print**: loading the file written for a well-formed prescription yields exactly the
lens that prescription describes -/
theorem parse_print [Num ν] [BEq ν] (known : String → Option String → Bool) (p : ZPresc ν) (wf : WF p) :
    zload known (printZmx p) = .ok (expected known p) := by
  have hd : (dedup p.fields).isEmpty = false := by
    have := dedup_ne_nil p.fields wf.fields_ne
    cases h : dedup p.fields with
    | nil => exact absurd h this
    | cons a l => rfl
  have hs := convSurfs_recOf known (p.gcat.getD []) (p.obj :: p.surfs) wf.asph
  have hp := primary_read p.primary p.waves.length wf.primary_lt
  simp only [List.map_cons] at hs
  simp only [zload, zread, zparse_printZmx, zfinish, zip_fst_snd, hd, convert, expected]
  cases p.apKind <;> simp [ApKind.key, hs, hp]

/-- `_spec` variant (finding F-C20-1): a reader that also keeps the block open at the end of the file
returns every written surface, the image surface with its written curvature and conic included -/
theorem parse_print_spec [Num ν] [BEq ν] (known : String → Option String → Bool) (p : ZPresc ν) (wf : WF p)
    (wfi : p.img.evenAsph = true → p.img.coeffs.length = 8) :
    zloadSpec known (printZmx p) = .ok (expectedSpec known p) := by
  have hd : (dedup p.fields).isEmpty = false := by
    have := dedup_ne_nil p.fields wf.fields_ne
    cases h : dedup p.fields with
    | nil => exact absurd h this
    | cons a l => rfl
  have hs := convSurfs_recOf known (p.gcat.getD []) (blocks p) (by
    intro s hs
    simp only [blocks, List.mem_cons, List.mem_append, List.mem_nil_iff, or_false] at hs
    rcases hs with rfl | hs | rfl
    · exact wf.asph _ (List.mem_cons_self ..)
    · exact wf.asph _ (List.mem_cons_of_mem _ hs)
    · exact wfi)
  have hp := primary_read p.primary p.waves.length wf.primary_lt
  simp only [blocks, List.map_cons, List.map_append, List.map_nil] at hs
  simp only [zloadSpec, zread, zparse_printZmx, zfinish, zip_fst_snd, hd, convertSpec, convert,
    expectedSpec, expected]
  cases p.apKind <;> simp [ApKind.key, hp, hs, blocks]

/-- the same with lines the reader does not dispatch inserted anywhere -/
theorem parse_print_noise [Num ν] [BEq ν] (known : String → Option String → Bool) (p : ZPresc ν)
    (wf : WF p) (ls : List (ZLine ν)) (h : ls.filter (fun l => !l.isOther) = printZmx p) :
    zload known ls = .ok (expected known p) := by
  have : zparse ls = zparse (printZmx p) := by rw [← h, unknown_lines_ignored]
  have h2 := parse_print known p wf
  simp only [zload, zread] at h2 ⊢
  rw [this]; exact h2

/-! ### the order of the attribute lines inside a surface block does not matter -/

/-- which attribute of `_current_surf_data` a line writes (`none`: not a per-surface attribute line) -/
def attrKind : ZLine ν → Option Nat
  | .stop => some 0
  | .stype _ => some 1
  | .curv _ => some 2
  | .disz _ => some 3
  | .coni _ => some 4
  | .glas .. => some 5
  | .glasShort _ => some 5
  | .parm .. => some 6
  | _ => none

/-- two attribute lines that write different attributes commute -/
theorem zstep_comm (st : ZState ν) (a b : ZLine ν) (i j : Nat) (ha : attrKind a = some i)
    (hb : attrKind b = some j) (hij : i ≠ j) : zstep (zstep st a) b = zstep (zstep st b) a := by
  obtain ⟨cur, done, ap, gcat, ftype, tele, nf, nw, xs, ys, waves, pw, err, unm⟩ := st
  cases cur <;> cases a <;> simp only [attrKind, reduceCtorEq, Option.some.injEq] at ha <;>
    cases b <;> simp only [attrKind, reduceCtorEq, Option.some.injEq] at hb <;>
    first
      | (exfalso; omega)
      | rfl

/-- `l'` arises from `l` by exchanging, any number of times, two adjacent attribute lines that write
different attributes (e.g. `CONI` before `GLAS`, `DISZ` before the `PARM` lines, `STOP` after `TYPE`) -/
inductive Reorder : List (ZLine ν) → List (ZLine ν) → Prop
  | refl (l : List (ZLine ν)) : Reorder l l
  | swap (pre post : List (ZLine ν)) (a b : ZLine ν) (i j : Nat) (ha : attrKind a = some i)
      (hb : attrKind b = some j) (hij : i ≠ j) : Reorder (pre ++ a :: b :: post) (pre ++ b :: a :: post)
  | trans {l1 l2 l3 : List (ZLine ν)} : Reorder l1 l2 → Reorder l2 l3 → Reorder l1 l3

theorem zparse_reorder {l l' : List (ZLine ν)} (h : Reorder l l') : zparse l = zparse l' := by
  induction h with
  | refl => rfl
  | swap pre post a b i j ha hb hij =>
    simp only [zparse, List.foldl_append, List.foldl_cons]
    rw [zstep_comm _ a b i j ha hb hij]
  | trans _ _ ih1 ih2 => exact ih1.trans ih2

/-- **parse ∘ print for every line order inside the surface blocks**: a file whose dispatched lines are the
lines of `printZmx p` with attribute lines of different kinds exchanged inside the blocks (and with
undispatched lines anywhere) loads as the same lens.  (The relative order of the `PARM` lines among
themselves, of the header lines, and of the blocks is still that of `printZmx`.) -/
theorem parse_print_reordered [Num ν] [BEq ν] (known : String → Option String → Bool) (p : ZPresc ν)
    (wf : WF p) (ls : List (ZLine ν)) (h : Reorder (printZmx p) (ls.filter (fun l => !l.isOther))) :
    zload known ls = .ok (expected known p) := by
  have e : zparse ls = zparse (printZmx p) := by
    rw [← unknown_lines_ignored ls, ← zparse_reorder h]
  have h2 := parse_print known p wf
  simp only [zload, zread] at h2 ⊢
  rw [e]; exact h2

/-! ### itemised clauses of the property (corollaries of `parse_print`)

Each clause is stated about the lens `o` that `load_zemax_file` returns for the written file
(`zload known (printZmx p) = .ok o`), not about the specification function `expected` (the
`expected_*` lemmas, which only unfold that definition, are kept as helpers). -/

/-- the loaded lens is the expected one (the form in which the corollaries use `parse_print`) -/
theorem loaded_eq [Num ν] [BEq ν] (known : String → Option String → Bool) (p : ZPresc ν) (wf : WF p)
    (o : OPresc ν) (h : zload known (printZmx p) = .ok o) : o = expected known p := by
  rw [parse_print known p wf] at h
  exact (Except.ok.inj h).symm

theorem expected_surface_count [Num ν] [BEq ν] (known : String → Option String → Bool) (p : ZPresc ν) :
    (expected known p).surfs.length = p.surfs.length + 1 := by
  simp [expected]

/-- surface count: one surface per written block except the image block, which the converter
replaces by its default image surface -/
theorem surface_count [Num ν] [BEq ν] (known : String → Option String → Bool) (p : ZPresc ν) (wf : WF p)
    (o : OPresc ν) (h : zload known (printZmx p) = .ok o) : o.surfs.length = p.surfs.length + 1 := by
  rw [loaded_eq known p wf o h]; exact expected_surface_count known p

theorem expected_surface_data [Num ν] [BEq ν] (known : String → Option String → Bool) (p : ZPresc ν) (i : Nat)
    (s : ZPSurf ν) (h : (p.obj :: p.surfs)[i]? = some s) :
    (expected known p).surfs[i]? =
      some { evenAsph := s.evenAsph, radius := radiusOf s.curv, conic := s.conic.getD 0,
             thick := thickOf s.thick, isStop := s.isStop,
             medium := match s.glass with
               | none => .air
               | some g => resolveGlass known g.1 (p.gcat.getD []) g.2.1 g.2.2,
             coeffs := if s.evenAsph then some s.coeffs else none } := by
  simp only [expected, List.getElem?_map, h, Option.map_some, expSurf]
  rfl

/-- radius (from the written curvature, `0 → inf`), thickness (`INFINITY → inf`), conic (default 0),
coefficients (all eight, `PARM n` at index `n-1`), stop flag and medium of the `i`-th surface of the
loaded lens are those written in the `i`-th block -/
theorem surface_data [Num ν] [BEq ν] (known : String → Option String → Bool) (p : ZPresc ν) (wf : WF p)
    (o : OPresc ν) (hl : zload known (printZmx p) = .ok o) (i : Nat)
    (s : ZPSurf ν) (h : (p.obj :: p.surfs)[i]? = some s) :
    o.surfs[i]? =
      some { evenAsph := s.evenAsph, radius := radiusOf s.curv, conic := s.conic.getD 0,
             thick := thickOf s.thick, isStop := s.isStop,
             medium := match s.glass with
               | none => .air
               | some g => resolveGlass known g.1 (p.gcat.getD []) g.2.1 g.2.2,
             coeffs := if s.evenAsph then some s.coeffs else none } := by
  rw [loaded_eq known p wf o hl]; exact expected_surface_data known p i s h

theorem lastStopFrom_none (i m : Nat) : lastStopFrom i (List.replicate m false) = none := by
  induction m generalizing i with
  | zero => rfl
  | succ m ih => simp [List.replicate_succ, lastStopFrom, ih]

theorem lastStopFrom_unique (i a b : Nat) :
    lastStopFrom i (List.replicate a false ++ true :: List.replicate b false) = some (i + a) := by
  induction a generalizing i with
  | zero => simp [lastStopFrom, lastStopFrom_none]
  | succ a ih =>
    simp only [List.replicate_succ, List.cons_append, lastStopFrom, ih]
    congr 1; omega

/-- stop surface: when exactly one optical surface (number `a+1`) carries `STOP`, that surface is
the stop of the loaded lens (whatever the object block says) -/
theorem stop_index_unique (o : Bool) (a b : Nat) :
    stopIndex (o :: (List.replicate a false ++ true :: List.replicate b false)) = some (a + 1) := by
  simp only [stopIndex, lastStopFrom_unique]
  congr 1; omega

/-- stop surface of the loaded lens: when exactly one optical surface of the file (number `a+1`)
carries `STOP`, `stopIndex` of the `is_stop` flags of the `add_surface` calls (what the driver compares
with `surface_group.stop_index`) is that surface, whatever the object block says -/
theorem stop_index_read [Num ν] [BEq ν] (known : String → Option String → Bool) (p : ZPresc ν) (wf : WF p)
    (o : OPresc ν) (h : zload known (printZmx p) = .ok o) (a b : Nat)
    (hs : p.surfs.map (fun s => s.isStop) = List.replicate a false ++ true :: List.replicate b false) :
    stopIndex (o.surfs.map fun s => s.isStop) = some (a + 1) := by
  rw [loaded_eq known p wf o h]
  have : (expected known p).surfs.map (fun s => s.isStop) = p.obj.isStop :: p.surfs.map (fun s => s.isStop) := by
    simp [expected, expSurf, List.map_map, Function.comp_def]
  rw [this, hs]
  exact stop_index_unique _ a b

/-- aperture type and value of the loaded lens -/
theorem aperture_read [Num ν] [BEq ν] (known : String → Option String → Bool) (p : ZPresc ν) (wf : WF p)
    (o : OPresc ν) (h : zload known (printZmx p) = .ok o) :
    o.apKey = p.apKind.key ∧ o.apValue = p.apValue := by
  rw [loaded_eq known p wf o h]; exact ⟨rfl, rfl⟩

/-- field type, wavelengths (the first `num_wavelengths` slots, in order) and primary index of the
loaded lens -/
theorem wavelengths_read [Num ν] [BEq ν] (known : String → Option String → Bool) (p : ZPresc ν) (wf : WF p)
    (o : OPresc ν) (h : zload known (printZmx p) = .ok o) :
    o.fieldType = p.fieldType ∧ o.waves = p.waves ∧ o.primary = some p.primary := by
  rw [loaded_eq known p wf o h]; exact ⟨rfl, rfl, rfl⟩

theorem mem_dedup [BEq ν] [LawfulBEq ν] (l : List (ν × ν)) (x : ν × ν) : x ∈ dedup l ↔ x ∈ l := by
  induction l with
  | nil => simp [dedup]
  | cons a l ih =>
    simp only [dedup, List.mem_cons, List.mem_filter, ih, Bool.not_eq_true', beq_eq_false_iff_ne]
    by_cases h : x = a <;> simp [h]

theorem nodup_dedup [BEq ν] [LawfulBEq ν] (l : List (ν × ν)) : (dedup l).Nodup := by
  induction l with
  | nil => simp [dedup]
  | cons a l ih =>
    simp only [dedup, List.nodup_cons, List.mem_filter, Bool.not_eq_true', beq_eq_false_iff_ne]
    exact ⟨fun h => h.2 rfl, List.Pairwise.filter _ ih⟩

/-- the field points of `expected p` are, as a set, exactly the written ones (`LawfulBEq`: `==` of the
carrier is equality, i.e. no NaN among the written values; for the loaded lens see `fields_read`) -/
theorem fields_mem [Num ν] [BEq ν] [LawfulBEq ν] (known : String → Option String → Bool) (p : ZPresc ν)
    (f : ν × ν) : f ∈ (expected known p).fields ↔ f ∈ p.fields := by
  simp only [expected, sortY, List.mem_mergeSort, mem_dedup]

/-- … without repetitions -/
theorem fields_nodup [Num ν] [BEq ν] [LawfulBEq ν] (known : String → Option String → Bool) (p : ZPresc ν) :
    (expected known p).fields.Nodup := by
  simp only [expected, sortY]
  exact (List.mergeSort_perm _ _).symm.nodup (nodup_dedup _)

/-- … in non-decreasing order of y, provided `<` of the carrier is a strict weak order on the written
values (true for floats without NaN) -/
theorem fields_sorted [Num ν] [BEq ν] (known : String → Option String → Bool) (p : ZPresc ν)
    (trans : ∀ a b c : ν, Num.lt b a = false → Num.lt c b = false → Num.lt c a = false)
    (asymm : ∀ a b : ν, Num.lt b a = false ∨ Num.lt a b = false) :
    (expected known p).fields.Pairwise (fun a b => Num.lt b.2 a.2 = false) := by
  simp only [expected, sortY]
  have := List.pairwise_mergeSort (le := fun (a b : ν × ν) => !(Num.lt b.2 a.2))
    (fun a b c h1 h2 => by
      simp only [Bool.not_eq_eq_eq_not, Bool.not_true] at h1 h2 ⊢
      exact trans _ _ _ h1 h2)
    (fun a b => by
      rcases asymm a.2 b.2 with h | h <;> simp [h])
    (dedup p.fields)
  exact this.imp (fun h => by simpa using h)

/-- a file that lists distinct field points already in non-decreasing order of y gets them back
unchanged, in order -/
theorem fields_exact [Num ν] [BEq ν] [LawfulBEq ν] (known : String → Option String → Bool) (p : ZPresc ν)
    (nd : p.fields.Nodup) (sorted : p.fields.Pairwise (fun a b => Num.lt b.2 a.2 = false)) :
    (expected known p).fields = p.fields := by
  have hd : dedup p.fields = p.fields := by
    generalize p.fields = l at nd
    induction l with
    | nil => rfl
    | cons a l ih =>
      rw [List.nodup_cons] at nd
      simp only [dedup, ih nd.2]
      congr 1
      rw [List.filter_eq_self]
      intro b hb
      simp only [Bool.not_eq_true', beq_eq_false_iff_ne]
      rintro rfl; exact nd.1 hb
  simp only [expected, sortY, hd]
  exact List.mergeSort_of_pairwise (sorted.imp (fun h => by simp [h]))

/-- the field clauses for the lens `load_zemax_file` returns: the written points as a set, without
repetition, sorted by y; and unchanged when the file lists distinct points in non-decreasing order of y -/
theorem fields_read [Num ν] [BEq ν] [LawfulBEq ν] (known : String → Option String → Bool) (p : ZPresc ν)
    (wf : WF p) (o : OPresc ν) (h : zload known (printZmx p) = .ok o) :
    (∀ f, f ∈ o.fields ↔ f ∈ p.fields) ∧ o.fields.Nodup ∧
    ((∀ a b c : ν, Num.lt b a = false → Num.lt c b = false → Num.lt c a = false) →
      (∀ a b : ν, Num.lt b a = false ∨ Num.lt a b = false) →
      o.fields.Pairwise (fun a b => Num.lt b.2 a.2 = false)) ∧
    (p.fields.Nodup → p.fields.Pairwise (fun a b => Num.lt b.2 a.2 = false) → o.fields = p.fields) := by
  rw [loaded_eq known p wf o h]
  exact ⟨fields_mem known p, fields_nodup known p, fields_sorted known p, fields_exact known p⟩

/-! ### non-vacuity: a concrete well-formed prescription over `Float` -/

/-- singlet, EVENASPH front surface with stop, model glass, three fields (one repeated, unsorted),
three wavelengths with the second primary -/
def demo : ZPresc Float :=
  { gcat := some ["SCHOTT"], apKind := .epd, apValue := 10.0, fieldType := 0, tele := false
    fields := [(0.0, 5.0), (0.0, 0.0), (0.0, 5.0)], xpad := [0.0], ypad := [0.0]
    waves := [0.4861, 0.5876, 0.6563], wpad := [0.55], primary := 1
    obj := ⟨false, false, 0.0, none, none, none, []⟩
    surfs := [⟨true, true, 0.02, some 4.0, some (-1.0), some ("ZQX1", 1.5, 60.0),
               [0.0, 1e-5, 0.0, 0.0, 0.0, 0.0, 0.0, 0.0]⟩,
              ⟨false, false, 0.0, some 95.0, none, none, []⟩]
    img := ⟨false, false, 0.0, some 0.0, none, none, []⟩ }

theorem demo_wf : WF demo := ⟨by simp [demo], by simp [demo], by simp [demo]⟩

example : WF demo := demo_wf

/-- the round trip and the stop clause instantiated at `demo` (the file has the stop on surface 1) -/
example (known : String → Option String → Bool) :
    zload known (printZmx demo) = .ok (expected known demo) ∧
    stopIndex ((expected known demo).surfs.map fun s => s.isStop) = some 1 :=
  ⟨parse_print known demo demo_wf,
   stop_index_read known demo demo_wf _ (parse_print known demo demo_wf) 0 1 rfl⟩

/-- non-vacuity: the file of `demo` with `CONI` written before `GLAS` on surface 1 -/
example : ∃ ls : List (ZLine Float), ls ≠ printZmx demo ∧ Reorder (printZmx demo) ls := by
  let pre : List (ZLine Float) := header demo ++ printSurf demo.obj ++
    [.surf, .stop, .stype .evenAsph, .curv 0.02] ++
    parmLines 0 [0.0, 1e-5, 0.0, 0.0, 0.0, 0.0, 0.0, 0.0] ++ [.disz (some 4.0)]
  let post : List (ZLine Float) := printSurf ⟨false, false, 0.0, some 95.0, none, none, []⟩ ++ printSurf demo.img
  have e : printZmx demo = pre ++ .glas "ZQX1" 1.5 60.0 :: .coni (-1.0) :: post := by
    simp [printZmx, blocks, demo, printSurf, pre, post, header, parmLines]
  refine ⟨pre ++ .coni (-1.0) :: .glas "ZQX1" 1.5 60.0 :: post, ?_, ?_⟩
  · rw [e]
    intro h
    have := List.append_cancel_left h
    simp at this
  · rw [e]
    exact .swap pre post _ _ 5 4 rfl rfl (by decide)

end C20
