#!/bin/bash
# tools/build_corpus.sh [seed ids...]: for every stored seeded change, take the failing case the property's check
# records on the changed tree and keep it as corpus/<P>/<id>.json, provided that replaying it alone reports the
# violation on the changed tree and passes on /repo.  The corpus runs first in every check, whatever the seed.
cd "$(dirname "$0")/.."
IDS=${@:-$(ls seeded | grep -E '^C[0-9]+-[0-9]+$')}
mkdir -p /tmp/vs
for id in $IDS; do
  P=${id%-*}; D=seeded/$id; WT=/tmp/vs/bc_$id
  rm -rf $WT; git -C /repo worktree prune; git -C /repo worktree add -q $WT HEAD || exit 2
  git -C $WT apply /verif/$D/patch.diff || { echo "$id patch-does-not-apply"; git -C /repo worktree remove --force $WT; continue; }
  rp=$(OPTILAND_REPO=$WT ./check $P 2>&1 | grep -E "^VIOLATION" | grep -v "/corpus/" | head -1 | sed -E 's/.*replay=([^ ]+).*/\1/')
  if [ -z "$rp" ]; then
    if OPTILAND_REPO=$WT ./check $P 2>&1 | grep -q "^VIOLATION.*corpus/"; then echo "$id already-in-corpus"; else echo "$id NOT-REPORTED"; fi
    git -C /repo worktree remove --force $WT; continue
  fi
  kind=$(python3 -c "import json,sys; print(json.load(open('$rp')).get('kind'))")
  if [ "$kind" != "failing-input" ]; then echo "$id no-failing-input ($kind)"; git -C /repo worktree remove --force $WT; continue; fi
  OPTILAND_REPO=$WT ./check $P --replay $rp > /tmp/vs/bc_$id.mut 2>&1; m=$?
  ./check $P --replay $rp > /tmp/vs/bc_$id.clean 2>&1; c=$?
  if [ $m = 1 ] && [ $c = 0 ]; then
    mkdir -p corpus/$P
    python3 - "$rp" "corpus/$P/$id.json" "$id" <<'PY'
import json,sys
d=json.load(open(sys.argv[1]))
out={'origin':'seeded change '+sys.argv[3]+' (seeded/'+sys.argv[3]+'/patch.diff)','property':d['property'],'failure':{'clause':d['failure'].get('clause'),'case':d['failure']['case']}}
json.dump(out,open(sys.argv[2],'w'),indent=1)
PY
    echo "$id corpus-case-added (replay on changed tree=1, on /repo=0)"
  else
    echo "$id replay-not-usable (changed tree exit=$m, /repo exit=$c)"
  fi
  git -C /repo worktree remove --force $WT
done
