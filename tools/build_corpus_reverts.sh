#!/bin/bash
# tools/build_corpus_reverts.sh [finding ids...]: like build_corpus.sh, for the repaired defects: the tree with the fix
# commit(s) reverted plays the role of the changed tree; the failing case the check records there is kept as
# corpus/<P>/revert-<id>.json if replaying it alone fails on the reverted tree and passes on /repo.
cd "$(dirname "$0")/.."
mkdir -p /tmp/vs
python3 - "$@" <<'PY' > /tmp/vs/revert_list2.txt
import json,sys
want=set(sys.argv[1:])
for k in json.load(open('known_findings.json'))['findings']:
    if k.get('status')=='fixed' and k.get('commit') and (not want or k['id'] in want):
        print(k['id'], k['property'], k['commit'].replace(' ','').replace('+',','))
PY
while read id P commits; do
  WT=/tmp/vs/bcr_${id}_$P
  [ -f corpus/$P/revert-$id.json ] && { echo "$id $P already-in-corpus"; continue; }
  rm -rf $WT; git -C /repo worktree prune; git -C /repo worktree add -q $WT HEAD || exit 2
  ok=1
  if [ -f seeded/reverts/$id.diff ]; then git -C $WT apply /verif/seeded/reverts/$id.diff || ok=0
  else for c in $(echo $commits | tr ',' '\n' | tac); do git -C $WT revert -n $c > /dev/null 2>&1 || ok=0; done; fi
  if [ $ok = 0 ]; then echo "$id $P revert-conflict"; git -C /repo worktree remove --force $WT; continue; fi
  rp=$(OPTILAND_REPO=$WT ./check $P 2>&1 | grep -E "^VIOLATION" | grep -v "/corpus/" | head -1 | sed -E 's/.*replay=([^ ]+).*/\1/')
  if [ -z "$rp" ]; then echo "$id $P no-fresh-violation (corpus already reports it, or not reported)"; git -C /repo worktree remove --force $WT; continue; fi
  kind=$(python3 -c "import json; print(json.load(open('$rp')).get('kind'))")
  if [ "$kind" != "failing-input" ]; then echo "$id $P no-failing-input ($kind)"; git -C /repo worktree remove --force $WT; continue; fi
  OPTILAND_REPO=$WT ./check $P --replay $rp > /dev/null 2>&1; m=$?
  ./check $P --replay $rp > /dev/null 2>&1; c=$?
  if [ $m = 1 ] && [ $c = 0 ]; then
    mkdir -p corpus/$P
    python3 - "$rp" "corpus/$P/revert-$id.json" "$id" "$commits" <<'PY'
import json,sys
d=json.load(open(sys.argv[1]))
out={'origin':'repaired defect '+sys.argv[3]+' (fix '+sys.argv[4]+' reverted)','property':d['property'],'failure':{'clause':d['failure'].get('clause'),'case':d['failure']['case']}}
json.dump(out,open(sys.argv[2],'w'),indent=1)
PY
    echo "$id $P corpus-case-added"
  else echo "$id $P replay-not-usable (reverted tree exit=$m, /repo exit=$c)"; fi
  git -C /repo worktree remove --force $WT
done < /tmp/vs/revert_list2.txt
