#!/usr/bin/env python3
"""tools/gen_design_section.py: regenerate DESIGN.md sections 11.3 onward (tables of repairs, open findings, seeded
changes, corpus) from known_findings.json, seeded/*/meta.json and corpus/; the prose of those sections lives here."""
import json, glob, re, os

V = os.path.dirname(os.path.dirname(os.path.abspath(__file__)))
D = os.path.join(V, 'DESIGN.md')
s = open(D).read()
head = s[:s.index('### 11.3 Repairs committed to /repo')]

k = json.load(open(os.path.join(V, 'known_findings.json')))['findings']
fixed = [e for e in k if e['status'] == 'fixed']
openf = [e for e in k if e['status'] == 'open']


def short(t, n=200):
    t = t.replace('|', '/').replace('\n', ' ')
    return t if len(t) <= n else t[:n].rsplit(' ', 1)[0] + ' …'


rows = '\n'.join('| %s | %s | %s | %s |' % (e['id'], e['property'], e.get('commit', ''), short(e['what'])) for e in fixed)
orows = '\n'.join('* **%s** (%s) %s' % (e['id'], e['property'], short(e['what'], 420)) for e in openf)

seedrows, n_first, n_later = [], 0, 0
for d in sorted(glob.glob(os.path.join(V, 'seeded', 'C*-*', ''))):
    m = json.load(open(d + 'meta.json'))
    title = open(d + 'notes.md').read().strip().split('\n')[0].lstrip('# ').strip()
    title = re.sub(r'^C\d\d\s*/?\s*[Cc]hange \d\s*[—:-]*\s*', '', title)
    how = m['how_detected']
    missed = any(w in how.lower() for w in ('missed', 'first seen only', 'caught after', 'first run crashed'))
    n_later += missed
    n_first += (not missed)
    corp = os.path.exists(os.path.join(V, 'corpus', m['breaks_property'], m['id'] + '.json'))
    seedrows.append('| %s | %s | %s | %s | %s | %s |' % (
        m['id'], ', '.join(m['files_touched']).replace('optiland/', ''), short(title, 110), ', '.join(m['caught_by']),
        'after strengthening' if missed else 'as built', 'yes' if corp else '-'))
seedrows = '\n'.join(seedrows)
ncorp = len(glob.glob(os.path.join(V, 'corpus', '*', '*.json')))
nseeds = n_first + n_later

nthm = 0
per = {}
for f in sorted(glob.glob(os.path.join(V, 'lean', 'OptiModel', 'Props', 'C*.lean'))):
    src = re.sub(r'/-.*?-/', '', open(f).read(), flags=re.S)
    per[os.path.basename(f)[:-5]] = len(re.findall(r'^\s*(?:private\s+|protected\s+)?theorem\s', src, flags=re.M))
nthm = sum(per.values())
percounts = ', '.join('%s %d' % kv for kv in sorted(per.items()))
revert = ''
rp = os.path.join(V, 'seeded', 'REVERT_RESULTS.md')
if os.path.exists(rp):
    t = open(rp).read()
    revert = '%d of %d reverts reported (see `seeded/REVERT_RESULTS.md`).' % (t.count(' REPORTED'), t.count(' REPORTED') + t.count(' SILENT') + t.count('revert-conflict'))

new = f'''### 11.3 Repairs committed to /repo (`fix:` commits; the unedited suite, 929 tests, passes after each)

Every row is one finding of `known_findings.json` with status `fixed` (a fixed entry suppresses nothing: the check
passes on the repaired tree without a KNOWN-FINDING line and reports the violation again if the behaviour returns —
exercised by `tools/revert_mutants.sh`, §11.7).  Follow-up commits: 9077365 (EPD/FNO keep the magnitude of `f2`,
belongs to F8) and d0cd45c (a reloaded `ImageSurface` keeps the medium saved behind it, belongs to F-C19-5).
F-C04-1 was found by a *proof*: `magnification_def` could only be proved with a factor (−1)^#mirrors; the
counterexample (`mirrorDemo`, concave mirror imaging its centre of curvature) was replayed on the real code.

| id | property | commit | what failed on the pinned tree |
|----|----|----|----|
{rows}

### 11.4 Findings recorded, not repaired (`known_findings.json`, status `open`)

Each is identified by a classifier in the property's harness (`finding_key=`): a failure that the classifier does not
recognise is a VIOLATION even when an open finding exists for the same property.  Why they are not repaired: pinned
by an existing test (F21, F-C08-1, F-C08-2, F16/C18, F-C17-1), not small (F15, F20, F22, F22b, F23 — a numerically
stable quadratic changes Hubble golden values in `tests/test_operand.py`, as a seeding sub-agent found independently —,
F-C15-1, F-C14-1…5, F-C17-3), or a choice between two defensible conventions that a maintainer has to make (F24,
F-C12-1, F-C18-1).

{orows}
* Observation F25 (no property clause): with an infinite object the ray generator starts rays `EPD − min z` in front
  of the first surface and aims them at the entrance pupil; when the pupil lies *behind* that start plane the rays are
  launched backwards (`N < 0`).  C05 counts such lenses as out of domain.
* Observations made by proof work and replayed on the code, outside the stated domains: at exactly grazing incidence
  (`k·n = 0`) `refract` returns `(n1/n2)·k`, not a unit vector; a ray starting beyond the near sheet of a sphere is given
  the far-sheet point with the near-sheet normal; for a hyperboloid with R > 0 met from its focus with
  1/n < N ≤ 1/√n `selectRoot` prefers the phantom intersection with the other sheet (smaller |z|); the launch code's
  x-angle sign is opposite to its y-angle sign.

### 11.5 False alarms met while building, and what was corrected (the machinery, never the property)

* C04: my matrix specification used `|f2|/FNO` while the (repaired) code briefly used signed `f2` → repaired code keeps
  EPD/FNO positive; spec unchanged.  XPL special case `stop = last surface` disagrees with the matrix value only when
  the image is immersed (image surface refracts); the generator now ends lenses in air (documented: the factory makes the
  image surface an ordinary refracting plane).
* C02: the predicate treated "outside the sag domain / far sheet" rays as lost and then flagged "finite again"; fixed
  (those rays are out of domain, counted).  Large-aperture stream: negative edge thickness → backward intersections.
* C01: `set_asphere_coeff` on a non-asphere and conic pickups from a `Plane` raise `AttributeError` (invalid arguments):
  modelled as errors / history cut; solve clause restricted to launches that do not depend on the shifted surfaces
  (stop in front of the solved surface or infinite object with EPD), as §5 C01 planned.
* C05: jets are not defined where a Newton–Raphson surface is reached by a zero-length segment (Euclidean norm at 0):
  chief seed moved one unit in front of the first vertex.  Declared telecentric object space: the zero-pupil ray is
  parallel to the axis by definition (outside the quantifier).  "Small aperture" is relative to the lens: a nearly
  afocal lens with an F-number aperture has EPD = |f2|/FNO of metres, so the scale factors now start where the ray
  height is at most a quarter of the smallest radius (seed 2 of the quick tier had flagged such a lens).
* C06: generator limits apertures to where the rays exist on the sag sheet (ellipsoid footprint < 0.7 b, positive edge
  thickness of the plano-hyperbolic singlet, sphere footprint inside the hemisphere).
* C07: tilt/dummy/scale relations first compared `trace_generic` launches, which differ legitimately (pupil position
  depends on vertex positions / decentres); now identical explicit rays are launched.
* C14: `optimize() with valid arguments returns` flagged `differential_evolution` refusing an `x0` that sits *exactly*
  on a bound (its own normalisation rounds it to 1 + 2⁻⁵²): same input class as F-C14-5 (lens on a bound after a
  bounded run); the classifier now covers "exactly on the bound" (seeds 1 and 3 of the quick tier, `vp check` 2).
* C17 after the repair of F-C17-2: the model's exact test `|k0 × k1| = 0` became `< 1e-8` (`parTol`), the theorem
  hypotheses (`FrameOK.clear`) and the harness threshold followed the code.
* C19 after the repair of F-C19-5: reloaded `ImageSurface`s lost `material_post` (the check reported it; the repair
  d0cd45c followed).  The C19 generator no longer calls `set_index` on the surface in front of an `ImageSurface`
  (that call rewrites the image surface's own medium, an edit the model's prescription has no slot for).
* C20 after the repair of F-C20-1: the malformed-file stream put `TYPE TOROIDAL` into the image block, which the
  repaired reader (correctly) rejects; the variant now avoids the last block.
* Thorough tier, first full run (`vp run`, 20 checks): three alarms on the unchanged tree, all corrected in the
  machinery.  C02: rays of a degenerate large-aperture lens (EPD 56 on a convex mirror of radius 22, already clipped by
  an aperture) on a polynomial mirror — backward intersections (F22) whose back-walked point is itself unconverged,
  and unconverged iterates of the solver (recorded as F22b); both are now recognised by replaying the code's own
  iteration for the single ray with the independent sag (`nr_replay`).  C05: for a paraboloid with a tiny EPD the
  discrepancy *grows* as ε shrinks (rounding noise of F23): classified as F23b when the tail exceeds ten times the
  minimum.  C07: dummy-plane and scaling relations were asserted for rays far beyond |R|/2, where the root the code
  selects depends on the starting point; the relations are now asserted on the vertex sheets (footprint ≤ |R|/2), which
  is also the guard of the Lean theorem `dummy_surface_transparent`.
* C16 had recorded F16 (media without k table make tracing raise) although it treats an untraceable lens as outside
  its quantifier, so the reverted repair was silent; the entry was re-attributed to C02, which quantifies over all
  bundled sample designs and now reports a sample that cannot be traced.
* Seeds that stopped applying after repairs (C05-1, C07-1, C09-1/2, C11-2) were rebased (`patch_original.diff` is kept)
  and re-confirmed (demo 0/1, 929 tests, check).
* Runs against a scratch tree (`OPTILAND_REPO`) and replays used to overwrite `evidence/<id>.json`; they now write to
  `.scratch/evidence/` so that committed evidence always describes a full run against `/repo` itself.
* C15 thorough (after the round-6 additions changed the random stream): on a nearly afocal lens (f = 3.4e4 mm) under
  a marginal-ray solve the recorded `F2` operand was -7.5e-12 against 0 on the fresh lens — a difference of lengths
  of the size of the focal length, at rounding level.  The absolute tolerance of the row re-evaluation now scales
  with the largest operand magnitude of the row (1e-15 × scale).
* C14 thorough (same cause): (i) `scale`/`inverse_scale` of a radius variable (`v/100 - 1` and back) near the scaled
  value 0 differ from the identity by 6e-15 — the offset 1 costs an absolute 1e-14; the absolute tolerance of that
  clause is now 1e-13.  (ii) Powell on an unbounded air space left a lens with vertex positions of 3.6e5 mm and
  marginal slopes of 7e3; the solve predicate (shared with C01) demanded the requested height to 1e-7 mm and found
  4e-7 (the library's own marginal ray gives the same number).  The tolerance now includes the conditioning term
  64 eps (|u_in| max|z| + max|y|), negligible (1e-13) on ordinary lenses.
* Two quick checks that happened to build the Lean project at the same moment as a third process reported
  `theorems=0` (obligation broken): Lake has no build lock.  `core.lake_build` now takes an exclusive file lock
  (`lean/.build.lock`), so checks may run side by side, also on a tree where nothing is built yet.
* C14 (round-7 stream): `differential_evolution` wraps an exception of the objective in its own `RuntimeError`; the
  out-of-domain rule "a probe left the normalisation square of a Chebyshev surface" looked at the outer message only
  and the run was reported as "optimize() with valid arguments returns".  The rule now follows the exception chain.
* C07 thorough (round-7 stream): the tilt-about-the-centre-of-curvature comparison lacked the allowance for
  paraboloids elsewhere in the lens that the other transformations have (finding F23: the conic quadratic cancels for
  nearly axial rays); a paraboloid two surfaces behind the tilted sphere moved by 3e-7 mm.  Same allowance (1e-6) now.
* C14 thorough (round-7 stream): a coupled pickup/solve problem produced a nearly afocal meniscus whose image-distance
  solve put the image 1.8e7 mm away; the `F2` operand, a difference of vertex positions, then depends on the last bit
  of `z` and `_fun` returned values 8e-9 apart at the same point.  The two repeatability clauses carry the
  conditioning allowance `1e-14 max|z| w_max^2` (1e-12 on ordinary lenses).
* C09 thorough (round-7 stream): `image_solve()` on a mirror followed by a dummy asphere placed the image surface in
  front of that asphere along the ray, so the last segment is travelled backwards; the library counts it negative,
  the harness's geometric length positive (40 waves apart).  Samples with a backward segment are outside the
  predicate's domain now (the model comparison, which follows the code's signed distance, still covers them), and so
  are launches that leave the object towards -z (a stop behind a mirror whose entrance pupil lies behind the start
  plane: the rays then meet the far sheet of the mirror - the actual cause of the 40 waves).
* C19 thorough (round-7 addition): after `remove_surface(stop)` the lens has no stop surface; the real `from_dict`
  accepts its dictionary, the model's reader does not.  Histories that edit the surface list are outside the model
  (counted in the evidence); the predicates on the real code (dictionary equality, identical rays, later use) stay hard.
* C15 thorough (round-7 stream), clause (b): on a set-up whose uncompensated merit (3e-11) lies below the
  compensator's tolerance (1e-5) the recorded run left the compensator where it was and the re-run moved it by 6e-7;
  "as good as the re-run" now carries the optimiser's tolerance (`+ 10 tol`) like the other optimiser comparisons.
* C15 clause (c) (weighted compensation, added in round 7) raised two alarms while it was being built, both corrected
  before it was committed: a compensator with `tol = 1e-5` legitimately stops anywhere the merit changes by less than
  that (set-ups with weights now use `tol = 1e-10` and the threshold carries `10 tol`); and `LeastSquares` hands scipy
  the squared terms `(w d)^2` as residuals, i.e. minimises `sum (w d)^4`, whose minimiser is not the one of the
  weighted sum of squares.  A third alarm (quick, seed 1: rms-spot operands, the library's optimiser stalls at 25% of the
  uncompensated merit) showed that (c) demands more than C15 states — which optimum is reached is C14's subject —, so
  (c) is now an observation in the evidence, and "the same compensation" of clause (b) is set up by the harness directly
  on `CompensatorOptimizer` with the user's weights instead of through `Tolerancing.apply_compensators` (this is what
  reports C15-10).
* `hash(name)` seeded the rays of C06 (randomised per process): replaced by `zlib.crc32`.  C07 and C06 replays did not
  reproduce the recorded case (no work seed / configuration in the case): fixed, which the corpus builder exposed.

### 11.6 Seeded changes: which check catches which change

{nseeds} changes (rounds 1–3: two per property; round 4: two more per property with the instruction "no cache or
memoisation: one arithmetic / sign / index / branch slip on unusual inputs, one ordering / aliasing / in-place /
two-call interaction"; round 5: two more with the instruction "a code path ordinary use does not take: one through a
non-default argument / option / wrapper class, one triggered by an unusual but legitimate value or shape"; round 7: two more with the instruction "glue code, not formulas: argument and option handling, type and shape conversions, bookkeeping between objects, and one change that needs a COMBINATION of two features to manifest"; round 6: two more with the instruction "self-consistent errors: the library still agrees with itself, only an independent reference reveals the error — one shared constant / exponent / unit / sign / index base, one wrong choice among candidate values") were produced by fresh sub-agents that saw only the property text and a scratch worktree; each
was confirmed by me in another scratch worktree (patch applies, the demonstration exits 1 with the change and 0
without, 929 tests pass) and is kept as `seeded/<id>/` (`patch.diff`, `demo.py`, `notes.md`, `meta.json` with the
check's own output).  One change (C11-3) was discarded: its demonstration no longer fails on the repaired tree
(`seeded/discarded/`).  `tools/verify_seed.sh` confirms one new change, `tools/reverify_stored.sh` re-confirms all
stored ones against the current `/repo` HEAD.  {n_first} were reported by the property's quick check as built,
{n_later} only after the check was strengthened ("after strengthening"; what was missing and what was added is in
`meta.json/how_detected` and summarised below).  Column "corpus": the failing case recorded on the changed tree is
kept as `corpus/<P>/<id>.json` ({ncorp} cases) and runs first in every check, whatever the seed
(`tools/build_corpus.sh`; a case is accepted only if replaying it alone reports the violation on the changed tree and
passes on `/repo`).  The corpus also holds one case per repaired defect (`revert-<id>.json`, built by
`tools/build_corpus_reverts.sh` on the tree with the fix reverted).

| seed | file(s) | change | reported by | caught | corpus |
|----|----|----|----|----|----|
{seedrows}

What the misses had in common, and the generator / harness changes they led to (all kept):

* *State kept across calls* (C04-2, C05-2, C08-2, C10-1, C20-1, C06-1, C16-1): every lens used to be built once and
  queried once.  Now C04, C05 and C08 query, edit through the public setters (`set_index`, `set_radius`,
  `set_thickness`) and query again; C10 keeps several fit objects alive; C20 repeats a model-glass name with different
  `nd/Vd` inside one file; `lensgen` can reach a prescription through setters (`via_setters`, either order) or through
  `scale_system` (`post` operations) instead of the constructor.
* *Reading after drawing / a second public call* (C09-4, C11-4, C04-4, C03-4, C07-4, C06-4): OPD and PSF objects are
  now drawn (`view()`) before their numbers are read in part of the cases; paraxial linearity is also tested through the
  public `ParaxialRays` + `SurfaceGroup.trace` route with bundles sharing their position array; C03 changes the object
  distance through `set_thickness(d, 0)` before launching and locates the entrance pupil independently of
  `paraxial.EPL`; C07 rescales lenses that carry offset pickups and non-zero solves; C06 re-dimensions its systems.
* *Value classes the generator never produced*: mirrors inside glass (C04-1), non-square coefficient tables (C02-2),
  vignetted fields in the mirror-symmetry test (C07-2), grid sizes with a large prime factor (C11-2), every ring count
  up to 520 (C03-2), coefficient magnitudes far from 1 (C10-2), fields entered out of order (C13-2), limits that are
  exactly 0 (C14-2), seed 0 (C15-2), mirrors in the launch test (C03-3), a paraboloid met travelling towards −z
  (C06-3), image formed inside the last medium (C08-4), dispersive immersion media (C09-3), index variables on an
  immersed mirror (C14-4).
* *Round 5 (non-default routes, unusual values)*: edits through unscaled optimisation `Variable`s (C01-5), look-ups
  with the optional wavelength window (C18-5), analyses asked for a non-default pupil distribution — the comparison
  had taken the samples from the analysis object itself (C09-5) —, one call carrying rays of several field points
  (C13-6); field points below the axis (C03-6), polarization states with an exactly zero component (C17-6),
  index-matched cemented surfaces (C08-6), immersed objects (C04-5), a fold mirror behind the stop (C04-6), physical
  apertures that block rays in the Zernike-OPD and stigmatic-system stages (C10-5, C06-5), catalogue media in the
  closed-form singlet (C06-6), vignetted axial bundles (C05-5), a tilted flat image surface (C09-6), single-column
  polynomial tables (C19-6).  C15-5 was missed by seed 0 and reported by an extra seed of the source-drift
  escalation (§11.10).
* *Round 6 (self-consistent errors)*: 33 of the 40 changes were reported by the checks as they stood (7 after strengthening: C03-7, C06-7, C07-8, C10-7, C14-8, C15-8, C19-7), because every
  predicate compares with an independent reference (the Lean model run at `Float`, a separately traced ray, the data
  file) and none with a second route through the library; many re-made slips of earlier rounds and fell to corpus
  cases.  New value classes: the numerical aperture of an object immersed in glass (C03-7), the exact
  vignetting-interpolation predicate between field points (C03-8), odd PSF grid sizes in the stigmatic systems
  (C06-7), physical apertures on the image / object surface under `scale_system` (C07-8).  Missed at first: a
  least-squares run that meets a one-sided limit (C14-8; seed 0 had none that became active — now every second
  problem is also run with a single limit close to the start on either side), a sensitivity run on a `Tolerancing`
  object whose range samplers had been used before (C15-8; now 60% of the sensitivity set-ups are repeated after
  random `apply()`/`reset()` calls), pickups / solves addressing surfaces from the image with negative indices whose
  stored form only matters at the next `update()` (C19-7; negative indices are now generated and the original and
  every reloaded lens receive the same later edits + `update()` before their behaviour is compared again).
* *Round 7 (glue code and feature combinations)*: 28 of the 40 changes were reported as the checks stood, 10 after
  strengthening, 2 were discarded.  What the misses had in common: the harness and the library shared a piece of glue.
  The model of C02 was fed from the *built* lens, so a polynomial surface built without the decentre / tilt handed to
  `add_surface` agreed with itself (C02-10): the built lens is now first compared with its descriptor
  (`lensgen.construction_diffs`).  C15 compared a compensation with the library's own compensator, so dropped
  operand weights cancelled (C15-10): an independent scipy minimisation of the weighted sum of squares is now the
  reference.  Generators never produced: a gap of exactly 0 (C07-9), `add_field` before `set_field_type` (C09-10),
  the object distance as optimisation variable (C14-10), a pickup source as variable with a solve behind the target
  (C14-9; C01 caught the same change at once), edits of the surface list (`remove_surface`, `add_surface(index=k)`,
  C19-9).  C03-10 and C06-9 (integer-typed pupil coordinates) exposed a latent genuine defect instead:
  `RayGenerator.generate_rays(0, 1, 0, 1, w)` truncated positions through `np.full_like(Px, ...)`; it is repaired
  (F-C03-4, `/repo` 3db4a37), C03 now passes whole-number pupil coordinates as Python ints and integer arrays, and the
  two changes, which no longer alter any result, are kept under `seeded/discarded/` with the reason.  C16-9 (a pure
  obscuration, `r_max = inf`, no longer clips) was reported by the correspondence only, with `no-failing-input-found`:
  the predicate of C16 skipped every ray on such a surface as "on the aperture edge" (`|r^2 - inf| <= 1e-9 inf`), a
  blind spot of the harness, corrected.
* *Harness robustness*: C10-3 (a fit returning 36 instead of 37 coefficients) crashed the harness (exit 2) instead of
  being reported; the shape is now a checked clause.  C10-7 (a factorial table too short for Fringe terms above 78)
  did the same with an `IndexError` out of `get_term`.  Besides the two new clauses in C10, `harness/main.py` now
  treats *any* exception that escapes a harness as follows: when its innermost frame lies in `<repo>/optiland` the
  call that raised is a failing input (every harness catches the exceptions its property allows), reported as
  `VIOLATION` with the traceback, the raising line and the harness call in `replays/<P>_crash_<hash>.json`;
  otherwise it is an infrastructure error (exit 2) as before.
* *Seed dependence*: C09-3/4 were caught for seeds 0–2 and missed for seed 3 of the quick tier (150 cases); this led to
  the regression corpus above.

### 11.7 Regression guard: every repair reverted

`tools/revert_mutants.sh` builds, for every `fixed` entry, a scratch worktree of `/repo` HEAD with the fix commit(s)
reverted (hand-made reverse patches in `seeded/reverts/` where the automatic revert conflicts with later commits) and
runs the property's quick check on it.  {revert}  The agent-written harnesses accept either the `_code` or the `_spec`
variant of a model function where a defect had been recorded; what reports a regression to the `_code` behaviour of a
*repaired* defect is the property's own predicate (its `finding_key` belongs to a `fixed` entry, which suppresses
nothing) — the table shows that this works for every repair.

### 11.8 What is modelled, what is proved, what is only compared (summary; per property in `claims/Cxx.json` and `evidence/Cxx.json`)

* Proved in Lean ({nthm} theorems and audited helper lemmas in `Props/` at the time of writing — {percounts} —, all with axioms ⊆ {{propext,
  Classical.choice, Quot.sound}}, no `sorry`, no `native_decide`, no own axiom): statements about the hand-written
  models in `lean/OptiModel/Model/*.lean` at the carrier ℝ (or any carrier / core data where the statement is structural).
* Tied to the code on every run: the same model definitions, compiled at `Float` into the native driver `optidrv`, are
  run on the inputs the harness feeds to the real `optiland` classes; outputs are compared value by value (bit-exact
  fraction and tolerances in the evidence).  The models are transcriptions — nothing proves that `Model/Real.lean`
  *is* `real_rays.py`; the correspondence run is the tie, and its strength is bounded by the generators (§11.6).
  One definition used by theorems is *not* run by the driver: `traceLaunch` (the (1−v)³ scaling of `Optic.trace`,
  `Proofs/Launch.lean`); it is tied to the code by reading only.
* Not modelled (trusted or out of scope): NumPy/SciPy numerics (FFT, `lstsq`, optimisers — the optimiser is an arbitrary
  oracle in C14/C15), pandas string matching beyond literal substrings, matplotlib, YAML parsing, IEEE rounding
  (theorems over ℝ; Float agreement within stated tolerances), Python object identity except where the model carries
  it explicitly (C01 material identity pattern, C13 caller arrays).
* `not_applicable` in MANIFEST.json is empty: every property has a model, theorems and a correspondence run; the
  clauses that stay numerical are listed as `partial_clauses` in each evidence file and in `claims/Cxx.json`.

### 11.9 Proof-extension work (second half of the build)

Seven proof agents (fresh contexts, private copies, `PROOF_GUIDE`-style brief: theorems must be about the model's own
functions incl. root selection and branch order, explicit guards, non-vacuity examples, no `sorry`) extended the
property files; I merged after rebuilding and re-running the checks in `/verif`:

| property | before | after | main additions |
|----|----|----|----|
| C02 | 32 | 97 | `traceSurf_point_on_surface`, `traceSurf_snell` (every geometry), `traceSurf_direction_unit`, `traceLens_invariants` (induction over the surface list), geometric path = Δopd/n |
| C03 | 19 | 50 | launch geometry of every branch (`infinite_object_direction`, `…_fills_pupil`, `finite_object_start_and_aim_*`, `telecentric_*`), `vigFactor_*` incl. independence of the field order |
| C04 | 22 | 97 | `XPL_is_stop_conjugate`, cardinal points from the system matrix (principal, nodal, focal), `invariant_is_lagrange`, `chiefRay_def`, `EPD_FNO_def_*`, `magnification_def` (exposed F-C04-1) |
| C05 | 25 | 89 | `mdist_axis` (root selection on the axis, all k, both directions), mirror / plane steps, `mtrace_jet`, `traceLens_merid`, `traceLens_jet` |
| C06 | 3 | 22 | all seven closed forms: `ellipsoid_mirror_stigmatic(_rev)(_neg)`, `hyperboloid_mirror_stigmatic`, `hyperboloid_secondary_stigmatic`, `hyperbolic_surface_stigmatic`, `plano_hyperbolic_singlet`, `sphere_aplanatic`, `sphere_centre_opl` |
| C07 | 16 | 101 | `traceLens_mirX/_mirY(_asph)`, `traceLens_scale(_wavelength)`, `dummy_surface_transparent` (list level), `selectRoot_advance` |

A later round (with round 7 of the seeding, same brief plus "turn clauses the harness only checks numerically into
theorems, give every recorded finding an iff characterisation") added:

| property | before | after | main additions |
|----|----|----|----|
| C08 | 39 | 57 | `index_matched_contributes_zero`, `mirror_code_vs_spec` (iff, F-C08-2), `tsc_code_vs_spec_iff` (F-C08-3), `seidel_contrib_free_of_image_space`, `aperture_field_scaling`, `stop_shift_formulae`, `result_independent_of_history`, `aberrations_ignore_unread_edits` |
| C11 | 43 | 60 | `workingFno_is_half_inverse_marginal_slope` (and its failure for erect images), `workingFno_pupil_mag_slip_iff`, `psfSpec_peak_100_any_mask`, `psfSpec_norm_by_traced_rays` (iff), `strehl_any_mask`, `fftshift_index_convention` (even and odd grids), `mtf_symmetric`, `freq_step_times_extent` |
| C13 | 28 | 51 | `std_distance_selects_per_ray` / `_mixed_batch` (degenerate branch per ray), `traceLens_per_ray`, `batch_gather` / `batch_concat` / `batch_perm`, `nrLoop_count`, `nrCount_mono_left/right`, `nr_batches_sharing_slowest_agree`, `nr_not_batch_independent` (negation with witness), `result_independent_of_interleaving_*` |
| C15 | 37 | 39 | `used_range_sampler_state`, `used_range_sampler_block` (samplers used before a sensitivity run) |
| C12 | 48 | 73 | `dist_term_abs_differs_iff`, `distortion_inverted_image`, `fcTangential_own_z`, `fcSagittal_mirror_pair`, `centring_on_copy`, `opRmsAll_same_samples`, `fanPupil_symmetric`, `rayFan_reference_zero`; observation `fanPupil_one_point_not_chief` (confirmed on the real code: `RayFan(num_points=1)` samples P = -1 only and references that ray; `num_points = 1` is not generated by the harness, so no check raises it and it is not a listed finding) |
| C16 | 52 | 79 | `clip_blocked_iff_radius`, `traceSurf_local_frame`, `traceSurf_decentre_covariant`, `global_test_differs_witness`, `obscuration_blocks_iff`, `interact_equal_media_coating`, `propagate_vacuum_wavelength`, `intensity_le_launch`, `dark_forever` |
| C17 | 38 | 63 | `retarder_rotation_law`, `retarder_slip_is_minus_theta`, `retarder_sign_observable`, `halfWave_turns_H`, `quarterWave_45`, `fresnel_relative_index`, `rp_sign`, `polarized_zero_component`, `launch_intensity_one`, `unpolarized_is_mean_scaled` |
| C19 | 28 | 98 | Python indexing of surfaces (`pyIndex_*`, `pickup_index_round_trip`, `pyIndex_normIdxSlip_ne`), ownership of the telecentric flag (`reload_keeps_optic_flag`, `fgFlag_slip_lost_iff`), `reload_equal_under_later_edits(_spec)`, `reload_then_update_code_partial`, one round-trip law per component pair and their negative results |

A **referee pass** followed the first round: four review agents (fresh contexts, private copies, brief: is each theorem vacuous, true
for the wrong reason — the junk values `Num.inf = 0`, `x/0 = 0`, `sqrt` of a negative —, weaker than the clause, or a
restated definition?) went through C01 and C08–C20.  No main theorem was vacuous or false.  What they found and
repaired in the Props files (merged): missing non-vacuity instances on realistic lenses (C08 `SysOK` singlet, C14 a
complete optimise/undo run, C15 a compensated tolerancing run, C19 a four-surface lens with pickup and solve, C20 a
loaded file); statements that were about helper definitions instead of what the driver runs (C18 the formula
dispatcher and the regular-expression look-up of the tree, C20 the loaded lens instead of `expected`, C11 the
`grid_size × grid_size` PSF of the repaired tree, C09 the `…Spec` variants the repaired tree computes, C01 `setThickness`
/ `addSurface` / `applySolve` on the prescription itself and `media_chain_after_any_history`); clauses that had no
theorem (C01 `build_in_order`: every call succeeds and vertices are running sums; C14 `not_worse_of_minimising_oracle`,
`within_bounds_of_bounded_oracle`, any number of variables in `Proofs/OptimMulti.lean`; C11 `mtf_pipeline` and
`mtf_zero_from_cutoff`; C12 `encircledEnergy_curves`; C17 `fresnel_energy_below_critical`, `polarizer_pass_block`);
junk-value reliance made explicit (C16 `GenuineHit`/`intensity_monotone_genuine`, C13 `nrStep_displacement` guard
`N ≠ 0`); restated definitions labelled as such.  The pass also found a defect in the code: **F-C08-3** (the guard
`inv ≠ 0` of `terms_eq_classical` excludes an input the code accepts and answers with zeros).

### 11.10 Mechanisms added during the build (beyond the plan of section 9)

* **Regression corpus** (`corpus/<P>/*.json`, `harness/main.py:run_corpus`): minimised failing cases recorded on seeded
  changes; they run first in every check, independent of `VERIF_SEED`; a failing corpus case prints
  `VIOLATION property=<P> replay=<corpus file>` and the run exits 1.  Built and validated by `tools/build_corpus.sh`
  (accepted only if the replay alone fails on the changed tree and passes on `/repo`).  Their evidence goes to
  `.scratch/evidence`; the main run's evidence records `regression_corpus: {{cases, failed}}`.
* **Source-drift escalation** (`baseline/source_hashes.json`, `harness/core.py:source_drift`,
  `harness/main.py:look_harder`): an AST-normalised hash of every module of `/repo/optiland` is recorded
  (`tools/gen_source_baseline.py`, re-run after every commit to `/repo`).  When a check finds the package different
  from the baseline, the quick tier is repeated with two further seeds (within about 150 s).  The difference is never
  an alarm by itself; it only makes the search deeper exactly when the code has changed.  On the unchanged tree the
  list is empty (`source_drift: []` in the evidence).
* **leanchecker** in the thorough tier: `lake env leanchecker` re-checks the compiled declarations of the property's
  modules independently of the elaborator (`checker_cmd` in the evidence shows its exit status).
* **Replay fidelity**: every harness re-runs exactly the recorded case with `./check <P> --replay <file>`; C06 and C07
  were repaired in this respect (configuration / work seed carried in the case), found when the corpus was built.
* **Generator hygiene**: an F-number aperture on a nearly afocal random prescription means a beam of metres launched
  from kilometres away; most conditioning false alarms of the multi-seed and thorough runs came from such lenses
  (C05 seed 2, C07 seed 14, C02/C07/C09 thorough).  `lensgen.gen_lens` now turns an `imageFNO` aperture into an `EPD`
  aperture when |f2|/FNO would exceed 0.6 |R|min or 40 mm (`approx_f2`, a y-nu trace over the descriptor).
* **Thorough tier** (`./check <P> --tier thorough`, 2–15 min each; all 20 run from a committed snapshot with `vp run`):
  the first full run produced alarms on the unchanged tree in C02, C05, C07, C11, C12, C13, C14 — one genuine defect
  (F-C11-5, repaired), one new finding (F22b), one artefact of editing `/repo` while the run was going (C13: the
  magnification repair), and four classifier / domain mistakes of the harness (§11.5).
'''
open(D, 'w').write(head + new)
print('DESIGN.md sections 11.3-11.9 regenerated: %d seeds (%d as built, %d after strengthening), %d corpus cases' % (
    nseeds, n_first, n_later, ncorp))
