#!/usr/bin/env python3
"""Regenerates /verif/MANIFEST.json from the table below (single source of truth)."""
import json, os
HERE = os.path.dirname(os.path.dirname(os.path.abspath(__file__)))
TITLES = {}
for l in open(os.path.join(HERE, 'properties.jsonl')):
    p = json.loads(l)
    TITLES[p['id']] = p['title']

# pid -> (technique, level text, level note, design ref)
CLAIMED = {}
import glob
for f in sorted(glob.glob(os.path.join(HERE, 'claims', 'C*.json'))):
    c = json.load(open(f))
    CLAIMED[c['property_id']] = (c['technique'], c['level_text'], c['level_note'], c['design_ref'])
UNDER_CONSTRUCTION = 'check under construction in this session (model + correspondence planned in DESIGN.md section 5); not claimed until green'

import re
KNOWN = {}
for e in json.load(open(os.path.join(HERE, 'known_findings.json')))['findings']:
    KNOWN.setdefault(e['id'], []).append(e)


def finding_status(pid, text):
    """the claims were written while the findings were being recorded; their status today comes from known_findings.json"""
    ids = sorted(set(re.findall(r'F-C\d\d-\d+|F\d+b?', text)) | {i for i, es in KNOWN.items() if any(e['property'] == pid for e in es)})
    fixed = ['%s (%s)' % (i, e['commit']) for i in ids for e in KNOWN.get(i, []) if e['status'] == 'fixed']
    opened = [i for i in ids for e in KNOWN.get(i, []) if e['status'] == 'open' and e['property'] == pid]
    out = ' Status on the current tree (known_findings.json): '
    out += ('repaired in /repo: ' + ', '.join(dict.fromkeys(fixed)) + '; ') if fixed else ''
    out += ('recorded as open findings of this property: ' + ', '.join(dict.fromkeys(opened)) + '.') if opened else 'no open finding of this property.'
    out += (' Where the note above calls a repaired finding "the tree\'s behaviour" it describes the pinned commit; the check '
            'reports that behaviour again if it returns (tools/revert_mutants.sh).') if fixed else ''
    return out


checks = []
for pid in sorted(CLAIMED):
    tech, text, note, ref = CLAIMED[pid]
    note = note + finding_status(pid, note + ' ' + text)
    # the theorem list of today, read from the file (the prose above may predate later proof and referee passes)
    src = open(os.path.join(HERE, 'lean', 'OptiModel', 'Props', pid + '.lean')).read()
    src = re.sub(r'/-.*?-/', '', src, flags=re.S)
    names = re.findall(r'^\s*(?:private\s+|protected\s+)?theorem\s+([^\s:({\[]+)', src, flags=re.M)
    note += ' Theorems in lean/OptiModel/Props/%s.lean today (%d, helper lemmas included; every one is audited with #print axioms on each run): %s.' % (
        pid, len(names), ', '.join(names))
    checks.append({
        'property_id': pid,
        'quick_cmd': './check %s --tier quick' % pid,
        'thorough_cmd': './check %s --tier thorough' % pid,
        'evidence_file': 'evidence/%s.json' % pid,
        'replay_cmd_template': './check %s --replay {path}' % pid,
        'engine': 'lean-optimodel',
        'level_claimed': {'category': 'proof', 'text': text, 'design_ref': ref},
        'level_note': note,
        'technique': tech,
    })
man = {
 'version': 1,
 'setup_cmd': 'cd lean && lake build',
 'hooks': {
   'guard': 'OPTILAND_VERIF',
   'enable': 'export OPTILAND_VERIF=1 (set by the harness; no source hook is currently needed: every observation point is a public attribute)',
   'baseline_off_cmd': 'cd /repo && env -u OPTILAND_VERIF /venv/bin/python -m pytest -ra -q -p no:cacheprovider --timeout=900 --continue-on-collection-errors',
   'source_commits': [],
   'add_only': True,
 },
 'engines': [{'name': 'lean-optimodel', 'path': 'lean',
              'serves_properties': sorted(CLAIMED),
              'kind_free_text': 'Lean 4 project: generic executable model (Num carrier), theorems over R in Props/, native Float driver optidrv; Python harness in harness/ drives implementation and model through a hex line protocol'}],
 'checks': checks,
 'not_applicable': [{'property_id': pid, 'reason': UNDER_CONSTRUCTION} for pid in sorted(TITLES) if pid not in CLAIMED],
 'notes': 'See DESIGN.md (section 11 is the build log). Exit codes: 0 ok, 1 violation (VIOLATION line printed), 2 infrastructure failure/timeout. Every check first replays its regression corpus (corpus/<P>/*.json), then runs the seeded generator (VERIF_SEED); when /repo/optiland differs from baseline/source_hashes.json the quick tier adds two further seeds. The thorough tier also runs leanchecker on the property\'s Lean modules.',
}
json.dump(man, open(os.path.join(HERE, 'MANIFEST.json'), 'w'), indent=1)
print('claimed', sorted(CLAIMED))
