#!/usr/bin/env python3
"""tools/gen_source_baseline.py: record an AST-normalised hash of every module of /repo/optiland (comments and
layout do not matter) in baseline/source_hashes.json.  A check that finds the code under verification different from
this baseline looks harder (extra seeds), see harness/main.py; the difference by itself is never an alarm.
Re-run after every commit to /repo."""
import sys, os, json, subprocess
sys.path.insert(0, os.path.dirname(os.path.dirname(os.path.abspath(__file__))))
from harness.core import source_hashes, VERIF
repo = os.environ.get('OPTILAND_REPO', '/repo')
h = source_hashes(repo)
head = subprocess.run(['git', '-C', repo, 'rev-parse', 'HEAD'], capture_output=True, text=True).stdout.strip()
os.makedirs(os.path.join(VERIF, 'baseline'), exist_ok=True)
json.dump({'repo_head': head, 'files': h}, open(os.path.join(VERIF, 'baseline', 'source_hashes.json'), 'w'), indent=0, sort_keys=True)
print('baseline of %d modules at %s' % (len(h), head[:7]))
